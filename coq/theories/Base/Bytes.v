(** Bytes are [Z] in [0,256); big-endian 32/64-bit fields; decoder result type. *)
From WT Require Import Base.Wrap Base.ListX.

Definition byte (b : Z) : Prop := 0 <= b < 256.
Definition bytes (l : list Z) : Prop := Forall byte l.

Definition be32 (x : Z) : list Z := [x / 2^24 mod 256; x / 2^16 mod 256; x / 2^8 mod 256; x mod 256].
Definition be64 (x : Z) : list Z := be32 (x / 2^32) ++ be32 (x mod 2^32).

Definition get32 (l : list Z) : Z :=
  match l with a :: b :: c :: d :: _ => a * 2^24 + b * 2^16 + c * 2^8 + d | _ => 0 end.
Definition get64 (l : list Z) : Z := get32 l * 2^32 + get32 (skipn 4 l).

(** decoder outcomes: value and rest, "want a buffer of n bytes", or a plain error *)
Inductive res (A : Type) := Ok (a : A) (rest : list Z) | Want (n : Z) | Err.
Arguments Ok {A}. Arguments Want {A}. Arguments Err {A}.

Lemma be32_length x : length (be32 x) = 4%nat. Proof. reflexivity. Qed.
Lemma be64_length x : length (be64 x) = 8%nat. Proof. reflexivity. Qed.

Lemma get32_be32 x r : 0 <= x < 2^32 -> get32 (be32 x ++ r) = x.
Proof. intros. unfold be32, get32. cbn [app]. lia. Qed.
Lemma skipn4_be32 x r : skipn 4 (be32 x ++ r) = r. Proof. reflexivity. Qed.
Lemma get64_be64 x r : 0 <= x < 2^64 -> get64 (be64 x ++ r) = x.
Proof.
  intros. unfold get64, be64. rewrite <- app_assoc. rewrite get32_be32 by lia.
  rewrite skipn4_be32. rewrite get32_be32 by lia. lia.
Qed.
Lemma skipn8_be64 x r : skipn 8 (be64 x ++ r) = r. Proof. reflexivity. Qed.

Lemma be32_bytes x : bytes (be32 x).
Proof. unfold bytes, be32, byte. repeat constructor; lia. Qed.
Lemma be64_bytes x : bytes (be64 x).
Proof. unfold be64. apply Forall_app. split; apply be32_bytes. Qed.

Lemma get32_range l : bytes l -> 0 <= get32 l < 2^32.
Proof.
  unfold get32, bytes. destruct l as [|a [|b [|c [|d r]]]]; intros H; try lia.
  repeat match goal with Hf : Forall _ (_ :: _) |- _ => inversion Hf; clear Hf; subst end.
  unfold byte in *. lia.
Qed.
Lemma be32_get32 a b c d : byte a -> byte b -> byte c -> byte d -> be32 (get32 [a;b;c;d]) = [a;b;c;d].
Proof. unfold byte, be32, get32. intros. repeat f_equal; lia. Qed.
