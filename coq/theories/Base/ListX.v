(** List access by [Z] index, update, slices.  (Coq 8.16 lacks several of these.) *)
From WT Require Import Base.Wrap.

Definition zlen {A} (l : list A) : Z := Z.of_nat (length l).
Definition znth {A} (d : A) (l : list A) (i : Z) : A := nth (Z.to_nat i) l d.

Fixpoint upd {A} (l : list A) (i : nat) (x : A) : list A :=
  match l, i with
  | [], _ => []
  | _ :: t, O => x :: t
  | h :: t, S j => h :: upd t j x
  end.
Definition zupd {A} (l : list A) (i : Z) (x : A) : list A := upd l (Z.to_nat i) x.

Definition slice {A} (l : list A) (a b : Z) : list A :=
  firstn (Z.to_nat (b - a)) (skipn (Z.to_nat a) l).

Lemma zlen_nonneg {A} (l : list A) : 0 <= zlen l. Proof. unfold zlen. lia. Qed.
Lemma zlen_nil {A} : zlen (@nil A) = 0. Proof. reflexivity. Qed.
Lemma zlen_cons {A} (x : A) l : zlen (x :: l) = zlen l + 1.
Proof. unfold zlen. cbn [length]. rewrite Nat2Z.inj_succ. lia. Qed.
Lemma zlen_app {A} (l1 l2 : list A) : zlen (l1 ++ l2) = zlen l1 + zlen l2.
Proof. unfold zlen. rewrite app_length. lia. Qed.
Lemma zlen_repeat {A} (x : A) n : zlen (repeat x n) = Z.of_nat n.
Proof. unfold zlen. rewrite repeat_length. reflexivity. Qed.
Lemma zlen_map {A B} (f : A -> B) l : zlen (map f l) = zlen l.
Proof. unfold zlen. rewrite map_length. reflexivity. Qed.

Lemma upd_length {A} (l : list A) i x : length (upd l i x) = length l.
Proof. revert i; induction l as [|h t IH]; intros [|j]; cbn; auto. Qed.
Lemma zlen_zupd {A} (l : list A) i x : zlen (zupd l i x) = zlen l.
Proof. unfold zlen, zupd. rewrite upd_length. reflexivity. Qed.
Lemma nth_upd {A} (d : A) l i j x : (i < length l)%nat ->
  nth j (upd l i x) d = if Nat.eqb j i then x else nth j l d.
Proof.
  revert i j; induction l as [|h t IH]; intros i j Hi; cbn in Hi; [lia|].
  destruct i as [|i], j as [|j]; cbn; auto. apply IH. lia.
Qed.
Lemma znth_zupd {A} (d : A) (l : list A) i j x : 0 <= i < zlen l -> 0 <= j ->
  znth d (zupd l i x) j = if j =? i then x else znth d l j.
Proof.
  intros Hi Hj. unfold znth, zupd, zlen in *. rewrite nth_upd by lia.
  destruct (Nat.eqb_spec (Z.to_nat j) (Z.to_nat i)); destruct (Z.eqb_spec j i); try lia; reflexivity.
Qed.

Lemma nth_firstn' {A} (d : A) (l : list A) n k : (k < n)%nat -> nth k (firstn n l) d = nth k l d.
Proof.
  revert l k; induction n as [|n IH]; intros l k Hk; [lia|].
  destruct l as [|h t]; cbn; [destruct k; reflexivity|]. destruct k; [reflexivity|]. apply IH; lia.
Qed.
Lemma nth_skipn' {A} (d : A) (l : list A) n k : nth k (skipn n l) d = nth (n + k) l d.
Proof.
  revert l; induction n as [|n IH]; intros l; cbn; [reflexivity|].
  destruct l as [|h t]; cbn; [destruct k; reflexivity|]. apply IH.
Qed.
Lemma slice_length {A} (l : list A) a b : 0 <= a <= b -> b <= zlen l -> zlen (slice l a b) = b - a.
Proof. intros. unfold slice, zlen in *. rewrite firstn_length, skipn_length. lia. Qed.
Lemma znth_slice {A} (d : A) (l : list A) a b k : 0 <= a <= b -> b <= zlen l -> 0 <= k < b - a ->
  znth d (slice l a b) k = znth d l (a + k).
Proof.
  intros Ha Hb Hk. unfold znth, slice, zlen in *.
  rewrite nth_firstn' by lia. rewrite nth_skipn'. f_equal. lia.
Qed.
Lemma znth_app_l {A} (d : A) (l1 l2 : list A) k : 0 <= k < zlen l1 -> znth d (l1 ++ l2) k = znth d l1 k.
Proof. intros. unfold znth, zlen in *. apply app_nth1. lia. Qed.
Lemma znth_app_r {A} (d : A) (l1 l2 : list A) k : zlen l1 <= k -> znth d (l1 ++ l2) k = znth d l2 (k - zlen l1).
Proof. intros. unfold znth, zlen in *. rewrite app_nth2 by lia. f_equal. lia. Qed.
Lemma znth_repeat_same {A} (d : A) n k : znth d (repeat d n) k = d.
Proof. unfold znth. apply nth_repeat. Qed.
Lemma znth_map {A B} (f : A -> B) (da : A) (db : B) l k : 0 <= k < zlen l ->
  znth db (map f l) k = f (znth da l k).
Proof.
  intros. unfold znth, zlen in *. rewrite nth_indep with (d' := f da) by (rewrite map_length; lia).
  apply map_nth.
Qed.
