(** Fixed-width integer conventions.  Every Go integer is a [Z]; the wrap that the
    Go type performs is written out with [u32], [i32], [i64].  Go's [/] and [%] are
    [Z.quot] and [Z.rem]. *)
From Coq Require Export ZArith Lia Bool List.
From Coq Require Export ZifyBool.
Export ListNotations.
Open Scope Z_scope.

Definition u32 (x : Z) : Z := x mod 2^32.
Definition i32 (x : Z) : Z := (x + 2^31) mod 2^32 - 2^31.
Definition u64 (x : Z) : Z := x mod 2^64.
Definition i64 (x : Z) : Z := (x + 2^63) mod 2^64 - 2^63.

(** floor_mod.go *)
Definition floorMod (x y : Z) : Z :=
  let m := Z.rem x y in
  if (m =? 0) || (((x >=? 0) && (y >? 0)) || ((x <? 0) && (y <? 0))) then m else m + y.

Lemma floorMod_mod x y : y <> 0 -> floorMod x y = x mod y.
Proof.
  intros Hy. unfold floorMod.
  pose proof (Z.quot_rem' x y) as Hqr.
  pose proof (Z.rem_bound_abs x y Hy) as Hb.
  pose proof (Z.rem_nonneg x y Hy) as Hp. pose proof (Z.rem_nonpos x y Hy) as Hn.
  set (r := Z.rem x y) in *. set (q := Z.quot x y) in *.
  destruct (r =? 0) eqn:E0; cbn [orb].
  - apply Zmod_unique_full with (q := q); [|lia]. unfold Remainder. lia.
  - destruct ((x >=? 0) && (y >? 0) || (x <? 0) && (y <? 0)) eqn:E1.
    + apply Zmod_unique_full with (q := q); [|lia]. unfold Remainder. lia.
    + apply Zmod_unique_full with (q := q - 1); [|lia]. unfold Remainder. lia.
Qed.

Lemma quot_div_nonneg x y : 0 <= x -> 0 < y -> Z.quot x y = x / y.
Proof. intros. apply Z.quot_div_nonneg; lia. Qed.

Ltac Zify.zify_post_hook ::= Z.div_mod_to_equations.

Lemma u32_small x : 0 <= x < 2^32 -> u32 x = x.
Proof. intros. unfold u32. lia. Qed.
Lemma i32_small x : - 2^31 <= x < 2^31 -> i32 x = x.
Proof. intros. unfold i32. lia. Qed.
Lemma u32_range x : 0 <= u32 x < 2^32.
Proof. unfold u32. lia. Qed.
Lemma i32_range x : - 2^31 <= i32 x < 2^31.
Proof. unfold i32. lia. Qed.
