(** Extraction of the executable model for the correspondence check.
    Only ExtrOcamlBasic is used: bool, option, unit, list, prod, sumbool become the
    native OCaml types; Z, positive, N stay extracted inductives. No Extract Constant. *)
From Coq Require Import ExtrOcamlBasic.
From WT Require Import Base.Wrap Base.ListX Base.Bytes Model.Time Model.Ring Model.Update
  Model.Codec Model.Handle Model.Text Model.Args Model.Cmd Model.World Model.Generate Model.Query Model.Wire Model.Server Model.Path Model.FileImage Model.GoWhisperRef Model.Lock Inst.FloatInst.
Extraction "wtmodel.ml"
  create sync reopen create_over h_update h_update_many h_fetch h_dfetch h_raw h_header series_times h_fetch_clock h_update_clock h_update_many_clock w_fetch w_update w_update_many
  enc_ts enc_dur enc_val enc_point enc_points enc_series enc_ainfo enc_header
  dec_ts dec_dur dec_val dec_point dec_points_msg dec_series dec_ainfo dec_header
  new_header expected_file_size
  parse_duration duration_string parse_timestamp timestamp_string parse_archive_info
  parse_archive_info_list archive_list_string method_of_string method_string flag_method
  fl_flag_xff fl_sub fl_of_int gen_verdict gen_ok q_escape q_unescape parse_query textout_status textout_runs
  handle_view handle_sum handle_view_raw view_query client_view client_view_raw parse_command run_copies run_sum_copies wget copy_one diff_one sum_item sum_copy_item sum_diff_item run_diffs view_cmd view_raw_cmd generate_cmd generate_checked read_file
  has_meta is_base_url path_clean path_join phys_name eq_range_step series_equal diff_points series_points points_equal points_diff
  open_image image_handle gw_fetch encode_image counter_final
  flocq_fops.
