(** Extraction of the executable model for the correspondence check.
    Only ExtrOcamlBasic is used: bool, option, unit, list, prod, sumbool become the
    native OCaml types; Z, positive, N stay extracted inductives. No Extract Constant. *)
From Coq Require Import ExtrOcamlBasic.
From WT Require Import Base.Wrap Base.ListX Base.Bytes Model.Time Model.Ring Model.Update
  Model.Codec Model.Handle Inst.FloatInst.
Extraction "wtmodel.ml"
  create sync reopen h_update h_update_many h_fetch h_dfetch h_raw series_times
  flocq_fops.
