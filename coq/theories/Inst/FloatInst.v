(** Execution instance of the float operations: IEEE binary64/binary32 from Flocq on
    bit patterns.  Used only for running the model (extraction / vm_compute). *)
From Coq Require Import ZArith.
From Flocq Require Import IEEE754.BinarySingleNaN IEEE754.Binary IEEE754.Bits.
From WT Require Import Model.Update.
Open Scope Z_scope.

Definition b64_of_int (n : Z) : binary64 := binary_normalize 53 1024 eq_refl eq_refl mode_NE n 0 false.
Definition b32_of_int (n : Z) : binary32 := binary_normalize 24 128 eq_refl eq_refl mode_NE n 0 false.

Definition fl_add (a b : Z) : Z := bits_of_b64 (b64_plus mode_NE (b64_of_bits a) (b64_of_bits b)).
Definition fl_div_len (a n : Z) : Z := bits_of_b64 (b64_div mode_NE (b64_of_bits a) (b64_of_int n)).
Definition fl_lt (a b : Z) : bool :=
  match b64_compare (b64_of_bits a) (b64_of_bits b) with Some Lt => true | _ => false end.
Definition fl_frac_lt (k n xff : Z) : bool :=
  match b32_compare (b32_div mode_NE (b32_of_int k) (b32_of_int n)) (b32_of_bits xff) with
  | Some Lt => true | _ => false end.

Definition fl_sub (a b : Z) : Z := bits_of_b64 (b64_minus mode_NE (b64_of_bits a) (b64_of_bits b)).

Definition flocq_fops : fops := mkFops 0 fl_add fl_div_len fl_lt fl_frac_lt.

(** Value(n) for an integer n (C20: the bound of generated values) *)
Definition fl_of_int (n : Z) : Z := bits_of_b64 (b64_of_int n).

(** float64 -> float32 conversion (round to nearest even), as Go's float32(f) *)
Definition fl_f64_to_f32 (b : Z) : Z :=
  match b64_of_bits b with
  | Binary.B754_zero _ _ s => bits_of_b32 (Binary.B754_zero 24 128 s)
  | Binary.B754_infinity _ _ s => bits_of_b32 (Binary.B754_infinity 24 128 s)
  | Binary.B754_finite _ _ s m e _ =>
      bits_of_b32 (binary_normalize 24 128 eq_refl eq_refl mode_NE (SpecFloat.cond_Zopp s (Zpos m)) e s)
  | Binary.B754_nan _ _ _ _ _ => 0x7FC00000
  end.

(** [xFilesFactorValue.Set] after strconv.ParseFloat(s, 32) returned the float64 [pf]:
    accepted iff 0 <= f <= 1 (NaN fails both comparisons), stored as float32(f) *)
Definition fl_flag_xff (pf : Z) : option Z :=
  let f := b64_of_bits pf in
  match b64_compare (b64_of_int 0) f, b64_compare f (b64_of_int 1) with
  | Some Lt, Some Lt | Some Lt, Some Eq | Some Eq, Some Lt | Some Eq, Some Eq => Some (fl_f64_to_f32 pf)
  | _, _ => None
  end.
