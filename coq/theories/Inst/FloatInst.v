(** Execution instance of the float operations: IEEE binary64/binary32 from Flocq on
    bit patterns.  Used only for running the model (extraction / vm_compute). *)
From Coq Require Import ZArith.
From Flocq Require Import IEEE754.BinarySingleNaN IEEE754.Binary IEEE754.Bits.
From WT Require Import Model.Update.
Open Scope Z_scope.

Definition b64_of_int (n : Z) : binary64 := binary_normalize 53 1024 eq_refl eq_refl mode_NE n 0 false.
Definition b32_of_int (n : Z) : binary32 := binary_normalize 24 128 eq_refl eq_refl mode_NE n 0 false.

Definition fl_add (a b : Z) : Z := bits_of_b64 (b64_plus mode_NE (b64_of_bits a) (b64_of_bits b)).
Definition fl_div_len (a n : Z) : Z := bits_of_b64 (b64_div mode_NE (b64_of_bits a) (b64_of_int n)).
Definition fl_lt (a b : Z) : bool :=
  match b64_compare (b64_of_bits a) (b64_of_bits b) with Some Lt => true | _ => false end.
Definition fl_frac_lt (k n xff : Z) : bool :=
  match b32_compare (b32_div mode_NE (b32_of_int k) (b32_of_int n)) (b32_of_bits xff) with
  | Some Lt => true | _ => false end.

Definition flocq_fops : fops := mkFops 0 fl_add fl_div_len fl_lt fl_frac_lt.
