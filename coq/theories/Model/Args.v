(** The front door of every command: cmd/*.go [Parse] (which flags a command defines, their
    defaults, the value syntaxes of cmd/flags.go, the checks made after parsing) on top of the
    argument syntax of Go's flag package ([FlagSet.parseOne]: "-name", "--name", "-name=value",
    "-name value", boolean flags without a value, "--" and the first non-flag argument end the
    flags).  cmd/whispertool/main.go creates the flag set with ExitOnError: a malformed argument
    ends the process with status 2 before [Execute] (and "-h" / "-help" with status 0); an error
    returned by [Parse] is printed and gives status 2 as well.

    Strings are lists of byte codes.  strconv.ParseFloat of the x-files-factor value is not
    modelled: its result is a parameter ([parse_f64]); what the flag does with the number is
    [fl_flag_xff].  Integers follow strconv.ParseInt(s, 0, 64) without the underscore syntax
    (the generators emit none). *)
From Coq Require Import String Ascii.
From WT Require Import Base.Wrap Base.ListX Base.Bytes Model.Time Model.Ring Model.Codec Model.Text.

Definition codes (s : string) : list Z := map (fun a => Z.of_nat (nat_of_ascii a)) (list_ascii_of_string s).
(** string literals are turned into their byte codes when the definition is read (no [string] in
    the extracted model) *)
Notation lit s := (ltac:(let x := eval vm_compute in (codes s%string) in exact x)) (only parsing).
Notation lits l := (ltac:(let x := eval vm_compute in (map codes l%string) in exact x)) (only parsing).

Inductive flag :=
| FSrcBase | FSrc | FDestBase | FDest | FItem | FAggMethod | FXff | FRetentions | FFrom | FUntil
| FArchive | FTextOut | FCopyNaN | FHeader | FSort | FPerm | FMax | FFill | FAddr | FBase.

Definition flag_name (f : flag) : list Z :=
  match f with
  | FSrcBase => lit "src-base"
  | FSrc => lit "src"
  | FDestBase => lit "dest-base"
  | FDest => lit "dest"
  | FItem => lit "item"
  | FAggMethod => lit "agg-method"
  | FXff => lit "x-files-factor"
  | FRetentions => lit "retentions"
  | FFrom => lit "from"
  | FUntil => lit "until"
  | FArchive => lit "archive"
  | FTextOut => lit "text-out"
  | FCopyNaN => lit "copy-nan"
  | FHeader => lit "header"
  | FSort => lit "sort"
  | FPerm => lit "perm"
  | FMax => lit "max"
  | FFill => lit "fill"
  | FAddr => lit "addr"
  | FBase => lit "base"
  end.

Definition is_bool_flag (f : flag) : bool :=
  match f with FCopyNaN | FHeader | FSort | FFill => true | _ => false end.

Inductive command := CCopy | CDiff | CGenerate | CSum | CSumCopy | CSumDiff | CView | CViewRaw | CServer.

(** the flags each command defines *)
Definition flags_of (c : command) : list flag :=
  match c with
  | CCopy => [FSrcBase; FSrc; FDestBase; FDest; FAggMethod; FXff; FRetentions; FFrom; FUntil; FArchive; FTextOut; FCopyNaN]
  | CDiff => [FSrcBase; FSrc; FDestBase; FDest; FArchive; FTextOut; FFrom; FUntil]
  | CGenerate => [FDest; FPerm; FAggMethod; FXff; FRetentions; FMax; FFill; FTextOut]
  | CServer => [FAddr; FBase]
  | CSum => [FSrcBase; FItem; FSrc; FArchive; FTextOut; FHeader; FFrom; FUntil]
  | CSumCopy => [FSrcBase; FItem; FSrc; FDestBase; FDest; FAggMethod; FXff; FRetentions; FFrom; FUntil; FArchive; FTextOut]
  | CSumDiff => [FSrcBase; FItem; FSrc; FDestBase; FDest; FArchive; FTextOut; FFrom; FUntil]
  | CView => [FSrcBase; FSrc; FFrom; FUntil; FArchive; FTextOut; FHeader]
  | CViewRaw => [FSrcBase; FSrc; FFrom; FUntil; FArchive; FHeader; FSort; FTextOut]
  end.

(** the fields of all command structs in one record *)
Record opts := mkOpts {
  o_src_base : list Z; o_src : list Z; o_dest_base : list Z; o_dest : list Z; o_item : list Z;
  o_method : Z;                       (* 0: not given *)
  o_xff : Z;                          (* float32 bits *)
  o_layout : option (list ainfo);     (* None: not given *)
  o_from : Z; o_until : Z; o_archive : Z;
  o_textout : list Z;
  o_copy_nan : bool; o_header : bool; o_sort : bool;
  o_perm : Z; o_max : Z; o_fill : bool;
  o_addr : list Z; o_base : list Z }.

Definition defaults (c : command) : opts :=
  mkOpts [] [] [] [] [] 0 0 None 0 0 (-1)
         (match c with CGenerate => [] | _ => [45] end)
         false true false 420 100 true
         (lit ":8080") [46].

(** ** value syntaxes *)
(** strconv.ParseBool *)
Definition parse_bool (s : list Z) : option bool :=
  if existsb (list_eqb s) (lits ["1"; "t"; "T"; "TRUE"; "true"; "True"]) then Some true
  else if existsb (list_eqb s) (lits ["0"; "f"; "F"; "FALSE"; "false"; "False"]) then Some false
  else None.

Definition digit_val (c : Z) : option Z :=
  if (48 <=? c) && (c <=? 57) then Some (c - 48)
  else if (97 <=? c) && (c <=? 122) then Some (c - 97 + 10)
  else if (65 <=? c) && (c <=? 90) then Some (c - 65 + 10)
  else None.
Fixpoint digits_in (base : Z) (s : list Z) (acc : Z) : option Z :=
  match s with
  | [] => Some acc
  | c :: r => match digit_val c with
              | Some d => if d <? base then digits_in base r (acc * base + d) else None
              | None => None
              end
  end.
Definition lower (c : Z) : Z := if (65 <=? c) && (c <=? 90) then c + 32 else c.
(** strconv.ParseUint(s, 0, 64) without underscores: the magnitude *)
Definition parse_uint0 (s : list Z) : option Z :=
  match s with
  | [] => None
  | 48 :: r =>
    match r with
    | p :: d :: r' =>
      if lower p =? 98 then digits_in 2 (d :: r') 0
      else if lower p =? 111 then digits_in 8 (d :: r') 0
      else if lower p =? 120 then digits_in 16 (d :: r') 0
      else digits_in 8 r 0
    | _ => digits_in 8 r 0
    end
  | _ => digits_in 10 s 0
  end.
(** strconv.ParseInt(s, 0, 64) *)
Definition parse_int0 (s : list Z) : option Z :=
  match s with
  | [] => None
  | c :: r =>
    let '(neg, body) := if c =? 43 then (false, r) else if c =? 45 then (true, r) else (false, s) in
    match body with
    | [] => None
    | _ => match parse_uint0 body with
           | Some v => if neg then (if v <=? 2^63 then Some (- v) else None)
                       else (if v <? 2^63 then Some v else None)
           | None => None
           end
    end
  end.
(** strconv.ParseUint(s, 8, 32) of [fileModeValue.Set] *)
Definition parse_perm (s : list Z) : option Z :=
  match s with
  | [] => None
  | _ => match digits_in 8 s 0 with
         | Some v => if v <? 2^32 then Some v else None
         | None => None
         end
  end.

Section Parse.
  (** strconv.ParseFloat(s, 32) as a float64 bit pattern (None: syntax or range error) and what
      [xFilesFactorValue.Set] makes of it *)
  Variable parse_f64 : list Z -> option Z.
  Variable flag_xff : Z -> option Z.

  (** [Value.Set] of the flag: the new options, or None when the value is rejected *)
  Definition set_flag (f : flag) (v : list Z) (o : opts) : option opts :=
    let upd_str (k : opts -> opts) := Some (k o) in
    match f with
    | FSrcBase => Some (mkOpts v (o_src o) (o_dest_base o) (o_dest o) (o_item o) (o_method o) (o_xff o) (o_layout o) (o_from o) (o_until o) (o_archive o) (o_textout o) (o_copy_nan o) (o_header o) (o_sort o) (o_perm o) (o_max o) (o_fill o) (o_addr o) (o_base o))
    | FSrc => Some (mkOpts (o_src_base o) v (o_dest_base o) (o_dest o) (o_item o) (o_method o) (o_xff o) (o_layout o) (o_from o) (o_until o) (o_archive o) (o_textout o) (o_copy_nan o) (o_header o) (o_sort o) (o_perm o) (o_max o) (o_fill o) (o_addr o) (o_base o))
    | FDestBase => Some (mkOpts (o_src_base o) (o_src o) v (o_dest o) (o_item o) (o_method o) (o_xff o) (o_layout o) (o_from o) (o_until o) (o_archive o) (o_textout o) (o_copy_nan o) (o_header o) (o_sort o) (o_perm o) (o_max o) (o_fill o) (o_addr o) (o_base o))
    | FDest => Some (mkOpts (o_src_base o) (o_src o) (o_dest_base o) v (o_item o) (o_method o) (o_xff o) (o_layout o) (o_from o) (o_until o) (o_archive o) (o_textout o) (o_copy_nan o) (o_header o) (o_sort o) (o_perm o) (o_max o) (o_fill o) (o_addr o) (o_base o))
    | FItem => Some (mkOpts (o_src_base o) (o_src o) (o_dest_base o) (o_dest o) v (o_method o) (o_xff o) (o_layout o) (o_from o) (o_until o) (o_archive o) (o_textout o) (o_copy_nan o) (o_header o) (o_sort o) (o_perm o) (o_max o) (o_fill o) (o_addr o) (o_base o))
    | FAggMethod =>
      match flag_method v with
      | Some m => Some (mkOpts (o_src_base o) (o_src o) (o_dest_base o) (o_dest o) (o_item o) m (o_xff o) (o_layout o) (o_from o) (o_until o) (o_archive o) (o_textout o) (o_copy_nan o) (o_header o) (o_sort o) (o_perm o) (o_max o) (o_fill o) (o_addr o) (o_base o))
      | None => None
      end
    | FXff =>
      match parse_f64 v with
      | Some pf => match flag_xff pf with
                   | Some x => Some (mkOpts (o_src_base o) (o_src o) (o_dest_base o) (o_dest o) (o_item o) (o_method o) x (o_layout o) (o_from o) (o_until o) (o_archive o) (o_textout o) (o_copy_nan o) (o_header o) (o_sort o) (o_perm o) (o_max o) (o_fill o) (o_addr o) (o_base o))
                   | None => None
                   end
      | None => None
      end
    | FRetentions =>
      match parse_archive_info_list v with
      | Some l => Some (mkOpts (o_src_base o) (o_src o) (o_dest_base o) (o_dest o) (o_item o) (o_method o) (o_xff o) (Some l) (o_from o) (o_until o) (o_archive o) (o_textout o) (o_copy_nan o) (o_header o) (o_sort o) (o_perm o) (o_max o) (o_fill o) (o_addr o) (o_base o))
      | None => None
      end
    | FFrom =>
      match parse_timestamp v with
      | Some t => Some (mkOpts (o_src_base o) (o_src o) (o_dest_base o) (o_dest o) (o_item o) (o_method o) (o_xff o) (o_layout o) t (o_until o) (o_archive o) (o_textout o) (o_copy_nan o) (o_header o) (o_sort o) (o_perm o) (o_max o) (o_fill o) (o_addr o) (o_base o))
      | None => None
      end
    | FUntil =>
      match parse_timestamp v with
      | Some t => Some (mkOpts (o_src_base o) (o_src o) (o_dest_base o) (o_dest o) (o_item o) (o_method o) (o_xff o) (o_layout o) (o_from o) t (o_archive o) (o_textout o) (o_copy_nan o) (o_header o) (o_sort o) (o_perm o) (o_max o) (o_fill o) (o_addr o) (o_base o))
      | None => None
      end
    | FArchive =>
      match parse_int0 v with
      | Some n => Some (mkOpts (o_src_base o) (o_src o) (o_dest_base o) (o_dest o) (o_item o) (o_method o) (o_xff o) (o_layout o) (o_from o) (o_until o) n (o_textout o) (o_copy_nan o) (o_header o) (o_sort o) (o_perm o) (o_max o) (o_fill o) (o_addr o) (o_base o))
      | None => None
      end
    | FTextOut => Some (mkOpts (o_src_base o) (o_src o) (o_dest_base o) (o_dest o) (o_item o) (o_method o) (o_xff o) (o_layout o) (o_from o) (o_until o) (o_archive o) v (o_copy_nan o) (o_header o) (o_sort o) (o_perm o) (o_max o) (o_fill o) (o_addr o) (o_base o))
    | FCopyNaN =>
      match parse_bool v with
      | Some b => Some (mkOpts (o_src_base o) (o_src o) (o_dest_base o) (o_dest o) (o_item o) (o_method o) (o_xff o) (o_layout o) (o_from o) (o_until o) (o_archive o) (o_textout o) b (o_header o) (o_sort o) (o_perm o) (o_max o) (o_fill o) (o_addr o) (o_base o))
      | None => None
      end
    | FHeader =>
      match parse_bool v with
      | Some b => Some (mkOpts (o_src_base o) (o_src o) (o_dest_base o) (o_dest o) (o_item o) (o_method o) (o_xff o) (o_layout o) (o_from o) (o_until o) (o_archive o) (o_textout o) (o_copy_nan o) b (o_sort o) (o_perm o) (o_max o) (o_fill o) (o_addr o) (o_base o))
      | None => None
      end
    | FSort =>
      match parse_bool v with
      | Some b => Some (mkOpts (o_src_base o) (o_src o) (o_dest_base o) (o_dest o) (o_item o) (o_method o) (o_xff o) (o_layout o) (o_from o) (o_until o) (o_archive o) (o_textout o) (o_copy_nan o) (o_header o) b (o_perm o) (o_max o) (o_fill o) (o_addr o) (o_base o))
      | None => None
      end
    | FPerm =>
      match parse_perm v with
      | Some n => Some (mkOpts (o_src_base o) (o_src o) (o_dest_base o) (o_dest o) (o_item o) (o_method o) (o_xff o) (o_layout o) (o_from o) (o_until o) (o_archive o) (o_textout o) (o_copy_nan o) (o_header o) (o_sort o) n (o_max o) (o_fill o) (o_addr o) (o_base o))
      | None => None
      end
    | FMax =>
      match parse_int0 v with
      | Some n => Some (mkOpts (o_src_base o) (o_src o) (o_dest_base o) (o_dest o) (o_item o) (o_method o) (o_xff o) (o_layout o) (o_from o) (o_until o) (o_archive o) (o_textout o) (o_copy_nan o) (o_header o) (o_sort o) (o_perm o) n (o_fill o) (o_addr o) (o_base o))
      | None => None
      end
    | FFill =>
      match parse_bool v with
      | Some b => Some (mkOpts (o_src_base o) (o_src o) (o_dest_base o) (o_dest o) (o_item o) (o_method o) (o_xff o) (o_layout o) (o_from o) (o_until o) (o_archive o) (o_textout o) (o_copy_nan o) (o_header o) (o_sort o) (o_perm o) (o_max o) b (o_addr o) (o_base o))
      | None => None
      end
    | FAddr => Some (mkOpts (o_src_base o) (o_src o) (o_dest_base o) (o_dest o) (o_item o) (o_method o) (o_xff o) (o_layout o) (o_from o) (o_until o) (o_archive o) (o_textout o) (o_copy_nan o) (o_header o) (o_sort o) (o_perm o) (o_max o) (o_fill o) v (o_base o))
    | FBase => Some (mkOpts (o_src_base o) (o_src o) (o_dest_base o) (o_dest o) (o_item o) (o_method o) (o_xff o) (o_layout o) (o_from o) (o_until o) (o_archive o) (o_textout o) (o_copy_nan o) (o_header o) (o_sort o) (o_perm o) (o_max o) (o_fill o) (o_addr o) v)
    end.

  (** ** the argument syntax of the flag package *)
  Inductive flags_res := FlagsOk (o : opts) | FlagsBad | FlagsHelp.

  (** "name=value" split at the first '=' that is not the first character *)
  Fixpoint split_eq (s : list Z) (acc : list Z) : list Z * option (list Z) :=
    match s with
    | [] => (rev acc, None)
    | c :: r => if (c =? 61) && negb (match acc with [] => true | _ => false end)
                then (rev acc, Some r) else split_eq r (c :: acc)
    end.

  Definition find_flag (c : command) (name : list Z) : option flag :=
    find (fun f => list_eqb (flag_name f) name) (flags_of c).

  Fixpoint parse_flags (c : command) (fuel : nat) (args : list (list Z)) (o : opts) : flags_res :=
    match fuel with
    | O => FlagsOk o
    | S fuel' =>
      match args with
      | [] => FlagsOk o
      | s :: rest =>
        match s with
        | c0 :: c1 :: tl =>
          (* at least two characters, starting with '-' *)
          if negb (c0 =? 45) then FlagsOk o else
          let body := if c1 =? 45 then tl else c1 :: tl in
          if (c1 =? 45) && (match tl with [] => true | _ => false end) then FlagsOk o      (* "--" *)
          else
            match body with
            | [] => FlagsBad
            | b0 :: _ =>
              if (b0 =? 45) || (b0 =? 61) then FlagsBad
              else
                let '(name, val) := split_eq body [] in
                match find_flag c name with
                | None => if list_eqb name [104;101;108;112] || list_eqb name [104] then FlagsHelp else FlagsBad
                | Some f =>
                  if is_bool_flag f then
                    match set_flag f (match val with Some v => v | None => [116;114;117;101] end) o with
                    | Some o' => parse_flags c fuel' rest o'
                    | None => FlagsBad
                    end
                  else
                    match val with
                    | Some v => match set_flag f v o with
                                | Some o' => parse_flags c fuel' rest o'
                                | None => FlagsBad
                                end
                    | None =>
                      match rest with
                      | v :: rest' => match set_flag f v o with
                                      | Some o' => parse_flags c fuel' rest' o'
                                      | None => FlagsBad
                                      end
                      | [] => FlagsBad            (* flag needs an argument *)
                      end
                    end
                end
            end
        | _ => FlagsOk o        (* "", "-", or a non-flag argument: the flags end here *)
        end
      end
    end.

  (** ** the checks of [Parse] after the flags *)
  Definition is_empty (s : list Z) : bool := match s with [] => true | _ => false end.
  Fixpoint has_prefix (p s : list Z) : bool :=
    match p, s with
    | [], _ => true
    | x :: p', y :: s' => (x =? y) && has_prefix p' s'
    | _, [] => false
    end.
  Definition is_base_url (s : list Z) : bool :=
    has_prefix (lit "http://") s || has_prefix (lit "https://") s.
  (** glob meta characters: asterisk, question mark, opening bracket, backslash *)
  Definition has_meta (s : list Z) : bool := existsb (fun c => (c =? 42) || (c =? 63) || (c =? 91) || (c =? 92)) s.

  (** the first complaint, as [Parse] makes them in order: Some (the option that is required),
      or Some [] for the other errors *)
  Inductive complaint := Required (f : flag) | DestBaseIsURL | DestWithMeta | FromAfterUntil.

  Definition req (f : flag) (missing : bool) (k : option complaint) : option complaint :=
    if missing then Some (Required f) else k.
  Definition chk (bad : bool) (what : complaint) (k : option complaint) : option complaint :=
    if bad then Some what else k.

  Definition validate_opts (c : command) (o : opts) : option complaint :=
    let no_layout := match o_layout o with None => true | Some _ => false end in
    match c with
    | CCopy =>
      req FSrcBase (is_empty (o_src_base o)) (req FSrc (is_empty (o_src o)) (req FDestBase (is_empty (o_dest_base o))
      (chk (is_base_url (o_dest_base o)) DestBaseIsURL
      (chk (negb (is_empty (o_dest o)) && has_meta (o_src o)) DestWithMeta
      (req FAggMethod (o_method o =? 0) (req FRetentions no_layout
      (chk (o_until o <? o_from o) FromAfterUntil None)))))))
    | CDiff =>
      req FSrcBase (is_empty (o_src_base o)) (req FSrc (is_empty (o_src o)) (req FDestBase (is_empty (o_dest_base o))
      (chk (negb (is_empty (o_dest o)) && has_meta (o_src o)) DestWithMeta
      (chk (o_until o <? o_from o) FromAfterUntil None))))
    | CGenerate =>
      req FAggMethod (o_method o =? 0) (req FRetentions no_layout (req FDest (is_empty (o_dest o)) None))
    | CServer => None
    | CSum =>
      req FItem (is_empty (o_item o)) (req FSrcBase (is_empty (o_src_base o)) (req FSrc (is_empty (o_src o))
      (chk (o_until o <? o_from o) FromAfterUntil None)))
    | CSumCopy =>
      req FItem (is_empty (o_item o)) (req FSrcBase (is_empty (o_src_base o)) (req FSrc (is_empty (o_src o))
      (req FDestBase (is_empty (o_dest_base o)) (chk (is_base_url (o_dest_base o)) DestBaseIsURL
      (req FDest (is_empty (o_dest o)) (req FAggMethod (o_method o =? 0) (req FRetentions no_layout None)))))))
    | CSumDiff =>
      req FItem (is_empty (o_item o)) (req FSrcBase (is_empty (o_src_base o)) (req FSrc (is_empty (o_src o))
      (req FDestBase (is_empty (o_dest_base o)) (req FDest (is_empty (o_dest o)) None))))
    | CView | CViewRaw =>
      req FSrcBase (is_empty (o_src_base o)) (req FSrc (is_empty (o_src o))
      (chk (o_until o <? o_from o) FromAfterUntil None))
    end.

  (** what happens before [Execute] *)
  Inductive parse_res :=
  | PExit2            (* the flag package rejected an argument: usage, status 2 *)
  | PHelp             (* -h / -help: usage, status 0 *)
  | PErr (why : complaint)   (* Parse returned an error: printed, status 2 *)
  | PRun (o : opts).         (* Execute runs with these options *)

  Definition parse_command (c : command) (args : list (list Z)) : parse_res :=
    match parse_flags c (S (length args)) args (defaults c) with
    | FlagsBad => PExit2
    | FlagsHelp => PHelp
    | FlagsOk o => match validate_opts c o with
                   | Some why => PErr why
                   | None => PRun o
                   end
    end.
End Parse.
