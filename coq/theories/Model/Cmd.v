(** cmd/*.go — the commands as functions of the files they read, the options and the clock.
    A file is a [handle] (Model/Handle.v); a command opens the path afresh, so it sees the
    disk state.  Text output is a list of records (float formatting is not modelled: the
    harness parses the printed values back to bits). *)
From WT Require Import Base.Wrap Base.ListX Base.Bytes Model.Time Model.Ring Model.Update Model.Codec Model.Handle.

(** ** Values (timeseries.go): NaN-aware equality, Add, Diff *)
Definition is_nan (v : Z) : bool := ((v / 2^52) mod 2^11 =? 2047) && negb (v mod 2^52 =? 0).
Definition is_zero_bits (v : Z) : bool := (v =? 0) || (v =? 2^63).
(** [Value.Equal]: both NaN, or neither NaN and IEEE-equal (equal bits, or both zeros) *)
Definition veq (v u : Z) : bool :=
  (is_nan v && is_nan u) ||
  (negb (is_nan v) && negb (is_nan u) && ((v =? u) || (is_zero_bits v && is_zero_bits u))).
(** [Value.Add] *)
Definition vadd (F : fops) (v u : Z) : Z := if is_nan v then u else if is_nan u then v else f_add F v u.
(** [Value.Diff]; the subtraction is an abstract operation *)
Definition vdiff (fsub : Z -> Z -> Z) (v u : Z) : Z := if is_nan v || is_nan u then NaN else fsub v u.

Fixpoint opt_all {A} (l : list (option A)) : option (list A) :=
  match l with
  | [] => Some []
  | None :: _ => None
  | Some x :: r => match opt_all r with Some xs => Some (x :: xs) | None => None end
  end.

(** ** TimeSeries / TimeSeriesList *)
Definition empty_series (step : Z) : series := mkSeries 0 0 step [].

(** [TimeSeries.Points] *)
Fixpoint points_from (from step i : Z) (vs : list Z) : list point :=
  match vs with
  | [] => []
  | v :: r => mkPoint (ts_add from (i32 (i * step))) v :: points_from from step (i + 1) r
  end.
Definition series_points (s : series) : list point := points_from (s_from s) (s_step s) 0 (s_vals s).

Definition eq_range_step (a b : series) : bool :=
  (s_from a =? s_from b) && (s_until a =? s_until b) && (s_step a =? s_step b).

(** [TimeSeries.DiffPoints] / [DiffPointsExcludeSrcNaN] *)
Fixpoint diff_vals (copy_nan : bool) (step f1 f2 : Z) (i : Z) (v1 v2 : list Z) : list point * list point :=
  match v1, v2 with
  | a :: r1, b :: r2 =>
    let t := ts_add f1 (i32 (i * step)) in
    let t2 := ts_add f2 (i32 (i * step)) in
    let '(p, q) := diff_vals copy_nan step f1 f2 (i + 1) r1 r2 in
    if (negb (t =? t2) || negb (veq a b)) && (copy_nan || negb (is_nan a))
    then (mkPoint t a :: p, mkPoint t2 b :: q) else (p, q)
  | _, _ => ([], [])
  end.
Definition diff_points (copy_nan : bool) (a b : series) : list point * list point :=
  if negb (zlen (s_vals a) =? zlen (s_vals b)) then (series_points a, series_points b)
  else diff_vals copy_nan (s_step a) (s_from a) (s_from b) 0 (s_vals a) (s_vals b).

(** [TimeSeries.Equal] (= EqualTimeRangeAndStep && valuesEqual), [Point.Equal], [Points.Equal], [Points.Diff] *)
Fixpoint vals_equal (a b : list Z) : bool :=
  match a, b with
  | [], [] => true
  | x :: r, y :: q => veq x y && vals_equal r q
  | _, _ => false
  end.
Definition series_equal (a b : series) : bool := eq_range_step a b && vals_equal (s_vals a) (s_vals b).
Definition point_equal (p q : point) : bool := (p_time p =? p_time q) && veq (p_val p) (p_val q).
Fixpoint points_equal (p q : list point) : bool :=
  match p, q with
  | [], [] => true
  | x :: r, y :: s => point_equal x y && points_equal r s
  | _, _ => false
  end.
Fixpoint points_diff_same_len (p q : list point) : list point * list point :=
  match p, q with
  | x :: r, y :: s =>
    let '(a, b) := points_diff_same_len r s in
    if point_equal x y then (a, b) else (x :: a, y :: b)
  | _, _ => ([], [])
  end.
Definition points_diff (p q : list point) : list point * list point :=
  if negb (zlen p =? zlen q) then (p, q) else points_diff_same_len p q.

(** [TimeSeriesList.Diff] / [DiffExcludeSrcNaN] *)
Definition tsl_diff (copy_nan : bool) (tl ul : list series) : list (list point) * list (list point) :=
  if negb (zlen tl =? zlen ul) then (map series_points tl, map series_points ul)
  else split (map (fun ab => diff_points copy_nan (fst ab) (snd ab)) (combine tl ul)).

Definition all_empty {A} (l : list (list A)) : bool :=
  forallb (fun x => match x with [] => true | _ => false end) l.

Fixpoint all_eq_range_step (tl ul : list series) : bool :=
  match tl, ul with
  | [], [] => true
  | a :: r, b :: q => eq_range_step a b && all_eq_range_step r q
  | _, _ => false
  end.

Inductive tsl_res := TslErr | TslPanic | TslOk (l : list series).

(** [fetchTimeSeriesList] (with the F8 repair: an archive that was not selected or whose
    retention does not reach the window is an explicit empty series) *)
Fixpoint fetch_all (arcs todo : list arc) (i from until now : Z) : tsl_res :=
  match todo with
  | [] => TslOk []
  | a :: r =>
    match fetch_from_archive arcs i from until now with
    | FErrInterval | FErrArchive => TslErr
    | FPanic => TslPanic
    | FNone => match fetch_all arcs r (i + 1) from until now with
               | TslOk l => TslOk (empty_series (a_step a) :: l) | e => e end
    | FSeries s => match fetch_all arcs r (i + 1) from until now with
                   | TslOk l => TslOk (s :: l) | e => e end
    end
  end.
Definition ArchiveIDAll : Z := -1.
Fixpoint place_series (arcs : list arc) (i aid : Z) (s : option series) : list series :=
  match arcs with
  | [] => []
  | a :: r => (match s with Some x => if i =? aid then x else empty_series (a_step a)
                          | None => empty_series (a_step a) end) :: place_series r (i + 1) aid s
  end.
Definition fetch_ts_list (arcs : list arc) (aid from until now : Z) : tsl_res :=
  if aid =? ArchiveIDAll then fetch_all arcs arcs 0 from until now
  else if (0 <=? aid) && (aid <? zlen arcs) then
    match fetch_from_archive arcs aid from until now with
    | FErrInterval | FErrArchive => TslErr
    | FPanic => TslPanic
    | FNone => TslOk (place_series arcs 0 aid None)
    | FSeries s => TslOk (place_series arcs 0 aid (Some s))
    end
  else TslErr.

Definition layout_of_arcs (arcs : list arc) : list (Z * Z) := map (fun a => (a_step a, a_n a)) arcs.
Fixpoint layout_eqb (a b : list (Z * Z)) : bool :=
  match a, b with
  | [], [] => true
  | (s, n) :: r, (s', n') :: q => (s =? s') && (n =? n') && layout_eqb r q
  | _, _ => false
  end.

(** ** Output records *)
Inductive record :=
| RHeader (m maxret xff : Z) (layout : list (Z * Z))
| RPoint (arc t v : Z)
| RDiff (arc t src dst delta : Z)
| RErrMissing (side : Z).          (* 0 = source, 1 = destination, 2 = both (which one is named
                                      depends on which concurrent read fails first) *)

Fixpoint points_records_from (i : Z) (pl : list (list point)) : list record :=
  match pl with
  | [] => []
  | ps :: r => map (fun p => RPoint i (p_time p) (p_val p)) ps ++ points_records_from (i + 1) r
  end.
Definition points_records (pl : list (list point)) : list record := points_records_from 0 pl.
Definition header_record (h : handle) : record :=
  RHeader (hd_method h) (hd_maxret h) (hd_xff h) (layout_of_arcs (hd_arcs h)).

Inductive status := StOk | StDiff | StNotExist | StErr | StPanic.

(** the world seen by a command: an existing file is what a fresh Open reads *)
Definition opened (f : option handle) : option handle :=
  match f with
  | Some h => reopen h
  | None => None
  end.

(** reading one file: [readWhisperFileLocal] *)
Inductive read_res := RdNotExist | RdErr | RdPanic | RdOk (h : handle) (l : list series).
Definition read_file (f : option handle) (aid from until now : Z) : read_res :=
  match f, opened f with
  | None, _ => RdNotExist                       (* the path does not exist *)
  | Some _, None => RdErr                       (* it exists but cannot be opened as a whisper file *)
  | Some _, Some h => match fetch_ts_list (hd_arcs h) aid from until now with
              | TslOk l => RdOk h l
              | TslPanic => RdPanic
              | TslErr => RdErr
              end
  end.

Definition resolve_until (until now : Z) : Z := if until =? 0 then now else until.

(** ** copy *)
Record copy_opts := mkCopyOpts {
  co_from : Z; co_until : Z; co_archive : Z; co_copy_nan : bool;
  co_method : Z; co_xff : Z; co_layout : list (Z * Z) }.

(** [updateDestWithDiff] (F5 repair): archives are written from the finest to the coarsest and
    the difference of each coarser archive is taken again right before it is written *)
Fixpoint update_dest_with_diff (F : fops) (d : handle) (todo : list series) (dif : list (list point))
  (i from until now : Z) (copy_nan : bool) : handle * uout :=
  match todo, dif with
  | src :: rs, pts0 :: rd =>
    let refetch :=
      if (0 <? i) && negb (match s_vals src with [] => true | _ => false end)
      then Some (fetch_from_archive (hd_arcs d) i from until now) else None in
    match refetch with
    | Some FErrInterval | Some FErrArchive => (d, OutErr)
    | Some FPanic => (d, OutPanic)
    | _ =>
      let pts := match refetch with
                 | Some (FSeries ds) => if eq_range_step src ds then fst (diff_points copy_nan src ds) else pts0
                 | _ => pts0
                 end in
      match h_update_many F d pts i now with
      | (d', OutOk) => update_dest_with_diff F d' rs rd (i + 1) from until now copy_nan
      | (d', o) => (d', o)
      end
    end
  | _, _ => (d, OutOk)
  end.

Record cmd_result := mkResult {
  r_status : status;
  r_dest : option handle;          (* the destination file after the command (None: absent) *)
  r_out : list record }.

(** [openOrCreateCopyDestFile] and the rest of [copyOneFile] / [sumCopyItem] once the outcome of
    reading the source is known (source and destination are handled concurrently in the code,
    so the destination is opened or created even when the source cannot be read) *)
Definition src_failure (src : read_res) : status :=
  match src with RdPanic => StPanic | RdNotExist => StNotExist | _ => StErr end.

Definition copy_core (F : fops) (src : read_res) (dest : option handle)
  (o : copy_opts) (until now : Z) : cmd_result :=
  match create (co_method o) (co_xff o) (co_layout o) with
  | None => mkResult (match src with RdPanic => StPanic | _ => StErr end) dest []
  | Some fresh =>
    let d0 := match dest with
              | Some _ => opened dest
              | None => Some (sync fresh)          (* created; header synced at once *)
              end in
    match d0 with
    | None => mkResult (match src with RdPanic => StPanic | _ => StErr end) dest []
    | Some d =>
      let dest_opened := match dest with Some _ => dest | None => Some d end in
      match src, fetch_ts_list (hd_arcs d) (co_archive o) (co_from o) until now with
      | RdPanic, _ | _, TslPanic => mkResult StPanic dest_opened []
      | RdOk sh sl, TslOk dl =>
        if negb (layout_eqb (layout_of_arcs (hd_arcs sh)) (layout_of_arcs (hd_arcs d)))
        then mkResult StErr dest_opened []
        else if negb (all_eq_range_step sl dl) then mkResult StErr dest_opened []
        else
          let '(sdif, ddif) := tsl_diff (co_copy_nan o) sl dl in
          if all_empty sdif && all_empty ddif then mkResult StOk dest_opened []
          else
            match update_dest_with_diff F d sl sdif 0 (co_from o) until now (co_copy_nan o) with
            | (d', OutOk) => mkResult StOk (Some (sync d')) (header_record sh :: points_records sdif)
            | (_, OutPanic) => mkResult StPanic dest_opened []
            | (_, OutErr) => mkResult StErr dest_opened []
            end
      | RdNotExist, TslOk _ => mkResult StNotExist dest_opened []
      | _, _ => mkResult StErr dest_opened []
      end
    end
  end.

(** [CopyCommand.copyOneFile] *)
Definition copy_one (F : fops) (src dest : option handle) (o : copy_opts) (now : Z) : cmd_result :=
  let until := resolve_until (co_until o) now in
  copy_core F (read_file src (co_archive o) (co_from o) until now) dest o until now.

(** ** diff *)
(** [printDiff] *)
Fixpoint diff_records_from (fsub : Z -> Z -> Z) (i : Z) (sdif ddif : list (list point)) : list record :=
  match sdif, ddif with
  | sp :: rs, dp :: rd =>
    map (fun pq => RDiff i (p_time (fst pq)) (p_val (fst pq)) (p_val (snd pq))
                         (vdiff fsub (p_val (snd pq)) (p_val (fst pq)))) (combine sp dp)
    ++ diff_records_from fsub (i + 1) rs rd
  | _, _ => []
  end.

(** the comparison shared by diff and sum-diff once both series lists are known;
    [check_ranges]: diff refuses unalike ranges, sum-diff does not look *)
Definition diff_core (fsub : Z -> Z -> Z) (check_ranges : bool) (sh : handle) (sl : list series)
  (dh : handle) (dl : list series) : status * list record :=
  if negb (layout_eqb (layout_of_arcs (hd_arcs sh)) (layout_of_arcs (hd_arcs dh))) then (StErr, [])
  else if check_ranges && negb (all_eq_range_step sl dl) then (StErr, [])
  else
    let '(sdif, ddif) := tsl_diff true sl dl in
    if all_empty sdif && all_empty ddif then (StOk, [])
    else (StDiff, diff_records_from fsub 0 sdif ddif).

(** combining the two concurrent reads of diff / sum-diff: a missing file on either side is a
    reported difference (the source is reported when both are missing or one of them fails
    otherwise: errgroup keeps the first error, and a not-exist error is classified first) *)
Definition diff_two (fsub : Z -> Z -> Z) (check_ranges : bool) (s d : read_res) : status * list record :=
  match s, d with
  | RdPanic, _ | _, RdPanic => (StPanic, [])
  | RdOk sh sl, RdOk dh dl => diff_core fsub check_ranges sh sl dh dl
  | RdNotExist, RdNotExist => (StDiff, [RErrMissing 2])
  | RdNotExist, _ => (StDiff, [RErrMissing 0])
  | _, RdNotExist => (StDiff, [RErrMissing 1])
  | _, _ => (StErr, [])
  end.

(** [DiffCommand.diffOneFile] *)
Definition diff_one (fsub : Z -> Z -> Z) (src dest : option handle) (aid from until0 now : Z)
  : status * list record :=
  let until := resolve_until until0 now in
  diff_two fsub true (read_file src aid from until now) (read_file dest aid from until now).

(** ** sum *)
(** [sumTimeSeriesListForArchive]: values of the first file, then [Value.Add] of each further
    file in glob order; window and step of the first file *)
Definition map2_vadd (F : fops) (acc vs : list Z) : list Z :=
  map (fun ab => vadd F (fst ab) (snd ab)) (combine acc vs).
Definition sum_series (F : fops) (first : series) (rest : list series) : series :=
  mkSeries (s_from first) (s_until first) (s_step first)
    (fold_left (fun acc s => map2_vadd F acc (s_vals s)) rest (s_vals first)).

Definition heads {A} (ll : list (list A)) : list A :=
  concat (map (fun l => match l with x :: _ => [x] | [] => [] end) ll).
Fixpoint sum_lists (F : fops) (first : list series) (rest : list (list series)) : list series :=
  match first with
  | [] => []
  | s :: r => sum_series F s (heads rest) :: sum_lists F r (map (@tl series) rest)
  end.

Definition read_ok (r : read_res) : option (handle * list series) :=
  match r with RdOk h l => Some (h, l) | _ => None end.

(** [sumWhisperFileLocal] on the matched files, in glob order ([files = []]: nothing matched) *)
Definition sum_files (F : fops) (files : list (option handle)) (aid from until now : Z) : read_res :=
  match files with
  | [] => RdNotExist                                (* nothing matched: reported as not existing *)
  | _ =>
    let reads := map (fun f => read_file f aid from until now) files in
    if existsb (fun r => match r with RdPanic => true | _ => false end) reads then RdPanic
    else
      match opt_all (map read_ok reads) with
      | Some ((h0, l0) :: rest) =>
        if negb (forallb (fun hl => layout_eqb (layout_of_arcs (hd_arcs h0)) (layout_of_arcs (hd_arcs (fst hl)))) rest)
        then RdErr
        else if negb (forallb (fun hl => all_eq_range_step l0 (snd hl)) rest) then RdErr
        else RdOk h0 (sum_lists F l0 (map snd rest))
      | _ => RdErr
      end
  end.

(** [SumCommand] for one item *)
Definition sum_item (F : fops) (files : list (option handle)) (aid from until0 now : Z) (show_header : bool)
  : status * list record :=
  match sum_files F files aid from (resolve_until until0 now) now with
  | RdOk h l => (StOk, (if show_header then [header_record h] else []) ++ points_records (map series_points l))
  | r => (src_failure r, [])
  end.

(** [SumCopyCommand.sumCopyItem]: copy with the sum as the source, NaN included *)
Definition sum_copy_item (F : fops) (files : list (option handle)) (dest : option handle)
  (o : copy_opts) (now : Z) : cmd_result :=
  let until := resolve_until (co_until o) now in
  copy_core F (sum_files F files (co_archive o) (co_from o) until now) dest
            (mkCopyOpts (co_from o) (co_until o) (co_archive o) true (co_method o) (co_xff o) (co_layout o)) until now.

(** [SumDiffCommand.sumDiffItem] *)
Definition sum_diff_item (F : fops) (fsub : Z -> Z -> Z) (files : list (option handle)) (dest : option handle)
  (aid from until0 now : Z) : status * list record :=
  let until := resolve_until until0 now in
  diff_two fsub false (sum_files F files aid from until now) (read_file dest aid from until now).

(** ** loops over the matched files / items: diff-like commands go on after a difference and
    stop at the first error; copy-like commands stop at the first failure *)
Definition merge_status (first rest : status) : status :=
  match first, rest with
  | StOk, r => r
  | StDiff, StOk => StDiff
  | StDiff, r => r
  | e, _ => e
  end.
Fixpoint run_diffs (jobs : list (status * list record)) : status * list (list record) :=
  match jobs with
  | [] => (StOk, [])
  | (StOk, out) :: r | (StDiff, out) :: r =>
    let st0 := match jobs with (s, _) :: _ => s | [] => StOk end in
    let '(st, outs) := run_diffs r in (merge_status st0 st, out :: outs)
  | (e, out) :: _ => (e, [out])
  end.

(** ** -text-out (cmd/text_out.go withTextOutWriter): every command's report goes through a
    buffered writer on the target; the target is opened before the command body runs and flushed,
    synced and closed after it *)
Inductive textout := ToFile | ToBad | ToFull | ToDiscard.
(** does the command body run at all: not when the target cannot be opened *)
Definition textout_runs (to : textout) : bool := match to with ToBad => false | _ => true end.
(** the command's verdict: a target that cannot be opened fails the command; a target that cannot be
    written turns success into a failure; a failure of the command itself is kept *)
Definition textout_status (to : textout) (st : status) : status :=
  match to with
  | ToBad => StErr
  | ToFull => match st with StOk => StErr | s => s end
  | ToFile | ToDiscard => st
  end.

(** ** view / view-raw *)
Definition view_cmd (f : option handle) (aid from until0 now : Z) (show_header : bool) : status * list record :=
  match read_file f aid from (resolve_until until0 now) now with
  | RdOk h l => (StOk, (if show_header then [header_record h] else []) ++ points_records (map series_points l))
  | r => (src_failure r, [])
  end.

(** [filterPointsByTimeRange] *)
Definition filter_raw (step from until : Z) (ps : list point) : list point :=
  let until := if until =? from then ts_add until step else until in
  filter (fun p => negb ((negb (from =? 0) && (p_time p <=? from)) || (p_time p >? until))) ps.

Fixpoint raw_lists (arcs : list arc) (i aid : Z) : list (list point) :=
  match arcs with
  | [] => []
  | a :: r => (if (aid =? ArchiveIDAll) || (aid =? i) then a_slots a else []) :: raw_lists r (i + 1) aid
  end.

Definition view_raw_cmd (f : option handle) (aid from until0 now : Z) (show_header sort : bool)
  : status * list record :=
  match f, opened f with
  | None, _ => (StNotExist, [])
  | Some _, None => (StErr, [])
  | Some _, Some h =>
    if (aid =? ArchiveIDAll) || ((0 <=? aid) && (aid <? zlen (hd_arcs h))) then
      let until := resolve_until until0 now in
      let pl := map (fun al => let ps := filter_raw (a_step (fst al)) from until (snd al) in
                               if sort then sort_points ps else ps)
                    (combine (hd_arcs h) (raw_lists (hd_arcs h) 0 aid)) in
      (StOk, (if show_header then [header_record h] else []) ++ points_records pl)
    else (StErr, [])
  end.

(** ** generate: the file is the per-archive batch update of the printed point lists *)
Fixpoint apply_lists (F : fops) (h : handle) (pl : list (list point)) (i now : Z) : handle * uout :=
  match pl with
  | [] => (h, OutOk)
  | ps :: r => match h_update_many F h ps i now with
               | (h', OutOk) => apply_lists F h' r (i + 1) now
               | x => x
               end
  end.
(** the bound of the random values must be a number the generator can use: [rand.Intn (max * step / step0 + 1)]
    needs a positive argument that fits an int (checked before the file is created; without -fill
    the bound is not used) *)
Definition gen_max_ok (fill : bool) (mx : Z) : bool := negb fill || ((0 <=? mx) && (mx <? 2^31)).

Definition generate_cmd (F : fops) (existing : bool) (m xff : Z) (layout : list (Z * Z))
  (pl : list (list point)) (now : Z) : status * option handle :=
  if existing then (StErr, None)
  else match create m xff layout with
       | None => (StErr, None)
       | Some h => match apply_lists F h pl 0 now with
                   | (h', OutOk) => (StOk, Some (sync h'))
                   | (_, OutPanic) => (StPanic, None)
                   | (_, OutErr) => (StErr, None)
                   end
       end.

Definition generate_checked (F : fops) (existing fill : bool) (mx m xff : Z) (layout : list (Z * Z))
  (pl : list (list point)) (now : Z) : status * option handle :=
  if gen_max_ok fill mx then generate_cmd F existing m xff layout pl now else (StErr, None).
