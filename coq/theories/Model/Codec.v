(** serialization.go, timestamp.go, timeseries.go, archive_info.go, header.go —
    AppendTo / TakeFrom pairs (repaired decoders: F7, F4). *)
From WT Require Import Base.Wrap Base.ListX Base.Bytes Model.Time Model.Ring.

Definition MaxInt32 : Z := 2^31 - 1.
Definition MaxUint32 : Z := 2^32 - 1.

(** Timestamp (uint32) *)
Definition enc_ts (t : Z) : list Z := be32 t.
Definition dec_ts (src : list Z) : res Z :=
  if zlen src <? 4 then Want 4 else Ok (get32 src) (skipn 4 src).

(** Duration (int32 stored as uint32) *)
Definition enc_dur (d : Z) : list Z := be32 (u32 d).
Definition dec_dur (src : list Z) : res Z :=
  if zlen src <? 4 then Want 4 else Ok (i32 (get32 src)) (skipn 4 src).

(** Value (float64 bits) *)
Definition enc_val (v : Z) : list Z := be64 v.
Definition dec_val (src : list Z) : res Z :=
  if zlen src <? 8 then Want 8 else Ok (get64 src) (skipn 8 src).

(** Point *)
Definition enc_point (p : point) : list Z := enc_ts (p_time p) ++ enc_val (p_val p).
Definition dec_point (src : list Z) : res point :=
  if zlen src <? 12 then Want 12
  else Ok (mkPoint (get32 src) (get64 (skipn 4 src))) (skipn 12 src).

(** n consecutive values / points; the callers have checked the length *)
Fixpoint dec_vals (n : nat) (src : list Z) : list Z * list Z :=
  match n with
  | O => ([], src)
  | S k => let '(vs, r) := dec_vals k (skipn 8 src) in (get64 src :: vs, r)
  end.
Fixpoint dec_points (n : nat) (src : list Z) : list point * list Z :=
  match n with
  | O => ([], src)
  | S k => let '(ps, r) := dec_points k (skipn 12 src) in
           (mkPoint (get32 src) (get64 (skipn 4 src)) :: ps, r)
  end.

(** Points: uint64 count then the points *)
Definition enc_points (ps : list point) : list Z := be64 (zlen ps) ++ flat_map enc_point ps.
Definition dec_points_msg (src : list Z) : res (list point) :=
  if zlen src <? 8 then Want 8
  else
    let ucount := get64 src in
    let src' := skipn 8 src in
    if ucount >? MaxInt32 then Err
    else
      let wanted := ucount * 12 in
      if zlen src' <? wanted then Want (8 + wanted)
      else let '(ps, r) := dec_points (Z.to_nat ucount) src' in Ok ps r.

(** TimeSeries: from, until, step, then (until-from)/step values *)
Definition enc_series (s : series) : list Z :=
  enc_ts (s_from s) ++ enc_ts (s_until s) ++ enc_dur (s_step s) ++ flat_map enc_val (s_vals s).
Definition dec_series (src : list Z) : res series :=
  if zlen src <? 12 then Want 12
  else
    let from := get32 src in
    let until := get32 (skipn 4 src) in
    let step := i32 (get32 (skipn 8 src)) in
    let src' := skipn 12 src in
    if step <=? 0 then Err
    else if until <? from then Err
    else
      let n := Z.quot (until - from) step in
      let wanted := n * 8 in
      if zlen src' <? wanted then Want (12 + wanted)
      else let '(vs, r) := dec_vals (Z.to_nat n) src' in Ok (mkSeries from until step vs) r.

(** ArchiveInfo: offset, secondsPerPoint, numberOfPoints *)
Record ainfo := mkAinfo { ai_off : Z; ai_step : Z; ai_n : Z }.
Definition enc_ainfo (a : ainfo) : list Z := be32 (ai_off a) ++ enc_dur (ai_step a) ++ be32 (ai_n a).
Definition dec_ainfo (src : list Z) : res ainfo :=
  if zlen src <? 12 then Want 12
  else Ok (mkAinfo (get32 src) (i32 (get32 (skipn 4 src))) (get32 (skipn 8 src))) (skipn 12 src).
Fixpoint dec_ainfos (n : nat) (src : list Z) : list ainfo * list Z :=
  match n with
  | O => ([], src)
  | S k => let '(l, r) := dec_ainfos k (skipn 12 src) in
           (mkAinfo (get32 src) (i32 (get32 (skipn 4 src))) (get32 (skipn 8 src)) :: l, r)
  end.

(** ** Layout validation (archive_info.go) *)

(** [ArchiveInfoList.fillOffset] (uint32 arithmetic) *)
Fixpoint fill_offset_from (off : Z) (l : list ainfo) : list ainfo :=
  match l with
  | [] => []
  | a :: r => mkAinfo off (ai_step a) (ai_n a) :: fill_offset_from (u32 (off + u32 (ai_n a * 12))) r
  end.
Definition first_offset (k : Z) : Z := u32 (16 + u32 (k * 12)).
Definition fill_offset (l : list ainfo) : list ainfo := fill_offset_from (first_offset (zlen l)) l.

Definition ai_retention (a : ainfo) : Z := retention (ai_step a) (ai_n a).

(** [ArchiveInfoList.validate] with the F4 repair (64-bit range checks) *)
Fixpoint validate_from (off off64 : Z) (l : list ainfo) : bool :=
  match l with
  | [] => true
  | a :: r =>
    (0 <? ai_step a) && (0 <? ai_n a) &&
    (ai_step a * ai_n a <=? MaxInt32) &&
    (off64 <=? MaxUint32) &&
    (ai_off a =? off) &&
    match r with
    | [] => true
    | nx :: _ =>
      (ai_step a <? ai_step nx) &&
      (Z.rem (ai_step nx) (ai_step a) =? 0) &&
      (ai_retention a <? ai_retention nx) &&
      negb (ai_n a <? u32 (Z.quot (ai_step nx) (ai_step a))) &&
      validate_from (u32 (off + u32 (ai_n a * 12))) (off64 + ai_n a * 12) r
    end
  end.
Definition validate (l : list ainfo) : bool :=
  match l with
  | [] => false
  | _ => validate_from (first_offset (zlen l)) (16 + zlen l * 12) l
  end.

(** ** Header *)
Record header := mkHeader { h_method : Z; h_maxret : Z; h_xff : Z; h_count : Z; h_arcs : list ainfo }.

Definition valid_method (m : Z) : bool := (1 <=? m) && (m <=? 6).
(** float32 bits: not NaN and 0 <= x <= 1 (−0 included) *)
Definition valid_xff (b : Z) : bool := (b =? 0x80000000) || ((0 <=? b) && (b <=? 0x3F800000)).

(** [NewHeader] *)
Definition new_header (m xff : Z) (l : list ainfo) : option header :=
  if negb (valid_method m) then None
  else if negb (valid_xff xff) then None
  else
    let l' := fill_offset l in
    if validate l' then
      Some (mkHeader m (match rev l' with a :: _ => ai_retention a | [] => 0 end) xff (zlen l') l')
    else None.

Definition enc_header (h : header) : list Z :=
  be32 (u32 (h_method h)) ++ enc_dur (h_maxret h) ++ be32 (h_xff h) ++ be32 (h_count h)
  ++ flat_map enc_ainfo (h_arcs h).

(** [Header.TakeFrom] (F7 repair: archive count bounded before multiplying) *)
Definition dec_header (src : list Z) : res header :=
  if zlen src <? 16 then Want 16
  else
    let m := get32 src in
    let maxret := i32 (get32 (skipn 4 src)) in
    let xff := get32 (skipn 8 src) in
    let count := get32 (skipn 12 src) in
    let src' := skipn 16 src in
    if negb (valid_method m) then Err
    else if negb (valid_xff xff) then Err
    else if count * 12 >? MaxInt32 then Err
    else
      let wanted := count * 12 in
      if zlen src' <? wanted then Want (16 + wanted)
      else
        let '(l, r) := dec_ainfos (Z.to_nat count) src' in
        if validate l then Ok (mkHeader m maxret xff count l) r else Err.

Definition header_size (h : header) : Z := 16 + h_count h * 12.
Definition expected_file_size (h : header) : Z :=
  fold_left (fun sz a => sz + ai_n a * 12) (h_arcs h) (header_size h).
