(** github.com/hnakamur/filebuffer (modelled dependency): a file read and written in
    page-size units.  Pages are cached on first touch, writes mark pages dirty, Flush
    writes the dirty pages back. *)
From WT Require Import Base.Wrap Base.ListX.

Record fbuf := mkFbuf {
  fb_disk : list Z;                 (* the file's bytes on disk *)
  fb_psz : Z;                       (* page size *)
  fb_pages : list (option (list Z)); (* cached page images, [None] = not read yet *)
  fb_dirty : list bool
}.

Definition fb_size (b : fbuf) : Z := zlen (fb_disk b).
Definition page_count (size psz : Z) : Z := (size + psz - 1) / psz.
Definition page_lo (psz p : Z) : Z := p * psz.
Definition page_hi (size psz p : Z) : Z := Z.min ((p + 1) * psz) size.

(** [New] *)
Definition fb_new (disk : list Z) (psz : Z) : fbuf :=
  let n := Z.to_nat (page_count (zlen disk) psz) in
  mkFbuf disk psz (repeat None n) (repeat false n).

Definition disk_page (b : fbuf) (p : Z) : list Z :=
  slice (fb_disk b) (page_lo (fb_psz b) p) (page_hi (fb_size b) (fb_psz b) p).

(** [preread]: load the pages covering [off, off+len) that are not cached yet *)
Fixpoint load_pages (b : fbuf) (p : Z) (n : nat) : fbuf :=
  match n with
  | O => b
  | S k =>
    let b' := match znth None (fb_pages b) p with
              | Some _ => b
              | None => mkFbuf (fb_disk b) (fb_psz b) (zupd (fb_pages b) p (Some (disk_page b p))) (fb_dirty b)
              end in
    load_pages b' (p + 1) k
  end.
Definition first_page (b : fbuf) (off : Z) : Z := off / fb_psz b.
Definition last_page (b : fbuf) (off len : Z) : Z := (off + len - 1) / fb_psz b.
Definition preread (b : fbuf) (off len : Z) : fbuf :=
  load_pages b (first_page b off) (Z.to_nat (last_page b off len - first_page b off + 1)).

(** the byte at position [i] as seen through the buffer *)
Definition view (b : fbuf) (i : Z) : Z :=
  match znth None (fb_pages b) (i / fb_psz b) with
  | Some pg => znth 0 pg (i mod fb_psz b)
  | None => znth 0 (fb_disk b) i
  end.

Inductive io (A : Type) := IoOk (a : A) | IoErr.
Arguments IoOk {A}. Arguments IoErr {A}.

(** [checkOffsetAndLength] *)
Definition in_bounds (b : fbuf) (off len : Z) : bool := (0 <=? off) && (off + len <=? fb_size b).

(** [ReadAt] *)
Definition read_at (b : fbuf) (off len : Z) : io (fbuf * list Z) :=
  if in_bounds b off len then
    let b' := preread b off len in
    IoOk (b', map (fun k => view b' (off + Z.of_nat k)) (seq 0 (Z.to_nat len)))
  else IoErr.

(** set byte [i] in the cached page images *)
Definition poke (b : fbuf) (i v : Z) : fbuf :=
  let p := i / fb_psz b in
  match znth None (fb_pages b) p with
  | Some pg => mkFbuf (fb_disk b) (fb_psz b) (zupd (fb_pages b) p (Some (zupd pg (i mod fb_psz b) v)))
                      (zupd (fb_dirty b) p true)
  | None => b          (* unreachable after preread *)
  end.

(** [WriteAt] *)
Definition write_at (b : fbuf) (off : Z) (data : list Z) : io fbuf :=
  if in_bounds b off (zlen data) then
    let b' := preread b off (zlen data) in
    IoOk (fst (fold_left (fun '(bb, i) v => (poke bb i v, i + 1)) data (b', off)))
  else IoErr.

(** [Flush]: write every dirty page image back *)
Definition flushed_byte (b : fbuf) (i : Z) : Z :=
  let p := i / fb_psz b in
  if znth false (fb_dirty b) p then view b i else znth 0 (fb_disk b) i.
Definition flush (b : fbuf) : fbuf :=
  mkFbuf (map (fun k => flushed_byte b (Z.of_nat k)) (seq 0 (length (fb_disk b))))
         (fb_psz b) (fb_pages b) (map (fun _ => false) (fb_dirty b)).
