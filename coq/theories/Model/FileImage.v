(** The bytes of a whisper file (header.go, whisper.go): encoding of a handle's state and the
    reading done by Open (readHeader with its single retry, the length check, the slots). *)
From WT Require Import Base.Wrap Base.ListX Base.Bytes Model.Time Model.Ring Model.Update Model.Codec Model.Handle.

(** all slots of one archive, in physical order *)
Definition enc_slots (a : arc) : list Z := flat_map enc_point (a_slots a).
(** the whole file: header, then the archives contiguously in declaration order *)
Definition encode_image (h : header) (arcs : list arc) : list Z := enc_header h ++ flat_map enc_slots arcs.

(** [Whisper.readHeader]: 16 bytes first; on "want n" one retry with n bytes, refused when n is
    not larger than what was read or larger than the file *)
Definition read_header (file : list Z) : option header :=
  if zlen file <? 16 then None
  else match dec_header (firstn 16 file) with
       | Ok h _ => Some h
       | Want n => if n <=? 16 then None
                   else if n >? zlen file then None
                   else match dec_header (firstn (Z.to_nat n) file) with
                        | Ok h _ => Some h
                        | _ => None
                        end
       | Err => None
       end.

Fixpoint decode_arcs (l : list ainfo) (file : list Z) : list arc :=
  match l with
  | [] => []
  | a :: r => mkArc (ai_step a) (ai_n a) (fst (dec_points (Z.to_nat (ai_n a)) (skipn (Z.to_nat (ai_off a)) file)))
              :: decode_arcs r file
  end.

(** [Open] on the bytes of a file: the header must decode and validate, and the file must be
    at least as long as the header requires (F7 repair) *)
Definition open_image (file : list Z) : option (header * list arc) :=
  match read_header file with
  | None => None
  | Some h => if zlen file <? expected_file_size h then None
              else Some (h, decode_arcs (h_arcs h) file)
  end.

Definition image_handle (file : list Z) : option handle :=
  match open_image file with
  | None => None
  | Some (h, arcs) => Some (mkHandle (h_method h) (h_xff h) (h_maxret h) arcs arcs true)
  end.
