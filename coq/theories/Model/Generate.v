(** cmd/generate.go — what must hold of the point lists generate produces with fill on
    (the lists it prints and writes): one point for every slot of every archive's retention up to
    the generation instant, values within bounds, coarser values equal to the sum of the finer
    values where the finer archive retains the whole coarser interval.  The random choices are not
    modelled: [gen_ok] is evaluated on the lists the real generator produced; [generate_cmd]
    (Model/Cmd.v) is the file that results from writing them. *)
From WT Require Import Base.Wrap Base.ListX Model.Time Model.Ring Model.Update Model.Handle Model.Cmd Spec.LogSpec.

(** the newest slot of an archive of step [S] at [now], and the times of its [N] retained slots *)
Definition gen_last (st now : Z) : Z := now - now mod st.
Definition gen_times (st n now : Z) : list Z :=
  map (fun j => gen_last st now - (n - 1 - Z.of_nat j) * st) (seq 0 (Z.to_nat n)).

Fixpoint zlist_eqb (a b : list Z) : bool :=
  match a, b with
  | [], [] => true
  | x :: r, y :: q => (x =? y) && zlist_eqb r q
  | _, _ => false
  end.

(** every archive has exactly one point per retained slot, oldest first *)
Fixpoint gen_complete (layout : list (Z * Z)) (now : Z) (pl : list (list point)) : bool :=
  match layout, pl with
  | [], [] => true
  | (st, n) :: lr, ps :: pr => zlist_eqb (map p_time ps) (gen_times st n now) && gen_complete lr now pr
  | _, _ => false
  end.

(** a value is a number in [0, bound] *)
Definition val_ok (F : fops) (bound v : Z) : bool :=
  negb (is_nan v) && negb (f_lt F v (f_zero F)) && negb (f_lt F bound v).

(** [of_int] converts an integer to a float64 (bits); the bound of an archive of step [S] is the
    requested maximum scaled by S / (step of archive 0) *)
Fixpoint gen_bounded (F : fops) (of_int : Z -> Z) (s0 mx : Z) (layout : list (Z * Z)) (pl : list (list point)) : bool :=
  match layout, pl with
  | (st, n) :: lr, ps :: pr =>
    forallb (fun p => val_ok F (of_int (mx * st / s0)) (p_val p)) ps && gen_bounded F of_int s0 mx lr pr
  | _, _ => true
  end.

(** the finer values of the coarser slot starting at [t]: all [cnt] of them, if all are retained *)
Definition finer_vals (finer : list point) (t fs : Z) (cnt : nat) : option (list Z) :=
  opt_all (map (fun q => find_time finer (t + Z.of_nat q * fs)) (seq 0 cnt)).
Definition slot_sum_ok (F : fops) (fs st : Z) (finer : list point) (p : point) : bool :=
  match finer_vals finer (p_time p) fs (Z.to_nat (st / fs)) with
  | Some vs => veq (p_val p) (fsum F vs)
  | None => true
  end.
Fixpoint gen_sums (F : fops) (prev : option (Z * list point)) (layout : list (Z * Z)) (pl : list (list point)) : bool :=
  match layout, pl with
  | (st, n) :: lr, ps :: pr =>
    (match prev with Some (fs, finer) => forallb (slot_sum_ok F fs st finer) ps | None => true end)
    && gen_sums F (Some (st, ps)) lr pr
  | _, _ => true
  end.

Definition gen_ok (F : fops) (of_int : Z -> Z) (layout : list (Z * Z)) (mx now : Z) (pl : list (list point)) : bool :=
  gen_complete layout now pl
  && gen_bounded F of_int (match layout with (s0, _) :: _ => s0 | [] => 1 end) mx layout pl
  && gen_sums F None layout pl.

(** which clause fails first (for the report) *)
Definition gen_verdict (F : fops) (of_int : Z -> Z) (layout : list (Z * Z)) (mx now : Z) (pl : list (list point)) : Z :=
  if negb (gen_complete layout now pl) then 1
  else if negb (gen_bounded F of_int (match layout with (s0, _) :: _ => s0 | [] => 1 end) mx layout pl) then 2
  else if negb (gen_sums F None layout pl) then 3 else 0.
