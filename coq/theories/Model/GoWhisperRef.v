(** The reference reader: go-whisper's Fetch (FetchByAggregation + fetchFromArchive, classic
    format) over the same archive representation.  Plain integers: go-whisper computes in int. *)
From WT Require Import Base.Wrap Base.ListX Base.Bytes Model.Time Model.Ring Model.Codec Model.FileImage.

(** archiveInfo.Interval: t - (t mod step) + step *)
Definition gw_interval (step t : Z) : Z := t - Z.modulo t step + step.

(** archiveInfo.PointOffset as an index: ((interval - base) / step) mod points, floored *)
Definition gw_point_index (a : arc) (base t : Z) : Z := Z.modulo (Z.quot (t - base) (a_step a)) (a_n a).

(** readSeries between two indices, wrapping at the end of the archive *)
Definition gw_read_series (a : arc) (fi ui : Z) : list point :=
  if fi <? ui then slice (a_slots a) fi ui
  else slice (a_slots a) fi (a_n a) ++ slice (a_slots a) 0 ui.

Fixpoint gw_values (ps : list point) (cur step : Z) : list Z :=
  match ps with
  | [] => []
  | p :: r => (if p_time p =? cur then p_val p else NaN) :: gw_values r (cur + step) step
  end.

Inductive gw_res := GwErr | GwNone | GwSeries (s : series).

Fixpoint gw_pick (arcs : list arc) (diff : Z) : option arc :=
  match arcs with
  | [] => None
  | [a] => Some a
  | a :: r => if a_step a * a_n a >=? diff then Some a else gw_pick r diff
  end.

(** fetchFromArchive (classic format) *)
Definition gw_fetch_archive (a : arc) (from until : Z) : series :=
  let fi := gw_interval (a_step a) from in
  let ui := gw_interval (a_step a) until in
  let base := base_interval a in
  if base =? 0 then mkSeries fi ui (a_step a) (repeat NaN (Z.to_nat ((ui - fi) / a_step a)))
  else
    let ui := if fi =? ui then ui + a_step a else ui in
    let ps := gw_read_series a (gw_point_index a base fi) (gw_point_index a base ui) in
    mkSeries fi ui (a_step a) (gw_values ps fi (a_step a)).

(** Fetch / FetchByAggregation *)
Definition gw_fetch (arcs : list arc) (maxret from until now : Z) : gw_res :=
  if from >? until then GwErr
  else
    let oldest := now - maxret in
    if from >? now then GwNone
    else if until <? oldest then GwNone
    else
      let from := if from <? oldest then oldest else from in
      let until := if until >? now then now else until in
      match gw_pick arcs (now - from) with
      | None => GwErr
      | Some a => GwSeries (gw_fetch_archive a from until)
      end.

(** the reference reader applied to the bytes of a file *)
Definition gw_read_image (file : list Z) (from until now : Z) : option gw_res :=
  match open_image file with
  | None => None
  | Some (h, arcs) => Some (gw_fetch arcs (h_maxret h) from until now)
  end.
