(** whisper.go — Create / Open / Sync / Close at the level of the slot view: a handle is
    the header fields plus the archives; [disk] is the state a fresh Open would read
    (the state at the last successful Sync).  The byte level is in Model/FileImage.v. *)
From WT Require Import Base.Wrap Base.ListX Base.Bytes Model.Time Model.Ring Model.Update Model.Codec.

Record handle := mkHandle {
  hd_method : Z; hd_xff : Z; hd_maxret : Z;
  hd_arcs : list arc;            (* what the live handle sees (through its page buffer) *)
  hd_disk : list arc;            (* what is on disk *)
  hd_hdr_on_disk : bool          (* Create writes the header to the buffer only: it reaches the
                                    disk with the first Sync *)
}.

Definition layout_ainfos (layout : list (Z * Z)) : list ainfo :=
  map (fun sn => mkAinfo 0 (fst sn) (snd sn)) layout.

(** [Create]: NewHeader, truncate to the expected size (all zero), header written to the
    buffer only. *)
Definition create (m xff : Z) (layout : list (Z * Z)) : option handle :=
  match new_header m xff (layout_ainfos layout) with
  | None => None
  | Some h => Some (mkHandle m xff (h_maxret h) (create_arcs layout) (create_arcs layout) false)
  end.

Definition with_arcs (h : handle) (arcs : list arc) : handle :=
  mkHandle (hd_method h) (hd_xff h) (hd_maxret h) arcs (hd_disk h) (hd_hdr_on_disk h).

(** [Sync] *)
Definition sync (h : handle) : handle :=
  mkHandle (hd_method h) (hd_xff h) (hd_maxret h) (hd_arcs h) (hd_arcs h) true.

(** a fresh [Open] of the path: sees the disk; fails on a file whose header was never synced
    (all-zero bytes: aggregation method 0 is invalid) *)
Definition reopen (h : handle) : option handle :=
  if hd_hdr_on_disk h
  then Some (mkHandle (hd_method h) (hd_xff h) (hd_maxret h) (hd_disk h) (hd_disk h) true)
  else None.

(** [Create] with an open flag that lacks O_EXCL, on a path that already holds a synced file with the
    same header: the length does not change (Truncate to the same size), the page buffer shows what is
    on disk and the header is written to the buffer only -- the handle a fresh [Open] would give *)
Definition create_over (h : handle) : option handle := reopen h.

Inductive uout := OutErr | OutPanic | OutOk.

Definition h_update (F : fops) (h : handle) (id t v now : Z) : handle * uout :=
  match update_point_for_archive F (hd_method h) (hd_xff h) (hd_maxret h) (hd_arcs h) id t v now with
  | UErr => (h, OutErr)
  | UPanic => (h, OutPanic)
  | UOk a => (with_arcs h a, OutOk)
  end.

Definition h_update_many (F : fops) (h : handle) (pts : list point) (id now : Z) : handle * uout :=
  match update_points_for_archive F (hd_method h) (hd_xff h) (hd_arcs h) pts id now with
  | UErr => (h, OutErr)
  | UPanic => (h, OutPanic)
  | UOk a => (with_arcs h a, OutOk)
  end.

Definition h_fetch (h : handle) (id from until now : Z) : fetch_res :=
  fetch_from_archive (hd_arcs h) id from until now.
Definition h_dfetch (h : handle) (id from until now : Z) : option fetch_res :=
  if hd_hdr_on_disk h then Some (fetch_from_archive (hd_disk h) id from until now) else None.
Definition h_raw (h : handle) (id : Z) : option (list point) := raw_points (hd_arcs h) id.

(** the clock: a [now] argument of 0 means "read the clock" ([whispertool.Now], which a caller may
    replace); [Whisper.Fetch], [Update] and [UpdateMany] are the explicit calls with the best archive and
    the clock *)
Definition resolve_now (now clock : Z) : Z := if now =? 0 then clock else now.
Definition h_fetch_clock (clock : Z) (h : handle) (id from until now : Z) : fetch_res :=
  h_fetch h id from until (resolve_now now clock).
Definition h_update_clock (F : fops) (clock : Z) (h : handle) (id t v now : Z) : handle * uout :=
  h_update F h id t v (resolve_now now clock).
Definition h_update_many_clock (F : fops) (clock : Z) (h : handle) (pts : list point) (id now : Z) : handle * uout :=
  h_update_many F h pts id (resolve_now now clock).
Definition w_fetch (clock : Z) (h : handle) (from until : Z) : fetch_res := h_fetch_clock clock h ArchiveIDBest from until 0.
Definition w_update (F : fops) (clock : Z) (h : handle) (t v : Z) : handle * uout := h_update_clock F clock h ArchiveIDBest t v 0.
Definition w_update_many (F : fops) (clock : Z) (h : handle) (pts : list point) : handle * uout :=
  h_update_many_clock F clock h pts ArchiveIDBest 0.

(** the header of an open handle, as [Whisper.Header] returns it *)
Definition h_header (h : handle) : option header :=
  match new_header (hd_method h) (hd_xff h) (layout_ainfos (map (fun a => (a_step a, a_n a)) (hd_arcs h))) with
  | Some hd => Some (mkHeader (h_method hd) (hd_maxret h) (h_xff hd) (h_count hd) (h_arcs hd))
  | None => None
  end.
