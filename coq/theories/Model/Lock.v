(** The exclusive-access protocol of whisper.go (Open = flock(LOCK_EX) then read,
    Sync = flush, Close = release), abstracted over the disk contents [D] and the
    handle state [H].  Assumed about the OS: the lock is held by at most one open
    file description and released when it is closed. *)
From Coq Require Import List ZArith Lia.
Import ListNotations.

Section Lock.
Variables D H : Type.
Variable load : D -> option H.        (* Open's header read; None = Open fails *)
Variable store : H -> D -> D.         (* Sync: flush the handle's state to disk *)

(** what a session does once it holds the handle *)
Inductive sop := Modify (g : H -> H) | SyncOp.

Inductive tstate :=
| Idle (prog : list sop)              (* has not opened yet *)
| Holding (h : H) (rest : list sop)   (* between Open and Close *)
| Done (ok : bool).                   (* closed, or Open failed (and released) *)

Record sys := mkSys { disk : D; lock : option nat; threads : list tstate }.

Definition set_thread (ts : list tstate) (t : nat) (s : tstate) : list tstate :=
  firstn t ts ++ s :: skipn (S t) ts.

(** one atomic step of thread [t]; None = not enabled (blocked or finished) *)
Definition step (s : sys) (t : nat) : option sys :=
  match nth_error (threads s) t with
  | Some (Idle prog) =>
    match lock s with
    | Some _ => None                                   (* blocked in flock *)
    | None =>
      match load (disk s) with
      | Some h => Some (mkSys (disk s) (Some t) (set_thread (threads s) t (Holding h prog)))
      | None => Some (mkSys (disk s) None (set_thread (threads s) t (Done false)))  (* failed Open releases *)
      end
    end
  | Some (Holding h (Modify g :: rest)) =>
    Some (mkSys (disk s) (lock s) (set_thread (threads s) t (Holding (g h) rest)))
  | Some (Holding h (SyncOp :: rest)) =>
    Some (mkSys (store h (disk s)) (lock s) (set_thread (threads s) t (Holding h rest)))
  | Some (Holding h []) =>
    Some (mkSys (disk s) None (set_thread (threads s) t (Done true)))               (* Close *)
  | _ => None
  end.

Fixpoint run (s : sys) (sched : list nat) : sys :=
  match sched with
  | [] => s
  | t :: r => match step s t with Some s' => run s' r | None => run s r end
  end.

(** the effect of running a whole session alone on a disk *)
Fixpoint session_from (h : H) (prog : list sop) (d : D) : D :=
  match prog with
  | [] => d
  | Modify g :: r => session_from (g h) r d
  | SyncOp :: r => session_from h r (store h d)
  end.
Definition session (prog : list sop) (d : D) : D :=
  match load d with Some h => session_from h prog d | None => d end.

(** mutual exclusion invariant: a thread is Holding iff it owns the lock *)
Definition excl (s : sys) : Prop :=
  forall t, (exists h rest, nth_error (threads s) t = Some (Holding h rest)) <-> lock s = Some t.

End Lock.

(** Executable instance used by the correspondence run: the disk and the handle are a counter,
    Open reads it, a session adds one and Syncs. *)
Definition counter_load (d : Z) : option Z := Some d.
Definition counter_store (h : Z) (_ : Z) : Z := h.
Definition counter_session : list (sop Z) := [Modify Z (fun h => (h + 1)%Z); SyncOp Z].
Definition counter_final (threads_n rounds : nat) (sched : list nat) : Z :=
  (* [rounds] sessions per thread are modelled as threads_n*rounds one-session threads *)
  disk Z Z (run Z Z counter_load counter_store
              (mkSys Z Z 0%Z None (repeat (Idle Z counter_session) (threads_n * rounds))) sched).
