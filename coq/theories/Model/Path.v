(** Lexical path resolution: Go's [path.Clean] / [filepath.Clean] (on a slash-separated system) and
    [filepath.Join], which every command and the server apply to "base directory + relative name"
    before a file is opened (cmd/view.go readWhisperFileLocal, cmd/server.go handleView, cmd/glob.go,
    cmd/copy.go ...).  A path is a byte string; its elements are what lies between slashes. *)
From WT Require Import Base.Wrap Base.ListX Base.Bytes.

Definition slash : Z := 47.
Definition dot : list Z := [46].
Definition dotdot : list Z := [46; 46].

Fixpoint zs_eqb (a b : list Z) : bool :=
  match a, b with
  | [], [] => true
  | x :: r, y :: q => (x =? y) && zs_eqb r q
  | _, _ => false
  end.

(** the elements of a path (the strings between slashes; empty ones included) *)
Fixpoint split_slash (s : list Z) (cur : list Z) : list (list Z) :=
  match s with
  | [] => [rev cur]
  | c :: r => if c =? slash then rev cur :: split_slash r [] else split_slash r (c :: cur)
  end.

Fixpoint join_slash (l : list (list Z)) : list Z :=
  match l with
  | [] => []
  | [e] => e
  | e :: r => e ++ slash :: join_slash r
  end.

(** one element read by Clean; the stack holds the elements kept so far, last one first *)
Definition clean_step (rooted : bool) (st : list (list Z)) (e : list Z) : list (list Z) :=
  if zs_eqb e [] || zs_eqb e dot then st
  else if zs_eqb e dotdot then
    match st with
    | top :: below => if zs_eqb top dotdot then e :: st else below
    | [] => if rooted then [] else [e]
    end
  else e :: st.

Definition clean_elems (rooted : bool) (es : list (list Z)) : list (list Z) :=
  rev (fold_left (clean_step rooted) es []).

Definition is_rooted (p : list Z) : bool := match p with c :: _ => c =? slash | [] => false end.

(** [path.Clean] *)
Definition path_clean (p : list Z) : list Z :=
  let rooted := is_rooted p in
  let body := join_slash (clean_elems rooted (split_slash p [])) in
  if rooted then slash :: body
  else match body with [] => dot | _ => body end.

(** [filepath.Join]: the non-empty arguments joined by slashes, cleaned; nothing at all for no
    (non-empty) argument *)
Definition join_nonempty (l : list (list Z)) : list (list Z) := filter (fun e => negb (zs_eqb e [])) l.
Definition path_join (l : list (list Z)) : list Z :=
  match join_nonempty l with
  | [] => []
  | ne => path_clean (join_slash ne)
  end.

(** ** What the operating system makes of a name (as opposed to what its text suggests)

    [generate] hands its [-dest] to [Create] as it is written, so the file is created where the
    operating system finds that name: the elements are followed one by one, a directory that is a
    symbolic link is replaced by the directory it points to, and ".." leaves the directory reached so
    far -- not the directory the text of the name was in.  A link is given by its own place (the
    elements that lead to it from the top directory of the tree) and the place it points to. *)
Fixpoint elems_eqb (a b : list (list Z)) : bool :=
  match a, b with
  | [], [] => true
  | x :: r, y :: q => zs_eqb x y && elems_eqb r q
  | _, _ => false
  end.

Definition link_table := list (list (list Z) * list (list Z)).

Fixpoint find_link (ls : link_table) (place : list (list Z)) : option (list (list Z)) :=
  match ls with
  | [] => None
  | (l, t) :: r => if elems_eqb l place then Some t else find_link r place
  end.

(** one element followed; the stack holds the place reached so far, last element first *)
Definition phys_step (ls : link_table) (st : list (list Z)) (e : list Z) : list (list Z) :=
  if zs_eqb e [] || zs_eqb e dot then st
  else if zs_eqb e dotdot then match st with _ :: below => below | [] => [] end
  else match find_link ls (rev (e :: st)) with
       | Some t => rev t
       | None => e :: st
       end.

Definition phys_elems (ls : link_table) (es : list (list Z)) : list (list Z) :=
  rev (fold_left (phys_step ls) es []).

(** the place a name relative to the top directory denotes *)
Definition phys_name (ls : link_table) (p : list Z) : list Z :=
  join_slash (phys_elems ls (split_slash p [])).
