(** net/url as used between client (cmd/view.go, cmd/view_raw.go, cmd/sum.go, cmd/glob.go: the
    query is built with fmt.Sprintf from url.QueryEscape'd values) and server (r.ParseForm, then
    r.FormValue): QueryEscape, QueryUnescape and ParseQuery on byte strings. *)
From WT Require Import Base.Wrap Base.ListX.

Definition is_alnum (c : Z) : bool :=
  ((48 <=? c) && (c <=? 57)) || ((65 <=? c) && (c <=? 90)) || ((97 <=? c) && (c <=? 122)).
(** [shouldEscape(c, encodeQueryComponent) = false] *)
Definition is_unreserved (c : Z) : bool := is_alnum c || (c =? 45) || (c =? 95) || (c =? 46) || (c =? 126).

Definition hexdig (n : Z) : Z := if n <? 10 then 48 + n else 55 + n.       (* "0123456789ABCDEF" *)
Definition unhex (c : Z) : option Z :=
  if (48 <=? c) && (c <=? 57) then Some (c - 48)
  else if (97 <=? c) && (c <=? 102) then Some (c - 87)
  else if (65 <=? c) && (c <=? 70) then Some (c - 55)
  else None.

(** [url.QueryEscape] *)
Definition esc1 (c : Z) : list Z :=
  if is_unreserved c then [c] else if c =? 32 then [43] else [37; hexdig (c / 16); hexdig (c mod 16)].
Definition q_escape (s : list Z) : list Z := flat_map esc1 s.

(** [url.QueryUnescape]; [None] = EscapeError *)
Fixpoint q_unescape (s : list Z) : option (list Z) :=
  match s with
  | [] => Some []
  | c :: r =>
    if c =? 37 then
      match r with
      | a :: b :: r' =>
        match unhex a, unhex b, q_unescape r' with
        | Some x, Some y, Some t => Some (16 * x + y :: t)
        | _, _, _ => None
        end
      | _ => None
      end
    else match q_unescape r with
         | Some t => Some ((if c =? 43 then 32 else c) :: t)
         | None => None
         end
  end.

(** strings.Cut at the first [sep] *)
Fixpoint cut (sep : Z) (s : list Z) : list Z * option (list Z) :=
  match s with
  | [] => ([], None)
  | c :: r => if c =? sep then ([], Some r)
              else let '(a, b) := cut sep r in (c :: a, b)
  end.

(** one "key=value" piece of a query *)
Definition parse_piece (piece : list Z) : option (list Z * list Z) :=
  let '(key, v) := cut 61 piece in
  match q_unescape key, q_unescape (match v with Some x => x | None => [] end) with
  | Some k', Some v' => Some (k', v')
  | _, _ => None
  end.

(** [url.ParseQuery]: pieces separated by '&'; a piece with ';' is an error; an empty piece is
    skipped; key and value are separated by the first '=' and unescaped.  [None] = error (the
    handlers answer with an error).  [fuel] bounds the number of pieces by the length. *)
Fixpoint parse_query_fuel (fuel : nat) (s : list Z) : option (list (list Z * list Z)) :=
  match fuel with
  | O => Some []
  | S k =>
    let '(piece, rest) := cut 38 s in
    let tail := match rest with Some r => parse_query_fuel k r | None => Some [] end in
    if existsb (fun c => c =? 59) piece then None
    else match piece with
         | [] => tail
         | _ => match parse_piece piece, tail with
                | Some kv, Some t => Some (kv :: t)
                | _, _ => None
                end
         end
  end.
Definition parse_query (s : list Z) : option (list (list Z * list Z)) := parse_query_fuel (S (length s)) s.

(** the client side: "k1=" ++ escape v1 ++ "&k2=" ++ ... *)
Fixpoint build_query (kvs : list (list Z * list Z)) : list Z :=
  match kvs with
  | [] => []
  | [(k, v)] => k ++ [61] ++ q_escape v
  | (k, v) :: r => k ++ [61] ++ q_escape v ++ [38] ++ build_query r
  end.

(** [r.FormValue]: the first value of the key *)
Fixpoint form_value (kvs : list (list Z * list Z)) (key : list Z) : option (list Z) :=
  match kvs with
  | [] => None
  | (k, v) :: r => if (zlen k =? zlen key) && forallb (fun ab => fst ab =? snd ab) (combine k key) then Some v else form_value r key
  end.
