(** whisper.go / archive_info.go — archives as rings of slots; the read path.
    Mirrors the Go functions by name.  [None] results stand for a Go panic
    (index out of range). *)
From WT Require Import Base.Wrap Base.ListX Model.Time.

Record point := mkPoint { p_time : Z; p_val : Z }.
Definition zero_point : point := mkPoint 0 0.

(** One archive: its ArchiveInfo (offset omitted here: slots are addressed by index,
    the byte offset [a_off + 12*index] belongs to the file encoding) and its slots. *)
Record arc := mkArc { a_step : Z; a_n : Z; a_slots : list point }.

Definition NaN : Z := 0x7FF8000000000001.      (* math.NaN() *)

Definition slot (a : arc) (i : Z) : point := znth zero_point (a_slots a) i.

(** [Whisper.baseInterval]: the timestamp stored in the first physical slot. *)
Definition base_interval (a : arc) : Z := p_time (slot a 0).

(** [ArchiveInfo.MaxRetention] *)
Definition max_retention (a : arc) : Z := retention (a_step a) (a_n a).

(** [ArchiveInfo.pointIndex] *)
Definition point_index (a : arc) (base t : Z) : Z :=
  floorMod (Z.quot (ts_sub t base) (a_step a)) (a_n a).

(** [Whisper.getPointOffset] as an index *)
Definition get_point_index (a : arc) (t : Z) : Z :=
  let b := base_interval a in if b =? 0 then 0 else point_index a b t.

(** [Whisper.putPointAt] at a physical index *)
Definition put_at (a : arc) (i : Z) (p : point) : arc :=
  mkArc (a_step a) (a_n a) (zupd (a_slots a) i p).

(** single write as done by UpdatePointForArchive / propagate *)
Definition put (a : arc) (t v : Z) : arc := put_at a (get_point_index a t) (mkPoint t v).

(** [Whisper.fetchRawPoints] (with the F7 repair: the end index is derived from the start
    index and the length of the result).  [None] = panic: negative length handed to make, or an
    index past the result slice. *)
Definition fetch_raw (a : arc) (f u : Z) : option (list point) :=
  let b := base_interval a in
  let cnt := Z.quot (ts_sub u f) (a_step a) in
  let fi := point_index a b f in
  let ui := Z.rem (fi + cnt) (a_n a) in
  let sq := if fi <? ui then slice (a_slots a) fi ui
            else slice (a_slots a) fi (a_n a) ++ slice (a_slots a) 0 ui in
  if cnt <? 0 then None
  else if zlen sq >? cnt then None
  else Some (sq ++ repeat zero_point (Z.to_nat (cnt - zlen sq))).

(** [clearOldPoints] followed by [Points.Values] *)
Fixpoint clear_old (ps : list point) (cur step : Z) : list Z :=
  match ps with
  | [] => []
  | p :: r => (if p_time p =? cur then p_val p else NaN) :: clear_old r (ts_add cur step) step
  end.

Record series := mkSeries { s_from : Z; s_until : Z; s_step : Z; s_vals : list Z }.

Inductive fetch_res :=
| FErrInterval        (* from > until *)
| FErrArchive         (* ErrArchiveIDOutOfRange *)
| FNone               (* nil, nil *)
| FSeries (s : series)
| FPanic.

(** [Whisper.findBestArchive]: index of the first archive whose retention is >= now-t,
    the last one if there is none. *)
Fixpoint find_best_from (arcs : list arc) (i : Z) (diff : Z) : Z :=
  match arcs with
  | [] => i - 1        (* unreachable for non-empty lists: handled below *)
  | a :: r => if max_retention a >=? diff then i
              else match r with [] => i | _ => find_best_from r (i + 1) diff end
  end.
Definition find_best (arcs : list arc) (t now : Z) : Z := find_best_from arcs 0 (ts_sub now t).

Definition ArchiveIDBest : Z := -1.

(** [Whisper.FetchFromArchive] (with the F3 repair: the degenerate-window extension
    precedes the never-written branch).  [now] is the explicit, non-zero clock. *)
Definition fetch_from_archive (arcs : list arc) (id from until now : Z) : fetch_res :=
  if from >? until then FErrInterval
  else if ((negb (id =? ArchiveIDBest)) && (id <? 0)) || (zlen arcs - 1 <? id) then FErrArchive
  else
    let id := if id =? ArchiveIDBest then find_best arcs from now else id in
    match nth_error arcs (Z.to_nat id) with
    | None => FPanic
    | Some r =>
      let oldest := ts_add now (i32 (- max_retention r)) in
      if from >? now then FNone
      else if until <? oldest then FNone
      else
        let from := if from <? oldest then oldest else from in
        let until := if until >? now then now else until in
        let fi := interval (a_step r) from in
        let ui := interval (a_step r) until in
        let ui := if fi =? ui then ts_add ui (a_step r) else ui in
        if base_interval r =? 0 then
          FSeries (mkSeries fi ui (a_step r)
                     (repeat NaN (Z.to_nat (Z.quot (ts_sub ui fi) (a_step r)))))
        else
          match fetch_raw r fi ui with
          | None => FPanic
          | Some ps => FSeries (mkSeries fi ui (a_step r) (clear_old ps fi (a_step r)))
          end
    end.

(** [TimeSeries.Points]: times of the points *)
Fixpoint series_times_from (from step i : Z) (vs : list Z) : list Z :=
  match vs with
  | [] => []
  | _ :: r => ts_add from (i32 (i * step)) :: series_times_from from step (i + 1) r
  end.
Definition series_times (s : series) : list Z := series_times_from (s_from s) (s_step s) 0 (s_vals s).
