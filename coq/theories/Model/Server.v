(** The two reading endpoints of "whispertool server" and the client functions that call them
    (cmd/server.go handleView / handleSum, cmd/view.go readWhisperFileRemote, cmd/sum.go
    sumWhisperFileRemote): the client formats a query, the handler parses it back into the
    arguments of the local read, answers with the encoded result (or nothing for a missing file),
    the client decodes the body.  The transport (net/http) delivers the query and the body; the
    directory under the server's base is the function [lookup] / [glob] (the same one the local
    read uses, since both join the relative name to the base directory). *)
From Coq Require Import String.
From WT Require Import Base.Wrap Base.ListX Base.Bytes Model.Time Model.Ring Model.Update Model.Codec Model.Handle
  Model.Text Model.Args Model.Query Model.Cmd Model.Wire.

(** strconv.Atoi *)
Definition atoi (s : list Z) : option Z :=
  match s with
  | [] => None
  | c :: r =>
    let '(neg, body) := if c =? 43 then (false, r) else if c =? 45 then (true, r) else (false, s) in
    match body with
    | [] => None
    | _ => match digits_in 10 body 0 with
           | Some v => if neg then (if v <=? 2^63 then Some (- v) else None)
                       else (if v <? 2^63 then Some v else None)
           | None => None
           end
    end
  end.

Definition k_file := lit "file".
Definition k_item := lit "item".
Definition k_pattern := lit "pattern".
Definition k_retention := lit "retention".
Definition k_from := lit "from".
Definition k_until := lit "until".
Definition k_now := lit "now".

(** ** the client's request (fmt.Sprintf with url.QueryEscape on every string and %d for the archive) *)
Definition view_query (file : list Z) (aid from until now : Z) : list Z :=
  k_file ++ [61] ++ q_escape file ++ [38] ++ k_retention ++ [61] ++ print_int aid ++ [38] ++
  k_from ++ [61] ++ q_escape (timestamp_string from) ++ [38] ++ k_until ++ [61] ++ q_escape (timestamp_string until) ++ [38] ++
  k_now ++ [61] ++ q_escape (timestamp_string now).

Definition sum_query (item pattern : list Z) (aid from until now : Z) : list Z :=
  k_item ++ [61] ++ q_escape item ++ [38] ++ k_pattern ++ [61] ++ q_escape pattern ++ [38] ++
  k_retention ++ [61] ++ print_int aid ++ [38] ++
  k_from ++ [61] ++ q_escape (timestamp_string from) ++ [38] ++ k_until ++ [61] ++ q_escape (timestamp_string until) ++ [38] ++
  k_now ++ [61] ++ q_escape (timestamp_string now).

(** ** the handlers *)
Inductive http_res :=
| HBadRequest                 (* 400 with a text body *)
| HServerError                (* 500 with a text body *)
| HPanic                      (* the handler panicked: net/http drops the connection *)
| HBody (b : list Z).         (* 200; the empty body is the not-exist answer *)

(** r.Form.Get *)
Definition form_get (form : list (list Z * list Z)) (k : list Z) : list Z :=
  match form_value form k with Some v => v | None => [] end.

Definition respond (r : read_res) : http_res :=
  match r with
  | RdNotExist => HBody []
  | RdErr => HServerError
  | RdPanic => HPanic
  | RdOk h l => match h_header h with
                | Some hd => HBody (view_response hd l)
                | None => HPanic
                end
  end.

(** the window parameters shared by the two handlers *)
Definition window_params (form : list (list Z * list Z)) : option (Z * Z * Z) :=
  match parse_timestamp (form_get form k_from), parse_timestamp (form_get form k_until), parse_timestamp (form_get form k_now) with
  | Some f, Some u, Some n => Some (f, u, n)
  | _, _, _ => None
  end.

Definition handle_view (lookup : list Z -> option handle) (raw : list Z) : http_res :=
  match parse_query raw with
  | None => HBadRequest
  | Some form =>
    match form_get form k_retention with
    | [] => HBadRequest
    | rs => match atoi rs with
            | None => HBadRequest
            | Some aid =>
              match form_get form k_file with
              | [] => HBadRequest
              | file => match window_params form with
                        | Some (f, u, n) => respond (read_file (lookup file) aid f u n)
                        | None => HBadRequest
                        end
              end
            end
    end
  end.

Definition handle_sum (F : fops) (glob : list Z -> list Z -> list (option handle)) (raw : list Z) : http_res :=
  match parse_query raw with
  | None => HBadRequest
  | Some form =>
    match form_get form k_item with
    | [] => HBadRequest
    | item =>
      match form_get form k_pattern with
      | [] => HBadRequest
      | pattern =>
        match form_get form k_retention with
        | [] => HBadRequest
        | rs => match atoi rs with
                | None => HBadRequest
                | Some aid => match window_params form with
                              | Some (f, u, n) => respond (sum_files F (glob item pattern) aid f u n)
                              | None => HBadRequest
                              end
                end
        end
      end
    end
  end.

(** ** the client's reading of the answer ([getFileDataFromRemote]; a text body does not decode) *)
Definition client_read (r : http_res) : wire_res (list series) :=
  match r with
  | HBody b => client_view b
  | _ => WErr
  end.

(** ** /view-raw (cmd/view_raw.go readWhisperFileRawRemote, cmd/server.go handleViewRaw) *)
Inductive raw_res := RwNotExist | RwErr | RwOk (h : handle) (pl : list (list point)).

(** [readWhisperFileRawLocal] *)
Definition read_raw (f : option handle) (aid : Z) : raw_res :=
  match f, opened f with
  | None, _ => RwNotExist
  | Some _, None => RwErr
  | Some _, Some h =>
    if (aid =? ArchiveIDAll) || ((0 <=? aid) && (aid <? zlen (hd_arcs h)))
    then RwOk h (raw_lists (hd_arcs h) 0 aid)
    else RwErr
  end.

Definition view_raw_query (file : list Z) (aid : Z) : list Z :=
  k_file ++ [61] ++ q_escape file ++ [38] ++ k_retention ++ [61] ++ print_int aid.

Definition respond_raw (r : raw_res) : http_res :=
  match r with
  | RwNotExist => HBody []
  | RwErr => HServerError
  | RwOk h pl => match h_header h with
                 | Some hd => HBody (view_raw_response hd pl)
                 | None => HPanic
                 end
  end.

Definition handle_view_raw (lookup : list Z -> option handle) (raw : list Z) : http_res :=
  match parse_query raw with
  | None => HBadRequest
  | Some form =>
    match form_get form k_retention with
    | [] => HBadRequest
    | rs => match atoi rs with
            | None => HBadRequest
            | Some aid => match form_get form k_file with
                          | [] => HBadRequest
                          | file => respond_raw (read_raw (lookup file) aid)
                          end
            end
    end
  end.

Definition client_read_raw (r : http_res) : wire_res (list (list point)) :=
  match r with
  | HBody b => client_view_raw b
  | _ => WErr
  end.

(** ** the globbing endpoints /files and /items (cmd/server.go handleFiles / handleItems, cmd/glob.go
    globFilesRemote / globItemsRemote): the matched names travel one per line; the client cuts the
    body with bufio.ScanLines (a line ends at LF; one trailing CR is dropped; a last line without
    LF counts when it is not empty) *)
Definition names_body (names : list (list Z)) : list Z := flat_map (fun n => n ++ [10]) names.

Definition drop_cr (l : list Z) : list Z :=
  match rev l with
  | 13 :: r => rev r
  | _ => l
  end.

Fixpoint split_lines (s : list Z) (cur : list Z) : list (list Z) :=
  match s with
  | [] => match cur with [] => [] | _ => [drop_cr (rev cur)] end
  | c :: r => if c =? 10 then drop_cr (rev cur) :: split_lines r [] else split_lines r (c :: cur)
  end.

(** what the client makes of the names the server matched (an empty body is "nothing exists") *)
Definition client_names (names : list (list Z)) : list (list Z) := split_lines (names_body names) [].

(** a name the line protocol carries: no line break, no trailing carriage return *)
Definition line_safe (n : list Z) : Prop := ~ In 10 n /\ (forall r, n <> r ++ [13]).
