(** timestamp.go — Duration.String / ParseDuration / leadingInt / unitMultiplier, and
    Timestamp.String / ParseTimestamp for the fixed layout "2006-01-02T15:04:05Z".
    Strings are lists of byte codes. *)
From WT Require Import Base.Wrap Base.ListX.

Definition MaxI32 : Z := 2^31 - 1.
Definition c0 : Z := 48.                       (* '0' *)
Definition is_digit (c : Z) : bool := (48 <=? c) && (c <=? 57).

(** decimal rendering of a non-negative integer (fmt %d) *)
Fixpoint digits_fuel (fuel : nat) (n : Z) (acc : list Z) : list Z :=
  match fuel with
  | O => acc
  | S f => let acc' := (c0 + n mod 10) :: acc in
           if n / 10 =? 0 then acc' else digits_fuel f (n / 10) acc'
  end.
Definition print_nat (n : Z) : list Z := digits_fuel 20 n [].
Definition print_int (n : Z) : list Z := if n <? 0 then 45 :: print_nat (- n) else print_nat n.

Definition Second := 1. Definition Minute := 60. Definition Hour := 3600.
Definition Day := 86400. Definition Week := 604800. Definition Year := 31536000.

(** [Duration.String] (Go's % is Z.rem, / is Z.quot) *)
Definition duration_string (d : Z) : list Z :=
  if d =? 0 then [48; 115]
  else if Z.rem d Year =? 0 then print_int (Z.quot d Year) ++ [121]
  else if Z.rem d Week =? 0 then print_int (Z.quot d Week) ++ [119]
  else if Z.rem d Day =? 0 then print_int (Z.quot d Day) ++ [100]
  else if Z.rem d Hour =? 0 then print_int (Z.quot d Hour) ++ [104]
  else if Z.rem d Minute =? 0 then print_int (Z.quot d Minute) ++ [109]
  else print_int d ++ [115].

(** [leadingInt]: returns (x, rest, number of digits consumed) or None on overflow *)
Fixpoint leading_int (s : list Z) (x : Z) (i : Z) : option (Z * list Z * Z) :=
  match s with
  | c :: r =>
    if is_digit c then
      if x >? MaxI32 / 10 then None
      else let x' := i32 (i32 (x * 10 + c) - c0) in   (* x*10 + int32(c) - '0' in int32 *)
           if x' <? 0 then None else leading_int r x' (i + 1)
    else Some (x, s, i)
  | [] => Some (x, [], i)
  end.

(** [unitMultiplier] *)
Definition unit_multiplier (c : Z) : option Z :=
  if c =? 115 then Some Second else if c =? 109 then Some Minute else if c =? 104 then Some Hour
  else if c =? 100 then Some Day else if c =? 119 then Some Week else if c =? 121 then Some Year
  else None.

(** [ParseDuration] *)
Definition parse_duration (s : list Z) : option Z :=
  match leading_int s 0 0 with
  | None => None
  | Some (x, rem, i) =>
    if (x =? 0) && negb (i =? 1) then None          (* redundant leading zeros / no digits *)
    else match rem with
         | [u] =>
           match unit_multiplier u with
           | None => None
           | Some unit =>
             if x >? Z.quot MaxI32 unit then None
             else let d := i32 (x * unit) in if d <? 0 then None else Some d
           end
         | _ => None
         end
  end.

(** ** Timestamps: civil date from the Unix day number (proleptic Gregorian, as Go's time) *)
Definition civil_from_days (z0 : Z) : Z * Z * Z :=
  let z := z0 + 719468 in
  let era := z / 146097 in
  let doe := z - era * 146097 in
  let yoe := (doe - doe / 1460 + doe / 36524 - doe / 146096) / 365 in
  let y := yoe + era * 400 in
  let doy := doe - (365 * yoe + yoe / 4 - yoe / 100) in
  let mp := (5 * doy + 2) / 153 in
  let d := doy - (153 * mp + 2) / 5 + 1 in
  let m := if mp <? 10 then mp + 3 else mp - 9 in
  (if m <=? 2 then y + 1 else y, m, d).
Definition days_from_civil (y0 m d : Z) : Z :=
  let y := if m <=? 2 then y0 - 1 else y0 in
  let era := y / 400 in
  let yoe := y - era * 400 in
  let doy := (153 * (if m >? 2 then m - 3 else m + 9) + 2) / 5 + d - 1 in
  let doe := yoe * 365 + yoe / 4 - yoe / 100 + doy in
  era * 146097 + doe - 719468.

Definition two (n : Z) : list Z := [c0 + n / 10; c0 + n mod 10].
Definition four (n : Z) : list Z := [c0 + n / 1000; c0 + n / 100 mod 10; c0 + n / 10 mod 10; c0 + n mod 10].

(** [Timestamp.String]: time.Unix(t,0).UTC().Format("2006-01-02T15:04:05Z") *)
Definition timestamp_string (t : Z) : list Z :=
  let '(y, m, d) := civil_from_days (t / 86400) in
  let s := t mod 86400 in
  four y ++ [45] ++ two m ++ [45] ++ two d ++ [84] ++ two (s / 3600) ++ [58] ++ two (s / 60 mod 60)
  ++ [58] ++ two (s mod 60) ++ [90].

Definition dig (c : Z) : option Z := if is_digit c then Some (c - c0) else None.
Definition num2 (a b : Z) : option Z :=
  match dig a, dig b with Some x, Some y => Some (x * 10 + y) | _, _ => None end.
Definition num4 (a b c d : Z) : option Z :=
  match num2 a b, num2 c d with Some x, Some y => Some (x * 100 + y) | _, _ => None end.
Definition is_leap (y : Z) : bool := (y mod 4 =? 0) && (negb (y mod 100 =? 0) || (y mod 400 =? 0)).
Definition days_in (y m : Z) : Z :=
  if m =? 2 then (if is_leap y then 29 else 28)
  else if (m =? 4) || (m =? 6) || (m =? 9) || (m =? 11) then 30 else 31.

(** the canonical 20-character form "YYYY-MM-DDTHH:MM:SSZ", with the F10 range check *)
Definition parse_timestamp_canon (s : list Z) : option Z :=
  match s with
  | [y1;y2;y3;y4; h1; m1;m2; h2; d1;d2; tch; hh1;hh2; k1; mi1;mi2; k2; s1;s2; zz] =>
    if (h1 =? 45) && (h2 =? 45) && (tch =? 84) && (k1 =? 58) && (k2 =? 58) && (zz =? 90) then
      match num4 y1 y2 y3 y4, num2 m1 m2, num2 d1 d2, num2 hh1 hh2, num2 mi1 mi2, num2 s1 s2 with
      | Some y, Some m, Some d, Some hh, Some mi, Some ss =>
        if (1 <=? m) && (m <=? 12) && (1 <=? d) && (d <=? days_in y m) && (hh <? 24) && (mi <? 60) && (ss <? 60)
        then let t := days_from_civil y m d * 86400 + hh * 3600 + mi * 60 + ss in
             if (0 <=? t) && (t <? 2^32) then Some t else None
        else None
      | _, _, _, _, _, _ => None
      end
    else None
  | _ => None
  end.

(** Go's time.Parse is more liberal than the layout suggests in exactly two places: the hour
    field ("15") takes one or two digits, and a fractional-second field (period or comma and
    digits) is accepted after the seconds even though the layout has none.  The repaired
    ParseTimestamp rejects a non-zero fraction; only the first nine digits count.
    [normalize_ts] rewrites such a string to the canonical form (or rejects it). *)
Fixpoint take_digits (s : list Z) : list Z * list Z :=
  match s with
  | c :: r => if is_digit c then let '(ds, tl) := take_digits r in (c :: ds, tl) else ([], s)
  | [] => ([], [])
  end.

Definition normalize_ts (s : list Z) : option (list Z) :=
  match s with
  | y1 :: y2 :: y3 :: y4 :: h1 :: m1 :: m2 :: h2 :: d1 :: d2 :: tch :: a :: rest =>
    let pre := [y1; y2; y3; y4; h1; m1; m2; h2; d1; d2; tch] in
    let hr := match rest with
              | b :: _ => if is_digit a && negb (is_digit b) then c0 :: a :: rest else a :: rest
              | [] => a :: rest
              end in
    match hr with
    | hh1 :: hh2 :: k1 :: mi1 :: mi2 :: k2 :: s1 :: s2 :: tail =>
      match tail with
      | c :: d :: r =>
        if ((c =? 46) || (c =? 44)) && is_digit d then
          let '(ds, tl) := take_digits (d :: r) in
          if forallb (fun x => x =? c0) (firstn 9 ds)
          then Some (pre ++ [hh1; hh2; k1; mi1; mi2; k2; s1; s2] ++ tl)
          else None
        else Some (pre ++ hr)
      | _ => Some (pre ++ hr)
      end
    | _ => Some (pre ++ hr)
    end
  | _ => Some s
  end.

(** [ParseTimestamp] *)
Definition parse_timestamp (s : list Z) : option Z :=
  match normalize_ts s with
  | None => None
  | Some s' => parse_timestamp_canon s'
  end.

(** ** Archive lists (archive_info.go) *)
From WT Require Import Base.Bytes Model.Time Model.Ring Model.Codec.

(** split at the first occurrence of [c] *)
Fixpoint split_first (c : Z) (s : list Z) : option (list Z * list Z) :=
  match s with
  | [] => None
  | x :: r => if x =? c then Some ([], r)
              else match split_first c r with Some (a, b) => Some (x :: a, b) | None => None end
  end.

(** [ParseArchiveInfo] -> (secondsPerPoint, numberOfPoints) *)
Definition parse_archive_info (s : list Z) : option (Z * Z) :=
  match split_first 58 s with
  | None => None
  | Some (a, b) =>
    match b with
    | [] => None
    | _ => match parse_duration a, parse_duration b with
           | Some step, Some d =>
             if (step <=? 0) || (d <=? 0) || negb (Z.rem d step =? 0) then None
             else Some (step, u32 (Z.quot d step))
           | _, _ => None
           end
    end
  end.

(** fields separated by commas (a trailing comma yields a last empty field, which does not parse) *)
Fixpoint split_commas (s : list Z) (cur : list Z) : list (list Z) :=
  match s with
  | [] => [rev cur]
  | x :: r => if x =? 44 then rev cur :: split_commas r [] else split_commas r (x :: cur)
  end.

Fixpoint all_some {A} (l : list (option A)) : option (list A) :=
  match l with
  | [] => Some []
  | None :: _ => None
  | Some x :: r => match all_some r with Some xs => Some (x :: xs) | None => None end
  end.

(** [ParseArchiveInfoList]: the list with offsets filled in, validated *)
Definition parse_archive_info_list (s : list Z) : option (list ainfo) :=
  match s with
  | [] => None
  | _ => match all_some (map parse_archive_info (split_commas s [])) with
         | None => None
         | Some l => let l' := fill_offset (map (fun sn => mkAinfo 0 (fst sn) (snd sn)) l) in
                     if validate l' then Some l' else None
         end
  end.

(** [ArchiveInfo.String], [ArchiveInfoList.String] *)
Definition archive_info_string (step n : Z) : list Z :=
  duration_string step ++ [58] ++ duration_string (retention step n).
Fixpoint archive_list_string (l : list (Z * Z)) : list Z :=
  match l with
  | [] => []
  | [(s, n)] => archive_info_string s n
  | (s, n) :: r => archive_info_string s n ++ [44] ++ archive_list_string r
  end.

(** ** Aggregation method names (aggregationmethod_enumer.go, cmd/flags.go) *)
Definition method_names : list (Z * list Z) :=
  [(1, [97;118;101;114;97;103;101]); (2, [115;117;109]); (3, [108;97;115;116]); (4, [109;97;120]);
   (5, [109;105;110]); (6, [102;105;114;115;116]); (7, [109;105;120]);
   (8, [112;101;114;99;101;110;116;105;108;101])].
Fixpoint list_eqb (a b : list Z) : bool :=
  match a, b with
  | [], [] => true
  | x :: r, y :: q => (x =? y) && list_eqb r q
  | _, _ => false
  end.
(** [AggregationMethodString] *)
Definition method_of_string (s : list Z) : option Z :=
  match filter (fun e => list_eqb (snd e) s) method_names with
  | e :: _ => Some (fst e)
  | [] => None
  end.
(** [AggregationMethod.String] *)
Definition method_string (m : Z) : list Z :=
  match filter (fun e => fst e =? m) method_names with
  | e :: _ => snd e
  | [] => [65;103;103;114;101;103;97;116;105;111;110;77;101;116;104;111;100;40] ++ print_int m ++ [41]
  end.
(** [aggregationMethodValue.Set] of the CLI: only the six storable methods *)
Definition flag_method (s : list Z) : option Z :=
  match method_of_string s with
  | Some m => if (1 <=? m) && (m <=? 6) then Some m else None
  | None => None
  end.
