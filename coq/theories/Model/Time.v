(** timestamp.go, floor_mod.go, archive_info.go (interval arithmetic).
    Timestamp = uint32, Duration = int32. *)
From WT Require Import Base.Wrap.

(** [Timestamp.Add] *)
Definition ts_add (t d : Z) : Z :=
  if 0 <=? d then u32 (t + u32 d) else u32 (t - u32 (i32 (- d))).

(** [Timestamp.Sub] *)
Definition ts_sub (t u : Z) : Z :=
  if u <=? t then i32 (u32 (t - u)) else i32 (- i32 (u32 (u - t))).

(** [Timestamp.Truncate] *)
Definition ts_truncate (t d : Z) : Z :=
  if d <=? 0 then t else ts_add t (i32 (- i32 (Z.rem t d))).

(** [ArchiveInfo.interval]: int64 arithmetic on 32-bit operands cannot overflow;
    the conversion back to Timestamp wraps. *)
Definition interval (step t : Z) : Z := u32 (t - floorMod t step + step).
(** [ArchiveInfo.intervalForWrite] *)
Definition interval_w (step t : Z) : Z := u32 (t - floorMod t step).

(** [ArchiveInfo.MaxRetention]: int32 product, numberOfPoints converted from uint32. *)
Definition retention (step n : Z) : Z := i32 (step * i32 n).
