(** whisper.go — the write path: UpdatePointForArchive, UpdatePointsForArchive,
    extractPoints, alignPoints, archiveUpdateMany, propagateChain, propagate,
    filterValidValues, aggregate.  Mirrors the repaired code (F1: no aggregate of an
    empty known set; F2: extractPoints without the i == 0 special case). *)
From WT Require Import Base.Wrap Base.ListX Model.Time Model.Ring.

(** Float operations enter through a record: theorems hold for every instance. *)
Record fops := mkFops {
  f_zero : Z;                       (* Value(0) *)
  f_add : Z -> Z -> Z;              (* v + u *)
  f_div_len : Z -> Z -> Z;          (* v / Value(len) *)
  f_lt : Z -> Z -> bool;            (* v < u *)
  f_frac_lt : Z -> Z -> Z -> bool   (* float32(k)/float32(n) < xff *)
}.

(** AggregationMethod constants *)
Definition Average := 1. Definition Sum := 2. Definition Last := 3.
Definition Max := 4. Definition Min := 5. Definition First := 6.

Definition fsum (F : fops) (kv : list Z) : Z := fold_left (f_add F) kv (f_zero F).

(** [aggregate]; [None] = panic (empty slice index, invalid method) *)
Definition aggregate (F : fops) (m : Z) (kv : list Z) : option Z :=
  if m =? Average then Some (f_div_len F (fsum F kv) (zlen kv))
  else if m =? Sum then Some (fsum F kv)
  else if m =? First then match kv with [] => None | x :: _ => Some x end
  else if m =? Last then match rev kv with [] => None | x :: _ => Some x end
  else if m =? Max then
    match kv with [] => None
    | x :: _ => Some (fold_left (fun mx v => if f_lt F mx v then v else mx) kv x) end
  else if m =? Min then
    match kv with [] => None
    | x :: _ => Some (fold_left (fun mn v => if f_lt F v mn then v else mn) kv x) end
  else None.

(** [filterValidValues] *)
Fixpoint filter_valid (ps : list point) (cur step : Z) : list Z :=
  match ps with
  | [] => []
  | p :: r => (if p_time p =? cur then [p_val p] else []) ++ filter_valid r (ts_add cur step) step
  end.

(** append [t] unless it equals the last element (the de-duplication used twice in Go) *)
Definition push_dedup (ts : list Z) (t : Z) : list Z :=
  match rev ts with
  | x :: _ => if x =? t then ts else ts ++ [t]
  | [] => ts ++ [t]
  end.

(** [ArchiveInfo.timesToPropagate] *)
Definition times_to_propagate (step_low : Z) (pts : list point) : list Z :=
  fold_left (fun ts p => push_dedup ts (interval_w step_low (p_time p))) pts [].

Definition set_arc (arcs : list arc) (i : Z) (a : arc) : list arc := zupd arcs i a.
Definition get_arc (arcs : list arc) (i : Z) : option arc := nth_error arcs (Z.to_nat i).

(** one iteration of the loop body of [propagate] for interval [t] of archive [l] *)
Definition propagate_one (F : fops) (m xff : Z) (arcs : list arc) (l : Z) (acc : list Z) (t : Z)
  : option (list arc * list Z) :=
  match get_arc arcs (l - 1), get_arc arcs l with
  | Some high, Some r =>
    match fetch_raw high t (ts_add t (a_step r)) with
    | None => None
    | Some ps =>
      let vals := filter_valid ps (interval_w (a_step high) t) (a_step high) in
      match vals with
      | [] => Some (arcs, acc)                                        (* F1 repair *)
      | _ =>
        if f_frac_lt F (zlen vals) (zlen ps) xff then Some (arcs, acc)
        else match aggregate F m vals with
             | None => None
             | Some v =>
               let arcs' := set_arc arcs l (put r t v) in
               match get_arc arcs (l + 1) with
               | Some low => Some (arcs', push_dedup acc (interval_w (a_step low) t))
               | None => Some (arcs', acc)
               end
             end
      end
    end
  | _, _ => None
  end.

(** [propagate] *)
Fixpoint propagate (F : fops) (m xff : Z) (arcs : list arc) (l : Z) (acc : list Z) (ts : list Z)
  : option (list arc * list Z) :=
  match ts with
  | [] => Some (arcs, acc)
  | t :: rest =>
    match propagate_one F m xff arcs l acc t with
    | None => None
    | Some (arcs', acc') => propagate F m xff arcs' l acc' rest
    end
  end.

(** the level loop of [propagateChain]; [fuel] = number of archives *)
Fixpoint chain (F : fops) (m xff : Z) (fuel : nat) (arcs : list arc) (l : Z) (ts : list Z)
  : option (list arc) :=
  match fuel with
  | O => Some arcs
  | S fuel' =>
    if (l <? zlen arcs) && negb (match ts with [] => true | _ => false end) then
      match propagate F m xff arcs l [] ts with
      | None => None
      | Some (arcs', ts') => chain F m xff fuel' arcs' (l + 1) ts'
      end
    else Some arcs
  end.

(** [propagateChain] *)
Definition propagate_chain (F : fops) (m xff : Z) (arcs : list arc) (a : Z) (aligned : list point)
  : option (list arc) :=
  match get_arc arcs (a + 1) with
  | None => Some arcs
  | Some low => chain F m xff (length arcs) arcs (a + 1) (times_to_propagate (a_step low) aligned)
  end.

(** * Routing: sort, extractPoints, alignPoints, archiveUpdateMany, Update* *)

(** [sort.Stable(Points(points))]: stable insertion sort by time (any stable sort
    yields the same permutation). *)
Fixpoint ins_stable (p : point) (l : list point) : list point :=
  match l with
  | [] => [p]
  | q :: r => if p_time p <? p_time q then p :: q :: r else q :: ins_stable p r
  end.
Definition sort_points (l : list point) : list point :=
  fold_left (fun acc p => ins_stable p acc) l [].

(** [extractPoints] (F2-repaired): the suffix after the last point with time <= maxAge
    is current, the rest remains. *)
Fixpoint split_last_le (l : list point) (maxAge : Z) : option (list point * list point) :=
  match l with
  | [] => None
  | p :: r =>
    match split_last_le r maxAge with
    | Some (pre, suf) => Some (p :: pre, suf)
    | None => if p_time p <=? maxAge then Some ([p], r) else None
    end
  end.
Definition extract_points (l : list point) (now maxRet : Z) : list point * list point :=
  let maxAge := ts_add now (i32 (- maxRet)) in
  match split_last_le l maxAge with
  | Some (pre, suf) => (suf, pre)
  | None => (l, [])
  end.

(** [ArchiveInfo.alignPoints] — faithfully: the comparison is between the raw time of
    the current point and the *aligned* time of the last appended one. *)
Fixpoint align_points_from (step : Z) (pts : list point) (acc : list point) (prev : Z) (first : bool)
  : list point :=
  match pts with
  | [] => acc
  | p :: r =>
    let d := mkPoint (interval_w step (p_time p)) (p_val p) in
    if negb first && (p_time p =? prev) then
      (* alignedPoints[len-1].Value = dPoint.Value *)
      let acc' := match rev acc with
                  | last :: init => rev init ++ [mkPoint (p_time last) (p_val d)]
                  | [] => acc
                  end in
      align_points_from step r acc' prev false
    else align_points_from step r (acc ++ [d]) (p_time d) false
  end.
Definition align_points (step : Z) (pts : list point) : list point :=
  align_points_from step pts [] 0 true.

Inductive ures := UErr | UPanic | UOk (arcs : list arc).

(** [archiveUpdateMany] *)
Definition archive_update_many (F : fops) (m xff : Z) (arcs : list arc) (a : Z) (pts : list point)
  : ures :=
  match get_arc arcs a with
  | None => UPanic
  | Some r =>
    let aligned := align_points (a_step r) pts in
    match aligned with
    | [] => UPanic                                   (* alignedPoints[0] on an empty slice *)
    | p0 :: _ =>
      let b := base_interval r in
      let b := if b =? 0 then p_time p0 else b in
      let r' := fold_left (fun r p => put_at r (point_index r b (p_time p)) p) aligned r in
      match propagate_chain F m xff (set_arc arcs a r') a aligned with
      | None => UPanic
      | Some arcs' => UOk arcs'
      end
    end
  end.

(** the loop of [UpdatePointsForArchive] over the archives *)
Fixpoint update_many_loop (F : fops) (m xff : Z) (todo : list arc) (i : Z) (arcs : list arc)
  (pts : list point) (id now : Z) : ures :=
  match todo with
  | [] => UOk arcs
  | r0 :: rest =>
    if negb (id =? ArchiveIDBest) && negb (id =? i)
    then update_many_loop F m xff rest (i + 1) arcs pts id now
    else
      let '(cur, remaining) := extract_points pts now (max_retention r0) in
      match cur with
      | [] => update_many_loop F m xff rest (i + 1) arcs remaining id now
      | _ =>
        match archive_update_many F m xff arcs i cur with
        | UOk arcs' => update_many_loop F m xff rest (i + 1) arcs' remaining id now
        | e => e
        end
      end
  end.

(** [Whisper.UpdatePointsForArchive] with an explicit non-zero [now] *)
Definition update_points_for_archive (F : fops) (m xff : Z) (arcs : list arc) (pts : list point)
  (id now : Z) : ures :=
  update_many_loop F m xff arcs 0 arcs (sort_points pts) id now.

(** [Whisper.UpdatePointForArchive]; [maxret] is the header field *)
Definition update_point_for_archive (F : fops) (m xff maxret : Z) (arcs : list arc)
  (id t v now : Z) : ures :=
  if (t <=? ts_add now (i32 (- maxret))) || (now <? t) then UErr
  else
    let id := if id =? ArchiveIDBest then find_best arcs t now else id in
    match get_arc arcs id with
    | None => UPanic
    | Some r =>
      let my := interval_w (a_step r) t in
      let pt := mkPoint my v in
      let r' := put_at r (get_point_index r my) pt in
      match propagate_chain F m xff (set_arc arcs id r') id [pt] with
      | None => UPanic
      | Some arcs' => UOk arcs'
      end
    end.

(** [Whisper.GetAllRawUnsortedPoints] *)
Definition raw_points (arcs : list arc) (id : Z) : option (list point) :=
  match get_arc arcs id with Some r => Some (a_slots r) | None => None end.

(** a freshly created file *)
Definition create_arcs (layout : list (Z * Z)) : list arc :=
  map (fun sn => mkArc (fst sn) (snd sn) (repeat zero_point (Z.to_nat (snd sn)))) layout.
