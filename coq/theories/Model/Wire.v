(** cmd/server.go, cmd/view.go, cmd/view_raw.go — the wire format between the server handlers
    and the client decoders: the header, then one time series (view, sum) or one point list
    (view-raw) per archive; an empty body means "does not exist". *)
From WT Require Import Base.Wrap Base.ListX Base.Bytes Model.Time Model.Ring Model.Codec.

(** [handleView] / [handleSum]: response body *)
Definition view_response (h : header) (l : list series) : list Z := enc_header h ++ flat_map enc_series l.
(** [handleViewRaw] *)
Definition view_raw_response (h : header) (pl : list (list point)) : list Z := enc_header h ++ flat_map enc_points pl.

Fixpoint dec_series_n (n : nat) (src : list Z) : res (list series) :=
  match n with
  | O => Ok [] src
  | S k => match dec_series src with
           | Ok s rest => match dec_series_n k rest with
                          | Ok l r => Ok (s :: l) r
                          | Want m => Want m
                          | Err => Err
                          end
           | Want m => Want m
           | Err => Err
           end
  end.
Fixpoint dec_points_n (n : nat) (src : list Z) : res (list (list point)) :=
  match n with
  | O => Ok [] src
  | S k => match dec_points_msg src with
           | Ok s rest => match dec_points_n k rest with
                          | Ok l r => Ok (s :: l) r
                          | Want m => Want m
                          | Err => Err
                          end
           | Want m => Want m
           | Err => Err
           end
  end.

Inductive wire_res (A : Type) := WNotExist | WErr | WOk (h : header) (x : A).
Arguments WNotExist {A}. Arguments WErr {A}. Arguments WOk {A}.

(** [getFileDataFromRemote]: an empty body is the not-exist answer; otherwise the header and one
    series per archive of that header *)
Definition client_view (body : list Z) : wire_res (list series) :=
  match body with
  | [] => WNotExist
  | _ => match dec_header body with
         | Ok h rest => match dec_series_n (length (h_arcs h)) rest with
                        | Ok l _ => WOk h l
                        | _ => WErr
                        end
         | _ => WErr
         end
  end.
(** [getRawFileDataFromRemote] *)
Definition client_view_raw (body : list Z) : wire_res (list (list point)) :=
  match body with
  | [] => WNotExist
  | _ => match dec_header body with
         | Ok h rest => match dec_points_n (length (h_arcs h)) rest with
                        | Ok l _ => WOk h l
                        | _ => WErr
                        end
         | _ => WErr
         end
  end.
