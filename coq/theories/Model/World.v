(** The loops of the writing commands over several files (cmd/copy.go [execute] with a glob
    pattern, cmd/sum_copy.go [execute] over the matched items): a world of files, indexed by
    numbers (the harness numbers the path names), one job per matched file / item, each job run
    on the world the previous jobs left, the loop stopped by the first failure.

    A job whose report cannot be written (text output that fails, report longer than the
    writer's buffer: [long]) fails while it prints, i.e. before its final Sync: an existing
    destination keeps its contents, a destination that had to be created keeps the header that
    [openOrCreateCopyDestFile] synced at once. *)
From WT Require Import Base.Wrap Base.ListX Base.Bytes Model.Time Model.Ring Model.Update Model.Codec Model.Handle Model.Cmd.

Definition world := list (Z * option handle).

Fixpoint wget (w : world) (k : Z) : option handle :=
  match w with
  | [] => None
  | (k', v) :: r => if k' =? k then v else wget r k
  end.
Definition wset (w : world) (k : Z) (v : option handle) : world := (k, v) :: w.

(** the number of printed lines of a report: a header record prints one line per archive more *)
Definition record_lines (r : record) : Z :=
  match r with
  | RHeader _ _ _ l => 1 + Z.of_nat (length l)
  | _ => 1
  end.
Definition report_lines (out : list record) : Z := fold_right (fun r n => record_lines r + n) 0 out.
(** reports of this many lines or more do not fit the 4096-byte buffer of the text-out writer
    (the generators keep failing reports clearly shorter or clearly longer) *)
Definition long_report : Z := 110.

Definition job_result (long : bool) (o : copy_opts) (dest : option handle) (r : cmd_result) : cmd_result :=
  if long && (long_report <=? report_lines (r_out r)) then
    mkResult StErr
             (match dest with
              | Some _ => dest
              | None => match create (co_method o) (co_xff o) (co_layout o) with
                        | Some fresh => Some (sync fresh)
                        | None => None
                        end
              end) []
  else r.

Section Jobs.
  Variable job : Type.
  (** what the job does, given the world it reads and its clock *)
  Variable run : world -> job -> Z -> cmd_result.
  Variable dest_of : job -> Z.

  Definition apply_result (w : world) (j : job) (r : cmd_result) : world :=
    match r_dest r with
    | Some h => wset w (dest_of j) (Some h)
    | None => w
    end.

  Fixpoint run_jobs (w : world) (jobs : list job) (nows : list Z) (dflt : Z)
    : world * status * list record :=
    match jobs with
    | [] => (w, StOk, [])
    | j :: rest =>
      let now := match nows with n :: _ => n | [] => dflt end in
      let r := run w j now in
      let w' := apply_result w j r in
      match r_status r with
      | StOk => let '(w'', st, out) := run_jobs w' rest (tl nows) dflt in (w'', st, r_out r ++ out)
      | st => (w', st, [])
      end
    end.
End Jobs.

(** copy with a glob pattern: job = (source, destination) *)
Definition copy_job (F : fops) (long : bool) (o : copy_opts) (w : world) (j : Z * Z) (now : Z) : cmd_result :=
  job_result long o (wget w (snd j)) (copy_one F (wget w (fst j)) (wget w (snd j)) o now).
Definition run_copies (F : fops) (long : bool) (o : copy_opts) (w : world) (jobs : list (Z * Z)) (nows : list Z) (dflt : Z) :=
  run_jobs (Z * Z) (copy_job F long o) snd w jobs nows dflt.

(** sum-copy over items: job = (source files of the item, destination) *)
Definition sum_copy_job (F : fops) (long : bool) (o : copy_opts) (w : world) (j : list Z * Z) (now : Z) : cmd_result :=
  job_result long o (wget w (snd j)) (sum_copy_item F (map (wget w) (fst j)) (wget w (snd j)) o now).
Definition run_sum_copies (F : fops) (long : bool) (o : copy_opts) (w : world) (jobs : list (list Z * Z)) (nows : list Z) (dflt : Z) :=
  run_jobs (list Z * Z) (sum_copy_job F long o) snd w jobs nows dflt.
