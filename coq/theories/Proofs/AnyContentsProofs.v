(** C15 / C16: updates never panic, WHATEVER the slots contain.  The refinement theorems cover
    the file states some history of updates can produce; a file that Open accepted after damage
    has well-formed archive descriptions (validation) but arbitrary slot contents — garbage
    timestamps, a garbage base interval.  Here: for archives of the right shape (positive step and
    count, as many slots as the count, a validated layout), any slot contents, every storable
    method and every clock of the domain, a single update and a batch update end in success or in
    the range error, never in a panic. *)
From Coq Require Import Sorted.
From WT Require Import Base.Wrap Base.ListX Model.Time Model.Ring Model.Update Spec.LogSpec
  Proofs.TimeProofs Proofs.RingProofs Proofs.FetchProofs Proofs.UpdateProofs Proofs.ChainProofs
  Proofs.ArchiveUpdateProofs Proofs.RoutingProofs Proofs.HistoryProofs Proofs.HostileProofs.

Definition shaped (arcs : list arc) : Prop := Forall wf_arc arcs.

(** times the propagation handles: far enough from 0 and from 2^31 for every level *)
Definition ptime (L : lay) (t : Z) : Prop := 0 <= t /\ t + top_step L < TMAX.

Lemma put_at_wf a i p : wf_arc a -> 0 <= i < a_n a -> wf_arc (put_at a i p).
Proof.
  intros (HS & HN & Hl & HR) Hi. unfold put_at, wf_arc. cbn [a_step a_n a_slots]. repeat split; try assumption.
  rewrite zlen_zupd. exact Hl.
Qed.

Lemma get_point_index_range a t : wf_arc a -> 0 <= get_point_index a t < a_n a.
Proof.
  intros (HS & HN & _). unfold get_point_index. destruct (base_interval a =? 0); [lia|].
  unfold point_index. apply floorMod_range. exact HN.
Qed.

Lemma put_wf a t v : wf_arc a -> wf_arc (put a t v).
Proof. intros H. unfold put. apply put_at_wf; [exact H|]. apply get_point_index_range. exact H. Qed.

Lemma shaped_set_arc arcs i a a' : shaped arcs -> get_arc arcs i = Some a -> wf_arc a' -> shaped (set_arc arcs i a').
Proof.
  unfold shaped, get_arc, set_arc, zupd. generalize (Z.to_nat i) as n. intros n. revert n.
  induction arcs as [|x r IH]; intros n Hs Hg Hw; [destruct n; discriminate|].
  inversion Hs; subst. destruct n; cbn [upd nth_error] in *; constructor; auto; try (eapply IH; eauto).
Qed.

Lemma shaped_get arcs i a : shaped arcs -> get_arc arcs i = Some a -> wf_arc a.
Proof. intros Hs Hg. unfold shaped in Hs. rewrite Forall_forall in Hs. apply Hs. eapply nth_error_In. exact Hg. Qed.

(** one coarser interval *)
Lemma propagate_one_total F m xff arcs l acc t :
  1 <= m <= 6 -> shaped arcs -> wf_lay (layout_of arcs) -> 1 <= l < zlen arcs -> ptime (layout_of arcs) t ->
  Forall (ptime (layout_of arcs)) acc ->
  exists arcs' acc', propagate_one F m xff arcs l acc t = Some (arcs', acc') /\
    shaped arcs' /\ layout_of arcs' = layout_of arcs /\ Forall (ptime (layout_of arcs)) acc'.
Proof.
  intros Hm Hs Hwf Hl [Ht0 Ht1] Hacc. set (L := layout_of arcs) in *.
  destruct (get_arc_exists arcs (l - 1) ltac:(unfold zlen in *; lia)) as [high Hhigh].
  destruct (get_arc_exists arcs l ltac:(unfold zlen in *; lia)) as [r Hr].
  pose proof (shaped_get _ _ _ Hs Hhigh) as (HSh & HNh & Hlh & HRh).
  pose proof (shaped_get _ _ _ Hs Hr) as Hwr. pose proof Hwr as (HSr & HNr & Hlr & HRr).
  destruct (get_arc_layout _ _ _ Hhigh) as [Hls1 Hln1]. destruct (get_arc_layout _ _ _ Hr) as [Hls Hln]. fold L in Hls1, Hln1, Hls, Hln.
  pose proof Hwf as (Hlen & Hpos & Hval).
  assert (HlL : 1 <= l < llen L) by (unfold L; rewrite layout_wf_len; exact Hl).
  destruct (Hval l HlL) as [Hdiv Hcnt]. rewrite Hls, Hls1, Hln1 in *.
  destruct (step_top L l Hwf ltac:(lia)) as (_ & Hle & _). rewrite Hls in Hle.
  unfold propagate_one. rewrite Hhigh, Hr.
  assert (Hadd : ts_add t (a_step r) = t + a_step r) by (apply ts_add_nowrap; unfold TMAX in *; lia).
  rewrite Hadd.
  assert (Hsub : ts_sub (t + a_step r) t = a_step r) by (rewrite ts_sub_nowrap by (unfold TMAX in *; lia); lia).
  assert (Hq : Z.quot (a_step r) (a_step high) = a_step r / a_step high) by (apply quot_div_nonneg; lia).
  assert (Hc1 : 1 <= a_step r / a_step high).
  { apply Z.mod_divide in Hdiv; [|lia]. destruct Hdiv as [q Hq']. rewrite Hq', Z.div_mul by lia. nia. }
  destruct (fetch_raw_total high t (t + a_step r) Hlh HNh ltac:(rewrite Hsub, Hq; lia)) as (ps & Hps & _).
  rewrite Hps.
  destruct (filter_valid ps (interval_w (a_step high) t) (a_step high)) as [|v0 vr] eqn:Ev.
  - exists arcs, acc. auto.
  - destruct (f_frac_lt F (zlen (v0 :: vr)) (zlen ps) xff); [exists arcs, acc; auto|].
    pose proof (aggregate_total F m (v0 :: vr) Hm ltac:(discriminate)) as Hagg.
    destruct (aggregate F m (v0 :: vr)) as [v|]; [|contradiction].
    assert (Hs' : shaped (set_arc arcs l (put r t v))) by (eapply shaped_set_arc; [exact Hs|exact Hr|apply put_wf; exact Hwr]).
    assert (Hlay' : layout_of (set_arc arcs l (put r t v)) = L) by (eapply layout_set_arc; [exact Hr|reflexivity|reflexivity]).
    destruct (get_arc arcs (l + 1)) as [low|] eqn:Hlow.
    + eexists _, _. split; [reflexivity|]. split; [exact Hs'|]. split; [exact Hlay'|].
      apply push_dedup_Forall; [exact Hacc|].
      pose proof (shaped_get _ _ _ Hs Hlow) as (HSl & _).
      rewrite interval_w_spec by (unfold TMAX in *; lia).
      pose proof (mod_facts t (a_step low) HSl Ht0) as [Hm1 Hm2]. split; lia.
    + eexists _, _. split; [reflexivity|]. auto.
Qed.

Lemma propagate_total F m xff l : 1 <= m <= 6 -> forall ts arcs acc,
  shaped arcs -> wf_lay (layout_of arcs) -> 1 <= l < zlen arcs ->
  Forall (ptime (layout_of arcs)) ts -> Forall (ptime (layout_of arcs)) acc ->
  exists arcs' acc', propagate F m xff arcs l acc ts = Some (arcs', acc') /\
    shaped arcs' /\ layout_of arcs' = layout_of arcs /\ Forall (ptime (layout_of arcs)) acc'.
Proof.
  intros Hm. induction ts as [|t rest IH]; intros arcs acc Hs Hwf Hl Hts Hacc; cbn [propagate].
  - exists arcs, acc. auto.
  - inversion Hts as [|? ? Ht Hrest]; subst.
    destruct (propagate_one_total F m xff arcs l acc t Hm Hs Hwf Hl Ht Hacc) as (arcs1 & acc1 & H1 & Hs1 & Hlay1 & Hacc1).
    rewrite H1.
    destruct (IH arcs1 acc1 Hs1 ltac:(rewrite Hlay1; exact Hwf) ltac:(rewrite <- layout_wf_len, Hlay1, layout_wf_len; exact Hl)
                ltac:(rewrite Hlay1; exact Hrest) ltac:(rewrite Hlay1; exact Hacc1)) as (arcs2 & acc2 & H2 & Hs2 & Hlay2 & Hacc2).
    exists arcs2, acc2. rewrite Hlay1 in *. auto.
Qed.

Lemma chain_total F m xff : 1 <= m <= 6 -> forall fuel arcs l ts,
  shaped arcs -> wf_lay (layout_of arcs) -> 1 <= l -> Forall (ptime (layout_of arcs)) ts ->
  exists arcs', chain F m xff fuel arcs l ts = Some arcs' /\ shaped arcs' /\ layout_of arcs' = layout_of arcs.
Proof.
  intros Hm. induction fuel as [|fuel IH]; intros arcs l ts Hs Hwf Hl Hts; cbn [chain]; [exists arcs; auto|].
  destruct (Z.ltb_spec l (zlen arcs)) as [Hlt|]; cbn [andb]; [|exists arcs; auto].
  destruct ts as [|t0 tr]; cbn [negb]; [exists arcs; auto|].
  destruct (propagate_total F m xff l Hm (t0 :: tr) arcs [] Hs Hwf ltac:(lia) Hts ltac:(constructor)) as (arcs1 & ts1 & H1 & Hs1 & Hlay1 & Hts1).
  rewrite H1.
  destruct (IH arcs1 (l + 1) ts1 Hs1 ltac:(rewrite Hlay1; exact Hwf) ltac:(lia) ltac:(rewrite Hlay1; exact Hts1)) as (arcs2 & H2 & Hs2 & Hlay2).
  exists arcs2. rewrite Hlay1 in *. auto.
Qed.

Lemma times_to_propagate_ptime L S pts : 0 < S ->
  Forall (fun p => ptime L (p_time p) /\ p_time p < 2^32) pts -> Forall (ptime L) (times_to_propagate S pts).
Proof.
  intros HS H. unfold times_to_propagate.
  assert (Hgen : forall acc, Forall (ptime L) acc -> Forall (ptime L) (fold_left (fun ts p => push_dedup ts (interval_w S (p_time p))) pts acc)).
  { induction H as [|p r [[Hp0 Hp1] Hp2] Hr IH]; intros acc Hacc; cbn [fold_left]; [exact Hacc|].
    apply IH. apply push_dedup_Forall; [exact Hacc|].
    rewrite interval_w_spec by lia. pose proof (mod_facts (p_time p) S HS Hp0) as [Hm1 Hm2]. split; lia. }
  apply Hgen. constructor.
Qed.

Lemma propagate_chain_total F m xff arcs a aligned :
  1 <= m <= 6 -> shaped arcs -> wf_lay (layout_of arcs) -> 0 <= a ->
  Forall (fun p => ptime (layout_of arcs) (p_time p) /\ p_time p < 2^32) aligned ->
  exists arcs', propagate_chain F m xff arcs a aligned = Some arcs' /\ shaped arcs' /\ layout_of arcs' = layout_of arcs.
Proof.
  intros Hm Hs Hwf Ha Hal. unfold propagate_chain. destruct (get_arc arcs (a + 1)) as [low|] eqn:Hlow; [|exists arcs; auto].
  pose proof (shaped_get _ _ _ Hs Hlow) as (HSl & _).
  apply chain_total; try assumption; [lia|]. apply times_to_propagate_ptime; assumption.
Qed.

(** * single update *)
Theorem update_point_no_panic F m xff maxret arcs id t v now :
  1 <= m <= 6 -> arcs <> [] -> shaped arcs -> wf_lay (layout_of arcs) ->
  id = -1 \/ 0 <= id < zlen arcs -> 0 <= t < 2^32 ->
  0 < maxret <= now -> now + top_step (layout_of arcs) < TMAX ->
  update_point_for_archive F m xff maxret arcs id t v now <> UPanic.
Proof.
  intros Hm Hne Hs Hwf Hid Ht Hmr Hnow. unfold update_point_for_archive.
  pose proof (step_top (layout_of arcs) 0 Hwf ltac:(destruct Hwf; lia)) as (_ & _ & Hs0).
  assert (Htop : 0 < top_step (layout_of arcs)).
  { destruct Hwf as (Hl & Hpos & _). unfold top_step. apply (Hpos (llen (layout_of arcs) - 1)). lia. }
  assert (Hold : ts_add now (i32 (- maxret)) = now - maxret).
  { unfold TMAX in *. rewrite i32_small by lia. rewrite ts_add_nowrap by (unfold TMAX; lia). lia. }
  rewrite Hold. destruct ((t <=? now - maxret) || (now <? t)) eqn:Erej; [discriminate|].
  assert (Htr : now - maxret < t <= now) by lia.
  set (id' := if id =? ArchiveIDBest then find_best arcs t now else id).
  assert (Hid' : 0 <= id' < zlen arcs).
  { unfold id', ArchiveIDBest. destruct (Z.eqb_spec id (-1)) as [_|Hn]; [|lia].
    unfold find_best. rewrite find_best_from_spec by exact Hs.
    pose proof (best_from_range (map period arcs) 0 (ts_sub now t) ltac:(destruct arcs; [contradiction|discriminate])) as Hr.
    rewrite zlen_map in Hr. lia. }
  destruct (get_arc_exists arcs id' ltac:(unfold zlen in *; lia)) as [r Hr]. rewrite Hr.
  pose proof (shaped_get _ _ _ Hs Hr) as Hwr. pose proof Hwr as (HSr & _).
  set (pt := mkPoint (interval_w (a_step r) t) v).
  set (r' := put_at r (get_point_index r (interval_w (a_step r) t)) pt).
  assert (Hwr' : wf_arc r') by (apply put_at_wf; [exact Hwr|apply get_point_index_range; exact Hwr]).
  assert (Hs' : shaped (set_arc arcs id' r')) by (eapply shaped_set_arc; eauto).
  assert (Hlay' : layout_of (set_arc arcs id' r') = layout_of arcs) by (eapply layout_set_arc; [exact Hr|reflexivity|reflexivity]).
  destruct (propagate_chain_total F m xff (set_arc arcs id' r') id' [pt] Hm Hs' ltac:(rewrite Hlay'; exact Hwf) ltac:(lia)) as (arcs' & Hpc & _).
  - constructor; [|constructor]. rewrite Hlay'. unfold pt. cbn [p_time].
    rewrite interval_w_spec by lia. pose proof (mod_facts t (a_step r) HSr ltac:(lia)) as [Hm1 Hm2].
    unfold ptime, TMAX in *. split; [split|]; lia.
  - fold pt r'. rewrite Hpc. discriminate.
Qed.
Print Assumptions update_point_no_panic.

(** * batch update *)
Lemma fold_put_wf : forall (ps : list point) (r : arc) (b : Z), wf_arc r ->
  wf_arc (fold_left (fun r p => put_at r (point_index r b (p_time p)) p) ps r) /\
  a_step (fold_left (fun r p => put_at r (point_index r b (p_time p)) p) ps r) = a_step r /\
  a_n (fold_left (fun r p => put_at r (point_index r b (p_time p)) p) ps r) = a_n r.
Proof.
  induction ps as [|p rest IH]; intros r b Hw; cbn [fold_left]; [auto|].
  assert (Hw' : wf_arc (put_at r (point_index r b (p_time p)) p)).
  { apply put_at_wf; [exact Hw|]. destruct Hw as (_ & HN & _). unfold point_index. apply floorMod_range. exact HN. }
  destruct (IH (put_at r (point_index r b (p_time p)) p) b Hw') as (H1 & H2 & H3). auto.
Qed.

Definition braw (L : lay) (t : Z) : Prop := 0 <= t /\ t + top_step L < TMAX.

Lemma archive_update_many_total F m xff arcs a pts :
  1 <= m <= 6 -> shaped arcs -> wf_lay (layout_of arcs) -> 0 <= a < zlen arcs -> pts <> [] ->
  Forall (fun p => braw (layout_of arcs) (p_time p)) pts ->
  exists arcs', archive_update_many F m xff arcs a pts = UOk arcs' /\ shaped arcs' /\ layout_of arcs' = layout_of arcs.
Proof.
  intros Hm Hs Hwf Ha Hne Hpts. unfold archive_update_many.
  destruct (get_arc_exists arcs a ltac:(unfold zlen in *; lia)) as [r Hr]. rewrite Hr.
  pose proof (shaped_get _ _ _ Hs Hr) as Hwr. pose proof Hwr as (HSr & _).
  assert (Hal : Forall (fun p => ptime (layout_of arcs) (p_time p) /\ p_time p < 2^32) (align_points (a_step r) pts) /\ align_points (a_step r) pts <> []).
  { destruct (align_points_props (fun t => ptime (layout_of arcs) t /\ t < 2^32) (a_step r) pts) as [H1 H2].
    - eapply Forall_impl; [|exact Hpts]. intros p [Hp0 Hp1]. cbn beta.
      assert (Htop : 0 < top_step (layout_of arcs)).
      { destruct Hwf as (Hl & Hpos & _). unfold top_step. apply (Hpos (llen (layout_of arcs) - 1)). lia. }
      rewrite interval_w_spec by (unfold TMAX in *; lia).
      pose proof (mod_facts (p_time p) (a_step r) HSr Hp0) as [Hm1 Hm2]. unfold ptime, TMAX in *. lia.
    - split; [exact H1|apply H2; exact Hne]. }
  destruct Hal as [Hal Hane]. destruct (align_points (a_step r) pts) as [|p0 prest] eqn:Eal; [contradiction|].
  set (b := if base_interval r =? 0 then p_time p0 else base_interval r).
  destruct (fold_put_wf (p0 :: prest) r b Hwr) as (Hw' & Hst' & Hn').
  set (r' := fold_left (fun r p => put_at r (point_index r b (p_time p)) p) (p0 :: prest) r) in *.
  assert (Hs' : shaped (set_arc arcs a r')) by (eapply shaped_set_arc; eauto).
  assert (Hlay' : layout_of (set_arc arcs a r') = layout_of arcs) by (eapply layout_set_arc; [exact Hr|exact Hst'|exact Hn']).
  destruct (propagate_chain_total F m xff (set_arc arcs a r') a (p0 :: prest) Hm Hs' ltac:(rewrite Hlay'; exact Hwf) ltac:(lia)
              ltac:(rewrite Hlay'; exact Hal)) as (arcs' & Hpc & Hs'' & Hlay'').
  rewrite Hpc. exists arcs'. rewrite Hlay'' , Hlay'. auto.
Qed.

Lemma update_many_loop_total F m xff id now : 1 <= m <= 6 -> forall todo i arcs pts,
  shaped arcs -> wf_lay (layout_of arcs) -> 0 <= i -> i + zlen todo = zlen arcs ->
  Forall (fun p => braw (layout_of arcs) (p_time p)) pts ->
  exists arcs', update_many_loop F m xff todo i arcs pts id now = UOk arcs'.
Proof.
  intros Hm. induction todo as [|r0 rest IH]; intros i arcs pts Hs Hwf Hi Hlen Hpts; cbn [update_many_loop]; [eauto|].
  rewrite zlen_cons in Hlen. pose proof (zlen_nonneg rest).
  destruct (negb (id =? ArchiveIDBest) && negb (id =? i)); [apply IH; auto; lia|].
  destruct (extract_points pts now (max_retention r0)) as [cur remaining] eqn:Ee.
  assert (Hsub : Forall (fun p => braw (layout_of arcs) (p_time p)) cur /\ Forall (fun p => braw (layout_of arcs) (p_time p)) remaining).
  { unfold extract_points in Ee. destruct (split_last_le pts (ts_add now (i32 (- max_retention r0)))) as [[pre suf]|] eqn:Es.
    - injection Ee as <- <-.
      assert (Hps : pts = pre ++ suf).
      { clear - Es. revert pre suf Es. induction pts as [|p r IH]; intros pre suf Es; cbn [split_last_le] in Es; [discriminate|].
        destruct (split_last_le r (ts_add now (i32 (- max_retention r0)))) as [[pre' suf']|].
        - injection Es as <- <-. cbn [app]. f_equal. apply IH. reflexivity.
        - destruct (p_time p <=? ts_add now (i32 (- max_retention r0))); [|discriminate]. injection Es as <- <-. reflexivity. }
      rewrite Hps in Hpts. apply Forall_app in Hpts. tauto.
    - injection Ee as <- <-. split; [exact Hpts|constructor]. }
  destruct Hsub as [Hcur Hrem].
  destruct cur as [|c0 cr]; [apply IH; auto; lia|].
  destruct (archive_update_many_total F m xff arcs i (c0 :: cr) Hm Hs Hwf ltac:(lia) ltac:(discriminate) Hcur) as (arcs1 & H1 & Hs1 & Hlay1).
  rewrite H1. apply IH; try assumption; try lia.
  - rewrite Hlay1. exact Hwf.
  - rewrite <- (layout_wf_len arcs1), Hlay1, layout_wf_len. lia.
  - rewrite Hlay1. exact Hrem.
Qed.

Theorem update_points_no_panic F m xff arcs pts id now :
  1 <= m <= 6 -> shaped arcs -> wf_lay (layout_of arcs) ->
  Forall (fun p => braw (layout_of arcs) (p_time p)) pts ->
  exists arcs', update_points_for_archive F m xff arcs pts id now = UOk arcs'.
Proof.
  intros Hm Hs Hwf Hpts. unfold update_points_for_archive.
  apply update_many_loop_total; try assumption; try lia.
  apply sort_points_Forall. exact Hpts.
Qed.
Print Assumptions update_points_no_panic.

(** * what Open accepts has exactly this shape *)
From WT Require Import Base.Bytes Model.Codec Model.Handle Model.FileImage Spec.WfLayout
  Proofs.CodecProofs Proofs.LayoutProofs Proofs.LayoutBridge.

Lemma validate_from_fill : forall l off off64, validate_from off off64 l = true -> fill_offset_from off l = l.
Proof.
  induction l as [|a r IH]; intros off off64 H; [reflexivity|].
  cbn [validate_from] in H. rewrite !andb_true_iff in H. destruct H as [[[[[Hs Hn] Hr] H64] Hoff] Hrest].
  rewrite Z.eqb_eq in Hoff. cbn [fill_offset_from]. f_equal.
  - destruct a; cbn in *; congruence.
  - destruct r as [|nx r']; [reflexivity|]. rewrite !andb_true_iff in Hrest. destruct Hrest as [_ Hrec].
    apply (IH _ _ Hrec).
Qed.

Theorem validate_wf_layout l : validate l = true -> wf_layout (pairs l).
Proof.
  intros Hv. assert (Hl : l <> []) by (intros ->; discriminate).
  assert (Hfill : fill_offset l = l).
  { unfold fill_offset. unfold validate in Hv. destruct l as [|a r]; [contradiction|]. apply (validate_from_fill _ _ _ Hv). }
  apply validate_fill_offset_iff.
  - unfold validate in Hv. destruct l as [|a r]; [contradiction|].
    eapply Forall_impl; [|exact (validate_from_fields _ _ _ Hv)]. intros x (H1 & H2 & H3). unfold fields_ok, MaxInt32 in *. nia.
  - rewrite Hfill. exact Hv.
Qed.

Lemma decode_arcs_layout : forall infos file, layout_of (decode_arcs infos file) = pairs infos.
Proof. induction infos as [|a r IH]; intros file; cbn [decode_arcs layout_of map pairs]; [reflexivity|]. f_equal. apply IH. Qed.

Theorem open_image_shape file h arcs : open_image file = Some (h, arcs) ->
  arcs <> [] /\ shaped arcs /\ wf_layout (layout_of arcs) /\ wf_lay (layout_of arcs) /\ 1 <= h_method h <= 6.
Proof.
  intros Ho. destruct (open_image_wf file h arcs Ho) as (Hwf & _ & Hv).
  unfold open_image in Ho. destruct (read_header file) as [h0|] eqn:E; [|discriminate].
  destruct (zlen file <? expected_file_size h0); [discriminate|]. injection Ho as <- <-.
  destruct (read_header_validated _ _ E) as (_ & Hrest).
  pose proof (validate_wf_layout _ Hv) as Hwl. rewrite <- (decode_arcs_layout (h_arcs h0) file) in Hwl.
  destruct (wf_layout_full_of_wf_layout _ Hwl) as [(Hlay & _) _].
  split.
  - intros Hc. destruct Hwl as [Hne _]. apply Hne. rewrite Hc. reflexivity.
  - split; [exact Hwf|]. split; [exact Hwl|]. split; [exact Hlay|].
    revert Hrest. clear. intros Hrest. 
    assert (Hm : valid_method (h_method h0) = true) by tauto.
    unfold valid_method in Hm. lia.
Qed.
