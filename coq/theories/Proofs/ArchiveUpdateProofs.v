From WT Require Import Base.Wrap Base.ListX Model.Time Model.Ring Model.Update Spec.LogSpec
  Proofs.TimeProofs Proofs.RingProofs Proofs.FetchProofs Proofs.UpdateProofs Proofs.ChainProofs.

(** * A batch of aligned writes with the base interval read once *)

Lemma put_at_base a log t v i :
  Rel a log -> good_time a t ->
  (log = [] -> i = 0) -> (log <> [] -> i = cls a (base_interval a) t) ->
  (log = [] -> base_interval (put_at a i (mkPoint t v)) = t) /\
  (log <> [] -> (base_interval (put_at a i (mkPoint t v)) - base_interval a) mod period a = 0).
Proof.
  intros (Hwf & Hall & Hnil & Hne & Hsl) [Ht1 Ht2] Hi0 Hi1.
  destruct Hwf as (HS & HN & Hlen & HR). split; intro H.
  - rewrite (Hi0 H). unfold base_interval. rewrite slot_put_at by lia. reflexivity.
  - specialize (Hi1 H). destruct (Hne H) as [Hb1 Hb2].
    pose proof (cls_range a (base_interval a) t HN) as Hcr. subst i.
    unfold base_interval at 1. rewrite slot_put_at by lia.
    destruct (Z.eqb_spec 0 (cls a (base_interval a) t)) as [E|E]; cbn [p_time].
    + assert (H0 : cls a (base_interval a) t = cls a (base_interval a) (base_interval a)).
      { rewrite <- E. symmetry. apply cls_self; assumption. }
      apply cls_eq_iff in H0; try assumption; apply sub_aligned; assumption.
    + fold (base_interval a). rewrite Z.sub_diag. apply Z.mod_0_l. unfold period. nia.
Qed.

Definition put_fixed (b : Z) (r : arc) (p : point) : arc := put_at r (point_index r b (p_time p)) p.

Lemma point_index_self a b : 0 < a_step a -> 0 < a_n a -> 0 <= b < TMAX -> point_index a b b = 0.
Proof.
  intros HS HN Hb. unfold point_index. rewrite ts_sub_nowrap by assumption. rewrite Z.sub_diag.
  rewrite Z.quot_0_l by lia. rewrite floorMod_mod by lia. apply Z.mod_0_l. lia.
Qed.

Lemma put_fixed_many : forall (ps : list point) (r : arc) (log : list point) (b : Z),
  Rel r log -> Forall (fun p => good_time r (p_time p)) ps ->
  (log = [] -> match ps with [] => True | p0 :: _ => b = p_time p0 end) ->
  (log <> [] -> 0 < b < TMAX /\ b mod a_step r = 0 /\ (base_interval r - b) mod period r = 0) ->
  Rel (fold_left (put_fixed b) ps r) (rev ps ++ log) /\
  a_step (fold_left (put_fixed b) ps r) = a_step r /\ a_n (fold_left (put_fixed b) ps r) = a_n r.
Proof.
  induction ps as [|p rest IH]; intros r log b HRel Hall Hb0 Hb1; cbn [fold_left rev app].
  - auto.
  - inversion Hall as [|? ? Hgp Hrest]; subst.
    pose proof (Rel_wf _ _ HRel) as (HS & HN & Hlen & HR).
    destruct p as [t v]. cbn [p_time] in *.
    assert (Hidx : (log = [] -> point_index r b t = 0) /\
                   (log <> [] -> point_index r b t = cls r (base_interval r) t)).
    { split; intro H.
      - rewrite (Hb0 H). destruct Hgp. apply point_index_self; [assumption|assumption|lia].
      - destruct (Hb1 H) as (Hbr & Hba & Hbc). destruct Hgp as [Hg1 Hg2].
        rewrite point_index_spec; try assumption; try lia.
        + symmetry. apply cls_base_congr; assumption.
        + apply sub_aligned; assumption. }
    destruct Hidx as [Hi0 Hi1].
    pose proof (put_at_Rel r log t v (point_index r b t) HRel Hgp Hi0 Hi1) as HRel'.
    destruct (put_at_base r log t v (point_index r b t) HRel Hgp Hi0 Hi1) as [Hbase0 Hbase1].
    set (r' := put_at r (point_index r b t) (mkPoint t v)) in *.
    assert (Er' : put_fixed b r (mkPoint t v) = r') by reflexivity. rewrite Er'.
    specialize (IH r' (mkPoint t v :: log) b HRel').
    rewrite <- app_assoc. cbn [app].
    assert (Hs' : a_step r' = a_step r) by reflexivity. assert (Hn' : a_n r' = a_n r) by reflexivity.
    destruct IH as (H1 & H2 & H3).
    + exact Hrest.
    + discriminate.
    + intros _. destruct log as [|q lg].
      * rewrite (Hb0 eq_refl). rewrite (Hbase0 eq_refl). destruct Hgp as [Hg1 Hg2].
        repeat split; try assumption; try lia. rewrite Z.sub_diag. apply Z.mod_0_l. unfold period. rewrite Hs', Hn'. nia.
      * destruct (Hb1 ltac:(discriminate)) as (Hbr & Hba & Hbc).
        repeat split; try assumption; try lia.
        specialize (Hbase1 ltac:(discriminate)).
        replace (base_interval r' - b) with ((base_interval r' - base_interval r) + (base_interval r - b)) by ring.
        unfold period in *. rewrite Hs', Hn'. rewrite Z.add_mod, Hbase1, Hbc by nia. apply Z.mod_0_l. nia.
    + split; [exact H1|]. rewrite H2, H3. auto.
Qed.
Print Assumptions put_fixed_many.

(** * propagateChain *)

Definition good_raw (L : lay) (t : Z) : Prop := top_step L <= t /\ t + top_step L < TMAX.

Lemma good_raw_aligned L a t : wf_lay L -> 0 <= a < llen L -> good_raw L t ->
  good_lvl L a (interval_w (lay_step L a) t) /\ interval_w (lay_step L a) t = t - t mod lay_step L a.
Proof.
  intros Hwf Ha [H1 H2]. destruct (step_top L a Hwf Ha) as (Hd & Hle & Hpos).
  assert (Hiw : interval_w (lay_step L a) t = t - t mod lay_step L a).
  { apply interval_w_spec; unfold TMAX in *; lia. }
  split; [|exact Hiw]. rewrite Hiw. pose proof (mod_facts t (lay_step L a) Hpos ltac:(lia)) as [Hm1 Hm2].
  repeat split; [apply floor_ge_multiple; assumption | lia | apply sub_mod_aligned; assumption].
Qed.

Lemma times_to_propagate_good L a aligned : wf_lay L -> 0 <= a -> a + 1 < llen L ->
  Forall (fun p => good_lvl L a (p_time p)) aligned ->
  Forall (good_lvl L (a + 1)) (times_to_propagate (lay_step L (a + 1)) aligned).
Proof.
  intros Hwf Ha Ha1 Hall. unfold times_to_propagate.
  assert (G : forall ps acc, Forall (good_lvl L (a + 1)) acc ->
            Forall (fun p => good_lvl L a (p_time p)) ps ->
            Forall (good_lvl L (a + 1))
              (fold_left (fun ts p => push_dedup ts (interval_w (lay_step L (a + 1)) (p_time p))) ps acc)).
  { induction ps as [|p r IH]; intros acc Hacc Hps; cbn [fold_left]; [assumption|].
    inversion Hps as [|? ? Hp Hr]; subst. apply IH; [|assumption].
    apply push_dedup_Forall; [assumption|].
    destruct (step_top L (a + 1) Hwf ltac:(lia)) as (_ & _ & Hpos).
    destruct Hp as (Hp1 & Hp2 & Hp3).
    rewrite interval_w_spec by (unfold TMAX in *; destruct (step_top L a Hwf ltac:(lia)); lia).
    apply good_lvl_coarsen; [assumption|lia|lia|]. repeat split; assumption. }
  apply G; [constructor|assumption].
Qed.

Theorem propagate_chain_refines F m xff arcs logs a aligned :
  Rel_all arcs logs -> wf_lay (layout_of arcs) -> 0 <= a < zlen arcs ->
  Forall (fun p => good_lvl (layout_of arcs) a (p_time p)) aligned ->
  match spec_propagate_chain F m xff (layout_of arcs) logs a aligned with
  | None => propagate_chain F m xff arcs a aligned = None
  | Some logs' => exists arcs', propagate_chain F m xff arcs a aligned = Some arcs' /\
                                Rel_all arcs' logs' /\ layout_of arcs' = layout_of arcs
  end.
Proof.
  intros HRA Hwf Ha Hall. unfold spec_propagate_chain, propagate_chain.
  rewrite layout_length. change (Z.of_nat (length arcs)) with (zlen arcs).
  destruct (Z.ltb_spec (a + 1) (zlen arcs)) as [Hlt|Hge].
  - destruct (get_arc_exists arcs (a + 1) ltac:(unfold zlen in *; lia)) as [low Hlow]. rewrite Hlow.
    destruct (get_arc_layout _ _ _ Hlow) as [Hs _]. rewrite <- Hs.
    apply chain_refines; [assumption|assumption|lia|].
    apply times_to_propagate_good; [assumption|lia|rewrite layout_wf_len; lia|assumption].
  - assert (Hnone : get_arc arcs (a + 1) = None).
    { unfold get_arc. apply nth_error_None. unfold zlen in *. lia. }
    rewrite Hnone. exists arcs. auto.
Qed.

(** * UpdatePointForArchive (accepted update of archive [a]) *)

Lemma Rel_all_set arcs logs a r logr p :
  Rel_all arcs logs -> nth_error logs (Z.to_nat a) = Some logr -> Rel r (p :: logr) ->
  Rel_all (set_arc arcs a r) (add_log logs a p).
Proof.
  intros HRA Hlog HRel. unfold set_arc, add_log. apply Forall2_zupd; [assumption|].
  rewrite (get_log_nth _ _ _ Hlog). assumption.
Qed.

Lemma good_lvl_good_time arcs a r t : wf_lay (layout_of arcs) -> 0 <= a < zlen arcs ->
  get_arc arcs a = Some r -> good_lvl (layout_of arcs) a t -> good_time r t.
Proof.
  intros Hwf Ha Hr (H1 & H2 & H3). destruct (get_arc_layout _ _ _ Hr) as [Hs _].
  destruct (step_top (layout_of arcs) a Hwf ltac:(rewrite layout_wf_len; lia)) as (_ & Hle & Hpos).
  split; [unfold TMAX in *; lia|]. rewrite <- Hs. assumption.
Qed.

Theorem update_point_refines F m xff arcs logs a r t v :
  Rel_all arcs logs -> wf_lay (layout_of arcs) -> 0 <= a < zlen arcs -> get_arc arcs a = Some r ->
  good_raw (layout_of arcs) t ->
  let my := interval_w (a_step r) t in
  let arcs1 := set_arc arcs a (put_at r (get_point_index r my) (mkPoint my v)) in
  match spec_update_point F m xff (layout_of arcs) logs a t v with
  | None => propagate_chain F m xff arcs1 a [mkPoint my v] = None
  | Some logs' => exists arcs', propagate_chain F m xff arcs1 a [mkPoint my v] = Some arcs' /\
                                Rel_all arcs' logs' /\ layout_of arcs' = layout_of arcs
  end.
Proof.
  intros HRA Hwf Ha Hr Hraw. cbv zeta.
  destruct (get_arc_layout _ _ _ Hr) as [Hs Hn].
  destruct (good_raw_aligned (layout_of arcs) a t Hwf ltac:(rewrite layout_wf_len; lia) Hraw) as [Hgl Hiw].
  rewrite Hs in Hgl, Hiw.
  destruct (Forall2_nth_error _ _ _ _ _ HRA Hr) as (logr & Hlogr & HRr).
  set (my := interval_w (a_step r) t) in *.
  assert (Hgt : good_time r my) by (eapply good_lvl_good_time; eassumption).
  assert (HRel1 : Rel_all (set_arc arcs a (put r my v)) (add_log logs a (mkPoint my v))).
  { eapply Rel_all_set; [eassumption|eassumption|]. apply put_Rel; assumption. }
  assert (Hlay1 : layout_of (set_arc arcs a (put r my v)) = layout_of arcs).
  { eapply layout_set_arc; [eassumption|reflexivity|reflexivity]. }
  unfold spec_update_point. rewrite Hs, <- Hiw. fold my.
  change (put_at r (get_point_index r my) (mkPoint my v)) with (put r my v).
  pose proof (propagate_chain_refines F m xff (set_arc arcs a (put r my v)) (add_log logs a (mkPoint my v)) a [mkPoint my v] HRel1) as H.
  rewrite Hlay1 in H.
  assert (Hlen1 : zlen (set_arc arcs a (put r my v)) = zlen arcs) by (unfold set_arc; apply zlen_zupd).
  rewrite Hlen1 in H. specialize (H Hwf Ha ltac:(constructor; [exact Hgl|constructor])).
  exact H.
Qed.
Print Assumptions update_point_refines.

(** * archiveUpdateMany *)

Lemma upd_upd {A} (l : list A) i x y : upd (upd l i x) i y = upd l i y.
Proof. revert i; induction l as [|h t IH]; intros [|j]; cbn; try reflexivity. rewrite IH. reflexivity. Qed.
Lemma nth_upd_same {A} (d : A) l i x : (i < length l)%nat -> nth i (upd l i x) d = x.
Proof. intros. rewrite nth_upd by assumption. rewrite Nat.eqb_refl. reflexivity. Qed.

Lemma add_logs_eq : forall (ps : list point) (logs : list (list point)) a,
  0 <= a < zlen logs ->
  add_logs logs a ps = match ps with [] => logs | _ => zupd logs a (rev ps ++ get_log logs a) end.
Proof.
  induction ps as [|p r IH]; intros logs a Ha; [reflexivity|].
  unfold add_logs. cbn [fold_left]. fold (add_logs (add_log logs a p) a r).
  assert (Hlen : zlen (add_log logs a p) = zlen logs) by (unfold add_log; apply zlen_zupd).
  rewrite IH by (rewrite Hlen; assumption).
  assert (Hget : get_log (add_log logs a p) a = p :: get_log logs a).
  { unfold get_log, add_log, zupd. apply nth_upd_same. unfold zlen in *. lia. }
  destruct r as [|q r'].
  - reflexivity.
  - rewrite Hget. unfold add_log, zupd. rewrite upd_upd. cbn [rev]. rewrite <- !app_assoc. reflexivity.
Qed.

Lemma align_points_from_props (P : Z -> Prop) step : forall pts acc prev first,
  Forall (fun p => P (p_time p)) acc ->
  Forall (fun p => P (interval_w step (p_time p))) pts ->
  Forall (fun p => P (p_time p)) (align_points_from step pts acc prev first) /\
  (acc <> [] -> align_points_from step pts acc prev first <> []) /\
  (pts <> [] -> first = true -> align_points_from step pts acc prev first <> []).
Proof.
  induction pts as [|p r IH]; intros acc prev first Hacc Hpts; cbn [align_points_from].
  - split; [assumption|]. split; [auto|]. intros H; contradiction.
  - inversion Hpts as [|? ? Hp Hr]; subst.
    destruct (negb first && (p_time p =? prev)) eqn:E.
    + assert (Hacc' : Forall (fun q => P (p_time q))
                 match rev acc with
                 | last :: init => rev init ++ [mkPoint (p_time last) (p_val (mkPoint (interval_w step (p_time p)) (p_val p)))]
                 | [] => acc end).
      { destruct (rev acc) as [|last init] eqn:Er; [assumption|].
        assert (Hra : Forall (fun q => P (p_time q)) (rev acc)) by (apply Forall_rev; assumption).
        rewrite Er in Hra. inversion Hra; subst. apply Forall_app. split; [apply Forall_rev; assumption|].
        constructor; [assumption|constructor]. }
      destruct (IH _ prev false Hacc' Hr) as (H1 & H2 & H3).
      split; [exact H1|]. split.
      * intros Hne. apply H2. destruct (rev acc) as [|last init] eqn:Er; [assumption|].
        intro Hc. apply app_eq_nil in Hc. destruct Hc; discriminate.
      * intros _ Hf. subst first. discriminate.
    + assert (Hacc' : Forall (fun q => P (p_time q)) (acc ++ [mkPoint (interval_w step (p_time p)) (p_val p)])).
      { apply Forall_app. split; [assumption|]. constructor; [exact Hp|constructor]. }
      destruct (IH _ (p_time (mkPoint (interval_w step (p_time p)) (p_val p))) false Hacc' Hr) as (H1 & H2 & H3).
      assert (Hne' : acc ++ [mkPoint (interval_w step (p_time p)) (p_val p)] <> []).
      { intro Hc. apply app_eq_nil in Hc. destruct Hc; discriminate. }
      split; [exact H1|]. split.
      * intros _. apply H2. exact Hne'.
      * intros _ _. apply H2. exact Hne'.
Qed.

Lemma align_points_props (P : Z -> Prop) step pts :
  Forall (fun p => P (interval_w step (p_time p))) pts ->
  Forall (fun p => P (p_time p)) (align_points step pts) /\ (pts <> [] -> align_points step pts <> []).
Proof.
  intros H. destruct (align_points_from_props P step pts [] 0 true ltac:(constructor) H) as (H1 & _ & H3).
  split; [exact H1|]. intros Hne. apply H3; [assumption|reflexivity].
Qed.

Theorem archive_update_many_refines F m xff arcs logs a r pts :
  Rel_all arcs logs -> wf_lay (layout_of arcs) -> 0 <= a < zlen arcs -> get_arc arcs a = Some r ->
  pts <> [] -> Forall (fun p => good_raw (layout_of arcs) (p_time p)) pts ->
  match spec_archive_update F m xff (layout_of arcs) logs a pts with
  | None => archive_update_many F m xff arcs a pts = UPanic
  | Some logs' => exists arcs', archive_update_many F m xff arcs a pts = UOk arcs' /\
                                Rel_all arcs' logs' /\ layout_of arcs' = layout_of arcs
  end.
Proof.
  intros HRA Hwf Ha Hr Hne Hraw.
  destruct (get_arc_layout _ _ _ Hr) as [Hs Hn].
  destruct (Forall2_nth_error _ _ _ _ _ HRA Hr) as (logr & Hlogr & HRr).
  assert (Hla : 0 <= a < llen (layout_of arcs)) by (rewrite layout_wf_len; lia).
  assert (Hal : Forall (fun p => good_lvl (layout_of arcs) a (interval_w (a_step r) (p_time p))) pts).
  { eapply Forall_impl; [|exact Hraw]. intros p Hp. rewrite <- Hs. apply (good_raw_aligned _ a _ Hwf Hla Hp). }
  destruct (align_points_props (good_lvl (layout_of arcs) a) (a_step r) pts Hal) as [Hgood Hnonempty].
  specialize (Hnonempty Hne).
  unfold spec_archive_update, archive_update_many. rewrite Hr, Hs.
  set (aligned := align_points (a_step r) pts) in *.
  destruct aligned as [|p0 rest] eqn:Eal; [contradiction|]. rewrite <- Eal in *.
  assert (Hgt : Forall (fun p => good_time r (p_time p)) aligned).
  { eapply Forall_impl; [|exact Hgood]. intros p Hp. eapply good_lvl_good_time; eassumption. }
  set (b := if base_interval r =? 0 then p_time p0 else base_interval r).
  assert (Hfix : fold_left (fun r1 p => put_at r1 (point_index r1 b (p_time p)) p) aligned r
                 = fold_left (put_fixed b) aligned r) by reflexivity.
  rewrite Hfix.
  destruct (put_fixed_many aligned r logr b HRr Hgt) as (HRel' & Hs' & Hn').
  { intros Hnil. rewrite Eal. unfold b. rewrite (proj2 (Rel_base_zero_iff r logr HRr) Hnil). reflexivity. }
  { intros Hnn. pose proof HRr as (Hwfr & _ & _ & Hne' & _). destruct Hwfr as (HSr & HNr & _ & _).
    destruct (Hne' Hnn) as [Hb1 Hb2]. unfold b.
    destruct (Z.eqb_spec (base_interval r) 0) as [E0|E0]; [lia|].
    repeat split; try assumption; try lia. rewrite Z.sub_diag. apply Z.mod_0_l. unfold period. nia. }
  set (r' := fold_left (put_fixed b) aligned r) in *.
  assert (Hlogs1 : add_logs logs a aligned = zupd logs a (rev aligned ++ logr)).
  { rewrite add_logs_eq.
    - rewrite Eal. rewrite (get_log_nth _ _ _ Hlogr). reflexivity.
    - pose proof (Forall2_length' _ _ _ HRA) as Hl. unfold zlen in *. lia. }
  assert (HRel1 : Rel_all (set_arc arcs a r') (add_logs logs a aligned)).
  { rewrite Hlogs1. unfold set_arc. apply Forall2_zupd; assumption. }
  assert (Hlay1 : layout_of (set_arc arcs a r') = layout_of arcs).
  { eapply layout_set_arc; eassumption. }
  pose proof (propagate_chain_refines F m xff (set_arc arcs a r') (add_logs logs a aligned) a aligned HRel1) as H.
  rewrite Hlay1 in H.
  assert (Hlen1 : zlen (set_arc arcs a r') = zlen arcs) by (unfold set_arc; apply zlen_zupd).
  rewrite Hlen1 in H. specialize (H Hwf Ha Hgood).
  rewrite Eal in *.
  destruct (spec_propagate_chain F m xff (layout_of arcs) (add_logs logs a (p0 :: rest)) a (p0 :: rest)) as [logs'|].
  - destruct H as (arcs' & Hpc & HRA' & Hlay'). rewrite Hpc. exists arcs'. auto.
  - rewrite H. reflexivity.
Qed.
Print Assumptions archive_update_many_refines.
