(** The command line (Model/Args.v): whatever the arguments are, [Execute] only ever runs with
    options that satisfy what the command models assume — the window is ordered, the aggregation
    method is one of the six storable ones, the archive list is one the retention parser accepts
    (hence valid, C07), the timestamps are 32-bit, and every option the command needs is there. *)
From WT Require Import Base.Wrap Base.ListX Base.Bytes Model.Time Model.Ring Model.Codec Model.Text Model.Args
  Proofs.TextProofs.

Section Parse.
  Variable parse_f64 : list Z -> option Z.
  Variable flag_xff : Z -> option Z.

  (** what every sequence of accepted flag values preserves *)
  Definition opts_ok (o : opts) : Prop :=
    (o_method o = 0 \/ 1 <= o_method o <= 6) /\
    (forall l, o_layout o = Some l -> exists s, parse_archive_info_list s = Some l) /\
    0 <= o_from o < 2^32 /\ 0 <= o_until o < 2^32.

  Lemma defaults_ok c : opts_ok (defaults c).
  Proof. unfold opts_ok, defaults; cbn. split; [now left|]. split; [intros l H; discriminate|]. lia. Qed.

  Lemma flag_method_range s m : flag_method s = Some m -> 1 <= m <= 6.
  Proof.
    unfold flag_method. destruct (method_of_string s) as [m'|]; [|discriminate].
    destruct ((1 <=? m') && (m' <=? 6)) eqn:E; [|discriminate]. intros H; inversion H; subst. lia.
  Qed.

  Lemma parse_timestamp_range s t : parse_timestamp s = Some t -> 0 <= t < 2^32.
  Proof.
    unfold parse_timestamp. destruct (normalize_ts s) as [s'|]; [|discriminate].
    intros H. exact (proj2 (parse_timestamp_canon_exact s' t H)).
  Qed.

  Lemma set_flag_ok f v o o' : opts_ok o -> set_flag parse_f64 flag_xff f v o = Some o' -> opts_ok o'.
  Proof.
    intros (Hm & Hl & Hf & Hu) H. unfold opts_ok.
    destruct f; cbn [set_flag] in H;
      try (inversion H; subst o'; cbn; repeat split; solve [assumption | lia | apply Hl]).
    - destruct (flag_method v) as [m|] eqn:E; [|discriminate]. inversion H; subst o'; cbn.
      repeat split; try assumption; try lia. right. exact (flag_method_range v m E).
    - destruct (parse_f64 v) as [pf|]; [|discriminate]. destruct (flag_xff pf); [|discriminate].
      inversion H; subst o'; cbn. repeat split; try assumption; lia.
    - destruct (parse_archive_info_list v) as [l|] eqn:E; [|discriminate]. inversion H; subst o'; cbn.
      repeat split; try assumption; try lia. intros l' Hl'. inversion Hl'; subst l'. now exists v.
    - destruct (parse_timestamp v) as [t|] eqn:E; [|discriminate]. inversion H; subst o'; cbn.
      pose proof (parse_timestamp_range v t E). repeat split; try assumption; lia.
    - destruct (parse_timestamp v) as [t|] eqn:E; [|discriminate]. inversion H; subst o'; cbn.
      pose proof (parse_timestamp_range v t E). repeat split; try assumption; lia.
    - destruct (parse_int0 v); [|discriminate]. inversion H; subst o'; cbn. repeat split; try assumption; lia.
    - destruct (parse_bool v); [|discriminate]. inversion H; subst o'; cbn. repeat split; try assumption; lia.
    - destruct (parse_bool v); [|discriminate]. inversion H; subst o'; cbn. repeat split; try assumption; lia.
    - destruct (parse_bool v); [|discriminate]. inversion H; subst o'; cbn. repeat split; try assumption; lia.
    - destruct (parse_perm v); [|discriminate]. inversion H; subst o'; cbn. repeat split; try assumption; lia.
    - destruct (parse_int0 v); [|discriminate]. inversion H; subst o'; cbn. repeat split; try assumption; lia.
    - destruct (parse_bool v); [|discriminate]. inversion H; subst o'; cbn. repeat split; try assumption; lia.
  Qed.

  Lemma parse_flags_ok c : forall fuel args o o',
      opts_ok o -> parse_flags parse_f64 flag_xff c fuel args o = FlagsOk o' -> opts_ok o'.
  Proof.
    induction fuel as [|fuel IH]; intros args o o' Hok H; cbn [parse_flags] in H.
    - inversion H; subst; exact Hok.
    - destruct args as [|s rest]; [inversion H; subst; exact Hok|].
      destruct s as [|c0 [|c1 tl]]; try (inversion H; subst; exact Hok).
      destruct (negb (c0 =? 45)); [inversion H; subst; exact Hok|].
      destruct ((c1 =? 45) && match tl with [] => true | _ => false end); [inversion H; subst; exact Hok|].
      destruct (if c1 =? 45 then tl else c1 :: tl) as [|b0 body]; [discriminate|].
      destruct ((b0 =? 45) || (b0 =? 61)); [discriminate|].
      destruct (split_eq (b0 :: body) []) as [name val].
      destruct (find_flag c name) as [f|].
      2:{ destruct (list_eqb name [104; 101; 108; 112] || list_eqb name [104]); discriminate. }
      destruct (is_bool_flag f).
      + destruct (set_flag parse_f64 flag_xff f (match val with Some v => v | None => [116; 114; 117; 101] end) o) as [o1|] eqn:Es; [|discriminate].
        exact (IH rest o1 o' (set_flag_ok _ _ _ _ Hok Es) H).
      + destruct val as [v|].
        * destruct (set_flag parse_f64 flag_xff f v o) as [o1|] eqn:Es; [|discriminate].
          exact (IH rest o1 o' (set_flag_ok _ _ _ _ Hok Es) H).
        * destruct rest as [|v rest']; [discriminate|].
          destruct (set_flag parse_f64 flag_xff f v o) as [o1|] eqn:Es; [|discriminate].
          exact (IH rest' o1 o' (set_flag_ok _ _ _ _ Hok Es) H).
  Qed.

  (** ** what [Execute] can rely on *)
  Definition checks_window (c : command) : bool :=
    match c with CCopy | CDiff | CSum | CView | CViewRaw => true | _ => false end.
  Definition writes_file (c : command) : bool :=
    match c with CCopy | CSumCopy | CGenerate => true | _ => false end.

  Theorem run_options_sound c args o :
    parse_command parse_f64 flag_xff c args = PRun o ->
    opts_ok o /\
    (checks_window c = true -> o_from o <= o_until o) /\
    (writes_file c = true -> 1 <= o_method o <= 6 /\ exists l s, o_layout o = Some l /\ parse_archive_info_list s = Some l).
  Proof.
    unfold parse_command.
    destruct (parse_flags parse_f64 flag_xff c (S (length args)) args (defaults c)) as [o1| |] eqn:Ep; try discriminate.
    destruct (validate_opts c o1) as [why|] eqn:Ev; [discriminate|].
    intros H; inversion H; subst o1; clear H.
    pose proof (parse_flags_ok c _ _ _ _ (defaults_ok c) Ep) as Hok.
    split; [exact Hok|].
    destruct Hok as (Hm & Hl & _ & _).
    unfold validate_opts, req, chk in Ev.
    split.
    - intros Hc. destruct c; try discriminate.
      all: repeat match type of Ev with
                  | (if ?b then _ else _) = None => destruct b eqn:?; [discriminate|]
                  end.
      all: match goal with H : (_ <? _) = false |- _ => apply Z.ltb_ge in H; exact H end.
    - intros Hc. destruct c; try discriminate.
      all: repeat match type of Ev with
                  | (if ?b then _ else _) = None => destruct b eqn:?; [discriminate|]
                  end.
      all: match goal with H : (_ =? 0) = false |- _ => apply Z.eqb_neq in H end.
      all: split; [destruct Hm as [Hm | Hm]; [contradiction | exact Hm]|].
      all: destruct (o_layout o) as [l|] eqn:El; try discriminate.
      all: destruct (Hl l eq_refl) as [s Hs]; exists l, s; split; [reflexivity | exact Hs].
  Qed.

  (** every required option is there *)
  Theorem run_options_complete c args o :
    parse_command parse_f64 flag_xff c args = PRun o ->
    match c with
    | CCopy => o_src_base o <> [] /\ o_src o <> [] /\ o_dest_base o <> [] /\ is_base_url (o_dest_base o) = false
    | CDiff => o_src_base o <> [] /\ o_src o <> [] /\ o_dest_base o <> []
    | CGenerate => o_dest o <> []
    | CServer => True
    | CSum => o_item o <> [] /\ o_src_base o <> [] /\ o_src o <> []
    | CSumCopy => o_item o <> [] /\ o_src_base o <> [] /\ o_src o <> [] /\ o_dest_base o <> [] /\ o_dest o <> [] /\ is_base_url (o_dest_base o) = false
    | CSumDiff => o_item o <> [] /\ o_src_base o <> [] /\ o_src o <> [] /\ o_dest_base o <> [] /\ o_dest o <> []
    | CView | CViewRaw => o_src_base o <> [] /\ o_src o <> []
    end.
  Proof.
    unfold parse_command.
    destruct (parse_flags parse_f64 flag_xff c (S (length args)) args (defaults c)) as [o1| |] eqn:Ep; try discriminate.
    destruct (validate_opts c o1) as [why|] eqn:Ev; [discriminate|].
    intros H; inversion H; subst o1; clear H.
    unfold validate_opts, req, chk in Ev.
    assert (Hne : forall s, is_empty s = false -> s <> []) by (intros [|x r] E; [discriminate | congruence]).
    destruct c; try exact I;
      repeat match type of Ev with
             | (if ?b then _ else _) = None => destruct b eqn:?; [discriminate|]
             end;
      repeat split; try (apply Hne; assumption); try assumption.
  Qed.

  (** an oddity of the code kept by the model: the end of the window defaults to 0 ("now") while the
      check compares the raw values, so a start can only be given together with an end *)
  Corollary start_needs_end c args o :
    parse_command parse_f64 flag_xff c args = PRun o -> checks_window c = true ->
    o_until o = 0 -> o_from o = 0.
  Proof.
    intros H Hc Hu. destruct (run_options_sound c args o H) as ((_ & _ & Hf & _) & Hw & _).
    specialize (Hw Hc). lia.
  Qed.
End Parse.
