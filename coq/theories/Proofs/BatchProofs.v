(** A batch handed to one explicitly named archive (what copy, sum-copy and generate do, archive
    by archive): the whole effect on that archive's log is "the batch was prepended"; finer
    archives are not touched.  Consequence for readers: inside one window the written slots show
    the written values and every other slot is unchanged. *)
From Coq Require Import Sorted.
From WT Require Import Base.Wrap Base.ListX Model.Time Model.Ring Model.Update Spec.LogSpec
  Proofs.TimeProofs Proofs.RingProofs Proofs.FetchProofs Proofs.UpdateProofs Proofs.ChainProofs
  Proofs.ArchiveUpdateProofs Proofs.RoutingProofs Proofs.HistoryProofs Proofs.FrameProofs.

Definition lt_time (p q : point) : Prop := p_time p < p_time q.

(** * sorting and aligning a batch that is already sorted and aligned changes nothing *)

Lemma ins_stable_last p : forall l, Forall (fun q => p_time q <= p_time p) l -> ins_stable p l = l ++ [p].
Proof.
  induction l as [|q r IH]; intros H; cbn [ins_stable app]; [reflexivity|].
  inversion H as [|? ? Hq Hr]; subst.
  destruct (Z.ltb_spec (p_time p) (p_time q)); [lia|]. rewrite IH by assumption. reflexivity.
Qed.

Lemma sort_points_from_sorted : forall l acc, StronglySorted le_time (acc ++ l) ->
  fold_left (fun acc p => ins_stable p acc) l acc = acc ++ l.
Proof.
  induction l as [|p r IH]; intros acc H; cbn [fold_left]; [rewrite app_nil_r; reflexivity|].
  assert (Hle : Forall (fun q => p_time q <= p_time p) acc).
  { clear IH. induction acc as [|a acc IHa]; [constructor|].
    cbn [app] in H. inversion H as [|? ? Hs Hall]; subst. constructor.
    - rewrite Forall_forall in Hall. apply (Hall p). apply in_or_app. right. left. reflexivity.
    - apply IHa. exact Hs. }
  rewrite ins_stable_last by exact Hle.
  rewrite IH; rewrite <- app_assoc; cbn [app]; [reflexivity|exact H].
Qed.

Lemma sort_points_sorted_id l : StronglySorted le_time l -> sort_points l = l.
Proof. intros H. unfold sort_points. rewrite sort_points_from_sorted; [reflexivity|exact H]. Qed.

Lemma lt_sorted_le l : StronglySorted lt_time l -> StronglySorted le_time l.
Proof.
  induction 1 as [|p r Hs IH Hall]; constructor; [exact IH|].
  eapply Forall_impl; [|exact Hall]. intros q Hq. unfold lt_time, le_time in *. lia.
Qed.

Definition aligned_pt (S : Z) (p : point) : Prop := p_time p mod S = 0 /\ 0 <= p_time p < 2^32.

Lemma align_points_from_id S : 0 < S -> forall pts acc prev first,
  StronglySorted lt_time pts -> Forall (aligned_pt S) pts ->
  (first = true \/ Forall (fun p => prev < p_time p) pts) ->
  align_points_from S pts acc prev first = acc ++ pts.
Proof.
  intros HS. induction pts as [|p r IH]; intros acc prev first Hs Ha Hf; cbn [align_points_from]; [rewrite app_nil_r; reflexivity|].
  inversion Hs as [|? ? Hs' Hall]; subst. inversion Ha as [|? ? [Hm Hr] Ha']; subst.
  assert (Hiw : interval_w S (p_time p) = p_time p).
  { rewrite interval_w_spec by (try assumption; lia). lia. }
  assert (Hcond : negb first && (p_time p =? prev) = false).
  { destruct Hf as [-> | Hf]; [reflexivity|]. inversion Hf; subst. destruct first; cbn; [reflexivity|]. lia. }
  rewrite Hcond. cbn [p_time]. rewrite Hiw.
  rewrite IH; try assumption.
  - rewrite <- app_assoc. cbn [app]. destruct p; reflexivity.
  - right. eapply Forall_impl; [|exact Hall]. intros q Hq. exact Hq.
Qed.

Lemma align_points_id S pts : 0 < S -> StronglySorted lt_time pts -> Forall (aligned_pt S) pts ->
  align_points S pts = pts.
Proof. intros. unfold align_points. rewrite align_points_from_id by auto. reflexivity. Qed.

(** * the routing loop for an explicit archive id: exactly one archive receives the batch *)

Lemma filter_true_all {A} (f : A -> bool) l : Forall (fun x => f x = true) l -> filter f l = l.
Proof. induction 1 as [|x r Hx Hr IH]; cbn [filter]; [reflexivity|]. rewrite Hx, IH. reflexivity. Qed.
Lemma filter_false_all {A} (f : A -> bool) l : Forall (fun x => f x = false) l -> filter f l = [].
Proof. induction 1 as [|x r Hx Hr IH]; cbn [filter]; [reflexivity|]. rewrite Hx, IH. reflexivity. Qed.

Lemma loop_skip F m xff L a now : 0 <= a -> forall rets i logs pts, a < i ->
  spec_many_loop F m xff L rets i logs pts a now = Some logs.
Proof.
  intros Ha. induction rets as [|R rest IH]; intros i logs pts Hi; cbn [spec_many_loop]; [reflexivity|].
  assert (Hs : negb (a =? -1) && negb (a =? i) = true) by lia. rewrite Hs. apply IH. lia.
Qed.

Lemma loop_explicit F m xff L a now Ra : 0 <= a -> forall rets i logs pts, 0 <= i <= a ->
  nth_error rets (Z.to_nat (a - i)) = Some Ra ->
  Forall (fun p => now - Ra < p_time p) pts ->
  spec_many_loop F m xff L rets i logs pts a now =
  match pts with [] => Some logs | _ => spec_archive_update F m xff L logs a pts end.
Proof.
  intros Ha. induction rets as [|R rest IH]; intros i logs pts Hi Hn Hp.
  - destruct (Z.to_nat (a - i)); discriminate.
  - cbn [spec_many_loop]. destruct (Z.eq_dec i a) as [->|Hne].
    + replace (a - a) with 0 in Hn by lia. cbn in Hn. injection Hn as ->.
      assert (Hs : negb (a =? -1) && negb (a =? a) = false) by lia. rewrite Hs.
      rewrite filter_true_all by (eapply Forall_impl; [|exact Hp]; cbn beta; intros; lia).
      rewrite filter_false_all by (eapply Forall_impl; [|exact Hp]; cbn beta; intros; lia).
      destruct pts as [|p r]; [apply loop_skip; lia|].
      destruct (spec_archive_update F m xff L logs a (p :: r)); [apply loop_skip; lia|reflexivity].
    + assert (Hs : negb (a =? -1) && negb (a =? i) = true) by lia. rewrite Hs.
      apply IH; [lia| |exact Hp].
      replace (Z.to_nat (a - i)) with (S (Z.to_nat (a - (i + 1)))) in Hn by lia. exact Hn.
Qed.

(** * the batch theorem *)

Lemma archive_update_many_no_err F m xff arcs a pts : archive_update_many F m xff arcs a pts <> UErr.
Proof.
  unfold archive_update_many. destruct (get_arc arcs a); [|discriminate].
  destruct (align_points (a_step a0) pts); [discriminate|].
  destruct (propagate_chain _ _ _ _ _ _); discriminate.
Qed.

Lemma update_many_loop_no_err F m xff id now : forall todo i arcs pts,
  update_many_loop F m xff todo i arcs pts id now <> UErr.
Proof.
  induction todo as [|r0 rest IH]; intros i arcs pts; cbn [update_many_loop]; [discriminate|].
  destruct (negb (id =? ArchiveIDBest) && negb (id =? i)); [apply IH|].
  destruct (extract_points pts now (max_retention r0)) as [cur remaining].
  destruct cur as [|c0 cr]; [apply IH|].
  pose proof (archive_update_many_no_err F m xff arcs i (c0 :: cr)) as Hne.
  destruct (archive_update_many F m xff arcs i (c0 :: cr)); [congruence|discriminate|apply IH].
Qed.

(** aligned, younger than the archive's retention, at most one step ahead of the clock (the
    degenerate-window extension of a fetch names one slot after [now]) *)
Definition in_retention (L : lay) (a now : Z) (p : point) : Prop :=
  p_time p mod lay_step L a = 0 /\ now - lay_period L a < p_time p <= now + lay_step L a.

Theorem batch_write_explicit F m xff arcs logs a pts now :
  1 <= m <= 6 -> Rel_all arcs logs -> wf_layout_full (layout_of arcs) -> clock_ok (layout_of arcs) now ->
  0 <= a < zlen arcs -> StronglySorted lt_time pts -> Forall (in_retention (layout_of arcs) a now) pts ->
  exists arcs' logs',
    update_points_for_archive F m xff arcs pts a now = UOk arcs' /\
    Rel_all arcs' logs' /\ layout_of arcs' = layout_of arcs /\ zlen logs' = zlen logs /\
    get_log logs' a = rev pts ++ get_log logs a /\
    (forall j, 0 <= j < a -> get_log logs' j = get_log logs j).
Proof.
  intros Hm HRA Hwff Hclock Ha Hsorted Hret.
  set (L := layout_of arcs) in *.
  pose proof Hwff as (Hwf & Hper & Htop). pose proof Hclock as [Hc1 Hc2].
  assert (HaL : 0 <= a < llen L) by (unfold L; rewrite layout_wf_len; exact Ha).
  destruct (Hper a HaL) as [HpT Hple].
  assert (Hlogs : zlen logs = zlen arcs).
  { unfold zlen. f_equal. symmetry. eapply Forall2_length'. exact HRA. }
  assert (Hsa : 0 < lay_step L a <= lay_period L a).
  { destruct Hwf as (_ & Hpos & _). destruct (Hpos a HaL). unfold lay_period. nia. }
  assert (Hgood : Forall (fun p => good_raw L (p_time p)) pts).
  { eapply Forall_impl; [|exact Hret]. intros p [_ Hp]. unfold good_raw, TMAX in *. lia. }
  pose proof (step_refines F m xff arcs logs (OMany a pts now) HRA Hwff (conj Hclock Hgood)) as Hstep.
  cbn [step_spec step_model] in Hstep. fold L in Hstep.
  unfold spec_update_many in Hstep.
  rewrite (sort_points_sorted_id pts (lt_sorted_le _ Hsorted)) in Hstep.
  assert (Hnth : nth_error (map (fun sn => fst sn * snd sn) L) (Z.to_nat (a - 0)) = Some (lay_period L a)).
  { replace (a - 0) with a by lia. unfold lay_period, lay_step, lay_n.
    assert (Hlt : (Z.to_nat a < length L)%nat) by (unfold llen in HaL; lia).
    rewrite nth_error_map. destruct (nth_error L (Z.to_nat a)) as [sn|] eqn:En.
    - rewrite (nth_error_nth _ _ _ En). reflexivity.
    - apply nth_error_None in En. lia. }
  rewrite (loop_explicit F m xff L a now (lay_period L a) ltac:(lia) _ 0 logs pts ltac:(lia) Hnth) in Hstep
    by (eapply Forall_impl; [|exact Hret]; intros p [_ Hp]; lia).
  destruct pts as [|p0 r] eqn:Epts.
  - destruct Hstep as (arcs' & Hup & HRA' & Hlay'). exists arcs', logs.
    pose proof (update_many_loop_no_err F m xff a now arcs 0 arcs (sort_points [])) as Hne.
    fold (update_points_for_archive F m xff arcs [] a now) in Hne.
    destruct (update_points_for_archive F m xff arcs [] a now); [congruence|discriminate|]. injection Hup as ->.
    repeat split; auto.
  - rewrite <- Epts in *.
    pose proof (spec_archive_update_total F m xff L logs a pts Hm) as Htot.
    destruct (spec_archive_update F m xff L logs a pts) as [logs'|] eqn:Esp; [|exfalso; apply Htot; reflexivity].
    destruct Hstep as (arcs' & Hup & HRA' & Hlay'). exists arcs', logs'.
    pose proof (update_many_loop_no_err F m xff a now arcs 0 arcs (sort_points pts)) as Hne.
    fold (update_points_for_archive F m xff arcs pts a now) in Hne.
    destruct (update_points_for_archive F m xff arcs pts a now); [congruence|discriminate|]. injection Hup as ->.
    destruct (spec_archive_update_frame F m xff L logs a pts logs' Esp ltac:(lia)) as (Hla & Hlj & Hlen).
    destruct (Hwf) as (_ & Hpos & _). destruct (Hpos a HaL) as [HSa HNa].
    rewrite align_points_id in Hla; [|exact HSa|exact Hsorted|].
    + repeat split; auto.
    + eapply Forall_impl; [|exact Hret]. intros p [Hp1 Hp2]. split; [exact Hp1|]. unfold TMAX in *. lia.
Qed.
Print Assumptions batch_write_explicit.
