From WT Require Import Base.Wrap Base.ListX Model.Time Model.Ring Model.Update Spec.LogSpec
  Proofs.TimeProofs Proofs.RingProofs Proofs.FetchProofs Proofs.UpdateProofs.

(** * Layout well-formedness as seen by the propagation proofs *)

Definition llen (L : lay) : Z := Z.of_nat (length L).

Definition wf_lay (L : lay) : Prop :=
  0 < llen L /\
  (forall i, 0 <= i < llen L -> 0 < lay_step L i /\ 0 < lay_n L i) /\
  (forall i, 1 <= i < llen L -> level_valid L i).

Definition top_step (L : lay) : Z := lay_step L (llen L - 1).

Lemma step_divides_top L : wf_lay L -> forall d, 0 <= d -> forall i, i = llen L - 1 - d -> 0 <= i ->
  top_step L mod lay_step L i = 0 /\ lay_step L i <= top_step L.
Proof.
  intros (Hlen & Hpos & Hval). intros d Hd; pattern d; apply natlike_ind; [| |exact Hd].
  - intros i Hi Hi0. replace i with (llen L - 1) by lia. unfold top_step.
    destruct (Hpos (llen L - 1) ltac:(lia)) as [Hs _]. split; [apply Z_mod_same_full|lia].
  - intros x Hx IH i Hi Hi0.
    destruct (IH (i + 1) ltac:(lia) ltac:(lia)) as [Hd' Hle].
    destruct (Hval (i + 1) ltac:(lia)) as [Hdiv _]. replace (i + 1 - 1) with i in Hdiv by lia.
    destruct (Hpos i ltac:(lia)) as [Hs _]. destruct (Hpos (i + 1) ltac:(lia)) as [Hs1 _].
    apply Z.mod_divide in Hd'; [|lia]. apply Z.mod_divide in Hdiv; [|lia].
    split.
    + apply Z.mod_divide; [lia|]. eapply Z.divide_trans; eassumption.
    + assert (lay_step L i <= lay_step L (i + 1)) by (apply Z.divide_pos_le; assumption). lia.
Qed.

Lemma step_top L i : wf_lay L -> 0 <= i < llen L ->
  top_step L mod lay_step L i = 0 /\ lay_step L i <= top_step L /\ 0 < lay_step L i.
Proof.
  intros Hwf Hi. destruct (step_divides_top L Hwf (llen L - 1 - i) ltac:(lia) i ltac:(lia) ltac:(lia)) as [H1 H2].
  destruct Hwf as (_ & Hpos & _). destruct (Hpos i Hi). auto.
Qed.

(** times handled at level [l]: far enough from 0 and from 2^31 for every level *)
Definition good_lvl (L : lay) (l : Z) (t : Z) : Prop :=
  top_step L <= t /\ t + top_step L < TMAX /\ t mod lay_step L l = 0.

Lemma good_lvl_ts L l t : wf_lay L -> 0 <= l < llen L -> good_lvl L l t -> good_ts L l t.
Proof.
  intros Hwf Hl (H1 & H2 & H3). destruct (step_top L l Hwf Hl) as (_ & Hle & Hpos).
  unfold good_ts. unfold TMAX in *. repeat split; try lia; try exact H3.
Qed.

Lemma floor_ge_multiple top S t : 0 < S -> top mod S = 0 -> top <= t -> top <= t - t mod S.
Proof.
  intros HS Hd Ht. apply Z.mod_divide in Hd; [|lia]. destruct Hd as [q Hq]. subst top.
  rewrite (Z.div_mod t S) at 1 by lia. replace (S * (t / S) + t mod S - t mod S) with (S * (t / S)) by lia.
  assert (q <= t / S) by (apply Z.div_le_lower_bound; lia). nia.
Qed.

Lemma good_lvl_coarsen L l t : wf_lay L -> 0 <= l -> l + 1 < llen L -> good_lvl L l t ->
  good_lvl L (l + 1) (t - t mod lay_step L (l + 1)).
Proof.
  intros Hwf Hl Hl1 (H1 & H2 & H3).
  destruct (step_top L (l + 1) Hwf ltac:(lia)) as (Hd & Hle & Hpos).
  pose proof (mod_facts t (lay_step L (l + 1)) Hpos ltac:(destruct (step_top L l Hwf ltac:(lia)); lia)) as [Hm1 Hm2].
  repeat split.
  - apply floor_ge_multiple; assumption.
  - lia.
  - apply sub_mod_aligned. assumption.
Qed.

Lemma push_dedup_Forall (P : Z -> Prop) acc x : Forall P acc -> P x -> Forall P (push_dedup acc x).
Proof.
  intros Ha Hx. unfold push_dedup. destruct (rev acc) as [|y r]; [apply Forall_app; auto|].
  destruct (y =? x); [assumption|apply Forall_app; auto].
Qed.

Lemma spec_propagate_one_acc F m xff L logs l acc t logs' acc' (P : Z -> Prop) :
  spec_propagate_one F m xff L logs l acc t = Some (logs', acc') ->
  Forall P acc -> P (t - t mod lay_step L (l + 1)) -> Forall P acc'.
Proof.
  unfold spec_propagate_one. intros H Ha Hx.
  destruct (known_log _ _ _ _ _) as [|v0 kv]; [injection H as <- <-; assumption|].
  destruct (f_frac_lt _ _ _ _); [injection H as <- <-; assumption|].
  destruct (aggregate _ _ _); [|discriminate].
  destruct (l + 1 <? Z.of_nat (length L)); injection H as <- <-; [apply push_dedup_Forall|]; assumption.
Qed.

Lemma spec_propagate_acc F m xff L l (P Q : Z -> Prop) : 
  (forall t, Q t -> P (t - t mod lay_step L (l + 1))) ->
  forall ts logs acc logs' acc',
  spec_propagate F m xff L logs l acc ts = Some (logs', acc') ->
  Forall P acc -> Forall Q ts -> Forall P acc'.
Proof.
  intros HQP. induction ts as [|t rest IH]; intros logs acc logs' acc' H Ha Hts; cbn [spec_propagate] in H.
  - injection H as <- <-. assumption.
  - inversion Hts; subst.
    destruct (spec_propagate_one F m xff L logs l acc t) as [[logs1 acc1]|] eqn:E1; [|discriminate].
    eapply IH; [eassumption| |assumption].
    eapply spec_propagate_one_acc; [eassumption|assumption|]. apply HQP. assumption.
Qed.

Lemma layout_wf_len arcs : llen (layout_of arcs) = zlen arcs.
Proof. unfold llen, zlen. rewrite layout_length. reflexivity. Qed.

(** * The level loop refines its log-level counterpart *)
Theorem chain_refines F m xff : forall fuel arcs logs l ts,
  Rel_all arcs logs -> wf_lay (layout_of arcs) -> 1 <= l ->
  Forall (good_lvl (layout_of arcs) l) ts ->
  match spec_chain F m xff (layout_of arcs) fuel logs l ts with
  | None => chain F m xff fuel arcs l ts = None
  | Some logs' => exists arcs', chain F m xff fuel arcs l ts = Some arcs' /\
                                Rel_all arcs' logs' /\ layout_of arcs' = layout_of arcs
  end.
Proof.
  induction fuel as [|fuel IH]; intros arcs logs l ts HRA Hwf Hl Hts; cbn [spec_chain chain].
  - exists arcs. auto.
  - rewrite layout_length. change (Z.of_nat (length arcs)) with (zlen arcs).
    destruct (Z.ltb_spec l (zlen arcs)) as [Hlt|Hge]; cbn [andb]; [|exists arcs; auto].
    destruct ts as [|t0 rest]; cbn [negb]; [exists arcs; auto|].
    set (ts := t0 :: rest) in *.
    assert (Hlv : level_valid (layout_of arcs) l).
    { destruct Hwf as (_ & _ & Hval). apply Hval. rewrite layout_wf_len. lia. }
    assert (Hgts : Forall (good_ts (layout_of arcs) l) ts).
    { eapply Forall_impl; [|exact Hts]. intros t Ht. apply good_lvl_ts; [assumption| rewrite layout_wf_len; lia | assumption]. }
    pose proof (propagate_refines F m xff l ts arcs logs [] HRA ltac:(unfold zlen in *; lia) Hlv Hgts) as Hp.
    destruct (spec_propagate F m xff (layout_of arcs) logs l [] ts) as [[logs1 ts1]|] eqn:Esp.
    + destruct Hp as (arcs1 & Hp1 & HRA1 & Hlay1). rewrite Hp1.
      specialize (IH arcs1 logs1 (l + 1) ts1 HRA1). rewrite Hlay1 in IH.
      apply IH; [assumption|lia|].
      destruct (Z_lt_le_dec (l + 1) (zlen arcs)) as [Hl1|Hl1].
      * eapply (spec_propagate_acc F m xff (layout_of arcs) l (good_lvl (layout_of arcs) (l + 1)) (good_lvl (layout_of arcs) l));
          [|eassumption|constructor|exact Hts].
        intros t Ht. apply good_lvl_coarsen; [assumption|lia|rewrite layout_wf_len; lia|assumption].
      * (* last level: nothing is pushed *)
        assert (Hnil : ts1 = []).
        { clear -Esp Hl1. assert (G : forall ts logs acc logs' acc', acc = [] ->
             spec_propagate F m xff (layout_of arcs) logs l acc ts = Some (logs', acc') -> acc' = []).
          { induction ts0 as [|t r IHt]; intros lg acc lg' acc' Hacc H; cbn [spec_propagate] in H.
            - injection H as _ <-. assumption.
            - destruct (spec_propagate_one F m xff (layout_of arcs) lg l acc t) as [[lg1 acc1]|] eqn:E; [|discriminate].
              eapply IHt; [|eassumption]. unfold spec_propagate_one in E.
              destruct (known_log _ _ _ _ _); [injection E as _ <-; assumption|].
              destruct (f_frac_lt _ _ _ _); [injection E as _ <-; assumption|].
              destruct (aggregate _ _ _); [|discriminate]. rewrite layout_length in E.
              change (Z.of_nat (length arcs)) with (zlen arcs) in E.
              destruct (Z.ltb_spec (l + 1) (zlen arcs)); [lia|]. injection E as _ <-. assumption. }
          eapply G; [reflexivity|eassumption]. }
        subst ts1. constructor.
    + rewrite Hp. reflexivity.
Qed.
Print Assumptions chain_refines.
