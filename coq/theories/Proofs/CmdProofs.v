(** Properties of the command layer (Model/Cmd.v): diff (C09), sum (C10), view (C18),
    copy / generate building blocks (C08, C20). *)
From Coq Require Import Sorting.Permutation.
From WT Require Import Base.Wrap Base.ListX Base.Bytes Model.Time Model.Ring Model.Update Model.Codec
  Model.Handle Model.Cmd.

(** * Value equality *)
Lemma veq_refl v : veq v v = true.
Proof. unfold veq. destruct (is_nan v); cbn; [reflexivity|]. rewrite Z.eqb_refl. reflexivity. Qed.
Lemma veq_sym v u : veq v u = veq u v.
Proof.
  unfold veq. rewrite (Z.eqb_sym v u). rewrite (andb_comm (is_nan v) (is_nan u)).
  rewrite (andb_comm (is_zero_bits v) (is_zero_bits u)).
  destruct (is_nan v), (is_nan u); reflexivity.
Qed.
(** two NaNs are equal whatever their payloads; a NaN never equals a number *)
Lemma veq_nan_nan v u : is_nan v = true -> is_nan u = true -> veq v u = true.
Proof. intros Hv Hu. unfold veq. rewrite Hv, Hu. reflexivity. Qed.
Lemma veq_nan_num v u : is_nan v = true -> is_nan u = false -> veq v u = false.
Proof. intros Hv Hu. unfold veq. rewrite Hv, Hu. reflexivity. Qed.
(** the two zeros are equal; otherwise numbers are equal iff their bits are *)
Lemma veq_zeros : veq 0 (2^63) = true. Proof. reflexivity. Qed.
Lemma veq_num v u : is_nan v = false -> is_nan u = false ->
  veq v u = ((v =? u) || (is_zero_bits v && is_zero_bits u)).
Proof. intros Hv Hu. unfold veq. rewrite Hv, Hu. reflexivity. Qed.

(** * diff_vals lists exactly the differing slots *)
(** the slots of two value lists, numbered from [i] *)
Fixpoint slots_from (i : Z) (v1 v2 : list Z) : list (Z * (Z * Z)) :=
  match v1, v2 with
  | a :: r1, b :: r2 => (i, (a, b)) :: slots_from (i + 1) r1 r2
  | _, _ => []
  end.
Definition differs (cn : bool) (step f1 f2 : Z) (s : Z * (Z * Z)) : bool :=
  let '(i, (a, b)) := s in
  (negb (ts_add f1 (i32 (i * step)) =? ts_add f2 (i32 (i * step))) || negb (veq a b)) && (cn || negb (is_nan a)).
Definition slot_points (step f1 f2 : Z) (s : Z * (Z * Z)) : point * point :=
  let '(i, (a, b)) := s in (mkPoint (ts_add f1 (i32 (i * step))) a, mkPoint (ts_add f2 (i32 (i * step))) b).

Theorem diff_vals_spec cn step f1 f2 : forall v1 v2 i,
  diff_vals cn step f1 f2 i v1 v2 =
  split (map (slot_points step f1 f2) (filter (differs cn step f1 f2) (slots_from i v1 v2))).
Proof.
  induction v1 as [|a r1 IH]; intros v2 i; [reflexivity|].
  destruct v2 as [|b r2]; [reflexivity|].
  cbn [diff_vals slots_from filter]. rewrite IH.
  unfold differs at 2. cbn [fst snd].
  destruct ((negb (ts_add f1 (i32 (i * step)) =? ts_add f2 (i32 (i * step))) || negb (veq a b)) && (cn || negb (is_nan a))).
  - cbn [map split slot_points].
    destruct (split (map (slot_points step f1 f2) (filter (differs cn step f1 f2) (slots_from (i + 1) r1 r2)))). reflexivity.
  - destruct (split (map (slot_points step f1 f2) (filter (differs cn step f1 f2) (slots_from (i + 1) r1 r2)))). reflexivity.
Qed.

Lemma split_nil_l {A B} (l : list (A * B)) : fst (split l) = [] <-> l = [].
Proof. destruct l as [|[a b] r]; cbn; [tauto|]. destruct (split r). cbn. split; discriminate. Qed.
Lemma split_nil_r {A B} (l : list (A * B)) : snd (split l) = [] <-> l = [].
Proof. destruct l as [|[a b] r]; cbn; [tauto|]. destruct (split r). cbn. split; discriminate. Qed.

(** no slot is listed iff no slot differs *)
Theorem diff_vals_empty_iff cn step f1 f2 v1 v2 i :
  fst (diff_vals cn step f1 f2 i v1 v2) = [] <->
  forall s, In s (slots_from i v1 v2) -> differs cn step f1 f2 s = false.
Proof.
  rewrite diff_vals_spec, split_nil_l.
  split.
  - intros H s Hs. destruct (differs cn step f1 f2 s) eqn:E; [|reflexivity].
    assert (Hin : In s (filter (differs cn step f1 f2) (slots_from i v1 v2))) by (apply filter_In; tauto).
    apply (in_map (slot_points step f1 f2)) in Hin. rewrite H in Hin. contradiction.
  - intros H. destruct (filter (differs cn step f1 f2) (slots_from i v1 v2)) as [|s r] eqn:E; [reflexivity|].
    assert (Hin : In s (filter (differs cn step f1 f2) (slots_from i v1 v2))) by (rewrite E; left; reflexivity).
    apply filter_In in Hin. destruct Hin as [Hs Hd]. rewrite (H s Hs) in Hd. discriminate.
Qed.

(** ** the library's comparison API: Equal and the difference listings agree *)
Lemma vals_equal_length a : forall b, vals_equal a b = true -> length a = length b.
Proof. induction a as [|x r IH]; intros [|y q] H; cbn in *; try discriminate; [reflexivity|]. apply andb_true_iff in H as [_ H]. f_equal. now apply IH. Qed.

Lemma diff_vals_of_equal step f : forall v1 v2 i, vals_equal v1 v2 = true -> diff_vals true step f f i v1 v2 = ([], []).
Proof.
  induction v1 as [|a r IH]; intros [|b q] i H; cbn in H; try discriminate; [reflexivity|].
  apply andb_true_iff in H as [Hab H]. cbn [diff_vals]. rewrite (IH q (i + 1) H). rewrite Z.eqb_refl, Hab. reflexivity.
Qed.

Lemma vals_equal_of_diff_vals step f : forall v1 v2 i, length v1 = length v2 ->
  fst (diff_vals true step f f i v1 v2) = [] -> vals_equal v1 v2 = true.
Proof.
  induction v1 as [|a r IH]; intros [|b q] i Hl H; cbn in Hl; try discriminate; [reflexivity|].
  cbn [diff_vals] in H. destruct (diff_vals true step f f (i + 1) r q) as [p0 q0] eqn:E.
  rewrite Z.eqb_refl in H. cbn [negb orb andb] in H.
  destruct (veq a b) eqn:Hab; cbn in H; [|discriminate].
  cbn [vals_equal]. rewrite Hab. cbn. apply (IH q (i + 1)); [now inversion Hl|]. rewrite E. exact H.
Qed.

(** two series are Equal exactly when they have the same range and step, the same number of values and
    DiffPoints lists nothing *)
Theorem series_equal_iff_no_difference a b :
  series_equal a b = true <->
  eq_range_step a b = true /\ length (s_vals a) = length (s_vals b) /\ diff_points true a b = ([], []).
Proof.
  unfold series_equal, diff_points. split.
  - intros H. apply andb_true_iff in H as [Hr Hv]. pose proof (vals_equal_length _ _ Hv) as Hl.
    repeat split; [exact Hr | exact Hl |].
    assert (E : zlen (s_vals a) =? zlen (s_vals b) = true) by (apply Z.eqb_eq; unfold zlen; now rewrite Hl).
    rewrite E. cbn [negb].
    unfold eq_range_step in Hr. apply andb_true_iff in Hr as [Hr _]. apply andb_true_iff in Hr as [Hf _]. apply Z.eqb_eq in Hf.
    rewrite <- Hf. now apply diff_vals_of_equal.
  - intros (Hr & Hl & Hd). rewrite Hr. cbn [andb].
    assert (E : zlen (s_vals a) =? zlen (s_vals b) = true) by (apply Z.eqb_eq; unfold zlen; now rewrite Hl).
    rewrite E in Hd. cbn [negb] in Hd.
    pose proof Hr as Hr'. unfold eq_range_step in Hr'. apply andb_true_iff in Hr' as [Hr' _]. apply andb_true_iff in Hr' as [Hf _]. apply Z.eqb_eq in Hf.
    rewrite <- Hf in Hd. apply (vals_equal_of_diff_vals (s_step a) (s_from a) _ _ 0 Hl). now rewrite Hd.
Qed.

Lemma points_diff_same_len_nil_iff : forall p q, length p = length q ->
  (points_diff_same_len p q = ([], []) <-> points_equal p q = true).
Proof.
  induction p as [|x r IH]; intros [|y s] Hl; cbn in Hl; try discriminate; [cbn; tauto|].
  cbn [points_diff_same_len points_equal]. specialize (IH s (eq_add_S _ _ Hl)).
  destruct (points_diff_same_len r s) as [a b]. destruct (point_equal x y); cbn [andb].
  - exact IH.
  - split; discriminate.
Qed.

(** point lists are Equal exactly when they are equally long and Points.Diff lists nothing *)
Theorem points_equal_iff_no_difference p q :
  points_equal p q = true <-> length p = length q /\ points_diff p q = ([], []).
Proof.
  unfold points_diff. split.
  - intros H. assert (Hl : length p = length q).
    { revert q H. induction p as [|x r IH]; intros [|y s] H; cbn in H; try discriminate; [reflexivity|].
      apply andb_true_iff in H as [_ H]. cbn. f_equal. now apply IH. }
    split; [exact Hl|]. assert (E : zlen p =? zlen q = true) by (apply Z.eqb_eq; unfold zlen; now rewrite Hl).
    rewrite E. cbn [negb]. now apply points_diff_same_len_nil_iff.
  - intros [Hl Hd]. assert (E : zlen p =? zlen q = true) by (apply Z.eqb_eq; unfold zlen; now rewrite Hl).
    rewrite E in Hd. cbn [negb] in Hd. now apply points_diff_same_len_nil_iff.
Qed.

(** both lists have one entry per listed slot *)
Lemma diff_vals_lengths cn step f1 f2 v1 v2 i :
  length (fst (diff_vals cn step f1 f2 i v1 v2)) = length (snd (diff_vals cn step f1 f2 i v1 v2)).
Proof. rewrite diff_vals_spec. rewrite split_length_l, split_length_r. reflexivity. Qed.

(** with equal window starts, "differs" is just inequality of the two values *)
Lemma differs_same_from step f s : differs true step f f s = negb (veq (fst (snd s)) (snd (snd s))).
Proof. destruct s as [i [a b]]. unfold differs. rewrite Z.eqb_refl. cbn. rewrite andb_true_r. reflexivity. Qed.

(** * Symmetry and self-comparison *)
Lemma slots_from_swap : forall v1 v2 i,
  slots_from i v2 v1 = map (fun s => (fst s, (snd (snd s), fst (snd s)))) (slots_from i v1 v2).
Proof.
  induction v1 as [|a r IH]; intros [|b q] i; try reflexivity.
  cbn [slots_from map fst snd]. rewrite IH. reflexivity.
Qed.

Theorem diff_vals_empty_sym step f v1 v2 i :
  fst (diff_vals true step f f i v1 v2) = [] <-> fst (diff_vals true step f f i v2 v1) = [].
Proof.
  rewrite !diff_vals_empty_iff. rewrite (slots_from_swap v1 v2 i).
  split; intros H s Hs.
  - apply in_map_iff in Hs. destruct Hs as [s0 [<- Hs0]]. specialize (H s0 Hs0).
    rewrite differs_same_from in *. cbn [fst snd]. rewrite veq_sym. exact H.
  - specialize (H (fst s, (snd (snd s), fst (snd s)))).
    assert (Hin : In (fst s, (snd (snd s), fst (snd s))) (map (fun s => (fst s, (snd (snd s), fst (snd s)))) (slots_from i v1 v2))).
    { apply in_map_iff. exists s. split; [reflexivity|exact Hs]. }
    specialize (H Hin). rewrite differs_same_from in *. cbn [fst snd] in H. rewrite veq_sym. exact H.
Qed.

Lemma slots_from_self : forall v i s, In s (slots_from i v v) -> fst (snd s) = snd (snd s).
Proof.
  induction v as [|a r IH]; intros i s Hs; [contradiction|].
  cbn [slots_from] in Hs. destruct Hs as [<-|Hs]; [reflexivity|]. apply (IH _ _ Hs).
Qed.

Theorem diff_vals_self step f v i : diff_vals true step f f i v v = ([], []).
Proof.
  rewrite diff_vals_spec.
  assert (E : filter (differs true step f f) (slots_from i v v) = []).
  { destruct (filter (differs true step f f) (slots_from i v v)) as [|s r] eqn:E; [reflexivity|].
    assert (Hin : In s (filter (differs true step f f) (slots_from i v v))) by (rewrite E; left; reflexivity).
    apply filter_In in Hin. destruct Hin as [Hs Hd]. rewrite differs_same_from in Hd.
    rewrite (slots_from_self _ _ _ Hs) in Hd. rewrite veq_refl in Hd. discriminate. }
  rewrite E. reflexivity.
Qed.

Lemma eq_range_step_refl s : eq_range_step s s = true.
Proof. unfold eq_range_step. rewrite !Z.eqb_refl. reflexivity. Qed.
Lemma eq_range_step_sym a b : eq_range_step a b = eq_range_step b a.
Proof. unfold eq_range_step. rewrite (Z.eqb_sym (s_from a)), (Z.eqb_sym (s_until a)), (Z.eqb_sym (s_step a)). reflexivity. Qed.
Lemma all_eq_range_step_refl l : all_eq_range_step l l = true.
Proof. induction l as [|s r IH]; cbn; [reflexivity|]. rewrite eq_range_step_refl, IH. reflexivity. Qed.
Lemma all_eq_range_step_sym : forall a b, all_eq_range_step a b = all_eq_range_step b a.
Proof.
  induction a as [|x r IH]; intros [|y q]; try reflexivity. cbn. rewrite eq_range_step_sym, IH. reflexivity.
Qed.
Lemma layout_eqb_refl l : layout_eqb l l = true.
Proof. induction l as [|[s n] r IH]; cbn; [reflexivity|]. rewrite !Z.eqb_refl, IH. reflexivity. Qed.
Lemma layout_eqb_sym : forall a b, layout_eqb a b = layout_eqb b a.
Proof.
  induction a as [|[s n] r IH]; intros [|[s' n'] q]; try reflexivity. cbn.
  rewrite (Z.eqb_sym s s'), (Z.eqb_sym n n'), IH. reflexivity.
Qed.

Lemma diff_points_self s : diff_points true s s = ([], []).
Proof. unfold diff_points. rewrite Z.eqb_refl. cbn [negb]. apply diff_vals_self. Qed.

Lemma tsl_diff_self l : all_empty (fst (tsl_diff true l l)) && all_empty (snd (tsl_diff true l l)) = true.
Proof.
  unfold tsl_diff. rewrite Z.eqb_refl. cbn [negb].
  assert (H : map (fun ab => diff_points true (fst ab) (snd ab)) (combine l l) = map (fun _ => ([], [])) l).
  { induction l as [|s r IH]; [reflexivity|]. cbn [combine map fst snd]. rewrite diff_points_self, IH. reflexivity. }
  rewrite H. clear H. induction l as [|s r IH]; [reflexivity|].
  cbn [map split]. destruct (split (map (fun _ : series => (@nil point, @nil point)) r)) as [x y] eqn:E.
  cbn [fst snd all_empty forallb] in *. exact IH.
Qed.

(** C09: comparing a file with itself is clean *)
Theorem diff_core_self fsub h l : diff_core fsub true h l h l = (StOk, []).
Proof.
  unfold diff_core. rewrite layout_eqb_refl, all_eq_range_step_refl. cbn [negb andb].
  pose proof (tsl_diff_self l) as H. destruct (tsl_diff true l l) as [sd dd]. cbn [fst snd] in H.
  rewrite H. reflexivity.
Qed.

(** C09: the verdict of diff_core is never a panic and never "not exist" *)
Lemma diff_core_status fsub cr sh sl dh dl :
  fst (diff_core fsub cr sh sl dh dl) = StOk \/ fst (diff_core fsub cr sh sl dh dl) = StDiff \/
  fst (diff_core fsub cr sh sl dh dl) = StErr.
Proof.
  unfold diff_core. destruct (negb (layout_eqb _ _)); [tauto|]. destruct (cr && negb _); [tauto|].
  destruct (tsl_diff true sl dl). destruct (all_empty l && all_empty l0); cbn; tauto.
Qed.

Lemma diff_core_status' fsub cr sh sl dh dl :
  fst (diff_core fsub cr sh sl dh dl) = StOk \/ fst (diff_core fsub cr sh sl dh dl) = StDiff \/
  fst (diff_core fsub cr sh sl dh dl) = StErr.
Proof. apply diff_core_status. Qed.

(** * sum (C10) *)
Lemma nth_map2_vadd F d : forall acc vs j, (j < length acc)%nat -> (j < length vs)%nat ->
  nth j (map2_vadd F acc vs) d = vadd F (nth j acc d) (nth j vs d).
Proof.
  induction acc as [|a r IH]; intros vs j Ha Hv; [cbn in Ha; lia|].
  destruct vs as [|b q]; [cbn in Hv; lia|].
  destruct j as [|j]; [reflexivity|]. cbn [map2_vadd combine map nth] in *. apply IH; cbn in *; lia.
Qed.
Lemma length_map2_vadd F acc vs : length (map2_vadd F acc vs) = Nat.min (length acc) (length vs).
Proof. unfold map2_vadd. rewrite map_length, combine_length. reflexivity. Qed.

(** slot-wise: the j-th summed value is the left fold of [Value.Add] over the j-th values of the
    files in glob order, starting from the first file's value *)
Theorem sum_series_slotwise F d first rest j :
  Forall (fun s => length (s_vals s) = length (s_vals first)) rest -> (j < length (s_vals first))%nat ->
  nth j (s_vals (sum_series F first rest)) d =
  fold_left (vadd F) (map (fun s => nth j (s_vals s) d) rest) (nth j (s_vals first) d).
Proof.
  unfold sum_series. cbn [s_vals].
  generalize (s_vals first) as init. intros init Hall Hj.
  revert init Hall Hj. induction rest as [|s r IH]; intros init Hall Hj; [reflexivity|].
  inversion Hall as [|? ? Hs Hr]; subst. cbn [fold_left map].
  rewrite IH.
  - rewrite nth_map2_vadd by lia. reflexivity.
  - rewrite length_map2_vadd. rewrite Hs, Nat.min_id.
    eapply Forall_impl; [|exact Hr]. intros x Hx. cbn in Hx. exact Hx.
  - rewrite length_map2_vadd. lia.
Qed.

Theorem sum_series_window F first rest :
  s_from (sum_series F first rest) = s_from first /\ s_until (sum_series F first rest) = s_until first /\
  s_step (sum_series F first rest) = s_step first.
Proof. unfold sum_series. cbn. tauto. Qed.

(** a single file sums to itself *)
Theorem sum_series_single F s : sum_series F s [] = s.
Proof. unfold sum_series. destruct s. reflexivity. Qed.

(** NaN-skipping: a hole never changes the running sum, and the running sum starts at the first value present *)
Lemma vadd_nan_r F v u : is_nan u = true -> is_nan v = false -> vadd F v u = v.
Proof. intros Hu Hv. unfold vadd. rewrite Hv, Hu. reflexivity. Qed.
Lemma vadd_nan_l F v u : is_nan v = true -> vadd F v u = u.
Proof. intros Hv. unfold vadd. rewrite Hv. reflexivity. Qed.
Lemma vadd_both F v u : is_nan v = false -> is_nan u = false -> vadd F v u = f_add F v u.
Proof. intros Hv Hu. unfold vadd. rewrite Hv, Hu. reflexivity. Qed.

(** the slot sum is the float sum, in glob order, of the values that are present; NaN iff none is *)
Fixpoint present (vs : list Z) : list Z :=
  match vs with [] => [] | v :: r => if is_nan v then present r else v :: present r end.
Theorem fold_vadd_present F : forall vs init, is_nan init = false ->
  fold_left (vadd F) vs init = fold_left (f_add F) (present vs) init \/
  exists k, is_nan (fold_left (f_add F) (firstn k (present vs)) init) = true.
Proof.
  induction vs as [|v r IH]; intros init Hi; [left; reflexivity|].
  cbn [fold_left present]. destruct (is_nan v) eqn:Ev.
  - rewrite vadd_nan_r by assumption. apply IH. exact Hi.
  - rewrite vadd_both by assumption. cbn [fold_left].
    destruct (is_nan (f_add F init v)) eqn:En.
    + right. exists 1%nat. cbn. exact En.
    + destruct (IH (f_add F init v) En) as [H|[k Hk]]; [left; exact H|].
      right. exists (S k). cbn [firstn fold_left]. exact Hk.
Qed.
Lemma fold_vadd_all_nan F : forall vs init, is_nan init = true -> Forall (fun v => is_nan v = true) vs ->
  is_nan (fold_left (vadd F) vs init) = true.
Proof.
  induction vs as [|v r IH]; intros init Hi Hall; [exact Hi|].
  inversion Hall; subst. cbn [fold_left]. rewrite vadd_nan_l by assumption. apply IH; assumption.
Qed.

(** * view (C18) *)
Lemma points_from_length from step : forall vs i, length (points_from from step i vs) = length vs.
Proof. induction vs as [|v r IH]; intros i; cbn; [reflexivity|]. rewrite IH. reflexivity. Qed.
Lemma points_from_nth from step d : forall vs i k, (k < length vs)%nat ->
  nth k (points_from from step i vs) d =
  mkPoint (ts_add from (i32 ((i + Z.of_nat k) * step))) (nth k vs (p_val d)).
Proof.
  induction vs as [|v r IH]; intros i k Hk; [cbn in Hk; lia|].
  destruct k as [|k]; cbn [points_from nth].
  - rewrite Z.add_0_r. reflexivity.
  - rewrite IH by (cbn in Hk; lia). f_equal. f_equal. f_equal. lia.
Qed.

(** every fetched value appears in view, at its slot's time, in archive-then-time order *)
Theorem series_points_nth s d k : (k < length (s_vals s))%nat ->
  nth k (series_points s) d = mkPoint (ts_add (s_from s) (i32 (Z.of_nat k * s_step s))) (nth k (s_vals s) (p_val d)).
Proof. intros Hk. unfold series_points. rewrite points_from_nth by exact Hk. reflexivity. Qed.
Theorem series_points_length s : length (series_points s) = length (s_vals s).
Proof. apply points_from_length. Qed.

Lemma points_records_from_app i : forall pl ql,
  points_records_from i (pl ++ ql) = points_records_from i pl ++ points_records_from (i + Z.of_nat (length pl)) ql.
Proof.
  intros pl; revert i; induction pl as [|p r IH]; intros i ql; cbn [app points_records_from length].
  - rewrite Z.add_0_r. reflexivity.
  - rewrite IH, app_assoc. f_equal. f_equal. lia.
Qed.

(** a record of archive [a] in the output of view comes from a slot of that archive's series *)
Theorem points_records_in : forall pl i a t v,
  In (RPoint a t v) (points_records_from i pl) ->
  exists ps, nth_error pl (Z.to_nat (a - i)) = Some ps /\ i <= a /\ In (mkPoint t v) ps.
Proof.
  induction pl as [|p r IH]; intros i a t v H; [contradiction|].
  cbn [points_records_from] in H. apply in_app_or in H. destruct H as [H|H].
  - apply in_map_iff in H. destruct H as [q [E Hq]]. injection E as <- <- <-.
    exists p. rewrite Z.sub_diag. split; [reflexivity|]. split; [lia|]. destruct q; exact Hq.
  - destruct (IH _ _ _ _ H) as [ps [Hn [Hle Hin]]]. exists ps.
    replace (Z.to_nat (a - i)) with (S (Z.to_nat (a - (i + 1)))) by lia. cbn [nth_error].
    split; [exact Hn|]. split; [lia|exact Hin].
Qed.

(** view-raw: a slot is shown iff it is one of the N physical slots and lies in the requested range *)
Theorem filter_raw_in step from until ps p :
  In p (filter_raw step from until ps) <->
  In p ps /\ (from = 0 \/ from < p_time p) /\ p_time p <= (if until =? from then ts_add until step else until).
Proof.
  unfold filter_raw. rewrite filter_In. split; intros [Hin H]; (split; [exact Hin|]).
  - destruct (Z.eqb_spec from 0); cbn in H; [lia|]. destruct (Z.leb_spec (p_time p) from); cbn in H; [discriminate|]. lia.
  - destruct (Z.eqb_spec from 0); cbn; [lia|]. destruct (Z.leb_spec (p_time p) from); cbn; lia.
Qed.

(** * generate (C20) *)
Theorem generate_refuses_existing F m xff layout pl now : generate_cmd F true m xff layout pl now = (StErr, None).
Proof. reflexivity. Qed.

(** * copy / sum-copy building blocks (C08, C11, C05's CLI clause) *)

(** whatever goes wrong, an existing destination is left exactly as it was unless the command
    reports success: layout mismatch, unalike ranges, unreadable source, failed update — none of
    them writes (the only Sync is the last step of a successful run) *)
Theorem copy_core_failure_leaves_dest F src dh o until now :
  r_status (copy_core F src (Some dh) o until now) <> StOk ->
  r_dest (copy_core F src (Some dh) o until now) = Some dh.
Proof.
  unfold copy_core.
  destruct (create (co_method o) (co_xff o) (co_layout o)) as [fresh|]; [|reflexivity].
  destruct (opened (Some dh)) as [d|]; [|reflexivity].
  destruct src as [| | |sh sl]; destruct (fetch_ts_list (hd_arcs d) (co_archive o) (co_from o) until now) as [| |dl];
    try reflexivity.
  destruct (negb (layout_eqb _ _)); [reflexivity|].
  destruct (negb (all_eq_range_step sl dl)); [reflexivity|].
  destruct (tsl_diff (co_copy_nan o) sl dl) as [sdif ddif].
  destruct (all_empty sdif && all_empty ddif); [reflexivity|].
  destruct (update_dest_with_diff F d sl sdif 0 (co_from o) until now (co_copy_nan o)) as [d' [| |]]; try reflexivity.
  cbn. intros H. contradiction H. reflexivity.
Qed.

(** a missing destination is created and its header is synced at once, even when there is
    nothing to copy or the source cannot be read *)
Theorem copy_core_creates_missing_dest F src o until now fresh :
  create (co_method o) (co_xff o) (co_layout o) = Some fresh ->
  exists d, r_dest (copy_core F src None o until now) = Some d /\ hd_hdr_on_disk d = true.
Proof.
  intros Hc. unfold copy_core. rewrite Hc.
  destruct src as [| | |sh sl];
    destruct (fetch_ts_list (hd_arcs (sync fresh)) (co_archive o) (co_from o) until now) as [| |dl];
    try (eexists; split; reflexivity).
  destruct (negb (layout_eqb _ _)); [eexists; split; reflexivity|].
  destruct (negb (all_eq_range_step sl dl)); [eexists; split; reflexivity|].
  destruct (tsl_diff (co_copy_nan o) sl dl) as [sdif ddif].
  destruct (all_empty sdif && all_empty ddif); [eexists; split; reflexivity|].
  destruct (update_dest_with_diff F (sync fresh) sl sdif 0 (co_from o) until now (co_copy_nan o)) as [d' [| |]];
    eexists; split; reflexivity.
Qed.

(** nothing differs: success, no write, no report — so repeating a copy whose result already
    equals the source changes nothing *)
Theorem copy_core_nothing_to_do F sh sl dh d dl o until now fresh :
  create (co_method o) (co_xff o) (co_layout o) = Some fresh ->
  opened (Some dh) = Some d ->
  fetch_ts_list (hd_arcs d) (co_archive o) (co_from o) until now = TslOk dl ->
  layout_eqb (layout_of_arcs (hd_arcs sh)) (layout_of_arcs (hd_arcs d)) = true ->
  all_eq_range_step sl dl = true ->
  all_empty (fst (tsl_diff (co_copy_nan o) sl dl)) && all_empty (snd (tsl_diff (co_copy_nan o) sl dl)) = true ->
  copy_core F (RdOk sh sl) (Some dh) o until now = mkResult StOk (Some dh) [].
Proof.
  intros Hc Ho Hf Hl Hr He. unfold copy_core. rewrite Hc, Ho, Hf, Hl, Hr. cbn [negb].
  destruct (tsl_diff (co_copy_nan o) sl dl) as [sdif ddif]. cbn [fst snd] in He. rewrite He. reflexivity.
Qed.

(** a copy never reports a difference or "not exist" for anything but a missing source *)
Theorem copy_core_status F src dest o until now :
  r_status (copy_core F src dest o until now) <> StDiff /\
  (r_status (copy_core F src dest o until now) = StNotExist -> src = RdNotExist).
Proof.
  unfold copy_core.
  destruct (create (co_method o) (co_xff o) (co_layout o)) as [fresh|];
    [|destruct src; split; cbn; try discriminate; try reflexivity].
  destruct (match dest with Some _ => opened dest | None => Some (sync fresh) end) as [d|];
    [|destruct src; split; cbn; try discriminate; try reflexivity].
  destruct src as [| | |sh sl]; destruct (fetch_ts_list (hd_arcs d) (co_archive o) (co_from o) until now) as [| |dl];
    try (split; cbn; [discriminate|try discriminate; reflexivity]).
  destruct (negb (layout_eqb (layout_of_arcs (hd_arcs sh)) (layout_of_arcs (hd_arcs d)))); [split; cbn; discriminate|].
  destruct (negb (all_eq_range_step sl dl)); [split; cbn; discriminate|].
  destruct (tsl_diff (co_copy_nan o) sl dl) as [sdif ddif].
  destruct (all_empty sdif && all_empty ddif); [split; cbn; discriminate|].
  destruct (update_dest_with_diff F d sl sdif 0 (co_from o) until now (co_copy_nan o)) as [d' [| |]]; split; cbn; discriminate.
Qed.

(** * generate (C20) *)
Lemma update_many_nil F m xff : forall todo i arcs id now, update_many_loop F m xff todo i arcs [] id now = UOk arcs.
Proof.
  induction todo as [|r0 rest IH]; intros i arcs id now; [reflexivity|].
  cbn [update_many_loop]. destruct (negb (id =? ArchiveIDBest) && negb (id =? i)); [apply IH|].
  unfold extract_points. cbn [split_last_le]. apply IH.
Qed.
Lemma h_update_many_nil F h id now : h_update_many F h [] id now = (with_arcs h (hd_arcs h), OutOk).
Proof.
  unfold h_update_many, update_points_for_archive. cbn [sort_points fold_left].
  rewrite update_many_nil. reflexivity.
Qed.

(** without fill nothing is written: every slot of the new file is empty *)
Theorem generate_nofill_empty F m xff layout now h :
  create m xff layout = Some h ->
  exists h', generate_cmd F false m xff layout (map (fun _ => []) layout) now = (StOk, Some h') /\
             hd_disk h' = create_arcs layout /\ hd_hdr_on_disk h' = true.
Proof.
  intros Hc. unfold generate_cmd. rewrite Hc.
  assert (Harcs : hd_arcs h = create_arcs layout).
  { unfold create in Hc. destruct (new_header _ _ _); [injection Hc as <-; reflexivity|discriminate]. }
  assert (Hgen : forall (l : list (Z * Z)) h0 i, hd_arcs h0 = create_arcs layout ->
            exists h1, apply_lists F h0 (map (fun _ => []) l) i now = (h1, OutOk) /\ hd_arcs h1 = create_arcs layout).
  { induction l as [|x r IH]; intros h0 i H0; [exists h0; split; [reflexivity|exact H0]|].
    cbn [map apply_lists]. rewrite h_update_many_nil. apply IH. cbn. exact H0. }
  destruct (Hgen layout h 0 Harcs) as [h1 [E1 H1]]. rewrite E1.
  exists (sync h1). split; [reflexivity|]. split; [cbn; exact H1|reflexivity].
Qed.

(** the header of a generated file is the requested one *)
Theorem generate_header F m xff layout pl now h' :
  generate_cmd F false m xff layout pl now = (StOk, Some h') -> hd_method h' = m /\ hd_xff h' = xff.
Proof.
  unfold generate_cmd. destruct (create m xff layout) as [h|] eqn:Hc; [|discriminate].
  assert (Hm : hd_method h = m /\ hd_xff h = xff).
  { unfold create in Hc. destruct (new_header _ _ _); [injection Hc as <-; split; reflexivity|discriminate]. }
  assert (Hgen : forall l h0 i h1 o, apply_lists F h0 l i now = (h1, o) -> hd_method h1 = hd_method h0 /\ hd_xff h1 = hd_xff h0).
  { induction l as [|ps r IH]; intros h0 i h1 o E; [injection E as <- <-; tauto|].
    cbn [apply_lists] in E. unfold h_update_many in E.
    destruct (update_points_for_archive F (hd_method h0) (hd_xff h0) (hd_arcs h0) ps i now) as [| |a].
    - injection E as <- <-. tauto.
    - injection E as <- <-. tauto.
    - apply IH in E. cbn in E. exact E. }
  destruct (apply_lists F h pl 0 now) as [h1 [| |]] eqn:E; try discriminate.
  intros H. injection H as <-. apply Hgen in E. cbn. destruct E, Hm. split; congruence.
Qed.

(** * C09: the glob loop and the special verdicts *)
Definition is_diff (j : status * list record) : bool := match fst j with StDiff => true | _ => false end.

Theorem run_diffs_all_compared : forall jobs,
  Forall (fun j => fst j = StOk \/ fst j = StDiff) jobs ->
  fst (run_diffs jobs) = (if existsb is_diff jobs then StDiff else StOk) /\ snd (run_diffs jobs) = map snd jobs.
Proof.
  induction jobs as [|[st out] r IH]; intros H; [split; reflexivity|].
  inversion H as [|? ? Hst Hr]; subst. cbn [fst] in Hst. destruct (IH Hr) as [IH1 IH2].
  destruct Hst as [-> | ->]; cbn [run_diffs existsb is_diff fst snd map orb];
    destruct (run_diffs r) as [st' outs] eqn:E; cbn [fst snd] in *; subst; split; try reflexivity;
    destruct (existsb is_diff r); reflexivity.
Qed.

(** an error (not a difference) in one file stops the run and is the verdict *)
Theorem run_diffs_error_stops jobs1 st out jobs2 :
  Forall (fun j => fst j = StOk \/ fst j = StDiff) jobs1 -> st <> StOk -> st <> StDiff ->
  fst (run_diffs (jobs1 ++ (st, out) :: jobs2)) = st.
Proof.
  induction jobs1 as [|[s0 o0] r IH]; intros H Hn1 Hn2; cbn [app].
  - destruct st; cbn [run_diffs fst]; try reflexivity; contradiction.
  - inversion H as [|? ? Hst Hr]; subst. cbn [fst] in Hst. specialize (IH Hr Hn1 Hn2).
    destruct Hst as [-> | ->]; cbn [run_diffs]; destruct (run_diffs (r ++ (st, out) :: jobs2)) as [st' outs]; cbn [fst] in *; subst;
      destruct st; try contradiction; reflexivity.
Qed.

(** a file missing on either side is a reported difference, not a failure *)
Theorem diff_two_missing fsub cr h l :
  diff_two fsub cr RdNotExist (RdOk h l) = (StDiff, [RErrMissing 0]) /\
  diff_two fsub cr (RdOk h l) RdNotExist = (StDiff, [RErrMissing 1]) /\
  fst (diff_two fsub cr RdNotExist RdNotExist) = StDiff.
Proof. repeat split. Qed.

(** unequal layouts are an error *)
Theorem diff_core_layout_mismatch fsub cr sh sl dh dl :
  layout_eqb (layout_of_arcs (hd_arcs sh)) (layout_of_arcs (hd_arcs dh)) = false ->
  diff_core fsub cr sh sl dh dl = (StErr, []).
Proof. intros H. unfold diff_core. rewrite H. reflexivity. Qed.

(** what is printed for a listed slot: archive, instant, both values, dest - src (NaN if either is) *)
Theorem diff_records_of_archive fsub i sp dp rs rd :
  length sp = length dp ->
  diff_records_from fsub i (sp :: rs) (dp :: rd) =
  map (fun pq => RDiff i (p_time (fst pq)) (p_val (fst pq)) (p_val (snd pq)) (vdiff fsub (p_val (snd pq)) (p_val (fst pq)))) (combine sp dp)
  ++ diff_records_from fsub (i + 1) rs rd.
Proof. reflexivity. Qed.
Lemma vdiff_nan fsub v u : is_nan v = true \/ is_nan u = true -> vdiff fsub v u = NaN.
Proof. intros [H|H]; unfold vdiff; rewrite H; [reflexivity|rewrite orb_true_r; reflexivity]. Qed.

(** * C16: a report that cannot be written is never a success *)
Theorem textout_never_silent to st : to = ToBad \/ to = ToFull -> textout_status to st <> StOk.
Proof. intros [-> | ->]; destruct st; discriminate. Qed.
Theorem textout_keeps_failures to st : st <> StOk -> to <> ToBad -> textout_status to st = st.
Proof. intros Hs Hb. destruct to; try reflexivity; [contradiction|]. destruct st; try reflexivity. contradiction. Qed.
Theorem textout_transparent st : textout_status ToFile st = st /\ textout_status ToDiscard st = st.
Proof. split; reflexivity. Qed.
