From WT Require Import Base.Wrap Base.ListX Base.Bytes Model.Time Model.Ring Model.Codec.

(** * helpers on prefixes *)
Lemma zlen_firstn {A} (l : list A) k : 0 <= k <= zlen l -> zlen (firstn (Z.to_nat k) l) = k.
Proof. intros. unfold zlen in *. rewrite firstn_length. lia. Qed.
Lemma zlen_skipn {A} (l : list A) k : 0 <= k <= zlen l -> zlen (skipn (Z.to_nat k) l) = zlen l - k.
Proof. intros. unfold zlen in *. rewrite skipn_length. lia. Qed.
Lemma zlen_skipn_nat {A} (l : list A) (n : nat) : (n <= length l)%nat -> zlen (skipn n l) = zlen l - Z.of_nat n.
Proof. intros. unfold zlen. rewrite skipn_length. lia. Qed.

Lemma get32_firstn l k : (4 <= k)%nat -> get32 (firstn k l) = get32 l.
Proof.
  intros Hk. do 4 (destruct k as [|k]; [lia|]).
  destruct l as [|a [|b [|c [|d r]]]]; reflexivity.
Qed.
Lemma skipn_firstn_comm' {A} (l : list A) m n : skipn m (firstn (m + n) l) = firstn n (skipn m l).
Proof. revert l; induction m as [|m IH]; intros l; cbn; [reflexivity|]. destruct l; cbn; [destruct n; reflexivity|]. apply IH. Qed.
Lemma get32_skip_firstn l m k : (m + 4 <= k)%nat -> get32 (skipn m (firstn k l)) = get32 (skipn m l).
Proof.
  intros Hk. replace k with (m + (k - m))%nat by lia. rewrite skipn_firstn_comm'. apply get32_firstn. lia.
Qed.

(** * Scalars *)
Lemma dec_ts_enc t r : 0 <= t < 2^32 -> dec_ts (enc_ts t ++ r) = Ok t r.
Proof.
  intros. unfold dec_ts, enc_ts. rewrite zlen_app. pose proof (zlen_nonneg r).
  replace (zlen (be32 t)) with 4 by reflexivity. destruct (Z.ltb_spec (4 + zlen r) 4); [lia|].
  rewrite get32_be32 by assumption. reflexivity.
Qed.
Lemma i32_u32 d : - 2^31 <= d < 2^31 -> i32 (u32 d) = d.
Proof. unfold i32, u32. intros. lia. Qed.
Lemma dec_dur_enc d r : - 2^31 <= d < 2^31 -> dec_dur (enc_dur d ++ r) = Ok d r.
Proof.
  intros. unfold dec_dur, enc_dur. rewrite zlen_app. pose proof (zlen_nonneg r).
  replace (zlen (be32 (u32 d))) with 4 by reflexivity. destruct (Z.ltb_spec (4 + zlen r) 4); [lia|].
  rewrite get32_be32 by apply u32_range. rewrite i32_u32 by assumption. reflexivity.
Qed.
Lemma dec_val_enc v r : 0 <= v < 2^64 -> dec_val (enc_val v ++ r) = Ok v r.
Proof.
  intros. unfold dec_val, enc_val. rewrite zlen_app. pose proof (zlen_nonneg r).
  replace (zlen (be64 v)) with 8 by reflexivity. destruct (Z.ltb_spec (8 + zlen r) 8); [lia|].
  rewrite get64_be64 by assumption. reflexivity.
Qed.

Definition wf_point (p : point) : Prop := 0 <= p_time p < 2^32 /\ 0 <= p_val p < 2^64.

Lemma enc_point_length p : length (enc_point p) = 12%nat. Proof. reflexivity. Qed.
Lemma dec_point_enc p r : wf_point p -> dec_point (enc_point p ++ r) = Ok p r.
Proof.
  intros [Ht Hv]. unfold dec_point, enc_point, enc_ts, enc_val. rewrite <- app_assoc.
  rewrite !zlen_app. pose proof (zlen_nonneg r).
  replace (zlen (be32 (p_time p))) with 4 by reflexivity. replace (zlen (be64 (p_val p))) with 8 by reflexivity.
  destruct (Z.ltb_spec (4 + (8 + zlen r)) 12); [lia|].
  rewrite get32_be32 by assumption. rewrite skipn4_be32. rewrite get64_be64 by assumption.
  destruct p; reflexivity.
Qed.

(** * Sequences *)
Lemma dec_vals_enc vs r : Forall (fun v => 0 <= v < 2^64) vs ->
  dec_vals (length vs) (flat_map enc_val vs ++ r) = (vs, r).
Proof.
  induction 1 as [|v vs Hv Hvs IH]; cbn [length dec_vals flat_map]; [reflexivity|].
  change (enc_val v) with (be64 v). rewrite <- !app_assoc. rewrite skipn8_be64. rewrite IH. rewrite get64_be64 by assumption. reflexivity.
Qed.
Lemma dec_points_enc ps r : Forall wf_point ps ->
  dec_points (length ps) (flat_map enc_point ps ++ r) = (ps, r).
Proof.
  induction 1 as [|p ps [Ht Hv] Hps IH]; cbn [length dec_points flat_map]; [reflexivity|].
  change (enc_point p) with (be32 (p_time p) ++ be64 (p_val p)). rewrite <- !app_assoc.
  replace (skipn 12 (be32 (p_time p) ++ be64 (p_val p) ++ flat_map enc_point ps ++ r)) with (flat_map enc_point ps ++ r) by reflexivity.
  rewrite IH. rewrite get32_be32 by assumption. rewrite skipn4_be32. rewrite get64_be64 by assumption.
  destruct p; reflexivity.
Qed.
Lemma flat_map_enc_val_len vs : zlen (flat_map enc_val vs) = 8 * zlen vs.
Proof. induction vs as [|v r IH]; cbn [flat_map]; [reflexivity|]. rewrite zlen_app, IH, zlen_cons. unfold enc_val. replace (zlen (be64 v)) with 8 by reflexivity. lia. Qed.
Lemma flat_map_enc_point_len ps : zlen (flat_map enc_point ps) = 12 * zlen ps.
Proof. induction ps as [|p r IH]; cbn [flat_map]; [reflexivity|]. rewrite zlen_app, IH, zlen_cons. replace (zlen (enc_point p)) with 12 by reflexivity. lia. Qed.

(** * Points message *)
Theorem points_roundtrip ps r : Forall wf_point ps -> zlen ps <= MaxInt32 ->
  dec_points_msg (enc_points ps ++ r) = Ok ps r.
Proof.
  intros Hps Hlen. unfold dec_points_msg, enc_points. rewrite <- app_assoc.
  pose proof (zlen_nonneg ps). pose proof (zlen_nonneg r). unfold MaxInt32 in *.
  rewrite zlen_app. replace (zlen (be64 (zlen ps))) with 8 by reflexivity.
  pose proof (zlen_nonneg (flat_map enc_point ps ++ r)).
  destruct (Z.ltb_spec (8 + zlen (flat_map enc_point ps ++ r)) 8); [lia|].
  rewrite get64_be64 by lia. rewrite skipn8_be64.
  destruct (Z.gtb_spec (zlen ps) (2^31 - 1)); [lia|].
  rewrite zlen_app, flat_map_enc_point_len.
  destruct (Z.ltb_spec (12 * zlen ps + zlen r) (zlen ps * 12)); [lia|].
  unfold zlen at 1. rewrite Nat2Z.id. rewrite dec_points_enc by assumption. reflexivity.
Qed.

(** * TimeSeries *)
Definition wf_series (s : series) : Prop :=
  0 <= s_from s <= s_until s /\ s_until s < 2^32 /\ 0 < s_step s < 2^31 /\
  zlen (s_vals s) = (s_until s - s_from s) / s_step s /\ Forall (fun v => 0 <= v < 2^64) (s_vals s).

Theorem series_roundtrip s r : wf_series s -> dec_series (enc_series s ++ r) = Ok s r.
Proof.
  intros (Hf & Hu & Hs & Hl & Hv). unfold dec_series, enc_series, enc_ts, enc_dur.
  rewrite <- !app_assoc. pose proof (zlen_nonneg r). pose proof (zlen_nonneg (s_vals s)).
  set (tail := flat_map enc_val (s_vals s) ++ r).
  assert (Hlen : zlen (be32 (s_from s) ++ be32 (s_until s) ++ be32 (u32 (s_step s)) ++ tail) = 12 + zlen tail).
  { rewrite !zlen_app. replace (zlen (be32 (s_from s))) with 4 by reflexivity.
    replace (zlen (be32 (s_until s))) with 4 by reflexivity. replace (zlen (be32 (u32 (s_step s)))) with 4 by reflexivity. lia. }
  rewrite Hlen. pose proof (zlen_nonneg tail). destruct (Z.ltb_spec (12 + zlen tail) 12); [lia|].
  rewrite get32_be32 by lia.
  replace (skipn 4 (be32 (s_from s) ++ be32 (s_until s) ++ be32 (u32 (s_step s)) ++ tail))
    with (be32 (s_until s) ++ be32 (u32 (s_step s)) ++ tail) by reflexivity.
  rewrite get32_be32 by lia.
  replace (skipn 8 (be32 (s_from s) ++ be32 (s_until s) ++ be32 (u32 (s_step s)) ++ tail))
    with (be32 (u32 (s_step s)) ++ tail) by reflexivity.
  rewrite get32_be32 by apply u32_range. rewrite i32_u32 by lia.
  replace (skipn 12 (be32 (s_from s) ++ be32 (s_until s) ++ be32 (u32 (s_step s)) ++ tail)) with tail by reflexivity.
  destruct (Z.leb_spec (s_step s) 0); [lia|]. destruct (Z.ltb_spec (s_until s) (s_from s)); [lia|].
  rewrite quot_div_nonneg by lia. rewrite <- Hl.
  unfold tail. rewrite zlen_app, flat_map_enc_val_len.
  destruct (Z.ltb_spec (8 * zlen (s_vals s) + zlen r) (zlen (s_vals s) * 8)); [lia|].
  unfold zlen at 1. rewrite Nat2Z.id. rewrite dec_vals_enc by assumption. destruct s; reflexivity.
Qed.

(** truncated series: every proper prefix asks for a larger buffer, strictly larger than
    what it got and no larger than the whole message *)
Theorem series_truncated s k : wf_series s -> 0 <= k < zlen (enc_series s) ->
  exists n, dec_series (firstn (Z.to_nat k) (enc_series s)) = Want n /\ k < n <= zlen (enc_series s).
Proof.
  intros (Hf & Hu & Hs & Hl & Hv) Hk.
  assert (Htot : zlen (enc_series s) = 12 + 8 * zlen (s_vals s)).
  { unfold enc_series, enc_ts, enc_dur. rewrite !zlen_app, flat_map_enc_val_len.
    replace (zlen (be32 (s_from s))) with 4 by reflexivity. replace (zlen (be32 (s_until s))) with 4 by reflexivity.
    replace (zlen (be32 (u32 (s_step s)))) with 4 by reflexivity. lia. }
  pose proof (zlen_nonneg (s_vals s)).
  unfold dec_series. rewrite zlen_firstn by lia.
  destruct (Z.ltb_spec k 12) as [Hk12|Hk12]; [exists 12; split; [reflexivity|lia]|].
  set (full := enc_series s).
  rewrite get32_firstn by lia.
  rewrite (get32_skip_firstn full 4) by lia. rewrite (get32_skip_firstn full 8) by lia.
  assert (Hfr : get32 full = s_from s).
  { unfold full, enc_series, enc_ts. apply get32_be32. lia. }
  assert (Hun : get32 (skipn 4 full) = s_until s).
  { unfold full, enc_series, enc_ts. rewrite skipn4_be32. apply get32_be32. lia. }
  assert (Hst : i32 (get32 (skipn 8 full)) = s_step s).
  { unfold full, enc_series, enc_ts, enc_dur.
    replace (skipn 8 (be32 (s_from s) ++ be32 (s_until s) ++ be32 (u32 (s_step s)) ++ flat_map enc_val (s_vals s)))
      with (be32 (u32 (s_step s)) ++ flat_map enc_val (s_vals s)) by reflexivity.
    rewrite get32_be32 by apply u32_range. apply i32_u32. lia. }
  rewrite Hfr, Hun, Hst.
  destruct (Z.leb_spec (s_step s) 0); [lia|]. destruct (Z.ltb_spec (s_until s) (s_from s)); [lia|].
  rewrite quot_div_nonneg by lia. rewrite <- Hl.
  assert (Hrest : zlen (skipn 12 (firstn (Z.to_nat k) full)) = k - 12).
  { rewrite zlen_skipn_nat; [rewrite zlen_firstn by (fold full in Hk; lia); lia|].
    rewrite firstn_length. fold full in Hk. unfold zlen in Hk. lia. }
  rewrite Hrest.
  destruct (Z.ltb_spec (k - 12) (zlen (s_vals s) * 8)); [|lia].
  eexists; split; [reflexivity|]. subst full. lia.
Qed.
Print Assumptions series_roundtrip.
Print Assumptions series_truncated.

(** * Header *)
Definition wf_ainfo (a : ainfo) : Prop :=
  0 <= ai_off a < 2^32 /\ - 2^31 <= ai_step a < 2^31 /\ 0 <= ai_n a < 2^32.

Lemma enc_ainfo_len a : zlen (enc_ainfo a) = 12. Proof. reflexivity. Qed.
Lemma flat_map_enc_ainfo_len l : zlen (flat_map enc_ainfo l) = 12 * zlen l.
Proof. induction l as [|a r IH]; cbn [flat_map]; [reflexivity|]. rewrite zlen_app, IH, zlen_cons, enc_ainfo_len. lia. Qed.

Lemma dec_ainfos_enc l r : Forall wf_ainfo l -> dec_ainfos (length l) (flat_map enc_ainfo l ++ r) = (l, r).
Proof.
  induction 1 as [|a l (Ho & Hs & Hn) Hl IH]; cbn [length dec_ainfos flat_map]; [reflexivity|].
  change (enc_ainfo a) with (be32 (ai_off a) ++ be32 (u32 (ai_step a)) ++ be32 (ai_n a)).
  rewrite <- !app_assoc.
  replace (skipn 12 (be32 (ai_off a) ++ be32 (u32 (ai_step a)) ++ be32 (ai_n a) ++ flat_map enc_ainfo l ++ r))
    with (flat_map enc_ainfo l ++ r) by reflexivity.
  rewrite IH. rewrite get32_be32 by assumption. rewrite skipn4_be32.
  rewrite get32_be32 by apply u32_range.
  replace (skipn 8 (be32 (ai_off a) ++ be32 (u32 (ai_step a)) ++ be32 (ai_n a) ++ flat_map enc_ainfo l ++ r))
    with (be32 (ai_n a) ++ flat_map enc_ainfo l ++ r) by reflexivity.
  rewrite get32_be32 by assumption. rewrite i32_u32 by assumption. destruct a; reflexivity.
Qed.

Definition wf_header (h : header) : Prop :=
  valid_method (h_method h) = true /\ valid_xff (h_xff h) = true /\
  - 2^31 <= h_maxret h < 2^31 /\ h_count h = zlen (h_arcs h) /\ h_count h * 12 <= MaxInt32 /\
  Forall wf_ainfo (h_arcs h) /\ validate (h_arcs h) = true.

Lemma valid_method_range m : valid_method m = true -> 1 <= m <= 6.
Proof. unfold valid_method. lia. Qed.
Lemma valid_xff_range x : valid_xff x = true -> 0 <= x < 2^32.
Proof. unfold valid_xff. lia. Qed.

Lemma enc_header_len h : zlen (enc_header h) = 16 + 12 * zlen (h_arcs h).
Proof.
  unfold enc_header, enc_dur. rewrite !zlen_app, flat_map_enc_ainfo_len.
  replace (zlen (be32 (u32 (h_method h)))) with 4 by reflexivity. replace (zlen (be32 (u32 (h_maxret h)))) with 4 by reflexivity.
  replace (zlen (be32 (h_xff h))) with 4 by reflexivity. replace (zlen (be32 (h_count h))) with 4 by reflexivity. lia.
Qed.

Theorem header_roundtrip h r : wf_header h -> dec_header (enc_header h ++ r) = Ok h r.
Proof.
  intros (Hm & Hx & Hmr & Hc & Hcb & Hai & Hv).
  pose proof (valid_method_range _ Hm) as Hmrange. pose proof (valid_xff_range _ Hx) as Hxr.
  pose proof (zlen_nonneg (h_arcs h)). pose proof (zlen_nonneg r).
  unfold dec_header. rewrite zlen_app, enc_header_len.
  destruct (Z.ltb_spec (16 + 12 * zlen (h_arcs h) + zlen r) 16); [lia|].
  unfold enc_header, enc_dur. rewrite <- !app_assoc.
  set (tail := flat_map enc_ainfo (h_arcs h) ++ r).
  rewrite get32_be32 by apply u32_range. rewrite (u32_small (h_method h)) by lia.
  replace (skipn 4 (be32 (h_method h) ++ be32 (u32 (h_maxret h)) ++ be32 (h_xff h) ++ be32 (h_count h) ++ tail))
    with (be32 (u32 (h_maxret h)) ++ be32 (h_xff h) ++ be32 (h_count h) ++ tail) by reflexivity.
  rewrite get32_be32 by apply u32_range. rewrite i32_u32 by assumption.
  replace (skipn 8 (be32 (h_method h) ++ be32 (u32 (h_maxret h)) ++ be32 (h_xff h) ++ be32 (h_count h) ++ tail))
    with (be32 (h_xff h) ++ be32 (h_count h) ++ tail) by reflexivity.
  rewrite get32_be32 by assumption.
  replace (skipn 12 (be32 (h_method h) ++ be32 (u32 (h_maxret h)) ++ be32 (h_xff h) ++ be32 (h_count h) ++ tail))
    with (be32 (h_count h) ++ tail) by reflexivity.
  unfold MaxInt32 in *. rewrite get32_be32 by lia.
  replace (skipn 16 (be32 (h_method h) ++ be32 (u32 (h_maxret h)) ++ be32 (h_xff h) ++ be32 (h_count h) ++ tail))
    with tail by reflexivity.
  rewrite Hm, Hx. cbn [negb].
  destruct (Z.gtb_spec (h_count h * 12) (2^31 - 1)); [lia|].
  unfold tail. rewrite zlen_app, flat_map_enc_ainfo_len.
  destruct (Z.ltb_spec (12 * zlen (h_arcs h) + zlen r) (h_count h * 12)); [lia|].
  rewrite Hc. unfold zlen at 1. rewrite Nat2Z.id. rewrite dec_ainfos_enc by assumption.
  rewrite Hv. destruct h; cbn in *. subst. reflexivity.
Qed.
Print Assumptions header_roundtrip.
