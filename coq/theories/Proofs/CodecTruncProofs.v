(** C14: truncated encodings — every proper prefix asks for a larger buffer, naming a size
    larger than what was given and no larger than the complete message. *)
From WT Require Import Base.Wrap Base.ListX Base.Bytes Model.Time Model.Ring Model.Codec Proofs.CodecProofs.

Lemma ts_truncated t k : 0 <= k < 4 -> dec_ts (firstn (Z.to_nat k) (enc_ts t)) = Want 4.
Proof.
  intros Hk. unfold dec_ts. rewrite zlen_firstn by (replace (zlen (enc_ts t)) with 4 by reflexivity; lia).
  destruct (Z.ltb_spec k 4); [reflexivity|lia].
Qed.
Lemma dur_truncated d k : 0 <= k < 4 -> dec_dur (firstn (Z.to_nat k) (enc_dur d)) = Want 4.
Proof.
  intros Hk. unfold dec_dur. rewrite zlen_firstn by (replace (zlen (enc_dur d)) with 4 by reflexivity; lia).
  destruct (Z.ltb_spec k 4); [reflexivity|lia].
Qed.
Lemma val_truncated v k : 0 <= k < 8 -> dec_val (firstn (Z.to_nat k) (enc_val v)) = Want 8.
Proof.
  intros Hk. unfold dec_val. rewrite zlen_firstn by (replace (zlen (enc_val v)) with 8 by reflexivity; lia).
  destruct (Z.ltb_spec k 8); [reflexivity|lia].
Qed.
Lemma point_truncated p k : 0 <= k < 12 -> dec_point (firstn (Z.to_nat k) (enc_point p)) = Want 12.
Proof.
  intros Hk. unfold dec_point. rewrite zlen_firstn by (replace (zlen (enc_point p)) with 12 by reflexivity; lia).
  destruct (Z.ltb_spec k 12); [reflexivity|lia].
Qed.
Lemma ainfo_truncated a k : 0 <= k < 12 -> dec_ainfo (firstn (Z.to_nat k) (enc_ainfo a)) = Want 12.
Proof.
  intros Hk. unfold dec_ainfo. rewrite zlen_firstn by (replace (zlen (enc_ainfo a)) with 12 by reflexivity; lia).
  destruct (Z.ltb_spec k 12); [reflexivity|lia].
Qed.

Lemma enc_points_len ps : zlen (enc_points ps) = 8 + 12 * zlen ps.
Proof.
  unfold enc_points. rewrite zlen_app, flat_map_enc_point_len.
  replace (zlen (be64 (zlen ps))) with 8 by reflexivity. lia.
Qed.

Lemma get64_firstn l k : (8 <= k)%nat -> get64 (firstn k l) = get64 l.
Proof.
  intros. unfold get64. rewrite get32_firstn by lia.
  rewrite (get32_skip_firstn l 4) by lia. reflexivity.
Qed.

Theorem points_truncated ps k : Forall wf_point ps -> zlen ps <= MaxInt32 -> 0 <= k < zlen (enc_points ps) ->
  exists n, dec_points_msg (firstn (Z.to_nat k) (enc_points ps)) = Want n /\ k < n <= zlen (enc_points ps).
Proof.
  intros Hwf Hmax Hk. pose proof (enc_points_len ps) as Htot. pose proof (zlen_nonneg ps) as Hn.
  unfold dec_points_msg. rewrite zlen_firstn by lia.
  destruct (Z.ltb_spec k 8) as [Hk8|Hk8]; [exists 8; split; [reflexivity|lia]|].
  rewrite get64_firstn by lia.
  assert (Hc : get64 (enc_points ps) = zlen ps).
  { unfold enc_points. apply get64_be64. unfold MaxInt32 in *. lia. }
  rewrite Hc. destruct (Z.gtb_spec (zlen ps) MaxInt32); [lia|].
  assert (Hrest : zlen (skipn 8 (firstn (Z.to_nat k) (enc_points ps))) = k - 8).
  { rewrite zlen_skipn_nat; [rewrite zlen_firstn by lia; lia|].
    rewrite firstn_length. unfold zlen in *. lia. }
  rewrite Hrest.
  destruct (Z.ltb_spec (k - 8) (zlen ps * 12)); [|lia].
  eexists; split; [reflexivity|]. lia.
Qed.

Theorem header_truncated h k : wf_header h -> 0 <= k < zlen (enc_header h) ->
  exists n, dec_header (firstn (Z.to_nat k) (enc_header h)) = Want n /\ k < n <= zlen (enc_header h).
Proof.
  intros (Hm & Hx & Hmr & Hc & Hcb & Hai & Hv) Hk.
  pose proof (valid_method_range _ Hm) as Hmrange. pose proof (valid_xff_range _ Hx) as Hxr.
  pose proof (zlen_nonneg (h_arcs h)) as Hn. pose proof (enc_header_len h) as Htot.
  unfold dec_header. rewrite zlen_firstn by lia.
  destruct (Z.ltb_spec k 16) as [Hk16|Hk16]; [exists 16; split; [reflexivity|lia]|].
  set (full := enc_header h).
  rewrite get32_firstn by lia.
  rewrite (get32_skip_firstn full 4) by lia. rewrite (get32_skip_firstn full 8) by lia.
  rewrite (get32_skip_firstn full 12) by lia.
  set (tail := flat_map enc_ainfo (h_arcs h)).
  assert (Hfull : full = be32 (u32 (h_method h)) ++ be32 (u32 (h_maxret h)) ++ be32 (h_xff h) ++ be32 (h_count h) ++ tail).
  { unfold full, enc_header, enc_dur. rewrite <- ?app_assoc. reflexivity. }
  assert (H0 : get32 full = h_method h).
  { rewrite Hfull. rewrite get32_be32 by apply u32_range. apply u32_small. lia. }
  assert (H8 : get32 (skipn 8 full) = h_xff h).
  { rewrite Hfull.
    replace (skipn 8 (be32 (u32 (h_method h)) ++ be32 (u32 (h_maxret h)) ++ be32 (h_xff h) ++ be32 (h_count h) ++ tail))
      with (be32 (h_xff h) ++ be32 (h_count h) ++ tail) by reflexivity.
    apply get32_be32. assumption. }
  assert (H12 : get32 (skipn 12 full) = h_count h).
  { rewrite Hfull.
    replace (skipn 12 (be32 (u32 (h_method h)) ++ be32 (u32 (h_maxret h)) ++ be32 (h_xff h) ++ be32 (h_count h) ++ tail))
      with (be32 (h_count h) ++ tail) by reflexivity.
    apply get32_be32. unfold MaxInt32 in *. lia. }
  rewrite H0, H8, H12, Hm, Hx. cbn [negb].
  destruct (Z.gtb_spec (h_count h * 12) MaxInt32); [lia|].
  assert (Hrest : zlen (skipn 16 (firstn (Z.to_nat k) full)) = k - 16).
  { rewrite zlen_skipn_nat; [rewrite zlen_firstn by (fold full in Hk; lia); lia|].
    rewrite firstn_length. fold full in Hk. unfold zlen in *. lia. }
  rewrite Hrest.
  destruct (Z.ltb_spec (k - 16) (h_count h * 12)); [|lia].
  eexists; split; [reflexivity|]. subst full. lia.
Qed.

(** concatenated messages decode in sequence: the round trip returns the remainder untouched,
    so the second message is decoded from exactly where the first ended *)
Theorem series_then_series s1 s2 r : wf_series s1 -> wf_series s2 ->
  dec_series (enc_series s1 ++ enc_series s2 ++ r) = Ok s1 (enc_series s2 ++ r) /\
  dec_series (enc_series s2 ++ r) = Ok s2 r.
Proof. intros H1 H2. split; apply series_roundtrip; assumption. Qed.

Theorem header_then_series h s r : wf_header h -> wf_series s ->
  dec_header (enc_header h ++ enc_series s ++ r) = Ok h (enc_series s ++ r) /\
  dec_series (enc_series s ++ r) = Ok s r.
Proof. intros H1 H2. split; [apply header_roundtrip|apply series_roundtrip]; assumption. Qed.

(** the exact size a header prefix of at least 16 bytes asks for *)
Theorem header_truncated_want h k : wf_header h -> 16 <= k < zlen (enc_header h) ->
  dec_header (firstn (Z.to_nat k) (enc_header h)) = Want (16 + h_count h * 12).
Proof.
  intros (Hm & Hx & Hmr & Hc & Hcb & Hai & Hv) Hk.
  pose proof (valid_method_range _ Hm) as Hmrange. pose proof (valid_xff_range _ Hx) as Hxr.
  pose proof (zlen_nonneg (h_arcs h)) as Hn. pose proof (enc_header_len h) as Htot.
  unfold dec_header. rewrite zlen_firstn by lia.
  destruct (Z.ltb_spec k 16) as [Hk16|Hk16]; [lia|].
  set (full := enc_header h).
  rewrite get32_firstn by lia.
  rewrite (get32_skip_firstn full 4) by lia. rewrite (get32_skip_firstn full 8) by lia.
  rewrite (get32_skip_firstn full 12) by lia.
  set (tail := flat_map enc_ainfo (h_arcs h)).
  assert (Hfull : full = be32 (u32 (h_method h)) ++ be32 (u32 (h_maxret h)) ++ be32 (h_xff h) ++ be32 (h_count h) ++ tail).
  { unfold full, enc_header, enc_dur. rewrite <- ?app_assoc. reflexivity. }
  assert (H0 : get32 full = h_method h).
  { rewrite Hfull. rewrite get32_be32 by apply u32_range. apply u32_small. lia. }
  assert (H8 : get32 (skipn 8 full) = h_xff h).
  { rewrite Hfull.
    replace (skipn 8 (be32 (u32 (h_method h)) ++ be32 (u32 (h_maxret h)) ++ be32 (h_xff h) ++ be32 (h_count h) ++ tail))
      with (be32 (h_xff h) ++ be32 (h_count h) ++ tail) by reflexivity.
    apply get32_be32. assumption. }
  assert (H12 : get32 (skipn 12 full) = h_count h).
  { rewrite Hfull.
    replace (skipn 12 (be32 (u32 (h_method h)) ++ be32 (u32 (h_maxret h)) ++ be32 (h_xff h) ++ be32 (h_count h) ++ tail))
      with (be32 (h_count h) ++ tail) by reflexivity.
    apply get32_be32. unfold MaxInt32 in *. lia. }
  rewrite H0, H8, H12, Hm, Hx. cbn [negb].
  destruct (Z.gtb_spec (h_count h * 12) MaxInt32); [lia|].
  assert (Hrest : zlen (skipn 16 (firstn (Z.to_nat k) full)) = k - 16).
  { rewrite zlen_skipn_nat; [rewrite zlen_firstn by (fold full in Hk; lia); lia|].
    rewrite firstn_length. fold full in Hk. unfold zlen in *. lia. }
  rewrite Hrest.
  destruct (Z.ltb_spec (k - 16) (h_count h * 12)); [reflexivity|]. subst full. lia.
Qed.
