(** C08 / C11: what [updateDestWithDiff] achieves.  Archive by archive (finest first) the slots in
    which the source series differs from the destination's CURRENT content are written to the
    destination's archive; afterwards a fetch of that archive shows the source's value in every
    such slot, later (coarser) writes never touch it again, so at the end the difference between
    source list and destination is empty: a second copy has nothing to do and diff is clean. *)
From Coq Require Import Sorted.
From WT Require Import Base.Wrap Base.ListX Model.Time Model.Ring Model.Update Spec.LogSpec
  Model.Codec Model.Handle Model.Cmd
  Proofs.TimeProofs Proofs.RingProofs Proofs.FetchProofs Proofs.UpdateProofs Proofs.ChainProofs
  Proofs.ArchiveUpdateProofs Proofs.RoutingProofs Proofs.HistoryProofs Proofs.FrameProofs Proofs.BatchProofs
  Proofs.CmdProofs Proofs.GenerateProofs.

(** a slot is written iff the values differ and the source value is to be copied *)
Definition want (cn : bool) (a c : Z) : bool := negb (veq a c) && (cn || negb (is_nan a)).

Lemma find_time_lower es e : Forall (fun p => e < p_time p) es -> find_time es e = None.
Proof.
  intros H. apply find_time_none. intros Hin. apply in_map_iff in Hin. destruct Hin as (p & Hp & Hin).
  rewrite Forall_forall in H. specialize (H p Hin). lia.
Qed.

(** the points [DiffPoints] lists for two series over the same window *)
Lemma diff_vals_pts cn S f : 0 < S -> 0 <= f -> forall v1 v2 i, 0 <= i -> length v1 = length v2 ->
  f + (i + zlen v1) * S < TMAX ->
  let pts := fst (diff_vals cn S f f i v1 v2) in
  StronglySorted lt_time pts /\
  Forall (fun p => exists k, i <= k < i + zlen v1 /\ p_time p = f + k * S) pts /\
  forall j, 0 <= j < zlen v1 ->
    find_time pts (f + (i + j) * S) =
    if want cn (znth NaN v1 j) (znth NaN v2 j) then Some (znth NaN v1 j) else None.
Proof.
  intros HS Hf. induction v1 as [|a r1 IH]; intros v2 i Hi Hlen Hb; destruct v2 as [|b r2]; try discriminate.
  - cbn. split; [constructor|]. split; [constructor|]. intros j Hj. lia.
  - cbn [length] in Hlen. injection Hlen as Hlen. rewrite zlen_cons in *.
    pose proof (zlen_nonneg r1) as Hr0.
    assert (Ht : ts_add f (i32 (i * S)) = f + i * S).
    { unfold TMAX in *. rewrite i32_small by nia. apply ts_add_nowrap; unfold TMAX; nia. }
    cbn [diff_vals]. rewrite Ht, Z.eqb_refl. cbn [negb orb].
    specialize (IH r2 (i + 1) ltac:(lia) Hlen ltac:(nia)).
    destruct (diff_vals cn S f f (i + 1) r1 r2) as [p q] eqn:Ed. cbn [fst] in IH.
    destruct IH as (IHs & IHw & IHf).
    assert (Htail : Forall (fun x => f + i * S < p_time x) p).
    { eapply Forall_impl; [|exact IHw]. intros x (k & Hk & ->). nia. }
    fold (want cn a b).
    destruct (want cn a b) eqn:Ew; cbn [fst].
    + split; [|split].
      * constructor; [exact IHs|]. eapply Forall_impl; [|exact Htail]. intros x Hx. unfold lt_time. cbn [p_time]. exact Hx.
      * constructor; [exists i; cbn [p_time]; split; lia|].
        eapply Forall_impl; [|exact IHw]. intros x (k & Hk & Hx). exists k. split; [lia|exact Hx].
      * intros j Hj. cbn [find_time p_time p_val]. destruct (Z.eq_dec j 0) as [->|Hj0].
        -- replace (i + 0) with i by lia. rewrite Z.eqb_refl. unfold znth. cbn. rewrite Ew. reflexivity.
        -- destruct (Z.eqb_spec (f + i * S) (f + (i + j) * S)) as [E|_]; [nia|].
           specialize (IHf (j - 1) ltac:(lia)). replace (i + 1 + (j - 1)) with (i + j) in IHf by lia.
           rewrite IHf. unfold znth. replace (Z.to_nat j) with (Datatypes.S (Z.to_nat (j - 1))) by lia. reflexivity.
    + split; [exact IHs|]. split.
      * eapply Forall_impl; [|exact IHw]. intros x (k & Hk & Hx). exists k. split; [lia|exact Hx].
      * intros j Hj. destruct (Z.eq_dec j 0) as [->|Hj0].
        -- replace (i + 0) with i by lia. unfold znth. cbn. rewrite Ew. apply find_time_lower. exact Htail.
        -- specialize (IHf (j - 1) ltac:(lia)). replace (i + 1 + (j - 1)) with (i + j) in IHf by lia.
           rewrite IHf. unfold znth. replace (Z.to_nat j) with (Datatypes.S (Z.to_nat (j - 1))) by lia. reflexivity.
Qed.

Lemma find_time_some_in es e v : find_time es e = Some v -> exists p, In p es /\ p_time p = e /\ p_val p = v.
Proof.
  induction es as [|q r IH]; cbn [find_time]; [discriminate|].
  destruct (Z.eqb_spec (p_time q) e) as [E|_].
  - intros [= <-]. exists q. split; [left; reflexivity|auto].
  - intros H. destruct (IH H) as (p & Hp & Ht & Hv). exists p. split; [right; exact Hp|auto].
Qed.

Lemma find_time_rev es e : NoDup (map p_time es) -> find_time (rev es) e = find_time es e.
Proof.
  intros Hnd. destruct (find_time es e) as [v|] eqn:E.
  - destruct (find_time_some_in _ _ _ E) as (p & Hp & <- & <-).
    apply find_time_in; [rewrite map_rev; apply NoDup_rev; exact Hnd|apply in_rev in Hp; exact Hp].
  - apply find_time_none. intros Hin. rewrite map_rev in Hin. apply in_rev in Hin.
    apply in_map_iff in Hin. destruct Hin as (p & Hpt & Hp).
    rewrite <- Hpt in E. rewrite (find_time_in es p Hnd Hp) in E. discriminate.
Qed.

Lemma win_same a a' from until now : a_step a = a_step a' -> a_n a = a_n a' ->
  win_from a from now = win_from a' from now /\ win_until a from until now = win_until a' from until now.
Proof. intros Hs Hn. unfold win_until, win_from, period. rewrite Hs, Hn. auto. Qed.

(** * one archive: write the differing slots, read them back *)
Lemma copy_step F m xff arcs logs i src cur from until now cn :
  1 <= m <= 6 -> Rel_all arcs logs -> wf_layout_full (layout_of arcs) -> clock_ok (layout_of arcs) now ->
  0 <= i < zlen arcs -> 0 <= from < 2^32 -> 0 <= until < 2^32 -> from <= until ->
  fetch_from_archive arcs i from until now = FSeries cur ->
  eq_range_step src cur = true -> zlen (s_vals src) = zlen (s_vals cur) ->
  exists arcs' logs' new,
    update_points_for_archive F m xff arcs (fst (diff_points cn src cur)) i now = UOk arcs' /\
    Rel_all arcs' logs' /\ layout_of arcs' = layout_of arcs /\
    (forall j, 0 <= j < i -> get_log logs' j = get_log logs j) /\
    fetch_from_archive arcs' i from until now = FSeries new /\
    eq_range_step cur new = true /\ zlen (s_vals new) = zlen (s_vals cur) /\
    (forall k, 0 <= k < zlen (s_vals cur) ->
      znth NaN (s_vals new) k =
      if want cn (znth NaN (s_vals src) k) (znth NaN (s_vals cur) k) then znth NaN (s_vals src) k else znth NaN (s_vals cur) k) /\
    (forall k, 0 <= k < zlen (s_vals cur) ->
      live (get_log logs' i) (lay_period (layout_of arcs) i) (s_from cur + k * s_step cur) =
      if want cn (znth NaN (s_vals src) k) (znth NaN (s_vals cur) k) then znth NaN (s_vals src) k else znth NaN (s_vals cur) k).
Proof.
  intros Hm HRA Hwff Hclock Hi Hfrom Huntil Hfu Hfetch Heq Hlen.
  set (L := layout_of arcs) in *.
  destruct (fetch_rel arcs logs i from until now HRA Hwff Hclock Hi Hfrom Huntil Hfu) as (a & Ha & Has & Han & Hf).
  fold L in Has, Han.
  pose proof Hwff as (Hwf & Hper & Htop). pose proof Hclock as [Hc1 Hc2].
  assert (HiL : 0 <= i < llen L) by (unfold L; rewrite layout_wf_len; exact Hi).
  destruct (Hper i HiL) as [Hp1 Hp2]. destruct Hwf as (Hl & Hpos & Hval). destruct (Hpos i HiL) as [HS HN].
  assert (Hpa : period a = lay_period L i) by (unfold period, lay_period; rewrite Has, Han; reflexivity).
  destruct ((from >? now) || (until <? now - period a)) eqn:Ec; [rewrite Hf in Hfetch; discriminate|].
  destruct Hf as (vs & Hfe & Hvl & Hv). rewrite Hfe in Hfetch. injection Hfetch as <-.
  cbn [s_vals s_from s_until s_step] in *.
  set (f := win_from a from now) in *. set (u := win_until a from until now) in *.
  pose proof Has as Has0.
  set (S := a_step a) in *.
  assert (Hwa : wf_arc a).
  { destruct (Forall2_nth_error _ _ _ _ _ HRA Ha) as (log & _ & HRel). apply (Rel_wf _ _ HRel). }
  assert (HSS : 0 < S) by (rewrite Has; exact HS).
  assert (Hstep_le : S <= period a) by (unfold period; change (a_step a) with S; rewrite Han; nia).
  assert (Hppos : 0 < period a) by lia.
  destruct (window_facts a from until now Hwa ltac:(lia) ltac:(unfold TMAX in *; lia) ltac:(lia) ltac:(lia) Hfu)
    as ((Hf0 & Hfa) & (Hu0 & Hua) & Hfu' & Hcnt & Hub).
  fold f in Hf0, Hfa, Hfu', Hcnt. fold u in Hu0, Hua, Hfu', Hcnt, Hub. fold S in Hfa, Hua, Hcnt, Hub.
  set (n := (u - f) / S) in *.
  assert (Hun : u = f + n * S).
  { assert (Hd : (u - f) mod S = 0) by (rewrite Zminus_mod, Hua, Hfa; reflexivity).
    pose proof (Z.div_mod (u - f) S ltac:(lia)) as Hdm. unfold n. lia. }
  assert (Hn1 : 1 <= n) by nia.
  (* the source series has the same window *)
  unfold eq_range_step in Heq. cbn [s_from s_until s_step] in Heq.
  rewrite !andb_true_iff, !Z.eqb_eq in Heq. destruct Heq as [[Hsf Hsu] Hss].
  assert (Hdp : fst (diff_points cn src (mkSeries f u S vs)) = fst (diff_vals cn S f f 0 (s_vals src) vs)).
  { unfold diff_points. cbn [s_vals s_from s_step]. rewrite Hlen, Z.eqb_refl. cbn [negb]. rewrite Hss, Hsf. reflexivity. }
  rewrite Hdp.
  assert (Hlen' : length (s_vals src) = length vs) by (unfold zlen in Hlen; lia).
  destruct (diff_vals_pts cn S f HSS ltac:(lia) (s_vals src) vs 0 ltac:(lia) Hlen' ltac:(rewrite Hlen, Hvl; lia))
    as (Hsorted & Hwin & Hfind).
  set (pts := fst (diff_vals cn S f f 0 (s_vals src) vs)) in *.
  assert (Hfgt : now - period a < f).
  { unfold f, win_from. fold S. set (fr := Z.max from (now - period a)).
    pose proof (Z.mod_pos_bound fr S HSS). lia. }
  assert (Hret : Forall (in_retention L i now) pts).
  { eapply Forall_impl; [|exact Hwin]. intros p (k & Hk & Hp). unfold in_retention.
    rewrite <- Hpa, <- Has. rewrite Hp. rewrite Hlen, Hvl in Hk. split.
    - rewrite Z_mod_plus_full. exact Hfa.
    - assert (Hk0 : 0 <= k * S) by (apply Z.mul_nonneg_nonneg; lia).
      assert (Hk1 : k * S <= (n - 1) * S) by (apply Z.mul_le_mono_nonneg_r; lia).
      lia. }
  destruct (batch_write_explicit F m xff arcs logs i pts now Hm HRA Hwff Hclock Hi Hsorted Hret)
    as (arcs' & logs' & Hup & HRA' & Hlay' & Hll & Hlog & Hfr).
  destruct (fetch_rel arcs' logs' i from until now HRA' ltac:(rewrite Hlay'; exact Hwff) ltac:(rewrite Hlay'; exact Hclock)
              ltac:(rewrite <- layout_wf_len, Hlay', layout_wf_len; exact Hi) Hfrom Huntil Hfu) as (a' & Ha' & Has' & Han' & Hf').
  rewrite Hlay' in Has', Han'. fold L in Has', Han'.
  assert (Hss' : a_step a = a_step a') by (unfold S in Has0; congruence).
  destruct (win_same a a' from until now Hss' ltac:(congruence)) as [Hw1 Hw2].
  assert (Hpa' : period a' = period a) by (unfold period; congruence).
  rewrite Hpa', Ec in Hf'. destruct Hf' as (vs' & Hfe' & Hvl' & Hv').
  rewrite <- Hw1, <- Hw2 in Hfe', Hvl'. rewrite <- Hw1 in Hv'. fold f in Hfe', Hvl', Hv'. fold u in Hfe', Hvl'.
  replace (a_step a') with S in * by (unfold S; exact Hss').
  exists arcs', logs', (mkSeries f u S vs'). cbn [s_vals s_from s_until s_step].
  split; [exact Hup|]. split; [exact HRA'|]. split; [exact Hlay'|]. split; [exact Hfr|]. split; [exact Hfe'|].
  split; [unfold eq_range_step; cbn [s_from s_until s_step]; rewrite !Z.eqb_refl; reflexivity|].
  split; [rewrite Hvl', Hvl; reflexivity|].
  assert (Hlive : forall k, 0 <= k < zlen vs ->
            live (get_log logs' i) (lay_period L i) (f + k * S) =
            if want cn (znth NaN (s_vals src) k) (znth NaN vs k) then znth NaN (s_vals src) k else znth NaN vs k).
  { intros k Hk. rewrite Hlog. unfold live.
    unfold lay_period. rewrite <- Has, <- Han.
    rewrite (live_prepend_window (rev pts) (get_log logs i) f S n (a_n a)); try lia.
    - rewrite find_time_rev by (apply sorted_lt_nodup; apply lt_time_map; exact Hsorted).
      replace (f + k * S) with (f + (0 + k) * S) by ring.
      rewrite Hfind by (rewrite Hlen; exact Hk).
      destruct (want cn (znth NaN (s_vals src) k) (znth NaN vs k)); [reflexivity|].
      rewrite Hv by exact Hk. unfold live. rewrite Hpa. unfold lay_period. rewrite <- Has, <- Han.
      replace (f + (0 + k) * S) with (f + k * S) by ring. reflexivity.
    - apply Forall_rev. eapply Forall_impl; [|exact Hwin]. intros p (j & Hj & Hp). exists j. rewrite Hlen, Hvl in Hj. split; [lia|exact Hp].
    - exists k. rewrite Hvl in Hk. split; [lia|reflexivity]. }
  split; [|exact Hlive].
  intros k Hk. rewrite Hv' by (rewrite Hvl'; fold n; rewrite Hvl in Hk; exact Hk).
  rewrite Hpa. apply Hlive. exact Hk.
Qed.

(** * a fetch is determined by the archive's log *)
Lemma fetch_log_determined arcs1 logs1 arcs2 logs2 j from until now :
  Rel_all arcs1 logs1 -> Rel_all arcs2 logs2 -> layout_of arcs1 = layout_of arcs2 ->
  wf_layout_full (layout_of arcs1) -> clock_ok (layout_of arcs1) now ->
  0 <= j < zlen arcs1 -> 0 <= from < 2^32 -> 0 <= until < 2^32 -> from <= until ->
  get_log logs1 j = get_log logs2 j ->
  fetch_from_archive arcs1 j from until now = fetch_from_archive arcs2 j from until now.
Proof.
  intros HR1 HR2 Hlay Hwff Hclock Hj Hfrom Huntil Hfu Hlog.
  assert (Hj2 : 0 <= j < zlen arcs2) by (rewrite <- layout_wf_len, <- Hlay, layout_wf_len; exact Hj).
  destruct (fetch_rel arcs1 logs1 j from until now HR1 Hwff Hclock Hj Hfrom Huntil Hfu) as (a1 & Ha1 & Hs1 & Hn1 & Hf1).
  destruct (fetch_rel arcs2 logs2 j from until now HR2 ltac:(rewrite <- Hlay; exact Hwff) ltac:(rewrite <- Hlay; exact Hclock) Hj2 Hfrom Huntil Hfu)
    as (a2 & Ha2 & Hs2 & Hn2 & Hf2).
  rewrite <- Hlay in Hs2, Hn2.
  destruct (win_same a1 a2 from until now ltac:(congruence) ltac:(congruence)) as [Hw1 Hw2].
  assert (Hp : period a2 = period a1) by (unfold period; congruence).
  rewrite Hp in Hf2.
  destruct ((from >? now) || (until <? now - period a1)); [congruence|].
  destruct Hf1 as (vs1 & Hfe1 & Hl1 & Hv1). destruct Hf2 as (vs2 & Hfe2 & Hl2 & Hv2).
  rewrite Hfe1, Hfe2. rewrite <- Hw1, <- Hw2 in *. replace (a_step a2) with (a_step a1) in * by congruence.
  f_equal. f_equal. apply (nth_ext _ _ NaN NaN).
  - unfold zlen in *. lia.
  - intros k Hk. specialize (Hv1 (Z.of_nat k) ltac:(unfold zlen; lia)). specialize (Hv2 (Z.of_nat k) ltac:(unfold zlen in *; lia)).
    unfold znth in Hv1, Hv2. rewrite Nat2Z.id in Hv1, Hv2. rewrite Hv1, Hv2, Hlog. reflexivity.
Qed.

(** * the series list a command reads: element [i] *)
Definition sel (aid i : Z) : bool := (aid =? -1) || (aid =? i).
Definition step_at (arcs : list arc) (i : Z) : Z := match nth_error arcs (Z.to_nat i) with Some a => a_step a | None => 0 end.
Definition elem (arcs : list arc) (aid i from until now : Z) : series :=
  if sel aid i then match fetch_from_archive arcs i from until now with FSeries s => s | _ => empty_series (step_at arcs i) end
  else empty_series (step_at arcs i).

Lemma fetch_all_elems arcs logs from until now :
  Rel_all arcs logs -> wf_layout_full (layout_of arcs) -> clock_ok (layout_of arcs) now ->
  0 <= from < 2^32 -> 0 <= until < 2^32 -> from <= until ->
  forall todo i, 0 <= i -> todo = skipn (Z.to_nat i) arcs ->
  exists l, fetch_all arcs todo i from until now = TslOk l /\ zlen l = zlen todo /\
    forall q, 0 <= q < zlen todo -> znth (empty_series 0) l q = elem arcs (-1) (i + q) from until now.
Proof.
  intros HRA Hwff Hclock Hfrom Huntil Hfu. induction todo as [|a rest IH]; intros i Hi Htodo; cbn [fetch_all].
  - exists []. split; [reflexivity|]. split; [reflexivity|]. intros q Hq. cbn in Hq. lia.
  - symmetry in Htodo. destruct (skipn_nth_cons _ _ _ _ Htodo) as [Hnth Hrest].
    assert (Hiz : 0 <= i < zlen arcs).
    { assert (Z.to_nat i < length arcs)%nat by (apply nth_error_Some; congruence). unfold zlen. lia. }
    destruct (fetch_rel arcs logs i from until now HRA Hwff Hclock Hiz Hfrom Huntil Hfu) as (a' & Ha' & _ & _ & Hf).
    assert (a' = a) by congruence. subst a'.
    destruct (IH (i + 1) ltac:(lia) ltac:(rewrite <- Hrest; f_equal; lia)) as (l & Hl & Hlen & Hq).
    assert (Helem : forall s, znth (empty_series 0) (s :: l) 0 = s) by reflexivity.
    assert (Hshift : forall s q, 1 <= q -> znth (empty_series 0) (s :: l) q = znth (empty_series 0) l (q - 1)).
    { intros s q Hq1. unfold znth. replace (Z.to_nat q) with (S (Z.to_nat (q - 1))) by lia. reflexivity. }
    assert (Hstep : step_at arcs i = a_step a) by (unfold step_at; rewrite Hnth; reflexivity).
    destruct ((from >? now) || (until <? now - period a)).
    + rewrite Hf, Hl. exists (empty_series (a_step a) :: l). split; [reflexivity|]. split; [rewrite !zlen_cons; lia|].
      intros q Hq0. rewrite zlen_cons in Hq0. destruct (Z.eq_dec q 0) as [->|Hne].
      * rewrite Helem. unfold elem, sel. cbn [Z.eqb orb]. replace (i + 0) with i by lia. rewrite Hf, Hstep. reflexivity.
      * rewrite Hshift by lia. rewrite Hq by lia. f_equal. lia.
    + destruct Hf as (vs & Hfe & _). rewrite Hfe, Hl. eexists (_ :: l). split; [reflexivity|]. split; [rewrite !zlen_cons; lia|].
      intros q Hq0. rewrite zlen_cons in Hq0. destruct (Z.eq_dec q 0) as [->|Hne].
      * rewrite Helem. unfold elem, sel. cbn [Z.eqb orb]. replace (i + 0) with i by lia. rewrite Hfe. reflexivity.
      * rewrite Hshift by lia. rewrite Hq by lia. f_equal. lia.
Qed.

Lemma place_series_elems s aid : forall arcs0 i, 0 <= i ->
  zlen (place_series arcs0 i aid s) = zlen arcs0 /\
  forall q, 0 <= q < zlen arcs0 ->
    znth (empty_series 0) (place_series arcs0 i aid s) q =
    match s with
    | Some x => if i + q =? aid then x else empty_series (a_step (znth (mkArc 0 0 []) arcs0 q))
    | None => empty_series (a_step (znth (mkArc 0 0 []) arcs0 q))
    end.
Proof.
  induction arcs0 as [|a r IH]; intros i Hi; cbn [place_series].
  - split; [reflexivity|]. intros q Hq. cbn in Hq. lia.
  - destruct (IH (i + 1) ltac:(lia)) as [Hl Hq]. split; [rewrite !zlen_cons; lia|].
    intros q Hq0. rewrite zlen_cons in Hq0. destruct (Z.eq_dec q 0) as [->|Hne].
    + replace (i + 0) with i by lia. unfold znth. cbn. destruct s; reflexivity.
    + unfold znth in *. replace (Z.to_nat q) with (S (Z.to_nat (q - 1))) by lia. cbn [nth].
      rewrite Hq by lia. replace (i + 1 + (q - 1)) with (i + q) by lia. reflexivity.
Qed.

(** * the loop of [updateDestWithDiff] *)
Definition lay_arc (L : lay) (j : Z) : arc := mkArc (lay_step L j) (lay_n L j) [].
Definition is_empty_vals (s : series) : bool := match s_vals s with [] => true | _ => false end.

(** a non-empty source series for archive [j]: it spans the window a fetch of archive [j] has *)
Definition src_ok (L : lay) (j from until now : Z) (src : series) : Prop :=
  (from >? now) || (until <? now - lay_period L j) = false /\
  s_from src = win_from (lay_arc L j) from now /\ s_until src = win_until (lay_arc L j) from until now /\
  s_step src = lay_step L j /\ zlen (s_vals src) = (s_until src - s_from src) / s_step src.

(** after the copy, no slot of the window is one the copy would still write *)
Definition Good (cn : bool) (L : lay) (j : Z) (src : series) (log : list point) : Prop :=
  forall k, 0 <= k < zlen (s_vals src) ->
    want cn (znth NaN (s_vals src) k) (live log (lay_period L j) (s_from src + k * lay_step L j)) = false.

Lemma want_after cn a c : want cn a (if want cn a c then a else c) = false.
Proof. destruct (want cn a c) eqn:E; [|exact E]. unfold want. rewrite veq_refl. reflexivity. Qed.

Lemma znth_cons_0 {A} (d x : A) l : znth d (x :: l) 0 = x. Proof. reflexivity. Qed.
Lemma znth_cons_S {A} (d x : A) l q : 1 <= q -> znth d (x :: l) q = znth d l (q - 1).
Proof. intros. unfold znth. replace (Z.to_nat q) with (S (Z.to_nat (q - 1))) by lia. reflexivity. Qed.

Lemma udwd_spec F L from until now cn :
  wf_layout_full L -> clock_ok L now -> 0 <= from < 2^32 -> 0 <= until < 2^32 -> from <= until ->
  forall todo dif i d logs,
  1 <= hd_method d <= 6 -> Rel_all (hd_arcs d) logs -> layout_of (hd_arcs d) = L ->
  0 <= i -> i + zlen todo = llen L -> length dif = length todo ->
  (forall q, 0 <= q < zlen todo ->
     let src := znth (empty_series 0) todo q in
     (s_vals src = [] /\ znth [] dif q = []) \/ (s_vals src <> [] /\ src_ok L (i + q) from until now src)) ->
  (i = 0 -> forall src rs, todo = src :: rs -> s_vals src <> [] ->
     exists cur, fetch_from_archive (hd_arcs d) i from until now = FSeries cur /\
                 znth [] dif 0 = fst (diff_points cn src cur)) ->
  exists arcs' logs',
    update_dest_with_diff F d todo dif i from until now cn = (with_arcs d arcs', OutOk) /\
    Rel_all arcs' logs' /\ layout_of arcs' = L /\
    (forall j, 0 <= j < i -> get_log logs' j = get_log logs j) /\
    forall q, 0 <= q < zlen todo -> s_vals (znth (empty_series 0) todo q) <> [] ->
      Good cn L (i + q) (znth (empty_series 0) todo q) (get_log logs' (i + q)).
Proof.
  intros Hwff Hclock Hfrom Huntil Hfu.
  induction todo as [|src rs IH]; intros dif i d logs Hm HRA Hlay Hi Hlen Hdl Hcases H0.
  - destruct dif; [|discriminate]. cbn [update_dest_with_diff].
    exists (hd_arcs d), logs. rewrite with_arcs_self. repeat split; auto. intros q Hq. cbn in Hq. lia.
  - destruct dif as [|pts0 rd]; [discriminate|]. cbn [length] in Hdl. injection Hdl as Hdl.
    rewrite zlen_cons in *. pose proof (zlen_nonneg rs) as Hrs0.
    assert (Hiz : 0 <= i < zlen (hd_arcs d)) by (rewrite <- layout_wf_len, Hlay; lia).
    cbn [update_dest_with_diff].
    pose proof (Hcases 0 ltac:(lia)) as Hc0. cbv zeta in Hc0. rewrite znth_cons_0 in Hc0. rewrite znth_cons_0 in Hc0.
    replace (i + 0) with i in Hc0 by lia.
    (* the remaining archives, whatever happens here *)
    assert (Hcases' : forall q, 0 <= q < zlen rs ->
              let s := znth (empty_series 0) rs q in
              (s_vals s = [] /\ znth [] rd q = []) \/ (s_vals s <> [] /\ src_ok L (i + 1 + q) from until now s)).
    { intros q Hq. specialize (Hcases (q + 1) ltac:(lia)). cbv zeta in Hcases.
      rewrite !znth_cons_S in Hcases by lia. replace (q + 1 - 1) with q in Hcases by lia.
      replace (i + (q + 1)) with (i + 1 + q) in Hcases by lia. exact Hcases. }
    assert (H0' : i + 1 = 0 -> forall s r, rs = s :: r -> s_vals s <> [] ->
              forall d1 : handle, exists cur, fetch_from_archive (hd_arcs d1) 0 from until now = FSeries cur /\
                          znth [] rd 0 = fst (diff_points cn s cur)) by (intros; lia).
    destruct Hc0 as [[Hempty Hp0] | [Hne Hok]].
    + (* nothing selected here: no refetch, the initial difference is empty, nothing is written *)
      rewrite Hempty. rewrite andb_false_r. rewrite Hp0.
      rewrite (h_update_many_nil F d i now). rewrite with_arcs_self.
      destruct (IH rd (i + 1) d logs Hm HRA Hlay ltac:(lia) ltac:(lia) Hdl Hcases' ltac:(intros; lia))
        as (arcs' & logs' & Hres & HRA' & Hlay' & Hfr & Hgood).
      exists arcs', logs'. split; [exact Hres|]. split; [exact HRA'|]. split; [exact Hlay'|]. split.
      * intros j Hj. apply Hfr. lia.
      * intros q Hq Hqne. destruct (Z.eq_dec q 0) as [->|Hq0].
        -- rewrite znth_cons_0 in Hqne. contradiction.
        -- rewrite znth_cons_S in * by lia. replace (i + q) with (i + 1 + (q - 1)) by lia. apply Hgood; [lia|exact Hqne].
    + (* the selected archive: the current content is fetched (again) and the difference written *)
      destruct Hok as (Hcond & Hsf & Hsu & Hss & Hsl).
      rewrite <- Hlay in Hwff, Hclock.
      destruct (fetch_rel (hd_arcs d) logs i from until now HRA Hwff Hclock Hiz Hfrom Huntil Hfu) as (a & Ha & Has & Han & Hf).
      rewrite Hlay in Has, Han.
      assert (Hpa : period a = lay_period L i) by (unfold period, lay_period; rewrite Has, Han; reflexivity).
      rewrite Hpa, Hcond in Hf. destruct Hf as (vs & Hfe & Hvl & Hv).
      destruct (win_same a (lay_arc L i) from until now ltac:(cbn; exact Has) ltac:(cbn; exact Han)) as [Hw1 Hw2].
      set (cur := mkSeries (win_from a from now) (win_until a from until now) (a_step a) vs) in *.
      assert (Heq : eq_range_step src cur = true).
      { unfold eq_range_step, cur. cbn [s_from s_until s_step]. rewrite Hsf, Hsu, Hss, Hw1, Hw2, Has, !Z.eqb_refl. reflexivity. }
      assert (Hlens : zlen (s_vals src) = zlen (s_vals cur)).
      { unfold cur. cbn [s_vals]. rewrite Hvl, Hsl, Hsf, Hsu, Hss, Hw1, Hw2, Has. reflexivity. }
      assert (Hnb : (match s_vals src with [] => true | _ => false end) = false) by (destruct (s_vals src); [contradiction|reflexivity]).
      rewrite Hnb.
      destruct (Z.ltb_spec 0 i) as [Hpos|Hzero]; cbn [andb negb].
      * rewrite Hfe. cbv beta iota zeta. fold cur. rewrite Heq.
        destruct (copy_step F (hd_method d) (hd_xff d) (hd_arcs d) logs i src cur from until now cn Hm HRA Hwff Hclock Hiz Hfrom Huntil Hfu Hfe Heq Hlens)
          as (arcs1 & logs1 & new & Hup & HRA1 & Hlay1 & Hfr1 & _ & _ & _ & _ & Hlive).
        unfold h_update_many. rewrite Hup.
        rewrite Hlay in Hlay1, Hwff, Hclock, Hlive.
        destruct (IH rd (i + 1) (with_arcs d arcs1) logs1 Hm HRA1 Hlay1 ltac:(lia) ltac:(lia) Hdl Hcases' ltac:(intros; lia))
          as (arcs' & logs' & Hres & HRA' & Hlay' & Hfr & Hgood).
        exists arcs', logs'. split; [exact Hres|]. split; [exact HRA'|]. split; [exact Hlay'|]. split.
        -- intros j Hj. rewrite Hfr by lia. apply Hfr1. lia.
        -- intros q Hq Hqne. destruct (Z.eq_dec q 0) as [->|Hq0].
           ++ rewrite znth_cons_0. replace (i + 0) with i by lia. rewrite Hfr by lia.
              unfold Good. intros k Hk. rewrite Hsf, <- Hw1.
              specialize (Hlive k ltac:(rewrite <- Hlens; exact Hk)). unfold cur in Hlive. cbn [s_from s_step s_vals] in Hlive.
              rewrite Has in Hlive. rewrite Hlive. apply want_after.
           ++ rewrite znth_cons_S in * by lia. replace (i + q) with (i + 1 + (q - 1)) by lia. apply Hgood; [lia|exact Hqne].
      * cbv beta iota zeta. assert (Hi0 : i = 0) by lia.
        destruct (H0 Hi0 src rs eq_refl Hne) as (cur0 & Hc0 & Hp0). rewrite znth_cons_0 in Hp0.
        rewrite Hfe in Hc0. injection Hc0 as <-. rewrite Hp0. fold cur.
        destruct (copy_step F (hd_method d) (hd_xff d) (hd_arcs d) logs i src cur from until now cn Hm HRA Hwff Hclock Hiz Hfrom Huntil Hfu Hfe Heq Hlens)
          as (arcs1 & logs1 & new & Hup & HRA1 & Hlay1 & Hfr1 & _ & _ & _ & _ & Hlive).
        unfold h_update_many. rewrite Hup.
        rewrite Hlay in Hlay1, Hwff, Hclock, Hlive.
        destruct (IH rd (i + 1) (with_arcs d arcs1) logs1 Hm HRA1 Hlay1 ltac:(lia) ltac:(lia) Hdl Hcases' ltac:(intros; lia))
          as (arcs' & logs' & Hres & HRA' & Hlay' & Hfr & Hgood).
        exists arcs', logs'. split; [exact Hres|]. split; [exact HRA'|]. split; [exact Hlay'|]. split.
        -- intros j Hj. rewrite Hfr by lia. apply Hfr1. lia.
        -- intros q Hq Hqne. destruct (Z.eq_dec q 0) as [->|Hq0].
           ++ rewrite znth_cons_0. replace (i + 0) with i by lia. rewrite Hfr by lia.
              unfold Good. intros k Hk. rewrite Hsf, <- Hw1.
              specialize (Hlive k ltac:(rewrite <- Hlens; exact Hk)). unfold cur in Hlive. cbn [s_from s_step s_vals] in Hlive.
              rewrite Has in Hlive. rewrite Hlive. apply want_after.
           ++ rewrite znth_cons_S in * by lia. replace (i + q) with (i + 1 + (q - 1)) by lia. apply Hgood; [lia|exact Hqne].
Qed.

(** * the list level *)
Definition series_wf (s : series) : Prop := zlen (s_vals s) = (s_until s - s_from s) / s_step s.

Lemma step_at_nth arcs q : 0 <= q < zlen arcs -> step_at arcs q = a_step (znth (mkArc 0 0 []) arcs q).
Proof.
  intros Hq. unfold step_at, znth. destruct (nth_error arcs (Z.to_nat q)) as [a|] eqn:E.
  - rewrite (nth_error_nth _ _ _ E). reflexivity.
  - apply nth_error_None in E. unfold zlen in Hq. lia.
Qed.

Lemma fetch_ts_list_elems arcs logs aid from until now :
  Rel_all arcs logs -> wf_layout_full (layout_of arcs) -> clock_ok (layout_of arcs) now ->
  0 <= from < 2^32 -> 0 <= until < 2^32 -> from <= until ->
  aid = -1 \/ 0 <= aid < zlen arcs ->
  exists l, fetch_ts_list arcs aid from until now = TslOk l /\ zlen l = zlen arcs /\
    forall q, 0 <= q < zlen arcs -> znth (empty_series 0) l q = elem arcs aid q from until now.
Proof.
  intros HRA Hwff Hclock Hfrom Huntil Hfu [->|Haid]; unfold fetch_ts_list, ArchiveIDAll.
  - cbn [Z.eqb].
    destruct (fetch_all_elems arcs logs from until now HRA Hwff Hclock Hfrom Huntil Hfu arcs 0 ltac:(lia) eq_refl) as (l & Hl & Hlen & Hq).
    exists l. split; [exact Hl|]. split; [exact Hlen|]. intros q Hq0. rewrite Hq by exact Hq0. f_equal.
  - destruct (Z.eqb_spec aid (-1)) as [|_]; [lia|].
    destruct (Z.leb_spec 0 aid) as [_|]; [|lia]. destruct (Z.ltb_spec aid (zlen arcs)) as [_|]; [|lia]. cbn [andb].
    destruct (fetch_rel arcs logs aid from until now HRA Hwff Hclock Haid Hfrom Huntil Hfu) as (a & Ha & _ & _ & Hf).
    assert (Hsel : forall q, sel aid q = (aid =? q)).
    { intros q. unfold sel. destruct (Z.eqb_spec aid (-1)); [lia|reflexivity]. }
    destruct ((from >? now) || (until <? now - period a)).
    + rewrite Hf. destruct (place_series_elems None aid arcs 0 ltac:(lia)) as [Hl Hq].
      eexists. split; [reflexivity|]. split; [exact Hl|]. intros q Hq0. rewrite Hq by exact Hq0.
      unfold elem. rewrite Hsel, step_at_nth by exact Hq0.
      destruct (Z.eqb_spec aid q) as [<-|_]; [rewrite Hf|]; reflexivity.
    + destruct Hf as (vs & Hfe & _). rewrite Hfe.
      destruct (place_series_elems (Some (mkSeries (win_from a from now) (win_until a from until now) (a_step a) vs)) aid arcs 0 ltac:(lia)) as [Hl Hq].
      eexists. split; [reflexivity|]. split; [exact Hl|]. intros q Hq0. rewrite Hq by exact Hq0.
      unfold elem. rewrite Hsel, step_at_nth by exact Hq0. replace (0 + q) with q by lia.
      rewrite (Z.eqb_sym q aid). destruct (Z.eqb_spec aid q) as [<-|_]; [rewrite Hfe|]; reflexivity.
Qed.

(** the shape of an element depends on the layout only; and it is well formed *)
Lemma elem_shape arcs logs aid q from until now :
  Rel_all arcs logs -> wf_layout_full (layout_of arcs) -> clock_ok (layout_of arcs) now ->
  0 <= from < 2^32 -> 0 <= until < 2^32 -> from <= until -> 0 <= q < zlen arcs ->
  let L := layout_of arcs in let e := elem arcs aid q from until now in
  series_wf e /\
  ((sel aid q = true /\ (from >? now) || (until <? now - lay_period L q) = false /\
    s_from e = win_from (lay_arc L q) from now /\ s_until e = win_until (lay_arc L q) from until now /\
    s_step e = lay_step L q /\ 1 <= zlen (s_vals e) /\
    fetch_from_archive arcs q from until now = FSeries e /\
    forall k, 0 <= k < zlen (s_vals e) -> znth NaN (s_vals e) k = live (get_log logs q) (lay_period L q) (s_from e + k * lay_step L q))
   \/ (e = empty_series (lay_step L q) /\ (sel aid q = false \/ (from >? now) || (until <? now - lay_period L q) = true))).
Proof.
  intros HRA Hwff Hclock Hfrom Huntil Hfu Hq L e.
  destruct (fetch_rel arcs logs q from until now HRA Hwff Hclock Hq Hfrom Huntil Hfu) as (a & Ha & Has & Han & Hf).
  fold L in Has, Han, Hwff, Hclock.
  assert (Hst : step_at arcs q = lay_step L q) by (unfold step_at; rewrite Ha; exact Has).
  assert (Hpa : period a = lay_period L q) by (unfold period, lay_period; rewrite Has, Han; reflexivity).
  assert (Hwfe : series_wf (empty_series (lay_step L q))) by (unfold series_wf, empty_series; cbn [s_vals s_from s_until s_step]; rewrite Z.sub_diag, Zdiv_0_l; reflexivity).
  unfold e, elem. rewrite Hst. destruct (sel aid q) eqn:Es; [|split; [exact Hwfe|right; auto]].
  rewrite Hpa in Hf. destruct ((from >? now) || (until <? now - lay_period L q)) eqn:Ec.
  - rewrite Hf. split; [exact Hwfe|right; auto].
  - destruct Hf as (vs & Hfe & Hvl & Hv). rewrite Hfe.
    destruct (win_same a (lay_arc L q) from until now ltac:(cbn; exact Has) ltac:(cbn; exact Han)) as [Hw1 Hw2].
    pose proof Hwff as (Hwf & Hper & Htop). pose proof Hclock as [Hc1 Hc2].
    assert (HqL : 0 <= q < llen L) by (unfold L; rewrite layout_wf_len; exact Hq).
    destruct (Hper q HqL) as [Hp1 Hp2]. destruct Hwf as (Hl & Hpos & Hval). destruct (Hpos q HqL) as [HS HN].
    assert (Hwa : wf_arc a).
    { destruct (Forall2_nth_error _ _ _ _ _ HRA Ha) as (log & _ & HRel). apply (Rel_wf _ _ HRel). }
    assert (Hstep_le : a_step a <= period a) by (unfold period; rewrite Has, Han; nia).
    destruct (window_facts a from until now Hwa ltac:(lia) ltac:(unfold TMAX in *; lia) ltac:(lia) ltac:(lia) Hfu)
      as ((Hf0 & Hfa) & (Hu0 & Hua) & Hfu' & Hcnt & Hub).
    split; [unfold series_wf; cbn [s_vals s_from s_until s_step]; exact Hvl|]. left.
    cbn [s_vals s_from s_until s_step]. rewrite <- Has.
    repeat split; auto.
    + rewrite Hvl. set (f := win_from a from now) in *. set (u := win_until a from until now) in *.
      assert (Hd : (u - f) mod a_step a = 0) by (rewrite Zminus_mod, Hua, Hfa; reflexivity).
      pose proof (Z.div_mod (u - f) (a_step a) ltac:(lia)) as Hdm.
      assert (0 < (u - f) / a_step a); [|lia]. apply Z.div_str_pos. split; [lia|].
      destruct (Z_lt_le_dec (u - f) (a_step a)) as [Hlt|]; [|lia].
      rewrite Z.mod_small in Hd by lia. lia.
Qed.

Lemma all_eq_range_step_spec : forall tl ul, all_eq_range_step tl ul = true ->
  length tl = length ul /\
  forall q, 0 <= q < zlen tl -> eq_range_step (znth (empty_series 0) tl q) (znth (empty_series 0) ul q) = true.
Proof.
  induction tl as [|a r IH]; intros [|b u] H; cbn [all_eq_range_step] in H; try discriminate.
  - split; [reflexivity|]. intros q Hq. cbn in Hq. lia.
  - apply andb_true_iff in H. destruct H as [H1 H2]. destruct (IH u H2) as [Hl Hq]. split; [cbn; lia|].
    intros q Hq0. rewrite zlen_cons in Hq0. destruct (Z.eq_dec q 0) as [->|Hne]; [exact H1|].
    rewrite !znth_cons_S by lia. apply Hq. lia.
Qed.
Lemma all_eq_range_step_intro : forall tl ul, length tl = length ul ->
  (forall q, 0 <= q < zlen tl -> eq_range_step (znth (empty_series 0) tl q) (znth (empty_series 0) ul q) = true) ->
  all_eq_range_step tl ul = true.
Proof.
  induction tl as [|a r IH]; intros [|b u] Hl H; cbn [all_eq_range_step]; try discriminate; [reflexivity|].
  apply andb_true_iff. split.
  - apply (H 0). rewrite zlen_cons. pose proof (zlen_nonneg r). lia.
  - apply IH; [cbn in Hl; lia|]. intros q Hq. specialize (H (q + 1) ltac:(rewrite zlen_cons; lia)).
    rewrite !znth_cons_S in H by lia. replace (q + 1 - 1) with q in H by lia. exact H.
Qed.

Lemma split_map_fst {A B C} (f : A -> B * C) l : fst (split (map f l)) = map (fun x => fst (f x)) l.
Proof. induction l as [|x r IH]; [reflexivity|]. cbn [map split]. destruct (f x) as [b c]. destruct (split (map f r)). cbn in *. rewrite IH. reflexivity. Qed.
Lemma split_map_snd {A B C} (f : A -> B * C) l : snd (split (map f l)) = map (fun x => snd (f x)) l.
Proof. induction l as [|x r IH]; [reflexivity|]. cbn [map split]. destruct (f x) as [b c]. destruct (split (map f r)). cbn in *. rewrite IH. reflexivity. Qed.

Lemma tsl_diff_elems cn : forall tl ul, length tl = length ul ->
  length (fst (tsl_diff cn tl ul)) = length tl /\ length (snd (tsl_diff cn tl ul)) = length tl /\
  forall q, 0 <= q < zlen tl ->
    znth [] (fst (tsl_diff cn tl ul)) q = fst (diff_points cn (znth (empty_series 0) tl q) (znth (empty_series 0) ul q)) /\
    znth [] (snd (tsl_diff cn tl ul)) q = snd (diff_points cn (znth (empty_series 0) tl q) (znth (empty_series 0) ul q)).
Proof.
  intros tl ul Hl. unfold tsl_diff.
  assert (Hz : zlen tl =? zlen ul = true) by (unfold zlen; rewrite Hl; apply Z.eqb_refl). rewrite Hz. cbn [negb].
  rewrite split_map_fst, split_map_snd. rewrite !map_length, combine_length, <- Hl, Nat.min_id.
  split; [reflexivity|]. split; [reflexivity|].
  revert ul Hl Hz. induction tl as [|a r IH]; intros [|b u] Hl Hz q Hq; try discriminate.
  - cbn in Hq. lia.
  - rewrite zlen_cons in Hq. cbn [combine map]. destruct (Z.eq_dec q 0) as [->|Hne].
    + rewrite !znth_cons_0. cbn [fst snd]. auto.
    + rewrite !znth_cons_S by lia. apply IH; [cbn in Hl; lia| |lia].
      unfold zlen. cbn in Hl. injection Hl as ->. apply Z.eqb_refl.
Qed.

Lemma all_empty_intro {A} (l : list (list A)) : (forall q, 0 <= q < zlen l -> znth [] l q = []) -> all_empty l = true.
Proof.
  induction l as [|x r IH]; intros H; [reflexivity|]. unfold all_empty. cbn [forallb].
  pose proof (zlen_nonneg r). apply andb_true_iff. split.
  - specialize (H 0 ltac:(rewrite zlen_cons; lia)). rewrite znth_cons_0 in H. rewrite H. reflexivity.
  - apply IH. intros q Hq. specialize (H (q + 1) ltac:(rewrite zlen_cons; lia)). rewrite znth_cons_S in H by lia.
    replace (q + 1 - 1) with q in H by lia. exact H.
Qed.

Lemma diff_points_empty_src cn src e : s_vals src = [] -> fst (diff_points cn src e) = [].
Proof.
  intros H. unfold diff_points, series_points. rewrite H.
  destruct (negb (zlen [] =? zlen (s_vals e))); reflexivity.
Qed.
Lemma diff_points_both_empty cn src e : s_vals src = [] -> s_vals e = [] -> diff_points cn src e = ([], []).
Proof. intros H1 H2. unfold diff_points. rewrite H1, H2. reflexivity. Qed.

Lemma slots_from_in : forall v1 v2 i s, In s (slots_from i v1 v2) ->
  exists k, 0 <= k < zlen v1 /\ k < zlen v2 /\ s = (i + k, (znth NaN v1 k, znth NaN v2 k)).
Proof.
  induction v1 as [|a r IH]; intros [|b u] i s H; cbn [slots_from In] in H; try contradiction.
  rewrite !zlen_cons. pose proof (zlen_nonneg r). pose proof (zlen_nonneg u).
  destruct H as [<-|H].
  - exists 0. rewrite !znth_cons_0. replace (i + 0) with i by lia. repeat split; lia.
  - destruct (IH u (i + 1) s H) as (k & Hk1 & Hk2 & ->). exists (k + 1).
    rewrite !znth_cons_S by lia. replace (k + 1 - 1) with k by lia. replace (i + (k + 1)) with (i + 1 + k) by lia.
    repeat split; lia.
Qed.

(** no slot the copy would write => the difference is empty on both sides *)
Lemma diff_points_good cn src e :
  s_from src = s_from e -> s_step src = s_step e -> zlen (s_vals src) = zlen (s_vals e) ->
  (forall k, 0 <= k < zlen (s_vals src) -> want cn (znth NaN (s_vals src) k) (znth NaN (s_vals e) k) = false) ->
  diff_points cn src e = ([], []).
Proof.
  intros Hf Hs Hl Hw. unfold diff_points. rewrite Hl, Z.eqb_refl. cbn [negb]. rewrite Hf.
  assert (H1 : fst (diff_vals cn (s_step src) (s_from e) (s_from e) 0 (s_vals src) (s_vals e)) = []).
  { apply diff_vals_empty_iff. intros s Hin. destruct (slots_from_in _ _ _ _ Hin) as (k & Hk1 & Hk2 & ->).
    unfold differs. rewrite Z.eqb_refl. cbn [negb orb]. apply Hw. exact Hk1. }
  pose proof (diff_vals_lengths cn (s_step src) (s_from e) (s_from e) (s_vals src) (s_vals e) 0) as Hlen.
  destruct (diff_vals cn (s_step src) (s_from e) (s_from e) 0 (s_vals src) (s_vals e)) as [p q]. cbn [fst snd] in *.
  subst p. destruct q; [reflexivity|discriminate].
Qed.

(** * C08 / C11: after [updateDestWithDiff] the difference is empty *)
Theorem copy_equalizes F d logs sl dl aid from until now cn :
  let L := layout_of (hd_arcs d) in
  1 <= hd_method d <= 6 -> Rel_all (hd_arcs d) logs -> wf_layout_full L -> clock_ok L now ->
  0 <= from < 2^32 -> 0 <= until < 2^32 -> from <= until ->
  aid = -1 \/ 0 <= aid < zlen (hd_arcs d) ->
  fetch_ts_list (hd_arcs d) aid from until now = TslOk dl ->
  all_eq_range_step sl dl = true -> Forall series_wf sl ->
  exists arcs' logs' dl',
    update_dest_with_diff F d sl (fst (tsl_diff cn sl dl)) 0 from until now cn = (with_arcs d arcs', OutOk) /\
    Rel_all arcs' logs' /\ layout_of arcs' = L /\
    fetch_ts_list arcs' aid from until now = TslOk dl' /\
    all_eq_range_step sl dl' = true /\
    all_empty (fst (tsl_diff cn sl dl')) = true /\ all_empty (snd (tsl_diff cn sl dl')) = true.
Proof.
  intros L Hm HRA Hwff Hclock Hfrom Huntil Hfu Haid Hdl Heqr Hswf.
  destruct (fetch_ts_list_elems (hd_arcs d) logs aid from until now HRA Hwff Hclock Hfrom Huntil Hfu Haid) as (dl0 & Hdl0 & Hdlen & Hdq).
  rewrite Hdl in Hdl0. injection Hdl0 as <-.
  destruct (all_eq_range_step_spec sl dl Heqr) as [Hsl Hsq].
  assert (Hslen : zlen sl = zlen (hd_arcs d)) by (unfold zlen in *; lia).
  assert (HkL : zlen (hd_arcs d) = llen L) by (unfold L; rewrite layout_wf_len; reflexivity).
  destruct (tsl_diff_elems cn sl dl Hsl) as (Hdf1 & Hdf2 & Hdfq).
  rewrite Forall_forall in Hswf.
  assert (Hwfq : forall q, 0 <= q < zlen sl -> series_wf (znth (empty_series 0) sl q)).
  { intros q Hq. apply Hswf. apply nth_In. unfold zlen in Hq. lia. }
  (* classification of every source series against the destination's element *)
  assert (Hclass : forall q, 0 <= q < zlen sl ->
            let src := znth (empty_series 0) sl q in
            (s_vals src = [] /\ znth [] (fst (tsl_diff cn sl dl)) q = []) \/
            (s_vals src <> [] /\ src_ok L (0 + q) from until now src /\
             fetch_from_archive (hd_arcs d) q from until now = FSeries (znth (empty_series 0) dl q))).
  { intros q Hq src. destruct (s_vals src) eqn:Ev.
    - left. split; [reflexivity|]. rewrite (proj1 (Hdfq q Hq)). apply diff_points_empty_src. exact Ev.
    - right. split; [discriminate|].
      specialize (Hsq q Hq). fold src in Hsq. rewrite (Hdq q ltac:(lia)) in Hsq |- *.
      destruct (elem_shape (hd_arcs d) logs aid q from until now HRA Hwff Hclock Hfrom Huntil Hfu ltac:(lia)) as [Hwe Hcase].
      fold L in Hcase. set (e := elem (hd_arcs d) aid q from until now) in *.
      unfold eq_range_step in Hsq. rewrite !andb_true_iff, !Z.eqb_eq in Hsq. destruct Hsq as [[Hf1 Hu1] Hs1].
      pose proof (Hwfq q Hq) as Hws. fold src in Hws. unfold series_wf in Hws. rewrite Ev in Hws.
      destruct Hcase as [(Hsel & Hc & Hef & Heu & Hes & Hel & Hfe & _) | (Hee & _)].
      + split; [|exact Hfe]. unfold src_ok. replace (0 + q) with q by lia. rewrite Hf1, Hu1, Hs1, Ev.
        repeat split; try assumption. rewrite Hws, Hf1, Hu1, Hs1. reflexivity.
      + exfalso. rewrite Hf1, Hu1, Hs1, Hee in Hws. cbn [empty_series s_from s_until s_step] in Hws.
        rewrite Z.sub_diag, Zdiv_0_l in Hws. rewrite zlen_cons in Hws. pose proof (zlen_nonneg l). lia. }
  destruct (udwd_spec F L from until now cn Hwff Hclock Hfrom Huntil Hfu sl (fst (tsl_diff cn sl dl)) 0 d logs Hm HRA eq_refl
              ltac:(lia) ltac:(lia) Hdf1) as (arcs' & logs' & Hres & HRA' & Hlay' & _ & Hgood).
  { intros q Hq. destruct (Hclass q Hq) as [H|[H1 [H2 _]]]; [left; exact H|right; split; assumption]. }
  { intros _ src rs Hsl0 Hne. pose proof (zlen_nonneg rs) as Hr0.
    destruct (Hclass 0 ltac:(rewrite Hsl0, zlen_cons; lia)) as [[He _]|(_ & _ & Hfe)].
    - rewrite Hsl0, znth_cons_0 in He. contradiction.
    - exists (znth (empty_series 0) dl 0). split; [exact Hfe|].
      rewrite (proj1 (Hdfq 0 ltac:(rewrite Hsl0, zlen_cons; lia))). rewrite Hsl0, znth_cons_0. reflexivity. }
  assert (Hzl' : zlen arcs' = zlen (hd_arcs d)) by (rewrite <- !layout_wf_len, Hlay'; reflexivity).
  destruct (fetch_ts_list_elems arcs' logs' aid from until now HRA' ltac:(rewrite Hlay'; exact Hwff) ltac:(rewrite Hlay'; exact Hclock)
              Hfrom Huntil Hfu ltac:(rewrite Hzl'; exact Haid)) as (dl' & Hdl' & Hdlen' & Hdq').
  exists arcs', logs', dl'. split; [exact Hres|]. split; [exact HRA'|]. split; [exact Hlay'|]. split; [exact Hdl'|].
  assert (Hsl' : length sl = length dl') by (unfold zlen in *; lia).
  (* element by element *)
  assert (Helem : forall q, 0 <= q < zlen sl ->
            eq_range_step (znth (empty_series 0) sl q) (znth (empty_series 0) dl' q) = true /\
            diff_points cn (znth (empty_series 0) sl q) (znth (empty_series 0) dl' q) = ([], [])).
  { intros q Hq. rewrite (Hdq' q ltac:(lia)).
    destruct (elem_shape arcs' logs' aid q from until now HRA' ltac:(rewrite Hlay'; exact Hwff) ltac:(rewrite Hlay'; exact Hclock)
                Hfrom Huntil Hfu ltac:(lia)) as [Hwe' Hcase']. rewrite Hlay' in Hcase'.
    destruct (elem_shape (hd_arcs d) logs aid q from until now HRA Hwff Hclock Hfrom Huntil Hfu ltac:(lia)) as [Hwe Hcase].
    fold L in Hcase.
    set (e' := elem arcs' aid q from until now) in *. set (e := elem (hd_arcs d) aid q from until now) in *.
    pose proof (Hsq q Hq) as Hsqq. rewrite (Hdq q ltac:(lia)) in Hsqq. fold e in Hsqq.
    set (src := znth (empty_series 0) sl q) in *.
    unfold eq_range_step in Hsqq. rewrite !andb_true_iff, !Z.eqb_eq in Hsqq. destruct Hsqq as [[Hf1 Hu1] Hs1].
    pose proof (Hwfq q Hq) as Hws. fold src in Hws. unfold series_wf in Hws, Hwe, Hwe'.
    destruct Hcase' as [(Hsel' & Hc' & Hef' & Heu' & Hes' & Hel' & Hfe' & Hev') | (Hee' & Hwhy')];
      destruct Hcase as [(Hsel & Hc & Hef & Heu & Hes & Hel & Hfe & Hev) | (Hee & Hwhy)].
    - (* selected, window inside the retention: the copied archive *)
      assert (Hrange : eq_range_step src e' = true).
      { unfold eq_range_step. rewrite Hf1, Hu1, Hs1, Hef, Heu, Hes, Hef', Heu', Hes', !Z.eqb_refl. reflexivity. }
      split; [exact Hrange|].
      assert (Hne : s_vals src <> []).
      { intros E. rewrite E, Hf1, Hu1, Hs1, <- Hwe in Hws. cbn in Hws. lia. }
      specialize (Hgood q Hq Hne). replace (0 + q) with q in Hgood by lia. fold src in Hgood.
      apply diff_points_good.
      + rewrite Hf1, Hef, Hef'. reflexivity.
      + rewrite Hs1, Hes, Hes'. reflexivity.
      + rewrite Hws, Hwe', Hf1, Hu1, Hs1, Hef, Heu, Hes, Hef', Heu', Hes'. reflexivity.
      + intros k Hk. rewrite Hev'.
        * replace (s_from e') with (s_from src) by (rewrite Hf1, Hef, Hef'; reflexivity). apply Hgood. exact Hk.
        * rewrite Hwe', Hef', Heu', Hes'. rewrite Hws, Hf1, Hu1, Hs1, Hef, Heu, Hes in Hk. exact Hk.
    - exfalso. destruct Hwhy as [Hw|Hw]; congruence.
    - exfalso. destruct Hwhy' as [Hw|Hw]; congruence.
    - (* not selected, or outside the retention: empty on both sides *)
      assert (Hev : s_vals src = []).
      { rewrite Hf1, Hu1, Hs1, Hee in Hws. cbn [empty_series s_from s_until s_step] in Hws. rewrite Z.sub_diag, Zdiv_0_l in Hws.
        destruct (s_vals src); [reflexivity|]. rewrite zlen_cons in Hws. pose proof (zlen_nonneg l). lia. }
      split.
      + unfold eq_range_step. rewrite Hf1, Hu1, Hs1, Hee, Hee'. cbn [empty_series s_from s_until s_step]. rewrite !Z.eqb_refl. reflexivity.
      + apply diff_points_both_empty; [exact Hev|]. rewrite Hee'. reflexivity. }
  split; [apply all_eq_range_step_intro; [exact Hsl'|]; intros q Hq; apply (Helem q Hq)|].
  destruct (tsl_diff_elems cn sl dl' Hsl') as (Hd1 & Hd2 & Hdq2).
  split; apply all_empty_intro; intros q Hq.
  - assert (Hq' : 0 <= q < zlen sl) by (unfold zlen in *; lia).
    rewrite (proj1 (Hdq2 q Hq')), (proj2 (Helem q Hq')). reflexivity.
  - assert (Hq' : 0 <= q < zlen sl) by (unfold zlen in *; lia).
    rewrite (proj2 (Hdq2 q Hq')), (proj2 (Helem q Hq')). reflexivity.
Qed.
Print Assumptions copy_equalizes.

(** * [copy_core]: a copy that reports success leaves a destination whose difference from the
    source list, read afresh from disk, is empty *)
Lemma fetch_ts_list_ok_aid arcs aid from until now l :
  fetch_ts_list arcs aid from until now = TslOk l -> aid = -1 \/ 0 <= aid < zlen arcs.
Proof.
  unfold fetch_ts_list, ArchiveIDAll. destruct (Z.eqb_spec aid (-1)) as [->|Hne]; [left; reflexivity|].
  destruct (Z.leb_spec 0 aid); destruct (Z.ltb_spec aid (zlen arcs)); cbn [andb]; try discriminate. right. lia.
Qed.

Theorem copy_core_equalizes F sh sl dest o until now d logs :
  (match dest with Some _ => opened dest
   | None => match create (co_method o) (co_xff o) (co_layout o) with Some fresh => Some (sync fresh) | None => None end end) = Some d ->
  Rel_all (hd_arcs d) logs -> 1 <= hd_method d <= 6 ->
  wf_layout_full (layout_of (hd_arcs d)) -> clock_ok (layout_of (hd_arcs d)) now ->
  0 <= co_from o < 2^32 -> 0 <= until < 2^32 -> co_from o <= until -> Forall series_wf sl ->
  r_status (copy_core F (RdOk sh sl) dest o until now) = StOk ->
  exists dfin dread dl',
    r_dest (copy_core F (RdOk sh sl) dest o until now) = Some dfin /\ reopen dfin = Some dread /\
    layout_eqb (layout_of_arcs (hd_arcs sh)) (layout_of_arcs (hd_arcs dread)) = true /\
    fetch_ts_list (hd_arcs dread) (co_archive o) (co_from o) until now = TslOk dl' /\
    all_eq_range_step sl dl' = true /\
    all_empty (fst (tsl_diff (co_copy_nan o) sl dl')) && all_empty (snd (tsl_diff (co_copy_nan o) sl dl')) = true.
Proof.
  intros Hd HRA Hm Hwff Hclock Hfrom Huntil Hfu Hswf.
  unfold copy_core.
  destruct (create (co_method o) (co_xff o) (co_layout o)) as [fresh|] eqn:Ecreate; [|cbn; discriminate].
  assert (Hd0 : match dest with Some _ => opened dest | None => Some (sync fresh) end = Some d).
  { destruct dest; exact Hd. }
  rewrite Hd0.
  destruct (fetch_ts_list (hd_arcs d) (co_archive o) (co_from o) until now) as [| |dl] eqn:Edl; try (cbn; discriminate).
  destruct (negb (layout_eqb (layout_of_arcs (hd_arcs sh)) (layout_of_arcs (hd_arcs d)))) eqn:Elay; [cbn; discriminate|].
  apply negb_false_iff in Elay.
  destruct (negb (all_eq_range_step sl dl)) eqn:Eeq; [cbn; discriminate|]. apply negb_false_iff in Eeq.
  pose proof (fetch_ts_list_ok_aid _ _ _ _ _ _ Edl) as Haid.
  (* what a fresh Open of the handle the copy worked on reads *)
  assert (Hreopen : forall dh, dest = Some dh -> reopen dh = Some d) by (intros dh ->; exact Hd0).
  destruct (tsl_diff (co_copy_nan o) sl dl) as [sdif ddif] eqn:Ediff.
  destruct (all_empty sdif && all_empty ddif) eqn:Eempty.
  - (* nothing differs: nothing is written *)
    intros _. cbn [r_dest].
    destruct dest as [dh|].
    + exists dh, d, dl. rewrite Ediff. cbn [fst snd]. repeat split; auto.
    + injection Hd0 as <-. exists (sync fresh), (mkHandle (hd_method fresh) (hd_xff fresh) (hd_maxret fresh) (hd_arcs fresh) (hd_arcs fresh) true), dl.
      rewrite Ediff. cbn [fst snd]. repeat split; auto.
  - destruct (copy_equalizes F d logs sl dl (co_archive o) (co_from o) until now (co_copy_nan o) Hm HRA Hwff Hclock Hfrom Huntil Hfu Haid Edl Eeq Hswf)
      as (arcs' & logs' & dl' & Hres & HRA' & Hlay' & Hdl' & Heq' & He1 & He2).
    rewrite Ediff in Hres. cbn [fst] in Hres. rewrite Hres. intros _. cbn [r_dest].
    exists (sync (with_arcs d arcs')), (mkHandle (hd_method d) (hd_xff d) (hd_maxret d) arcs' arcs' true), dl'.
    cbn [sync with_arcs reopen hd_hdr_on_disk hd_arcs hd_disk hd_method hd_xff hd_maxret].
    rewrite He1, He2. repeat split; auto.
    change (layout_of_arcs arcs') with (layout_of arcs'). rewrite Hlay'. exact Elay.
Qed.
Print Assumptions copy_core_equalizes.

(** * what an empty difference means, slot by slot *)
Lemma slots_from_nth : forall v1 v2 i k, 0 <= k < zlen v1 -> k < zlen v2 ->
  In (i + k, (znth NaN v1 k, znth NaN v2 k)) (slots_from i v1 v2).
Proof.
  induction v1 as [|a r IH]; intros [|b u] i k Hk1 Hk2; try (cbn in Hk1, Hk2; lia).
  rewrite zlen_cons in *. cbn [slots_from]. destruct (Z.eq_dec k 0) as [->|Hne].
  - left. rewrite !znth_cons_0. replace (i + 0) with i by lia. reflexivity.
  - right. rewrite !znth_cons_S by lia. replace (i + k) with (i + 1 + (k - 1)) by lia. apply IH; lia.
Qed.

Lemma want_false_iff cn a b : want cn a b = false <-> ((cn = true \/ is_nan a = false) -> veq a b = true).
Proof.
  unfold want. destruct (veq a b), cn, (is_nan a); cbn; split; intros H; try reflexivity; try discriminate;
    try (intros _; reflexivity);
    try (exfalso; assert (Hc : false = true) by (apply H; first [left; reflexivity | right; reflexivity]); discriminate Hc).
  - intros [Hc|Hc]; discriminate Hc.
Qed.

Lemma diff_points_nil_slotwise cn src e : s_from src = s_from e ->
  diff_points cn src e = ([], []) ->
  zlen (s_vals src) = zlen (s_vals e) /\
  forall k, 0 <= k < zlen (s_vals src) ->
    (cn = true \/ is_nan (znth NaN (s_vals src) k) = false) -> veq (znth NaN (s_vals src) k) (znth NaN (s_vals e) k) = true.
Proof.
  intros Hf. unfold diff_points. destruct (Z.eqb_spec (zlen (s_vals src)) (zlen (s_vals e))) as [Hl|Hl]; cbn [negb].
  - intros H. split; [exact Hl|]. intros k Hk. apply want_false_iff.
    assert (H1 : fst (diff_vals cn (s_step src) (s_from src) (s_from e) 0 (s_vals src) (s_vals e)) = []) by (rewrite H; reflexivity).
    rewrite <- Hf in H1. rewrite diff_vals_empty_iff in H1.
    specialize (H1 _ (slots_from_nth (s_vals src) (s_vals e) 0 k Hk ltac:(lia))).
    unfold differs in H1. rewrite Z.eqb_refl in H1. exact H1.
  - intros H. exfalso. injection H as H1 H2. unfold series_points in *.
    apply (f_equal (@length point)) in H1. apply (f_equal (@length point)) in H2.
    rewrite points_from_length in H1, H2. unfold zlen in Hl. cbn in *. lia.
Qed.

Theorem empty_difference_slotwise cn sl dl :
  all_eq_range_step sl dl = true ->
  all_empty (fst (tsl_diff cn sl dl)) && all_empty (snd (tsl_diff cn sl dl)) = true ->
  forall q, 0 <= q < zlen sl ->
    let s := znth (empty_series 0) sl q in let d := znth (empty_series 0) dl q in
    s_from d = s_from s /\ s_until d = s_until s /\ s_step d = s_step s /\ zlen (s_vals d) = zlen (s_vals s) /\
    forall k, 0 <= k < zlen (s_vals s) ->
      (cn = true \/ is_nan (znth NaN (s_vals s) k) = false) -> veq (znth NaN (s_vals s) k) (znth NaN (s_vals d) k) = true.
Proof.
  intros Heq Hemp q Hq s d. destruct (all_eq_range_step_spec sl dl Heq) as [Hl Hr].
  specialize (Hr q Hq). fold s d in Hr. unfold eq_range_step in Hr. rewrite !andb_true_iff, !Z.eqb_eq in Hr. destruct Hr as [[Hf Hu] Hs].
  destruct (tsl_diff_elems cn sl dl Hl) as (Hd1 & Hd2 & Hdq). destruct (Hdq q Hq) as [He1 He2]. fold s d in He1, He2.
  apply andb_true_iff in Hemp. destruct Hemp as [Hm1 Hm2]. unfold all_empty in Hm1, Hm2. rewrite forallb_forall in Hm1, Hm2.
  assert (Hn1 : fst (diff_points cn s d) = []).
  { rewrite <- He1. specialize (Hm1 (znth [] (fst (tsl_diff cn sl dl)) q) ltac:(apply nth_In; unfold zlen in *; lia)).
    destruct (znth [] (fst (tsl_diff cn sl dl)) q); [reflexivity|discriminate]. }
  assert (Hn2 : snd (diff_points cn s d) = []).
  { rewrite <- He2. specialize (Hm2 (znth [] (snd (tsl_diff cn sl dl)) q) ltac:(apply nth_In; unfold zlen in *; lia)).
    destruct (znth [] (snd (tsl_diff cn sl dl)) q); [reflexivity|discriminate]. }
  destruct (diff_points_nil_slotwise cn s d Hf) as [Hlen Hk].
  { destruct (diff_points cn s d); cbn in *; congruence. }
  repeat split; auto.
Qed.

(** * the series lists commands read are well formed *)
Theorem fetch_ts_list_wf arcs logs aid from until now l :
  Rel_all arcs logs -> wf_layout_full (layout_of arcs) -> clock_ok (layout_of arcs) now ->
  0 <= from < 2^32 -> 0 <= until < 2^32 -> from <= until ->
  fetch_ts_list arcs aid from until now = TslOk l -> Forall series_wf l.
Proof.
  intros HRA Hwff Hclock Hfrom Huntil Hfu Hl.
  destruct (fetch_ts_list_elems arcs logs aid from until now HRA Hwff Hclock Hfrom Huntil Hfu (fetch_ts_list_ok_aid _ _ _ _ _ _ Hl))
    as (l0 & Hl0 & Hlen & Hq). rewrite Hl in Hl0. injection Hl0 as <-.
  apply Forall_forall. intros s Hin. apply (In_nth _ _ (empty_series 0)) in Hin. destruct Hin as (k & Hk & <-).
  specialize (Hq (Z.of_nat k) ltac:(unfold zlen in *; lia)). unfold znth in Hq. rewrite Nat2Z.id in Hq. rewrite Hq.
  apply (elem_shape arcs logs aid (Z.of_nat k) from until now HRA Hwff Hclock Hfrom Huntil Hfu ltac:(unfold zlen in *; lia)).
Qed.

Lemma map2_vadd_length F acc vs : length vs = length acc -> length (map2_vadd F acc vs) = length acc.
Proof. intros H. rewrite length_map2_vadd, H. apply Nat.min_id. Qed.

Lemma sum_series_wf F first rest : series_wf first ->
  Forall (fun s => length (s_vals s) = length (s_vals first)) rest -> series_wf (sum_series F first rest).
Proof.
  intros Hw Hr. unfold series_wf, sum_series in *. cbn [s_vals s_from s_until s_step]. rewrite <- Hw.
  assert (Hlen : forall acc, length acc = length (s_vals first) ->
            length (fold_left (fun acc s => map2_vadd F acc (s_vals s)) rest acc) = length (s_vals first)).
  { induction Hr as [|s r Hs Hr IH]; intros acc Ha; cbn [fold_left]; [exact Ha|].
    apply IH. rewrite map2_vadd_length; congruence. }
  unfold zlen. rewrite Hlen by reflexivity. reflexivity.
Qed.

Lemma eq_range_wf_length a b : eq_range_step a b = true -> series_wf a -> series_wf b -> length (s_vals b) = length (s_vals a).
Proof.
  unfold eq_range_step, series_wf. rewrite !andb_true_iff, !Z.eqb_eq. intros [[Hf Hu] Hs] Ha Hb.
  rewrite Hf, Hu, Hs, <- Hb in Ha. unfold zlen in Ha. lia.
Qed.

Lemma sum_lists_wf F : forall l0 rests, Forall series_wf l0 ->
  Forall (fun l => all_eq_range_step l0 l = true /\ Forall series_wf l) rests ->
  Forall series_wf (sum_lists F l0 rests).
Proof.
  induction l0 as [|s r IH]; intros rests Hw Hr; cbn [sum_lists]; [constructor|].
  inversion Hw as [|? ? Hs Hwr]; subst. constructor.
  - apply sum_series_wf; [exact Hs|]. unfold heads. apply Forall_forall. intros b Hb.
    apply in_concat in Hb. destruct Hb as (x & Hx & Hbx). apply in_map_iff in Hx. destruct Hx as (l & <- & Hl).
    rewrite Forall_forall in Hr. destruct (Hr l Hl) as [He Hwl].
    destruct l as [|b' u]; [contradiction|]. destruct Hbx as [<-|[]].
    cbn [all_eq_range_step] in He. apply andb_true_iff in He. destruct He as [He _].
    inversion Hwl; subst. apply (eq_range_wf_length s b' He); assumption.
  - apply IH; [exact Hwr|]. apply Forall_forall. intros u Hu. apply in_map_iff in Hu. destruct Hu as (l & <- & Hl).
    rewrite Forall_forall in Hr. destruct (Hr l Hl) as [He Hwl].
    destruct l as [|b' u]; [cbn in He; discriminate|]. cbn [tl].
    cbn [all_eq_range_step] in He. apply andb_true_iff in He. destruct He as [_ He]. inversion Hwl; subst. auto.
Qed.

(** a file whose content is the result of some history of updates, at a clock of the domain *)
Definition represented (now : Z) (h : handle) : Prop :=
  exists logs, Rel_all (hd_arcs h) logs /\ wf_layout_full (layout_of (hd_arcs h)) /\ clock_ok (layout_of (hd_arcs h)) now.

Lemma read_file_wf f aid from until now h l :
  (forall h', opened f = Some h' -> represented now h') ->
  0 <= from < 2^32 -> 0 <= until < 2^32 -> from <= until ->
  read_file f aid from until now = RdOk h l -> Forall series_wf l.
Proof.
  intros Hrep Hfrom Huntil Hfu. unfold read_file. destruct f as [hf|]; [|discriminate].
  destruct (opened (Some hf)) as [h'|] eqn:Eo; [|discriminate].
  destruct (Hrep h' eq_refl) as (logs & HRA & Hwff & Hclock).
  destruct (fetch_ts_list (hd_arcs h') aid from until now) as [| |l'] eqn:El; try discriminate.
  intros [= <- <-]. exact (fetch_ts_list_wf _ _ _ _ _ _ _ HRA Hwff Hclock Hfrom Huntil Hfu El).
Qed.

Lemma opt_all_in {A} : forall (l : list (option A)) xs, opt_all l = Some xs -> forall x, In x xs -> In (Some x) l.
Proof.
  induction l as [|o r IH]; intros xs H x Hx; cbn [opt_all] in H.
  - injection H as <-. contradiction.
  - destruct o as [y|]; [|discriminate]. destruct (opt_all r) as [ys|] eqn:E; [|discriminate]. injection H as <-.
    destruct Hx as [<-|Hx]; [left; reflexivity|right; apply (IH ys eq_refl x Hx)].
Qed.

Theorem sum_files_wf F files aid from until now h sl :
  Forall (fun f => forall h', opened f = Some h' -> represented now h') files ->
  0 <= from < 2^32 -> 0 <= until < 2^32 -> from <= until ->
  sum_files F files aid from until now = RdOk h sl -> Forall series_wf sl.
Proof.
  intros Hrep Hfrom Huntil Hfu. unfold sum_files. destruct files as [|f0 fr]; [discriminate|].
  set (files := f0 :: fr) in *. set (reads := map (fun f => read_file f aid from until now) files).
  destruct (existsb _ reads); [discriminate|].
  destruct (opt_all (map read_ok reads)) as [[|[h0 l0] rest]|] eqn:Eo; try discriminate.
  destruct (negb (forallb _ rest)); [discriminate|].
  destruct (negb (forallb (fun hl => all_eq_range_step l0 (snd hl)) rest)) eqn:Er; [discriminate|].
  apply negb_false_iff in Er. rewrite forallb_forall in Er.
  intros [= <- <-].
  assert (Hwf : forall hl, In hl ((h0, l0) :: rest) -> Forall series_wf (snd hl)).
  { intros [hx lx] Hin. pose proof (opt_all_in _ _ Eo _ Hin) as Hs. apply in_map_iff in Hs. destruct Hs as (r & Hr & Hrin).
    unfold reads in Hrin. apply in_map_iff in Hrin. destruct Hrin as (f & <- & Hf).
    destruct (read_file f aid from until now) as [| | |hh ll] eqn:Erf; try discriminate. injection Hr as <- <-.
    rewrite Forall_forall in Hrep. exact (read_file_wf f aid from until now hh ll (Hrep f Hf) Hfrom Huntil Hfu Erf). }
  apply sum_lists_wf.
  - apply (Hwf (h0, l0)). left. reflexivity.
  - apply Forall_forall. intros l Hl. apply in_map_iff in Hl. destruct Hl as (hl & <- & Hhl). split.
    + apply Er. exact Hhl.
    + apply (Hwf hl). right. exact Hhl.
Qed.
Print Assumptions sum_files_wf.

(** * C16: copy / sum-copy never panic on a represented destination *)
Theorem copy_core_no_panic F sh sl dest o until now d logs :
  (match dest with Some _ => opened dest
   | None => match create (co_method o) (co_xff o) (co_layout o) with Some fresh => Some (sync fresh) | None => None end end) = Some d ->
  Rel_all (hd_arcs d) logs -> 1 <= hd_method d <= 6 ->
  wf_layout_full (layout_of (hd_arcs d)) -> clock_ok (layout_of (hd_arcs d)) now ->
  0 <= co_from o < 2^32 -> 0 <= until < 2^32 -> co_from o <= until -> Forall series_wf sl ->
  r_status (copy_core F (RdOk sh sl) dest o until now) <> StPanic.
Proof.
  intros Hd HRA Hm Hwff Hclock Hfrom Huntil Hfu Hswf.
  unfold copy_core.
  destruct (create (co_method o) (co_xff o) (co_layout o)) as [fresh|] eqn:Ecreate; [|cbn; discriminate].
  assert (Hd0 : match dest with Some _ => opened dest | None => Some (sync fresh) end = Some d) by (destruct dest; exact Hd).
  rewrite Hd0.
  destruct (fetch_ts_list (hd_arcs d) (co_archive o) (co_from o) until now) as [| |dl] eqn:Edl.
  - cbn; discriminate.
  - exfalso.
    assert (Hcases : co_archive o = -1 \/ 0 <= co_archive o < zlen (hd_arcs d) \/ ~ (co_archive o = -1 \/ 0 <= co_archive o < zlen (hd_arcs d))) by lia.
    destruct Hcases as [Ha|[Ha|Ha]].
    + destruct (fetch_ts_list_elems (hd_arcs d) logs (co_archive o) (co_from o) until now HRA Hwff Hclock Hfrom Huntil Hfu (or_introl Ha)) as (l & Hl & _). congruence.
    + destruct (fetch_ts_list_elems (hd_arcs d) logs (co_archive o) (co_from o) until now HRA Hwff Hclock Hfrom Huntil Hfu (or_intror Ha)) as (l & Hl & _). congruence.
    + unfold fetch_ts_list, ArchiveIDAll in Edl. destruct (Z.eqb_spec (co_archive o) (-1)); [lia|].
      destruct (Z.leb_spec 0 (co_archive o)); destruct (Z.ltb_spec (co_archive o) (zlen (hd_arcs d))); cbn [andb] in Edl; try discriminate. lia.
  - destruct (negb (layout_eqb (layout_of_arcs (hd_arcs sh)) (layout_of_arcs (hd_arcs d)))); [cbn; discriminate|].
    destruct (negb (all_eq_range_step sl dl)) eqn:Eeq; [cbn; discriminate|]. apply negb_false_iff in Eeq.
    pose proof (fetch_ts_list_ok_aid _ _ _ _ _ _ Edl) as Haid.
    destruct (tsl_diff (co_copy_nan o) sl dl) as [sdif ddif] eqn:Ediff.
    destruct (all_empty sdif && all_empty ddif); [cbn; discriminate|].
    destruct (copy_equalizes F d logs sl dl (co_archive o) (co_from o) until now (co_copy_nan o) Hm HRA Hwff Hclock Hfrom Huntil Hfu Haid Edl Eeq Hswf)
      as (arcs' & logs' & dl' & Hres & _).
    rewrite Ediff in Hres. cbn [fst] in Hres. rewrite Hres. cbn. discriminate.
Qed.
Print Assumptions copy_core_no_panic.
