(** User-facing corollaries for C02 and C03, read off the specifications the model refines. *)
From WT Require Import Base.Wrap Base.ListX Model.Time Model.Ring Model.Update Spec.LogSpec
  Proofs.TimeProofs Proofs.RingProofs Proofs.FetchProofs.

(** * C02: what one coarser slot becomes *)
Section OneSlot.
Variables (F : fops) (m xff : Z) (L : lay) (logs : list (list point)) (l : Z) (acc : list Z) (t : Z).
Let cnt := lay_step L l / lay_step L (l - 1).
Let kv := known_log (get_log logs (l - 1)) (lay_period L (l - 1)) t (lay_step L (l - 1)) (Z.to_nat cnt).

(** nothing known: nothing stored, nothing propagated further — never an aggregate of an empty set *)
Theorem never_from_empty : kv = [] -> spec_propagate_one F m xff L logs l acc t = Some (logs, acc).
Proof. unfold spec_propagate_one. fold cnt. fold kv. intros ->. reflexivity. Qed.

(** known fraction below xFilesFactor: the slot (and everything else) is left exactly as it was *)
Theorem below_threshold_unchanged : f_frac_lt F (zlen kv) cnt xff = true ->
  spec_propagate_one F m xff L logs l acc t = Some (logs, acc).
Proof. unfold spec_propagate_one. fold cnt. fold kv. intros H. destruct kv; [reflexivity|]. rewrite H. reflexivity. Qed.

(** otherwise exactly one entry is appended to the coarser log: the aggregate of the known finer
    values in time order; finer logs and other archives are untouched; the next level is visited
    only because this slot was stored *)
Theorem stored_value v : kv <> [] -> f_frac_lt F (zlen kv) cnt xff = false -> aggregate F m kv = Some v ->
  spec_propagate_one F m xff L logs l acc t =
  Some (add_log logs l (mkPoint t v),
        if l + 1 <? Z.of_nat (length L) then push_dedup acc (t - t mod lay_step L (l + 1)) else acc).
Proof.
  unfold spec_propagate_one. fold cnt. fold kv. intros Hne Hf Ha. destruct kv as [|x r] eqn:E; [contradiction|].
  rewrite Hf, Ha. destruct (l + 1 <? Z.of_nat (length L)); reflexivity.
Qed.
End OneSlot.

(** the six methods, for every float-operation record *)
Theorem aggregate_methods F kv x r : kv = x :: r ->
  aggregate F Average kv = Some (f_div_len F (fsum F kv) (zlen kv)) /\
  aggregate F Sum kv = Some (fsum F kv) /\
  aggregate F First kv = Some x /\
  aggregate F Last kv = Some (last kv x) /\
  aggregate F Max kv = Some (fold_left (fun mx v => if f_lt F mx v then v else mx) kv x) /\
  aggregate F Min kv = Some (fold_left (fun mn v => if f_lt F v mn then v else mn) kv x).
Proof.
  intros ->. unfold aggregate, Average, Sum, First, Last, Max, Min. cbn [Z.eqb Pos.eqb].
  repeat split.
  assert (Hl : forall (l : list Z) d, l <> [] -> match rev l with [] => None | y :: _ => Some y end = Some (last l d)).
  { intros l d Hne. destruct (exists_last Hne) as (l' & y & ->). rewrite rev_app_distr, last_last. reflexivity. }
  apply Hl. discriminate.
Qed.

(** * C03: single updates *)
(** accepted exactly when the timestamp is not in the future and younger than the file's maximum
    retention *)
Theorem single_update_accept_iff F m xff maxret arcs id t v now :
  0 < maxret <= now -> now < TMAX -> 0 <= t < 2^32 ->
  (update_point_for_archive F m xff maxret arcs id t v now = UErr <-> (t <= now - maxret \/ now < t)).
Proof.
  intros Hm Hn Ht. unfold update_point_for_archive.
  assert (Hold : ts_add now (i32 (- maxret)) = now - maxret).
  { unfold TMAX in *. rewrite i32_small by lia. rewrite ts_add_nowrap by (unfold TMAX; lia). lia. }
  rewrite Hold.
  destruct (Z.leb_spec t (now - maxret)) as [H1|H1]; cbn [orb]; [split; [left; lia|reflexivity]|].
  destruct (Z.ltb_spec now t) as [H2|H2]; [split; [right; lia|reflexivity]|].
  split; [|lia].
  destruct (get_arc arcs (if id =? ArchiveIDBest then find_best arcs t now else id)); [|discriminate].
  destruct (propagate_chain _ _ _ _ _ _); discriminate.
Qed.

(** and it goes to the finest archive whose retention is at least the point's age *)
Theorem single_update_archive arcs t now : arcs <> [] -> Forall wf_arc arcs -> 0 <= t <= now -> now < TMAX ->
  let id := find_best arcs t now in
  0 <= id < zlen arcs /\
  (forall j a, 0 <= j < id -> nth_error arcs (Z.to_nat j) = Some a -> period a < now - t).
Proof.
  intros Hne Hwf Ht Hn. cbv zeta. unfold find_best.
  rewrite ts_sub_nowrap by (unfold TMAX in *; lia).
  rewrite find_best_from_spec by assumption.
  set (rets := map period arcs). assert (Hrne : rets <> []) by (unfold rets; destruct arcs; [contradiction|discriminate]).
  pose proof (best_from_range rets 0 (now - t) Hrne) as Hr.
  assert (Hzl : zlen rets = zlen arcs) by (unfold rets; apply zlen_map).
  split; [lia|].
  (* every archive before the chosen one is too short *)
  assert (Hbefore : forall rs i d j, i <= j < best_from rs i d -> nth (Z.to_nat (j - i)) rs 0 < d).
  { induction rs as [|r rest IH]; intros i d j Hj; cbn [best_from] in Hj; [lia|].
    destruct (Z.geb_spec r d) as [|Hlt]; [lia|]. destruct rest as [|r' rest']; [lia|].
    destruct (Z.eq_dec j i) as [->|Hne']; [rewrite Z.sub_diag; cbn; lia|].
    specialize (IH (i + 1) d j ltac:(lia)).
    replace (Z.to_nat (j - i)) with (S (Z.to_nat (j - (i + 1)))) by lia. exact IH. }
  intros j a Hj Ea. specialize (Hbefore rets 0 (now - t) j ltac:(lia)). rewrite Z.sub_0_r in Hbefore.
  unfold rets in Hbefore. 
  assert (Hn' : nth (Z.to_nat j) (map period arcs) 0 = period a).
  { clear -Ea. revert Ea. generalize (Z.to_nat j) as k. induction arcs as [|x r IH]; intros [|k] H; try discriminate; cbn in *; [injection H as ->; reflexivity|apply IH; exact H]. }
  rewrite Hn' in Hbefore. exact Hbefore.
Qed.
