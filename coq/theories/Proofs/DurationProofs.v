(** C19: durations — Duration.String / ParseDuration round trip and exactness. *)
From WT Require Import Base.Wrap Base.ListX Model.Text.

Lemma is_digit_char k : 0 <= k < 10 -> is_digit (c0 + k) = true.
Proof. intros. unfold is_digit, c0. lia. Qed.

(** one step of leadingInt on a digit: exact while the value fits 31 bits *)
Lemma leading_int_step k r x i : 0 <= k < 10 -> 0 <= x -> x * 10 + k <= MaxI32 ->
  leading_int ((c0 + k) :: r) x i = leading_int r (x * 10 + k) (i + 1).
Proof.
  intros Hk Hx Hfit. cbn [leading_int]. rewrite is_digit_char by assumption.
  unfold MaxI32, c0, i32 in *.
  destruct (Z.gtb_spec x ((2^31 - 1) / 10)) as [Hgt|_]; [lia|].
  assert (E : ((x * 10 + (48 + k) + 2^31) mod 2^32 - 2^31 - 48 + 2^31) mod 2^32 - 2^31 = x * 10 + k) by lia.
  rewrite E. destruct (Z.ltb_spec (x * 10 + k) 0); [lia|reflexivity].
Qed.

(** the printed numeral is read back digit by digit *)
Lemma leading_int_digits : forall fuel m acc, 0 < m -> m < 10 ^ Z.of_nat fuel -> m <= MaxI32 ->
  exists i', leading_int (digits_fuel fuel m acc) 0 0 = leading_int acc m i'.
Proof.
  induction fuel as [|f IH]; intros m acc Hm Hlt Hfit; [cbn in Hlt; lia|].
  cbn [digits_fuel].
  pose proof (Z.div_mod m 10 ltac:(lia)) as Hdm. pose proof (Z.mod_pos_bound m 10 ltac:(lia)) as Hmod.
  destruct (Z.eqb_spec (m / 10) 0) as [Hz|Hnz].
  - exists 1. rewrite leading_int_step by lia. f_equal. lia.
  - assert (Hq : 0 < m / 10) by (pose proof (Z.div_pos m 10 ltac:(lia) ltac:(lia)); lia).
    assert (Hql : m / 10 < 10 ^ Z.of_nat f).
    { rewrite Nat2Z.inj_succ, Z.pow_succ_r in Hlt by lia. apply Z.div_lt_upper_bound; lia. }
    destruct (IH (m / 10) ((c0 + m mod 10) :: acc) Hq Hql ltac:(unfold MaxI32 in *; lia)) as [i' Hi].
    exists (i' + 1). rewrite Hi. rewrite leading_int_step by (unfold MaxI32 in *; lia). f_equal. lia.
Qed.

Lemma leading_int_unit u x i : is_digit u = false -> leading_int [u] x i = Some (x, [u], i).
Proof. intros Hu. cbn [leading_int]. rewrite Hu. reflexivity. Qed.

(** number followed by a unit letter parses to number * unit *)
Lemma parse_number_unit q u U : 0 < q -> is_digit u = false -> unit_multiplier u = Some U -> 0 < U ->
  q * U <= MaxI32 -> parse_duration (print_nat q ++ [u]) = Some (q * U).
Proof.
  intros Hq Hu HU HUp Hfit. unfold parse_duration, print_nat.
  assert (Hq31 : q <= MaxI32) by (unfold MaxI32 in *; nia).
  assert (Hfuel : q < 10 ^ Z.of_nat 20) by (unfold MaxI32 in *; cbn; lia).
  assert (Happ : forall fuel n acc tl, digits_fuel fuel n acc ++ tl = digits_fuel fuel n (acc ++ tl)).
  { induction fuel as [|f IH]; intros n acc tl; [reflexivity|]. cbn [digits_fuel].
    destruct (n / 10 =? 0); [reflexivity|]. rewrite IH. reflexivity. }
  rewrite Happ. cbn [app].
  destruct (leading_int_digits 20 q [u] Hq Hfuel Hq31) as [i' Hi]. rewrite Hi.
  rewrite leading_int_unit by exact Hu.
  destruct (Z.eqb_spec q 0); [lia|]. cbn [andb]. rewrite HU.
  assert (Hquot : q <= Z.quot MaxI32 U).
  { rewrite Z.quot_div_nonneg by (unfold MaxI32; lia). apply Z.div_le_lower_bound; lia. }
  destruct (Z.gtb_spec q (Z.quot MaxI32 U)); [lia|].
  rewrite i32_small by (unfold MaxI32 in *; nia).
  destruct (Z.ltb_spec (q * U) 0); [nia|reflexivity].
Qed.

(** every non-negative duration prints to a string that parses back to it *)
Theorem duration_roundtrip d : 0 <= d < 2^31 -> parse_duration (duration_string d) = Some d.
Proof.
  intros Hd. unfold duration_string.
  destruct (Z.eqb_spec d 0) as [->|Hnz]; [reflexivity|].
  assert (Hcase : forall U u, 0 < U -> Z.rem d U = 0 -> is_digit u = false -> unit_multiplier u = Some U ->
            parse_duration (print_int (Z.quot d U) ++ [u]) = Some d).
  { intros U u HU Hrem Hu Hum.
    assert (Hq : d = U * Z.quot d U) by (pose proof (Z.quot_rem' d U); lia).
    assert (Hqpos : 0 < Z.quot d U) by (destruct (Z_lt_le_dec 0 (Z.quot d U)); [assumption|nia]).
    unfold print_int. destruct (Z.ltb_spec (Z.quot d U) 0); [lia|].
    rewrite (parse_number_unit (Z.quot d U) u U) by (try assumption; unfold MaxI32; lia).
    f_equal. lia. }
  unfold Year, Week, Day, Hour, Minute.
  destruct (Z.eqb_spec (Z.rem d 31536000) 0) as [Hy|_]; [apply Hcase; try reflexivity; lia|].
  destruct (Z.eqb_spec (Z.rem d 604800) 0) as [Hw|_]; [apply Hcase; try reflexivity; lia|].
  destruct (Z.eqb_spec (Z.rem d 86400) 0) as [Hdd|_]; [apply Hcase; try reflexivity; lia|].
  destruct (Z.eqb_spec (Z.rem d 3600) 0) as [Hh|_]; [apply Hcase; try reflexivity; lia|].
  destruct (Z.eqb_spec (Z.rem d 60) 0) as [Hmi|_]; [apply Hcase; try reflexivity; lia|].
  replace d with (Z.quot d 1) at 1 by (apply Z.quot_1_r).
  apply (Hcase 1 115); try reflexivity; try lia. apply Z.rem_1_r.
Qed.
Print Assumptions duration_roundtrip.

(** * Exactness: an accepted string means number * unit, without wrap-around *)
Definition digits_val (ds : list Z) (x : Z) : Z := fold_left (fun acc c => acc * 10 + (c - c0)) ds x.

Lemma leading_int_exact : forall s x i x' rem i', 0 <= x <= MaxI32 ->
  leading_int s x i = Some (x', rem, i') ->
  exists ds, s = ds ++ rem /\ Forall (fun c => is_digit c = true) ds /\ x' = digits_val ds x /\
             i' = i + zlen ds /\ 0 <= x' <= MaxI32 /\
             match rem with c :: _ => is_digit c = false | [] => True end.
Proof.
  induction s as [|c r IH]; intros x i x' rem i' Hx H.
  - cbn [leading_int] in H. injection H as <- <- <-. exists [].
    split; [reflexivity|]. split; [constructor|]. split; [reflexivity|]. split; [unfold zlen; cbn [length Z.of_nat]; lia|]. split; [exact Hx|exact I].
  - cbn [leading_int] in H. destruct (is_digit c) eqn:Ec.
    + destruct (Z.gtb_spec x (MaxI32 / 10)) as [|Hle]; [discriminate|].
      set (y := i32 (i32 (x * 10 + c) - c0)) in *.
      destruct (Z.ltb_spec y 0) as [|Hy]; [discriminate|].
      assert (Hyv : y = x * 10 + (c - c0)).
      { unfold y, i32, is_digit, c0, MaxI32 in *. lia. }
      assert (Hyr : 0 <= y <= MaxI32).
      { split; [lia|]. unfold y. pose proof (i32_range (i32 (x * 10 + c) - c0)). unfold MaxI32. lia. }
      destruct (IH y (i + 1) x' rem i' Hyr H) as (ds & -> & Hds & -> & -> & Hr & Hrem).
      exists (c :: ds). cbn [app digits_val fold_left]. rewrite zlen_cons.
      repeat split; try lia; try assumption.
      * constructor; assumption.
      * unfold digits_val. rewrite Hyv. reflexivity.
    + injection H as <- <- <-. exists [].
      split; [reflexivity|]. split; [constructor|]. split; [reflexivity|]. split; [unfold zlen; cbn [length Z.of_nat]; lia|]. split; [exact Hx|exact Ec].
Qed.

(** whenever ParseDuration accepts, the string is a numeral followed by one unit letter and the
    value is numeral * unit, at most 2^31 - 1: no wrap-around *)
Theorem parse_duration_exact s d : parse_duration s = Some d ->
  exists ds u U, s = ds ++ [u] /\ ds <> [] /\ Forall (fun c => is_digit c = true) ds /\
                 unit_multiplier u = Some U /\ d = digits_val ds 0 * U /\ 0 <= d <= MaxI32.
Proof.
  unfold parse_duration. destruct (leading_int s 0 0) as [[[x rem] i]|] eqn:E; [|discriminate].
  destruct (leading_int_exact s 0 0 x rem i ltac:(unfold MaxI32; lia) E) as (ds & -> & Hds & -> & -> & Hr & Hrem).
  destruct ((digits_val ds 0 =? 0) && negb (0 + zlen ds =? 1)) eqn:Ez; [discriminate|].
  destruct rem as [|u [|u2 r2]]; try discriminate.
  destruct (unit_multiplier u) as [U|] eqn:EU; [|discriminate].
  destruct (Z.gtb_spec (digits_val ds 0) (Z.quot MaxI32 U)) as [|Hle]; [discriminate|].
  assert (HUpos : 0 < U).
  { unfold unit_multiplier in EU. repeat (destruct (_ =? _) in EU; [injection EU as <-; reflexivity|]). discriminate. }
  assert (Hfit : digits_val ds 0 * U <= MaxI32).
  { rewrite Z.quot_div_nonneg in Hle by (unfold MaxI32; lia).
    assert (U * (MaxI32 / U) <= MaxI32) by (apply Z.mul_div_le; lia). nia. }
  rewrite i32_small by (unfold MaxI32 in *; nia).
  destruct (Z.ltb_spec (digits_val ds 0 * U) 0); [discriminate|].
  intros Hres; injection Hres as <-.
  exists ds, u, U. repeat split; try assumption; try lia.
  intros ->. cbn in Ez. discriminate.
Qed.
Print Assumptions parse_duration_exact.

(** * Retention lists: what is printed is what is parsed *)
From WT Require Import Base.Bytes Model.Time Model.Ring Model.Codec Proofs.TimeProofs.

Definition plain (c : Z) : Prop := c <> 58 /\ c <> 44.     (* neither ':' nor ',' *)

Lemma digits_fuel_plain : forall fuel n acc, 0 <= n -> Forall plain acc -> Forall plain (digits_fuel fuel n acc).
Proof.
  induction fuel as [|f IH]; intros n acc Hn Ha; [exact Ha|]. cbn [digits_fuel].
  pose proof (Z.mod_pos_bound n 10 ltac:(lia)).
  assert (Hc : plain (c0 + n mod 10)) by (unfold plain, c0; lia).
  destruct (n / 10 =? 0); [constructor; assumption|]. apply IH; [apply Z.div_pos; lia|constructor; assumption].
Qed.

Lemma duration_string_plain d : 0 <= d -> Forall plain (duration_string d).
Proof.
  intros Hd. unfold duration_string.
  assert (Hp : forall q u, 0 <= q -> plain u -> Forall plain (print_int q ++ [u])).
  { intros q u Hq Hu. apply Forall_app. split; [|constructor; [exact Hu|constructor]].
    unfold print_int. destruct (Z.ltb_spec q 0); [lia|]. unfold print_nat. apply digits_fuel_plain; [lia|constructor]. }
  destruct (d =? 0); [repeat constructor; unfold plain; lia|].
  assert (Hq : forall U, 0 < U -> 0 <= Z.quot d U) by (intros; apply Z.quot_pos; lia).
  unfold Year, Week, Day, Hour, Minute.
  repeat (match goal with |- context[if ?c then _ else _] => destruct c end;
          [apply Hp; [apply Hq; lia|unfold plain; lia]|]).
  apply Hp; [lia|unfold plain; lia].
Qed.

Lemma split_first_plain c : forall a b, Forall (fun x => x <> c) a -> split_first c (a ++ c :: b) = Some (a, b).
Proof.
  induction a as [|x r IH]; intros b Ha; cbn [app split_first].
  - rewrite Z.eqb_refl. reflexivity.
  - inversion Ha as [|? ? Hx Hr]; subst. destruct (Z.eqb_spec x c); [contradiction|]. rewrite IH by exact Hr. reflexivity.
Qed.

(** one archive: "step:retention" parses back to (step, points) *)
Theorem archive_info_roundtrip s n : 0 < s -> 0 < n -> s * n < 2^31 ->
  parse_archive_info (archive_info_string s n) = Some (s, n).
Proof.
  intros Hs Hn Hr. unfold parse_archive_info, archive_info_string.
  rewrite (retention_nowrap s n) by (unfold TMAX; lia).
  change ([58] ++ duration_string (s * n)) with (58 :: duration_string (s * n)).
  rewrite split_first_plain by (eapply Forall_impl; [|apply duration_string_plain; lia]; intros x [Hx _]; exact Hx).
  destruct (duration_string (s * n)) as [|c r] eqn:E.
  { pose proof (duration_roundtrip (s * n) ltac:(nia)) as H. rewrite E in H. cbn in H. discriminate. }
  rewrite <- E. rewrite !duration_roundtrip by nia.
  destruct (Z.leb_spec s 0); [lia|]. destruct (Z.leb_spec (s * n) 0); [nia|].
  rewrite Z.mul_comm, Z.rem_mul by lia. cbn [orb negb Z.eqb].
  rewrite Z.quot_mul by lia. rewrite u32_small by nia. reflexivity.
Qed.

Lemma split_commas_plain : forall a cur, Forall (fun x => x <> 44) a ->
  split_commas a cur = [rev cur ++ a].
Proof.
  induction a as [|x r IH]; intros cur Ha; cbn [split_commas]; [rewrite app_nil_r; reflexivity|].
  inversion Ha as [|? ? Hx Hr]; subst. destruct (Z.eqb_spec x 44); [contradiction|].
  rewrite IH by exact Hr. cbn [rev]. rewrite <- app_assoc. reflexivity.
Qed.
Lemma split_commas_app : forall a rest cur, Forall (fun x => x <> 44) a ->
  split_commas (a ++ 44 :: rest) cur = (rev cur ++ a) :: split_commas rest [].
Proof.
  induction a as [|x r IH]; intros rest cur Ha; cbn [app split_commas].
  - rewrite Z.eqb_refl, app_nil_r. reflexivity.
  - inversion Ha as [|? ? Hx Hr]; subst. destruct (Z.eqb_spec x 44); [contradiction|].
    rewrite IH by exact Hr. cbn [rev]. rewrite <- app_assoc. reflexivity.
Qed.

Lemma archive_info_string_nocomma s n : 0 < s -> 0 < n -> s * n < 2^31 -> Forall (fun x => x <> 44) (archive_info_string s n).
Proof.
  intros Hs Hn Hr. unfold archive_info_string. rewrite (retention_nowrap s n) by (unfold TMAX; lia).
  apply Forall_app. split; [|constructor; [lia|]];
    (eapply Forall_impl; [|apply duration_string_plain; nia]; intros x [_ Hx]; exact Hx).
Qed.

(** the fields of the printed list are the printed archives *)
Lemma split_commas_list : forall l, l <> [] -> Forall (fun sn => 0 < fst sn /\ 0 < snd sn /\ fst sn * snd sn < 2^31) l ->
  split_commas (archive_list_string l) [] = map (fun sn => archive_info_string (fst sn) (snd sn)) l.
Proof.
  induction l as [|[s n] r IH]; intros Hne Hall; [contradiction|].
  inversion Hall as [|? ? (Hs & Hn & Hr) Hrest]; subst. cbn [fst snd] in *.
  destruct r as [|[s' n'] r'].
  - cbn [archive_list_string map]. rewrite split_commas_plain by (apply archive_info_string_nocomma; assumption). reflexivity.
  - cbn [archive_list_string]. cbn [app]. rewrite split_commas_app by (apply archive_info_string_nocomma; assumption).
    cbn [rev app map fst snd]. f_equal. apply IH; [discriminate|exact Hrest].
Qed.

(** every valid archive list prints to a string that parses back to it (with its offsets) *)
Theorem archive_list_roundtrip l : l <> [] ->
  Forall (fun sn => 0 < fst sn /\ 0 < snd sn /\ fst sn * snd sn < 2^31) l ->
  validate (fill_offset (map (fun sn => mkAinfo 0 (fst sn) (snd sn)) l)) = true ->
  parse_archive_info_list (archive_list_string l) = Some (fill_offset (map (fun sn => mkAinfo 0 (fst sn) (snd sn)) l)).
Proof.
  intros Hne Hall Hv. unfold parse_archive_info_list.
  destruct (archive_list_string l) as [|c rest] eqn:E.
  { exfalso. destruct l as [|[s n] r]; [contradiction|]. inversion Hall as [|? ? (Hs & Hn & Hr) _]; subst. cbn [fst snd] in *.
    assert (Hd : duration_string s <> []).
    { intros Hnil. pose proof (duration_roundtrip s ltac:(nia)) as Hrt. rewrite Hnil in Hrt. cbn in Hrt. discriminate. }
    destruct r as [|[s' n'] r']; cbn [archive_list_string] in E; unfold archive_info_string in E;
      destruct (duration_string s); [contradiction|discriminate|contradiction|discriminate]. }
  rewrite <- E. rewrite split_commas_list by assumption. rewrite map_map.
  assert (Hps : map (fun sn => parse_archive_info (archive_info_string (fst sn) (snd sn))) l = map (fun sn => Some sn) l).
  { apply map_ext_in. intros [s n] Hin. rewrite Forall_forall in Hall. destruct (Hall _ Hin) as (Hs & Hn & Hr). cbn [fst snd] in *.
    apply archive_info_roundtrip; assumption. }
  rewrite Hps.
  assert (Hall_some : forall (m : list (Z * Z)), all_some (map (fun sn => Some sn) m) = Some m).
  { induction m as [|x r IH]; [reflexivity|]. cbn [map all_some]. rewrite IH. reflexivity. }
  rewrite Hall_some, Hv. reflexivity.
Qed.
Print Assumptions archive_list_roundtrip.

(** method names *)
Theorem method_roundtrip m : 1 <= m <= 8 -> method_of_string (method_string m) = Some m.
Proof.
  intros Hm. assert (Hc : m = 1 \/ m = 2 \/ m = 3 \/ m = 4 \/ m = 5 \/ m = 6 \/ m = 7 \/ m = 8) by lia.
  destruct Hc as [->|[->|[->|[->|[->|[->|[->| ->]]]]]]]; reflexivity.
Qed.

(** ** the unit of the printed form: the largest of s, m, h, d, w, y that divides the duration *)
Lemma unit_multiplier_values u U : unit_multiplier u = Some U ->
  U = Second \/ U = Minute \/ U = Hour \/ U = Day \/ U = Week \/ U = Year.
Proof.
  unfold unit_multiplier.
  repeat match goal with |- context [if ?b then _ else _] => destruct b end; intros H; inversion H; subst; auto 10.
Qed.

Theorem duration_string_largest_unit d : d <> 0 ->
  exists u U, unit_multiplier u = Some U /\ Z.rem d U = 0 /\
              duration_string d = print_int (Z.quot d U) ++ [u] /\
              (forall u' U', unit_multiplier u' = Some U' -> U < U' -> Z.rem d U' <> 0).
Proof.
  intros Hd. unfold duration_string. apply Z.eqb_neq in Hd. rewrite Hd.
  destruct (Z.rem d Year =? 0) eqn:Ey; [|apply Z.eqb_neq in Ey].
  { apply Z.eqb_eq in Ey. exists 121, Year. split; [reflexivity|]. split; [exact Ey|]. split; [reflexivity|].
    intros u' U' Hu Hlt. destruct (unit_multiplier_values u' U' Hu) as [-> | [-> | [-> | [-> | [-> | ->]]]]]; unfold Second, Minute, Hour, Day, Week, Year in *; lia. }
  destruct (Z.rem d Week =? 0) eqn:Ew; [|apply Z.eqb_neq in Ew].
  { apply Z.eqb_eq in Ew. exists 119, Week. split; [reflexivity|]. split; [exact Ew|]. split; [reflexivity|].
    intros u' U' Hu Hlt. destruct (unit_multiplier_values u' U' Hu) as [-> | [-> | [-> | [-> | [-> | ->]]]]]; unfold Second, Minute, Hour, Day, Week, Year in *; try lia; exact Ey. }
  destruct (Z.rem d Day =? 0) eqn:Ed; [|apply Z.eqb_neq in Ed].
  { apply Z.eqb_eq in Ed. exists 100, Day. split; [reflexivity|]. split; [exact Ed|]. split; [reflexivity|].
    intros u' U' Hu Hlt. destruct (unit_multiplier_values u' U' Hu) as [-> | [-> | [-> | [-> | [-> | ->]]]]]; unfold Second, Minute, Hour, Day, Week, Year in *; try lia; assumption. }
  destruct (Z.rem d Hour =? 0) eqn:Eh; [|apply Z.eqb_neq in Eh].
  { apply Z.eqb_eq in Eh. exists 104, Hour. split; [reflexivity|]. split; [exact Eh|]. split; [reflexivity|].
    intros u' U' Hu Hlt. destruct (unit_multiplier_values u' U' Hu) as [-> | [-> | [-> | [-> | [-> | ->]]]]]; unfold Second, Minute, Hour, Day, Week, Year in *; try lia; assumption. }
  destruct (Z.rem d Minute =? 0) eqn:Em; [|apply Z.eqb_neq in Em].
  { apply Z.eqb_eq in Em. exists 109, Minute. split; [reflexivity|]. split; [exact Em|]. split; [reflexivity|].
    intros u' U' Hu Hlt. destruct (unit_multiplier_values u' U' Hu) as [-> | [-> | [-> | [-> | [-> | ->]]]]]; unfold Second, Minute, Hour, Day, Week, Year in *; try lia; assumption. }
  exists 115, Second. split; [reflexivity|]. split; [unfold Second; apply Z.rem_1_r|]. split; [unfold Second; now rewrite Z.quot_1_r|].
  intros u' U' Hu Hlt. destruct (unit_multiplier_values u' U' Hu) as [-> | [-> | [-> | [-> | [-> | ->]]]]]; unfold Second, Minute, Hour, Day, Week, Year in *; try lia; assumption.
Qed.
