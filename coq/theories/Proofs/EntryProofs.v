(** C07: the entry points (NewHeader, Header.TakeFrom, ParseArchiveInfoList) agree. *)
From WT Require Import Base.Wrap Base.ListX Base.Bytes Model.Time Model.Ring Model.Codec Model.Text
  Spec.WfLayout Proofs.CodecProofs Proofs.LayoutProofs.

(** a validated list carries exactly the contiguous offsets *)
Lemma validate_from_offsets : forall l off off64,
  validate_from off off64 l = true -> fill_offset_from off l = l.
Proof.
  induction l as [|a r IH]; intros off off64 H; [reflexivity|].
  cbn [validate_from] in H. cbn [fill_offset_from].
  rewrite !andb_true_iff in H. destruct H as [[[[[_ _] _] _] Hoff] Hrest].
  rewrite Z.eqb_eq in Hoff.
  destruct r as [|nx r'].
  - cbn [fill_offset_from]. destruct a; cbn in *; subst; reflexivity.
  - rewrite !andb_true_iff in Hrest. destruct Hrest as [_ Hrec].
    rewrite (IH _ _ Hrec). destruct a; cbn in *; subst; reflexivity.
Qed.

Theorem validate_offsets_contiguous l : validate l = true -> fill_offset l = l.
Proof.
  unfold validate, fill_offset. destruct l as [|a r]; [discriminate|].
  intros H. apply (validate_from_offsets _ _ _ H).
Qed.

(** NewHeader accepts exactly: storable method, valid xFilesFactor, validated list *)
Theorem new_header_accepts_iff m xff l :
  (exists h, new_header m xff l = Some h) <->
  valid_method m = true /\ valid_xff xff = true /\ validate (fill_offset l) = true.
Proof.
  unfold new_header. destruct (valid_method m), (valid_xff xff); cbn [negb];
  destruct (validate (fill_offset l)); split; intros H;
  try (destruct H as [h Hh]; discriminate); try (destruct H as (? & ? & ?); discriminate);
  try (repeat split; reflexivity); try (eexists; reflexivity).
Qed.

(** the outcome of decoding a complete header encoding, for arbitrary field values in range *)
Theorem dec_header_of_fields h r :
  0 <= h_method h < 2^32 -> - 2^31 <= h_maxret h < 2^31 -> 0 <= h_xff h < 2^32 ->
  h_count h = zlen (h_arcs h) -> h_count h < 2^32 -> Forall wf_ainfo (h_arcs h) ->
  dec_header (enc_header h ++ r) =
    if negb (valid_method (h_method h)) then Err
    else if negb (valid_xff (h_xff h)) then Err
    else if h_count h * 12 >? MaxInt32 then Err
    else if validate (h_arcs h) then Ok h r else Err.
Proof.
  intros Hm Hmr Hx Hc Hcb Hai.
  pose proof (zlen_nonneg (h_arcs h)). pose proof (zlen_nonneg r).
  unfold dec_header. rewrite zlen_app, enc_header_len.
  destruct (Z.ltb_spec (16 + 12 * zlen (h_arcs h) + zlen r) 16); [lia|].
  unfold enc_header, enc_dur. rewrite <- !app_assoc.
  set (tail := flat_map enc_ainfo (h_arcs h) ++ r).
  rewrite get32_be32 by apply u32_range. rewrite (u32_small (h_method h)) by lia.
  replace (skipn 4 (be32 (h_method h) ++ be32 (u32 (h_maxret h)) ++ be32 (h_xff h) ++ be32 (h_count h) ++ tail))
    with (be32 (u32 (h_maxret h)) ++ be32 (h_xff h) ++ be32 (h_count h) ++ tail) by reflexivity.
  rewrite get32_be32 by apply u32_range. rewrite i32_u32 by assumption.
  replace (skipn 8 (be32 (h_method h) ++ be32 (u32 (h_maxret h)) ++ be32 (h_xff h) ++ be32 (h_count h) ++ tail))
    with (be32 (h_xff h) ++ be32 (h_count h) ++ tail) by reflexivity.
  rewrite get32_be32 by assumption.
  replace (skipn 12 (be32 (h_method h) ++ be32 (u32 (h_maxret h)) ++ be32 (h_xff h) ++ be32 (h_count h) ++ tail))
    with (be32 (h_count h) ++ tail) by reflexivity.
  rewrite get32_be32 by lia.
  replace (skipn 16 (be32 (h_method h) ++ be32 (u32 (h_maxret h)) ++ be32 (h_xff h) ++ be32 (h_count h) ++ tail))
    with tail by reflexivity.
  destruct (valid_method (h_method h)); cbn [negb]; [|reflexivity].
  destruct (valid_xff (h_xff h)); cbn [negb]; [|reflexivity].
  destruct (Z.gtb_spec (h_count h * 12) MaxInt32); [reflexivity|].
  unfold tail. rewrite zlen_app, flat_map_enc_ainfo_len.
  destruct (Z.ltb_spec (12 * zlen (h_arcs h) + zlen r) (h_count h * 12)); [lia|].
  rewrite Hc. unfold zlen at 1. rewrite Nat2Z.id. rewrite dec_ainfos_enc by assumption.
  destruct (validate (h_arcs h)); [|reflexivity]. destruct h; cbn in *; subst; reflexivity.
Qed.

(** decoding accepts a complete header iff its fields pass the same validation as NewHeader,
    and then the stored offsets are the contiguous ones *)
Theorem dec_header_accepts_iff h r :
  0 <= h_method h < 2^32 -> - 2^31 <= h_maxret h < 2^31 -> 0 <= h_xff h < 2^32 ->
  h_count h = zlen (h_arcs h) -> h_count h < 2^32 -> Forall wf_ainfo (h_arcs h) ->
  (dec_header (enc_header h ++ r) = Ok h r <->
   valid_method (h_method h) = true /\ valid_xff (h_xff h) = true /\ h_count h * 12 <= MaxInt32 /\
   validate (h_arcs h) = true /\ fill_offset (h_arcs h) = h_arcs h).
Proof.
  intros Hm Hmr Hx Hc Hcb Hai. rewrite (dec_header_of_fields h r) by assumption.
  destruct (valid_method (h_method h)); cbn [negb].
  2: { split; [discriminate|intros (? & _); discriminate]. }
  destruct (valid_xff (h_xff h)); cbn [negb].
  2: { split; [discriminate|intros (_ & ? & _); discriminate]. }
  destruct (Z.gtb_spec (h_count h * 12) MaxInt32).
  { split; [discriminate|intros (_ & _ & ? & _); lia]. }
  destruct (validate (h_arcs h)) eqn:Ev.
  - split; [intros _|reflexivity]. repeat split; try lia. apply validate_offsets_contiguous. exact Ev.
  - split; [discriminate|intros (_ & _ & _ & ? & _); discriminate].
Qed.

(** a parsed retention string is a validated list with contiguous offsets *)
Theorem parse_list_validated s l : parse_archive_info_list s = Some l ->
  validate l = true /\ fill_offset l = l.
Proof.
  unfold parse_archive_info_list. destruct s as [|c s']; [discriminate|].
  destruct (all_some (map parse_archive_info (split_commas (c :: s') []))) as [ps|]; [|discriminate].
  destruct (validate (fill_offset _)) eqn:Ev; [|discriminate].
  intros E; injection E as <-. split; [exact Ev|]. apply validate_offsets_contiguous. exact Ev.
Qed.

(** well-formed lists are short: steps at least double from one archive to the next *)
Lemma wf_from_steps : forall l off s n, wf_from off ((s, n) :: l) -> s * 2 ^ (zlen l) < 2^31.
Proof.
  induction l as [|[s' n'] r IH]; intros off s n H.
  - cbn [wf_from] in H. destruct H as (Hs & Hn & Hsn & _). rewrite zlen_nil, Z.pow_0_r.
    assert (s * 1 <= s * n) by (apply Z.mul_le_mono_nonneg_l; lia). lia.
  - cbn [wf_from] in H. destruct H as (Hs & Hn & Hsn & Hoff & Hlt & Hdiv & Hret & Hpts & Hrest).
    specialize (IH _ _ _ Hrest). rewrite zlen_cons.
    pose proof (zlen_nonneg r). rewrite Z.pow_add_r by lia.
    assert (2 * s <= s').
    { apply Z.mod_divide in Hdiv; [|lia]. destruct Hdiv as [q Hq].
      destruct (Z_lt_le_dec q 2) as [Hq2|Hq2].
      - assert (q * s <= 1 * s) by (apply Z.mul_le_mono_nonneg_r; lia). lia.
      - assert (2 * s <= q * s) by (apply Z.mul_le_mono_nonneg_r; lia). lia. }
    assert (Hp : 0 < 2 ^ zlen r) by (apply Z.pow_pos_nonneg; lia).
    change (2 ^ 1) with 2.
    assert (s * (2 ^ zlen r * 2) <= s' * 2 ^ zlen r).
    { replace (s * (2 ^ zlen r * 2)) with ((2 * s) * 2 ^ zlen r) by ring.
      apply Z.mul_le_mono_nonneg_r; lia. }
    lia.
Qed.

Theorem wf_layout_short l : wf_layout l -> zlen l <= 31.
Proof.
  intros [Hne H]. destruct l as [|[s n] r]; [contradiction|].
  pose proof (wf_from_steps _ _ _ _ H) as Hb. rewrite zlen_cons.
  assert (Hs : 0 < s) by (cbn [wf_from] in H; tauto).
  pose proof (zlen_nonneg r).
  assert (2 ^ zlen r < 2 ^ 31) by nia.
  apply Z.pow_lt_mono_r_iff in H1; lia.
Qed.
