From WT Require Import Base.Wrap Base.ListX Model.Time Model.Ring Spec.LogSpec
  Proofs.TimeProofs Proofs.RingProofs.

Definition layout_of (arcs : list arc) : list (Z * Z) := map (fun a => (a_step a, a_n a)) arcs.
Definition Rel_all (arcs : list arc) (logs : list (list point)) : Prop := Forall2 Rel arcs logs.

Definition shape_of (r : fetch_res) : option shape :=
  match r with
  | FErrInterval => Some SErrInterval
  | FErrArchive => Some SErrArchive
  | FNone => Some SNone
  | FSeries s => Some (SShape (s_from s) (s_until s) (s_step s) (zlen (s_vals s)))
  | FPanic => None
  end.

(** clock domain for reads: every retention lies in the past and two more steps fit below 2^31 *)
Definition read_domain (arcs : list arc) (now : Z) : Prop :=
  arcs <> [] /\ Forall (fun a => period a <= now /\ now + 2 * a_step a < TMAX) arcs.

Lemma Rel_wf a log : Rel a log -> wf_arc a. Proof. intros H; apply H. Qed.

Lemma max_retention_period a : wf_arc a -> max_retention a = period a.
Proof. intros (HS & HN & _ & HR). unfold max_retention, period. apply retention_nowrap; assumption. Qed.

Lemma find_best_from_spec arcs : forall i diff, Forall wf_arc arcs ->
  find_best_from arcs i diff = best_from (map period arcs) i diff.
Proof.
  induction arcs as [|a r IH]; intros i diff Hwf; cbn [find_best_from best_from map]; [reflexivity|].
  inversion Hwf as [|? ? Ha Hr]; subst. rewrite max_retention_period by assumption.
  destruct (period a >=? diff); [reflexivity|].
  destruct r as [|b r']; [reflexivity|]. cbn [map]. apply IH. assumption.
Qed.

Lemma best_from_range rets : forall i diff, rets <> [] -> i <= best_from rets i diff < i + zlen rets.
Proof.
  induction rets as [|r rest IH]; intros i diff Hne; [contradiction|].
  cbn [best_from]. rewrite zlen_cons. pose proof (zlen_nonneg rest).
  destruct (r >=? diff); [lia|]. destruct rest as [|r' rest']; [rewrite zlen_nil; lia|].
  specialize (IH (i + 1) diff ltac:(discriminate)). rewrite zlen_cons in *. lia.
Qed.

Lemma layout_nth arcs k a : nth_error arcs k = Some a -> nth_error (layout_of arcs) k = Some (a_step a, a_n a).
Proof. intros H. unfold layout_of. rewrite nth_error_map, H. reflexivity. Qed.

Lemma map_period_layout arcs : map (fun sn => fst sn * snd sn) (layout_of arcs) = map period arcs.
Proof. unfold layout_of. rewrite map_map. reflexivity. Qed.

Lemma Forall2_nth_error {A B} (P : A -> B -> Prop) l1 l2 k a :
  Forall2 P l1 l2 -> nth_error l1 k = Some a -> exists b, nth_error l2 k = Some b /\ P a b.
Proof.
  intros H; revert k; induction H as [|x y l1 l2 Hxy H IH]; intros k Hk; [destruct k; discriminate|].
  destruct k; cbn in *; [injection Hk as <-; eauto|]. apply IH. assumption.
Qed.

Lemma Forall2_Forall_l {A B} (P : A -> B -> Prop) (Q : A -> Prop) l1 l2 :
  Forall2 P l1 l2 -> (forall a b, P a b -> Q a) -> Forall Q l1.
Proof. intros H HPQ. induction H; constructor; eauto. Qed.

(** The window computed by [fetch_from_archive] for archive [a] *)
Definition win_from (a : arc) (from now : Z) : Z :=
  let fr := Z.max from (now - period a) in fr - fr mod a_step a + a_step a.
Definition win_until (a : arc) (from until now : Z) : Z :=
  let un := Z.min until now in
  let u := un - un mod a_step a + a_step a in
  if win_from a from now =? u then u + a_step a else u.

Lemma window_facts a from until now :
  wf_arc a -> period a <= now -> now + 2 * a_step a < TMAX ->
  0 <= from <= now -> now - period a <= until -> from <= until ->
  let f := win_from a from now in let u := win_until a from until now in
  good_time a f /\ good_time a u /\ f < u /\ (u - f) / a_step a <= a_n a /\ u <= now + 2 * a_step a.
Proof.
  intros (HS & HN & Hlen & HR) Hp Hnow Hfrom Huntil Hfu. unfold win_until, win_from, period in *.
  set (fr := Z.max from (now - a_step a * a_n a)). set (un := Z.min until now).
  assert (Hfr : now - a_step a * a_n a <= fr <= now) by lia.
  assert (Hun : fr <= un <= now) by lia.
  pose proof (mod_facts fr (a_step a) HS ltac:(lia)) as [Hm1 Hm2].
  pose proof (mod_facts un (a_step a) HS ltac:(lia)) as [Hm3 Hm4].
  set (f := fr - fr mod a_step a + a_step a).
  set (u0 := un - un mod a_step a + a_step a).
  assert (Hfa : f mod a_step a = 0).
  { unfold f. apply floor_plus_step_aligned. lia. }
  assert (Hua : u0 mod a_step a = 0).
  { unfold u0. apply floor_plus_step_aligned. lia. }
  (* f <= u0 because fr <= un and both are floor+step *)
  assert (Hle : f <= u0).
  { unfold f, u0. assert (fr / a_step a <= un / a_step a) by (apply Z.div_le_mono; lia).
    pose proof (Z.div_mod fr (a_step a) ltac:(lia)). pose proof (Z.div_mod un (a_step a) ltac:(lia)). nia. }
  assert (Hcnt : u0 - f <= a_step a * a_n a).
  { unfold f, u0.
    pose proof (Z.div_mod fr (a_step a) ltac:(lia)). pose proof (Z.div_mod un (a_step a) ltac:(lia)).
    assert (un / a_step a <= (fr + a_step a * a_n a) / a_step a) by (apply Z.div_le_mono; lia).
    rewrite (Z.mul_comm (a_step a) (a_n a)) in H1. rewrite Z.div_add in H1 by lia. nia. }
  destruct (Z.eqb_spec f u0) as [E|E]; cbv zeta.
  - (* degenerate: one step *)
    assert (Hu1 : (u0 + a_step a) mod a_step a = 0).
    { rewrite <- Zplus_mod_idemp_l, Hua. rewrite Z.add_0_l. apply Z_mod_same_full. }
    assert (Hc1 : (u0 + a_step a - f) / a_step a <= a_n a).
    { replace (u0 + a_step a - f) with (1 * a_step a) by lia. rewrite Z.div_mul by lia. lia. }
    repeat split; try assumption; unfold TMAX in *; lia.
  - assert (Hc1 : (u0 - f) / a_step a <= a_n a) by (apply Z.div_le_upper_bound; lia).
    repeat split; try assumption; unfold TMAX in *; lia.
Qed.

Lemma nth_error_range {A} (l : list A) id x : 0 <= id -> nth_error l (Z.to_nat id) = Some x -> id < zlen l.
Proof.
  intros Hid H. assert (Hlt : (Z.to_nat id < length l)%nat) by (apply nth_error_Some; congruence).
  unfold zlen. lia.
Qed.

Lemma Rel_base_zero_iff a log : Rel a log -> (base_interval a = 0 <-> log = []).
Proof.
  intros (Hwf & Hall & Hnil & Hne & Hsl). split; [|exact Hnil].
  intros H0. destruct log as [|p r]; [reflexivity|]. destruct (Hne ltac:(discriminate)) as [? ?]. lia.
Qed.

(** Main read theorem for an explicitly named archive. *)
Theorem fetch_named arcs id a log from until now :
  0 <= id -> nth_error arcs (Z.to_nat id) = Some a -> Rel a log ->
  period a <= now -> now + 2 * a_step a < TMAX ->
  0 <= from < 2^32 -> 0 <= until < 2^32 -> from <= until ->
  if (from >? now) || (until <? now - period a)
  then fetch_from_archive arcs id from until now = FNone
  else
    let f := win_from a from now in let u := win_until a from until now in
    exists vs,
      fetch_from_archive arcs id from until now = FSeries (mkSeries f u (a_step a) vs) /\
      zlen vs = (u - f) / a_step a /\
      forall k, 0 <= k < (u - f) / a_step a -> znth NaN vs k = live log (period a) (f + k * a_step a).
Proof.
  intros Hid Hnth HRel Hp Hnow Hfrom Huntil Hfu.
  pose proof (Rel_wf a log HRel) as Hwf. pose proof Hwf as (HS & HN & Hlen & HR).
  pose proof (nth_error_range arcs id a Hid Hnth) as Hidr.
  assert (Hmr : max_retention a = period a) by (apply max_retention_period; assumption).
  assert (Hold : ts_add now (i32 (- max_retention a)) = now - period a).
  { rewrite Hmr. unfold period, TMAX in *. rewrite i32_small by lia.
    rewrite ts_add_nowrap by (unfold TMAX; lia). lia. }
  unfold fetch_from_archive.
  destruct (Z.gtb_spec from until) as [|_]; [lia|].
  assert (Hidchk : (negb (id =? ArchiveIDBest) && (id <? 0)) || (zlen arcs - 1 <? id) = false).
  { unfold ArchiveIDBest. destruct (Z.eqb_spec id (-1)); [lia|].
    destruct (Z.ltb_spec id 0); [lia|]. destruct (Z.ltb_spec (zlen arcs - 1) id); [lia|]. reflexivity. }
  rewrite Hidchk. unfold ArchiveIDBest. destruct (Z.eqb_spec id (-1)) as [|_]; [lia|].
  rewrite Hnth. rewrite Hold.
  destruct (Z.gtb_spec from now) as [Hfn|Hfn]; cbn [orb]; [reflexivity|].
  destruct (Z.ltb_spec until (now - period a)) as [Hun|Hun]; [reflexivity|].
  cbv zeta.
  destruct (window_facts a from until now Hwf Hp Hnow ltac:(lia) Hun Hfu) as (Hgf & Hgu & Hlt & Hcnt & Hub).
  (* identify the computed window with win_from / win_until *)
  assert (Hfrom' : (if from <? now - period a then now - period a else from) = Z.max from (now - period a)).
  { destruct (Z.ltb_spec from (now - period a)); lia. }
  assert (Huntil' : (if until >? now then now else until) = Z.min until now).
  { destruct (Z.gtb_spec until now); lia. }
  rewrite Hfrom', Huntil'.
  assert (Hfi : interval (a_step a) (Z.max from (now - period a)) = win_from a from now).
  { unfold win_from. apply interval_spec; unfold period, TMAX in *; lia. }
  assert (Hui0 : interval (a_step a) (Z.min until now) =
                 Z.min until now - Z.min until now mod a_step a + a_step a).
  { apply interval_spec; unfold period, TMAX in *; lia. }
  rewrite Hfi, Hui0.
  assert (Hui : (if win_from a from now =? Z.min until now - Z.min until now mod a_step a + a_step a
                 then ts_add (Z.min until now - Z.min until now mod a_step a + a_step a) (a_step a)
                 else Z.min until now - Z.min until now mod a_step a + a_step a) = win_until a from until now).
  { unfold win_until.
    destruct (win_from a from now =? Z.min until now - Z.min until now mod a_step a + a_step a) eqn:E; [|reflexivity].
    pose proof (mod_facts (Z.min until now) (a_step a) HS ltac:(lia)).
    apply ts_add_nowrap; unfold TMAX in *; lia. }
  rewrite Hui.
  set (f := win_from a from now) in *. set (u := win_until a from until now) in *.
  assert (Hquot : Z.quot (ts_sub u f) (a_step a) = (u - f) / a_step a).
  { destruct Hgf as [? ?]. destruct Hgu as [? ?].
    rewrite ts_sub_nowrap by (unfold TMAX in *; lia). apply quot_div_nonneg; lia. }
  destruct (Z.eqb_spec (base_interval a) 0) as [Hb0|Hb0].
  - (* never written *)
    assert (Hlog : log = []) by (apply (Rel_base_zero_iff a log HRel); assumption). subst log.
    eexists. split; [reflexivity|]. rewrite Hquot.
    assert (0 <= (u - f) / a_step a) by (apply Z.div_pos; lia).
    split; [rewrite zlen_repeat; lia|].
    intros k Hk. rewrite znth_repeat_same. reflexivity.
  - destruct (fetch_window_is_live a log f u HRel Hgf Hgu Hlt Hcnt) as (ps & Hps & Hl & Hv).
    rewrite Hps. eexists. split; [reflexivity|]. split; assumption.
Qed.

(** Errors and the best archive. *)
Lemma fetch_err_interval arcs id from until now : from > until ->
  fetch_from_archive arcs id from until now = FErrInterval.
Proof. intros. unfold fetch_from_archive. destruct (Z.gtb_spec from until); [reflexivity|lia]. Qed.

Lemma fetch_err_archive arcs id from until now : from <= until ->
  (id < -1 \/ zlen arcs <= id) -> fetch_from_archive arcs id from until now = FErrArchive.
Proof.
  intros Hfu Hid. pose proof (zlen_nonneg arcs). unfold fetch_from_archive, ArchiveIDBest.
  destruct (Z.gtb_spec from until); [lia|].
  destruct (Z.eqb_spec id (-1)); [lia|]. cbn [negb andb].
  destruct (Z.ltb_spec id 0); cbn [andb orb]; [reflexivity|].
  destruct (Z.ltb_spec (zlen arcs - 1) id); [reflexivity|lia].
Qed.

Lemma fetch_best_is_named arcs from until now : arcs <> [] -> Forall wf_arc arcs -> from <= until ->
  from <= now < TMAX -> 0 <= from ->
  let id := best_spec (map period arcs) from now in
  0 <= id < zlen arcs /\
  fetch_from_archive arcs ArchiveIDBest from until now = fetch_from_archive arcs id from until now.
Proof.
  intros Hne Hwf Hfu Hnow Hf0. cbv zeta.
  assert (Hr : 0 <= best_spec (map period arcs) from now < zlen arcs).
  { unfold best_spec. pose proof (best_from_range (map period arcs) 0 (now - from)) as H.
    rewrite zlen_map in H. apply H. destruct arcs; [contradiction|discriminate]. }
  split; [exact Hr|].
  assert (Hfb : find_best arcs from now = best_spec (map period arcs) from now).
  { unfold find_best, best_spec. rewrite find_best_from_spec by assumption.
    rewrite ts_sub_nowrap by (unfold TMAX in *; lia). reflexivity. }
  unfold fetch_from_archive at 1 2. unfold ArchiveIDBest.
  destruct (Z.gtb_spec from until); [reflexivity|].
  assert (Hz : 0 < zlen arcs) by lia.
  replace (negb (-1 =? -1) && (-1 <? 0) || (zlen arcs - 1 <? -1)) with false
    by (destruct (Z.ltb_spec (zlen arcs - 1) (-1)); [lia|reflexivity]).
  set (b := best_spec (map period arcs) from now) in *.
  replace (negb (b =? -1) && (b <? 0) || (zlen arcs - 1 <? b)) with false.
  2:{ destruct (Z.eqb_spec b (-1)); [lia|]. destruct (Z.ltb_spec b 0); [lia|].
      destruct (Z.ltb_spec (zlen arcs - 1) b); [lia|]. reflexivity. }
  cbn [Z.eqb]. rewrite Hfb. fold b. destruct (Z.eqb_spec b (-1)); [lia|]. reflexivity.
Qed.
Print Assumptions fetch_named.
Print Assumptions fetch_best_is_named.
