From WT Require Import Base.Wrap Base.ListX Model.FileBuf.

(** Buffer invariant: cached pages have the right length, and a clean cached page is
    the disk page. *)
Definition page_len (b : fbuf) (p : Z) : Z := page_hi (fb_size b) (fb_psz b) p - page_lo (fb_psz b) p.

Definition fb_inv (b : fbuf) : Prop :=
  0 < fb_psz b /\
  zlen (fb_pages b) = page_count (fb_size b) (fb_psz b) /\
  zlen (fb_dirty b) = page_count (fb_size b) (fb_psz b) /\
  forall p, 0 <= p < page_count (fb_size b) (fb_psz b) ->
    match znth None (fb_pages b) p with
    | None => znth false (fb_dirty b) p = false
    | Some pg => zlen pg = page_len b p /\
                 (znth false (fb_dirty b) p = false ->
                  forall j, 0 <= j < page_len b p -> znth 0 pg j = znth 0 (fb_disk b) (page_lo (fb_psz b) p + j))
    end.

Lemma page_of_byte size psz i : 0 < psz -> 0 <= i < size ->
  0 <= i / psz < page_count size psz /\ page_lo psz (i / psz) <= i < page_hi size psz (i / psz) /\
  i = page_lo psz (i / psz) + i mod psz.
Proof.
  intros Hp Hi. unfold page_count, page_lo, page_hi.
  pose proof (Z.div_mod i psz ltac:(lia)). pose proof (Z.mod_pos_bound i psz Hp).
  assert (0 <= i / psz) by (apply Z.div_pos; lia).
  assert (i / psz <= (size - 1) / psz) by (apply Z.div_le_mono; lia).
  assert ((size - 1) / psz < (size + psz - 1) / psz).
  { replace (size + psz - 1) with ((size - 1) + 1 * psz) by ring. rewrite Z.div_add by lia. lia. }
  repeat split; try lia; nia.
Qed.

(** A clean byte seen through the buffer is the disk byte. *)
Lemma view_clean b i : fb_inv b -> 0 <= i < fb_size b ->
  znth false (fb_dirty b) (i / fb_psz b) = false -> view b i = znth 0 (fb_disk b) i.
Proof.
  intros (Hp & Hl1 & Hl2 & Hpg) Hi Hclean. unfold view.
  destruct (page_of_byte (fb_size b) (fb_psz b) i Hp Hi) as (Hpr & Hrange & Hdecomp).
  specialize (Hpg (i / fb_psz b) Hpr).
  destruct (znth None (fb_pages b) (i / fb_psz b)) as [pg|]; [|reflexivity].
  destruct Hpg as [Hlen Hsame]. rewrite (Hsame Hclean (i mod fb_psz b)).
  - f_equal. lia.
  - unfold page_len. lia.
Qed.

(** Flushing makes the disk equal to the view, and does not change the view. *)
Theorem flush_disk_is_view b : fb_inv b ->
  forall i, 0 <= i < fb_size b -> znth 0 (fb_disk (flush b)) i = view b i.
Proof.
  intros Hinv i Hi. unfold flush; cbn [fb_disk].
  assert (Hlen : zlen (seq 0 (length (fb_disk b))) = fb_size b).
  { unfold zlen, fb_size, zlen. rewrite seq_length. reflexivity. }
  rewrite (znth_map (fun k => flushed_byte b (Z.of_nat k)) 0%nat 0) by (rewrite Hlen; lia).
  assert (Hs : znth 0%nat (seq 0 (length (fb_disk b))) i = Z.to_nat i).
  { unfold znth. rewrite seq_nth; [reflexivity|]. unfold fb_size, zlen in Hi. lia. }
  rewrite Hs. rewrite Z2Nat.id by lia.
  unfold flushed_byte. destruct (znth false (fb_dirty b) (i / fb_psz b)) eqn:E; [reflexivity|].
  symmetry. apply view_clean; assumption.
Qed.

Lemma flush_size b : fb_size (flush b) = fb_size b.
Proof. unfold flush, fb_size, zlen; cbn [fb_disk]. rewrite map_length, seq_length. reflexivity. Qed.
Print Assumptions flush_disk_is_view.
