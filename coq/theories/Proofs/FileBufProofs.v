From WT Require Import Base.Wrap Base.ListX Model.FileBuf.

(** Buffer invariant: cached pages have the right length, and a clean cached page is
    the disk page. *)
Definition page_len (b : fbuf) (p : Z) : Z := page_hi (fb_size b) (fb_psz b) p - page_lo (fb_psz b) p.

Definition fb_inv (b : fbuf) : Prop :=
  0 < fb_psz b /\
  zlen (fb_pages b) = page_count (fb_size b) (fb_psz b) /\
  zlen (fb_dirty b) = page_count (fb_size b) (fb_psz b) /\
  forall p, 0 <= p < page_count (fb_size b) (fb_psz b) ->
    match znth None (fb_pages b) p with
    | None => znth false (fb_dirty b) p = false
    | Some pg => zlen pg = page_len b p /\
                 (znth false (fb_dirty b) p = false ->
                  forall j, 0 <= j < page_len b p -> znth 0 pg j = znth 0 (fb_disk b) (page_lo (fb_psz b) p + j))
    end.

Lemma page_of_byte size psz i : 0 < psz -> 0 <= i < size ->
  0 <= i / psz < page_count size psz /\ page_lo psz (i / psz) <= i < page_hi size psz (i / psz) /\
  i = page_lo psz (i / psz) + i mod psz.
Proof.
  intros Hp Hi. unfold page_count, page_lo, page_hi.
  pose proof (Z.div_mod i psz ltac:(lia)). pose proof (Z.mod_pos_bound i psz Hp).
  assert (0 <= i / psz) by (apply Z.div_pos; lia).
  assert (i / psz <= (size - 1) / psz) by (apply Z.div_le_mono; lia).
  assert ((size - 1) / psz < (size + psz - 1) / psz).
  { replace (size + psz - 1) with ((size - 1) + 1 * psz) by ring. rewrite Z.div_add by lia. lia. }
  repeat split; try lia; nia.
Qed.

(** A clean byte seen through the buffer is the disk byte. *)
Lemma view_clean b i : fb_inv b -> 0 <= i < fb_size b ->
  znth false (fb_dirty b) (i / fb_psz b) = false -> view b i = znth 0 (fb_disk b) i.
Proof.
  intros (Hp & Hl1 & Hl2 & Hpg) Hi Hclean. unfold view.
  destruct (page_of_byte (fb_size b) (fb_psz b) i Hp Hi) as (Hpr & Hrange & Hdecomp).
  specialize (Hpg (i / fb_psz b) Hpr).
  destruct (znth None (fb_pages b) (i / fb_psz b)) as [pg|]; [|reflexivity].
  destruct Hpg as [Hlen Hsame]. rewrite (Hsame Hclean (i mod fb_psz b)).
  - f_equal. lia.
  - unfold page_len. lia.
Qed.

(** Flushing makes the disk equal to the view, and does not change the view. *)
Theorem flush_disk_is_view b : fb_inv b ->
  forall i, 0 <= i < fb_size b -> znth 0 (fb_disk (flush b)) i = view b i.
Proof.
  intros Hinv i Hi. unfold flush; cbn [fb_disk].
  assert (Hlen : zlen (seq 0 (length (fb_disk b))) = fb_size b).
  { unfold zlen, fb_size, zlen. rewrite seq_length. reflexivity. }
  rewrite (znth_map (fun k => flushed_byte b (Z.of_nat k)) 0%nat 0) by (rewrite Hlen; lia).
  assert (Hs : znth 0%nat (seq 0 (length (fb_disk b))) i = Z.to_nat i).
  { unfold znth. rewrite seq_nth; [reflexivity|]. unfold fb_size, zlen in Hi. lia. }
  rewrite Hs. rewrite Z2Nat.id by lia.
  unfold flushed_byte. destruct (znth false (fb_dirty b) (i / fb_psz b)) eqn:E; [reflexivity|].
  symmetry. apply view_clean; assumption.
Qed.

Lemma flush_size b : fb_size (flush b) = fb_size b.
Proof. unfold flush, fb_size, zlen; cbn [fb_disk]. rewrite map_length, seq_length. reflexivity. Qed.
Print Assumptions flush_disk_is_view.

(** * Reads never change what the buffer shows (C05, C17) *)

(** caching one page: same disk, same view, invariant kept *)
Definition cache_page (b : fbuf) (p : Z) : fbuf :=
  match znth None (fb_pages b) p with
  | Some _ => b
  | None => mkFbuf (fb_disk b) (fb_psz b) (zupd (fb_pages b) p (Some (disk_page b p))) (fb_dirty b)
  end.

Lemma cache_page_disk b p : fb_disk (cache_page b p) = fb_disk b.
Proof. unfold cache_page. destruct (znth None (fb_pages b) p); reflexivity. Qed.
Lemma cache_page_psz b p : fb_psz (cache_page b p) = fb_psz b.
Proof. unfold cache_page. destruct (znth None (fb_pages b) p); reflexivity. Qed.
Lemma cache_page_dirty b p : fb_dirty (cache_page b p) = fb_dirty b.
Proof. unfold cache_page. destruct (znth None (fb_pages b) p); reflexivity. Qed.

Lemma disk_page_len b p : 0 < fb_psz b -> 0 <= p < page_count (fb_size b) (fb_psz b) ->
  zlen (disk_page b p) = page_len b p /\ 0 < page_len b p.
Proof.
  intros Hp Hr. unfold disk_page, page_len, page_lo, page_hi, page_count in *.
  assert (p * fb_psz b < fb_size b).
  { assert (p <= (fb_size b + fb_psz b - 1) / fb_psz b - 1) by lia.
    assert (p * fb_psz b <= ((fb_size b + fb_psz b - 1) / fb_psz b - 1) * fb_psz b) by (apply Z.mul_le_mono_nonneg_r; lia).
    pose proof (Z.mul_div_le (fb_size b + fb_psz b - 1) (fb_psz b) Hp). lia. }
  assert (0 <= p * fb_psz b) by (apply Z.mul_nonneg_nonneg; lia).
  unfold fb_size in *. rewrite slice_length by lia. lia.
Qed.

Lemma cache_page_inv b p : fb_inv b -> 0 <= p < page_count (fb_size b) (fb_psz b) -> fb_inv (cache_page b p).
Proof.
  intros Hinv Hr. pose proof Hinv as (Hp & Hl1 & Hl2 & Hpg). unfold cache_page.
  destruct (znth None (fb_pages b) p) as [pg|] eqn:E; [exact Hinv|].
  unfold fb_inv, fb_size. cbn [fb_disk fb_psz fb_pages fb_dirty]. fold (fb_size b).
  split; [exact Hp|]. split; [rewrite zlen_zupd; exact Hl1|]. split; [exact Hl2|].
  intros q Hq. rewrite znth_zupd by lia.
  destruct (Z.eqb_spec q p) as [->|Hne].
  - destruct (disk_page_len b p Hp Hr) as [Hlen Hpos].
    unfold page_len, fb_size in *. cbn [fb_disk fb_psz]. split; [exact Hlen|].
    intros _ j Hj. unfold disk_page.
    assert (H0 : 0 <= p * fb_psz b) by (apply Z.mul_nonneg_nonneg; lia).
    unfold page_lo, page_hi, fb_size in *.
    rewrite znth_slice by lia. reflexivity.
  - specialize (Hpg q Hq). destruct (znth None (fb_pages b) q); exact Hpg.
Qed.

Lemma cache_page_view b p i : fb_inv b -> 0 <= p < page_count (fb_size b) (fb_psz b) -> 0 <= i < fb_size b ->
  view (cache_page b p) i = view b i.
Proof.
  intros Hinv Hr Hi. pose proof Hinv as (Hp & Hl1 & Hl2 & Hpg). unfold cache_page.
  destruct (znth None (fb_pages b) p) as [pg|] eqn:E; [reflexivity|].
  unfold view. cbn [fb_pages fb_psz fb_disk].
  destruct (page_of_byte (fb_size b) (fb_psz b) i Hp Hi) as (Hpr & Hrange & Hdecomp).
  rewrite znth_zupd by lia.
  destruct (Z.eqb_spec (i / fb_psz b) p) as [Heq|Hne]; [|reflexivity].
  rewrite <- Heq in E. rewrite E. subst p.
  unfold disk_page.
  assert (H0 : 0 <= page_lo (fb_psz b) (i / fb_psz b)).
  { unfold page_lo. apply Z.mul_nonneg_nonneg; lia. }
  assert (H1 : page_hi (fb_size b) (fb_psz b) (i / fb_psz b) <= zlen (fb_disk b)) by (unfold page_hi, fb_size; lia).
  pose proof (Z.mod_pos_bound i (fb_psz b) Hp) as Hm.
  rewrite znth_slice by lia. f_equal. lia.
Qed.

Lemma load_pages_cache b p n : load_pages b p (S n) = load_pages (cache_page b p) (p + 1) n.
Proof. reflexivity. Qed.

Theorem load_pages_facts : forall n b p, fb_inv b -> 0 <= p -> p + Z.of_nat n <= page_count (fb_size b) (fb_psz b) ->
  fb_inv (load_pages b p n) /\ fb_disk (load_pages b p n) = fb_disk b /\ fb_dirty (load_pages b p n) = fb_dirty b /\
  fb_psz (load_pages b p n) = fb_psz b /\
  forall i, 0 <= i < fb_size b -> view (load_pages b p n) i = view b i.
Proof.
  induction n as [|n IH]; intros b p Hinv Hp0 Hpn.
  { cbn [load_pages]. split; [exact Hinv|]. repeat split; reflexivity. }
  rewrite load_pages_cache.
  assert (Hr : 0 <= p < page_count (fb_size b) (fb_psz b)) by lia.
  pose proof (cache_page_inv b p Hinv Hr) as Hinv'.
  assert (Hsz : fb_size (cache_page b p) = fb_size b) by (unfold fb_size; rewrite cache_page_disk; reflexivity).
  destruct (IH (cache_page b p) (p + 1) Hinv' ltac:(lia)) as (H1 & H2 & H3 & H4 & H5).
  { rewrite Hsz, cache_page_psz. lia. }
  split; [exact H1|]. split; [rewrite H2; apply cache_page_disk|]. split; [rewrite H3; apply cache_page_dirty|].
  split; [rewrite H4; apply cache_page_psz|].
  intros i Hi. rewrite H5 by (rewrite Hsz; exact Hi). apply cache_page_view; assumption.
Qed.

(** the pages a range touches exist *)
Lemma range_pages b off len : 0 < fb_psz b -> 0 <= off -> 0 < len -> off + len <= fb_size b ->
  0 <= first_page b off /\ first_page b off <= last_page b off len /\
  last_page b off len < page_count (fb_size b) (fb_psz b).
Proof.
  intros Hp Ho Hl Hb. unfold first_page, last_page.
  destruct (page_of_byte (fb_size b) (fb_psz b) (off + len - 1) Hp ltac:(lia)) as ((H1 & H2) & _).
  split; [apply Z.div_pos; lia|]. split; [apply Z.div_le_mono; lia|exact H2].
Qed.

(** [ReadAt]: returns what the buffer showed, shows the same afterwards, leaves the disk alone *)
Theorem read_at_spec b off len : fb_inv b -> 0 < len ->
  match read_at b off len with
  | IoErr => ~ (0 <= off /\ off + len <= fb_size b)
  | IoOk (b', data) =>
    fb_inv b' /\ fb_disk b' = fb_disk b /\ fb_dirty b' = fb_dirty b /\
    (forall i, 0 <= i < fb_size b -> view b' i = view b i) /\
    data = map (fun k => view b (off + Z.of_nat k)) (seq 0 (Z.to_nat len))
  end.
Proof.
  intros Hinv Hlen. pose proof Hinv as (Hp & _). unfold read_at, in_bounds.
  destruct (Z.leb_spec 0 off) as [Ho|Ho]; cbn [andb]; [|lia].
  destruct (Z.leb_spec (off + len) (fb_size b)) as [Hb|Hb]; [|lia].
  destruct (range_pages b off len Hp Ho Hlen Hb) as (Hf & Hfl & Hlp).
  unfold preread.
  destruct (load_pages_facts (Z.to_nat (last_page b off len - first_page b off + 1)) b (first_page b off) Hinv Hf ltac:(lia))
    as (H1 & H2 & H3 & H4 & H5).
  split; [exact H1|]. split; [exact H2|]. split; [exact H3|]. split; [exact H5|].
  apply map_ext_in. intros k Hk. apply in_seq in Hk. apply H5. lia.
Qed.

(** * Writes change the view exactly in the written range and never touch the disk *)
Lemma poke_disk b i v : fb_disk (poke b i v) = fb_disk b.
Proof. unfold poke. destruct (znth None (fb_pages b) (i / fb_psz b)); reflexivity. Qed.
Lemma poke_psz b i v : fb_psz (poke b i v) = fb_psz b.
Proof. unfold poke. destruct (znth None (fb_pages b) (i / fb_psz b)); reflexivity. Qed.

Definition cached (b : fbuf) (i : Z) : Prop := exists pg, znth None (fb_pages b) (i / fb_psz b) = Some pg.

Lemma poke_view b i v j : fb_inv b -> 0 <= i < fb_size b -> cached b i -> 0 <= j < fb_size b ->
  view (poke b i v) j = if j =? i then v else view b j.
Proof.
  intros Hinv Hi [pg Hpg] Hj. pose proof Hinv as (Hp & Hl1 & Hl2 & Hall).
  destruct (page_of_byte (fb_size b) (fb_psz b) i Hp Hi) as (Hpr & Hrange & Hdecomp).
  destruct (page_of_byte (fb_size b) (fb_psz b) j Hp Hj) as (Hprj & Hrangej & Hdecompj).
  pose proof (Hall (i / fb_psz b) Hpr) as Hpi. rewrite Hpg in Hpi. destruct Hpi as [Hlen _].
  unfold poke. rewrite Hpg. unfold view. cbn [fb_pages fb_psz].
  rewrite znth_zupd by lia.
  destruct (Z.eqb_spec (j / fb_psz b) (i / fb_psz b)) as [Heq|Hne].
  - rewrite Heq, Hpg. pose proof (Z.mod_pos_bound i (fb_psz b) Hp). pose proof (Z.mod_pos_bound j (fb_psz b) Hp).
    unfold page_len, page_lo, page_hi in *.
    rewrite znth_zupd by lia.
    destruct (Z.eqb_spec (j mod fb_psz b) (i mod fb_psz b)); destruct (Z.eqb_spec j i); try reflexivity; lia.
  - destruct (Z.eqb_spec j i); [subst; contradiction|reflexivity].
Qed.

(** the disk is not touched by reads and writes, whatever the state of the buffer *)
Lemma load_pages_disk : forall n b p, fb_disk (load_pages b p n) = fb_disk b.
Proof.
  induction n as [|n IH]; intros b p; [reflexivity|]. rewrite load_pages_cache, IH. apply cache_page_disk.
Qed.
Lemma fold_poke_disk : forall data b i,
  fb_disk (fst (fold_left (fun '(bb, k) v => (poke bb k v, k + 1)) data (b, i))) = fb_disk b.
Proof.
  induction data as [|v r IH]; intros b i; [reflexivity|]. cbn [fold_left]. rewrite IH. apply poke_disk.
Qed.
Theorem write_at_disk b off data b' : write_at b off data = IoOk b' -> fb_disk b' = fb_disk b.
Proof.
  unfold write_at. destruct (in_bounds b off (zlen data)); [|discriminate].
  intros E; injection E as <-. rewrite fold_poke_disk. unfold preread. apply load_pages_disk.
Qed.
Theorem read_at_disk b off len b' data : read_at b off len = IoOk (b', data) -> fb_disk b' = fb_disk b.
Proof.
  unfold read_at. destruct (in_bounds b off len); [|discriminate].
  intros E; injection E as <- _. unfold preread. apply load_pages_disk.
Qed.

(** a read issued after another read returns what it returns alone, and leaves the same view:
    by induction any interleaving of the atomic ReadAt steps of concurrent fetches gives each
    fetch the bytes it would have read alone *)
Theorem read_after_read b o1 l1 o2 l2 b1 d1 : fb_inv b -> 0 < l1 -> 0 < l2 ->
  read_at b o1 l1 = IoOk (b1, d1) ->
  match read_at b o2 l2, read_at b1 o2 l2 with
  | IoOk (_, d2), IoOk (_, d2') => d2' = d2
  | IoErr, IoErr => True
  | _, _ => False
  end.
Proof.
  intros Hinv H1 H2 E1.
  pose proof (read_at_spec b o1 l1 Hinv H1) as S1. rewrite E1 in S1.
  destruct S1 as (Hinv1 & Hd1 & _ & Hv1 & _).
  assert (Hsz : fb_size b1 = fb_size b) by (unfold fb_size; rewrite Hd1; reflexivity).
  pose proof (read_at_spec b o2 l2 Hinv H2) as S2. pose proof (read_at_spec b1 o2 l2 Hinv1 H2) as S2'.
  unfold read_at in *. unfold in_bounds in *. rewrite Hsz in *.
  destruct ((0 <=? o2) && (o2 + l2 <=? fb_size b)) eqn:Eb; [|exact I].
  destruct S2 as (_ & _ & _ & _ & ->). destruct S2' as (_ & _ & _ & _ & ->).
  apply map_ext_in. intros k Hk. apply in_seq in Hk. apply Hv1.
  apply andb_true_iff in Eb. destruct Eb as [Ea Ec]. apply Z.leb_le in Ea, Ec. lia.
Qed.


(** * Writes: the view changes exactly in the written range *)
Definition pcached (b : fbuf) (q : Z) : Prop := exists pg, znth None (fb_pages b) q = Some pg.
Definition pc (b : fbuf) : Z := page_count (fb_size b) (fb_psz b).

Lemma cache_page_size b p : fb_size (cache_page b p) = fb_size b.
Proof. unfold fb_size. rewrite cache_page_disk. reflexivity. Qed.
Lemma cache_page_pc b p : pc (cache_page b p) = pc b.
Proof. unfold pc. rewrite cache_page_size, cache_page_psz. reflexivity. Qed.

Lemma cache_page_keeps b p q : fb_inv b -> 0 <= p < pc b -> 0 <= q < pc b -> pcached b q -> pcached (cache_page b p) q.
Proof.
  intros (Hp & Hl1 & _) Hpr Hqr [pg Hpg]. unfold pcached, cache_page, pc in *.
  destruct (znth None (fb_pages b) p) eqn:E; [exists pg; exact Hpg|].
  cbn [fb_pages]. rewrite znth_zupd by lia. destruct (Z.eqb_spec q p); [eexists; reflexivity|exists pg; exact Hpg].
Qed.
Lemma cache_page_caches b p : fb_inv b -> 0 <= p < pc b -> pcached (cache_page b p) p.
Proof.
  intros (Hp & Hl1 & _) Hpr. unfold pcached, cache_page, pc in *.
  destruct (znth None (fb_pages b) p) as [pg|] eqn:E; [exists pg; exact E|].
  cbn [fb_pages]. rewrite znth_zupd by lia. rewrite Z.eqb_refl. eexists; reflexivity.
Qed.

Lemma load_pages_cached : forall n b p q, fb_inv b -> 0 <= p -> p + Z.of_nat n <= pc b -> 0 <= q < pc b ->
  pcached b q \/ p <= q < p + Z.of_nat n -> pcached (load_pages b p n) q.
Proof.
  induction n as [|n IH]; intros b p q Hinv Hp0 Hpn Hq Hc; [destruct Hc as [Hc|Hc]; [exact Hc|lia]|].
  rewrite load_pages_cache.
  assert (Hr : 0 <= p < pc b) by lia.
  apply IH; try (rewrite cache_page_pc); try lia; try (apply cache_page_inv; assumption).
  destruct Hc as [Hc|Hc]; [left; apply cache_page_keeps; assumption|].
  destruct (Z.eq_dec q p) as [->|Hne]; [left; apply cache_page_caches; assumption|right; lia].
Qed.

Lemma poke_size b i v : fb_size (poke b i v) = fb_size b.
Proof. unfold fb_size. rewrite poke_disk. reflexivity. Qed.
Lemma poke_pc b i v : pc (poke b i v) = pc b.
Proof. unfold pc. rewrite poke_size, poke_psz. reflexivity. Qed.

Lemma poke_keeps b i v q : fb_inv b -> 0 <= i < fb_size b -> 0 <= q < pc b -> pcached b q -> pcached (poke b i v) q.
Proof.
  intros Hinv Hi Hq [pg Hpg]. pose proof Hinv as (Hp & Hl1 & _).
  destruct (page_of_byte (fb_size b) (fb_psz b) i Hp Hi) as (Hpr & _).
  unfold pcached, poke, pc in *. destruct (znth None (fb_pages b) (i / fb_psz b)) as [pgi|] eqn:E; [|exists pg; exact Hpg].
  cbn [fb_pages]. rewrite znth_zupd by lia.
  destruct (Z.eqb_spec q (i / fb_psz b)); [eexists; reflexivity|exists pg; exact Hpg].
Qed.

Lemma poke_inv b i v : fb_inv b -> 0 <= i < fb_size b -> pcached b (i / fb_psz b) -> fb_inv (poke b i v).
Proof.
  intros Hinv Hi [pgi Hpgi]. pose proof Hinv as (Hp & Hl1 & Hl2 & Hall).
  destruct (page_of_byte (fb_size b) (fb_psz b) i Hp Hi) as (Hpr & Hrange & _).
  pose proof (Hall _ Hpr) as Hpi. rewrite Hpgi in Hpi. destruct Hpi as [Hlen _].
  unfold poke. rewrite Hpgi. unfold fb_inv, fb_size, page_len. cbn [fb_disk fb_psz fb_pages fb_dirty]. fold (fb_size b).
  split; [exact Hp|]. split; [rewrite zlen_zupd; exact Hl1|]. split; [rewrite zlen_zupd; exact Hl2|].
  intros q Hq. rewrite !znth_zupd by lia.
  destruct (Z.eqb_spec q (i / fb_psz b)) as [->|Hne].
  - split; [rewrite zlen_zupd; exact Hlen|]. intros Hd. discriminate.
  - specialize (Hall q Hq). exact Hall.
Qed.

(** writing the bytes [data] at [i]: afterwards the buffer shows [data] there and what it showed
    before everywhere else *)
Lemma fold_poke_spec : forall data b i, fb_inv b -> 0 <= i -> i + zlen data <= fb_size b ->
  (forall j, i <= j < i + zlen data -> pcached b (j / fb_psz b)) ->
  let b' := fst (fold_left (fun '(bb, k) v => (poke bb k v, k + 1)) data (b, i)) in
  fb_inv b' /\ fb_size b' = fb_size b /\
  forall j, 0 <= j < fb_size b -> view b' j = if (i <=? j) && (j <? i + zlen data) then znth 0 data (j - i) else view b j.
Proof.
  induction data as [|v r IH]; intros b i Hinv Hi Hb Hc; cbn zeta.
  - cbn [fold_left fst]. split; [exact Hinv|]. split; [reflexivity|]. intros j Hj. rewrite zlen_nil.
    destruct (Z.leb_spec i j), (Z.ltb_spec j (i + 0)); cbn; try reflexivity; lia.
  - rewrite zlen_cons in *. pose proof (zlen_nonneg r) as Hr0. cbn [fold_left].
    assert (Hir : 0 <= i < fb_size b) by lia.
    pose proof Hinv as (Hp & _).
    assert (Hci : pcached b (i / fb_psz b)) by (apply Hc; lia).
    pose proof (poke_inv b i v Hinv Hir Hci) as Hinv1.
    destruct (IH (poke b i v) (i + 1) Hinv1 ltac:(lia)) as (H1 & H2 & H3).
    { rewrite poke_size. lia. }
    { intros j Hj. rewrite poke_psz.
      destruct (page_of_byte (fb_size b) (fb_psz b) j Hp ltac:(lia)) as (Hjr & _).
      apply poke_keeps; try assumption. apply Hc. lia. }
    cbn zeta in H1, H2, H3. split; [exact H1|]. split; [rewrite H2; apply poke_size|].
    intros j Hj. rewrite H3 by (rewrite poke_size; exact Hj).
    rewrite (poke_view b i v j Hinv Hir Hci Hj).
    destruct (Z.leb_spec (i + 1) j), (Z.ltb_spec j (i + 1 + zlen r)), (Z.leb_spec i j), (Z.ltb_spec j (i + (zlen r + 1))),
      (Z.eqb_spec j i); cbn [andb]; try lia; try reflexivity.
    + replace (j - i) with (j - (i + 1) + 1) by lia. unfold znth.
      replace (Z.to_nat (j - (i + 1) + 1)) with (S (Z.to_nat (j - (i + 1)))) by lia. reflexivity.
    + subst j. rewrite Z.sub_diag. reflexivity.
Qed.

Theorem write_at_spec b off data : fb_inv b -> 0 < zlen data ->
  match write_at b off data with
  | IoErr => ~ (0 <= off /\ off + zlen data <= fb_size b)
  | IoOk b' =>
    fb_inv b' /\ fb_disk b' = fb_disk b /\
    forall j, 0 <= j < fb_size b ->
      view b' j = if (off <=? j) && (j <? off + zlen data) then znth 0 data (j - off) else view b j
  end.
Proof.
  intros Hinv Hlen. pose proof Hinv as (Hp & _). unfold write_at, in_bounds.
  destruct (Z.leb_spec 0 off) as [Ho|Ho]; cbn [andb]; [|lia].
  destruct (Z.leb_spec (off + zlen data) (fb_size b)) as [Hb|Hb]; [|lia].
  destruct (range_pages b off (zlen data) Hp Ho Hlen Hb) as (Hf & Hfl & Hlp).
  unfold preread.
  set (n := Z.to_nat (last_page b off (zlen data) - first_page b off + 1)).
  destruct (load_pages_facts n b (first_page b off) Hinv Hf ltac:(unfold n; lia)) as (H1 & H2 & H3 & H4 & H5).
  set (b1 := load_pages b (first_page b off) n) in *.
  assert (Hsz1 : fb_size b1 = fb_size b) by (unfold fb_size; rewrite H2; reflexivity).
  destruct (fold_poke_spec data b1 off H1 Ho ltac:(lia)) as (G1 & G2 & G3).
  { intros j Hj. rewrite H4.
    destruct (page_of_byte (fb_size b) (fb_psz b) j Hp ltac:(lia)) as (Hjr & _).
    apply load_pages_cached; try assumption; try (unfold pc, n; lia).
    right. unfold first_page, last_page, n.
    assert (off / fb_psz b <= j / fb_psz b) by (apply Z.div_le_mono; lia).
    assert (j / fb_psz b <= (off + zlen data - 1) / fb_psz b) by (apply Z.div_le_mono; lia).
    unfold first_page, last_page in *. lia. }
  cbn zeta in G1, G2, G3. split; [exact G1|]. split; [rewrite fold_poke_disk; exact H2|].
  intros j Hj. rewrite G3 by (rewrite Hsz1; exact Hj). rewrite H5 by exact Hj. reflexivity.
Qed.

(** * Flush: the disk becomes the view; the view and the invariant are unchanged *)
Theorem flush_view b j : fb_inv b -> 0 <= j < fb_size b -> view (flush b) j = view b j.
Proof.
  intros Hinv Hj. pose proof Hinv as (Hp & Hl1 & Hl2 & Hall).
  destruct (page_of_byte (fb_size b) (fb_psz b) j Hp Hj) as (Hpr & _).
  pose proof (flush_disk_is_view b Hinv j Hj) as Hf.
  unfold view in *. cbn [flush fb_pages fb_psz fb_disk] in *.
  destruct (znth None (fb_pages b) (j / fb_psz b)) as [pg|] eqn:E; [reflexivity|exact Hf].
Qed.

(** * any sequence (hence any interleaving) of reads *)
Fixpoint run_reads (b : fbuf) (rs : list (Z * Z)) : list (option (list Z)) :=
  match rs with
  | [] => []
  | (off, len) :: r =>
    match read_at b off len with
    | IoOk (b', data) => Some data :: run_reads b' r
    | IoErr => None :: run_reads b r
    end
  end.

Definition read_alone (b : fbuf) (r : Z * Z) : option (list Z) :=
  match read_at b (fst r) (snd r) with IoOk (_, data) => Some data | IoErr => None end.

(** every read of the sequence returns what it returns when it is the only read issued *)
Theorem run_reads_independent : forall rs b, fb_inv b -> Forall (fun r => 0 < snd r) rs ->
  run_reads b rs = map (read_alone b) rs.
Proof.
  induction rs as [|[off len] r IH]; intros b Hinv Hpos; [reflexivity|].
  inversion Hpos as [|? ? Hl Hr]; subst. cbn [snd] in Hl. cbn [run_reads map].
  pose proof (read_at_spec b off len Hinv Hl) as Hs.
  unfold read_alone at 1. cbn [fst snd].
  destruct (read_at b off len) as [[b' data]|] eqn:E.
  - destruct Hs as (Hinv' & Hdisk & Hdirty & Hview & Hdata). f_equal.
    rewrite (IH b' Hinv' Hr). apply map_ext_in. intros [o l] Hin.
    rewrite Forall_forall in Hr. specialize (Hr _ Hin). cbn [snd] in Hr.
    unfold read_alone. cbn [fst snd].
    pose proof (read_after_read b off len o l b' data Hinv Hl Hr E) as Hrr.
    destruct (read_at b o l) as [[? d2]|]; destruct (read_at b' o l) as [[? d2']|]; try contradiction; congruence.
  - f_equal. apply IH; assumption.
Qed.
Print Assumptions run_reads_independent.
