(** The real-number meaning of the float32 known-fraction test of propagation (execution instance
    [fl_frac_lt] of [f_frac_lt]); uses Flocq and therefore the standard real-number axioms. *)
From Coq Require Import ZArith Reals Lia Lra Psatz.
From Flocq Require Import Core.Core IEEE754.BinarySingleNaN IEEE754.Binary IEEE754.Bits.
From WT Require Import Model.Update Inst.FloatInst.
Open Scope Z_scope.

Local Notation fexp32 := (SpecFloat.fexp 24 128).
Local Notation rnd32 := (round radix2 fexp32 ZnearestE).

Lemma fexp32_FLT : fexp32 = FLT_exp (3 - 128 - 24) 24.
Proof. reflexivity. Qed.

Local Instance prec24 : Prec_gt_0 24.
Proof. unfold Prec_gt_0; lia. Qed.
Local Instance valid32 : Valid_exp fexp32.
Proof. rewrite fexp32_FLT. apply FLT_exp_valid. exact prec24. Qed.

Lemma int_format n : Z.abs n < 2^24 -> generic_format radix2 fexp32 (IZR n).
Proof.
  intros Hn. rewrite fexp32_FLT. apply generic_format_FLT.
  apply (FLT_spec radix2 (3 - 128 - 24) 24 (IZR n) (Float radix2 n 0)).
  - unfold F2R; simpl. ring.
  - simpl. exact Hn.
  - simpl. lia.
Qed.

Lemma b32_of_int_exact n : Z.abs n < 2^24 ->
  B2R 24 128 (b32_of_int n) = IZR n /\ is_finite 24 128 (b32_of_int n) = true.
Proof.
  intros Hn. unfold b32_of_int.
  pose proof (binary_normalize_correct 24 128 eq_refl eq_refl mode_NE n 0 false) as H.
  assert (HF : F2R (Float radix2 n 0) = IZR n) by (unfold F2R; simpl; ring).
  rewrite HF in H. cbn [round_mode] in H.
  rewrite (round_generic radix2 fexp32 ZnearestE (IZR n) (int_format n Hn)) in H.
  rewrite Rlt_bool_true in H.
  - destruct H as (H1 & H2 & _). split; assumption.
  - rewrite <- abs_IZR. apply Rlt_le_trans with (IZR (2^24)).
    + apply IZR_lt. exact Hn.
    + change (bpow radix2 128) with (IZR (2^128)). apply IZR_le. lia.
Qed.

(** the known-fraction test of propagation: float32(k) / float32(n) < xff, all in float32 *)
Theorem fl_frac_lt_spec k n xff :
  0 <= k <= n -> 0 < n < 2^24 -> is_finite 24 128 (b32_of_bits xff) = true ->
  (fl_frac_lt k n xff = true <-> (rnd32 (IZR k / IZR n) < B2R 24 128 (b32_of_bits xff))%R).
Proof.
  intros Hk Hn Hx.
  destruct (b32_of_int_exact k ltac:(lia)) as [Rk Fk].
  destruct (b32_of_int_exact n ltac:(lia)) as [Rn Fn].
  assert (HnR : (0 < IZR n)%R) by (apply IZR_lt; lia).
  assert (HkR : (0 <= IZR k)%R) by (apply IZR_le; lia).
  assert (Hq : (0 <= IZR k / IZR n <= 1)%R).
  { assert (Hkn : (IZR k <= IZR n)%R) by (apply IZR_le; lia).
    split.
    - unfold Rdiv. apply Rmult_le_pos; [assumption | left; apply Rinv_0_lt_compat; assumption].
    - unfold Rdiv. apply (Rmult_le_reg_r (IZR n)); [exact HnR|]. rewrite Rmult_assoc, Rinv_l by lra. lra. }
  assert (H1 : generic_format radix2 fexp32 1%R) by (change 1%R with (IZR 1); apply int_format; cbn; lia).
  assert (Hr : (0 <= rnd32 (IZR k / IZR n) <= 1)%R).
  { split.
    - rewrite <- (round_0 radix2 fexp32 ZnearestE). apply round_le; try typeclasses eauto. apply Hq.
    - rewrite <- (round_generic radix2 fexp32 ZnearestE 1%R H1). apply round_le; try typeclasses eauto. apply Hq. }
  unfold fl_frac_lt, b32_div, b32_compare.
  match goal with |- context [Bdiv ?p ?e ?hp ?he ?nan ?m ?x ?y] =>
    pose proof (Bdiv_correct p e hp he nan m x y) as Hd end.
  rewrite Rk, Rn in Hd. cbn [round_mode] in Hd.
  specialize (Hd ltac:(lra)).
  rewrite Rlt_bool_true in Hd.
  2:{ rewrite Rabs_pos_eq by apply Hr. apply Rle_lt_trans with 1%R; [apply Hr|].
      change (bpow radix2 128) with (IZR (2^128)). apply IZR_lt. lia. }
  destruct Hd as (Hv & Hf & _).
  rewrite Bcompare_correct; [| rewrite Hf; exact Fk | exact Hx].
  rewrite Hv.
  destruct (Rcompare_spec (rnd32 (IZR k / IZR n)) (B2R 24 128 (b32_of_bits xff))) as [Hlt|Heq|Hgt].
  - split; [intros _; exact Hlt | reflexivity].
  - split; [discriminate | intros H; lra].
  - split; [discriminate | intros H; lra].
Qed.

(** ... hence a slot is only ever left unstored when the true fraction of known finer slots is
    below xFilesFactor: a fraction that is at least xFilesFactor is never rejected by rounding *)
Corollary fraction_at_least_xff_is_stored k n xff :
  0 <= k <= n -> 0 < n < 2^24 -> is_finite 24 128 (b32_of_bits xff) = true ->
  (B2R 24 128 (b32_of_bits xff) <= IZR k / IZR n)%R -> fl_frac_lt k n xff = false.
Proof.
  intros Hk Hn Hx Hge.
  destruct (fl_frac_lt k n xff) eqn:E; [|reflexivity].
  apply (fl_frac_lt_spec k n xff Hk Hn Hx) in E.
  exfalso.
  assert (Hfmt : generic_format radix2 fexp32 (B2R 24 128 (b32_of_bits xff))) by apply generic_format_B2R.
  assert (Hle : (B2R 24 128 (b32_of_bits xff) <= rnd32 (IZR k / IZR n))%R).
  { rewrite <- (round_generic radix2 fexp32 ZnearestE _ Hfmt) at 1. apply round_le; try typeclasses eauto. exact Hge. }
  lra.
Qed.

