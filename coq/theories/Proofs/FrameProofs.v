(** Frame facts at the log level: which logs an update can touch.  These carry C02's
    "every other slot is left exactly as it was" and the correctness of the repaired
    copy (C08): writing archive j never changes the logs of archives finer than j, and
    adds to log j exactly its own direct entries. *)
From WT Require Import Base.Wrap Base.ListX Model.Time Model.Ring Model.Update Spec.LogSpec.

Lemma get_log_zupd_other logs i j x : i <> j -> 0 <= i -> 0 <= j -> get_log (zupd logs i x) j = get_log logs j.
Proof.
  intros Hne Hi Hj. unfold get_log, zupd.
  assert (Hn : Z.to_nat i <> Z.to_nat j) by lia. revert Hn. generalize (Z.to_nat i) (Z.to_nat j). clear.
  induction logs as [|l r IH]; intros a b Hab; [destruct a, b; reflexivity|].
  destruct a, b; cbn; try reflexivity; [lia|]. apply IH. lia.
Qed.
Lemma get_log_zupd_same logs i x : 0 <= i < zlen logs -> get_log (zupd logs i x) i = x.
Proof.
  intros Hi. unfold get_log, zupd, zlen in *. assert (Hn : (Z.to_nat i < length logs)%nat) by lia.
  revert Hn. generalize (Z.to_nat i). clear. induction logs as [|l r IH]; intros a Ha; cbn in *; [lia|].
  destruct a; cbn; [reflexivity|]. apply IH. lia.
Qed.
Lemma zlen_add_log logs i p : zlen (add_log logs i p) = zlen logs.
Proof. unfold add_log. apply zlen_zupd. Qed.

(** a propagation step at level [l] only adds to log [l] *)
Lemma spec_propagate_one_frame F m xff L logs l acc t logs' acc' j :
  spec_propagate_one F m xff L logs l acc t = Some (logs', acc') -> j <> l -> 0 <= j -> 0 <= l ->
  get_log logs' j = get_log logs j /\ zlen logs' = zlen logs.
Proof.
  unfold spec_propagate_one. intros H Hj Hj0 Hl0.
  destruct (known_log _ _ _ _ _); [injection H as <- <-; auto|].
  destruct (f_frac_lt _ _ _ _); [injection H as <- <-; auto|].
  destruct (aggregate _ _ _); [|discriminate].
  destruct (l + 1 <? Z.of_nat (length L)); injection H as <- <-;
    (split; [unfold add_log; apply get_log_zupd_other; lia | apply zlen_add_log]).
Qed.

Lemma spec_propagate_frame F m xff L l j : j <> l -> 0 <= j -> 0 <= l ->
  forall ts logs acc logs' acc',
  spec_propagate F m xff L logs l acc ts = Some (logs', acc') ->
  get_log logs' j = get_log logs j /\ zlen logs' = zlen logs.
Proof.
  intros Hj Hj0 Hl0. induction ts as [|t r IH]; intros logs acc logs' acc' H; cbn [spec_propagate] in H.
  - injection H as <- <-. auto.
  - destruct (spec_propagate_one F m xff L logs l acc t) as [[lg1 a1]|] eqn:E; [|discriminate].
    destruct (spec_propagate_one_frame _ _ _ _ _ _ _ _ _ _ j E Hj Hj0 Hl0) as [H1 H2].
    destruct (IH _ _ _ _ H) as [H3 H4]. split; congruence.
Qed.

(** the level loop starting at level [l] never touches a log below [l] *)
Lemma spec_chain_frame F m xff L j : 0 <= j -> forall fuel logs l ts logs',
  spec_chain F m xff L fuel logs l ts = Some logs' -> j < l ->
  get_log logs' j = get_log logs j /\ zlen logs' = zlen logs.
Proof.
  intros Hj0. induction fuel as [|f IH]; intros logs l ts logs' H Hjl; cbn [spec_chain] in H.
  - injection H as <-. auto.
  - destruct ((l <? Z.of_nat (length L)) && negb match ts with [] => true | _ => false end);
      [|injection H as <-; auto].
    destruct (spec_propagate F m xff L logs l [] ts) as [[lg1 ts1]|] eqn:E; [|discriminate].
    destruct (spec_propagate_frame F m xff L l j ltac:(lia) Hj0 ltac:(lia) _ _ _ _ _ E) as [H1 H2].
    destruct (IH _ _ _ _ H ltac:(lia)) as [H3 H4]. split; congruence.
Qed.

(** add_logs at index a: log a gets the entries (newest first), other logs are untouched *)
Lemma add_logs_frame : forall ps logs a, 0 <= a < zlen logs ->
  get_log (add_logs logs a ps) a = rev ps ++ get_log logs a /\
  (forall j, j <> a -> 0 <= j -> get_log (add_logs logs a ps) j = get_log logs j) /\
  zlen (add_logs logs a ps) = zlen logs.
Proof.
  induction ps as [|p r IH]; intros logs a Ha; unfold add_logs; cbn [fold_left rev app]; [auto|].
  fold (add_logs (add_log logs a p) a r).
  destruct (IH (add_log logs a p) a ltac:(rewrite zlen_add_log; exact Ha)) as (H1 & H2 & H3).
  split; [|split].
  - rewrite H1. unfold add_log at 1. rewrite get_log_zupd_same by assumption. rewrite <- app_assoc. reflexivity.
  - intros j Hj Hj0. rewrite H2 by assumption. unfold add_log. apply get_log_zupd_other; lia.
  - rewrite H3. apply zlen_add_log.
Qed.

(** C02 frame / C08 crux: a batch handed to archive [a] appends exactly its aligned
    points to log [a] and leaves every finer log unchanged. *)
Theorem spec_archive_update_frame F m xff L logs a pts logs' :
  spec_archive_update F m xff L logs a pts = Some logs' -> 0 <= a < zlen logs ->
  get_log logs' a = rev (align_points (lay_step L a) pts) ++ get_log logs a /\
  (forall j, 0 <= j < a -> get_log logs' j = get_log logs j) /\ zlen logs' = zlen logs.
Proof.
  unfold spec_archive_update, spec_propagate_chain. intros H Ha.
  set (aligned := align_points (lay_step L a) pts) in *.
  destruct (add_logs_frame aligned logs a Ha) as (H1 & H2 & H3).
  destruct (a + 1 <? Z.of_nat (length L)).
  - assert (Hc : forall j, 0 <= j <= a -> get_log logs' j = get_log (add_logs logs a aligned) j /\ zlen logs' = zlen (add_logs logs a aligned)).
    { intros j Hj. eapply spec_chain_frame; [lia|exact H|lia]. }
    split; [|split].
    + rewrite (proj1 (Hc a ltac:(lia))). exact H1.
    + intros j Hj. rewrite (proj1 (Hc j ltac:(lia))). apply H2; lia.
    + rewrite (proj2 (Hc a ltac:(lia))). exact H3.
  - injection H as <-. split; [exact H1|]. split; [intros j Hj; apply H2; lia|exact H3].
Qed.
Print Assumptions spec_archive_update_frame.

(** * Writing points of one window: visible exactly at their own slots *)

Definition in_window (f S n t : Z) : Prop := exists k, 0 <= k < n /\ t = f + k * S.

Lemma window_congruent_eq f S n N t e : 0 < S -> 0 < n <= N ->
  in_window f S n t -> in_window f S n e -> (t - e) mod (S * N) = 0 -> t = e.
Proof.
  intros HS Hn (k & Hk & ->) (k' & Hk' & ->) Hm.
  replace (f + k * S - (f + k' * S)) with ((k - k') * S) in Hm by ring.
  apply Z.mod_divide in Hm; [|nia]. destruct Hm as [q Hq].
  assert (Hkk : k - k' = q * N) by nia.
  assert (q = 0) by nia. subst q. lia.
Qed.

(** entries newest first; all of them lie in the window [f, f + n*S), n <= N *)
Theorem live_prepend_window es log f S n N e :
  0 < S -> 0 < n <= N -> Forall (fun p => in_window f S n (p_time p)) es -> in_window f S n e ->
  live_opt (es ++ log) (S * N) e =
  match find_time es e with Some v => Some v | None => live_opt log (S * N) e end.
Proof.
  intros HS Hn Hes He. induction es as [|p r IH]; cbn [app live_opt find_time]; [reflexivity|].
  inversion Hes as [|? ? Hp Hr]; subst.
  destruct (Z.eqb_spec ((p_time p - e) mod (S * N)) 0) as [Hc|Hc].
  - pose proof (window_congruent_eq f S n N (p_time p) e HS Hn Hp He Hc) as Heq.
    rewrite Heq, Z.eqb_refl. reflexivity.
  - destruct (Z.eqb_spec (p_time p) e) as [Heq|Hneq].
    + exfalso. apply Hc. rewrite Heq, Z.sub_diag. apply Z.mod_0_l. nia.
    + apply IH. assumption.
Qed.
Print Assumptions live_prepend_window.

(** ** which slots of the coarser log a propagation level can rewrite: only those on its work list.
    Everything already in log [l] stays, and every entry that is added carries the time of one of the
    coarser intervals handed in -- a coarser slot none of the written points falls into keeps what it
    holds, whatever that is (it may have been written directly and differ from the aggregate of the
    finer data). *)
Lemma spec_propagate_one_adds F m xff L logs l acc t logs' acc' :
  spec_propagate_one F m xff L logs l acc t = Some (logs', acc') -> 0 <= l < zlen logs ->
  exists added, get_log logs' l = added ++ get_log logs l /\ Forall (fun p => p_time p = t) added /\ zlen logs' = zlen logs.
Proof.
  unfold spec_propagate_one. intros H Hl.
  destruct (known_log _ _ _ _ _); [injection H as <- <-; exists []; auto|].
  destruct (f_frac_lt _ _ _ _); [injection H as <- <-; exists []; auto|].
  destruct (aggregate _ _ _) as [v|]; [|discriminate].
  destruct (l + 1 <? Z.of_nat (length L)); injection H as <- <-;
    (exists [mkPoint t v]; split; [unfold add_log; rewrite get_log_zupd_same by assumption; reflexivity|];
     split; [repeat constructor | apply zlen_add_log]).
Qed.

Theorem spec_propagate_adds F m xff L l : forall ts logs acc logs' acc',
  spec_propagate F m xff L logs l acc ts = Some (logs', acc') -> 0 <= l < zlen logs ->
  exists added, get_log logs' l = added ++ get_log logs l /\ Forall (fun p => In (p_time p) ts) added.
Proof.
  induction ts as [|t r IH]; intros logs acc logs' acc' H Hl; cbn [spec_propagate] in H.
  - injection H as <- <-. exists []. auto.
  - destruct (spec_propagate_one F m xff L logs l acc t) as [[lg1 a1]|] eqn:E; [|discriminate].
    destruct (spec_propagate_one_adds _ _ _ _ _ _ _ _ _ _ E Hl) as (ad1 & H1 & F1 & Z1).
    destruct (IH _ _ _ _ H ltac:(rewrite Z1; exact Hl)) as (ad2 & H2 & F2).
    exists (ad2 ++ ad1). split.
    + rewrite H2, H1, app_assoc. reflexivity.
    + apply Forall_app. split.
      * eapply Forall_impl; [|exact F2]. intros p Hp. now right.
      * eapply Forall_impl; [|exact F1]. intros p Hp. now left.
Qed.
