(** C20: the file generate leaves behind is, archive by archive and slot by slot, the point
    lists it produced (whatever propagation did in between is overwritten by the next, coarser
    list, and the coarsest list propagates nowhere). *)
From Coq Require Import Sorted.
From WT Require Import Base.Wrap Base.ListX Model.Time Model.Ring Model.Update Spec.LogSpec
  Model.Codec Model.Handle Model.Cmd Model.Generate
  Proofs.TimeProofs Proofs.RingProofs Proofs.FetchProofs Proofs.UpdateProofs Proofs.ChainProofs
  Proofs.ArchiveUpdateProofs Proofs.RoutingProofs Proofs.HistoryProofs Proofs.FrameProofs Proofs.BatchProofs.

(** * reading a related state: every named fetch is [live] of the archive's log *)
Lemma fetch_rel arcs logs id from until now :
  Rel_all arcs logs -> wf_layout_full (layout_of arcs) -> clock_ok (layout_of arcs) now ->
  0 <= id < zlen arcs -> 0 <= from < 2^32 -> 0 <= until < 2^32 -> from <= until ->
  exists a, nth_error arcs (Z.to_nat id) = Some a /\
    a_step a = lay_step (layout_of arcs) id /\ a_n a = lay_n (layout_of arcs) id /\
    if (from >? now) || (until <? now - period a)
    then fetch_from_archive arcs id from until now = FNone
    else exists vs,
      fetch_from_archive arcs id from until now =
        FSeries (mkSeries (win_from a from now) (win_until a from until now) (a_step a) vs) /\
      zlen vs = (win_until a from until now - win_from a from now) / a_step a /\
      forall k, 0 <= k < zlen vs ->
        znth NaN vs k = live (get_log logs id) (period a) (win_from a from now + k * a_step a).
Proof.
  intros HRA Hwf Hclock Hidz Hfrom Huntil Hfu.
  destruct (get_arc_exists arcs id ltac:(unfold zlen in *; lia)) as [a Ha].
  destruct (Forall2_nth_error _ _ _ _ _ HRA Ha) as (log & Hlog & HRel).
  destruct (get_arc_layout _ _ _ Ha) as [Hs Hn].
  exists a. repeat split; try assumption; try (symmetry; assumption).
  assert (Hgl : get_log logs id = log) by (unfold get_log; apply nth_error_nth; exact Hlog).
  rewrite Hgl.
  assert (Hid : 0 <= id < llen (layout_of arcs)) by (rewrite layout_wf_len; exact Hidz).
  destruct Hwf as (Hwfl & Hper & Htop). destruct (Hper id Hid) as [Hp1 Hp2].
  rewrite (lay_period_arc _ _ _ Ha) in *. destruct Hclock as [Hc1 Hc2].
  pose proof (Rel_wf _ _ HRel) as (HSa & HNa & _ & _).
  assert (Hpos : 0 < period a) by (unfold period; nia).
  assert (Hstep : a_step a <= period a) by (unfold period; nia).
  pose proof (fetch_named arcs id a log from until now ltac:(lia) Ha HRel ltac:(lia) ltac:(unfold TMAX in *; lia) Hfrom Huntil Hfu) as Hf.
  destruct ((from >? now) || (until <? now - period a)); [exact Hf|].
  cbv zeta in Hf. destruct Hf as (vs & Hfe & Hlen & Hv). exists vs. repeat split; try assumption.
  intros k Hk. apply Hv. lia.
Qed.

(** * [find_time] on lists with distinct times *)
Lemma find_time_none es e : ~ In e (map p_time es) -> find_time es e = None.
Proof.
  induction es as [|p r IH]; cbn [find_time map In]; intros H; [reflexivity|].
  destruct (Z.eqb_spec (p_time p) e); [exfalso; apply H; left; assumption|]. apply IH. tauto.
Qed.
Lemma find_time_in es p : NoDup (map p_time es) -> In p es -> find_time es (p_time p) = Some (p_val p).
Proof.
  induction es as [|q r IH]; cbn [find_time map In]; intros Hnd Hin; [contradiction|].
  inversion Hnd as [|? ? Hnotin Hnd']; subst.
  destruct Hin as [->|Hin]; [rewrite Z.eqb_refl; reflexivity|].
  destruct (Z.eqb_spec (p_time q) (p_time p)) as [E|_]; [|apply IH; assumption].
  exfalso. apply Hnotin. rewrite E. apply in_map. exact Hin.
Qed.

Lemma lt_time_map l : StronglySorted lt_time l <-> StronglySorted Z.lt (map p_time l).
Proof.
  induction l as [|p r IH]; cbn [map]; split; intros H; try constructor; inversion H as [|? ? Hs Hall]; subst.
  - apply IH. exact Hs.
  - rewrite Forall_map. exact Hall.
  - apply IH. exact Hs.
  - rewrite Forall_map in Hall. exact Hall.
Qed.
Lemma sorted_lt_nodup l : StronglySorted Z.lt l -> NoDup l.
Proof.
  induction 1 as [|x r Hs IH Hall]; constructor; [|exact IH].
  intros Hin. rewrite Forall_forall in Hall. specialize (Hall x Hin). lia.
Qed.

(** * the times of a complete list *)
Lemma zlist_eqb_eq : forall a b, zlist_eqb a b = true -> a = b.
Proof.
  induction a as [|x r IH]; intros [|y q] H; cbn [zlist_eqb] in H; try discriminate; [reflexivity|].
  apply andb_true_iff in H. destruct H as [Hx Hr]. rewrite Z.eqb_eq in Hx. subst. f_equal. apply IH. exact Hr.
Qed.

Definition gen_first (st n now : Z) : Z := gen_last st now - (n - 1) * st.

Lemma gen_times_alt st n now :
  gen_times st n now = map (fun j => gen_first st n now + Z.of_nat j * st) (seq 0 (Z.to_nat n)).
Proof. unfold gen_times, gen_first. apply map_ext. intros j. ring. Qed.

Lemma seq_affine_sorted c st : 0 < st -> forall n s,
  StronglySorted Z.lt (map (fun j => c + Z.of_nat j * st) (seq s n)).
Proof.
  intros Hst. induction n as [|n IH]; intros s; cbn [seq map]; constructor; [apply IH|].
  rewrite Forall_map. apply Forall_forall. intros j Hj. apply in_seq in Hj. nia.
Qed.

Lemma gen_times_in st n now e : In e (gen_times st n now) <-> in_window (gen_first st n now) st n e.
Proof.
  rewrite gen_times_alt, in_map_iff. unfold in_window. split.
  - intros (j & <- & Hj). apply in_seq in Hj. exists (Z.of_nat j). split; [lia|reflexivity].
  - intros (k & Hk & ->). exists (Z.to_nat k). split; [rewrite Z2Nat.id by lia; reflexivity|]. apply in_seq. lia.
Qed.

Lemma gen_times_length st n now : 0 <= n -> zlen (gen_times st n now) = n.
Proof. intros. unfold gen_times. rewrite zlen_map. unfold zlen. rewrite seq_length. lia. Qed.

Lemma gen_times_nth st n now k : 0 <= k < n -> znth 0 (gen_times st n now) k = gen_first st n now + k * st.
Proof.
  intros Hk. rewrite gen_times_alt. unfold znth.
  set (f := fun j : nat => gen_first st n now + Z.of_nat j * st).
  rewrite (nth_indep _ 0 (f 0%nat)) by (rewrite map_length, seq_length; lia).
  rewrite map_nth. rewrite seq_nth by lia. unfold f. cbn [Nat.add]. rewrite Z2Nat.id by lia. reflexivity.
Qed.

(** a complete list is a batch [batch_write_explicit] accepts for its archive *)
Lemma complete_batch_ok L a now ps :
  wf_layout_full L -> clock_ok L now -> 0 <= a < llen L ->
  map p_time ps = gen_times (lay_step L a) (lay_n L a) now ->
  StronglySorted lt_time ps /\ Forall (in_retention L a now) ps.
Proof.
  intros (Hwf & Hper & Htop) [Hc1 Hc2] Ha Ht. destruct Hwf as (Hl & Hpos & Hval).
  destruct (Hpos a Ha) as [HS HN]. destruct (Hper a Ha) as [Hp1 Hp2].
  split.
  - apply lt_time_map. rewrite Ht, gen_times_alt. apply seq_affine_sorted. exact HS.
  - apply Forall_forall. intros p Hp.
    assert (Hin : In (p_time p) (gen_times (lay_step L a) (lay_n L a) now)) by (rewrite <- Ht; apply in_map; exact Hp).
    apply gen_times_in in Hin. destruct Hin as (k & Hk & He).
    unfold in_retention, gen_first, gen_last, lay_period in *. rewrite He.
    assert (Hnow : 0 <= now) by (unfold last_period, lay_period in *; nia).
    pose proof (Z.mod_pos_bound now (lay_step L a) HS) as Hm.
    split.
    + replace (now - now mod lay_step L a - (lay_n L a - 1) * lay_step L a + k * lay_step L a)
        with ((now - now mod lay_step L a) + (k - (lay_n L a - 1)) * lay_step L a) by ring.
      rewrite Z_mod_plus_full. apply sub_mod_aligned. exact HS.
    + nia.
Qed.

(** * writing the lists, finest archive first *)
Lemma with_arcs_self h : with_arcs h (hd_arcs h) = h.
Proof. destruct h; reflexivity. Qed.

Lemma apply_lists_spec F L now : wf_layout_full L -> clock_ok L now ->
  forall rest i h logs,
  1 <= hd_method h <= 6 -> Rel_all (hd_arcs h) logs -> layout_of (hd_arcs h) = L ->
  0 <= i -> i + zlen rest = llen L ->
  (forall q, 0 <= q < zlen rest ->
     map p_time (znth [] rest q) = gen_times (lay_step L (i + q)) (lay_n L (i + q)) now) ->
  exists arcs' logs',
    apply_lists F h rest i now = (with_arcs h arcs', OutOk) /\
    Rel_all arcs' logs' /\ layout_of arcs' = L /\
    (forall j, 0 <= j < i -> get_log logs' j = get_log logs j) /\
    (forall q, 0 <= q < zlen rest -> exists old, get_log logs' (i + q) = rev (znth [] rest q) ++ old).
Proof.
  intros Hwff Hclock. induction rest as [|ps rest IH]; intros i h logs Hm HRA Hlay Hi Hlen Htimes; cbn [apply_lists].
  - exists (hd_arcs h), logs. rewrite with_arcs_self. repeat split; auto.
    intros q Hq. cbn in Hq. lia.
  - rewrite zlen_cons in *.
    pose proof (zlen_nonneg rest) as Hr0.
    assert (Hia : 0 <= i < zlen (hd_arcs h)) by (rewrite <- layout_wf_len, Hlay; lia).
    assert (Hps : map p_time ps = gen_times (lay_step L i) (lay_n L i) now).
    { specialize (Htimes 0 ltac:(lia)). replace (i + 0) with i in Htimes by lia. exact Htimes. }
    destruct (complete_batch_ok L i now ps Hwff Hclock ltac:(lia) Hps) as [Hsorted Hret].
    rewrite <- Hlay in Hwff, Hclock, Hret.
    destruct (batch_write_explicit F (hd_method h) (hd_xff h) (hd_arcs h) logs i ps now Hm HRA Hwff Hclock Hia Hsorted Hret)
      as (arcs1 & logs1 & Hup & HRA1 & Hlay1 & Hlen1 & Hlog1 & Hfr1).
    rewrite Hlay in *.
    unfold h_update_many. rewrite Hup.
    destruct (IH (i + 1) (with_arcs h arcs1) logs1) as (arcs' & logs' & Hal & HRA' & Hlay' & Hfr' & Hnew').
    + exact Hm.
    + exact HRA1.
    + cbn [with_arcs hd_arcs]. congruence.
    + lia.
    + lia.
    + intros q Hq. specialize (Htimes (q + 1) ltac:(lia)).
      replace (i + (q + 1)) with (i + 1 + q) in Htimes by lia.
      unfold znth in *. replace (Z.to_nat (q + 1)) with (S (Z.to_nat q)) in Htimes by lia. exact Htimes.
    + exists arcs', logs'. split; [exact Hal|]. split; [exact HRA'|]. split; [exact Hlay'|]. split.
      * intros j Hj. rewrite Hfr' by lia. apply Hfr1. lia.
      * intros q Hq. destruct (Z.eq_dec q 0) as [->|Hq0].
        -- exists (get_log logs i). replace (i + 0) with i by lia. rewrite Hfr' by lia. exact Hlog1.
        -- destruct (Hnew' (q - 1) ltac:(lia)) as [old Hold]. exists old.
           replace (i + q) with (i + 1 + (q - 1)) by lia. rewrite Hold.
           unfold znth. replace (Z.to_nat q) with (S (Z.to_nat (q - 1))) by lia. reflexivity.
Qed.

(** the lists of a complete generation, as a list of the right length *)
Lemma gen_complete_spec : forall L now pl, gen_complete L now pl = true ->
  zlen pl = llen L /\
  forall q, 0 <= q < zlen pl -> map p_time (znth [] pl q) = gen_times (lay_step L q) (lay_n L q) now.
Proof.
  induction L as [|[st n] lr IH]; intros now [|ps pr] H; cbn [gen_complete] in H; try discriminate.
  - split; [reflexivity|]. intros q Hq. cbn in Hq. lia.
  - apply andb_true_iff in H. destruct H as [H1 H2]. apply zlist_eqb_eq in H1.
    destruct (IH now pr H2) as [Hl Hq]. split.
    + unfold llen in *. rewrite zlen_cons. cbn [length]. lia.
    + intros q Hq0. rewrite zlen_cons in Hq0. destruct (Z.eq_dec q 0) as [->|Hne].
      * exact H1.
      * specialize (Hq (q - 1) ltac:(lia)).
        unfold znth, lay_step, lay_n in *. replace (Z.to_nat q) with (S (Z.to_nat (q - 1))) by lia. exact Hq.
Qed.

Lemma nodup_times_rev ps : StronglySorted lt_time ps -> NoDup (map p_time (rev ps)).
Proof.
  intros H. rewrite map_rev. apply NoDup_rev. apply sorted_lt_nodup. apply lt_time_map. exact H.
Qed.

(** reading one completely written archive back *)
Lemma read_complete_archive arcs logs L i ps old now :
  Rel_all arcs logs -> layout_of arcs = L -> wf_layout_full L -> clock_ok L now -> 0 <= i < llen L ->
  map p_time ps = gen_times (lay_step L i) (lay_n L i) now ->
  get_log logs i = rev ps ++ old ->
  fetch_from_archive arcs i (now - lay_period L i) now now =
    FSeries (mkSeries (gen_first (lay_step L i) (lay_n L i) now) (gen_last (lay_step L i) now + lay_step L i)
               (lay_step L i) (map p_val ps)).
Proof.
  intros HRA Hlay Hwff Hclock Hi Ht Hlog.
  pose proof Hwff as (Hwf & Hper & Htop). pose proof Hclock as [Hc1 Hc2].
  destruct Hwf as (Hl & Hpos & Hval). destruct (Hpos i Hi) as [HS HN]. destruct (Hper i Hi) as [Hp1 Hp2].
  set (S := lay_step L i) in *. set (N := lay_n L i) in *.
  assert (HR : lay_period L i = S * N) by reflexivity.
  assert (Hlp : 0 < S * N) by nia.
  assert (Hiz : 0 <= i < zlen arcs) by (rewrite <- layout_wf_len, Hlay; exact Hi).
  rewrite <- Hlay in Hwff, Hclock.
  destruct (fetch_rel arcs logs i (now - lay_period L i) now now HRA Hwff Hclock Hiz
              ltac:(unfold TMAX in *; lia) ltac:(unfold TMAX in *; lia) ltac:(lia))
    as (a & Ha & Has & Han & Hf).
  rewrite Hlay in Has, Han. fold S in Has. fold N in Han.
  assert (Hpa : period a = S * N) by (unfold period; rewrite Has, Han; reflexivity).
  rewrite Hpa, HR in Hf.
  assert (Hcond : (now - S * N >? now) || (now <? now - S * N) = false) by lia.
  rewrite Hcond in Hf. destruct Hf as (vs & Hfe & Hlen & Hv).
  assert (Hmod : (now - S * N) mod S = now mod S).
  { replace (now - S * N) with (now + (- N) * S) by ring. apply Z_mod_plus_full. }
  assert (Hwf_ : win_from a (now - S * N) now = gen_first S N now).
  { unfold win_from. rewrite Hpa, Has, Z.max_id, Hmod. unfold gen_first, gen_last. ring. }
  assert (Hwu : win_until a (now - S * N) now now = gen_last S now + S).
  { unfold win_until. rewrite Hwf_, Has, Z.min_id. unfold gen_first, gen_last.
    destruct (Z.eqb_spec (now - now mod S - (N - 1) * S) (now - now mod S + S)) as [E|_]; [nia|reflexivity]. }
  rewrite HR, Hfe, Hwf_, Hwu, Has. f_equal. f_equal.
  rewrite Hwf_, Hwu, Has in Hlen.
  assert (HlenN : zlen vs = N).
  { rewrite Hlen. unfold gen_first. replace (gen_last S now + S - (gen_last S now - (N - 1) * S)) with (N * S) by ring.
    apply Z.div_mul. lia. }
  assert (Hlps : zlen ps = N).
  { rewrite <- (zlen_map p_time), Ht. apply gen_times_length. lia. }
  destruct (complete_batch_ok L i now ps ltac:(rewrite <- Hlay; exact Hwff) ltac:(rewrite <- Hlay; exact Hclock) Hi Ht) as [Hsorted Hret].
  apply (nth_ext _ _ NaN NaN).
  - rewrite map_length. unfold zlen in *. lia.
  - intros k Hk.
    assert (Hkz : 0 <= Z.of_nat k < zlen vs) by (unfold zlen; lia).
    specialize (Hv (Z.of_nat k) Hkz). unfold znth in Hv. rewrite Nat2Z.id in Hv. rewrite Hv.
    rewrite Hwf_, Has, Hlog. unfold live.
    rewrite (live_prepend_window (rev ps) old (gen_first S N now) S N N) ; try lia.
    + set (p := nth k ps (mkPoint 0 NaN)).
      assert (Hpin : In p ps) by (apply nth_In; unfold zlen in *; lia).
      assert (Hpt : p_time p = gen_first S N now + Z.of_nat k * S).
      { pose proof (gen_times_nth S N now (Z.of_nat k) ltac:(lia)) as Hg. rewrite <- Ht in Hg.
        unfold znth in Hg. rewrite Nat2Z.id in Hg. rewrite <- Hg.
        change 0 with (p_time (mkPoint 0 NaN)). rewrite map_nth. reflexivity. }
      rewrite <- Hpt. rewrite (find_time_in (rev ps) p (nodup_times_rev ps Hsorted)) by (apply in_rev in Hpin; exact Hpin).
      change NaN with (p_val (mkPoint 0 NaN)). rewrite map_nth. reflexivity.
    + apply Forall_rev. apply Forall_forall. intros q Hq. apply gen_times_in. rewrite <- Ht. apply in_map. exact Hq.
    + exists (Z.of_nat k). split; [lia|reflexivity].
Qed.

(** * C20, end to end *)
Theorem generate_file_is_lists F m xff L pl now h0 :
  1 <= m <= 6 ->
  Forall (fun sn => 0 < fst sn /\ 0 < snd sn /\ fst sn * snd sn < TMAX) L ->
  wf_layout_full L -> clock_ok L now ->
  create m xff L = Some h0 -> gen_complete L now pl = true ->
  exists h',
    generate_cmd F false m xff L pl now = (StOk, Some h') /\
    hd_hdr_on_disk h' = true /\ hd_method h' = m /\ hd_xff h' = xff /\ layout_of (hd_disk h') = L /\
    forall i, 0 <= i < llen L ->
      fetch_from_archive (hd_disk h') i (now - lay_period L i) now now =
        FSeries (mkSeries (gen_first (lay_step L i) (lay_n L i) now) (gen_last (lay_step L i) now + lay_step L i)
                   (lay_step L i) (map p_val (znth [] pl i))).
Proof.
  intros Hm HL Hwff Hclock Hcreate Hcomplete.
  destruct (create_Rel_all L HL) as [HRA0 Hlay0].
  destruct (gen_complete_spec L now pl Hcomplete) as [Hlen Htimes].
  unfold generate_cmd. rewrite Hcreate.
  unfold create in Hcreate. destruct (new_header m xff (layout_ainfos L)) as [hdr|]; [|discriminate].
  injection Hcreate as <-.
  set (h0 := mkHandle m xff (h_maxret hdr) (create_arcs L) (create_arcs L) false).
  destruct (apply_lists_spec F L now Hwff Hclock pl 0 h0 (map (fun _ => []) L)) as (arcs' & logs' & Hal & HRA' & Hlay' & _ & Hnew).
  - exact Hm.
  - exact HRA0.
  - exact Hlay0.
  - lia.
  - lia.
  - intros q Hq. replace (0 + q) with q by lia. apply Htimes. exact Hq.
  - rewrite Hal. exists (sync (with_arcs h0 arcs')). cbn [sync with_arcs hd_arcs hd_disk hd_hdr_on_disk hd_method hd_xff h0].
    repeat split; try assumption.
    intros i Hi. destruct (Hnew i ltac:(lia)) as [old Hold]. replace (0 + i) with i in Hold by lia.
    apply (read_complete_archive arcs' logs' L i (znth [] pl i) old now HRA' Hlay' Hwff Hclock Hi); [|exact Hold].
    apply Htimes. lia.
Qed.
Print Assumptions generate_file_is_lists.

(** what [gen_ok] says, clause by clause *)
Lemma gen_bounded_spec F of_int s0 mx : forall L pl, gen_bounded F of_int s0 mx L pl = true ->
  forall q p, 0 <= q < llen L -> q < zlen pl -> In p (znth [] pl q) ->
    val_ok F (of_int (mx * lay_step L q / s0)) (p_val p) = true.
Proof.
  induction L as [|[st n] lr IH]; intros [|ps pr] H q p Hq Hql Hin; cbn [gen_bounded] in H.
  - unfold llen in Hq. cbn in Hq. lia.
  - unfold llen in Hq. cbn in Hq. lia.
  - cbn in Hql. lia.
  - apply andb_true_iff in H. destruct H as [H1 H2]. rewrite zlen_cons in Hql.
    destruct (Z.eq_dec q 0) as [->|Hne].
    + rewrite forallb_forall in H1. apply H1. exact Hin.
    + unfold llen in Hq. cbn [length] in Hq.
      specialize (IH pr H2 (q - 1) p ltac:(unfold llen; lia) ltac:(lia)).
      unfold znth, lay_step in *. replace (Z.to_nat q) with (S (Z.to_nat (q - 1))) in * by lia. apply IH. exact Hin.
Qed.

Lemma gen_sums_spec F : forall L pl prev, gen_sums F prev L pl = true ->
  forall q p, 1 <= q < llen L -> q < zlen pl -> In p (znth [] pl q) ->
    slot_sum_ok F (lay_step L (q - 1)) (lay_step L q) (znth [] pl (q - 1)) p = true.
Proof.
  induction L as [|[st n] lr IH]; intros [|ps pr] prev H q p Hq Hql Hin; cbn [gen_sums] in H.
  - unfold llen in Hq. cbn in Hq. lia.
  - unfold llen in Hq. cbn in Hq. lia.
  - cbn in Hql. lia.
  - apply andb_true_iff in H. destruct H as [_ H2]. rewrite zlen_cons in Hql.
    unfold llen in Hq. cbn [length] in Hq.
    destruct (Z.eq_dec q 1) as [->|Hne].
    + destruct lr as [|[st' n'] lr']; [cbn in Hq; lia|]. destruct pr as [|ps' pr']; [cbn in Hql; lia|].
      cbn [gen_sums] in H2. apply andb_true_iff in H2. destruct H2 as [H3 _].
      rewrite forallb_forall in H3. apply H3. exact Hin.
    + specialize (IH pr (Some (st, ps)) H2 (q - 1) p ltac:(unfold llen; lia) ltac:(lia)).
      unfold znth, lay_step in *.
      replace (Z.to_nat q) with (S (Z.to_nat (q - 1))) in * by lia.
      replace (Z.to_nat (q - 1)) with (S (Z.to_nat (q - 1 - 1))) in * by lia. apply IH. exact Hin.
Qed.

(** ** the bound of the random values (F14): a bound the generator cannot use is an error before
    anything is created; a run that succeeds with -fill had a bound in [0, 2^31) *)
Lemma generate_checked_rejects F existing fill mx m xff layout pl now :
  gen_max_ok fill mx = false -> generate_checked F existing fill mx m xff layout pl now = (StErr, None).
Proof. intros H. unfold generate_checked. now rewrite H. Qed.

Lemma generate_checked_ok_bound F existing mx m xff layout pl now :
  fst (generate_checked F existing true mx m xff layout pl now) = StOk -> 0 <= mx < 2^31.
Proof.
  unfold generate_checked, gen_max_ok. cbn [negb orb].
  destruct ((0 <=? mx) && (mx <? 2 ^ 31)) eqn:E; [|cbn; discriminate].
  intros _. apply andb_true_iff in E. destruct E as [E1 E2].
  apply Z.leb_le in E1. apply Z.ltb_lt in E2. lia.
Qed.
