(** C05 at the level of the handle model (Model/Handle.v): what is on disk changes only in Sync,
    a fresh Open sees exactly the state of the last Sync, whatever happened to the handle since. *)
From WT Require Import Base.Wrap Base.ListX Base.Bytes Model.Time Model.Ring Model.Update Model.Codec Model.Handle.

Inductive hop :=
| HUpd (id t v now : Z)
| HMany (pts : list point) (id now : Z)
| HSync.

Definition hstep (F : fops) (h : handle) (o : hop) : handle :=
  match o with
  | HUpd id t v now => fst (h_update F h id t v now)
  | HMany pts id now => fst (h_update_many F h pts id now)
  | HSync => sync h
  end.
Definition hrun (F : fops) (h : handle) (ops : list hop) : handle := fold_left (hstep F) ops h.

Definition is_sync (o : hop) : bool := match o with HSync => true | _ => false end.

Lemma h_update_disk F h id t v now :
  hd_disk (fst (h_update F h id t v now)) = hd_disk h /\
  hd_hdr_on_disk (fst (h_update F h id t v now)) = hd_hdr_on_disk h.
Proof. unfold h_update. destruct (update_point_for_archive _ _ _ _ _ _ _ _ _); split; reflexivity. Qed.
Lemma h_update_many_disk F h pts id now :
  hd_disk (fst (h_update_many F h pts id now)) = hd_disk h /\
  hd_hdr_on_disk (fst (h_update_many F h pts id now)) = hd_hdr_on_disk h.
Proof. unfold h_update_many. destruct (update_points_for_archive _ _ _ _ _ _ _); split; reflexivity. Qed.

(** an operation other than Sync never changes what is on disk *)
Theorem hstep_disk_unchanged F h o : is_sync o = false ->
  hd_disk (hstep F h o) = hd_disk h /\ hd_hdr_on_disk (hstep F h o) = hd_hdr_on_disk h.
Proof.
  destruct o; cbn [is_sync hstep]; intros H; try discriminate; [apply h_update_disk|apply h_update_many_disk].
Qed.

Theorem hrun_disk_unchanged F : forall ops h, forallb (fun o => negb (is_sync o)) ops = true ->
  hd_disk (hrun F h ops) = hd_disk h /\ hd_hdr_on_disk (hrun F h ops) = hd_hdr_on_disk h.
Proof.
  induction ops as [|o r IH]; intros h H; [split; reflexivity|].
  cbn [forallb] in H. apply andb_true_iff in H. destruct H as [Ho Hr].
  unfold hrun in *. cbn [fold_left]. destruct (IH (hstep F h o) Hr) as [H1 H2].
  destruct (hstep_disk_unchanged F h o) as [H3 H4]; [destruct (is_sync o); [discriminate|reflexivity]|].
  split; congruence.
Qed.

(** after Sync the disk holds exactly the handle's state: a fresh Open sees every archive as the
    live handle does *)
Theorem sync_then_reopen h : exists h', reopen (sync h) = Some h' /\ hd_arcs h' = hd_arcs h /\
  hd_method h' = hd_method h /\ hd_xff h' = hd_xff h /\ hd_maxret h' = hd_maxret h.
Proof. eexists. split; [reflexivity|]. repeat split. Qed.

Corollary sync_then_reopen_fetch h id from until now :
  exists h', reopen (sync h) = Some h' /\ h_fetch h' id from until now = h_fetch h id from until now.
Proof. destruct (sync_then_reopen h) as (h' & Hr & Ha & _). exists h'. split; [exact Hr|]. unfold h_fetch. rewrite Ha. reflexivity. Qed.

(** abandonment: for every history and every cut point, dropping the handle leaves on disk
    precisely the state of the last Sync before the cut (or the state at creation) *)
Theorem abandon_leaves_last_sync F h before after :
  forallb (fun o => negb (is_sync o)) after = true ->
  hd_disk (hrun F h (before ++ HSync :: after)) = hd_arcs (hrun F h before) /\
  hd_hdr_on_disk (hrun F h (before ++ HSync :: after)) = true.
Proof.
  intros Hns. unfold hrun. rewrite fold_left_app. cbn [fold_left hstep].
  fold (hrun F h before). fold (hrun F (sync (hrun F h before)) after).
  destruct (hrun_disk_unchanged F after (sync (hrun F h before)) Hns) as [H1 H2].
  rewrite H1, H2. split; reflexivity.
Qed.

Theorem abandon_before_any_sync F h ops :
  forallb (fun o => negb (is_sync o)) ops = true ->
  hd_disk (hrun F h ops) = hd_disk h /\ hd_hdr_on_disk (hrun F h ops) = hd_hdr_on_disk h.
Proof. apply hrun_disk_unchanged. Qed.

(** a created file whose header was never synced cannot be opened (its bytes are all zero) *)
Theorem create_not_openable_before_sync m xff layout h : create m xff layout = Some h -> reopen h = None.
Proof.
  unfold create. destruct (new_header m xff (layout_ainfos layout)); [|discriminate].
  intros E; injection E as <-. reflexivity.
Qed.
