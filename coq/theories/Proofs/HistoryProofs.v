(** Whole-history statements: any finite sequence of updates keeps the physical
    state related to the abstract write logs, never panics, and every fetch is
    [live] of the logs. *)
From Coq Require Import Sorted.
From WT Require Import Base.Wrap Base.ListX Model.Time Model.Ring Model.Update Spec.LogSpec
  Proofs.TimeProofs Proofs.RingProofs Proofs.FetchProofs Proofs.UpdateProofs Proofs.ChainProofs
  Proofs.ArchiveUpdateProofs Proofs.RoutingProofs.

Inductive op :=
| OUpd (id t v now : Z)
| OMany (id : Z) (pts : list point) (now : Z).

Definition last_period (L : lay) : Z := lay_period L (llen L - 1).

(** clock domain D: twice the maximum retention lies in the past, and fits below 2^31 *)
Definition clock_ok (L : lay) (now : Z) : Prop :=
  2 * last_period L <= now /\ now + 2 * last_period L < TMAX.

Definition op_ok (L : lay) (o : op) : Prop :=
  match o with
  | OUpd id t v now => clock_ok L now /\ (id = -1 \/ 0 <= id < llen L) /\ 0 <= t < 2^32
  | OMany id pts now => clock_ok L now /\ Forall (fun p => good_raw L (p_time p)) pts
  end.

(** model step: a rejected update leaves the state unchanged; [None] = panic *)
Definition step_model (F : fops) (m xff : Z) (L : lay) (arcs : list arc) (o : op) : option (list arc) :=
  match o with
  | OUpd id t v now =>
    match update_point_for_archive F m xff (last_period L) arcs id t v now with
    | UErr => Some arcs | UPanic => None | UOk a => Some a end
  | OMany id pts now =>
    match update_points_for_archive F m xff arcs pts id now with
    | UErr => Some arcs | UPanic => None | UOk a => Some a end
  end.

(** spec step over logs *)
Definition route_single (L : lay) (t now : Z) : Z :=
  best_from (map (fun sn => fst sn * snd sn) L) 0 (now - t).

Definition step_spec (F : fops) (m xff : Z) (L : lay) (logs : list (list point)) (o : op)
  : option (list (list point)) :=
  match o with
  | OUpd id t v now =>
    if (t <=? now - last_period L) || (now <? t) then Some logs         (* rejected *)
    else spec_update_point F m xff L logs (if id =? -1 then route_single L t now else id) t v
  | OMany id pts now => spec_update_many F m xff L logs pts id now
  end.

(** layouts accepted by validation, as needed here *)
Definition wf_layout_full (L : lay) : Prop :=
  wf_lay L /\ (forall i, 0 <= i < llen L -> lay_period L i < TMAX /\ lay_period L i <= last_period L) /\
  top_step L <= last_period L.

Lemma layout_period_map arcs : map (fun sn => fst sn * snd sn) (layout_of arcs) = map period arcs.
Proof. apply map_period_layout. Qed.

Lemma lay_period_arc arcs i a : get_arc arcs i = Some a -> lay_period (layout_of arcs) i = period a.
Proof. intros H. destruct (get_arc_layout _ _ _ H) as [Hs Hn]. unfold lay_period, period. rewrite Hs, Hn. reflexivity. Qed.

Lemma Rel_all_wf arcs logs : Rel_all arcs logs -> Forall wf_arc arcs.
Proof. intros H. eapply Forall2_Forall_l; [exact H|]. intros a b Hab. apply (Rel_wf a b Hab). Qed.

Lemma hdr_ok_all arcs logs now : Rel_all arcs logs -> wf_layout_full (layout_of arcs) ->
  clock_ok (layout_of arcs) now -> Forall (hdr_ok now) arcs.
Proof.
  intros HRA (Hwf & Hper & _) [Hc1 Hc2].
  apply Forall_forall. intros a Ha. apply In_nth_error in Ha. destruct Ha as [k Hk].
  assert (Hk' : get_arc arcs (Z.of_nat k) = Some a) by (unfold get_arc; rewrite Nat2Z.id; exact Hk).
  assert (Hkr : 0 <= Z.of_nat k < llen (layout_of arcs)).
  { rewrite layout_wf_len. pose proof (get_arc_some_lt arcs (Z.of_nat k) a ltac:(lia) Hk'). unfold zlen. lia. }
  destruct (Hper _ Hkr) as [Hp1 Hp2]. rewrite (lay_period_arc _ _ _ Hk') in *.
  pose proof (Rel_all_wf _ _ HRA) as Hwfa. rewrite Forall_forall in Hwfa.
  destruct (Hwfa a (nth_error_In _ _ Hk)) as (HS & HN & _ & _).
  assert (0 < period a) by (unfold period; nia).
  unfold hdr_ok. repeat split; try assumption; lia.
Qed.

Lemma route_single_range L t now : 0 < llen L -> 0 <= route_single L t now < llen L.
Proof.
  intros Hl. unfold route_single.
  pose proof (best_from_range (map (fun sn => fst sn * snd sn) L) 0 (now - t)) as Hr.
  rewrite zlen_map in Hr. unfold llen in *. unfold zlen in Hr. apply Hr.
  destruct L; [cbn in Hl; lia|discriminate].
Qed.

Theorem step_refines F m xff arcs logs o :
  Rel_all arcs logs -> wf_layout_full (layout_of arcs) -> op_ok (layout_of arcs) o ->
  match step_spec F m xff (layout_of arcs) logs o with
  | None => step_model F m xff (layout_of arcs) arcs o = None
  | Some logs' => exists arcs', step_model F m xff (layout_of arcs) arcs o = Some arcs' /\
                                Rel_all arcs' logs' /\ layout_of arcs' = layout_of arcs
  end.
Proof.
  intros HRA Hwff Hok. pose proof Hwff as (Hwf & Hper & Htop).
  destruct o as [id t v now | id pts now]; cbn [step_spec step_model op_ok] in *.
  - destruct Hok as ([Hc1 Hc2] & Hid & Ht).
    assert (Hlp : 0 < last_period (layout_of arcs)).
    { destruct Hwf as (Hl & Hpos & _). destruct (Hpos (llen (layout_of arcs) - 1) ltac:(lia)). unfold last_period, lay_period. nia. }
    unfold update_point_for_archive.
    assert (Hold : ts_add now (i32 (- last_period (layout_of arcs))) = now - last_period (layout_of arcs)).
    { unfold TMAX in *. rewrite i32_small by lia. rewrite ts_add_nowrap by (unfold TMAX; lia). lia. }
    rewrite Hold.
    destruct ((t <=? now - last_period (layout_of arcs)) || (now <? t)) eqn:Erej.
    + exists arcs. auto.
    + assert (Htr : now - last_period (layout_of arcs) < t <= now) by lia.
      assert (Hraw : good_raw (layout_of arcs) t). { split; unfold TMAX in *; lia. }
      assert (Hfb : find_best arcs t now = route_single (layout_of arcs) t now).
      { unfold find_best, route_single. rewrite find_best_from_spec by (eapply Rel_all_wf; eassumption).
        rewrite layout_period_map. rewrite ts_sub_nowrap by (unfold TMAX in *; lia). reflexivity. }
      unfold ArchiveIDBest. rewrite Hfb.
      set (a := if id =? -1 then route_single (layout_of arcs) t now else id).
      assert (Ha : 0 <= a < zlen arcs).
      { unfold a. destruct (Z.eqb_spec id (-1)).
        - pose proof (route_single_range (layout_of arcs) t now ltac:(destruct Hwf; assumption)) as Hr.
          rewrite layout_wf_len in Hr. exact Hr.
        - rewrite layout_wf_len in Hid. lia. }
      destruct (get_arc_exists arcs a ltac:(unfold zlen in *; lia)) as [r Hr]. rewrite Hr.
      pose proof (update_point_refines F m xff arcs logs a r t v HRA Hwf Ha Hr Hraw) as Hup. cbv zeta in Hup.
      destruct (spec_update_point F m xff (layout_of arcs) logs a t v) as [logs'|].
      * destruct Hup as (arcs' & Hpc & HRA' & Hlay'). rewrite Hpc. exists arcs'. auto.
      * rewrite Hup. reflexivity.
  - destruct Hok as (Hclock & Hgood).
    assert (Hlp : 0 < last_period (layout_of arcs)).
    { destruct Hwf as (Hl & Hpos & _). destruct (Hpos (llen (layout_of arcs) - 1) ltac:(lia)). unfold last_period, lay_period. nia. }
    unfold spec_update_many, update_points_for_archive. rewrite layout_period_map.
    pose proof (update_many_loop_refines F m xff arcs now id arcs 0 arcs logs (sort_points pts)
                  eq_refl ltac:(lia) eq_refl (hdr_ok_all arcs logs now HRA Hwff Hclock)
                  ltac:(destruct Hclock; unfold TMAX in *; lia)
                  HRA Hwf (sort_points_sorted pts) (sort_points_Forall _ _ Hgood)) as Hloop.
    destruct (spec_many_loop F m xff (layout_of arcs) (map period arcs) 0 logs (sort_points pts) id now) as [logs'|].
    + destruct Hloop as (arcs' & Hl & HRA' & Hlay'). rewrite Hl. exists arcs'. auto.
    + rewrite Hloop. reflexivity.
Qed.
Print Assumptions step_refines.

(** * No panic: for the six storable methods the spec step is total *)

Lemma aggregate_total F m kv : 1 <= m <= 6 -> kv <> [] -> aggregate F m kv <> None.
Proof.
  intros Hm Hkv. unfold aggregate, Average, Sum, Last, Max, Min, First.
  destruct kv as [|x r]; [contradiction|].
  destruct (Z.eqb_spec m 1); [discriminate|]. destruct (Z.eqb_spec m 2); [discriminate|].
  destruct (Z.eqb_spec m 6); [discriminate|].
  destruct (Z.eqb_spec m 3).
  { destruct (rev (x :: r)) eqn:E; [|discriminate]. apply (f_equal (@length Z)) in E.
    rewrite rev_length in E. discriminate. }
  destruct (Z.eqb_spec m 4); [discriminate|]. destruct (Z.eqb_spec m 5); [discriminate|]. lia.
Qed.

Lemma spec_propagate_one_total F m xff L logs l acc t : 1 <= m <= 6 ->
  spec_propagate_one F m xff L logs l acc t <> None.
Proof.
  intros Hm. unfold spec_propagate_one.
  destruct (known_log _ _ _ _ _) as [|v0 kv] eqn:E; [discriminate|].
  destruct (f_frac_lt _ _ _ _); [discriminate|].
  pose proof (aggregate_total F m (v0 :: kv) Hm ltac:(discriminate)) as Ha.
  destruct (aggregate F m (v0 :: kv)); [|contradiction].
  destruct (l + 1 <? Z.of_nat (length L)); discriminate.
Qed.

Lemma spec_propagate_total F m xff L l : 1 <= m <= 6 -> forall ts logs acc,
  spec_propagate F m xff L logs l acc ts <> None.
Proof.
  intros Hm. induction ts as [|t r IH]; intros logs acc; cbn [spec_propagate]; [discriminate|].
  pose proof (spec_propagate_one_total F m xff L logs l acc t Hm) as H1.
  destruct (spec_propagate_one F m xff L logs l acc t) as [[lg a]|]; [apply IH|contradiction].
Qed.

Lemma spec_chain_total F m xff L : 1 <= m <= 6 -> forall fuel logs l ts,
  spec_chain F m xff L fuel logs l ts <> None.
Proof.
  intros Hm. induction fuel as [|f IH]; intros logs l ts; cbn [spec_chain]; [discriminate|].
  destruct ((l <? Z.of_nat (length L)) && negb match ts with [] => true | _ => false end); [|discriminate].
  pose proof (spec_propagate_total F m xff L l Hm ts logs []) as H1.
  destruct (spec_propagate F m xff L logs l [] ts) as [[lg a]|]; [apply IH|contradiction].
Qed.

Lemma spec_archive_update_total F m xff L logs a pts : 1 <= m <= 6 ->
  spec_archive_update F m xff L logs a pts <> None.
Proof.
  intros Hm. unfold spec_archive_update, spec_propagate_chain.
  destruct (a + 1 <? Z.of_nat (length L)); [apply spec_chain_total; assumption|discriminate].
Qed.

Lemma spec_many_loop_total F m xff L id now : 1 <= m <= 6 -> forall rets i logs pts,
  spec_many_loop F m xff L rets i logs pts id now <> None.
Proof.
  intros Hm. induction rets as [|R rest IH]; intros i logs pts; cbn [spec_many_loop]; [discriminate|].
  destruct (negb (id =? -1) && negb (id =? i)); [apply IH|].
  destruct (filter (fun p => now - R <? p_time p) pts) as [|c cs] eqn:E; [apply IH|].
  pose proof (spec_archive_update_total F m xff L logs i (c :: cs) Hm) as H1.
  destruct (spec_archive_update F m xff L logs i (c :: cs)); [apply IH|contradiction].
Qed.

Lemma step_spec_total F m xff L logs o : 1 <= m <= 6 -> step_spec F m xff L logs o <> None.
Proof.
  intros Hm. destruct o as [id t v now|id pts now]; cbn [step_spec].
  - destruct ((t <=? now - last_period L) || (now <? t)); [discriminate|].
    unfold spec_update_point, spec_propagate_chain.
    destruct (_ + 1 <? Z.of_nat (length L)); [apply spec_chain_total; assumption|discriminate].
  - unfold spec_update_many. apply spec_many_loop_total. assumption.
Qed.

(** * Histories *)

Fixpoint run_spec (F : fops) (m xff : Z) (L : lay) (logs : list (list point)) (ops : list op)
  : option (list (list point)) :=
  match ops with
  | [] => Some logs
  | o :: r => match step_spec F m xff L logs o with None => None | Some lg => run_spec F m xff L lg r end
  end.
Fixpoint run_model (F : fops) (m xff : Z) (L : lay) (arcs : list arc) (ops : list op) : option (list arc) :=
  match ops with
  | [] => Some arcs
  | o :: r => match step_model F m xff L arcs o with None => None | Some a => run_model F m xff L a r end
  end.

Theorem history_refines F m xff : 1 <= m <= 6 -> forall ops arcs logs,
  Rel_all arcs logs -> wf_layout_full (layout_of arcs) -> Forall (op_ok (layout_of arcs)) ops ->
  exists arcs' logs',
    run_model F m xff (layout_of arcs) arcs ops = Some arcs' /\
    run_spec F m xff (layout_of arcs) logs ops = Some logs' /\
    Rel_all arcs' logs' /\ layout_of arcs' = layout_of arcs.
Proof.
  intros Hm. induction ops as [|o r IH]; intros arcs logs HRA Hwf Hok; cbn [run_model run_spec].
  - exists arcs, logs. auto.
  - inversion Hok as [|? ? Ho Hr]; subst.
    pose proof (step_refines F m xff arcs logs o HRA Hwf Ho) as Hs.
    pose proof (step_spec_total F m xff (layout_of arcs) logs o Hm) as Ht.
    destruct (step_spec F m xff (layout_of arcs) logs o) as [logs1|]; [|contradiction].
    destruct Hs as (arcs1 & Hm1 & HRA1 & Hlay1). rewrite Hm1.
    specialize (IH arcs1 logs1 HRA1). rewrite Hlay1 in IH. specialize (IH Hwf Hr).
    destruct IH as (arcs' & logs' & H1 & H2 & H3 & H4). exists arcs', logs'. auto.
Qed.

(** A freshly created file is related to the empty logs. *)
Lemma create_Rel_all (L : lay) :
  Forall (fun sn => 0 < fst sn /\ 0 < snd sn /\ fst sn * snd sn < TMAX) L ->
  Rel_all (create_arcs L) (map (fun _ => []) L) /\ layout_of (create_arcs L) = L.
Proof.
  intros H. unfold Rel_all, create_arcs, layout_of. split.
  - induction H as [|[s n] r (Hs & Hn & Hp) Hr IH]; cbn [map]; constructor; [|exact IH].
    cbn [fst snd] in *.
    assert (Hz : forall j, znth zero_point (repeat zero_point (Z.to_nat n)) j = zero_point).
    { intro j. apply znth_repeat_same. }
    refine (conj _ (conj _ (conj _ (conj _ _)))).
    + unfold wf_arc; cbn [a_step a_n a_slots]. repeat split; try assumption. rewrite zlen_repeat. lia.
    + constructor.
    + intros _. unfold base_interval, slot; cbn [a_slots]. rewrite Hz. reflexivity.
    + intro Hc. exfalso. apply Hc. reflexivity.
    + intros j _. unfold slot; cbn [a_slots]. rewrite Hz. reflexivity.
  - rewrite map_map. cbn [a_step a_n]. induction L as [|[s n] r IH]; cbn [map]; [reflexivity|].
    inversion H; subst. rewrite IH by assumption. reflexivity.
Qed.

(** C01 + C04 for every history from a fresh file: any fetch of a named archive after
    any sequence of updates returns, slot by slot, [live] of that archive's write log. *)
Theorem C01_history_fetch F m xff L ops id from until now :
  1 <= m <= 6 ->
  Forall (fun sn => 0 < fst sn /\ 0 < snd sn /\ fst sn * snd sn < TMAX) L ->
  wf_layout_full L -> Forall (op_ok L) ops ->
  0 <= id < llen L -> clock_ok L now ->
  0 <= from < 2^32 -> 0 <= until < 2^32 -> from <= until ->
  exists arcs logs a log,
    run_model F m xff L (create_arcs L) ops = Some arcs /\
    run_spec F m xff L (map (fun _ => []) L) ops = Some logs /\
    nth_error arcs (Z.to_nat id) = Some a /\ nth_error logs (Z.to_nat id) = Some log /\
    a_step a = lay_step L id /\ a_n a = lay_n L id /\
    if (from >? now) || (until <? now - period a)
    then fetch_from_archive arcs id from until now = FNone
    else exists vs,
      fetch_from_archive arcs id from until now =
        FSeries (mkSeries (win_from a from now) (win_until a from until now) (a_step a) vs) /\
      zlen vs = (win_until a from until now - win_from a from now) / a_step a /\
      forall k, 0 <= k < zlen vs ->
        znth NaN vs k = live log (period a) (win_from a from now + k * a_step a).
Proof.
  intros Hm HL Hwf Hops Hid Hclock Hfrom Huntil Hfu.
  destruct (create_Rel_all L HL) as [HRA0 Hlay0].
  destruct (history_refines F m xff Hm ops (create_arcs L) (map (fun _ => []) L) HRA0
              ltac:(rewrite Hlay0; exact Hwf) ltac:(rewrite Hlay0; exact Hops))
    as (arcs & logs & Hrm & Hrs & HRA & Hlay).
  rewrite Hlay0 in *.
  assert (Hidz : 0 <= id < zlen arcs) by (rewrite <- layout_wf_len, Hlay; exact Hid).
  destruct (get_arc_exists arcs id ltac:(unfold zlen in *; lia)) as [a Ha].
  destruct (Forall2_nth_error _ _ _ _ _ HRA Ha) as (log & Hlog & HRel).
  destruct (get_arc_layout _ _ _ Ha) as [Hs Hn]. rewrite Hlay in Hs, Hn.
  exists arcs, logs, a, log. repeat split; try assumption; try (symmetry; assumption).
  destruct Hwf as (Hwfl & Hper & Htop). destruct (Hper id Hid) as [Hp1 Hp2].
  assert (Hpa : lay_period L id = period a) by (rewrite <- Hlay; apply lay_period_arc; assumption).
  rewrite Hpa in *. destruct Hclock as [Hc1 Hc2].
  pose proof (Rel_wf _ _ HRel) as (HSa & HNa & _ & _).
  assert (Hpos : 0 < period a) by (unfold period; nia).
  assert (Hstep : a_step a <= period a) by (unfold period; nia).
  pose proof (fetch_named arcs id a log from until now ltac:(lia) Ha HRel ltac:(lia) ltac:(unfold TMAX in *; lia) Hfrom Huntil Hfu) as Hf.
  destruct ((from >? now) || (until <? now - period a)); [exact Hf|].
  cbv zeta in Hf. destruct Hf as (vs & Hfe & Hlen & Hv). exists vs. repeat split; try assumption.
  intros k Hk. apply Hv. lia.
Qed.
Print Assumptions C01_history_fetch.
