(** C15: hostile bytes.  Decoders allocate no more than their input; Open validates before it
    trusts; a handle on a validated header answers reads without panicking whatever the slots hold. *)
From WT Require Import Base.Wrap Base.ListX Base.Bytes Model.Time Model.Ring Model.Update Model.Codec Model.Handle
  Model.FileImage Spec.LogSpec Proofs.TimeProofs Proofs.RingProofs Proofs.FetchProofs Proofs.CodecProofs.

(** * Decoders: the size of what is allocated is bounded by the size of the input *)
Lemma dec_points_count : forall n src, length (fst (dec_points n src)) = n.
Proof. induction n as [|n IH]; intros src; [reflexivity|]. cbn [dec_points]. specialize (IH (skipn 12 src)). destruct (dec_points n (skipn 12 src)). cbn in *. congruence. Qed.
Lemma dec_vals_count : forall n src, length (fst (dec_vals n src)) = n.
Proof. induction n as [|n IH]; intros src; [reflexivity|]. cbn [dec_vals]. specialize (IH (skipn 8 src)). destruct (dec_vals n (skipn 8 src)). cbn in *. congruence. Qed.
Lemma dec_ainfos_count : forall n src, length (fst (dec_ainfos n src)) = n.
Proof. induction n as [|n IH]; intros src; [reflexivity|]. cbn [dec_ainfos]. specialize (IH (skipn 12 src)). destruct (dec_ainfos n (skipn 12 src)). cbn in *. congruence. Qed.

(** a point list is only allocated after its 12 bytes per point were seen in the input *)
Theorem dec_points_msg_bounded src ps r : dec_points_msg src = Ok ps r -> 8 + 12 * zlen ps <= zlen src.
Proof.
  unfold dec_points_msg. destruct (Z.ltb_spec (zlen src) 8) as [|H8]; [discriminate|].
  destruct (Z.gtb_spec (get64 src) MaxInt32) as [|Hc]; [discriminate|].
  destruct (Z.ltb_spec (zlen (skipn 8 src)) (get64 src * 12)) as [|Hl]; [discriminate|].
  pose proof (dec_points_count (Z.to_nat (get64 src)) (skipn 8 src)) as Hn.
  destruct (dec_points (Z.to_nat (get64 src)) (skipn 8 src)) as [ps' r'] eqn:E. cbn [fst] in Hn.
  intros H; injection H as <- <-.
  assert (Hs : zlen (skipn 8 src) = zlen src - 8) by (apply (zlen_skipn src 8); lia).
  unfold zlen in *. destruct (Z_lt_le_dec (get64 src) 0); lia.
Qed.

Theorem dec_series_bounded src s r : dec_series src = Ok s r -> 12 + 8 * zlen (s_vals s) <= zlen src.
Proof.
  unfold dec_series. destruct (Z.ltb_spec (zlen src) 12) as [|H12]; [discriminate|].
  destruct (Z.leb_spec (i32 (get32 (skipn 8 src))) 0) as [|Hs]; [discriminate|].
  destruct (Z.ltb_spec (get32 (skipn 4 src)) (get32 src)) as [|Hu]; [discriminate|].
  set (n := Z.quot (get32 (skipn 4 src) - get32 src) (i32 (get32 (skipn 8 src)))).
  destruct (Z.ltb_spec (zlen (skipn 12 src)) (n * 8)) as [|Hl]; [discriminate|].
  pose proof (dec_vals_count (Z.to_nat n) (skipn 12 src)) as Hn.
  destruct (dec_vals (Z.to_nat n) (skipn 12 src)) as [vs r'] eqn:E. cbn [fst] in Hn.
  intros H; injection H as <- <-. cbn [s_vals].
  assert (Hsk : zlen (skipn 12 src) = zlen src - 12) by (apply (zlen_skipn src 12); lia).
  unfold zlen in *. destruct (Z_lt_le_dec n 0); lia.
Qed.

Theorem dec_header_bounded src h r : dec_header src = Ok h r ->
  16 + 12 * zlen (h_arcs h) <= zlen src /\ validate (h_arcs h) = true /\ zlen (h_arcs h) = h_count h /\
  valid_method (h_method h) = true /\ valid_xff (h_xff h) = true.
Proof.
  unfold dec_header. destruct (Z.ltb_spec (zlen src) 16) as [|H16]; [discriminate|].
  destruct (valid_method (get32 src)) eqn:Em; cbn [negb]; [|discriminate].
  destruct (valid_xff (get32 (skipn 8 src))) eqn:Ex; cbn [negb]; [|discriminate].
  set (count := get32 (skipn 12 src)).
  destruct (Z.gtb_spec (count * 12) MaxInt32) as [|Hc]; [discriminate|].
  destruct (Z.ltb_spec (zlen (skipn 16 src)) (count * 12)) as [|Hl]; [discriminate|].
  pose proof (dec_ainfos_count (Z.to_nat count) (skipn 16 src)) as Hn.
  destruct (dec_ainfos (Z.to_nat count) (skipn 16 src)) as [l r'] eqn:E. cbn [fst] in Hn.
  destruct (validate l) eqn:Ev; [|discriminate].
  intros H; injection H as <- <-. cbn [h_arcs h_count h_method h_xff].
  assert (Hsk : zlen (skipn 16 src) = zlen src - 16) by (apply (zlen_skipn src 16); lia).
  assert (Hcount : 0 <= count).
  { destruct l as [|a q]; [discriminate|]. destruct (Z_lt_le_dec count 0); [|lia].
    replace (Z.to_nat count) with 0%nat in Hn by lia. discriminate. }
  unfold zlen in *. repeat split; try assumption; lia.
Qed.

(** * Open: the header is validated and the file is long enough before anything is trusted *)
Theorem read_header_validated file h : read_header file = Some h ->
  validate (h_arcs h) = true /\ 16 + 12 * zlen (h_arcs h) <= zlen file /\
  valid_method (h_method h) = true /\ valid_xff (h_xff h) = true.
Proof.
  unfold read_header. destruct (Z.ltb_spec (zlen file) 16) as [|H16]; [discriminate|].
  destruct (dec_header (firstn 16 file)) as [h0 r0|n|] eqn:E0; [| |discriminate].
  - intros H; injection H as <-. destruct (dec_header_bounded _ _ _ E0) as (Hb & Hv & Hc & Hm & Hx).
    assert (zlen (firstn 16 file) = 16) by (apply (zlen_firstn file 16); lia). repeat split; try assumption; lia.
  - destruct (Z.leb_spec n 16) as [|Hn]; [discriminate|].
    destruct (Z.gtb_spec n (zlen file)) as [|Hnf]; [discriminate|].
    destruct (dec_header (firstn (Z.to_nat n) file)) as [h1 r1| |] eqn:E1; try discriminate.
    intros H; injection H as <-. destruct (dec_header_bounded _ _ _ E1) as (Hb & Hv & Hc & Hm & Hx).
    assert (zlen (firstn (Z.to_nat n) file) = n) by (apply (zlen_firstn file n); lia).
    repeat split; try assumption; lia.
Qed.

(** every archive decoded from an opened image is a well-formed ring: as many slots as the header
    says, positive step and count, period below 2^31 — whatever the slots contain *)
Lemma validate_from_fields : forall l off off64, validate_from off off64 l = true ->
  Forall (fun a => 0 < ai_step a /\ 0 < ai_n a /\ ai_step a * ai_n a <= MaxInt32) l.
Proof.
  induction l as [|a r IH]; intros off off64 H; [constructor|].
  cbn [validate_from] in H. rewrite !andb_true_iff in H. destruct H as [[[[[Hs Hn] Hr] _] _] Hrest].
  constructor; [rewrite Z.ltb_lt in Hs, Hn; rewrite Z.leb_le in Hr; tauto|].
  destruct r as [|nx r']; [constructor|]. rewrite !andb_true_iff in Hrest. destruct Hrest as [_ Hrec].
  apply (IH _ _ Hrec).
Qed.

Theorem decode_arcs_wf : forall l file,
  Forall (fun a => 0 < ai_step a /\ 0 < ai_n a /\ ai_step a * ai_n a <= MaxInt32) l ->
  Forall wf_arc (decode_arcs l file).
Proof.
  induction l as [|a r IH]; intros file H; [constructor|].
  inversion H as [|? ? (Hs & Hn & Hr) Hq]; subst. cbn [decode_arcs]. constructor; [|apply IH; exact Hq].
  unfold wf_arc. cbn [a_step a_n a_slots]. repeat split; try assumption.
  - unfold zlen. rewrite dec_points_count. lia.
  - unfold TMAX, MaxInt32 in *. lia.
Qed.

Theorem open_image_wf file h arcs : open_image file = Some (h, arcs) ->
  Forall wf_arc arcs /\ expected_file_size h <= zlen file /\ validate (h_arcs h) = true.
Proof.
  unfold open_image. destruct (read_header file) as [h0|] eqn:E; [|discriminate].
  destruct (Z.ltb_spec (zlen file) (expected_file_size h0)) as [|Hsz]; [discriminate|].
  intros H; injection H as <- <-.
  destruct (read_header_validated _ _ E) as (Hv & _).
  split; [|split; assumption].
  apply decode_arcs_wf. unfold validate in Hv. destruct (h_arcs h0) as [|a r]; [discriminate|].
  eapply validate_from_fields. exact Hv.
Qed.

(** * Reads on arbitrary slot contents never panic *)
Lemma floorMod_range x n : 0 < n -> 0 <= floorMod x n < n.
Proof. intros. rewrite floorMod_mod by lia. apply Z.mod_pos_bound. lia. Qed.

Theorem fetch_raw_total a f u : zlen (a_slots a) = a_n a -> 0 < a_n a ->
  1 <= Z.quot (ts_sub u f) (a_step a) <= a_n a ->
  exists ps, fetch_raw a f u = Some ps /\ zlen ps = Z.quot (ts_sub u f) (a_step a).
Proof.
  intros Hlen HN Hcnt. unfold fetch_raw.
  set (cnt := Z.quot (ts_sub u f) (a_step a)) in *.
  pose proof (floorMod_range (Z.quot (ts_sub f (base_interval a)) (a_step a)) (a_n a) HN) as Hfi.
  unfold point_index. set (fi := floorMod (Z.quot (ts_sub f (base_interval a)) (a_step a)) (a_n a)) in *.
  rewrite (Z.rem_mod_nonneg (fi + cnt) (a_n a)) by lia.
  destruct (Z.ltb_spec cnt 0) as [|_]; [lia|].
  destruct (Z_lt_le_dec (fi + cnt) (a_n a)) as [Hnw|Hw].
  - rewrite Z.mod_small by lia. destruct (Z.ltb_spec fi (fi + cnt)) as [_|]; [|lia].
    assert (Hl : zlen (slice (a_slots a) fi (fi + cnt)) = cnt) by (rewrite slice_length by lia; lia).
    rewrite Hl. destruct (Z.gtb_spec cnt cnt); [lia|]. rewrite Z.sub_diag. cbn [Z.to_nat repeat]. rewrite app_nil_r.
    eexists; split; [reflexivity|exact Hl].
  - assert (Hm : (fi + cnt) mod a_n a = fi + cnt - a_n a) by (symmetry; apply Zmod_unique with (q := 1); lia).
    rewrite Hm. destruct (Z.ltb_spec fi (fi + cnt - a_n a)) as [|_]; [lia|].
    assert (Hl1 : zlen (slice (a_slots a) fi (a_n a)) = a_n a - fi) by (apply slice_length; lia).
    assert (Hl2 : zlen (slice (a_slots a) 0 (fi + cnt - a_n a)) = fi + cnt - a_n a) by (rewrite slice_length by lia; lia).
    rewrite zlen_app, Hl1, Hl2. replace (a_n a - fi + (fi + cnt - a_n a)) with cnt by lia.
    destruct (Z.gtb_spec cnt cnt); [lia|]. rewrite Z.sub_diag. cbn [Z.to_nat repeat]. rewrite app_nil_r.
    eexists; split; [reflexivity|]. rewrite zlen_app. lia.
Qed.

Lemma clear_old_length : forall ps cur step, zlen (clear_old ps cur step) = zlen ps.
Proof. induction ps as [|p r IH]; intros cur step; [reflexivity|]. cbn [clear_old]. rewrite !zlen_cons, IH. reflexivity. Qed.

(** a fetch on any well-formed ring — any slot contents, any base interval — is a series of the
    expected shape or "no series", never a panic *)
Theorem fetch_named_total arcs id a from until now :
  0 <= id -> nth_error arcs (Z.to_nat id) = Some a -> wf_arc a ->
  period a <= now -> now + 2 * a_step a < TMAX ->
  0 <= from < 2^32 -> 0 <= until < 2^32 -> from <= until ->
  if (from >? now) || (until <? now - period a)
  then fetch_from_archive arcs id from until now = FNone
  else
    let f := win_from a from now in let u := win_until a from until now in
    exists vs, fetch_from_archive arcs id from until now = FSeries (mkSeries f u (a_step a) vs) /\
               zlen vs = (u - f) / a_step a.
Proof.
  intros Hid Hnth Hwf Hp Hnow Hfrom Huntil Hfu.
  pose proof Hwf as (HS & HN & Hlen & HR).
  pose proof (nth_error_range arcs id a Hid Hnth) as Hidr.
  assert (Hmr : max_retention a = period a) by (apply max_retention_period; assumption).
  assert (Hold : ts_add now (i32 (- max_retention a)) = now - period a).
  { rewrite Hmr. unfold period, TMAX in *. rewrite i32_small by lia.
    rewrite ts_add_nowrap by (unfold TMAX; lia). lia. }
  unfold fetch_from_archive.
  destruct (Z.gtb_spec from until) as [|_]; [lia|].
  assert (Hidchk : (negb (id =? ArchiveIDBest) && (id <? 0)) || (zlen arcs - 1 <? id) = false).
  { unfold ArchiveIDBest. destruct (Z.eqb_spec id (-1)); [lia|].
    destruct (Z.ltb_spec id 0); [lia|]. destruct (Z.ltb_spec (zlen arcs - 1) id); [lia|]. reflexivity. }
  rewrite Hidchk. unfold ArchiveIDBest. destruct (Z.eqb_spec id (-1)) as [|_]; [lia|].
  rewrite Hnth. rewrite Hold.
  destruct (Z.gtb_spec from now) as [Hfn|Hfn]; cbn [orb]; [reflexivity|].
  destruct (Z.ltb_spec until (now - period a)) as [Hun|Hun]; [reflexivity|].
  cbv zeta.
  destruct (window_facts a from until now Hwf Hp Hnow ltac:(lia) Hun Hfu) as (Hgf & Hgu & Hlt & Hcnt & Hub).
  assert (Hfrom' : (if from <? now - period a then now - period a else from) = Z.max from (now - period a)).
  { destruct (Z.ltb_spec from (now - period a)); lia. }
  assert (Huntil' : (if until >? now then now else until) = Z.min until now).
  { destruct (Z.gtb_spec until now); lia. }
  rewrite Hfrom', Huntil'.
  assert (Hfi : interval (a_step a) (Z.max from (now - period a)) = win_from a from now).
  { unfold win_from. apply interval_spec; unfold period, TMAX in *; lia. }
  assert (Hui0 : interval (a_step a) (Z.min until now) =
                 Z.min until now - Z.min until now mod a_step a + a_step a).
  { apply interval_spec; unfold period, TMAX in *; lia. }
  rewrite Hfi, Hui0.
  assert (Hui : (if win_from a from now =? Z.min until now - Z.min until now mod a_step a + a_step a
                 then ts_add (Z.min until now - Z.min until now mod a_step a + a_step a) (a_step a)
                 else Z.min until now - Z.min until now mod a_step a + a_step a) = win_until a from until now).
  { unfold win_until.
    destruct (win_from a from now =? Z.min until now - Z.min until now mod a_step a + a_step a) eqn:E; [|reflexivity].
    pose proof (mod_facts (Z.min until now) (a_step a) HS ltac:(lia)).
    apply ts_add_nowrap; unfold TMAX in *; lia. }
  rewrite Hui.
  set (f := win_from a from now) in *. set (u := win_until a from until now) in *.
  assert (Hquot : Z.quot (ts_sub u f) (a_step a) = (u - f) / a_step a).
  { destruct Hgf as [? ?]. destruct Hgu as [? ?].
    rewrite ts_sub_nowrap by (unfold TMAX in *; lia). apply quot_div_nonneg; lia. }
  assert (Hpos : 1 <= (u - f) / a_step a).
  { destruct Hgf as [? Hf2]. destruct Hgu as [? Hu2].
    assert (Hd : (u - f) mod a_step a = 0).
    { rewrite (Zminus_mod u f (a_step a)), Hf2, Hu2. rewrite Z.sub_0_r. apply Z.mod_0_l. lia. }
    assert (u - f = a_step a * ((u - f) / a_step a)) by (apply Z_div_exact_full_2; lia).
    destruct (Z_lt_le_dec ((u - f) / a_step a) 1); [|lia]. nia. }
  destruct (Z.eqb_spec (base_interval a) 0) as [Hb0|Hb0].
  - eexists. split; [reflexivity|]. rewrite Hquot. rewrite zlen_repeat. lia.
  - destruct (fetch_raw_total a f u Hlen HN ltac:(rewrite Hquot; lia)) as (ps & Hps & Hl).
    rewrite Hps. eexists. split; [reflexivity|]. rewrite clear_old_length, Hl. exact Hquot.
Qed.
