(** C06 / C05: the bytes of a file.  [encode_image] lays out the header and the archives
    contiguously; [open_image] (what Open reads) inverts it. *)
From WT Require Import Base.Wrap Base.ListX Base.Bytes Model.Time Model.Ring Model.Update Model.Codec Model.Handle
  Model.FileImage Proofs.CodecProofs Proofs.CodecTruncProofs Proofs.LayoutProofs Proofs.EntryProofs.

Definition slots_total (arcs : list arc) : Z := fold_right (fun a acc => zlen (a_slots a) + acc) 0 arcs.

Lemma enc_slots_len a : zlen (enc_slots a) = 12 * zlen (a_slots a).
Proof. unfold enc_slots. apply flat_map_enc_point_len. Qed.

Lemma flat_enc_slots_len arcs : zlen (flat_map enc_slots arcs) = 12 * slots_total arcs.
Proof.
  induction arcs as [|a r IH]; [reflexivity|]. cbn [flat_map slots_total fold_right].
  rewrite zlen_app, enc_slots_len, IH. fold (slots_total r). lia.
Qed.

(** the length of a file is exactly header + 12 bytes per slot *)
Theorem encode_image_length h arcs :
  zlen (encode_image h arcs) = 16 + 12 * zlen (h_arcs h) + 12 * slots_total arcs.
Proof. unfold encode_image. rewrite zlen_app, enc_header_len, flat_enc_slots_len. reflexivity. Qed.

(** the header is big-endian: aggregation type, max retention, xFilesFactor bits, archive count,
    then offset / secondsPerPoint / points per archive *)
Theorem encode_image_header_layout h arcs :
  encode_image h arcs =
  be32 (u32 (h_method h)) ++ be32 (u32 (h_maxret h)) ++ be32 (h_xff h) ++ be32 (h_count h)
  ++ flat_map (fun a => be32 (ai_off a) ++ be32 (u32 (ai_step a)) ++ be32 (ai_n a)) (h_arcs h)
  ++ flat_map enc_slots arcs.
Proof.
  unfold encode_image, enc_header, enc_dur. rewrite <- !app_assoc. repeat f_equal.
Qed.

(** header and archives describe the same rings *)
Definition matches (infos : list ainfo) (arcs : list arc) : Prop :=
  Forall2 (fun i a => ai_step i = a_step a /\ ai_n i = a_n a /\ zlen (a_slots a) = a_n a /\ Forall wf_point (a_slots a)) infos arcs.

Lemma expected_size_fold : forall l acc, fold_left (fun sz a => sz + ai_n a * 12) l acc = acc + 12 * fold_right (fun a s => ai_n a + s) 0 l.
Proof. induction l as [|a r IH]; intros acc; cbn [fold_left fold_right]; [lia|]. rewrite IH. lia. Qed.

Lemma matches_total infos arcs : matches infos arcs -> fold_right (fun a s => ai_n a + s) 0 infos = slots_total arcs.
Proof.
  induction 1 as [|i a infos arcs (Hs & Hn & Hl & Hp) Hr IH]; [reflexivity|].
  cbn [fold_right slots_total]. fold (slots_total arcs). rewrite IH. lia.
Qed.

(** the offsets a validated header carries are the running sums (no 32-bit wrap) *)
Fixpoint offs_from (off : Z) (l : list ainfo) : list Z :=
  match l with [] => [] | a :: r => off :: offs_from (off + ai_n a * 12) r end.

Lemma validate_from_offs : forall l off64, 0 <= off64 ->
  validate_from (off64 mod 2^32) off64 l = true -> map ai_off l = offs_from off64 l.
Proof.
  induction l as [|a r IH]; intros off64 H0 H; [reflexivity|].
  cbn [validate_from] in H. rewrite !andb_true_iff in H. destruct H as [[[[[Hs Hn] Hr] H64] Hoff] Hrest].
  rewrite Z.eqb_eq in Hoff. rewrite Z.leb_le in H64. rewrite Z.ltb_lt in Hn.
  cbn [map offs_from]. f_equal.
  - rewrite Hoff. apply Z.mod_small. unfold MaxUint32 in *. lia.
  - destruct r as [|nx r']; [reflexivity|].
    rewrite !andb_true_iff in Hrest. destruct Hrest as [_ Hrec].
    rewrite next_off in Hrec by lia. apply IH; [lia|exact Hrec].
Qed.

(** decoding the slots at the header's offsets gives back the archives *)
Lemma decode_arcs_encode : forall infos arcs pre post,
  matches infos arcs -> map ai_off infos = offs_from (zlen pre) infos ->
  decode_arcs infos (pre ++ flat_map enc_slots arcs ++ post) = arcs.
Proof.
  induction infos as [|i r IH]; intros arcs pre post Hm Ho; inversion Hm as [|? a ? arcs' (Hs & Hn & Hl & Hp) Hr]; subst; [reflexivity|].
  cbn [decode_arcs map offs_from flat_map] in *. injection Ho as Hoff Hrest.
  f_equal.
  - rewrite Hoff. unfold zlen at 1. rewrite Nat2Z.id.
    rewrite skipn_app. rewrite skipn_all. rewrite Nat.sub_diag. cbn [skipn app].
    unfold enc_slots at 1. rewrite <- app_assoc.
    replace (Z.to_nat (ai_n i)) with (length (a_slots a)) by (rewrite Hn, <- Hl; unfold zlen; lia).
    rewrite dec_points_enc by exact Hp. cbn [fst]. destruct a; cbn in *; subst; reflexivity.
  - replace (pre ++ (enc_slots a ++ flat_map enc_slots arcs') ++ post)
      with ((pre ++ enc_slots a) ++ flat_map enc_slots arcs' ++ post) by (rewrite <- !app_assoc; reflexivity).
    apply IH; [exact Hr|].
    rewrite zlen_app, enc_slots_len. rewrite Hl, <- Hn.
    replace (zlen pre + 12 * ai_n i) with (zlen pre + ai_n i * 12) by lia. exact Hrest.
Qed.

(** Open reads back exactly what was laid out: header fields, archive list, every slot *)
Theorem open_image_encode h arcs :
  wf_header h -> 0 < h_count h -> matches (h_arcs h) arcs ->
  open_image (encode_image h arcs) = Some (h, arcs).
Proof.
  intros Hwf Hk Hm. pose proof Hwf as (Hvm & Hvx & Hmr & Hc & Hcb & Hai & Hv).
  pose proof (enc_header_len h) as Hlen. pose proof (zlen_nonneg (h_arcs h)) as Hn0.
  pose proof (zlen_nonneg (flat_map enc_slots arcs)) as Hn1.
  unfold open_image, read_header.
  assert (Hfile : zlen (encode_image h arcs) = 16 + 12 * zlen (h_arcs h) + 12 * slots_total arcs) by apply encode_image_length.
  assert (Htot0 : 0 <= slots_total arcs) by (rewrite <- (Z.mul_nonneg_cancel_l 12) by lia; rewrite <- flat_enc_slots_len; lia).
  destruct (Z.ltb_spec (zlen (encode_image h arcs)) 16) as [|_]; [lia|].
  assert (Hf16 : firstn 16 (encode_image h arcs) = firstn (Z.to_nat 16) (enc_header h)).
  { unfold encode_image. rewrite firstn_app. replace (16 - length (enc_header h))%nat with 0%nat by (unfold zlen in *; lia).
    cbn [firstn]. rewrite app_nil_r. reflexivity. }
  rewrite Hf16. rewrite header_truncated_want by (try assumption; lia).
  destruct (Z.leb_spec (16 + h_count h * 12) 16) as [|_]; [lia|].
  destruct (Z.gtb_spec (16 + h_count h * 12) (zlen (encode_image h arcs))) as [|_]; [lia|].
  assert (Hfn : firstn (Z.to_nat (16 + h_count h * 12)) (encode_image h arcs) = enc_header h ++ []).
  { unfold encode_image. rewrite firstn_app.
    replace (Z.to_nat (16 + h_count h * 12)) with (length (enc_header h)) by (unfold zlen in *; lia).
    rewrite firstn_all, Nat.sub_diag. reflexivity. }
  rewrite Hfn. rewrite header_roundtrip by exact Hwf.
  assert (Hexp : expected_file_size h = zlen (encode_image h arcs)).
  { unfold expected_file_size, header_size. rewrite expected_size_fold, (matches_total _ _ Hm). lia. }
  rewrite Hexp. destruct (Z.ltb_spec (zlen (encode_image h arcs)) (zlen (encode_image h arcs))) as [|_]; [lia|].
  f_equal. f_equal. unfold encode_image.
  rewrite <- (app_nil_r (flat_map enc_slots arcs)).
  apply decode_arcs_encode; [exact Hm|].
  unfold validate in Hv. destruct (h_arcs h) as [|a r] eqn:El; [discriminate|]. rewrite <- El in *.
  rewrite Hlen. unfold first_offset in Hv.
  replace (16 + 12 * zlen (h_arcs h)) with (16 + zlen (h_arcs h) * 12) by lia.
  apply validate_from_offs; [lia|].
  rewrite El in Hv |- *. unfold u32 in Hv. rewrite Zplus_mod_idemp_r in Hv. exact Hv.
Qed.
