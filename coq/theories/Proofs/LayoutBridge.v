(** The layouts the proofs quantify over are exactly the ones validation accepts: the
    declarative [wf_layout] (Spec/WfLayout.v; equivalent to the code's validation by
    Proofs/LayoutProofs.v and Proofs/EntryProofs.v) implies the index-based conditions
    ([wf_layout_full], per-archive bounds) the refinement theorems take as hypotheses. *)
From WT Require Import Base.Wrap Base.ListX Model.Time Model.Ring Model.Update Spec.LogSpec Spec.WfLayout
  Proofs.TimeProofs Proofs.RingProofs Proofs.FetchProofs Proofs.UpdateProofs Proofs.ChainProofs
  Proofs.ArchiveUpdateProofs Proofs.RoutingProofs Proofs.HistoryProofs.

Lemma lay_step_cons sn r i : 1 <= i -> lay_step (sn :: r) i = lay_step r (i - 1).
Proof. intros. unfold lay_step. replace (Z.to_nat i) with (S (Z.to_nat (i - 1))) by lia. reflexivity. Qed.
Lemma lay_n_cons sn r i : 1 <= i -> lay_n (sn :: r) i = lay_n r (i - 1).
Proof. intros. unfold lay_n. replace (Z.to_nat i) with (S (Z.to_nat (i - 1))) by lia. reflexivity. Qed.
Lemma lay_period_cons sn r i : 1 <= i -> lay_period (sn :: r) i = lay_period r (i - 1).
Proof. intros. unfold lay_period. rewrite lay_step_cons, lay_n_cons by assumption. reflexivity. Qed.
Lemma llen_cons (sn : Z * Z) r : llen (sn :: r) = llen r + 1.
Proof. unfold llen. cbn [length]. lia. Qed.

Lemma wf_from_lay : forall L off, wf_from off L ->
  (forall i, 0 <= i < llen L -> 0 < lay_step L i /\ 0 < lay_n L i /\ lay_period L i < TMAX) /\
  (forall i, 1 <= i < llen L -> level_valid L i /\ lay_period L (i - 1) < lay_period L i).
Proof.
  induction L as [|[s n] r IH]; intros off H.
  - split; intros i Hi; unfold llen in Hi; cbn in Hi; lia.
  - cbn [wf_from] in H. destruct H as (Hs & Hn & Hp & Hoff & Hrest).
    rewrite llen_cons.
    assert (H0 : lay_step ((s, n) :: r) 0 = s /\ lay_n ((s, n) :: r) 0 = n) by (split; reflexivity).
    destruct r as [|[s' n'] r'].
    + split; intros i Hi; unfold llen in Hi; cbn in Hi; [|lia].
      replace i with 0 by lia. unfold lay_period. destruct H0 as [-> ->]. unfold TMAX. auto.
    + destruct Hrest as (Hlt & Hdiv & Hpp & Hcnt & Hwf').
      destruct (IH _ Hwf') as [IH1 IH2]. split.
      * intros i Hi. destruct (Z.eq_dec i 0) as [->|Hne].
        -- unfold lay_period. destruct H0 as [-> ->]. unfold TMAX. auto.
        -- rewrite lay_step_cons, lay_n_cons, lay_period_cons by lia. apply IH1. lia.
      * intros i Hi. destruct (Z.eq_dec i 1) as [->|Hne].
        -- unfold level_valid, lay_period. replace (1 - 1) with 0 by lia.
           change (lay_step ((s, n) :: (s', n') :: r') 1) with s'. change (lay_n ((s, n) :: (s', n') :: r') 1) with n'.
           change (lay_step ((s, n) :: (s', n') :: r') 0) with s. change (lay_n ((s, n) :: (s', n') :: r') 0) with n. auto.
        -- unfold level_valid. set (r := (s', n') :: r') in *.
           rewrite (lay_step_cons (s, n) r i), (lay_step_cons (s, n) r (i - 1)), (lay_n_cons (s, n) r (i - 1)),
             (lay_period_cons (s, n) r i), (lay_period_cons (s, n) r (i - 1)) by lia.
           destruct (IH2 (i - 1) ltac:(lia)) as [Hlv Hpi]. unfold level_valid in Hlv. auto.
Qed.

Lemma periods_monotone L : (forall i, 1 <= i < llen L -> lay_period L (i - 1) < lay_period L i) ->
  forall d, 0 <= d -> forall i, 0 <= i -> i + d < llen L -> lay_period L i <= lay_period L (i + d).
Proof.
  intros Hinc d Hd. pattern d. apply natlike_ind; [| |exact Hd].
  - intros i _ _. replace (i + 0) with i by lia. lia.
  - intros x Hx IH i Hi Hlt. specialize (IH i Hi ltac:(lia)).
    specialize (Hinc (i + Z.succ x) ltac:(lia)). replace (i + Z.succ x - 1) with (i + x) in Hinc by lia. lia.
Qed.

Theorem wf_layout_full_of_wf_layout L : wf_layout L ->
  wf_layout_full L /\ Forall (fun sn => 0 < fst sn /\ 0 < snd sn /\ fst sn * snd sn < TMAX) L.
Proof.
  intros [Hne Hwf]. destruct (wf_from_lay L _ Hwf) as [H1 H2].
  assert (Hlen : 0 < llen L) by (destruct L; [congruence|rewrite llen_cons; unfold llen; lia]).
  split.
  - refine (conj _ (conj _ _)).
    + refine (conj Hlen (conj _ _)).
      * intros i Hi. destruct (H1 i Hi) as (? & ? & ?). auto.
      * intros i Hi. apply H2. exact Hi.
    + intros i Hi. split; [apply H1; exact Hi|].
      unfold last_period. replace (llen L - 1) with (i + (llen L - 1 - i)) by lia.
      apply periods_monotone; try lia.
    + unfold top_step, last_period, lay_period. destruct (H1 (llen L - 1) ltac:(lia)) as (? & ? & _). nia.
  - apply Forall_forall. intros [s n] Hin. apply In_nth_error in Hin. destruct Hin as [k Hk].
    assert (Hkl : (k < length L)%nat) by (apply nth_error_Some; congruence).
    destruct (H1 (Z.of_nat k) ltac:(unfold llen; lia)) as (Hs & Hn & Hp).
    unfold lay_period, lay_step, lay_n in *. rewrite Nat2Z.id in *.
    rewrite (nth_error_nth _ _ _ Hk) in *. cbn [fst snd] in *. auto.
Qed.
Print Assumptions wf_layout_full_of_wf_layout.

(** the hypotheses are satisfiable: a concrete layout and a concrete clock *)
Example wf_layout_example : wf_layout [(1, 7); (7, 10)] /\ clock_ok [(1, 7); (7, 10)] 1700000000.
Proof.
  split.
  - split; [discriminate|]. unfold zlen. cbn [wf_from length].
    repeat split; try (vm_compute; reflexivity); try (vm_compute; discriminate).
  - unfold clock_ok. split; [vm_compute; discriminate|vm_compute; reflexivity].
Qed.
