From WT Require Import Base.Wrap Base.ListX Base.Bytes Model.Time Model.Ring Model.Codec Spec.WfLayout
  Proofs.TimeProofs.

Definition pairs (l : list ainfo) : list (Z * Z) := map (fun a => (ai_step a, ai_n a)) l.

(** fields as they come out of Go values: step is an int32, points a uint32 *)
Definition fields_ok (a : ainfo) : Prop := - 2^31 <= ai_step a < 2^31 /\ 0 <= ai_n a < 2^32.

Lemma pairs_fill off l : pairs (fill_offset_from off l) = pairs l.
Proof. revert off; induction l as [|a r IH]; intros off; cbn [fill_offset_from pairs map]; [reflexivity|]. f_equal. apply IH. Qed.

Lemma next_off off64 n : 0 <= off64 -> 0 <= n ->
  u32 (off64 mod 2^32 + u32 (n * 12)) = (off64 + n * 12) mod 2^32.
Proof. intros. unfold u32. rewrite Zplus_mod_idemp_r, Zplus_mod_idemp_l. reflexivity. Qed.

(** [validate] on a list whose offsets were filled in accepts exactly the well-formed layouts *)
Lemma validate_fill : forall l off64,
  Forall fields_ok l -> 0 <= off64 ->
  (validate_from (off64 mod 2^32) off64 (fill_offset_from (off64 mod 2^32) l) = true
   <-> wf_from off64 (pairs l)).
Proof.
  induction l as [|a r IH]; intros off64 Hf Ho; cbn [fill_offset_from validate_from pairs map wf_from]; [tauto|].
  inversion Hf as [|? ? [Hs Hn] Hfr]; subst. cbn [ai_step ai_n ai_off].
  rewrite Z.eqb_refl, andb_true_r.
  destruct r as [|nx r'].
  - cbn [fill_offset_from map]. rewrite andb_true_r. unfold MaxInt32, MaxUint32.
    rewrite !andb_true_iff, !Z.ltb_lt, !Z.leb_le.
    split; [intros (((H1 & H2) & H3) & H4) | intros (H1 & H2 & H3 & H4 & _)]; repeat split; lia.
  - inversion Hfr as [|? ? [Hs' Hn'] Hfr']; subst.
    cbn [fill_offset_from]. cbn [ai_step ai_n]. cbn [map].
    change (map (fun a0 => (ai_step a0, ai_n a0)) r') with (pairs r').
    rewrite next_off by lia.
    specialize (IH (off64 + ai_n a * 12) Hfr ltac:(lia)). cbn [fill_offset_from] in IH.
    unfold MaxInt32, MaxUint32 in *.
    split.
    + intros H. rewrite !andb_true_iff in H.
      destruct H as ((((H1 & H2) & H3) & H4) & ((((H6 & H7) & H8) & H9) & H10)).
      rewrite Z.ltb_lt in H1, H2, H6, H8. rewrite Z.leb_le in H3, H4. rewrite Z.eqb_eq in H7.
      rewrite negb_true_iff, Z.ltb_ge in H9.
      pose proof H10 as H10'. cbn [validate_from] in H10'. cbn [ai_step ai_n ai_off] in H10'.
      rewrite !andb_true_iff in H10'. destruct H10' as (((((Hn1 & Hn2) & Hn3) & _) & _) & _).
      rewrite Z.ltb_lt in Hn1, Hn2. rewrite Z.leb_le in Hn3. unfold MaxInt32 in Hn3.
      assert (Hret : ai_retention (mkAinfo (off64 mod 2^32) (ai_step a) (ai_n a)) = ai_step a * ai_n a).
      { unfold ai_retention; cbn [ai_step ai_n]. apply retention_nowrap; unfold TMAX; lia. }
      assert (Hret' : ai_retention (mkAinfo ((off64 + ai_n a * 12) mod 2^32) (ai_step nx) (ai_n nx)) = ai_step nx * ai_n nx).
      { unfold ai_retention; cbn [ai_step ai_n]. apply retention_nowrap; unfold TMAX; lia. }
      rewrite Hret, Hret' in H8.
      assert (Hq : Z.quot (ai_step nx) (ai_step a) = ai_step nx / ai_step a) by (apply quot_div_nonneg; lia).
      assert (Hrem : Z.rem (ai_step nx) (ai_step a) = ai_step nx mod ai_step a) by (apply Z.rem_mod_nonneg; lia).
      assert (Hqs : 0 <= ai_step nx / ai_step a < 2^32).
      { split; [apply Z.div_pos; lia|]. apply Z.div_lt_upper_bound; nia. }
      rewrite Hq, u32_small in H9 by lia. rewrite Hrem in H7.
      apply IH in H10. replace (12 * ai_n a) with (ai_n a * 12) by ring.
      do 8 (split; [lia|]). exact H10.
    + intros (H1 & H2 & H3 & H4 & H6 & H7 & H8 & H9 & H10).
      replace (12 * ai_n a) with (ai_n a * 12) in H10 by ring.
      pose proof H10 as H10'. cbn [wf_from pairs map] in H10'. destruct H10' as (Hn1 & Hn2 & Hn3 & _).
      assert (Hret : ai_retention (mkAinfo (off64 mod 2^32) (ai_step a) (ai_n a)) = ai_step a * ai_n a).
      { unfold ai_retention; cbn [ai_step ai_n]. apply retention_nowrap; unfold TMAX; lia. }
      assert (Hret' : ai_retention (mkAinfo ((off64 + ai_n a * 12) mod 2^32) (ai_step nx) (ai_n nx)) = ai_step nx * ai_n nx).
      { unfold ai_retention; cbn [ai_step ai_n]. apply retention_nowrap; unfold TMAX; lia. }
      assert (Hq : Z.quot (ai_step nx) (ai_step a) = ai_step nx / ai_step a) by (apply quot_div_nonneg; lia).
      assert (Hrem : Z.rem (ai_step nx) (ai_step a) = ai_step nx mod ai_step a) by (apply Z.rem_mod_nonneg; lia).
      assert (Hqs : 0 <= ai_step nx / ai_step a < 2^32).
      { split; [apply Z.div_pos; lia|]. apply Z.div_lt_upper_bound; nia. }
      apply IH in H10.
      rewrite !andb_true_iff. rewrite Hret, Hret', Hq, (u32_small (ai_step nx / ai_step a)) by lia. rewrite Hrem.
      rewrite negb_true_iff, Z.ltb_ge, !Z.ltb_lt, !Z.leb_le, Z.eqb_eq.
      repeat split; try lia; exact H10.
Qed.

(** C07 for construction: NewHeader's validation accepts exactly the well-formed layouts *)
Lemma zlen_fill off l : zlen (fill_offset_from off l) = zlen l.
Proof. revert off; induction l as [|x y IH]; intros o; cbn [fill_offset_from]; [reflexivity|]. rewrite !zlen_cons, IH. reflexivity. Qed.

Theorem validate_fill_offset_iff l : Forall fields_ok l ->
  (validate (fill_offset l) = true <-> wf_layout (pairs l)).
Proof.
  intros Hf. unfold wf_layout.
  destruct l as [|a r]; [cbn; split; [discriminate|intros [H _]; contradiction]|].
  set (l := a :: r) in *. pose proof (zlen_nonneg l).
  assert (Hv : validate (fill_offset l) =
               validate_from (first_offset (zlen l)) (16 + zlen l * 12) (fill_offset_from (first_offset (zlen l)) l)).
  { unfold validate, fill_offset. rewrite zlen_fill. unfold l at 1. cbn [fill_offset_from]. reflexivity. }
  rewrite Hv.
  assert (Hfo : first_offset (zlen l) = (16 + zlen l * 12) mod 2^32).
  { unfold first_offset, u32. rewrite Zplus_mod_idemp_r. reflexivity. }
  rewrite Hfo. rewrite (validate_fill l (16 + zlen l * 12) Hf ltac:(lia)).
  assert (Hzp : zlen (pairs l) = zlen l) by (unfold pairs; apply zlen_map).
  rewrite Hzp. replace (16 + 12 * zlen l) with (16 + zlen l * 12) by ring.
  split; [intros H'; split; [unfold l; cbn; discriminate|exact H'] | intros [_ H']; exact H'].
Qed.
Print Assumptions validate_fill_offset_iff.
