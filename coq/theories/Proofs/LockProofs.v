From Coq Require Import List ZArith Lia.
Import ListNotations.
From WT Require Import Model.Lock.

Section LockProofs.
Variables D H : Type.
Variable load : D -> option H.
Variable store : H -> D -> D.
Notation sys := (sys D H). Notation tstate := (tstate H).
Notation step := (step D H load store). Notation run := (run D H load store).

Lemma nth_set_thread_same (ts : list tstate) t s : t < length ts -> nth_error (set_thread H ts t s) t = Some s.
Proof.
  intros Ht. unfold set_thread. rewrite nth_error_app2 by (rewrite firstn_length; lia).
  rewrite firstn_length. replace (t - Nat.min t (length ts)) with 0 by lia. reflexivity.
Qed.
Lemma nth_error_firstn_lt {A} (l : list A) n u : u < n -> nth_error (firstn n l) u = nth_error l u.
Proof.
  revert l u; induction n as [|n IH]; intros l u Hu; [lia|].
  destruct l as [|x r]; [destruct u; reflexivity|]. destruct u; cbn; [reflexivity|]. apply IH. lia.
Qed.
Lemma nth_error_skipn' {A} (l : list A) n k : nth_error (skipn n l) k = nth_error l (n + k).
Proof. revert l; induction n as [|n IH]; intros l; cbn; [reflexivity|]. destruct l; cbn; [destruct k; reflexivity|]. apply IH. Qed.
Lemma nth_set_thread_other (ts : list tstate) t u s : t < length ts -> u <> t ->
  nth_error (set_thread H ts t s) u = nth_error ts u.
Proof.
  intros Ht Hu. unfold set_thread. destruct (Nat.lt_ge_cases u t) as [Hlt|Hge].
  - rewrite nth_error_app1 by (rewrite firstn_length; lia). apply nth_error_firstn_lt. exact Hlt.
  - rewrite nth_error_app2 by (rewrite firstn_length; lia). rewrite firstn_length.
    replace (Nat.min t (length ts)) with t by lia.
    destruct (u - t) as [|k] eqn:E; [lia|]. cbn [nth_error]. rewrite nth_error_skipn'. f_equal. lia.
Qed.

(** Mutual exclusion is preserved by every step of every thread. *)
Theorem step_excl (s s' : sys) t : excl D H s -> step s t = Some s' -> excl D H s'.
Proof.
  unfold excl, Lock.step. intros Hex Hs.
  destruct (nth_error (threads D H s) t) as [st|] eqn:Et; [|discriminate].
  assert (Htl : t < length (threads D H s)) by (apply nth_error_Some; congruence).
  destruct st as [prog|h rest|ok]; [| |discriminate].
  - destruct (lock D H s) as [o|] eqn:El; [discriminate|].
    destruct (load (disk D H s)) as [h|]; injection Hs as <-; cbn [threads lock]; intros u;
      pose proof (Hex u) as Hu; rewrite ?El in Hu.
    + destruct (Nat.eq_dec u t) as [->|Hne].
      * rewrite nth_set_thread_same by assumption. split; [reflexivity|eauto].
      * rewrite nth_set_thread_other by assumption. split; [intros E; apply Hu in E; discriminate|intros E; injection E; congruence].
    + destruct (Nat.eq_dec u t) as [->|Hne].
      * rewrite nth_set_thread_same by assumption. split; [intros (h & r & E); discriminate|discriminate].
      * rewrite nth_set_thread_other by assumption. exact Hu.
  - assert (Hown : lock D H s = Some t) by (apply Hex; eauto).
    destruct rest as [|[g|] rest']; injection Hs as <-; cbn [threads lock]; intros u;
      pose proof (Hex u) as Hu; rewrite ?Hown in *;
      (destruct (Nat.eq_dec u t) as [->|Hne];
       [rewrite nth_set_thread_same by assumption | rewrite nth_set_thread_other by assumption]).
    + split; [intros (h' & r & E); discriminate|discriminate].
    + split; [intros E; apply Hu in E; injection E; congruence|discriminate].
    + split; [reflexivity|eauto].
    + exact Hu.
    + split; [reflexivity|eauto].
    + exact Hu.
Qed.

(** ** Serializability: every schedule is equivalent to running the sessions one after the other
    in the order in which they acquired the lock. *)
Notation sop := (sop H).
Notation session := (session D H load store). Notation session_from := (session_from D H store).

(** ghost state: the programs of the sessions in acquisition order *)
Definition step_acq (s : sys) (acq : list (list sop)) (t : nat) : option (sys * list (list sop)) :=
  match step s t with
  | None => None
  | Some s' => match nth_error (threads D H s) t with
               | Some (Idle _ prog) => Some (s', acq ++ [prog])
               | _ => Some (s', acq)
               end
  end.
Fixpoint run_acq (s : sys) (acq : list (list sop)) (sched : list nat) : sys * list (list sop) :=
  match sched with
  | [] => (s, acq)
  | t :: r => match step_acq s acq t with Some (s', acq') => run_acq s' acq' r | None => run_acq s acq r end
  end.

Lemma run_acq_fst : forall sched s acq, fst (run_acq s acq sched) = run s sched.
Proof.
  induction sched as [|t r IH]; intros s acq; [reflexivity|]. cbn [run_acq Lock.run].
  unfold step_acq. destruct (step s t) as [s'|]; [|apply IH].
  destruct (nth_error (threads D H s) t) as [[prog|h rest|ok]|]; apply IH.
Qed.

(** what the disk will be once the current holder (if any) has finished its session *)
Definition pending (s : sys) : D :=
  match lock D H s with
  | Some t => match nth_error (threads D H s) t with
              | Some (Holding _ h rest) => session_from h rest (disk D H s)
              | _ => disk D H s
              end
  | None => disk D H s
  end.

Definition sessions_of (acq : list (list sop)) (d0 : D) : D := fold_left (fun d prog => session prog d) acq d0.

Lemma sessions_of_app acq prog d0 : sessions_of (acq ++ [prog]) d0 = session prog (sessions_of acq d0).
Proof. unfold sessions_of. rewrite fold_left_app. reflexivity. Qed.

Theorem step_acq_pending (s s' : sys) acq acq' t d0 :
  excl D H s -> pending s = sessions_of acq d0 -> step_acq s acq t = Some (s', acq') ->
  pending s' = sessions_of acq' d0.
Proof.
  unfold step_acq, Lock.step. intros Hex Hp Hs.
  destruct (nth_error (threads D H s) t) as [st|] eqn:Et; [|discriminate].
  assert (Htl : t < length (threads D H s)) by (apply nth_error_Some; congruence).
  destruct st as [prog|h rest|ok]; [| |discriminate].
  - destruct (lock D H s) as [o|] eqn:El; [discriminate|].
    assert (Hpd : pending s = disk D H s) by (unfold pending; rewrite El; reflexivity).
    destruct (load (disk D H s)) as [h|] eqn:Eload; injection Hs as <- <-; rewrite sessions_of_app, <- Hp, Hpd.
    + unfold pending. cbn [lock threads disk]. rewrite nth_set_thread_same by assumption.
      unfold Lock.session. rewrite Eload. reflexivity.
    + unfold pending. cbn [lock disk]. unfold Lock.session. rewrite Eload. reflexivity.
  - assert (Hown : lock D H s = Some t) by (apply Hex; eauto).
    assert (Hpd : pending s = session_from h rest (disk D H s)) by (unfold pending; rewrite Hown, Et; reflexivity).
    destruct rest as [|[g|] rest']; injection Hs as <- <-; rewrite <- Hp, Hpd.
    + unfold pending. cbn [lock disk]. reflexivity.
    + unfold pending. cbn [lock threads disk]. rewrite Hown. rewrite nth_set_thread_same by assumption. reflexivity.
    + unfold pending. cbn [lock threads disk]. rewrite Hown. rewrite nth_set_thread_same by assumption. reflexivity.
Qed.

Lemma step_acq_excl (s s' : sys) acq acq' t : excl D H s -> step_acq s acq t = Some (s', acq') -> excl D H s'.
Proof.
  unfold step_acq. intros Hex Hs. destruct (step s t) as [s1|] eqn:E; [|discriminate].
  assert (s1 = s') by (destruct (nth_error (threads D H s) t) as [[?|? ?|?]|]; injection Hs; congruence).
  subst. eapply step_excl; eassumption.
Qed.

(** for every schedule: the disk the current holder will leave is the sequential composition, in
    acquisition order, of the sessions that got the lock *)
Theorem run_serializable : forall sched (s : sys) acq d0,
  excl D H s -> pending s = sessions_of acq d0 ->
  let '(s', acq') := run_acq s acq sched in
  excl D H s' /\ pending s' = sessions_of acq' d0.
Proof.
  induction sched as [|t r IH]; intros s acq d0 Hex Hp; cbn [run_acq]; [split; assumption|].
  destruct (step_acq s acq t) as [[s1 acq1]|] eqn:E; [|apply IH; assumption].
  apply IH; [eapply step_acq_excl; eassumption|eapply step_acq_pending; eassumption].
Qed.

(** once nobody holds the lock the disk itself is that composition *)
Corollary run_serializable_idle sched (s : sys) d0 :
  excl D H s -> lock D H s = None -> disk D H s = d0 ->
  let '(s', acq') := run_acq s [] sched in
  lock D H s' = None -> disk D H s' = sessions_of acq' d0.
Proof.
  intros Hex Hl Hd.
  pose proof (run_serializable sched s [] d0 Hex) as Hrun.
  assert (Hp : pending s = sessions_of [] d0) by (unfold pending; rewrite Hl; exact Hd).
  specialize (Hrun Hp). destruct (run_acq s [] sched) as [s' acq']. destruct Hrun as [_ Hp'].
  intros Hl'. unfold pending in Hp'. rewrite Hl' in Hp'. exact Hp'.
Qed.

(** a failed Open leaves the lock free (the repaired code closes the descriptor on every error path) *)
Theorem failed_open_releases (s s' : sys) t prog :
  nth_error (threads D H s) t = Some (Idle _ prog) -> lock D H s = None -> load (disk D H s) = None ->
  step s t = Some s' -> lock D H s' = None /\ disk D H s' = disk D H s.
Proof.
  unfold Lock.step. intros Et El Eload Hs. rewrite Et, El, Eload in Hs. injection Hs as <-. split; reflexivity.
Qed.

(** the session programs recorded in [acq] are programs of threads *)
Definition idle_progs_sat (P : list sop -> Prop) (s : sys) : Prop :=
  forall t prog, nth_error (threads D H s) t = Some (Idle _ prog) -> P prog.

Lemma step_idle_progs P (s s' : sys) t : idle_progs_sat P s -> step s t = Some s' -> idle_progs_sat P s'.
Proof.
  unfold idle_progs_sat, Lock.step. intros Hq Hs u prog Hu.
  destruct (nth_error (threads D H s) t) as [st|] eqn:Et; [|discriminate].
  assert (Htl : t < length (threads D H s)) by (apply nth_error_Some; congruence).
  assert (Hne : u <> t -> nth_error (threads D H s) u = Some (Idle _ prog) -> P prog) by (intros _ E; eapply Hq; exact E).
  destruct st as [pr|h rest|ok]; [| |discriminate].
  - destruct (lock D H s); [discriminate|].
    destruct (load (disk D H s)); injection Hs as <-; cbn [threads] in Hu;
      (destruct (Nat.eq_dec u t) as [->|Hd];
       [rewrite nth_set_thread_same in Hu by assumption; discriminate
       |rewrite nth_set_thread_other in Hu by assumption; eapply Hq; exact Hu]).
  - destruct rest as [|[g|] rest']; injection Hs as <-; cbn [threads] in Hu;
      (destruct (Nat.eq_dec u t) as [->|Hd];
       [rewrite nth_set_thread_same in Hu by assumption; discriminate
       |rewrite nth_set_thread_other in Hu by assumption; eapply Hq; exact Hu]).
Qed.

Theorem run_acq_progs P : forall sched (s : sys) acq,
  idle_progs_sat P s -> Forall P acq -> Forall P (snd (run_acq s acq sched)).
Proof.
  induction sched as [|t r IH]; intros s acq Hq Ha; cbn [run_acq]; [exact Ha|].
  unfold step_acq. destruct (step s t) as [s1|] eqn:E; [|apply IH; assumption].
  pose proof (step_idle_progs P s s1 t Hq E) as Hq1.
  destruct (nth_error (threads D H s) t) as [[prog|h rest|ok]|] eqn:Et; try (apply IH; assumption).
  apply IH; [exact Hq1|]. apply Forall_app. split; [exact Ha|]. constructor; [|constructor]. eapply Hq. exact Et.
Qed.

End LockProofs.
Print Assumptions step_excl.
Print Assumptions run_serializable.


(** ** Counting: every thread that left [Idle] appears exactly once in the acquisition order *)
Section Count.
Variables D H : Type.
Variable load : D -> option H.
Variable store : H -> D -> D.
Notation sys := (sys D H). Notation tstate := (tstate H).

Definition is_idle (s : tstate) : bool := match s with Idle _ _ => true | _ => false end.
Definition idle_count (ts : list tstate) : nat := length (filter is_idle ts).
Definition b2n (b : bool) : nat := if b then 1 else 0.

Lemma set_thread_idle_count (ts : list tstate) t old new :
  nth_error ts t = Some old ->
  idle_count (set_thread H ts t new) + b2n (is_idle old) = idle_count ts + b2n (is_idle new).
Proof.
  intros Hn. unfold idle_count, set_thread.
  assert (Hsplit : ts = firstn t ts ++ old :: skipn (S t) ts).
  { revert ts Hn. induction t as [|t IH]; intros [|x r] Hn; try discriminate.
    - injection Hn as ->. reflexivity.
    - cbn [firstn skipn app]. f_equal. apply IH. exact Hn. }
  rewrite Hsplit at 3. rewrite !filter_app. cbn [filter]. rewrite !app_length.
  destruct (is_idle old), (is_idle new); cbn [length b2n]; lia.
Qed.

Theorem step_acq_count (s s' : sys) acq acq' t :
  step_acq D H load store s acq t = Some (s', acq') ->
  length acq' + idle_count (threads D H s') = length acq + idle_count (threads D H s).
Proof.
  unfold step_acq, Lock.step. intros Hs.
  destruct (nth_error (threads D H s) t) as [st|] eqn:Et; [|discriminate].
  destruct st as [prog|h rest|ok]; [| |discriminate].
  - destruct (lock D H s); [discriminate|].
    destruct (load (disk D H s)); injection Hs as <- <-; cbn [threads]; rewrite app_length; cbn [length];
      match goal with |- context[set_thread H ?ts t ?new] =>
        pose proof (set_thread_idle_count ts t _ new Et) as Hc end; cbn [is_idle b2n] in Hc; lia.
  - destruct rest as [|[g|] rest']; injection Hs as <- <-; cbn [threads];
      match goal with |- context[set_thread H ?ts t ?new] =>
        pose proof (set_thread_idle_count ts t _ new Et) as Hc end; cbn [is_idle b2n] in Hc; lia.
Qed.

Theorem run_acq_count : forall sched (s : sys) acq,
  length (snd (run_acq D H load store s acq sched)) + idle_count (threads D H (fst (run_acq D H load store s acq sched)))
  = length acq + idle_count (threads D H s).
Proof.
  induction sched as [|t r IH]; intros s acq; cbn [run_acq]; [reflexivity|].
  destruct (step_acq D H load store s acq t) as [[s1 acq1]|] eqn:E; [|apply IH].
  rewrite IH. eapply step_acq_count. exact E.
Qed.
End Count.

(** ** No lost update: n concurrent add-one sessions on one file leave n, whatever the schedule *)
Lemma counter_sessions_sum : forall acq d0, Forall (fun p => p = counter_session) acq ->
  sessions_of Z Z counter_load counter_store acq d0 = (d0 + Z.of_nat (length acq))%Z.
Proof.
  induction acq as [|p r IH]; intros d0 Hall; [cbn; lia|].
  inversion Hall as [|? ? Hp Hr]; subst. unfold sessions_of in *. cbn [fold_left length].
  rewrite IH by exact Hr. unfold Lock.session, counter_load, counter_session, counter_store. cbn. lia.
Qed.

Lemma excl_initial {D H} d0 (ts : list (tstate H)) :
  (forall t h rest, nth_error ts t <> Some (Holding H h rest)) -> excl D H (mkSys D H d0 None ts).
Proof.
  intros Hno t. cbn. split; [intros (h & rest & E); exfalso; eapply Hno; exact E|discriminate].
Qed.

Theorem counter_no_lost_update n sched :
  let s' := run Z Z counter_load counter_store (mkSys Z Z 0%Z None (repeat (Idle Z counter_session) n)) sched in
  idle_count Z (threads Z Z s') = 0 -> lock Z Z s' = None -> disk Z Z s' = Z.of_nat n.
Proof.
  set (s0 := mkSys Z Z 0%Z None (repeat (Idle Z counter_session) n)). intros s' Hidle Hlock.
  assert (Hex : excl Z Z s0).
  { apply excl_initial. intros t h rest E. apply nth_error_In in E. apply repeat_spec in E. discriminate. }
  pose proof (run_serializable_idle Z Z counter_load counter_store sched s0 0%Z Hex eq_refl eq_refl) as Hser.
  pose proof (run_acq_count Z Z counter_load counter_store sched s0 []) as Hcnt.
  pose proof (run_acq_progs Z Z counter_load counter_store (fun p => p = counter_session) sched s0 []) as Hprogs.
  pose proof (run_acq_fst Z Z counter_load counter_store sched s0 []) as Hfst.
  destruct (run_acq Z Z counter_load counter_store s0 [] sched) as [s1 acq] eqn:E. cbn [fst snd] in *.
  subst s1. fold s' in Hser, Hcnt.
  rewrite (Hser Hlock). rewrite counter_sessions_sum.
  - rewrite Hidle in Hcnt. cbn [length] in Hcnt.
    assert (Hi0 : idle_count Z (threads Z Z s0) = n).
    { unfold s0, idle_count. cbn [threads]. clear. induction n as [|k IH]; [reflexivity|]. cbn. rewrite IH. reflexivity. }
    rewrite Hi0 in Hcnt. f_equal. lia.
  - apply Hprogs; [|constructor].
    intros t prog Et. unfold s0 in Et. cbn [threads] in Et. apply nth_error_In in Et. apply repeat_spec in Et.
    injection Et as <-. reflexivity.
Qed.
Print Assumptions counter_no_lost_update.
