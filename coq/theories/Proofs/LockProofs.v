From Coq Require Import List ZArith Lia.
Import ListNotations.
From WT Require Import Model.Lock.

Section LockProofs.
Variables D H : Type.
Variable load : D -> option H.
Variable store : H -> D -> D.
Notation sys := (sys D H). Notation tstate := (tstate H).
Notation step := (step D H load store). Notation run := (run D H load store).

Lemma nth_set_thread_same (ts : list tstate) t s : t < length ts -> nth_error (set_thread H ts t s) t = Some s.
Proof.
  intros Ht. unfold set_thread. rewrite nth_error_app2 by (rewrite firstn_length; lia).
  rewrite firstn_length. replace (t - Nat.min t (length ts)) with 0 by lia. reflexivity.
Qed.
Lemma nth_error_firstn_lt {A} (l : list A) n u : u < n -> nth_error (firstn n l) u = nth_error l u.
Proof.
  revert l u; induction n as [|n IH]; intros l u Hu; [lia|].
  destruct l as [|x r]; [destruct u; reflexivity|]. destruct u; cbn; [reflexivity|]. apply IH. lia.
Qed.
Lemma nth_error_skipn' {A} (l : list A) n k : nth_error (skipn n l) k = nth_error l (n + k).
Proof. revert l; induction n as [|n IH]; intros l; cbn; [reflexivity|]. destruct l; cbn; [destruct k; reflexivity|]. apply IH. Qed.
Lemma nth_set_thread_other (ts : list tstate) t u s : t < length ts -> u <> t ->
  nth_error (set_thread H ts t s) u = nth_error ts u.
Proof.
  intros Ht Hu. unfold set_thread. destruct (Nat.lt_ge_cases u t) as [Hlt|Hge].
  - rewrite nth_error_app1 by (rewrite firstn_length; lia). apply nth_error_firstn_lt. exact Hlt.
  - rewrite nth_error_app2 by (rewrite firstn_length; lia). rewrite firstn_length.
    replace (Nat.min t (length ts)) with t by lia.
    destruct (u - t) as [|k] eqn:E; [lia|]. cbn [nth_error]. rewrite nth_error_skipn'. f_equal. lia.
Qed.

(** Mutual exclusion is preserved by every step of every thread. *)
Theorem step_excl (s s' : sys) t : excl D H s -> step s t = Some s' -> excl D H s'.
Proof.
  unfold excl, Lock.step. intros Hex Hs.
  destruct (nth_error (threads D H s) t) as [st|] eqn:Et; [|discriminate].
  assert (Htl : t < length (threads D H s)) by (apply nth_error_Some; congruence).
  destruct st as [prog|h rest|ok]; [| |discriminate].
  - destruct (lock D H s) as [o|] eqn:El; [discriminate|].
    destruct (load (disk D H s)) as [h|]; injection Hs as <-; cbn [threads lock]; intros u;
      pose proof (Hex u) as Hu; rewrite ?El in Hu.
    + destruct (Nat.eq_dec u t) as [->|Hne].
      * rewrite nth_set_thread_same by assumption. split; [reflexivity|eauto].
      * rewrite nth_set_thread_other by assumption. split; [intros E; apply Hu in E; discriminate|intros E; injection E; congruence].
    + destruct (Nat.eq_dec u t) as [->|Hne].
      * rewrite nth_set_thread_same by assumption. split; [intros (h & r & E); discriminate|discriminate].
      * rewrite nth_set_thread_other by assumption. exact Hu.
  - assert (Hown : lock D H s = Some t) by (apply Hex; eauto).
    destruct rest as [|[g|] rest']; injection Hs as <-; cbn [threads lock]; intros u;
      pose proof (Hex u) as Hu; rewrite ?Hown in *;
      (destruct (Nat.eq_dec u t) as [->|Hne];
       [rewrite nth_set_thread_same by assumption | rewrite nth_set_thread_other by assumption]).
    + split; [intros (h' & r & E); discriminate|discriminate].
    + split; [intros E; apply Hu in E; injection E; congruence|discriminate].
    + split; [reflexivity|eauto].
    + exact Hu.
    + split; [reflexivity|eauto].
    + exact Hu.
Qed.
End LockProofs.
Print Assumptions step_excl.
