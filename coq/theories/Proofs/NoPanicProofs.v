(** C16: the commands never panic on files whose archives are well-formed rings (what Open
    guarantees: see HostileProofs.open_image_wf), at clocks of the domain. *)
From WT Require Import Base.Wrap Base.ListX Base.Bytes Model.Time Model.Ring Model.Update Model.Codec Model.Handle Model.FileImage
  Model.Cmd Spec.LogSpec Proofs.TimeProofs Proofs.RingProofs Proofs.FetchProofs Proofs.HostileProofs Proofs.ShapeProofs Proofs.CmdProofs.

(** what a command needs of a file it reads at clock [now] *)
Definition readable (arcs : list arc) (now : Z) : Prop :=
  arcs <> [] /\ Forall wf_arc arcs /\ Forall (fun a => period a <= now /\ now + 2 * a_step a < TMAX) arcs.
Definition good_file (f : option handle) (now : Z) : Prop :=
  match opened f with Some h => readable (hd_arcs h) now | None => True end.

Theorem fetch_never_panics arcs id from until now :
  readable arcs now -> 0 <= from < 2^32 -> 0 <= until < 2^32 ->
  fetch_from_archive arcs id from until now <> FPanic.
Proof.
  intros (Hne & Hwf & Hdom) Hf Hu E.
  pose proof (fetch_shape arcs id from until now Hne Hwf Hdom Hf Hu) as Hs. rewrite E in Hs. discriminate.
Qed.

Lemma fetch_all_no_panic arcs now from until : readable arcs now -> 0 <= from < 2^32 -> 0 <= until < 2^32 ->
  forall todo i, fetch_all arcs todo i from until now <> TslPanic.
Proof.
  intros Hr Hf Hu. induction todo as [|a r IH]; intros i; cbn [fetch_all]; [discriminate|].
  pose proof (fetch_never_panics arcs i from until now Hr Hf Hu) as Hn.
  destruct (fetch_from_archive arcs i from until now); try discriminate; try contradiction;
    (specialize (IH (i + 1)); destruct (fetch_all arcs r (i + 1) from until now); [discriminate|contradiction|discriminate]).
Qed.

Theorem fetch_ts_list_no_panic arcs aid from until now :
  readable arcs now -> 0 <= from < 2^32 -> 0 <= until < 2^32 -> fetch_ts_list arcs aid from until now <> TslPanic.
Proof.
  intros Hr Hf Hu. unfold fetch_ts_list. destruct (aid =? ArchiveIDAll); [apply fetch_all_no_panic; assumption|].
  destruct ((0 <=? aid) && (aid <? zlen arcs)); [|discriminate].
  pose proof (fetch_never_panics arcs aid from until now Hr Hf Hu) as Hn.
  destruct (fetch_from_archive arcs aid from until now); try discriminate. contradiction.
Qed.

Theorem read_file_no_panic f aid from until now :
  good_file f now -> 0 <= from < 2^32 -> 0 <= until < 2^32 -> read_file f aid from until now <> RdPanic.
Proof.
  unfold good_file, read_file. intros Hg Hf Hu. destruct f as [h0|]; [|discriminate].
  destruct (opened (Some h0)) as [h|]; [|discriminate].
  pose proof (fetch_ts_list_no_panic (hd_arcs h) aid from until now Hg Hf Hu) as Hn.
  destruct (fetch_ts_list (hd_arcs h) aid from until now); try discriminate. contradiction.
Qed.

Lemma resolve_until_range until now : 0 <= until < 2^32 -> 0 <= now < 2^32 -> 0 <= resolve_until until now < 2^32.
Proof. unfold resolve_until. destruct (until =? 0); lia. Qed.

(** view, diff, sum: every outcome is ok / difference / not-exist / error — never a panic *)
Theorem view_no_panic f aid from until0 now sh : good_file f now -> 0 <= from < 2^32 -> 0 <= until0 < 2^32 -> 0 <= now < 2^32 ->
  fst (view_cmd f aid from until0 now sh) <> StPanic.
Proof.
  intros Hg Hf Hu Hn. unfold view_cmd.
  pose proof (read_file_no_panic f aid from (resolve_until until0 now) now Hg Hf (resolve_until_range _ _ Hu Hn)) as Hr.
  destruct (read_file f aid from (resolve_until until0 now) now); cbn; try discriminate. contradiction.
Qed.

Theorem view_raw_no_panic f aid from until0 now sh so : fst (view_raw_cmd f aid from until0 now sh so) <> StPanic.
Proof.
  unfold view_raw_cmd. destruct f as [h0|]; [|discriminate]. destruct (opened (Some h0)); [|discriminate].
  destruct ((aid =? ArchiveIDAll) || ((0 <=? aid) && (aid <? zlen (hd_arcs h)))); discriminate.
Qed.

Lemma diff_two_no_panic fsub cr s d : s <> RdPanic -> d <> RdPanic -> fst (diff_two fsub cr s d) <> StPanic.
Proof.
  intros Hs Hd. unfold diff_two. destruct s, d; try contradiction; cbn; try discriminate.
  destruct (diff_core_status' fsub cr h l h0 l0) as [E|[E|E]]; rewrite E; discriminate.
Qed.

Theorem diff_no_panic fsub src dest aid from until0 now :
  good_file src now -> good_file dest now -> 0 <= from < 2^32 -> 0 <= until0 < 2^32 -> 0 <= now < 2^32 ->
  fst (diff_one fsub src dest aid from until0 now) <> StPanic.
Proof.
  intros Hs Hd Hf Hu Hn. unfold diff_one. apply diff_two_no_panic; apply read_file_no_panic; try assumption;
    apply resolve_until_range; assumption.
Qed.

Theorem sum_files_no_panic F files aid from until now :
  Forall (fun f => good_file f now) files -> 0 <= from < 2^32 -> 0 <= until < 2^32 ->
  sum_files F files aid from until now <> RdPanic.
Proof.
  intros Hall Hf Hu. unfold sum_files. destruct files as [|f0 r]; [discriminate|].
  set (fs := f0 :: r) in *.
  assert (He : existsb (fun r0 => match r0 with RdPanic => true | _ => false end) (map (fun f => read_file f aid from until now) fs) = false).
  { clearbody fs. induction fs as [|f q IH]; [reflexivity|]. inversion Hall as [|? ? Hg Hq]; subst. cbn [map existsb].
    pose proof (read_file_no_panic f aid from until now Hg Hf Hu) as Hn.
    destruct (read_file f aid from until now); try contradiction; cbn [orb]; apply IH; exact Hq. }
  rewrite He. destruct (opt_all _) as [[|[h0 l0] rest]|]; try discriminate.
  destruct (negb (forallb _ rest)); [discriminate|]. destruct (negb (forallb _ rest)); discriminate.
Qed.

Theorem sum_no_panic F files aid from until0 now sh :
  Forall (fun f => good_file f now) files -> 0 <= from < 2^32 -> 0 <= until0 < 2^32 -> 0 <= now < 2^32 ->
  fst (sum_item F files aid from until0 now sh) <> StPanic.
Proof.
  intros Hall Hf Hu Hn. unfold sum_item.
  pose proof (sum_files_no_panic F files aid from (resolve_until until0 now) now Hall Hf (resolve_until_range _ _ Hu Hn)) as Hr.
  destruct (sum_files F files aid from (resolve_until until0 now) now); cbn; try discriminate. contradiction.
Qed.

Theorem sum_diff_no_panic F fsub files dest aid from until0 now :
  Forall (fun f => good_file f now) files -> good_file dest now ->
  0 <= from < 2^32 -> 0 <= until0 < 2^32 -> 0 <= now < 2^32 ->
  fst (sum_diff_item F fsub files dest aid from until0 now) <> StPanic.
Proof.
  intros Hall Hd Hf Hu Hn. unfold sum_diff_item. apply diff_two_no_panic.
  - apply sum_files_no_panic; try assumption. apply resolve_until_range; assumption.
  - apply read_file_no_panic; try assumption. apply resolve_until_range; assumption.
Qed.

(** copy / sum-copy: a panic can only come out of the writes (which C01/C02's totality theorems
    exclude for every history of the clock domain: [HistoryProofs.step_refines] and
    [step_spec_total]) — never out of reading, comparing, creating or reporting *)
Definition dest_handle (dest : option handle) (o : copy_opts) : option handle :=
  match create (co_method o) (co_xff o) (co_layout o) with
  | None => None
  | Some fresh => match dest with Some _ => opened dest | None => Some (sync fresh) end
  end.

Theorem copy_panic_only_from_update F src dest o until now :
  src <> RdPanic ->
  (forall d, dest_handle dest o = Some d ->
             fetch_ts_list (hd_arcs d) (co_archive o) (co_from o) until now <> TslPanic) ->
  r_status (copy_core F src dest o until now) = StPanic ->
  exists d sl sdif, snd (update_dest_with_diff F d sl sdif 0 (co_from o) until now (co_copy_nan o)) = OutPanic.
Proof.
  intros Hs Hd. unfold copy_core. unfold dest_handle in Hd.
  destruct (create (co_method o) (co_xff o) (co_layout o)) as [fresh|].
  2:{ destruct src; cbn; try discriminate. contradiction. }
  destruct (match dest with Some _ => opened dest | None => Some (sync fresh) end) as [d|] eqn:Ed.
  2:{ destruct src; cbn; try discriminate. contradiction. }
  assert (Hdn : fetch_ts_list (hd_arcs d) (co_archive o) (co_from o) until now <> TslPanic) by (apply Hd; reflexivity).
  destruct src as [| | |sh sl]; try contradiction;
    destruct (fetch_ts_list (hd_arcs d) (co_archive o) (co_from o) until now) as [| |dl]; try contradiction; cbn; try discriminate.
  destruct (negb (layout_eqb _ _)); [discriminate|]. destruct (negb (all_eq_range_step sl dl)); [discriminate|].
  destruct (tsl_diff (co_copy_nan o) sl dl) as [sdif ddif].
  destruct (all_empty sdif && all_empty ddif); [discriminate|].
  destruct (update_dest_with_diff F d sl sdif 0 (co_from o) until now (co_copy_nan o)) as [d' [| |]] eqn:Eu; cbn; try discriminate.
  intros _. exists d, sl, sdif. rewrite Eu. reflexivity.
Qed.
