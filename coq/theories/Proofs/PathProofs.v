(** Lexical path resolution (Model/Path.v) at the level of path elements: what [Clean] keeps, that it is
    idempotent, and that a path may be cleaned piecewise -- a cleaned prefix, or a cleaned (relative)
    suffix, resolves to the same elements.  This is why "base directory + relative name" names the
    same file for the local read ([Join(base, rel)]) and for the server ([Join(baseDir, name)] with the
    name the client sent), however the name is split between the two. *)
From WT Require Import Base.Wrap Base.ListX Base.Bytes Model.Path.

Lemma zs_eqb_eq a b : zs_eqb a b = true <-> a = b.
Proof.
  revert b; induction a as [|x r IH]; intros [|y q]; cbn; split; intros H; try discriminate; try reflexivity.
  - apply andb_true_iff in H as [H1 H2]. apply Z.eqb_eq in H1. apply IH in H2. congruence.
  - inversion H; subst. rewrite Z.eqb_refl. cbn. now apply IH.
Qed.
Lemma zs_eqb_refl a : zs_eqb a a = true. Proof. now apply zs_eqb_eq. Qed.

Definition plain (e : list Z) : Prop := zs_eqb e [] = false /\ zs_eqb e dot = false /\ zs_eqb e dotdot = false.
Definition dots (n : nat) : list (list Z) := repeat dotdot n.

Lemma step_plain r st e : plain e -> clean_step r st e = e :: st.
Proof. intros (H1 & H2 & H3). unfold clean_step. rewrite H1, H2, H3. reflexivity. Qed.

Lemma step_skip r st e : zs_eqb e [] || zs_eqb e dot = true -> clean_step r st e = st.
Proof. intros H. unfold clean_step. now rewrite H. Qed.

Lemma dotdot_not_skipped : zs_eqb dotdot [] || zs_eqb dotdot dot = false. Proof. reflexivity. Qed.

Lemma step_dotdot_plain r top st : plain top -> clean_step r (top :: st) dotdot = st.
Proof. intros (_ & _ & H3). unfold clean_step. rewrite dotdot_not_skipped, zs_eqb_refl, H3. reflexivity. Qed.

Lemma step_dotdot_dots n : clean_step false (dots n) dotdot = dots (S n).
Proof. destruct n; cbn; reflexivity. Qed.

Lemma dots_snoc n : dots n ++ [dotdot] = dots (S n).
Proof. unfold dots. induction n; cbn; [reflexivity|]. now rewrite IHn. Qed.
Lemma rev_dots n : rev (dots n) = dots n.
Proof. induction n; [reflexivity|]. change (dots (S n)) with (dotdot :: dots n) at 1. cbn [rev]. rewrite IHn. apply dots_snoc. Qed.

(** every element is an empty one, ".", ".." or a plain one *)
Lemma elem_cases e : zs_eqb e [] || zs_eqb e dot = true \/ e = dotdot \/ plain e.
Proof.
  destruct (zs_eqb e [] || zs_eqb e dot) eqn:E; [now left|right].
  apply orb_false_iff in E as [E1 E2].
  destruct (zs_eqb e dotdot) eqn:E3; [left; now apply zs_eqb_eq|right]. now repeat split.
Qed.

(** ** the shape of the stack: plain elements on top of a run of ".." (none when rooted) *)
Definition wf_stack (rooted : bool) (st : list (list Z)) : Prop :=
  exists p n, st = p ++ dots n /\ Forall plain p /\ (rooted = true -> n = 0%nat).

Lemma wf_nil r : wf_stack r []. Proof. exists [], 0%nat. repeat split; auto. Qed.

Lemma step_wf r st e : wf_stack r st -> wf_stack r (clean_step r st e).
Proof.
  intros (p & n & -> & Hp & Hn).
  destruct (elem_cases e) as [Hs | [-> | Hpl]].
  - rewrite (step_skip _ _ _ Hs). now exists p, n.
  - destruct p as [|top p'].
    + cbn [app]. destruct r.
      * rewrite (Hn eq_refl). cbn. apply wf_nil.
      * rewrite step_dotdot_dots. exists [], (S n). repeat split; auto. discriminate.
    + inversion Hp; subst. cbn [app]. rewrite step_dotdot_plain by assumption. now exists p', n.
  - rewrite step_plain by assumption. exists (e :: p), n. repeat split; auto.
Qed.

Lemma fold_wf r es : forall st, wf_stack r st -> wf_stack r (fold_left (clean_step r) es st).
Proof. induction es as [|e es IH]; intros st H; cbn; [exact H|]. apply IH. now apply step_wf. Qed.

Lemma fold_plain r l : Forall plain l -> forall st, fold_left (clean_step r) l st = rev l ++ st.
Proof.
  induction 1 as [|e l He _ IH]; intros st; cbn; [reflexivity|].
  rewrite step_plain by assumption. rewrite IH. now rewrite <- app_assoc.
Qed.

Lemma fold_dots n : forall k, fold_left (clean_step false) (dots n) (dots k) = dots (n + k).
Proof.
  induction n as [|n IH]; intros k; [reflexivity|].
  change (dots (S n)) with (dotdot :: dots n). cbn [fold_left]. rewrite step_dotdot_dots, IH.
  f_equal. lia.
Qed.

(** reading a stack's own elements again rebuilds it *)
Lemma replay r st : wf_stack r st -> fold_left (clean_step r) (rev st) [] = st.
Proof.
  intros (p & n & -> & Hp & Hn). rewrite rev_app_distr, rev_dots, fold_left_app.
  assert (Hd : fold_left (clean_step r) (dots n) [] = dots n).
  { destruct r; [rewrite (Hn eq_refl); reflexivity|]. change (@nil (list Z)) with (dots 0). rewrite fold_dots. f_equal. lia. }
  rewrite Hd. rewrite fold_plain by (now apply Forall_rev). rewrite rev_involutive. reflexivity.
Qed.

(** ** what Clean keeps *)
Theorem clean_elems_shape r es :
  exists n p, clean_elems r es = dots n ++ p /\ Forall plain p /\ (r = true -> n = 0%nat).
Proof.
  destruct (fold_wf r es [] (wf_nil r)) as (p & n & E & Hp & Hn).
  exists n, (rev p). unfold clean_elems. rewrite E, rev_app_distr, rev_dots. repeat split; auto. now apply Forall_rev.
Qed.

Corollary clean_elems_no_empty_no_dot r es e : In e (clean_elems r es) -> e <> [] /\ e <> dot /\ (r = true -> e <> dotdot).
Proof.
  destruct (clean_elems_shape r es) as (n & p & -> & Hp & Hn). intros Hin.
  apply in_app_or in Hin as [Hin | Hin].
  - assert (He : e = dotdot) by (eapply repeat_spec; exact Hin).
    subst e. repeat split; try discriminate.
    intros Hr. rewrite (Hn Hr) in Hin. destruct Hin.
  - rewrite Forall_forall in Hp. destruct (Hp e Hin) as (H1 & H2 & H3).
    split; [intros ->; cbn in H1; discriminate|]. split; [intros ->; cbn in H2; discriminate|].
    intros _ ->. cbn in H3. discriminate.
Qed.

(** ** Clean is idempotent, and a cleaned prefix resolves the same *)
Theorem clean_elems_prefix r a b : clean_elems r (a ++ b) = clean_elems r (clean_elems r a ++ b).
Proof.
  unfold clean_elems. f_equal. rewrite !fold_left_app. f_equal.
  symmetry. apply replay. apply fold_wf, wf_nil.
Qed.

Theorem clean_elems_idempotent r es : clean_elems r (clean_elems r es) = clean_elems r es.
Proof. pose proof (clean_elems_prefix r es []) as H. rewrite !app_nil_r in H. symmetry. exact H. Qed.

(** ** a cleaned relative suffix resolves the same (on every stack) *)
Lemma suffix_step r st s e :
  wf_stack false s ->
  clean_step r (fold_left (clean_step r) (rev s) st) e = fold_left (clean_step r) (rev (clean_step false s e)) st.
Proof.
  intros (p & n & -> & Hp & _).
  destruct (elem_cases e) as [Hs | [-> | Hpl]].
  - now rewrite !(step_skip _ _ _ Hs).
  - destruct p as [|top p'].
    + cbn [app]. rewrite step_dotdot_dots, !rev_dots. rewrite <- dots_snoc, fold_left_app. reflexivity.
    + inversion Hp; subst. cbn [app]. rewrite step_dotdot_plain by assumption.
      cbn [rev]. rewrite fold_left_app. cbn [fold_left]. rewrite (step_plain r _ top) by assumption.
      now rewrite step_dotdot_plain.
  - rewrite (step_plain false) by assumption. cbn [rev]. rewrite fold_left_app. reflexivity.
Qed.

Lemma suffix_fold r st b :
  fold_left (clean_step r) b st = fold_left (clean_step r) (clean_elems false b) st.
Proof.
  induction b as [|e b IH] using rev_ind; [reflexivity|].
  unfold clean_elems. rewrite !fold_left_app. cbn [fold_left]. rewrite IH. unfold clean_elems.
  apply suffix_step. apply fold_wf, wf_nil.
Qed.

Theorem clean_elems_suffix r a b : clean_elems r (a ++ b) = clean_elems r (a ++ clean_elems false b).
Proof. unfold clean_elems at 1 2. f_equal. rewrite !fold_left_app. apply suffix_fold. Qed.

(** the two resolutions of "served directory + prefix + relative name": the local read cleans
    (directory + prefix) first, the server receives (prefix + name) cleaned by the client *)
Corollary resolution_is_associative r dir prefix rel :
  clean_elems r (clean_elems r (dir ++ prefix) ++ rel) = clean_elems r (dir ++ clean_elems false (prefix ++ rel)).
Proof. rewrite <- clean_elems_prefix, <- clean_elems_suffix. now rewrite app_assoc. Qed.

Example resolution_example :
  path_clean [47;115;47;105;49;47;46;46;47;46;46;47;111;117;116;47;120] = [47;111;117;116;47;120]     (* "/s/i1/../../out/x" = "/out/x" *)
  /\ path_clean [46;46;47;97;47;46;46;47;46;46;47;98] = [46;46;47;46;46;47;98]                         (* "../a/../../b" = "../../b" *)
  /\ path_clean [] = dot /\ path_clean [47;46;46] = [47] /\ path_clean [97;47;47;98;47;46;47] = [97;47;98]
  /\ path_join [[97]; []; [46;46;47;99]] = [99] /\ path_join [[]; []] = [].
Proof. cbn. repeat split; reflexivity. Qed.

(** ** Names as the operating system resolves them ([phys_elems]) *)

(** without links the operating system and the text agree (inside the tree: ".." at the top stays there) *)
Lemma phys_step_no_links st e : Forall plain st -> phys_step [] st e = clean_step true st e /\ Forall plain (phys_step [] st e).
Proof.
  intros Hst. destruct (elem_cases e) as [Hs | [-> | Hpl]].
  - unfold phys_step. rewrite Hs, (step_skip _ _ _ Hs). now split.
  - unfold phys_step. rewrite dotdot_not_skipped, zs_eqb_refl.
    destruct st as [|top below].
    + cbn. split; [reflexivity|constructor].
    + inversion Hst; subst. rewrite step_dotdot_plain by assumption. now split.
  - rewrite step_plain by assumption. unfold phys_step.
    destruct Hpl as (H1 & H2 & H3). rewrite H1, H2, H3. cbn [orb find_link]. split; [reflexivity|].
    constructor; [now repeat split | assumption].
Qed.

Lemma phys_fold_no_links es : forall st, Forall plain st ->
  fold_left (phys_step []) es st = fold_left (clean_step true) es st.
Proof.
  induction es as [|e es IH]; intros st Hst; cbn [fold_left]; [reflexivity|].
  destruct (phys_step_no_links st e Hst) as [E Hp]. rewrite <- E. now apply IH.
Qed.

Theorem phys_no_links_is_clean es : phys_elems [] es = clean_elems true es.
Proof. unfold phys_elems, clean_elems. now rewrite phys_fold_no_links by constructor. Qed.

(** a link followed by "..": the operating system goes on from the directory ABOVE THE LINK'S TARGET, the
    text of the name from the directory the link lies in *)
Lemma phys_step_link ls st n t : plain n -> find_link ls (rev (n :: st)) = Some t -> phys_step ls st n = rev t.
Proof. intros (H1 & H2 & H3) Hl. unfold phys_step. rewrite H1, H2, H3. cbn [orb]. now rewrite Hl. Qed.
Lemma phys_step_dotdot ls st : phys_step ls st dotdot = tl st.
Proof. unfold phys_step. rewrite dotdot_not_skipped, zs_eqb_refl. destruct st; reflexivity. Qed.

Theorem phys_through_link ls n t rest :
  plain n -> find_link ls [n] = Some t ->
  fold_left (phys_step ls) (n :: dotdot :: rest) [] = fold_left (phys_step ls) rest (tl (rev t)).
Proof.
  intros Hn Hl. cbn [fold_left]. rewrite (phys_step_link ls [] n t Hn Hl), phys_step_dotdot. reflexivity.
Qed.

Theorem lexical_through_link n rest :
  plain n -> fold_left (clean_step true) (n :: dotdot :: rest) [] = fold_left (clean_step true) rest [].
Proof. intros Hn. cbn [fold_left]. rewrite (step_plain true [] n Hn), step_dotdot_plain by assumption. reflexivity. Qed.

(** "lnk/../x.wsp" with lnk -> real/sub: the file is real/x.wsp, whereas the cleaned text says x.wsp *)
Example phys_link_example :
  let lnk := [108; 110; 107] in let real := [114; 101; 97; 108] in let sub := [115; 117; 98] in
  let name := lnk ++ [47; 46; 46; 47; 120] in
  phys_name [([lnk], [real; sub])] name = real ++ [47; 120] /\ path_clean name = [120].
Proof. vm_compute. split; reflexivity. Qed.
