(** C12: what the client puts into a query is what the handler reads, for EVERY byte string
    (file names with + & % = ; # / space, non-ASCII bytes, ...). *)
From WT Require Import Base.Wrap Base.ListX Model.Query.

Definition byte (c : Z) : Prop := 0 <= c < 256.

Lemma unhex_hexdig n : 0 <= n < 16 -> unhex (hexdig n) = Some n.
Proof.
  intros H. assert (Hc : n = 0 \/ n = 1 \/ n = 2 \/ n = 3 \/ n = 4 \/ n = 5 \/ n = 6 \/ n = 7 \/ n = 8 \/ n = 9 \/
                         n = 10 \/ n = 11 \/ n = 12 \/ n = 13 \/ n = 14 \/ n = 15) by lia.
  repeat (destruct Hc as [->|Hc]; [reflexivity|]). subst. reflexivity.
Qed.

(** the escaped form uses only unreserved characters, '+', '%' and hex digits: never a separator *)
Definition safe (c : Z) : Prop := c <> 38 /\ c <> 61 /\ c <> 59.
Lemma hexdig_safe n : 0 <= n < 16 -> safe (hexdig n) /\ hexdig n <> 37 /\ hexdig n <> 43.
Proof. intros H. unfold hexdig, safe. destruct (n <? 10) eqn:E; lia. Qed.

Lemma esc1_safe c : byte c -> Forall safe (esc1 c).
Proof.
  intros Hb. unfold esc1. destruct (is_unreserved c) eqn:Eu.
  - constructor; [|constructor]. unfold is_unreserved, is_alnum, safe in *. lia.
  - destruct (c =? 32); [constructor; [unfold safe; lia|constructor]|].
    assert (H1 : 0 <= c / 16 < 16) by (unfold byte in Hb; lia). assert (H2 : 0 <= c mod 16 < 16) by lia.
    constructor; [unfold safe; lia|]. constructor; [apply (hexdig_safe _ H1)|]. constructor; [apply (hexdig_safe _ H2)|constructor].
Qed.
Lemma q_escape_safe s : Forall byte s -> Forall safe (q_escape s).
Proof. induction 1 as [|c r Hc Hr IH]; cbn [q_escape flat_map]; [constructor|]. apply Forall_app. split; [apply esc1_safe; exact Hc|exact IH]. Qed.

Lemma q_unescape_esc1 c t u : byte c -> q_unescape t = Some u -> q_unescape (esc1 c ++ t) = Some (c :: u).
Proof.
  intros Hb Ht. unfold esc1. destruct (is_unreserved c) eqn:Eu.
  - cbn [app q_unescape]. assert (H37 : c =? 37 = false) by (unfold is_unreserved, is_alnum in Eu; lia).
    assert (H43 : c =? 43 = false) by (unfold is_unreserved, is_alnum in Eu; lia).
    rewrite H37, Ht, H43. reflexivity.
  - destruct (Z.eqb_spec c 32) as [->|Hne].
    + cbn [app q_unescape]. cbn [Z.eqb Pos.eqb]. rewrite Ht. reflexivity.
    + cbn [app q_unescape]. rewrite Z.eqb_refl.
      assert (H1 : 0 <= c / 16 < 16) by (unfold byte in Hb; lia). assert (H2 : 0 <= c mod 16 < 16) by lia.
      rewrite (unhex_hexdig _ H1), (unhex_hexdig _ H2), Ht. f_equal. f_equal. lia.
Qed.

Theorem q_unescape_escape s : Forall byte s -> q_unescape (q_escape s) = Some s.
Proof.
  induction 1 as [|c r Hc Hr IH]; [reflexivity|]. cbn [q_escape flat_map]. apply q_unescape_esc1; assumption.
Qed.

(** plain keys: unescaping leaves them alone *)
Definition plain (k : list Z) : Prop := k <> [] /\ Forall (fun c => is_unreserved c = true) k.
Lemma q_unescape_plain k : Forall (fun c => is_unreserved c = true) k -> q_unescape k = Some k.
Proof.
  induction 1 as [|c r Hc Hr IH]; [reflexivity|]. cbn [q_unescape].
  assert (H37 : c =? 37 = false) by (unfold is_unreserved, is_alnum in Hc; lia).
  assert (H43 : c =? 43 = false) by (unfold is_unreserved, is_alnum in Hc; lia).
  rewrite H37, IH, H43. reflexivity.
Qed.
Lemma plain_safe k : Forall (fun c => is_unreserved c = true) k -> Forall safe k.
Proof. intros H. eapply Forall_impl; [|exact H]. intros c Hc. unfold is_unreserved, is_alnum, safe in *. lia. Qed.

Lemma cut_absent sep s : Forall (fun c => c <> sep) s -> cut sep s = (s, None).
Proof.
  induction 1 as [|c r Hc Hr IH]; [reflexivity|]. cbn [cut]. destruct (Z.eqb_spec c sep); [contradiction|]. rewrite IH. reflexivity.
Qed.
Lemma cut_first sep a b : Forall (fun c => c <> sep) a -> cut sep (a ++ sep :: b) = (a, Some b).
Proof.
  induction 1 as [|c r Hc Hr IH]; cbn [app cut]; [rewrite Z.eqb_refl; reflexivity|].
  destruct (Z.eqb_spec c sep); [contradiction|]. rewrite IH. reflexivity.
Qed.

Lemma no_semicolon l : Forall safe l -> existsb (fun c => c =? 59) l = false.
Proof. induction 1 as [|c r [_ [_ Hc]] Hr IH]; [reflexivity|]. cbn [existsb]. destruct (Z.eqb_spec c 59); [contradiction|exact IH]. Qed.

(** one "key=escaped value" piece *)
Lemma piece_facts k v : plain k -> Forall byte v ->
  let piece := k ++ [61] ++ q_escape v in
  Forall (fun c => c <> 38) piece /\ existsb (fun c => c =? 59) piece = false /\ piece <> [] /\
  cut 61 piece = (k, Some (q_escape v)).
Proof.
  intros [Hne Hk] Hv piece. pose proof (plain_safe k Hk) as Hks. pose proof (q_escape_safe v Hv) as Hvs.
  assert (Hall : Forall (fun c => c <> 38 /\ c <> 59) piece).
  { unfold piece. apply Forall_app. split; [eapply Forall_impl; [|exact Hks]; cbn beta; intros a Ha; unfold safe in Ha; lia|].
    constructor; [lia|]. eapply Forall_impl; [|exact Hvs]. cbn beta. intros a Ha. unfold safe in Ha. lia. }
  split; [eapply Forall_impl; [|exact Hall]; cbn beta; intros a Ha; lia|]. split.
  - clear - Hall. induction Hall as [|c r [_ Hc] Hr IH]; [reflexivity|]. cbn [existsb]. destruct (Z.eqb_spec c 59); [contradiction|exact IH].
  - split; [unfold piece; destruct k; [contradiction|discriminate]|].
    unfold piece. cbn [app]. apply cut_first. eapply Forall_impl; [|exact Hks]. cbn beta. intros a Ha. unfold safe in Ha. lia.
Qed.

Lemma parse_piece_ok k v : plain k -> Forall byte v -> parse_piece (k ++ [61] ++ q_escape v) = Some (k, v).
Proof.
  intros Hk Hv. destruct (piece_facts k v Hk Hv) as (_ & _ & _ & Hcut). cbv zeta in Hcut.
  unfold parse_piece. rewrite Hcut. rewrite (q_unescape_plain k (proj2 Hk)), (q_unescape_escape v Hv). reflexivity.
Qed.

Lemma parse_step fuel s piece rest : cut 38 s = (piece, rest) -> existsb (fun c => c =? 59) piece = false -> piece <> [] ->
  parse_query_fuel (S fuel) s =
  match parse_piece piece, (match rest with Some r => parse_query_fuel fuel r | None => Some [] end) with
  | Some kv, Some t => Some (kv :: t)
  | _, _ => None
  end.
Proof.
  intros Hc H59 Hne. cbn [parse_query_fuel]. rewrite Hc. cbv beta iota zeta. rewrite H59.
  destruct piece; [contradiction|reflexivity].
Qed.

Lemma build_query_cons k v kv2 r :
  build_query ((k, v) :: kv2 :: r) = (k ++ [61] ++ q_escape v) ++ 38 :: build_query (kv2 :: r).
Proof. destruct kv2. cbn [build_query]. rewrite <- !app_assoc. reflexivity. Qed.

(** C12: the handler reads back exactly the pairs the client sent *)
Theorem parse_build_query : forall kvs fuel,
  Forall (fun kv => plain (fst kv) /\ Forall byte (snd kv)) kvs -> (length kvs <= fuel)%nat -> kvs <> [] ->
  parse_query_fuel fuel (build_query kvs) = Some kvs.
Proof.
  induction kvs as [|[k v] r IH]; intros fuel H Hf Hne; [contradiction|].
  inversion H as [|? ? [Hk Hv] Hr]; subst. cbn [fst snd] in *.
  destruct fuel as [|fuel]; [cbn in Hf; lia|]. cbn [length] in Hf.
  destruct (piece_facts k v Hk Hv) as (H38 & H59 & Hpne & _). cbv zeta in *.
  destruct r as [|kv2 r'].
  - cbn [build_query].
    rewrite (parse_step fuel _ _ None (cut_absent 38 _ H38) H59 Hpne). rewrite (parse_piece_ok k v Hk Hv). reflexivity.
  - rewrite build_query_cons.
    rewrite (parse_step fuel _ _ _ (cut_first 38 _ _ H38) H59 Hpne). rewrite (parse_piece_ok k v Hk Hv).
    rewrite (IH fuel Hr ltac:(cbn [length] in *; lia) ltac:(discriminate)). reflexivity.
Qed.

Lemma build_query_length_ge : forall kvs, (length kvs <= S (length (build_query kvs)))%nat.
Proof.
  induction kvs as [|[k v] r IH]; [cbn; lia|]. destruct r as [|kv2 r']; [cbn [length]; lia|].
  rewrite build_query_cons. rewrite app_length. cbn [length] in *. lia.
Qed.

Theorem query_roundtrip kvs :
  Forall (fun kv => plain (fst kv) /\ Forall byte (snd kv)) kvs -> kvs <> [] ->
  parse_query (build_query kvs) = Some kvs.
Proof. intros H Hne. unfold parse_query. apply parse_build_query; try assumption. apply build_query_length_ge. Qed.
Print Assumptions query_roundtrip.
