(** C06: the reference reader (go-whisper's Fetch) and whispertool's reader return the same
    series from the same archives. *)
From Coq Require Import Sorting.Sorted.
From WT Require Import Base.Wrap Base.ListX Base.Bytes Model.Time Model.Ring Model.Update Model.Codec Model.Handle
  Model.FileImage Model.GoWhisperRef Spec.LogSpec Proofs.TimeProofs Proofs.RingProofs Proofs.FetchProofs Proofs.HostileProofs.

(** the slot 0 timestamp of an archive that was written: a positive multiple of the step below 2^31 *)
Definition base_ok (a : arc) : Prop :=
  base_interval a = 0 \/ (0 < base_interval a < TMAX /\ base_interval a mod a_step a = 0).

Lemma quot_exact x s : 0 < s -> x mod s = 0 -> Z.quot x s = x / s.
Proof.
  intros Hs Hm. assert (Hx : x = s * (x / s)) by (apply Z_div_exact_full_2; lia).
  rewrite Hx at 1. rewrite Z.mul_comm. apply Z.quot_mul. lia.
Qed.

Lemma gw_point_index_cls a b t : 0 < a_step a -> 0 < a_n a -> (t - b) mod a_step a = 0 ->
  gw_point_index a b t = cls a b t.
Proof. intros HS HN Hm. unfold gw_point_index, cls. rewrite quot_exact by assumption. reflexivity. Qed.

(** the slot range read by whispertool is the slot range read by go-whisper *)
Theorem fetch_raw_is_gw_read a f u :
  wf_arc a -> 0 < base_interval a < TMAX -> base_interval a mod a_step a = 0 ->
  good_time a f -> good_time a u -> f < u -> (u - f) / a_step a <= a_n a ->
  fetch_raw a f u = Some (gw_read_series a (gw_point_index a (base_interval a) f) (gw_point_index a (base_interval a) u)).
Proof.
  intros (HS & HN & Hlen & HR) Hb Hbm [Hf1 Hf2] [Hu1 Hu2] Hfu Hcnt.
  set (b := base_interval a) in *. set (cnt := (u - f) / a_step a) in *.
  assert (Hdiv : u - f = cnt * a_step a).
  { unfold cnt. pose proof (sub_aligned a u f HS Hu2 Hf2). rewrite Z.mul_comm. apply Z_div_exact_full_2; lia. }
  assert (Hcnt0 : 0 < cnt) by nia.
  rewrite (gw_point_index_cls a b f) by (try assumption; apply sub_aligned; assumption).
  rewrite (gw_point_index_cls a b u) by (try assumption; apply sub_aligned; assumption).
  unfold fetch_raw. fold b.
  rewrite (point_index_spec a b f) by (try assumption; try (unfold TMAX in *; lia); apply sub_aligned; assumption).
  assert (Hq : Z.quot (ts_sub u f) (a_step a) = cnt).
  { rewrite ts_sub_nowrap by (unfold TMAX in *; lia). rewrite Hdiv. apply Z.quot_mul. lia. }
  rewrite Hq.
  assert (Hui : cls a b u = (cls a b f + cnt) mod a_n a).
  { replace u with (f + cnt * a_step a) by lia. apply cls_shift; assumption. }
  pose proof (cls_range a b f HN) as Hfr.
  set (fi := cls a b f) in *. rewrite Hui.
  rewrite (Z.rem_mod_nonneg (fi + cnt) (a_n a)) by lia.
  destruct (Z.ltb_spec cnt 0) as [|_]; [lia|].
  unfold gw_read_series.
  destruct (Z.ltb_spec fi ((fi + cnt) mod a_n a)) as [Hlt | Hge].
  - assert (Hnw : (fi + cnt) mod a_n a = fi + cnt).
    { destruct (Z_lt_le_dec (fi + cnt) (a_n a)); [apply Z.mod_small; lia|].
      exfalso. assert ((fi + cnt) mod a_n a = fi + cnt - a_n a) by (symmetry; apply Zmod_unique with (q := 1); lia). lia. }
    rewrite Hnw in *.
    assert (Hl : zlen (slice (a_slots a) fi (fi + cnt)) = cnt) by (rewrite slice_length by lia; lia).
    rewrite Hl. destruct (Z.gtb_spec cnt cnt); [lia|].
    rewrite Z.sub_diag. cbn [Z.to_nat repeat]. rewrite app_nil_r. reflexivity.
  - assert (Hw : (fi + cnt) mod a_n a = fi + cnt - a_n a).
    { destruct (Z_lt_le_dec (fi + cnt) (a_n a)); [rewrite Z.mod_small in Hge by lia; lia|].
      symmetry. apply Zmod_unique with (q := 1); lia. }
    rewrite Hw in *.
    assert (Hl1 : zlen (slice (a_slots a) fi (a_n a)) = a_n a - fi) by (apply slice_length; lia).
    assert (Hl2 : zlen (slice (a_slots a) 0 (fi + cnt - a_n a)) = fi + cnt - a_n a) by (rewrite slice_length by lia; lia).
    rewrite zlen_app, Hl1, Hl2. replace (a_n a - fi + (fi + cnt - a_n a)) with cnt by lia.
    destruct (Z.gtb_spec cnt cnt); [lia|].
    rewrite Z.sub_diag. cbn [Z.to_nat repeat]. rewrite app_nil_r. reflexivity.
Qed.

(** stale-lap elimination is the same in both readers while instants do not wrap *)
Lemma clear_old_is_gw_values : forall ps cur step, 0 <= cur -> 0 < step < TMAX ->
  cur + zlen ps * step < 2^32 -> clear_old ps cur step = gw_values ps cur step.
Proof.
  induction ps as [|p r IH]; intros cur step Hc Hs Hb; [reflexivity|].
  rewrite zlen_cons in Hb. pose proof (zlen_nonneg r). cbn [clear_old gw_values].
  rewrite ts_add_nowrap by (unfold TMAX in *; nia).
  f_equal. apply IH; nia.
Qed.

Lemma gw_interval_spec step t : 0 < step -> gw_interval step t = t - t mod step + step.
Proof. reflexivity. Qed.

(** the series a fetch of a NAMED archive returns, in terms of the slots it reads *)
Theorem fetch_named_form arcs id a from until now :
  0 <= id -> nth_error arcs (Z.to_nat id) = Some a -> wf_arc a ->
  period a <= now -> now + 2 * a_step a < TMAX ->
  0 <= from <= now -> now - period a <= until -> from <= until -> until < 2^32 ->
  let f := win_from a from now in let u := win_until a from until now in
  fetch_from_archive arcs id from until now =
    if base_interval a =? 0
    then FSeries (mkSeries f u (a_step a) (repeat NaN (Z.to_nat ((u - f) / a_step a))))
    else match fetch_raw a f u with
         | Some ps => FSeries (mkSeries f u (a_step a) (clear_old ps f (a_step a)))
         | None => FPanic
         end.
Proof.
  intros Hid Hnth Hwf Hp Hnow Hfrom Hun Hfu Hu32.
  pose proof Hwf as (HS & HN & Hlen & HR).
  pose proof (nth_error_range arcs id a Hid Hnth) as Hidr.
  assert (Hmr : max_retention a = period a) by (apply max_retention_period; assumption).
  assert (Hold : ts_add now (i32 (- max_retention a)) = now - period a).
  { rewrite Hmr. unfold period, TMAX in *. rewrite i32_small by lia.
    rewrite ts_add_nowrap by (unfold TMAX; lia). lia. }
  unfold fetch_from_archive.
  destruct (Z.gtb_spec from until) as [|_]; [lia|].
  assert (Hidchk : (negb (id =? ArchiveIDBest) && (id <? 0)) || (zlen arcs - 1 <? id) = false).
  { unfold ArchiveIDBest. destruct (Z.eqb_spec id (-1)); [lia|].
    destruct (Z.ltb_spec id 0); [lia|]. destruct (Z.ltb_spec (zlen arcs - 1) id); [lia|]. reflexivity. }
  rewrite Hidchk. unfold ArchiveIDBest. destruct (Z.eqb_spec id (-1)) as [|_]; [lia|].
  rewrite Hnth. rewrite Hold.
  destruct (Z.gtb_spec from now) as [Hfn|Hfn]; [lia|].
  destruct (Z.ltb_spec until (now - period a)) as [|_]; [lia|].
  cbv zeta.
  destruct (window_facts a from until now Hwf Hp Hnow ltac:(lia) Hun Hfu) as (Hgf & Hgu & Hlt & Hcnt & Hub).
  assert (Hfrom' : (if from <? now - period a then now - period a else from) = Z.max from (now - period a)).
  { destruct (Z.ltb_spec from (now - period a)); lia. }
  assert (Huntil' : (if until >? now then now else until) = Z.min until now).
  { destruct (Z.gtb_spec until now); lia. }
  rewrite Hfrom', Huntil'.
  assert (Hfi : interval (a_step a) (Z.max from (now - period a)) = win_from a from now).
  { unfold win_from. apply interval_spec; unfold period, TMAX in *; lia. }
  assert (Hui0 : interval (a_step a) (Z.min until now) =
                 Z.min until now - Z.min until now mod a_step a + a_step a).
  { apply interval_spec; unfold period, TMAX in *; lia. }
  rewrite Hfi, Hui0.
  assert (Hui : (if win_from a from now =? Z.min until now - Z.min until now mod a_step a + a_step a
                 then ts_add (Z.min until now - Z.min until now mod a_step a + a_step a) (a_step a)
                 else Z.min until now - Z.min until now mod a_step a + a_step a) = win_until a from until now).
  { unfold win_until.
    destruct (win_from a from now =? Z.min until now - Z.min until now mod a_step a + a_step a) eqn:E; [|reflexivity].
    pose proof (mod_facts (Z.min until now) (a_step a) HS ltac:(lia)).
    apply ts_add_nowrap; unfold TMAX in *; lia. }
  rewrite Hui.
  assert (Hquot : Z.quot (ts_sub (win_until a from until now) (win_from a from now)) (a_step a) =
                  (win_until a from until now - win_from a from now) / a_step a).
  { destruct Hgf as [? ?]. destruct Hgu as [? ?].
    rewrite ts_sub_nowrap by (unfold TMAX in *; lia). apply quot_div_nonneg; lia. }
  rewrite Hquot. reflexivity.
Qed.

(** ARCHIVE LEVEL: for a window already inside the archive's retention, the reference reader's
    fetchFromArchive returns exactly the series whispertool returns for that archive — provided
    the window is not degenerate on a never-written archive (there go-whisper answers with zero
    values; the property excludes degenerate windows) *)
Theorem gw_archive_eq_wt arcs id a from until now :
  0 <= id -> nth_error arcs (Z.to_nat id) = Some a -> wf_arc a -> base_ok a ->
  period a <= now -> now + 2 * a_step a < TMAX ->
  now - period a <= from -> from <= until -> until <= now ->
  (base_interval a = 0 -> gw_interval (a_step a) from <> gw_interval (a_step a) until) ->
  fetch_from_archive arcs id from until now = FSeries (gw_fetch_archive a from until).
Proof.
  intros Hid Hnth Hwf Hbase Hp Hnow Hfr Hfu Hun Hnd.
  pose proof Hwf as (HS & HN & Hlen & HR).
  assert (Hp0 : 0 < period a) by (unfold period; nia).
  rewrite (fetch_named_form arcs id a from until now) by (try assumption; unfold TMAX, period in *; lia).
  destruct (window_facts a from until now Hwf Hp Hnow ltac:(unfold period in *; lia) ltac:(lia) Hfu) as (Hgf & Hgu & Hlt & Hcnt & Hub).
  unfold gw_fetch_archive.
  assert (Hwf' : win_from a from now = gw_interval (a_step a) from).
  { unfold win_from, gw_interval. rewrite Z.max_l by lia. reflexivity. }
  assert (Hu0 : Z.min until now = until) by lia.
  assert (Hwu' : win_until a from until now =
                 (if gw_interval (a_step a) from =? gw_interval (a_step a) until
                  then gw_interval (a_step a) until + a_step a else gw_interval (a_step a) until)).
  { unfold win_until. rewrite Hu0, Hwf'. unfold gw_interval. reflexivity. }
  destruct (Z.eqb_spec (base_interval a) 0) as [Hb0|Hb0].
  - specialize (Hnd Hb0). rewrite Hwu', Hwf'.
    destruct (Z.eqb_spec (gw_interval (a_step a) from) (gw_interval (a_step a) until)); [contradiction|reflexivity].
  - destruct Hbase as [|[Hb1 Hb2]]; [contradiction|].
    rewrite (fetch_raw_is_gw_read a _ _ Hwf Hb1 Hb2 Hgf Hgu Hlt Hcnt).
    rewrite clear_old_is_gw_values.
    + rewrite Hwu', Hwf'. reflexivity.
    + destruct Hgf; lia.
    + unfold TMAX, period in *. nia.
    + pose proof (fetch_raw_is_gw_read a _ _ Hwf Hb1 Hb2 Hgf Hgu Hlt Hcnt) as Hfr'.
      destruct (fetch_raw_total a (win_from a from now) (win_until a from until now) Hlen HN) as (ps & Hps & Hl).
      { destruct Hgf as [? Hf2]. destruct Hgu as [? Hu2].
        rewrite ts_sub_nowrap by (unfold TMAX in *; lia). rewrite quot_div_nonneg by lia.
        assert ((win_until a from until now - win_from a from now) mod a_step a = 0) by (apply sub_aligned; assumption).
        assert (win_until a from until now - win_from a from now = a_step a * ((win_until a from until now - win_from a from now) / a_step a))
          by (apply Z_div_exact_full_2; lia).
        split; [|exact Hcnt].
        destruct (Z_lt_le_dec ((win_until a from until now - win_from a from now) / a_step a) 1); [nia|lia]. }
      rewrite Hfr' in Hps. injection Hps as <-. rewrite Hl.
      destruct Hgf as [? ?]. destruct Hgu as [? ?].
      rewrite ts_sub_nowrap by (unfold TMAX in *; lia). rewrite quot_div_nonneg by lia.
      assert ((win_until a from until now - win_from a from now) / a_step a * a_step a <= win_until a from until now - win_from a from now).
      { rewrite Z.mul_comm. apply Z.mul_div_le. lia. }
      unfold TMAX in *. lia.
Qed.

(** * Archive selection *)
(** go-whisper's loop picks the element at whispertool's "best" index *)
Lemma gw_pick_best : forall arcs i diff, arcs <> [] ->
  exists k, best_from (map period arcs) i diff = i + Z.of_nat k /\ gw_pick arcs diff = nth_error arcs k.
Proof.
  induction arcs as [|a r IH]; intros i diff Hne; [contradiction|].
  cbn [map best_from gw_pick]. fold (period a).
  destruct r as [|a' r'].
  - exists 0%nat. cbn [map]. destruct (period a >=? diff); split; try reflexivity; lia.
  - destruct (period a >=? diff) eqn:E.
    + exists 0%nat. split; [lia|reflexivity].
    + cbn [map]. destruct (IH (i + 1) diff ltac:(discriminate)) as [k [Hk Hp]].
      exists (S k). cbn [map] in Hk. split; [rewrite Hk; lia|exact Hp].
Qed.

(** the selected retention covers the requested age, or it is the last one *)
Lemma best_from_sel : forall rets i d, rets <> [] ->
  let k := best_from rets i d in
  nth (Z.to_nat (k - i)) rets 0 >= d \/ k = i + zlen rets - 1.
Proof.
  induction rets as [|r rest IH]; intros i d Hne; [contradiction|]. cbn zeta. cbn [best_from].
  destruct (Z.geb_spec r d) as [Hge|Hlt].
  - left. rewrite Z.sub_diag. cbn. lia.
  - destruct rest as [|r' rest'].
    + right. rewrite zlen_cons, zlen_nil. lia.
    + specialize (IH (i + 1) d ltac:(discriminate)). cbn zeta in IH.
      pose proof (best_from_range (r' :: rest') (i + 1) d ltac:(discriminate)) as Hr.
      destruct IH as [IH|IH].
      * left. replace (Z.to_nat (best_from (r' :: rest') (i + 1) d - i)) with (S (Z.to_nat (best_from (r' :: rest') (i + 1) d - (i + 1)))) by lia.
        exact IH.
      * right. rewrite IH. rewrite !zlen_cons. lia.
Qed.

(** strictly increasing retentions whose last element is [M]: clamping the age to [M] does not
    change the selection *)
Lemma best_from_clamp : forall rets i d M, rets <> [] ->
  StronglySorted Z.lt rets -> last rets 0 = M ->
  best_from rets i (Z.min d M) = best_from rets i d.
Proof.
  induction rets as [|r rest IH]; intros i d M Hne Hs Hl; [contradiction|].
  cbn [best_from]. inversion Hs as [|? ? Hs' Hall]; subst.
  destruct rest as [|r' rest'].
  - cbn in *. destruct (Z.geb_spec r (Z.min d r)), (Z.geb_spec r d); reflexivity.
  - assert (HlM : last (r' :: rest') 0 = last (r :: r' :: rest') 0) by reflexivity.
    assert (Hrlt : r < last (r' :: rest') 0).
    { rewrite Forall_forall in Hall. apply Hall. clear. generalize r'. induction rest' as [|x q IHq]; intros y; [left; reflexivity|].
      right. apply IHq. }
    rewrite <- HlM. set (M := last (r' :: rest') 0) in *.
    destruct (Z.geb_spec r (Z.min d M)), (Z.geb_spec r d); try reflexivity; try lia.
    apply IH; [discriminate|exact Hs'|reflexivity].
Qed.

Lemma period_le_last : forall arcs a, StronglySorted (fun x y => period x < period y) arcs -> In a arcs ->
  period a <= period (last arcs a).
Proof.
  induction arcs as [|x r IH]; intros a Hs Hin; [contradiction|].
  inversion Hs as [|? ? Hs' Hall]; subst. destruct r as [|y q].
  - destruct Hin as [->|[]]. cbn. lia.
  - destruct Hin as [->|Hin].
    + rewrite Forall_forall in Hall.
      assert (In (last (y :: q) a) (y :: q)).
      { clear. generalize y. induction q as [|z q' IHq]; intros w; [left; reflexivity|]. right. apply IHq. }
      change (last (a :: y :: q) a) with (last (y :: q) a). specialize (Hall _ H). lia.
    + change (last (x :: y :: q) a) with (last (y :: q) a). apply IH; assumption.
Qed.

Lemma sorted_map_period arcs : StronglySorted (fun x y => period x < period y) arcs ->
  StronglySorted Z.lt (map period arcs).
Proof.
  induction 1 as [|a r Hs IH Hall]; cbn [map]; constructor; [exact IH|].
  rewrite Forall_map. exact Hall.
Qed.
Lemma last_map_period : forall arcs d, arcs <> [] -> last (map period arcs) 0 = period (last arcs d).
Proof.
  induction arcs as [|a r IH]; intros d Hne; [contradiction|].
  destruct r as [|b q]; [reflexivity|]. change (last (map period (a :: b :: q)) 0) with (last (map period (b :: q)) 0).
  change (last (a :: b :: q) d) with (last (b :: q) d). apply IH. discriminate.
Qed.
Lemma nth_map_period arcs k a : nth_error arcs k = Some a -> nth k (map period arcs) 0 = period a.
Proof.
  revert k; induction arcs as [|x r IH]; intros [|k] H; try discriminate; cbn in *; [injection H as ->; reflexivity|apply IH; exact H].
Qed.
Lemma nth_error_last {A} : forall (l : list A) d, l <> [] -> nth_error l (length l - 1) = Some (last l d).
Proof.
  induction l as [|x r IH]; intros d Hne; [contradiction|]. destruct r as [|y q]; [reflexivity|].
  change (last (x :: y :: q) d) with (last (y :: q) d). cbn [length]. replace (S (S (length q)) - 1)%nat with (S (length (y :: q) - 1)) by (cbn; lia).
  cbn [nth_error]. apply IH. discriminate.
Qed.

(** FILE LEVEL: go-whisper's Fetch and whispertool's fetch of the best archive agree on the
    same archives, for every clock of the domain and every non-degenerate window *)
Theorem gw_eq_wt_best arcs maxret from until now :
  arcs <> [] -> Forall wf_arc arcs -> Forall base_ok arcs ->
  StronglySorted (fun x y => period x < period y) arcs ->
  (forall d, maxret = period (last arcs d)) ->
  maxret <= now -> Forall (fun a => now + 2 * a_step a < TMAX) arcs ->
  0 <= from -> from <= until -> until < 2^32 ->
  (forall a, In a arcs -> base_interval a = 0 ->
     gw_interval (a_step a) (Z.max from (now - maxret)) <> gw_interval (a_step a) (Z.min until now)) ->
  match gw_fetch arcs maxret from until now with
  | GwErr => False
  | GwNone => fetch_from_archive arcs ArchiveIDBest from until now = FNone
  | GwSeries s => fetch_from_archive arcs ArchiveIDBest from until now = FSeries s
  end.
Proof.
  intros Hne Hwf Hbase Hsort Hmax Hmn Hdom Hf0 Hfu Hu32 Hnd.
  assert (Hlen1 : 1 <= zlen arcs) by (destruct arcs; [contradiction|rewrite zlen_cons; pose proof (zlen_nonneg arcs); lia]).
  assert (HnowT : now < TMAX).
  { destruct arcs as [|a0 r0]; [contradiction|]. inversion Hdom as [|? ? Hd _]; subst. inversion Hwf as [|? ? (HS & _) _]; subst. lia. }
  set (rets := map period arcs).
  assert (Hrne : rets <> []) by (unfold rets; destruct arcs; [contradiction|discriminate]).
  unfold gw_fetch. destruct (Z.gtb_spec from until) as [|_]; [lia|].
  destruct (Z.gtb_spec from now) as [Hfn|Hfn].
  - (* wholly in the future *)
    unfold fetch_from_archive. destruct (Z.gtb_spec from until) as [|_]; [lia|].
    unfold ArchiveIDBest. rewrite Z.eqb_refl. cbn [negb andb orb].
    destruct (Z.ltb_spec (zlen arcs - 1) (-1)) as [|_]; [lia|].
    unfold find_best. rewrite find_best_from_spec by assumption. fold rets.
    pose proof (best_from_range rets 0 (ts_sub now from) Hrne) as Hr.
    assert (Hzl : zlen rets = zlen arcs) by (unfold rets; apply zlen_map).
    destruct (nth_error arcs (Z.to_nat (best_from rets 0 (ts_sub now from)))) as [r|] eqn:E.
    + destruct (Z.gtb_spec from now); [reflexivity|lia].
    + apply nth_error_None in E. unfold zlen in *. lia.
  - destruct (fetch_best_is_named arcs from until now Hne Hwf Hfu ltac:(lia) Hf0) as [Hidr Hbest].
    rewrite Hbest. clear Hbest. fold rets in Hidr |- *. unfold best_spec in *.
    set (id := best_from rets 0 (now - from)) in *.
    destruct (nth_error arcs (Z.to_nat id)) as [a|] eqn:Ea; [|apply nth_error_None in Ea; unfold zlen in *; lia].
    assert (Hin : In a arcs) by (eapply nth_error_In; exact Ea).
    assert (Hwa : wf_arc a) by (rewrite Forall_forall in Hwf; apply Hwf; exact Hin).
    assert (Hba : base_ok a) by (rewrite Forall_forall in Hbase; apply Hbase; exact Hin).
    assert (Hda : now + 2 * a_step a < TMAX) by (rewrite Forall_forall in Hdom; apply Hdom; exact Hin).
    assert (Hpm : period a <= maxret) by (rewrite (Hmax a); apply period_le_last; assumption).
    pose proof Hwa as (HS & HN & _ & HR). assert (Hp0 : 0 < period a) by (unfold period; nia).
    destruct (Z.ltb_spec until (now - maxret)) as [Hold|Hold].
    + (* wholly before the retention *)
      pose proof (fetch_named_total arcs id a from until now ltac:(lia) Ea Hwa ltac:(lia) Hda ltac:(unfold TMAX in *; lia) ltac:(lia) Hfu) as Ht.
      destruct (Z.gtb_spec from now); [lia|]. destruct (Z.ltb_spec until (now - period a)); [exact Ht|lia].
    + (* the same archive is selected *)
      assert (Hfrom' : (if from <? now - maxret then now - maxret else from) = Z.max from (now - maxret)).
      { destruct (Z.ltb_spec from (now - maxret)); lia. }
      assert (Huntil' : (if until >? now then now else until) = Z.min until now).
      { destruct (Z.gtb_spec until now); lia. }
      rewrite Hfrom', Huntil'.
      set (from' := Z.max from (now - maxret)). set (until' := Z.min until now).
      assert (Hdiff : now - from' = Z.min (now - from) maxret) by (unfold from'; lia).
      destruct (gw_pick_best arcs 0 (now - from') Hne) as [k [Hk Hpick]]. fold rets in Hk.
      rewrite Hdiff in Hk.
      rewrite (best_from_clamp rets 0 (now - from) maxret Hrne (sorted_map_period arcs Hsort)) in Hk
        by (unfold rets; rewrite (last_map_period arcs a Hne); symmetry; apply Hmax).
      fold id in Hk. rewrite Hpick. replace k with (Z.to_nat id) by lia. rewrite Ea.
      (* the selected retention covers the window, or it is the last archive *)
      pose proof (best_from_sel rets 0 (now - from) Hrne) as Hsel. cbn zeta in Hsel. fold id in Hsel.
      rewrite Z.sub_0_r in Hsel. unfold rets in Hsel at 1. rewrite (nth_map_period arcs _ a Ea) in Hsel.
      assert (Hcov : now - period a <= from \/ period a = maxret).
      { destruct Hsel as [Hge|Hlast]; [left; lia|right].
        assert (Hzl : zlen rets = zlen arcs) by (unfold rets; apply zlen_map).
        assert (Hidl : Z.to_nat id = (length arcs - 1)%nat) by (unfold zlen in *; lia).
        rewrite Hidl, (nth_error_last arcs a Hne) in Ea. injection Ea as Ea. rewrite (Hmax a), Ea. reflexivity. }
      assert (Hfa : Z.max from (now - period a) = from') by (unfold from'; destruct Hcov; lia).
      assert (Hua : now - period a <= until) by (destruct Hcov; lia).
      (* whispertool clamps inside: the fetch equals the fetch of the clamped window *)
      assert (Hclamp : fetch_from_archive arcs id from until now = fetch_from_archive arcs id from' until' now).
      { rewrite (fetch_named_form arcs id a from until now) by (try assumption; lia).
        rewrite (fetch_named_form arcs id a from' until' now) by (try assumption; unfold from', until'; lia).
        assert (W1 : win_from a from' now = win_from a from now).
        { unfold win_from. rewrite <- Hfa. rewrite Z.max_l by lia. reflexivity. }
        assert (W2 : win_until a from' until' now = win_until a from until now).
        { unfold win_until. rewrite W1. unfold until'. rewrite Z.min_l by lia. reflexivity. }
        rewrite W1, W2. reflexivity. }
      rewrite Hclamp.
      apply gw_archive_eq_wt; try assumption; try (unfold from', until'; lia);
        try (intros Hb0; apply (Hnd a Hin Hb0)).
Qed.
Print Assumptions gw_eq_wt_best.
