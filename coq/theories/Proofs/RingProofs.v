From WT Require Import Base.Wrap Base.ListX Model.Time Model.Ring Spec.LogSpec Proofs.TimeProofs.

(** * Well-formedness and the state/log relation *)

Definition good_time (a : arc) (t : Z) : Prop := 0 < t < TMAX /\ t mod a_step a = 0.
Definition wf_arc (a : arc) : Prop :=
  0 < a_step a /\ 0 < a_n a /\ zlen (a_slots a) = a_n a /\ a_step a * a_n a < TMAX.
Definition period (a : arc) : Z := a_step a * a_n a.

Definition cls (a : arc) (b t : Z) : Z := ((t - b) / a_step a) mod a_n a.

Fixpoint newest (a : arc) (b : Z) (log : list point) (j : Z) : point :=
  match log with
  | [] => zero_point
  | p :: r => if cls a b (p_time p) =? j then p else newest a b r j
  end.

Definition Rel (a : arc) (log : list point) : Prop :=
  wf_arc a /\
  Forall (fun p => good_time a (p_time p)) log /\
  (log = [] -> base_interval a = 0) /\
  (log <> [] -> good_time a (base_interval a)) /\
  (forall j, 0 <= j < a_n a -> slot a j = newest a (base_interval a) log j).

(** * Class arithmetic *)

Lemma cls_range a b t : 0 < a_n a -> 0 <= cls a b t < a_n a.
Proof. intros. unfold cls. apply Z.mod_pos_bound; lia. Qed.

Lemma cls_self a b : 0 < a_step a -> 0 < a_n a -> cls a b b = 0.
Proof. intros. unfold cls. rewrite Z.sub_diag, Z.div_0_l by lia. apply Z.mod_0_l. lia. Qed.

Lemma cls_shift a b t k : 0 < a_step a -> 0 < a_n a ->
  cls a b (t + k * a_step a) = (cls a b t + k) mod a_n a.
Proof.
  intros HS HN. unfold cls.
  replace (t + k * a_step a - b) with ((t - b) + k * a_step a) by ring.
  rewrite Z.div_add by lia. rewrite Zplus_mod_idemp_l. reflexivity.
Qed.

Lemma cls_base_congr a b b' t : 0 < a_step a -> 0 < a_n a -> (b' - b) mod period a = 0 ->
  cls a b' t = cls a b t.
Proof.
  unfold period. intros HS HN Hc. unfold cls.
  apply Z.mod_divide in Hc; [|nia]. destruct Hc as [m Hm].
  replace (t - b') with ((t - b) + (- m * a_n a) * a_step a) by nia.
  rewrite Z.div_add by lia. rewrite Z.mod_add by lia. reflexivity.
Qed.

Lemma cls_eq_iff a b t e : 0 < a_step a -> 0 < a_n a ->
  (t - b) mod a_step a = 0 -> (e - b) mod a_step a = 0 ->
  (cls a b t = cls a b e <-> (t - e) mod period a = 0).
Proof.
  unfold period. intros HS HN Ht He. unfold cls.
  apply Z.mod_divide in Ht; [|lia]. destruct Ht as [p Hp].
  apply Z.mod_divide in He; [|lia]. destruct He as [q Hq].
  rewrite Hp, Hq. rewrite !Z.div_mul by lia.
  replace (t - e) with ((p - q) * a_step a) by nia.
  split; intro H.
  - assert (Hd: (p - q) mod a_n a = 0).
    { rewrite Zminus_mod, H, Z.sub_diag. apply Z.mod_0_l; lia. }
    apply Z.mod_divide in Hd; [|lia]. destruct Hd as [m Hm].
    apply Z.mod_divide; [nia|]. exists m. nia.
  - apply Z.mod_divide in H; [|nia]. destruct H as [m Hm].
    assert (p - q = m * a_n a) by nia.
    replace p with (q + m * a_n a) by lia. apply Z.mod_add. lia.
Qed.

Lemma sub_aligned a t b : 0 < a_step a -> t mod a_step a = 0 -> b mod a_step a = 0 ->
  (t - b) mod a_step a = 0.
Proof.
  intros. rewrite Zminus_mod. replace (t mod a_step a) with 0 by lia.
  replace (b mod a_step a) with 0 by lia. reflexivity.
Qed.

Lemma point_index_spec a b t : 0 < a_step a -> 0 < a_n a -> 0 <= b < TMAX -> 0 <= t < TMAX ->
  (t - b) mod a_step a = 0 -> point_index a b t = cls a b t.
Proof.
  intros HS HN Hb Ht Hm. unfold point_index, cls. rewrite ts_sub_nowrap by assumption.
  rewrite floorMod_mod by lia. f_equal.
  assert (Hq: t - b = a_step a * ((t - b) / a_step a)) by (apply Z_div_exact_full_2; lia).
  rewrite Hq at 1. rewrite Z.mul_comm, Z.quot_mul by lia. reflexivity.
Qed.

(** * [put] preserves the relation *)

Lemma newest_congr a b b' log j : 0 < a_step a -> 0 < a_n a -> (b' - b) mod period a = 0 ->
  newest a b' log j = newest a b log j.
Proof.
  intros HS HN Hc. induction log as [|p r IH]; cbn [newest]; [reflexivity|].
  rewrite (cls_base_congr a b b') by assumption. rewrite IH. reflexivity.
Qed.

Lemma put_at_step a i p : a_step (put_at a i p) = a_step a. Proof. reflexivity. Qed.
Lemma put_at_n a i p : a_n (put_at a i p) = a_n a. Proof. reflexivity. Qed.
Lemma put_at_wf a i p : wf_arc a -> wf_arc (put_at a i p).
Proof.
  intros (HS & HN & Hlen & HR). unfold wf_arc. rewrite put_at_step, put_at_n.
  repeat split; try assumption. unfold put_at; cbn [a_slots]. rewrite zlen_zupd. assumption.
Qed.
Lemma newest_put_at a i p b lg j : newest (put_at a i p) b lg j = newest a b lg j.
Proof. induction lg as [|q r IH]; cbn [newest]; [reflexivity|]. rewrite IH. reflexivity. Qed.
Lemma slot_put_at a i p j : 0 <= i < zlen (a_slots a) -> 0 <= j ->
  slot (put_at a i p) j = if j =? i then p else slot a j.
Proof. intros. unfold slot, put_at; cbn [a_slots]. apply znth_zupd; assumption. Qed.

(** A write at the class of [t] relative to any base congruent to the current one
    (or at slot 0 of a never-written archive). *)
Lemma put_at_Rel a log t v i :
  Rel a log -> good_time a t ->
  (log = [] -> i = 0) -> (log <> [] -> i = cls a (base_interval a) t) ->
  Rel (put_at a i (mkPoint t v)) (mkPoint t v :: log).
Proof.
  intros (Hwf & Hall & Hnil & Hne & Hsl) Hgt Hi0 Hi1.
  pose proof Hwf as (HS & HN & Hlen & HR).
  assert (Hall' : Forall (fun p => good_time (put_at a i (mkPoint t v)) (p_time p)) (mkPoint t v :: log)).
  { constructor; [exact Hgt | exact Hall]. }
  destruct log as [|p0 r0].
  - (* first write *)
    specialize (Hi0 eq_refl). subst i.
    assert (Hb0 : base_interval a = 0) by (apply Hnil; reflexivity).
    assert (Hbase' : base_interval (put_at a 0 (mkPoint t v)) = t).
    { unfold base_interval. rewrite slot_put_at by lia. reflexivity. }
    refine (conj (put_at_wf _ _ _ Hwf) (conj Hall' (conj _ (conj _ _)))).
    + discriminate.
    + intros _. rewrite Hbase'. exact Hgt.
    + intros j Hj. try rewrite put_at_n in Hj. cbn [a_n put_at] in Hj. rewrite Hbase'. rewrite slot_put_at by lia.
      cbn [newest p_time]. change (cls (put_at a 0 (mkPoint t v)) t t) with (cls a t t).
      rewrite cls_self by assumption.
      destruct (Z.eqb_spec j 0); destruct (Z.eqb_spec 0 j); try lia; [reflexivity|].
      rewrite Hsl by lia. reflexivity.
  - (* later write *)
    assert (Hgb : good_time a (base_interval a)) by (apply Hne; discriminate).
    specialize (Hi1 ltac:(discriminate)). subst i.
    destruct Hgb as [Hb1 Hb2]. destruct Hgt as [Ht1 Ht2].
    pose proof (cls_range a (base_interval a) t HN) as Hcr.
    set (i := cls a (base_interval a) t) in *.
    set (a' := put_at a i (mkPoint t v)).
    assert (Hb' : base_interval a' = if 0 =? i then t else base_interval a).
    { unfold base_interval at 1. unfold a'. rewrite slot_put_at by lia. destruct (0 =? i); reflexivity. }
    assert (Hcongr : (base_interval a' - base_interval a) mod period a = 0).
    { rewrite Hb'. destruct (Z.eqb_spec 0 i) as [E|E].
      - assert (H0 : cls a (base_interval a) t = cls a (base_interval a) (base_interval a)).
        { fold i. rewrite <- E. symmetry. apply cls_self; assumption. }
        apply cls_eq_iff in H0; try assumption; apply sub_aligned; assumption.
      - rewrite Z.sub_diag. apply Z.mod_0_l. unfold period. nia. }
    assert (Hgb' : good_time a (base_interval a')).
    { rewrite Hb'. destruct (0 =? i); split; assumption. }
    refine (conj (put_at_wf _ _ _ Hwf) (conj Hall' (conj _ (conj _ _)))).
    + discriminate.
    + intros _. exact Hgb'.
    + intros j Hj. assert (Hj' : 0 <= j < a_n a) by exact Hj. clear Hj. fold a'.
      unfold a' at 2. rewrite newest_put_at. rewrite (newest_congr a (base_interval a)) by assumption.
      cbn [newest p_time]. unfold a'. rewrite slot_put_at by lia.
      fold i. destruct (Z.eqb_spec j i); destruct (Z.eqb_spec i j); try lia; [reflexivity|].
      apply Hsl. lia.
Qed.

Lemma get_point_index_spec a log t : Rel a log -> good_time a t ->
  (log = [] -> get_point_index a t = 0) /\
  (log <> [] -> get_point_index a t = cls a (base_interval a) t).
Proof.
  intros (Hwf & Hall & Hnil & Hne & Hsl) [Ht1 Ht2]. destruct Hwf as (HS & HN & _ & _).
  unfold get_point_index. split; intro H.
  - rewrite (Hnil H). reflexivity.
  - destruct (Hne H) as [Hb1 Hb2]. destruct (Z.eqb_spec (base_interval a) 0); [lia|].
    apply point_index_spec; unfold TMAX in *; try lia. apply sub_aligned; assumption.
Qed.

Theorem put_Rel a log t v : Rel a log -> good_time a t -> Rel (put a t v) (mkPoint t v :: log).
Proof.
  intros HR Hg. destruct (get_point_index_spec a log t HR Hg) as [H0 H1].
  unfold put. apply put_at_Rel; assumption.
Qed.

(** * Read side *)

Lemma base_facts a log : Rel a log -> 0 <= base_interval a < TMAX /\ base_interval a mod a_step a = 0.
Proof.
  intros (Hwf & Hall & Hnil & Hne & Hsl). destruct Hwf as (HS & HN & _ & _).
  destruct log as [|p r].
  - rewrite (Hnil eq_refl). unfold TMAX. split; [lia|]. apply Z.mod_0_l. lia.
  - destruct (Hne ltac:(discriminate)) as [? ?]. split; [lia|assumption].
Qed.

Lemma fetch_raw_spec a log f u :
  Rel a log -> good_time a f -> good_time a u -> f < u -> (u - f) / a_step a <= a_n a ->
  exists ps, fetch_raw a f u = Some ps /\ zlen ps = (u - f) / a_step a /\
    forall k, 0 <= k < (u - f) / a_step a ->
      znth zero_point ps k = slot a ((cls a (base_interval a) f + k) mod a_n a).
Proof.
  intros HRel [Hf1 Hf2] [Hu1 Hu2] Hfu Hcnt.
  destruct (base_facts a log HRel) as [Hb1 Hb2].
  destruct HRel as (Hwf & Hall & Hnil & Hne & Hsl). destruct Hwf as (HS & HN & Hlen & HR).
  set (cnt := (u - f) / a_step a) in *.
  assert (Hdiv : u - f = cnt * a_step a).
  { unfold cnt. pose proof (sub_aligned a u f HS Hu2 Hf2).
    rewrite Z.mul_comm. apply Z_div_exact_full_2; lia. }
  assert (Hcnt0 : 0 < cnt) by nia.
  unfold fetch_raw.
  rewrite (point_index_spec a (base_interval a) f) by (try assumption; try (unfold TMAX in *; lia); apply sub_aligned; assumption).
  assert (Hq : Z.quot (ts_sub u f) (a_step a) = cnt).
  { rewrite ts_sub_nowrap by (unfold TMAX in *; lia). rewrite Hdiv. apply Z.quot_mul. lia. }
  rewrite Hq.
  assert (Hui : cls a (base_interval a) u = (cls a (base_interval a) f + cnt) mod a_n a).
  { replace u with (f + cnt * a_step a) by lia. apply cls_shift; assumption. }
  pose proof (cls_range a (base_interval a) f HN) as Hfr.
  set (fi := cls a (base_interval a) f) in *. clear Hui.
  rewrite (Z.rem_mod_nonneg (fi + cnt) (a_n a)) by lia.
  destruct (Z.ltb_spec cnt 0) as [Hneg|_]; [lia|].
  unfold slot.
  destruct (Z.ltb_spec fi ((fi + cnt) mod a_n a)) as [Hlt | Hge].
  - assert (Hnw : (fi + cnt) mod a_n a = fi + cnt).
    { destruct (Z_lt_le_dec (fi + cnt) (a_n a)); [apply Z.mod_small; lia|].
      exfalso. assert ((fi + cnt) mod a_n a = fi + cnt - a_n a).
      { symmetry. apply Zmod_unique with (q := 1); lia. } lia. }
    rewrite Hnw in *.
    assert (Hl : zlen (slice (a_slots a) fi (fi + cnt)) = cnt).
    { rewrite slice_length by lia. lia. }
    rewrite Hl. destruct (Z.gtb_spec cnt cnt); [lia|].
    rewrite Z.sub_diag. cbn [Z.to_nat repeat]. rewrite app_nil_r.
    eexists; split; [reflexivity|]. split; [exact Hl|].
    intros k Hk. rewrite znth_slice by lia. f_equal. symmetry. apply Z.mod_small. lia.
  - assert (Hw : (fi + cnt) mod a_n a = fi + cnt - a_n a).
    { destruct (Z_lt_le_dec (fi + cnt) (a_n a)).
      - rewrite Z.mod_small in Hge by lia. lia.
      - symmetry. apply Zmod_unique with (q := 1); lia. }
    rewrite Hw in *.
    assert (Hl1 : zlen (slice (a_slots a) fi (a_n a)) = a_n a - fi) by (apply slice_length; lia).
    assert (Hl2 : zlen (slice (a_slots a) 0 (fi + cnt - a_n a)) = fi + cnt - a_n a).
    { rewrite slice_length by lia. lia. }
    rewrite zlen_app, Hl1, Hl2.
    replace (a_n a - fi + (fi + cnt - a_n a)) with cnt by lia.
    destruct (Z.gtb_spec cnt cnt); [lia|].
    rewrite Z.sub_diag. cbn [Z.to_nat repeat]. rewrite app_nil_r.
    eexists; split; [reflexivity|]. split; [rewrite zlen_app; lia|].
    intros k Hk. destruct (Z_lt_le_dec k (a_n a - fi)).
    + rewrite znth_app_l by lia. rewrite znth_slice by lia. f_equal. symmetry. apply Z.mod_small. lia.
    + rewrite znth_app_r by lia. rewrite Hl1. rewrite znth_slice by lia. f_equal.
      apply Zmod_unique with (q := 1); lia.
Qed.

Lemma clear_old_spec ps : forall cur step, 0 <= cur -> 0 < step < TMAX -> cur + zlen ps * step < 2^32 ->
  zlen (clear_old ps cur step) = zlen ps /\
  forall k, 0 <= k < zlen ps ->
    znth NaN (clear_old ps cur step) k =
      (let p := znth zero_point ps k in if p_time p =? cur + k * step then p_val p else NaN).
Proof.
  induction ps as [|p r IH]; intros cur step Hc Hs Hb.
  - split; [reflexivity|]. intros k Hk. unfold zlen in Hk. cbn [length] in Hk. lia.
  - rewrite zlen_cons in *. pose proof (zlen_nonneg r).
    assert (Hu : ts_add cur step = cur + step) by (apply ts_add_nowrap; unfold TMAX in *; nia).
    cbn [clear_old]. rewrite Hu.
    destruct (IH (cur + step) step) as [IH1 IH2]; [lia|lia|nia|].
    split.
    + rewrite zlen_cons. lia.
    + intros k Hk. destruct (Z.eq_dec k 0) as [->|Hk0].
      * unfold znth. cbn. rewrite Z.add_0_r. reflexivity.
      * unfold znth in *. replace (Z.to_nat k) with (S (Z.to_nat (k - 1))) by lia.
        cbn [nth]. rewrite IH2 by lia. replace (cur + step + (k - 1) * step) with (cur + k * step) by ring.
        reflexivity.
Qed.

Lemma live_newest a b log e :
  0 < a_step a -> 0 < a_n a -> b mod a_step a = 0 ->
  Forall (fun p => good_time a (p_time p)) log -> good_time a e ->
  (let p := newest a b log (cls a b e) in if p_time p =? e then p_val p else NaN) = live log (period a) e.
Proof.
  intros HS HN Hb Hall [He1 He2]. unfold live. induction log as [|p r IH]; cbn [newest live_opt].
  - cbn [zero_point p_time]. destruct (Z.eqb_spec 0 e); [lia|reflexivity].
  - inversion Hall as [|? ? [Ht1 Ht2] Hr]; subst.
    assert (Hiff := cls_eq_iff a b (p_time p) e HS HN (sub_aligned a _ b HS Ht2 Hb) (sub_aligned a e b HS He2 Hb)).
    destruct (Z.eqb_spec (cls a b (p_time p)) (cls a b e)) as [E|E];
      destruct (Z.eqb_spec ((p_time p - e) mod period a) 0) as [E'|E']; try tauto.
    destruct (p_time p =? e); reflexivity.
Qed.

(** The read of an aligned window [f, u) of one archive is [live] of its log. *)
Theorem fetch_window_is_live a log f u :
  Rel a log -> good_time a f -> good_time a u -> f < u -> (u - f) / a_step a <= a_n a ->
  exists ps, fetch_raw a f u = Some ps /\
    zlen (clear_old ps f (a_step a)) = (u - f) / a_step a /\
    forall k, 0 <= k < (u - f) / a_step a ->
      znth NaN (clear_old ps f (a_step a)) k = live log (period a) (f + k * a_step a).
Proof.
  intros HRel Hf Hu Hfu Hcnt.
  destruct (fetch_raw_spec a log f u HRel Hf Hu Hfu Hcnt) as (ps & Hps & Hlen & Hnth).
  destruct (base_facts a log HRel) as [Hb1 Hb2].
  pose proof HRel as (Hwf & Hall & Hnil & Hne & Hsl). destruct Hwf as (HS & HN & HlenS & HR).
  destruct Hf as [Hf1 Hf2]. destruct Hu as [Hu1 Hu2].
  assert (Hdiv : u - f = ((u - f) / a_step a) * a_step a).
  { pose proof (sub_aligned a u f HS Hu2 Hf2). rewrite Z.mul_comm. apply Z_div_exact_full_2; lia. }
  exists ps. split; [exact Hps|].
  destruct (clear_old_spec ps f (a_step a)) as [Hc1 Hc2]; [lia| unfold TMAX in *; nia |unfold TMAX in *; rewrite Hlen; lia|].
  split; [lia|].
  intros k Hk. rewrite Hc2 by lia. rewrite Hnth by lia.
  assert (Hge : good_time a (f + k * a_step a)).
  { split; [unfold TMAX in *; nia|]. rewrite Z.mod_add by lia. assumption. }
  rewrite <- cls_shift by assumption.
  rewrite Hsl by (apply cls_range; assumption).
  apply live_newest; assumption.
Qed.
