From Coq Require Import Sorted.
From WT Require Import Base.Wrap Base.ListX Model.Time Model.Ring Model.Update Spec.LogSpec
  Proofs.TimeProofs Proofs.RingProofs Proofs.FetchProofs Proofs.UpdateProofs Proofs.ChainProofs
  Proofs.ArchiveUpdateProofs.

Definition le_time (p q : point) : Prop := p_time p <= p_time q.

Lemma ins_stable_in p l x : In x (ins_stable p l) -> x = p \/ In x l.
Proof.
  induction l as [|q r IH]; cbn [ins_stable In]; intros Hx; [destruct Hx; auto; contradiction|].
  destruct (p_time p <? p_time q); cbn [In] in Hx.
  - destruct Hx as [<-|[<-|Hx]]; auto.
  - destruct Hx as [<-|Hx]; [auto|]. apply IH in Hx. destruct Hx; auto.
Qed.

Lemma ins_stable_sorted p l : StronglySorted le_time l -> StronglySorted le_time (ins_stable p l).
Proof.
  induction 1 as [|q r Hs IH Hall]; cbn [ins_stable]; [repeat constructor|].
  destruct (Z.ltb_spec (p_time p) (p_time q)).
  - constructor; [constructor; assumption|]. constructor; [unfold le_time; lia|].
    eapply Forall_impl; [|exact Hall]. unfold le_time; intros; lia.
  - constructor; [assumption|]. apply Forall_forall. intros x Hx. apply ins_stable_in in Hx.
    destruct Hx as [->|Hx]; [unfold le_time; lia|]. rewrite Forall_forall in Hall. apply Hall. exact Hx.
Qed.

Lemma sort_points_sorted l : StronglySorted le_time (sort_points l).
Proof.
  unfold sort_points.
  assert (G : forall l acc, StronglySorted le_time acc ->
            StronglySorted le_time (fold_left (fun acc p => ins_stable p acc) l acc)).
  { induction l0 as [|p r IH]; cbn; intros; [assumption|]. apply IH. apply ins_stable_sorted. assumption. }
  apply G. constructor.
Qed.

Lemma sort_points_Forall (P : point -> Prop) l : Forall P l -> Forall P (sort_points l).
Proof.
  unfold sort_points. intros H.
  assert (G : forall l acc, Forall P l -> Forall P acc -> Forall P (fold_left (fun acc p => ins_stable p acc) l acc)).
  { induction l0 as [|p r IH]; cbn; intros acc Hl Hacc; [assumption|]. inversion Hl; subst.
    apply IH; [assumption|]. apply Forall_forall. intros x Hx. apply ins_stable_in in Hx.
    destruct Hx as [->|Hx]; [assumption|]. rewrite Forall_forall in Hacc. auto. }
  apply G; [assumption|constructor].
Qed.

Lemma filter_sorted (f : point -> bool) l : StronglySorted le_time l -> StronglySorted le_time (filter f l).
Proof.
  induction 1 as [|p r Hs IH Hall]; cbn [filter]; [constructor|].
  destruct (f p); [|assumption]. constructor; [assumption|].
  apply Forall_forall. intros x Hx. apply filter_In in Hx. rewrite Forall_forall in Hall. apply Hall. tauto.
Qed.

Lemma Forall_filter' {A} (P : A -> Prop) f l : Forall P l -> Forall P (filter f l).
Proof. intros H. apply Forall_forall. intros x Hx. apply filter_In in Hx. rewrite Forall_forall in H. apply H. tauto. Qed.

(** [extractPoints] on a sorted batch is a partition by age *)
Lemma split_last_le_sorted l maxAge : StronglySorted le_time l ->
  match split_last_le l maxAge with
  | Some (pre, suf) => suf = filter (fun p => maxAge <? p_time p) l /\ pre = filter (fun p => p_time p <=? maxAge) l
  | None => l = filter (fun p => maxAge <? p_time p) l /\ [] = filter (fun p => p_time p <=? maxAge) l
  end.
Proof.
  induction 1 as [|p r Hs IH Hall]; cbn [split_last_le filter]; [auto|].
  destruct (split_last_le r maxAge) as [[pre suf]|] eqn:E.
  - assert (Hp : p_time p <= maxAge).
    { assert (Hex : exists q, In q r /\ p_time q <= maxAge).
      { clear -E. revert pre suf E. induction r as [|q r IH]; cbn; intros pre suf E; [discriminate|].
        destruct (split_last_le r maxAge) as [[pre' suf']|] eqn:E'.
        - destruct (IH _ _ eq_refl) as (x & Hx & Hle). exists x; auto.
        - destruct (Z.leb_spec (p_time q) maxAge); [|discriminate]. exists q; auto. }
      destruct Hex as (q & Hq & Hle). rewrite Forall_forall in Hall. specialize (Hall q Hq). unfold le_time in Hall. lia. }
    destruct IH as [-> ->].
    destruct (Z.ltb_spec maxAge (p_time p)); [lia|]. destruct (Z.leb_spec (p_time p) maxAge); [|lia]. auto.
  - destruct IH as [Hf1 Hf2].
    destruct (Z.leb_spec (p_time p) maxAge); destruct (Z.ltb_spec maxAge (p_time p)); try lia.
    + rewrite <- Hf2. split; [exact Hf1|reflexivity].
    + rewrite <- Hf1, <- Hf2. auto.
Qed.

Lemma extract_points_sorted l now R : StronglySorted le_time l -> 0 < R <= now -> now < TMAX ->
  extract_points l now R =
  (filter (fun p => now - R <? p_time p) l, filter (fun p => p_time p <=? now - R) l).
Proof.
  intros Hs HR Hnow. unfold extract_points.
  assert (Hma : ts_add now (i32 (- R)) = now - R).
  { unfold TMAX in *. rewrite i32_small by lia. rewrite ts_add_nowrap by (unfold TMAX; lia). lia. }
  rewrite Hma. pose proof (split_last_le_sorted l (now - R) Hs) as H.
  destruct (split_last_le l (now - R)) as [[pre suf]|]; destruct H as [H1 H2].
  - rewrite H1, H2. reflexivity.
  - rewrite <- H1, <- H2. reflexivity.
Qed.
Print Assumptions extract_points_sorted.

(** * The loop of UpdatePointsForArchive refines the routing spec *)

Definition hdr_ok (now : Z) (r0 : arc) : Prop :=
  0 < a_step r0 /\ 0 < a_n r0 /\ period r0 < TMAX /\ period r0 <= now.

Lemma skipn_nth_cons {A} (l : list A) n x rest : skipn n l = x :: rest ->
  nth_error l n = Some x /\ skipn (S n) l = rest.
Proof.
  revert n; induction l as [|h t IH]; intros n H; [destruct n; discriminate|].
  destruct n; cbn in *; [injection H as -> ->; auto|]. apply IH. assumption.
Qed.

Theorem update_many_loop_refines F m xff arcs0 now id : forall todo i arcs logs pts,
  todo = skipn (Z.to_nat i) arcs0 -> 0 <= i ->
  layout_of arcs = layout_of arcs0 -> Forall (hdr_ok now) arcs0 -> now < TMAX ->
  Rel_all arcs logs -> wf_lay (layout_of arcs) ->
  StronglySorted le_time pts -> Forall (fun p => good_raw (layout_of arcs) (p_time p)) pts ->
  match spec_many_loop F m xff (layout_of arcs) (map period todo) i logs pts id now with
  | None => update_many_loop F m xff todo i arcs pts id now = UPanic
  | Some logs' => exists arcs', update_many_loop F m xff todo i arcs pts id now = UOk arcs' /\
                                Rel_all arcs' logs' /\ layout_of arcs' = layout_of arcs
  end.
Proof.
  induction todo as [|r0 rest IH]; intros i arcs logs pts Htodo Hi Hlay Hhdr Hnow HRA Hwf Hsorted Hgood;
    cbn [map spec_many_loop update_many_loop].
  - exists arcs. auto.
  - symmetry in Htodo. destruct (skipn_nth_cons _ _ _ _ Htodo) as [Hnth Hrest].
    assert (Hr0 : hdr_ok now r0).
    { rewrite Forall_forall in Hhdr. apply Hhdr. eapply nth_error_In. eassumption. }
    destruct Hr0 as (HS0 & HN0 & HP0 & HPn).
    assert (Hmr : max_retention r0 = period r0).
    { unfold max_retention, period. apply retention_nowrap; assumption. }
    assert (Hrest' : rest = skipn (Z.to_nat (i + 1)) arcs0).
    { rewrite <- Hrest. f_equal. lia. }
    unfold ArchiveIDBest.
    destruct (negb (id =? -1) && negb (id =? i)) eqn:Eskip.
    + apply IH; try assumption. lia.
    + assert (Hpp : 0 < period r0) by (unfold period; nia).
      rewrite Hmr. rewrite extract_points_sorted by (try assumption; lia).
      set (cur := filter (fun p => now - period r0 <? p_time p) pts).
      set (remaining := filter (fun p => p_time p <=? now - period r0) pts).
      assert (Hsr : StronglySorted le_time remaining) by (apply filter_sorted; assumption).
      assert (Hgr : Forall (fun p => good_raw (layout_of arcs) (p_time p)) remaining) by (apply Forall_filter'; assumption).
      destruct cur as [|c0 crest] eqn:Ecur.
      * apply IH; try assumption. lia.
      * rewrite <- Ecur.
        (* archive i of the current state *)
        assert (Hil : i < zlen arcs).
        { assert (Hl : length arcs = length arcs0).
          { rewrite <- (layout_length arcs), Hlay, layout_length. reflexivity. }
          assert (Z.to_nat i < length arcs0)%nat by (apply nth_error_Some; congruence).
          unfold zlen. lia. }
        destruct (get_arc_exists arcs i ltac:(unfold zlen in *; lia)) as [r Hr].
        pose proof (archive_update_many_refines F m xff arcs logs i r cur HRA Hwf ltac:(lia) Hr
                      ltac:(rewrite Ecur; discriminate) ltac:(apply Forall_filter'; assumption)) as Hau.
        destruct (spec_archive_update F m xff (layout_of arcs) logs i cur) as [logs1|].
        -- destruct Hau as (arcs1 & Hau1 & HRA1 & Hlay1). rewrite Hau1.
           specialize (IH (i + 1) arcs1 logs1 remaining Hrest' ltac:(lia)).
           rewrite Hlay1 in IH. apply IH; try assumption; try congruence.
        -- rewrite Hau. reflexivity.
Qed.
Print Assumptions update_many_loop_refines.
