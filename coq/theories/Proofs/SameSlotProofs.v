(** C03, last clause: which of several points of one batch wins a slot.  The batch is sorted by
    time with a stable sort and written in that order, and the last written point of a slot wins:
    among points with EQUAL timestamps that is the one supplied last; among points with different
    timestamps that fall into one slot it is the one with the later timestamp, however the batch
    was ordered; and nothing else about the order of the batch matters. *)
From Coq Require Import Sorted.
From WT Require Import Base.Wrap Base.ListX Model.Time Model.Ring Model.Update Spec.LogSpec
  Proofs.TimeProofs Proofs.RoutingProofs.

(** * the stable sort keeps the supplied order of the points of each timestamp *)
Definition at_time (t : Z) (p : point) : bool := p_time p =? t.

Lemma filter_none_above t l : Forall (fun q => t < p_time q) l -> filter (at_time t) l = [].
Proof.
  induction 1 as [|q r Hq Hr IH]; cbn [filter]; [reflexivity|]. unfold at_time at 1.
  destruct (Z.eqb_spec (p_time q) t); [lia|exact IH].
Qed.

Lemma ins_stable_filter p t : forall l, StronglySorted le_time l ->
  filter (at_time t) (ins_stable p l) = if at_time t p then filter (at_time t) l ++ [p] else filter (at_time t) l.
Proof.
  induction l as [|q r IH]; intros Hs; cbn [ins_stable].
  - cbn [filter app]. destruct (at_time t p); reflexivity.
  - inversion Hs as [|? ? Hs' Hall]; subst.
    destruct (Z.ltb_spec (p_time p) (p_time q)) as [Hlt|Hge].
    + cbn [filter]. destruct (at_time t p) eqn:Ep; [|reflexivity].
      unfold at_time in Ep. rewrite Z.eqb_eq in Ep.
      assert (Hnone : filter (at_time t) (q :: r) = []).
      { apply filter_none_above. constructor; [lia|]. eapply Forall_impl; [|exact Hall]. intros x Hx. unfold le_time in Hx. lia. }
      cbn [filter] in Hnone. rewrite Hnone. reflexivity.
    + cbn [filter]. rewrite (IH Hs'). destruct (at_time t q), (at_time t p); reflexivity.
Qed.

Lemma sort_points_from_filter t : forall l acc, StronglySorted le_time acc ->
  filter (at_time t) (fold_left (fun acc p => ins_stable p acc) l acc) = filter (at_time t) acc ++ filter (at_time t) l.
Proof.
  induction l as [|p r IH]; intros acc Hs; cbn [fold_left filter]; [rewrite app_nil_r; reflexivity|].
  rewrite IH by (apply ins_stable_sorted; exact Hs). rewrite ins_stable_filter by exact Hs.
  destruct (at_time t p); [rewrite <- app_assoc; reflexivity|reflexivity].
Qed.

(** stability: for every timestamp, the points of that timestamp appear in the supplied order *)
Theorem sort_points_stable t l : filter (at_time t) (sort_points l) = filter (at_time t) l.
Proof. unfold sort_points. rewrite sort_points_from_filter by constructor. reflexivity. Qed.

(** * a sorted list is determined by its per-timestamp subsequences *)
Lemma at_time_refl p : at_time (p_time p) p = true. Proof. unfold at_time. apply Z.eqb_refl. Qed.
Lemma at_time_neq t p : p_time p <> t -> at_time t p = false.
Proof. unfold at_time. intros H. destruct (Z.eqb_spec (p_time p) t); [contradiction|reflexivity]. Qed.
Lemma le_sorted_above p l : Forall (le_time p) l -> forall t, t < p_time p -> Forall (fun q => t < p_time q) l.
Proof. intros H t Ht. eapply Forall_impl; [|exact H]. intros x Hx. unfold le_time in Hx. lia. Qed.

Lemma sorted_determined : forall l1 l2, StronglySorted le_time l1 -> StronglySorted le_time l2 ->
  (forall t, filter (at_time t) l1 = filter (at_time t) l2) -> l1 = l2.
Proof.
  induction l1 as [|p r IH]; intros l2 H1 H2 Hf.
  - destruct l2 as [|q r2]; [reflexivity|]. specialize (Hf (p_time q)). cbn [filter] in Hf.
    rewrite at_time_refl in Hf. discriminate.
  - destruct l2 as [|q r2].
    + specialize (Hf (p_time p)). cbn [filter] in Hf. rewrite at_time_refl in Hf. discriminate.
    + inversion H1 as [|? ? H1' Hall1]; subst. inversion H2 as [|? ? H2' Hall2]; subst.
      assert (Htime : p_time p = p_time q).
      { destruct (Z.lt_total (p_time p) (p_time q)) as [Hlt|[He|Hgt]]; [|exact He|].
        - exfalso. specialize (Hf (p_time p)). cbn [filter] in Hf. rewrite at_time_refl in Hf.
          rewrite (at_time_neq (p_time p) q) in Hf by lia.
          rewrite (filter_none_above (p_time p) r2) in Hf by (apply (le_sorted_above q); [exact Hall2|lia]).
          discriminate.
        - exfalso. specialize (Hf (p_time q)). cbn [filter] in Hf. rewrite at_time_refl in Hf.
          rewrite (at_time_neq (p_time q) p) in Hf by lia.
          rewrite (filter_none_above (p_time q) r) in Hf by (apply (le_sorted_above p); [exact Hall1|lia]).
          discriminate. }
      assert (Hpq : p = q).
      { specialize (Hf (p_time p)). cbn [filter] in Hf. rewrite at_time_refl in Hf. rewrite Htime in Hf. rewrite at_time_refl in Hf. congruence. }
      subst q. f_equal. apply IH; try assumption.
      intros t. specialize (Hf t). cbn [filter] in Hf. destruct (at_time t p); [congruence|exact Hf].
Qed.

(** two batches that supply, for every timestamp, the same points in the same order are the same
    batch after sorting: the order of a batch matters only among equal timestamps *)
Theorem sort_points_order_irrelevant l1 l2 :
  (forall t, filter (at_time t) l1 = filter (at_time t) l2) -> sort_points l1 = sort_points l2.
Proof.
  intros H. apply sorted_determined; try apply sort_points_sorted.
  intros t. rewrite !sort_points_stable. apply H.
Qed.

Corollary update_order_irrelevant F m xff arcs l1 l2 id now :
  (forall t, filter (at_time t) l1 = filter (at_time t) l2) ->
  update_points_for_archive F m xff arcs l1 id now = update_points_for_archive F m xff arcs l2 id now.
Proof. intros H. unfold update_points_for_archive. rewrite (sort_points_order_irrelevant l1 l2 H). reflexivity. Qed.

(** * the last point of a slot wins *)
From WT Require Import Proofs.RingProofs Proofs.FetchProofs Proofs.UpdateProofs Proofs.ChainProofs
  Proofs.ArchiveUpdateProofs Proofs.FrameProofs.

Definition align1 (S : Z) (p : point) : point := mkPoint (interval_w S (p_time p)) (p_val p).

Lemma find_time_app a b e : find_time (a ++ b) e = match find_time a e with Some v => Some v | None => find_time b e end.
Proof. induction a as [|p r IH]; cbn [app find_time]; [reflexivity|]. destruct (p_time p =? e); [reflexivity|exact IH]. Qed.

Lemma interval_w_idem S t : 0 < S -> 0 <= t < 2^32 -> interval_w S (interval_w S t) = interval_w S t.
Proof.
  intros HS Ht. rewrite (interval_w_spec S t) by assumption.
  pose proof (mod_facts t S HS ltac:(lia)) as [Hm Hm'].
  rewrite interval_w_spec by (try assumption; lia). rewrite sub_mod_aligned by exact HS. lia.
Qed.

(** [alignPoints] merges a point into its predecessor only when both name the same slot with the
    later value: for "who wins slot [e]" it is the plain alignment of every point *)
Lemma align_points_from_last S : 0 < S -> forall pts acc prev first e,
  Forall (fun p => 0 <= p_time p < 2^32) pts ->
  (first = true \/ exists init lastp, acc = init ++ [lastp] /\ p_time lastp = prev /\ interval_w S prev = prev) ->
  find_time (rev (align_points_from S pts acc prev first)) e = find_time (rev (acc ++ map (align1 S) pts)) e.
Proof.
  intros HS. induction pts as [|p r IH]; intros acc prev first e Hr Hinv; cbn [align_points_from map]; [rewrite app_nil_r; reflexivity|].
  inversion Hr as [|? ? Hp Hr']; subst.
  destruct (negb first && (p_time p =? prev)) eqn:Ec.
  - apply andb_true_iff in Ec. destruct Ec as [Ef Et]. rewrite Z.eqb_eq in Et.
    destruct Hinv as [->|(init & lastp & -> & Hlp & Hal)]; [discriminate|].
    rewrite rev_app_distr. cbn [rev app]. rewrite rev_involutive.
    rewrite IH; [|exact Hr'|right; exists init, (mkPoint (p_time lastp) (p_val (mkPoint (interval_w S (p_time p)) (p_val p)))); cbn [p_time]; auto].
    cbn [p_val]. rewrite !rev_app_distr. cbn [rev app]. rewrite <- !app_assoc. cbn [app].
    rewrite !find_time_app. destruct (find_time (rev (map (align1 S) r)) e); [reflexivity|].
    cbn [find_time align1 p_time p_val]. rewrite Et, Hal, Hlp.
    destruct (prev =? e); reflexivity.
  - rewrite IH; [|exact Hr'|right; exists acc, (mkPoint (interval_w S (p_time p)) (p_val p)); cbn [p_time]; split; [reflexivity|split; [reflexivity|apply interval_w_idem; assumption]]].
    rewrite <- app_assoc. reflexivity.
Qed.

Lemma align_points_last S pts e : 0 < S -> Forall (fun p => 0 <= p_time p < 2^32) pts ->
  find_time (rev (align_points S pts)) e = find_time (rev (map (align1 S) pts)) e.
Proof. intros HS Hr. unfold align_points. rewrite align_points_from_last by auto. reflexivity. Qed.

(** [find_time (rev l) e] is the value of the LAST point of [l] with time [e] *)
Lemma find_time_rev_last l e p rest : l = rest ++ [p] -> 
  find_time (rev l) e = if p_time p =? e then Some (p_val p) else find_time (rev rest) e.
Proof. intros ->. rewrite rev_app_distr. reflexivity. Qed.

(** the batch handed to archive [a] (already sorted by time): inside one window every slot shows
    the last point of the batch aligned to it, every other slot is unchanged *)
Theorem same_slot_last_wins F m xff L logs a pts logs' f n e :
  spec_archive_update F m xff L logs a pts = Some logs' -> 0 <= a < zlen logs ->
  0 < lay_step L a -> 0 < n <= lay_n L a ->
  Forall (fun p => 0 <= p_time p < 2^32 /\ in_window f (lay_step L a) n (interval_w (lay_step L a) (p_time p))) pts ->
  in_window f (lay_step L a) n e ->
  live_opt (get_log logs' a) (lay_period L a) e =
  match find_time (rev (map (align1 (lay_step L a)) pts)) e with
  | Some v => Some v
  | None => live_opt (get_log logs a) (lay_period L a) e
  end.
Proof.
  intros Hsp Ha HS Hn Hpts He.
  destruct (spec_archive_update_frame F m xff L logs a pts logs' Hsp Ha) as (Hlog & _ & _).
  rewrite Hlog. unfold lay_period.
  rewrite (live_prepend_window (rev (align_points (lay_step L a) pts)) (get_log logs a) f (lay_step L a) n (lay_n L a)); try assumption.
  - rewrite align_points_last; [reflexivity|exact HS|]. eapply Forall_impl; [|exact Hpts]. intros p [H _]. exact H.
  - apply Forall_rev.
    apply (proj1 (align_points_props (fun t => in_window f (lay_step L a) n t) (lay_step L a) pts
             ltac:(eapply Forall_impl; [|exact Hpts]; intros p [_ H]; exact H))).
Qed.
Print Assumptions same_slot_last_wins.
