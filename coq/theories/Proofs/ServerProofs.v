(** Reading through a server is reading locally (Model/Server.v): the handler, given the query
    the client builds for (file, archive, from, until, now), performs exactly the local read with
    these arguments and answers with its encoded result; the client decodes what was encoded. *)
From WT Require Import Base.Wrap Base.ListX Base.Bytes Model.Time Model.Ring Model.Update Model.Codec Model.Handle
  Model.Text Model.Args Model.Query Model.Cmd Model.Wire Model.Server
  Proofs.TextProofs Proofs.QueryProofs Proofs.CodecProofs Proofs.WireProofs.

(** ** decimal integers: Atoi reads what %d prints *)
Lemma digits_in_fuel : forall fuel m acc, 0 <= m < 10 ^ Z.of_nat fuel ->
  digits_in 10 (digits_fuel fuel m acc) 0 = digits_in 10 acc m.
Proof.
  induction fuel as [|f IH]; intros m acc Hm.
  - cbn in Hm. assert (m = 0) by lia. subst. reflexivity.
  - cbn [digits_fuel].
    assert (Hd : 0 <= m mod 10 < 10) by (apply Z.mod_pos_bound; lia).
    assert (Hdig : digit_val (c0 + m mod 10) = Some (m mod 10)).
    { unfold digit_val, c0.
      replace ((48 <=? 48 + m mod 10) && (48 + m mod 10 <=? 57)) with true
        by (symmetry; apply andb_true_iff; split; apply Z.leb_le; lia).
      f_equal. lia. }
    destruct (m / 10 =? 0) eqn:E.
    + apply Z.eqb_eq in E. cbn [digits_in]. rewrite Hdig.
      replace (m mod 10 <? 10) with true by (symmetry; apply Z.ltb_lt; lia).
      f_equal. pose proof (Z.div_mod m 10 ltac:(lia)). lia.
    + rewrite IH.
      * cbn [digits_in]. rewrite Hdig.
        replace (m mod 10 <? 10) with true by (symmetry; apply Z.ltb_lt; lia).
        f_equal. pose proof (Z.div_mod m 10 ltac:(lia)). lia.
      * rewrite Nat2Z.inj_succ, Z.pow_succ_r in Hm by lia.
        split; [apply Z.div_pos; lia | apply Z.div_lt_upper_bound; lia].
Qed.

Definition is_digit_char (c : Z) : Prop := 48 <= c <= 57.

Lemma digits_fuel_head : forall fuel m d acc, is_digit_char d -> 0 <= m ->
  exists d' r, digits_fuel fuel m (d :: acc) = d' :: r /\ is_digit_char d'.
Proof.
  induction fuel as [|f IH]; intros m d acc Hd Hm.
  - exists d, acc. split; [reflexivity | exact Hd].
  - cbn [digits_fuel].
    assert (Hd' : is_digit_char (c0 + m mod 10)).
    { unfold is_digit_char, c0. pose proof (Z.mod_pos_bound m 10 ltac:(lia)). lia. }
    destruct (m / 10 =? 0).
    + eexists _, _. split; [reflexivity | exact Hd'].
    + apply IH; [exact Hd' | apply Z.div_pos; lia].
Qed.

Lemma digits_fuel_head0 fuel m : (0 < fuel)%nat -> 0 <= m ->
  exists d r, digits_fuel fuel m [] = d :: r /\ is_digit_char d.
Proof.
  intros Hf Hm. destruct fuel as [|f]; [lia|]. cbn [digits_fuel].
  assert (Hd' : is_digit_char (c0 + m mod 10)).
  { unfold is_digit_char, c0. pose proof (Z.mod_pos_bound m 10 ltac:(lia)). lia. }
  destruct (m / 10 =? 0).
  - eexists _, _. split; [reflexivity | exact Hd'].
  - apply digits_fuel_head; [exact Hd' | apply Z.div_pos; lia].
Qed.

Lemma print_nat_head m : 0 <= m -> exists d r, print_nat m = d :: r /\ is_digit_char d.
Proof. intros Hm. unfold print_nat. apply digits_fuel_head0; [lia | exact Hm]. Qed.

Lemma digits_in_print_nat m : 0 <= m < 2^64 -> digits_in 10 (print_nat m) 0 = Some m.
Proof.
  intros Hm. unfold print_nat. rewrite digits_in_fuel; [reflexivity|].
  change (Z.of_nat 20) with 20. split; [lia|]. assert (2^64 < 10^20) by (vm_compute; reflexivity). lia.
Qed.

Theorem atoi_print_int n : - 2^63 <= n < 2^63 -> atoi (print_int n) = Some n.
Proof.
  intros Hn. unfold print_int.
  destruct (n <? 0) eqn:E.
  - apply Z.ltb_lt in E. unfold atoi.
    change (45 =? 43) with false. change (45 =? 45) with true. cbv iota beta.
    remember (print_nat (- n)) as b eqn:Hb.
    destruct b as [|d r].
    { destruct (print_nat_head (- n) ltac:(lia)) as (d & r & Hp & _). congruence. }
    rewrite Hb. rewrite digits_in_print_nat by lia.
    replace (- n <=? 2 ^ 63) with true by (symmetry; apply Z.leb_le; lia).
    f_equal. lia.
  - apply Z.ltb_ge in E.
    destruct (print_nat_head n E) as (d & r & Hp & Hd). unfold atoi. rewrite Hp.
    unfold is_digit_char in Hd.
    replace (d =? 43) with false by (symmetry; apply Z.eqb_neq; lia).
    replace (d =? 45) with false by (symmetry; apply Z.eqb_neq; lia).
    cbv iota beta.
    rewrite <- Hp. rewrite digits_in_print_nat by lia.
    replace (n <? 2 ^ 63) with true by (symmetry; apply Z.ltb_lt; lia).
    reflexivity.
Qed.

(** ** the strings the client sends are byte strings without anything to escape in the number *)
Lemma digits_fuel_unreserved : forall fuel m acc, 0 <= m ->
  Forall (fun c => is_unreserved c = true) acc -> Forall (fun c => is_unreserved c = true) (digits_fuel fuel m acc).
Proof.
  induction fuel as [|f IH]; intros m acc Hm Hacc; [exact Hacc|].
  cbn [digits_fuel].
  assert (Hc : is_unreserved (c0 + m mod 10) = true).
  { unfold is_unreserved, is_alnum, c0. pose proof (Z.mod_pos_bound m 10 ltac:(lia)).
    replace ((48 <=? 48 + m mod 10) && (48 + m mod 10 <=? 57)) with true
      by (symmetry; apply andb_true_iff; split; apply Z.leb_le; lia). reflexivity. }
  destruct (m / 10 =? 0); [constructor; assumption|].
  apply IH; [apply Z.div_pos; lia | constructor; assumption].
Qed.

Lemma print_int_unreserved n : Forall (fun c => is_unreserved c = true) (print_int n).
Proof.
  unfold print_int, print_nat. destruct (n <? 0) eqn:E.
  - apply Z.ltb_lt in E. constructor; [reflexivity|]. apply digits_fuel_unreserved; [lia | constructor].
  - apply Z.ltb_ge in E. apply digits_fuel_unreserved; [lia | constructor].
Qed.

Lemma q_escape_unreserved s : Forall (fun c => is_unreserved c = true) s -> q_escape s = s.
Proof.
  induction 1 as [|c r Hc Hr IH]; [reflexivity|].
  unfold q_escape in *. cbn [flat_map]. unfold esc1 at 1. rewrite Hc. cbn [app]. now rewrite IH.
Qed.

Lemma unreserved_byte c : is_unreserved c = true -> byte c.
Proof.
  unfold is_unreserved, is_alnum, byte. intros H.
  repeat (apply orb_true_iff in H; destruct H as [H | H]);
    repeat (apply andb_true_iff in H; destruct H as [H ?]);
    repeat match goal with
           | X : (_ <=? _) = true |- _ => apply Z.leb_le in X
           | X : (_ =? _) = true |- _ => apply Z.eqb_eq in X
           end; lia.
Qed.

Lemma canon_bytes s t : parse_timestamp_canon s = Some t -> Forall byte s.
Proof.
  unfold parse_timestamp_canon.
  destruct s as [|y1 [|y2 [|y3 [|y4 [|h1 [|m1 [|m2 [|h2 [|d1 [|d2 [|tch [|hh1 [|hh2 [|k1 [|mi1 [|mi2 [|k2 [|s1 [|s2 [|zz [|extra rest]]]]]]]]]]]]]]]]]]]]];
    try discriminate.
  destruct ((h1 =? 45) && (h2 =? 45) && (tch =? 84) && (k1 =? 58) && (k2 =? 58) && (zz =? 90)) eqn:Ep; [|discriminate].
  repeat (apply andb_true_iff in Ep; destruct Ep as [Ep ?]).
  repeat match goal with X : (_ =? _) = true |- _ => apply Z.eqb_eq in X end. subst.
  unfold num4, num2, dig, is_digit.
  intros H.
  repeat match type of H with
         | context [if ?b then _ else _] => destruct b eqn:?; try discriminate
         end.
  repeat match goal with
         | X : (_ && _) = true |- _ => apply andb_true_iff in X; destruct X
         | X : (_ <=? _) = true |- _ => apply Z.leb_le in X
         end.
  repeat constructor; unfold byte; lia.
Qed.

Lemma timestamp_string_bytes t : 0 <= t < 2^32 -> Forall byte (timestamp_string t).
Proof. intros Ht. exact (canon_bytes _ _ (timestamp_roundtrip_canon t Ht)). Qed.

(** ** the query the client builds is the key/value list the handler reads *)
Definition view_form (file : list Z) (aid from until now : Z) : list (list Z * list Z) :=
  [(k_file, file); (k_retention, print_int aid); (k_from, timestamp_string from);
   (k_until, timestamp_string until); (k_now, timestamp_string now)].

Lemma view_query_is_build file aid from until now :
  view_query file aid from until now = build_query (view_form file aid from until now).
Proof.
  unfold view_query, view_form. cbn [build_query].
  rewrite (q_escape_unreserved (print_int aid)) by apply print_int_unreserved.
  repeat rewrite <- app_assoc. reflexivity.
Qed.

Ltac plain_key := split; [let Hk := fresh in intro Hk; vm_compute in Hk; discriminate | vm_compute; repeat constructor].

Lemma view_form_ok file aid from until now :
  Forall byte file -> 0 <= from < 2^32 -> 0 <= until < 2^32 -> 0 <= now < 2^32 ->
  Forall (fun kv => plain (fst kv) /\ Forall byte (snd kv)) (view_form file aid from until now).
Proof.
  intros Hf H1 H2 H3. unfold view_form.
  assert (Hpi : Forall byte (print_int aid))
    by (eapply Forall_impl; [|apply print_int_unreserved]; intros c Hc; exact (unreserved_byte c Hc)).
  repeat (apply Forall_cons; [split; cbn [fst snd]; [plain_key | first [assumption | apply timestamp_string_bytes; assumption]]|]).
  apply Forall_nil.
Qed.

Theorem handler_parses_the_clients_query file aid from until now :
  Forall byte file -> 0 <= from < 2^32 -> 0 <= until < 2^32 -> 0 <= now < 2^32 ->
  parse_query (view_query file aid from until now) = Some (view_form file aid from until now).
Proof.
  intros Hf H1 H2 H3. rewrite view_query_is_build.
  apply query_roundtrip; [apply view_form_ok; assumption | discriminate].
Qed.

(** ** remote view = local read *)
Theorem handle_view_is_local_read lookup file aid from until now :
  file <> [] -> Forall byte file -> - 2^63 <= aid < 2^63 ->
  0 <= from < 2^32 -> 0 <= until < 2^32 -> 0 <= now < 2^32 ->
  handle_view lookup (view_query file aid from until now) = respond (read_file (lookup file) aid from until now).
Proof.
  intros Hne Hf Ha H1 H2 H3. unfold handle_view.
  rewrite handler_parses_the_clients_query by assumption.
  unfold window_params.
  change (form_get (view_form file aid from until now) k_retention) with (print_int aid).
  change (form_get (view_form file aid from until now) k_file) with file.
  change (form_get (view_form file aid from until now) k_from) with (timestamp_string from).
  change (form_get (view_form file aid from until now) k_until) with (timestamp_string until).
  change (form_get (view_form file aid from until now) k_now) with (timestamp_string now).
  destruct (print_int aid) as [|c r] eqn:Ep.
  { exfalso. pose proof (atoi_print_int aid Ha) as Hx. rewrite Ep in Hx. discriminate. }
  rewrite <- Ep. rewrite atoi_print_int by exact Ha.
  destruct file as [|f0 fr]; [contradiction|].
  rewrite !timestamp_roundtrip by assumption. reflexivity.
Qed.

(** ... and the client gets exactly the local result when the file can be read (header and series
    well-formed, as they are for every file a history of updates can produce), the not-exist answer
    for a missing file, and an error otherwise *)
Theorem remote_view_is_local_view lookup file aid from until now :
  file <> [] -> Forall byte file -> - 2^63 <= aid < 2^63 ->
  0 <= from < 2^32 -> 0 <= until < 2^32 -> 0 <= now < 2^32 ->
  match read_file (lookup file) aid from until now with
  | RdNotExist => client_read (handle_view lookup (view_query file aid from until now)) = WNotExist
  | RdErr | RdPanic => client_read (handle_view lookup (view_query file aid from until now)) = WErr
  | RdOk h l =>
    forall hd, h_header h = Some hd -> wf_header hd -> Forall wf_series l -> length l = length (h_arcs hd) ->
    client_read (handle_view lookup (view_query file aid from until now)) = WOk hd l
  end.
Proof.
  intros Hne Hf Ha H1 H2 H3.
  rewrite handle_view_is_local_read by assumption.
  destruct (read_file (lookup file) aid from until now) as [| | |h l]; cbn [respond client_read]; try reflexivity.
  intros hd Hh Hw Hl Hn. rewrite Hh. cbn [client_read]. apply client_view_of_response; assumption.
Qed.

(** ** the same for sums *)
Definition sum_form (item pattern : list Z) (aid from until now : Z) : list (list Z * list Z) :=
  [(k_item, item); (k_pattern, pattern); (k_retention, print_int aid); (k_from, timestamp_string from);
   (k_until, timestamp_string until); (k_now, timestamp_string now)].

Lemma sum_query_is_build item pattern aid from until now :
  sum_query item pattern aid from until now = build_query (sum_form item pattern aid from until now).
Proof.
  unfold sum_query, sum_form. cbn [build_query].
  rewrite (q_escape_unreserved (print_int aid)) by apply print_int_unreserved.
  repeat rewrite <- app_assoc. reflexivity.
Qed.

Theorem handle_sum_is_local_sum F glob item pattern aid from until now :
  item <> [] -> pattern <> [] -> Forall byte item -> Forall byte pattern -> - 2^63 <= aid < 2^63 ->
  0 <= from < 2^32 -> 0 <= until < 2^32 -> 0 <= now < 2^32 ->
  handle_sum F glob (sum_query item pattern aid from until now) =
  respond (sum_files F (glob item pattern) aid from until now).
Proof.
  intros Hi Hp Hbi Hbp Ha H1 H2 H3. unfold handle_sum.
  rewrite sum_query_is_build.
  rewrite query_roundtrip; [| | discriminate].
  2:{ unfold sum_form.
      assert (Hpi : Forall byte (print_int aid))
        by (eapply Forall_impl; [|apply print_int_unreserved]; intros c Hc; exact (unreserved_byte c Hc)).
      repeat (apply Forall_cons; [split; cbn [fst snd]; [plain_key | first [assumption | apply timestamp_string_bytes; assumption]]|]).
      apply Forall_nil. }
  unfold window_params.
  change (form_get (sum_form item pattern aid from until now) k_item) with item.
  change (form_get (sum_form item pattern aid from until now) k_pattern) with pattern.
  change (form_get (sum_form item pattern aid from until now) k_retention) with (print_int aid).
  change (form_get (sum_form item pattern aid from until now) k_from) with (timestamp_string from).
  change (form_get (sum_form item pattern aid from until now) k_until) with (timestamp_string until).
  change (form_get (sum_form item pattern aid from until now) k_now) with (timestamp_string now).
  destruct item as [|i0 ir]; [contradiction|]. destruct pattern as [|p0 pr]; [contradiction|].
  destruct (print_int aid) as [|c r] eqn:Ep.
  { exfalso. pose proof (atoi_print_int aid Ha) as Hx. rewrite Ep in Hx. discriminate. }
  rewrite <- Ep. rewrite atoi_print_int by exact Ha.
  rewrite !timestamp_roundtrip by assumption. reflexivity.
Qed.

(** ** /view-raw *)
Definition view_raw_form (file : list Z) (aid : Z) : list (list Z * list Z) :=
  [(k_file, file); (k_retention, print_int aid)].

Theorem handle_view_raw_is_local_read lookup file aid :
  file <> [] -> Forall byte file -> - 2^63 <= aid < 2^63 ->
  handle_view_raw lookup (view_raw_query file aid) = respond_raw (read_raw (lookup file) aid).
Proof.
  intros Hne Hf Ha. unfold handle_view_raw.
  assert (Hq : view_raw_query file aid = build_query (view_raw_form file aid)).
  { unfold view_raw_query, view_raw_form. cbn [build_query].
    rewrite (q_escape_unreserved (print_int aid)) by apply print_int_unreserved.
    repeat rewrite <- app_assoc. reflexivity. }
  rewrite Hq. rewrite query_roundtrip; [| | discriminate].
  2:{ unfold view_raw_form.
      assert (Hpi : Forall byte (print_int aid))
        by (eapply Forall_impl; [|apply print_int_unreserved]; intros c Hc; exact (unreserved_byte c Hc)).
      repeat (apply Forall_cons; [split; cbn [fst snd]; [plain_key | assumption]|]). apply Forall_nil. }
  change (form_get (view_raw_form file aid) k_retention) with (print_int aid).
  change (form_get (view_raw_form file aid) k_file) with file.
  destruct (print_int aid) as [|c r] eqn:Ep.
  { exfalso. pose proof (atoi_print_int aid Ha) as Hx. rewrite Ep in Hx. discriminate. }
  rewrite <- Ep. rewrite atoi_print_int by exact Ha.
  destruct file as [|f0 fr]; [contradiction | reflexivity].
Qed.

Theorem remote_view_raw_is_local lookup file aid :
  file <> [] -> Forall byte file -> - 2^63 <= aid < 2^63 ->
  match read_raw (lookup file) aid with
  | RwNotExist => client_read_raw (handle_view_raw lookup (view_raw_query file aid)) = WNotExist
  | RwErr => client_read_raw (handle_view_raw lookup (view_raw_query file aid)) = WErr
  | RwOk h pl =>
    forall hd, h_header h = Some hd -> wf_header hd ->
               Forall (fun ps => Forall wf_point ps /\ zlen ps <= MaxInt32) pl -> length pl = length (h_arcs hd) ->
    client_read_raw (handle_view_raw lookup (view_raw_query file aid)) = WOk hd pl
  end.
Proof.
  intros Hne Hf Ha. rewrite handle_view_raw_is_local_read by assumption.
  destruct (read_raw (lookup file) aid) as [| |h pl]; cbn [respond_raw client_read_raw]; try reflexivity.
  intros hd Hh Hw Hl Hn. rewrite Hh. cbn [client_read_raw]. apply client_view_raw_of_response; assumption.
Qed.

(** ** the name lists of /files and /items *)
Lemma split_lines_line : forall n cur rest, ~ In 10 n ->
  split_lines (n ++ 10 :: rest) cur = drop_cr (rev cur ++ n) :: split_lines rest [].
Proof.
  induction n as [|c n IH]; intros cur rest Hn.
  - cbn [app split_lines]. change (10 =? 10) with true. cbv iota. now rewrite app_nil_r.
  - cbn [app split_lines].
    assert (c <> 10) by (intros ->; apply Hn; now left).
    replace (c =? 10) with false by (symmetry; now apply Z.eqb_neq).
    rewrite IH by (intros Hin; apply Hn; now right).
    cbn [rev]. now rewrite <- app_assoc.
Qed.

Lemma drop_cr_safe n : (forall r, n <> r ++ [13]) -> drop_cr n = n.
Proof.
  intros H. unfold drop_cr. destruct (rev n) as [|c r] eqn:E; [reflexivity|].
  destruct (Z.eq_dec c 13) as [->|Hc].
  - exfalso. apply (H (rev r)). rewrite <- (rev_involutive n), E. reflexivity.
  - destruct c as [|p|p]; try reflexivity.
    repeat (destruct p as [p|p|]; try reflexivity). congruence.
Qed.

Theorem names_roundtrip names : Forall line_safe names -> client_names names = names.
Proof.
  unfold client_names. induction 1 as [|n r [Hn Hcr] Hr IH]; [reflexivity|].
  cbn [names_body flat_map]. rewrite <- app_assoc. cbn [app].
  rewrite split_lines_line by exact Hn. cbn [rev app].
  rewrite drop_cr_safe by exact Hcr. f_equal. exact IH.
Qed.

(** finding K1: a name containing a line break does not survive *)
Theorem names_with_line_break_refuted : exists names, client_names names <> names.
Proof. exists [[98; 10; 99]]. vm_compute. discriminate. Qed.
