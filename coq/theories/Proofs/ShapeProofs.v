(** C04: the shape of a fetch result is the function [shape_spec] of layout, window and clock —
    for every archive id (named, best, out of range) and whatever the archives contain. *)
From WT Require Import Base.Wrap Base.ListX Base.Bytes Model.Time Model.Ring Model.Update Model.Codec Model.Handle Model.FileImage
  Spec.LogSpec Proofs.TimeProofs Proofs.RingProofs Proofs.FetchProofs Proofs.HostileProofs.

Lemma zlen_layout arcs : Z.of_nat (length (layout_of arcs)) = zlen arcs.
Proof. unfold layout_of, zlen. rewrite map_length. reflexivity. Qed.

(** named archive *)
Lemma shape_named arcs id a from until now :
  0 <= id -> nth_error arcs (Z.to_nat id) = Some a -> wf_arc a ->
  period a <= now -> now + 2 * a_step a < TMAX ->
  0 <= from < 2^32 -> 0 <= until < 2^32 -> from <= until ->
  shape_of (fetch_from_archive arcs id from until now) = Some (shape_spec (layout_of arcs) id from until now).
Proof.
  intros Hid Hnth Hwf Hp Hnow Hf Hu Hfu.
  pose proof (nth_error_range arcs id a Hid Hnth) as Hidr.
  pose proof (fetch_named_total arcs id a from until now Hid Hnth Hwf Hp Hnow Hf Hu Hfu) as Ht.
  unfold shape_spec. rewrite zlen_layout.
  destruct (Z.gtb_spec from until) as [|_]; [lia|].
  destruct (Z.eqb_spec id (-1)) as [|_]; [lia|]. cbn [negb andb].
  destruct (Z.ltb_spec id 0) as [|_]; [lia|]. destruct (Z.ltb_spec (zlen arcs - 1) id) as [|_]; [lia|]. cbn [orb].
  rewrite (layout_nth arcs _ a Hnth). fold (period a).
  destruct ((from >? now) || (until <? now - period a)) eqn:Ec.
  - rewrite Ht. reflexivity.
  - cbv zeta in Ht. destruct Ht as (vs & -> & Hl). cbn [shape_of s_from s_until s_step s_vals]. rewrite Hl.
    unfold win_until, win_from. reflexivity.
Qed.

(** the whole contract: error iff, no-series iff, bounds, step and count — a function of layout,
    window and clock only *)
Theorem fetch_shape arcs id from until now :
  arcs <> [] -> Forall wf_arc arcs ->
  Forall (fun a => period a <= now /\ now + 2 * a_step a < TMAX) arcs ->
  0 <= from < 2^32 -> 0 <= until < 2^32 ->
  shape_of (fetch_from_archive arcs id from until now) = Some (shape_spec (layout_of arcs) id from until now).
Proof.
  intros Hne Hwf Hdom Hf Hu.
  assert (Hlen1 : 1 <= zlen arcs) by (destruct arcs; [contradiction|rewrite zlen_cons; pose proof (zlen_nonneg arcs); lia]).
  assert (HnowT : now < TMAX).
  { destruct arcs as [|a0 r0]; [contradiction|]. inversion Hdom as [|? ? [_ Hd] _]; subst. inversion Hwf as [|? ? (HS & _) _]; subst. lia. }
  destruct (Z_lt_le_dec until from) as [Hgt|Hfu].
  { rewrite fetch_err_interval by lia. unfold shape_spec. destruct (Z.gtb_spec from until); [reflexivity|lia]. }
  destruct (Z_lt_le_dec id (-1)) as [Hlow|Hge].
  { rewrite fetch_err_archive by lia. unfold shape_spec. rewrite zlen_layout.
    destruct (Z.gtb_spec from until); [lia|]. destruct (Z.eqb_spec id (-1)); [lia|]. destruct (Z.ltb_spec id 0); [reflexivity|lia]. }
  destruct (Z_lt_le_dec id (zlen arcs)) as [Hin|Hout].
  2:{ rewrite fetch_err_archive by lia. unfold shape_spec. rewrite zlen_layout.
      destruct (Z.gtb_spec from until); [lia|]. destruct (Z.eqb_spec id (-1)); [lia|]. cbn [negb andb].
      destruct (Z.ltb_spec id 0); [reflexivity|]. destruct (Z.ltb_spec (zlen arcs - 1) id); [reflexivity|lia]. }
  assert (Hget : forall k, 0 <= k < zlen arcs -> exists a, nth_error arcs (Z.to_nat k) = Some a /\ wf_arc a /\ period a <= now /\ now + 2 * a_step a < TMAX).
  { intros k Hk. destruct (nth_error arcs (Z.to_nat k)) as [a|] eqn:E; [|apply nth_error_None in E; unfold zlen in *; lia].
    exists a. split; [reflexivity|]. pose proof (nth_error_In _ _ E) as Hi. rewrite Forall_forall in Hwf, Hdom.
    destruct (Hdom a Hi). auto. }
  destruct (Z.eq_dec id (-1)) as [->|Hnamed].
  - (* best archive *)
    destruct (Z_lt_le_dec now from) as [Hfut|Hnf].
    + (* wholly in the future: no series, whichever archive is picked *)
      set (rets := map period arcs).
      assert (Hrne : rets <> []) by (unfold rets; destruct arcs; [contradiction|discriminate]).
      assert (Hfetch : fetch_from_archive arcs ArchiveIDBest from until now = FNone).
      { unfold fetch_from_archive. destruct (Z.gtb_spec from until) as [|_]; [lia|].
        unfold ArchiveIDBest. rewrite Z.eqb_refl. cbn [negb andb orb].
        destruct (Z.ltb_spec (zlen arcs - 1) (-1)) as [|_]; [lia|].
        unfold find_best. rewrite find_best_from_spec by assumption. fold rets.
        pose proof (best_from_range rets 0 (ts_sub now from) Hrne) as Hr.
        assert (Hzl : zlen rets = zlen arcs) by (unfold rets; apply zlen_map).
        destruct (nth_error arcs (Z.to_nat (best_from rets 0 (ts_sub now from)))) as [r|] eqn:E.
        - destruct (Z.gtb_spec from now); [reflexivity|lia].
        - apply nth_error_None in E. unfold zlen in *. lia. }
      unfold ArchiveIDBest in Hfetch. rewrite Hfetch. cbn [shape_of].
      unfold shape_spec. rewrite zlen_layout. destruct (Z.gtb_spec from until); [lia|].
      rewrite Z.eqb_refl. cbn [negb andb orb]. destruct (Z.ltb_spec (zlen arcs - 1) (-1)); [lia|].
      rewrite map_period_layout. fold rets.
      pose proof (best_from_range rets 0 (now - from) Hrne) as Hr. unfold best_spec.
      assert (Hzl : zlen rets = zlen arcs) by (unfold rets; apply zlen_map).
      destruct (Hget (best_from rets 0 (now - from)) ltac:(lia)) as (a & Ea & _).
      rewrite (layout_nth arcs _ a Ea). destruct (Z.gtb_spec from now); [reflexivity|lia].
    + destruct (fetch_best_is_named arcs from until now Hne Hwf Hfu ltac:(lia) ltac:(lia)) as [Hidr Hbest].
      unfold ArchiveIDBest in Hbest. rewrite Hbest.
      set (id := best_spec (map period arcs) from now) in *.
      destruct (Hget id Hidr) as (a & Ea & Hwa & Hpa & Hda).
      rewrite (shape_named arcs id a from until now ltac:(lia) Ea Hwa Hpa Hda Hf Hu Hfu).
      f_equal. unfold shape_spec. rewrite zlen_layout.
      destruct (Z.gtb_spec from until); [lia|].
      rewrite Z.eqb_refl. cbn [negb andb orb]. destruct (Z.ltb_spec (zlen arcs - 1) (-1)); [lia|].
      rewrite map_period_layout. fold id.
      destruct (Z.eqb_spec id (-1)); [lia|]. cbn [negb andb].
      destruct (Z.ltb_spec id 0); [lia|]. destruct (Z.ltb_spec (zlen arcs - 1) id); [lia|]. reflexivity.
  - destruct (Hget id ltac:(lia)) as (a & Ea & Hwa & Hpa & Hda).
    apply (shape_named arcs id a from until now ltac:(lia) Ea Hwa Hpa Hda Hf Hu Hfu).
Qed.

(** the shape never depends on what has been stored: two handles with the same layout answer
    every fetch with the same shape — in particular an archive that was never written and a full one *)
Corollary fetch_shape_content_independent arcs1 arcs2 id from until now :
  layout_of arcs1 = layout_of arcs2 ->
  arcs1 <> [] -> Forall wf_arc arcs1 -> Forall wf_arc arcs2 ->
  Forall (fun a => period a <= now /\ now + 2 * a_step a < TMAX) arcs1 ->
  Forall (fun a => period a <= now /\ now + 2 * a_step a < TMAX) arcs2 ->
  0 <= from < 2^32 -> 0 <= until < 2^32 ->
  shape_of (fetch_from_archive arcs1 id from until now) = shape_of (fetch_from_archive arcs2 id from until now).
Proof.
  intros Hl Hne Hw1 Hw2 Hd1 Hd2 Hf Hu.
  assert (Hne2 : arcs2 <> []) by (intros ->; destruct arcs1; [contradiction|discriminate]).
  rewrite (fetch_shape arcs1) by assumption. rewrite (fetch_shape arcs2) by assumption. rewrite Hl. reflexivity.
Qed.
Print Assumptions fetch_shape.
