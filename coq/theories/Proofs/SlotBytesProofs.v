(** C05 / C06: the handle-level model (archives as lists of slots, Sync copies them to "the disk",
    a fresh Open reads the disk) is what happens to BYTES through the page buffer.  A slot write
    is a 12-byte write at [header length + 12 * (slots before) + 12 * index]; through the buffer
    it changes the viewed image to the image of the updated archives and leaves the disk alone;
    Flush makes the disk that image; Open on it returns the updated archives. *)
From WT Require Import Base.Wrap Base.ListX Base.Bytes Model.Time Model.Ring Model.Update Model.Codec Model.Handle
  Model.FileImage Model.FileBuf Proofs.CodecProofs Proofs.CodecTruncProofs Proofs.LayoutProofs Proofs.EntryProofs
  Proofs.ImageProofs Proofs.FileBufProofs.

(** replace [length d] bytes of [l] at offset [off] *)
Definition splice (l : list Z) (off : nat) (d : list Z) : list Z := firstn off l ++ d ++ skipn (off + length d) l.

Lemma splice_app_r l1 l2 off d : (length l1 <= off)%nat -> splice (l1 ++ l2) off d = l1 ++ splice l2 (off - length l1) d.
Proof.
  intros H. unfold splice. rewrite firstn_app, skipn_app.
  rewrite (firstn_all2 l1) by lia. rewrite (skipn_all2 l1) by lia. cbn [app].
  rewrite <- app_assoc. replace (off + length d - length l1)%nat with (off - length l1 + length d)%nat by lia. reflexivity.
Qed.
Lemma splice_app_l l1 l2 off d : (off + length d <= length l1)%nat -> splice (l1 ++ l2) off d = splice l1 off d ++ l2.
Proof.
  intros H. unfold splice. rewrite firstn_app, skipn_app.
  replace (off - length l1)%nat with 0%nat by lia. replace (off + length d - length l1)%nat with 0%nat by lia.
  cbn [firstn skipn]. rewrite app_nil_r, <- !app_assoc. reflexivity.
Qed.
Lemma splice_whole l d : length d = length l -> splice l 0 d = d.
Proof. intros H. unfold splice. cbn [firstn app Nat.add]. rewrite H, skipn_all, app_nil_r. reflexivity. Qed.

Lemma splice_slots : forall slots j p, (j < length slots)%nat ->
  splice (flat_map enc_point slots) (12 * j) (enc_point p) = flat_map enc_point (upd slots j p).
Proof.
  induction slots as [|q r IH]; intros j p Hj; [cbn in Hj; lia|].
  cbn [flat_map]. destruct j as [|j].
  - cbn [upd flat_map Nat.mul]. rewrite splice_app_l by (rewrite !enc_point_length; lia).
    rewrite splice_whole by (rewrite !enc_point_length; reflexivity). reflexivity.
  - cbn [upd flat_map]. rewrite splice_app_r by (rewrite enc_point_length; lia). f_equal.
    rewrite enc_point_length. replace (12 * S j - 12)%nat with (12 * j)%nat by lia. apply IH. cbn in Hj. lia.
Qed.

Definition nslots (arcs : list arc) : nat := fold_right (fun a acc => (length (a_slots a) + acc)%nat) 0%nat arcs.

Lemma enc_slots_length a : length (enc_slots a) = (12 * length (a_slots a))%nat.
Proof. pose proof (enc_slots_len a) as H. unfold zlen in H. lia. Qed.

Lemma splice_arcs : forall arcs a r j p, nth_error arcs a = Some r -> (j < length (a_slots r))%nat ->
  splice (flat_map enc_slots arcs) (12 * nslots (firstn a arcs) + 12 * j) (enc_point p) =
  flat_map enc_slots (upd arcs a (put_at r (Z.of_nat j) p)).
Proof.
  induction arcs as [|x rest IH]; intros a r j p Ha Hj; [destruct a; discriminate|].
  destruct a as [|a]; cbn [nth_error] in Ha.
  - injection Ha as ->. cbn [firstn nslots fold_right upd flat_map].
    replace (12 * 0 + 12 * j)%nat with (12 * j)%nat by lia.
    rewrite splice_app_l by (rewrite enc_slots_length, enc_point_length; lia). f_equal.
    unfold enc_slots at 1. rewrite splice_slots by exact Hj.
    unfold enc_slots, put_at, zupd. cbn [a_slots]. rewrite Nat2Z.id. reflexivity.
  - cbn [firstn nslots fold_right upd flat_map]. fold (nslots (firstn a rest)).
    rewrite splice_app_r by (rewrite enc_slots_length; lia). f_equal.
    rewrite enc_slots_length.
    replace (12 * (length (a_slots x) + nslots (firstn a rest)) + 12 * j - 12 * length (a_slots x))%nat
      with (12 * nslots (firstn a rest) + 12 * j)%nat by lia.
    apply IH; assumption.
Qed.

(** the byte offset of slot [j] of archive [a] in the file *)
Definition slot_offset (h : header) (arcs : list arc) (a j : nat) : nat :=
  (length (enc_header h) + 12 * nslots (firstn a arcs) + 12 * j)%nat.

(** a 12-byte write at a slot's offset turns the image of [arcs] into the image of the archives
    with that slot replaced ([putPointAt]) *)
Theorem image_slot_write h arcs a r j p : nth_error arcs a = Some r -> (j < length (a_slots r))%nat ->
  splice (encode_image h arcs) (slot_offset h arcs a j) (enc_point p) =
  encode_image h (set_arc arcs (Z.of_nat a) (put_at r (Z.of_nat j) p)).
Proof.
  intros Ha Hj. unfold encode_image, slot_offset, set_arc, zupd. rewrite Nat2Z.id.
  rewrite splice_app_r by lia. f_equal.
  replace (length (enc_header h) + 12 * nslots (firstn a arcs) + 12 * j - length (enc_header h))%nat
    with (12 * nslots (firstn a arcs) + 12 * j)%nat by lia.
  apply splice_arcs; assumption.
Qed.
Print Assumptions image_slot_write.

(** * through the page buffer *)
Definition bytes_view (b : fbuf) : list Z := map (fun k => view b (Z.of_nat k)) (seq 0 (length (fb_disk b))).

Lemma bytes_view_length b : length (bytes_view b) = length (fb_disk b).
Proof. unfold bytes_view. rewrite map_length, seq_length. reflexivity. Qed.
Lemma bytes_view_nth b k : (k < length (fb_disk b))%nat -> nth k (bytes_view b) 0 = view b (Z.of_nat k).
Proof.
  intros Hk. unfold bytes_view. set (f := fun k : nat => view b (Z.of_nat k)).
  rewrite (nth_indep _ 0 (f 0%nat)) by (rewrite map_length, seq_length; exact Hk).
  rewrite map_nth, seq_nth by exact Hk. reflexivity.
Qed.

Lemma splice_length l off d : (off + length d <= length l)%nat -> length (splice l off d) = length l.
Proof. intros H. unfold splice. rewrite !app_length, firstn_length, skipn_length. lia. Qed.
Lemma splice_nth l off d k : (off + length d <= length l)%nat ->
  nth k (splice l off d) 0 = if (off <=? k)%nat && (k <? off + length d)%nat then nth (k - off) d 0 else nth k l 0.
Proof.
  intros H. unfold splice.
  destruct (Nat.leb_spec off k) as [H1|H1]; cbn [andb].
  - rewrite app_nth2 by (rewrite firstn_length; lia). rewrite firstn_length, Nat.min_l by lia.
    destruct (Nat.ltb_spec k (off + length d)) as [H2|H2].
    + rewrite app_nth1 by lia. reflexivity.
    + rewrite app_nth2 by lia. rewrite nth_skipn'. f_equal. lia.
  - rewrite app_nth1 by (rewrite firstn_length; lia). apply nth_firstn'. exact H1.
Qed.

(** a write through the buffer splices the data into the viewed image; the disk is untouched *)
Theorem write_at_bytes_view b off data b' : fb_inv b -> 0 < zlen data ->
  write_at b off data = IoOk b' ->
  fb_inv b' /\ fb_disk b' = fb_disk b /\ bytes_view b' = splice (bytes_view b) (Z.to_nat off) data.
Proof.
  intros Hinv Hd Hw. pose proof (write_at_spec b off data Hinv Hd) as Hs. rewrite Hw in Hs.
  destruct Hs as (Hinv' & Hdisk & Hview). split; [exact Hinv'|]. split; [exact Hdisk|].
  assert (Hb : in_bounds b off (zlen data) = true).
  { unfold write_at in Hw. destruct (in_bounds b off (zlen data)); [reflexivity|discriminate]. }
  unfold in_bounds in Hb. apply andb_true_iff in Hb. destruct Hb as [Hb1 Hb2]. rewrite Z.leb_le in Hb1, Hb2.
  unfold fb_size, zlen in *.
  apply (nth_ext _ _ 0 0).
  - rewrite splice_length; rewrite !bytes_view_length; [congruence|lia].
  - intros k Hk. rewrite bytes_view_length, Hdisk in Hk.
    rewrite bytes_view_nth by (rewrite Hdisk; exact Hk).
    rewrite splice_nth by (rewrite bytes_view_length; lia).
    rewrite Hview by lia.
    destruct (Z.leb_spec off (Z.of_nat k)); destruct (Z.ltb_spec (Z.of_nat k) (off + Z.of_nat (length data)));
      destruct (Nat.leb_spec (Z.to_nat off) k); destruct (Nat.ltb_spec k (Z.to_nat off + length data)); cbn [andb]; try lia;
      first [ unfold znth; f_equal; lia | symmetry; apply bytes_view_nth; exact Hk ].
Qed.

(** Flush makes the disk the viewed image *)
Theorem flush_disk_bytes b : fb_inv b -> fb_disk (flush b) = bytes_view b.
Proof.
  intros Hinv. apply (nth_ext _ _ 0 0).
  - rewrite bytes_view_length. pose proof (flush_size b) as H. unfold fb_size, zlen in H. lia.
  - intros k Hk. pose proof (flush_size b) as Hs. unfold fb_size, zlen in Hs.
    rewrite bytes_view_nth by lia.
    pose proof (flush_disk_is_view b Hinv (Z.of_nat k) ltac:(unfold fb_size, zlen; lia)) as H.
    unfold znth in H. rewrite Nat2Z.id in H. exact H.
Qed.

Lemma nslots_firstn : forall arcs a r, nth_error arcs a = Some r ->
  (nslots (firstn a arcs) + length (a_slots r) <= nslots arcs)%nat.
Proof.
  induction arcs as [|x rest IH]; intros a r Ha; [destruct a; discriminate|].
  destruct a as [|a]; cbn [nth_error] in Ha.
  - injection Ha as ->. cbn [firstn nslots fold_right]. lia.
  - cbn [firstn nslots fold_right]. fold (nslots (firstn a rest)). fold (nslots rest). specialize (IH a r Ha). lia.
Qed.
Lemma flat_enc_slots_length arcs : length (flat_map enc_slots arcs) = (12 * nslots arcs)%nat.
Proof.
  induction arcs as [|x rest IH]; [reflexivity|]. cbn [flat_map nslots fold_right]. fold (nslots rest).
  rewrite app_length, enc_slots_length, IH. lia.
Qed.

(** C05, composed: a slot write through the buffer is [putPointAt] on the archives; the disk keeps
    the last flushed image; Flush then Open gives back exactly the updated archives *)
Theorem slot_write_through_buffer b h arcs a r j p :
  fb_inv b -> bytes_view b = encode_image h arcs ->
  nth_error arcs a = Some r -> (j < length (a_slots r))%nat ->
  exists b', write_at b (Z.of_nat (slot_offset h arcs a j)) (enc_point p) = IoOk b' /\
             fb_inv b' /\ fb_disk b' = fb_disk b /\
             bytes_view b' = encode_image h (set_arc arcs (Z.of_nat a) (put_at r (Z.of_nat j) p)).
Proof.
  intros Hinv Hview Ha Hj.
  assert (Hd : 0 < zlen (enc_point p)) by (unfold zlen; rewrite enc_point_length; lia).
  assert (Hsize : fb_size b = zlen (encode_image h arcs)).
  { unfold fb_size, zlen. rewrite <- Hview, bytes_view_length. reflexivity. }
  assert (Hfit : (slot_offset h arcs a j + 12 <= length (encode_image h arcs))%nat).
  { unfold slot_offset, encode_image. rewrite app_length, flat_enc_slots_length.
    pose proof (nslots_firstn arcs a r Ha). lia. }
  pose proof (write_at_spec b (Z.of_nat (slot_offset h arcs a j)) (enc_point p) Hinv Hd) as Hs.
  destruct (write_at b (Z.of_nat (slot_offset h arcs a j)) (enc_point p)) as [b'|] eqn:Ew.
  - exists b'. split; [reflexivity|].
    destruct (write_at_bytes_view b _ _ b' Hinv Hd Ew) as (Hi' & Hdk & Hbv).
    split; [exact Hi'|]. split; [exact Hdk|].
    rewrite Hbv, Hview, Nat2Z.id. apply image_slot_write; assumption.
  - exfalso. apply Hs. rewrite Hsize. unfold zlen. rewrite enc_point_length. lia.
Qed.
Print Assumptions slot_write_through_buffer.

Theorem flush_then_open b h arcs :
  fb_inv b -> bytes_view b = encode_image h arcs ->
  wf_header h -> 0 < h_count h -> matches (h_arcs h) arcs ->
  open_image (fb_disk (flush b)) = Some (h, arcs).
Proof. intros Hinv Hview Hwf Hk Hm. rewrite flush_disk_bytes by exact Hinv. rewrite Hview. apply open_image_encode; assumption. Qed.
Print Assumptions flush_then_open.

(** a slot read through the buffer returns the stored point *)
Theorem slot_read_through_buffer b h arcs a r j :
  fb_inv b -> bytes_view b = encode_image h arcs ->
  nth_error arcs a = Some r -> (j < length (a_slots r))%nat ->
  exists b', read_at b (Z.of_nat (slot_offset h arcs a j)) 12 = IoOk (b', enc_point (nth j (a_slots r) zero_point)) /\
             fb_inv b' /\ fb_disk b' = fb_disk b /\ bytes_view b' = bytes_view b.
Proof.
  intros Hinv Hview Ha Hj.
  assert (Hsize : fb_size b = zlen (encode_image h arcs)).
  { unfold fb_size, zlen. rewrite <- Hview, bytes_view_length. reflexivity. }
  assert (Hfit : (slot_offset h arcs a j + 12 <= length (encode_image h arcs))%nat).
  { unfold slot_offset, encode_image. rewrite app_length, flat_enc_slots_length.
    pose proof (nslots_firstn arcs a r Ha). lia. }
  pose proof (read_at_spec b (Z.of_nat (slot_offset h arcs a j)) 12 Hinv ltac:(lia)) as Hs.
  destruct (read_at b (Z.of_nat (slot_offset h arcs a j)) 12) as [[b' data]|] eqn:Er.
  - destruct Hs as (Hi' & Hdk & Hdirty & Hv & Hdata). exists b'.
    assert (Hbv : bytes_view b' = bytes_view b).
    { unfold bytes_view. rewrite Hdk. apply map_ext_in. intros k Hk. apply in_seq in Hk. apply Hv. unfold fb_size, zlen. lia. }
    split; [|auto]. f_equal. f_equal. rewrite Hdata.
    (* the 12 viewed bytes at the slot's offset are the encoding of the slot: write it back and compare *)
    set (q := nth j (a_slots r) zero_point).
    pose proof (image_slot_write h arcs a r j q Ha Hj) as Hw.
    assert (Hsame : set_arc arcs (Z.of_nat a) (put_at r (Z.of_nat j) q) = arcs).
    { unfold set_arc, put_at. unfold zupd. rewrite !Nat2Z.id.
      assert (Hr : mkArc (a_step r) (a_n r) (upd (a_slots r) j q) = r).
      { destruct r as [st n sl]. cbn [a_step a_n a_slots] in *. f_equal. unfold q.
        clear - Hj. revert j Hj. induction sl as [|x xs IH]; intros j Hj; [cbn in Hj; lia|].
        destruct j; cbn [upd nth]; [reflexivity|]. f_equal. apply IH. cbn in Hj. lia. }
      rewrite Hr. clear - Ha. revert a Ha. induction arcs as [|x xs IH]; intros a Ha; [destruct a; discriminate|].
      destruct a; cbn [nth_error upd] in *; [congruence|]. f_equal. apply IH. exact Ha. }
    rewrite Hsame in Hw.
    apply (nth_ext _ _ 0 0); [rewrite map_length, seq_length, enc_point_length; reflexivity|].
    intros k Hk. rewrite map_length, seq_length in Hk. change (Z.to_nat 12) with 12%nat in *.
    set (f := fun k : nat => view b (Z.of_nat (slot_offset h arcs a j) + Z.of_nat k)).
    rewrite (nth_indep _ 0 (f 0%nat)) by (rewrite map_length, seq_length; exact Hk).
    rewrite map_nth, seq_nth by exact Hk. unfold f. cbn [Nat.add].
    replace (Z.of_nat (slot_offset h arcs a j) + Z.of_nat k) with (Z.of_nat (slot_offset h arcs a j + k)) by lia.
    rewrite <- bytes_view_nth by (rewrite <- bytes_view_length, Hview; lia). rewrite Hview.
    rewrite <- Hw at 1. rewrite splice_nth by (rewrite enc_point_length; lia). rewrite enc_point_length.
    destruct (Nat.leb_spec (slot_offset h arcs a j) (slot_offset h arcs a j + k)); [|lia].
    destruct (Nat.ltb_spec (slot_offset h arcs a j + k) (slot_offset h arcs a j + 12)); [|lia]. cbn [andb].
    f_equal. lia.
  - exfalso. apply Hs. rewrite Hsize. unfold zlen. lia.
Qed.
Print Assumptions slot_read_through_buffer.
