From WT Require Import Base.Wrap Base.ListX Model.Text.

(** * the calendar: all 49 711 days a uint32 timestamp can name *)
Definition day_ok (z : Z) : bool :=
  let '(y, m, d) := civil_from_days z in
  (days_from_civil y m d =? z) && (1 <=? m) && (m <=? 12) && (1 <=? d) && (d <=? days_in y m)
  && (1970 <=? y) && (y <=? 2106).

Fixpoint all_from (fuel : nat) (z : Z) : bool :=
  match fuel with O => true | S f => day_ok z && all_from f (z + 1) end.

Lemma all_from_spec fuel : forall z, all_from fuel z = true ->
  forall k, z <= k < z + Z.of_nat fuel -> day_ok k = true.
Proof.
  induction fuel as [|f IH]; intros z H k Hk; [lia|].
  cbn [all_from] in H. apply andb_true_iff in H. destruct H as [H0 Hr].
  destruct (Z.eq_dec k z) as [->|Hne]; [assumption|]. apply (IH (z + 1) Hr). lia.
Qed.

Lemma days_sweep : all_from 49711 0 = true.
Proof. vm_compute. reflexivity. Qed.

Lemma day_ok_all k : 0 <= k < 49711 -> day_ok k = true.
Proof.
  intros. assert (E : Z.of_nat 49711 = 49711) by (vm_compute; reflexivity).
  apply (all_from_spec 49711 0 days_sweep). rewrite E. lia.
Qed.

(** two- and four-digit fields parse back *)
Lemma num2_two n : 0 <= n < 100 -> match two n with [a; b] => num2 a b = Some n | _ => False end.
Proof.
  intros. unfold two, num2, dig, is_digit, c0.
  assert (H1 : (48 <=? 48 + n / 10) && (48 + n / 10 <=? 57) = true) by lia.
  assert (H2 : (48 <=? 48 + n mod 10) && (48 + n mod 10 <=? 57) = true) by lia.
  rewrite H1, H2. f_equal. lia.
Qed.
Lemma num4_four n : 0 <= n < 10000 ->
  match four n with [a; b; c; d] => num4 a b c d = Some n | _ => False end.
Proof.
  intros. unfold four, num4, num2, dig, is_digit, c0.
  assert (H1 : (48 <=? 48 + n / 1000) && (48 + n / 1000 <=? 57) = true) by lia.
  assert (H2 : (48 <=? 48 + n / 100 mod 10) && (48 + n / 100 mod 10 <=? 57) = true) by lia.
  assert (H3 : (48 <=? 48 + n / 10 mod 10) && (48 + n / 10 mod 10 <=? 57) = true) by lia.
  assert (H4 : (48 <=? 48 + n mod 10) && (48 + n mod 10 <=? 57) = true) by lia.
  rewrite H1, H2, H3, H4. f_equal. lia.
Qed.

(** C19: every 32-bit timestamp prints to a string that parses back to it *)
Theorem timestamp_roundtrip_canon t : 0 <= t < 2^32 -> parse_timestamp_canon (timestamp_string t) = Some t.
Proof.
  intros Ht.
  assert (Hd : 0 <= t / 86400 < 49711) by lia.
  pose proof (day_ok_all _ Hd) as Hok. unfold day_ok in Hok.
  unfold timestamp_string. destruct (civil_from_days (t / 86400)) as [[y m] d] eqn:Ec.
  rewrite !andb_true_iff in Hok. destruct Hok as ((((((Hdc & Hm1) & Hm2) & Hd1) & Hd2) & Hy1) & Hy2).
  rewrite Z.eqb_eq in Hdc. rewrite Z.leb_le in Hm1, Hm2, Hd1, Hd2, Hy1, Hy2.
  assert (Hdi : days_in y m <= 31).
  { unfold days_in. destruct (m =? 2); [destruct (is_leap y); lia|]. destruct ((m =? 4) || (m =? 6) || (m =? 9) || (m =? 11)); lia. }
  set (s := t mod 86400).
  assert (Hs : 0 <= s < 86400) by (unfold s; lia).
  pose proof (num4_four y ltac:(lia)) as Hy. pose proof (num2_two m ltac:(lia)) as Hm.
  pose proof (num2_two d ltac:(lia)) as Hdd. pose proof (num2_two (s / 3600) ltac:(lia)) as Hh.
  pose proof (num2_two (s / 60 mod 60) ltac:(lia)) as Hmi. pose proof (num2_two (s mod 60) ltac:(lia)) as Hss.
  unfold four, two in *. cbn [app]. unfold parse_timestamp_canon.
  cbn [Z.eqb andb]. rewrite Hy, Hm, Hdd, Hh, Hmi, Hss.
  assert (Hchk : (1 <=? m) && (m <=? 12) && (1 <=? d) && (d <=? days_in y m) && (s / 3600 <? 24)
                 && (s / 60 mod 60 <? 60) && (s mod 60 <? 60) = true) by lia.
  rewrite Hchk. rewrite Hdc.
  assert (Hval : t / 86400 * 86400 + s / 3600 * 3600 + s / 60 mod 60 * 60 + s mod 60 = t) by (unfold s; lia).
  rewrite Hval. assert (Hr : (0 <=? t) && (t <? 2^32) = true) by lia. rewrite Hr. reflexivity.
Qed.


(** the printed form is already canonical: normalisation leaves it alone *)
Lemma normalize_canonical t : normalize_ts (timestamp_string t) = Some (timestamp_string t).
Proof.
  unfold timestamp_string. destruct (civil_from_days (t / 86400)) as [[y m] d].
  set (s := t mod 86400). unfold four, two. cbn [app]. unfold normalize_ts.
  assert (Hb : is_digit (c0 + s / 3600 mod 10) = true) by (unfold is_digit, c0; lia).
  rewrite Hb. rewrite andb_false_r. cbn [app]. reflexivity.
Qed.

Theorem timestamp_roundtrip t : 0 <= t < 2^32 -> parse_timestamp (timestamp_string t) = Some t.
Proof.
  intros Ht. unfold parse_timestamp. rewrite normalize_canonical. apply timestamp_roundtrip_canon. exact Ht.
Qed.
Print Assumptions timestamp_roundtrip.

(** * exactness: an accepted timestamp string IS the printed form of the value returned *)
(** every valid date of the range maps to a day number that maps back to it *)
Definition date_ok (y m d : Z) : bool :=
  let z := days_from_civil y m d in
  negb ((0 <=? z) && (z <? 49711)) ||
  (let '(y', m', d') := civil_from_days z in (y' =? y) && (m' =? m) && (d' =? d)).

Fixpoint all_days (fuel : nat) (y m d : Z) : bool :=
  match fuel with O => true | S f => date_ok y m d && all_days f y m (d + 1) end.
Fixpoint all_months (fuel : nat) (y m : Z) : bool :=
  match fuel with O => true | S f => all_days (Z.to_nat (days_in y m)) y m 1 && all_months f y (m + 1) end.
Fixpoint all_years (fuel : nat) (y : Z) : bool :=
  match fuel with O => true | S f => all_months 12 y 1 && all_years f (y + 1) end.

Lemma all_days_spec : forall fuel y m d, all_days fuel y m d = true -> forall k, d <= k < d + Z.of_nat fuel -> date_ok y m k = true.
Proof.
  induction fuel as [|f IH]; intros y m d H k Hk; [lia|]. cbn [all_days] in H. apply andb_true_iff in H. destruct H as [H0 Hr].
  destruct (Z.eq_dec k d) as [->|]; [exact H0|]. apply (IH y m (d + 1) Hr). lia.
Qed.
Lemma all_months_spec : forall fuel y m, all_months fuel y m = true -> forall k, m <= k < m + Z.of_nat fuel ->
  all_days (Z.to_nat (days_in y k)) y k 1 = true.
Proof.
  induction fuel as [|f IH]; intros y m H k Hk; [lia|]. cbn [all_months] in H. apply andb_true_iff in H. destruct H as [H0 Hr].
  destruct (Z.eq_dec k m) as [->|]; [exact H0|]. apply (IH y (m + 1) Hr). lia.
Qed.
Lemma all_years_spec : forall fuel y, all_years fuel y = true -> forall k, y <= k < y + Z.of_nat fuel -> all_months 12 k 1 = true.
Proof.
  induction fuel as [|f IH]; intros y H k Hk; [lia|]. cbn [all_years] in H. apply andb_true_iff in H. destruct H as [H0 Hr].
  destruct (Z.eq_dec k y) as [->|]; [exact H0|]. apply (IH (y + 1) Hr). lia.
Qed.

Lemma dates_sweep : all_years 138 1969 = true.
Proof. vm_compute. reflexivity. Qed.

Lemma date_roundtrip y m d : 1969 <= y <= 2106 -> 1 <= m <= 12 -> 1 <= d <= days_in y m ->
  0 <= days_from_civil y m d < 49711 -> civil_from_days (days_from_civil y m d) = (y, m, d).
Proof.
  intros Hy Hm Hd Hz.
  pose proof (all_years_spec 138 1969 dates_sweep y ltac:(lia)) as H1.
  pose proof (all_months_spec 12 y 1 H1 m ltac:(lia)) as H2.
  assert (Hdi : 0 <= days_in y m) by (unfold days_in; destruct (m =? 2); [destruct (is_leap y); lia|]; destruct ((m =? 4) || (m =? 6) || (m =? 9) || (m =? 11)); lia).
  pose proof (all_days_spec _ y m 1 H2 d ltac:(lia)) as H3.
  unfold date_ok in H3. destruct ((0 <=? days_from_civil y m d) && (days_from_civil y m d <? 49711)) eqn:E; [|lia].
  cbn [negb orb] in H3. destruct (civil_from_days (days_from_civil y m d)) as [[y' m'] d'].
  rewrite !andb_true_iff, !Z.eqb_eq in H3. destruct H3 as [[-> ->] ->]. reflexivity.
Qed.

Lemma dig_char c x : dig c = Some x -> c = c0 + x /\ 0 <= x <= 9.
Proof. unfold dig, is_digit, c0. destruct ((48 <=? c) && (c <=? 57)) eqn:E; [|discriminate]. intros [= <-]. lia. Qed.
Lemma num2_digits a b n : num2 a b = Some n -> a = c0 + n / 10 /\ b = c0 + n mod 10 /\ 0 <= n < 100.
Proof.
  unfold num2. destruct (dig a) as [x|] eqn:Ea; [|discriminate]. destruct (dig b) as [y|] eqn:Eb; [|discriminate].
  intros [= <-]. destruct (dig_char _ _ Ea) as [-> Hx]. destruct (dig_char _ _ Eb) as [-> Hy].
  assert (E1 : (x * 10 + y) / 10 = x) by lia. assert (E2 : (x * 10 + y) mod 10 = y) by lia. rewrite E1, E2. repeat split; lia.
Qed.
Lemma num2_chars a b n : num2 a b = Some n -> two n = [a; b] /\ 0 <= n < 100.
Proof. intros H. destruct (num2_digits _ _ _ H) as (-> & -> & Hn). split; [reflexivity|exact Hn]. Qed.
Lemma num4_chars a b c d n : num4 a b c d = Some n -> four n = [a; b; c; d] /\ 0 <= n < 10000.
Proof.
  unfold num4. destruct (num2 a b) as [x|] eqn:Ea; [|discriminate]. destruct (num2 c d) as [y|] eqn:Ec; [|discriminate].
  intros [= <-]. destruct (num2_digits _ _ _ Ea) as (-> & -> & Hx). destruct (num2_digits _ _ _ Ec) as (-> & -> & Hy).
  unfold four. split; [|lia].
  assert (E1 : (x * 100 + y) / 1000 = x / 10) by lia. assert (E2 : (x * 100 + y) / 100 mod 10 = x mod 10) by lia.
  assert (E3 : (x * 100 + y) / 10 mod 10 = y / 10) by lia. assert (E4 : (x * 100 + y) mod 10 = y mod 10) by lia.
  rewrite E1, E2, E3, E4. reflexivity.
Qed.

Theorem parse_timestamp_canon_exact s t : parse_timestamp_canon s = Some t -> timestamp_string t = s /\ 0 <= t < 2^32.
Proof.
  unfold parse_timestamp_canon.
  destruct s as [|y1 [|y2 [|y3 [|y4 [|h1 [|m1 [|m2 [|h2 [|d1 [|d2 [|tch [|hh1 [|hh2 [|k1 [|mi1 [|mi2 [|k2 [|s1 [|s2 [|zz [|extra rest]]]]]]]]]]]]]]]]]]]]]; try discriminate.
  destruct ((h1 =? 45) && (h2 =? 45) && (tch =? 84) && (k1 =? 58) && (k2 =? 58) && (zz =? 90)) eqn:Esep; [|discriminate].
  rewrite !andb_true_iff, !Z.eqb_eq in Esep. destruct Esep as [[[[[-> ->] ->] ->] ->] ->].
  destruct (num4 y1 y2 y3 y4) as [y|] eqn:Ey; [|discriminate]. destruct (num2 m1 m2) as [m|] eqn:Em; [|discriminate].
  destruct (num2 d1 d2) as [d|] eqn:Ed; [|discriminate]. destruct (num2 hh1 hh2) as [hh|] eqn:Eh; [|discriminate].
  destruct (num2 mi1 mi2) as [mi|] eqn:Emi; [|discriminate]. destruct (num2 s1 s2) as [ss|] eqn:Es; [|discriminate].
  destruct ((1 <=? m) && (m <=? 12) && (1 <=? d) && (d <=? days_in y m) && (hh <? 24) && (mi <? 60) && (ss <? 60)) eqn:Erng; [|discriminate].
  rewrite !andb_true_iff in Erng. destruct Erng as [[[[[[R1 R2] R3] R4] R5] R6] R7].
  rewrite Z.leb_le in R1, R2, R3, R4. rewrite Z.ltb_lt in R5, R6, R7.
  set (z := days_from_civil y m d).
  destruct ((0 <=? z * 86400 + hh * 3600 + mi * 60 + ss) && (z * 86400 + hh * 3600 + mi * 60 + ss <? 2^32)) eqn:Et; [|discriminate].
  rewrite andb_true_iff, Z.leb_le, Z.ltb_lt in Et. intros [= <-]. split; [|lia].
  destruct (num4_chars _ _ _ _ _ Ey) as [Hy4 Hy]. destruct (num2_chars _ _ _ Em) as [Hm2 _]. destruct (num2_chars _ _ _ Ed) as [Hd2 _].
  destruct (num2_chars _ _ _ Eh) as [Hh2 Hh]. destruct (num2_chars _ _ _ Emi) as [Hmi2 Hmi]. destruct (num2_chars _ _ _ Es) as [Hs2 Hs].
  assert (Hsec : 0 <= hh * 3600 + mi * 60 + ss < 86400) by lia.
  assert (Hdiv : (z * 86400 + hh * 3600 + mi * 60 + ss) / 86400 = z).
  { replace (z * 86400 + hh * 3600 + mi * 60 + ss) with ((hh * 3600 + mi * 60 + ss) + z * 86400) by ring.
    rewrite Z.div_add by lia. rewrite Z.div_small by lia. lia. }
  assert (Hmod : (z * 86400 + hh * 3600 + mi * 60 + ss) mod 86400 = hh * 3600 + mi * 60 + ss).
  { replace (z * 86400 + hh * 3600 + mi * 60 + ss) with ((hh * 3600 + mi * 60 + ss) + z * 86400) by ring.
    rewrite Z.mod_add by lia. apply Z.mod_small. lia. }
  assert (Hz : 0 <= z < 49711) by lia.
  (* the year: a date with a day number in range lies in 1969..2106 *)
  assert (Hyr : 1969 <= y <= 2106).
  { unfold z, days_from_civil in Hz.
    assert (Hdoy : 0 <= (153 * (if m >? 2 then m - 3 else m + 9) + 2) / 5 + d - 1 <= 367).
    { assert (d <= 31) by (unfold days_in in R4; destruct (m =? 2); [destruct (is_leap y); lia|]; destruct ((m =? 4) || (m =? 6) || (m =? 9) || (m =? 11)); lia).
      destruct (m >? 2) eqn:Em2; [assert (0 <= m - 3 <= 9) by lia|assert (10 <= m + 9 <= 11) by lia]; lia. }
    set (doy := (153 * (if m >? 2 then m - 3 else m + 9) + 2) / 5 + d - 1) in *.
    set (yy := if m <=? 2 then y - 1 else y) in *.
    assert (Hyy : 1968 <= yy <= 2106).
    { pose proof (Z.div_mod yy 400 ltac:(lia)) as Hdm. pose proof (Z.mod_pos_bound yy 400 ltac:(lia)) as Hmb.
      set (era := yy / 400) in *. replace (yy - era * 400) with (yy mod 400) in Hz by lia.
      set (yoe := yy mod 400) in *.
      assert (0 <= yoe / 4 <= 99) by lia. assert (0 <= yoe / 100 <= 3) by lia. lia. }
    unfold yy in Hyy. destruct (m <=? 2); lia. }
  unfold timestamp_string. rewrite Hdiv, Hmod. unfold z.
  rewrite (date_roundtrip y m d Hyr ltac:(lia) ltac:(lia) Hz).
  assert (H1 : (hh * 3600 + mi * 60 + ss) / 3600 = hh) by (symmetry; apply Z.div_unique with (mi * 60 + ss); lia).
  assert (H2 : (hh * 3600 + mi * 60 + ss) / 60 mod 60 = mi).
  { replace ((hh * 3600 + mi * 60 + ss) / 60) with (hh * 60 + mi) by (apply Z.div_unique with ss; lia).
    replace (hh * 60 + mi) with (mi + hh * 60) by ring. rewrite Z.mod_add by lia. apply Z.mod_small. lia. }
  assert (H3 : (hh * 3600 + mi * 60 + ss) mod 60 = ss).
  { replace (hh * 3600 + mi * 60 + ss) with (ss + (hh * 60 + mi) * 60) by ring. rewrite Z.mod_add by lia. apply Z.mod_small. lia. }
  rewrite H1, H2, H3, Hy4, Hm2, Hd2, Hh2, Hmi2, Hs2. reflexivity.
Qed.
Print Assumptions parse_timestamp_canon_exact.

(** with the liberal forms: whatever is accepted denotes, after the documented rewriting (a
    one-digit hour gets its zero, an all-zero fraction is dropped), exactly the printed value *)
Theorem parse_timestamp_exact s t : parse_timestamp s = Some t ->
  exists s', normalize_ts s = Some s' /\ timestamp_string t = s' /\ 0 <= t < 2^32.
Proof.
  unfold parse_timestamp. destruct (normalize_ts s) as [s'|]; [|discriminate]. intros H.
  exists s'. split; [reflexivity|]. apply parse_timestamp_canon_exact. exact H.
Qed.
