From WT Require Import Base.Wrap Base.ListX Model.Text.

(** * the calendar: all 49 711 days a uint32 timestamp can name *)
Definition day_ok (z : Z) : bool :=
  let '(y, m, d) := civil_from_days z in
  (days_from_civil y m d =? z) && (1 <=? m) && (m <=? 12) && (1 <=? d) && (d <=? days_in y m)
  && (1970 <=? y) && (y <=? 2106).

Fixpoint all_from (fuel : nat) (z : Z) : bool :=
  match fuel with O => true | S f => day_ok z && all_from f (z + 1) end.

Lemma all_from_spec fuel : forall z, all_from fuel z = true ->
  forall k, z <= k < z + Z.of_nat fuel -> day_ok k = true.
Proof.
  induction fuel as [|f IH]; intros z H k Hk; [lia|].
  cbn [all_from] in H. apply andb_true_iff in H. destruct H as [H0 Hr].
  destruct (Z.eq_dec k z) as [->|Hne]; [assumption|]. apply (IH (z + 1) Hr). lia.
Qed.

Lemma days_sweep : all_from 49711 0 = true.
Proof. vm_compute. reflexivity. Qed.

Lemma day_ok_all k : 0 <= k < 49711 -> day_ok k = true.
Proof.
  intros. assert (E : Z.of_nat 49711 = 49711) by (vm_compute; reflexivity).
  apply (all_from_spec 49711 0 days_sweep). rewrite E. lia.
Qed.

(** two- and four-digit fields parse back *)
Lemma num2_two n : 0 <= n < 100 -> match two n with [a; b] => num2 a b = Some n | _ => False end.
Proof.
  intros. unfold two, num2, dig, is_digit, c0.
  assert (H1 : (48 <=? 48 + n / 10) && (48 + n / 10 <=? 57) = true) by lia.
  assert (H2 : (48 <=? 48 + n mod 10) && (48 + n mod 10 <=? 57) = true) by lia.
  rewrite H1, H2. f_equal. lia.
Qed.
Lemma num4_four n : 0 <= n < 10000 ->
  match four n with [a; b; c; d] => num4 a b c d = Some n | _ => False end.
Proof.
  intros. unfold four, num4, num2, dig, is_digit, c0.
  assert (H1 : (48 <=? 48 + n / 1000) && (48 + n / 1000 <=? 57) = true) by lia.
  assert (H2 : (48 <=? 48 + n / 100 mod 10) && (48 + n / 100 mod 10 <=? 57) = true) by lia.
  assert (H3 : (48 <=? 48 + n / 10 mod 10) && (48 + n / 10 mod 10 <=? 57) = true) by lia.
  assert (H4 : (48 <=? 48 + n mod 10) && (48 + n mod 10 <=? 57) = true) by lia.
  rewrite H1, H2, H3, H4. f_equal. lia.
Qed.

(** C19: every 32-bit timestamp prints to a string that parses back to it *)
Theorem timestamp_roundtrip_canon t : 0 <= t < 2^32 -> parse_timestamp_canon (timestamp_string t) = Some t.
Proof.
  intros Ht.
  assert (Hd : 0 <= t / 86400 < 49711) by lia.
  pose proof (day_ok_all _ Hd) as Hok. unfold day_ok in Hok.
  unfold timestamp_string. destruct (civil_from_days (t / 86400)) as [[y m] d] eqn:Ec.
  rewrite !andb_true_iff in Hok. destruct Hok as ((((((Hdc & Hm1) & Hm2) & Hd1) & Hd2) & Hy1) & Hy2).
  rewrite Z.eqb_eq in Hdc. rewrite Z.leb_le in Hm1, Hm2, Hd1, Hd2, Hy1, Hy2.
  assert (Hdi : days_in y m <= 31).
  { unfold days_in. destruct (m =? 2); [destruct (is_leap y); lia|]. destruct ((m =? 4) || (m =? 6) || (m =? 9) || (m =? 11)); lia. }
  set (s := t mod 86400).
  assert (Hs : 0 <= s < 86400) by (unfold s; lia).
  pose proof (num4_four y ltac:(lia)) as Hy. pose proof (num2_two m ltac:(lia)) as Hm.
  pose proof (num2_two d ltac:(lia)) as Hdd. pose proof (num2_two (s / 3600) ltac:(lia)) as Hh.
  pose proof (num2_two (s / 60 mod 60) ltac:(lia)) as Hmi. pose proof (num2_two (s mod 60) ltac:(lia)) as Hss.
  unfold four, two in *. cbn [app]. unfold parse_timestamp_canon.
  cbn [Z.eqb andb]. rewrite Hy, Hm, Hdd, Hh, Hmi, Hss.
  assert (Hchk : (1 <=? m) && (m <=? 12) && (1 <=? d) && (d <=? days_in y m) && (s / 3600 <? 24)
                 && (s / 60 mod 60 <? 60) && (s mod 60 <? 60) = true) by lia.
  rewrite Hchk. rewrite Hdc.
  assert (Hval : t / 86400 * 86400 + s / 3600 * 3600 + s / 60 mod 60 * 60 + s mod 60 = t) by (unfold s; lia).
  rewrite Hval. assert (Hr : (0 <=? t) && (t <? 2^32) = true) by lia. rewrite Hr. reflexivity.
Qed.


(** the printed form is already canonical: normalisation leaves it alone *)
Lemma normalize_canonical t : normalize_ts (timestamp_string t) = Some (timestamp_string t).
Proof.
  unfold timestamp_string. destruct (civil_from_days (t / 86400)) as [[y m] d].
  set (s := t mod 86400). unfold four, two. cbn [app]. unfold normalize_ts.
  assert (Hb : is_digit (c0 + s / 3600 mod 10) = true) by (unfold is_digit, c0; lia).
  rewrite Hb. rewrite andb_false_r. cbn [app]. reflexivity.
Qed.

Theorem timestamp_roundtrip t : 0 <= t < 2^32 -> parse_timestamp (timestamp_string t) = Some t.
Proof.
  intros Ht. unfold parse_timestamp. rewrite normalize_canonical. apply timestamp_roundtrip_canon. exact Ht.
Qed.
Print Assumptions timestamp_roundtrip.
