From WT Require Import Base.Wrap Model.Time.

Definition TMAX : Z := 2^31.

Lemma ts_sub_nowrap t u : 0 <= t < TMAX -> 0 <= u < TMAX -> ts_sub t u = t - u.
Proof. unfold TMAX, ts_sub, i32, u32. intros. destruct (u <=? t) eqn:E; lia. Qed.

Lemma ts_add_nowrap t d : 0 <= t -> - TMAX < d < TMAX -> 0 <= t + d < 2^32 -> ts_add t d = t + d.
Proof.
  unfold TMAX, ts_add. intros Ht Hd Hr. destruct (Z.leb_spec 0 d).
  - rewrite (u32_small d) by lia. apply u32_small. lia.
  - rewrite (i32_small (- d)) by lia. rewrite (u32_small (- d)) by lia.
    replace (t - - d) with (t + d) by ring. apply u32_small. lia.
Qed.

Lemma mod_facts t step : 0 < step -> 0 <= t -> 0 <= t mod step < step /\ t mod step <= t.
Proof. intros. split; [apply Z.mod_pos_bound; lia | apply Z.mod_le; lia]. Qed.

Lemma interval_w_spec step t : 0 < step -> 0 <= t < 2^32 -> interval_w step t = t - t mod step.
Proof.
  intros. unfold interval_w. rewrite floorMod_mod by lia.
  pose proof (mod_facts t step). apply u32_small. lia.
Qed.

Lemma interval_spec step t : 0 < step -> 0 <= t -> t + step < 2^32 ->
  interval step t = t - t mod step + step.
Proof.
  intros. unfold interval. rewrite floorMod_mod by lia.
  pose proof (mod_facts t step). apply u32_small. lia.
Qed.

Lemma sub_mod_aligned t step : 0 < step -> (t - t mod step) mod step = 0.
Proof.
  intros. rewrite Zminus_mod, Z.mod_mod by lia. rewrite Z.sub_diag. apply Z.mod_0_l. lia.
Qed.

Lemma floor_plus_step_aligned t step : 0 < step -> (t - t mod step + step) mod step = 0.
Proof.
  intros. rewrite <- Zplus_mod_idemp_l. rewrite sub_mod_aligned by lia.
  rewrite Z.add_0_l. apply Z_mod_same_full.
Qed.

Lemma interval_w_aligned step t : 0 < step -> 0 <= t < 2^32 -> (interval_w step t) mod step = 0.
Proof. intros. rewrite interval_w_spec by lia. apply sub_mod_aligned. lia. Qed.

Lemma interval_w_le step t : 0 < step -> 0 <= t < 2^32 -> t - step < interval_w step t <= t.
Proof. intros. rewrite interval_w_spec by lia. pose proof (mod_facts t step). lia. Qed.

Lemma retention_nowrap step n : 0 < step -> 0 < n -> step * n < TMAX -> retention step n = step * n.
Proof. unfold TMAX, retention. intros. rewrite (i32_small n) by nia. apply i32_small. nia. Qed.
