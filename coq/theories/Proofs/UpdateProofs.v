From WT Require Import Base.Wrap Base.ListX Model.Time Model.Ring Model.Update Spec.LogSpec
  Proofs.TimeProofs Proofs.RingProofs Proofs.FetchProofs.

(** * The known finer values: physical read = log semantics *)

Lemma live_newest_opt a b log e :
  0 < a_step a -> 0 < a_n a -> b mod a_step a = 0 ->
  Forall (fun p => good_time a (p_time p)) log -> good_time a e ->
  (let p := newest a b log (cls a b e) in if p_time p =? e then Some (p_val p) else None)
  = live_opt log (period a) e.
Proof.
  intros HS HN Hb Hall [He1 He2]. induction log as [|p r IH]; cbn [newest live_opt].
  - cbn [zero_point p_time]. destruct (Z.eqb_spec 0 e); [lia|reflexivity].
  - inversion Hall as [|? ? [Ht1 Ht2] Hr]; subst.
    assert (Hiff := cls_eq_iff a b (p_time p) e HS HN (sub_aligned a _ b HS Ht2 Hb) (sub_aligned a e b HS He2 Hb)).
    destruct (Z.eqb_spec (cls a b (p_time p)) (cls a b e)) as [E|E];
      destruct (Z.eqb_spec ((p_time p - e) mod period a) 0) as [E'|E']; try tauto.
Qed.

Lemma filter_valid_known ps : forall (g : Z -> option Z) cur step,
  0 <= cur -> 0 < step < TMAX -> cur + zlen ps * step < 2^32 ->
  (forall k, 0 <= k < zlen ps ->
     (let p := znth zero_point ps k in if p_time p =? cur + k * step then Some (p_val p) else None)
     = g (cur + k * step)) ->
  filter_valid ps cur step =
  (fix go (t : Z) (c : nat) : list Z :=
     match c with O => [] | S c' => (match g t with Some v => [v] | None => [] end) ++ go (t + step) c' end)
    cur (length ps).
Proof.
  induction ps as [|p r IH]; intros g cur step Hc Hs Hb Hg; [reflexivity|].
  rewrite zlen_cons in *. pose proof (zlen_nonneg r).
  cbn [filter_valid length].
  assert (Hu : ts_add cur step = cur + step) by (apply ts_add_nowrap; unfold TMAX in *; nia).
  rewrite Hu. f_equal.
  - specialize (Hg 0 ltac:(lia)). unfold znth in Hg. cbn in Hg. rewrite Z.add_0_r in Hg.
    rewrite <- Hg. destruct (p_time p =? cur); reflexivity.
  - apply IH; [lia|lia|nia|].
    intros k Hk. specialize (Hg (k + 1) ltac:(lia)).
    unfold znth in *. replace (Z.to_nat (k + 1)) with (S (Z.to_nat k)) in Hg by lia. cbn [nth] in Hg.
    replace (cur + step + k * step) with (cur + (k + 1) * step) by ring. exact Hg.
Qed.

Lemma known_log_fix logf Rf stepf : forall cnt t,
  known_log logf Rf t stepf cnt =
  (fix go (t : Z) (c : nat) : list Z :=
     match c with O => [] | S c' => (match live_opt logf Rf t with Some v => [v] | None => [] end) ++ go (t + stepf) c' end)
    t cnt.
Proof. induction cnt as [|c IH]; intros t; cbn; [reflexivity|]. rewrite IH. reflexivity. Qed.

(** Reading the [cnt] finer slots of coarser interval [t] gives exactly the values
    the log semantics calls known, in time order; the read never panics. *)
Lemma known_phys high logh t stepc :
  Rel high logh -> good_time high t -> 0 < stepc -> stepc mod a_step high = 0 ->
  stepc / a_step high <= a_n high -> t + stepc < TMAX ->
  exists ps, fetch_raw high t (ts_add t stepc) = Some ps /\
    zlen ps = stepc / a_step high /\
    filter_valid ps (interval_w (a_step high) t) (a_step high) =
      known_log logh (period high) t (a_step high) (Z.to_nat (stepc / a_step high)).
Proof.
  intros HRel Hgt Hsc Hdiv Hcnt Hbound.
  pose proof HRel as (Hwf & Hall & Hnil & Hne & Hsl). pose proof Hwf as (HS & HN & Hlen & HR).
  destruct (base_facts high logh HRel) as [Hb1 Hb2].
  destruct Hgt as [Ht1 Ht2].
  assert (Hu : ts_add t stepc = t + stepc) by (apply ts_add_nowrap; unfold TMAX in *; lia).
  rewrite Hu.
  assert (Hgu : good_time high (t + stepc)).
  { split; [unfold TMAX in *; lia|]. rewrite Z.add_mod, Ht2, Hdiv by lia. reflexivity. }
  assert (Hc : (t + stepc - t) / a_step high = stepc / a_step high) by (f_equal; lia).
  destruct (fetch_raw_spec high logh t (t + stepc) HRel (conj Ht1 Ht2) Hgu ltac:(lia) ltac:(rewrite Hc; exact Hcnt))
    as (ps & Hps & Hl & Hnth).
  rewrite Hc in *.
  exists ps. split; [exact Hps|]. split; [exact Hl|].
  assert (Hiw : interval_w (a_step high) t = t).
  { rewrite interval_w_spec by (unfold TMAX in *; lia). lia. }
  rewrite Hiw.
  assert (Hexact : stepc = (stepc / a_step high) * a_step high).
  { rewrite Z.mul_comm. apply Z_div_exact_full_2; lia. }
  assert (Hcpos : 0 <= stepc / a_step high) by (apply Z.div_pos; lia).
  rewrite (filter_valid_known ps (live_opt logh (period high)) t (a_step high)).
  - rewrite known_log_fix. f_equal. unfold zlen in Hl. lia.
  - lia.
  - unfold TMAX in *. nia.
  - rewrite Hl. unfold TMAX in *. nia.
  - intros k Hk. rewrite Hl in Hk. rewrite Hnth by lia.
    assert (Hge : good_time high (t + k * a_step high)).
    { split; [unfold TMAX in *; nia|]. rewrite Z.mod_add by lia. assumption. }
    rewrite <- cls_shift by assumption.
    rewrite Hsl by (apply cls_range; assumption).
    apply live_newest_opt; assumption.
Qed.
Print Assumptions known_phys.

(** * One propagation step refines the log-level step *)

Definition valid_pair (high r : arc) : Prop :=
  a_step r mod a_step high = 0 /\ a_step r / a_step high <= a_n high.

Lemma Forall2_zupd {A B} (P : A -> B -> Prop) l1 l2 i x y :
  Forall2 P l1 l2 -> P x y -> Forall2 P (zupd l1 i x) (zupd l2 i y).
Proof.
  unfold zupd. generalize (Z.to_nat i) as n. intros n H; revert n.
  induction H as [|a b l1 l2 Hab H IH]; intros n Hxy; [destruct n; constructor|].
  destruct n; cbn; constructor; auto.
Qed.

Lemma get_arc_layout arcs i a : get_arc arcs i = Some a ->
  lay_step (layout_of arcs) i = a_step a /\ lay_n (layout_of arcs) i = a_n a.
Proof.
  unfold get_arc, lay_step, lay_n, layout_of. intros H.
  rewrite (nth_error_nth _ _ (0,0) (map_nth_error _ _ _ H)). auto.
Qed.

Lemma get_log_nth logs i lg : nth_error logs (Z.to_nat i) = Some lg -> get_log logs i = lg.
Proof. unfold get_log. intros H. apply nth_error_nth. exact H. Qed.

Lemma layout_set_arc arcs i a a' : get_arc arcs i = Some a -> a_step a' = a_step a -> a_n a' = a_n a ->
  layout_of (set_arc arcs i a') = layout_of arcs.
Proof.
  unfold get_arc, set_arc, zupd, layout_of. generalize (Z.to_nat i) as n. intros n; revert n.
  induction arcs as [|b r IH]; intros n H Hs Hn; [destruct n; discriminate|].
  destruct n; cbn in *.
  - injection H as ->. rewrite Hs, Hn. reflexivity.
  - f_equal. apply IH; assumption.
Qed.

Lemma get_arc_some_lt arcs i a : 0 <= i -> get_arc arcs i = Some a -> i < Z.of_nat (length arcs).
Proof. intros Hi H. apply (nth_error_range arcs i a Hi H). Qed.
Lemma get_arc_none_ge arcs i : 0 <= i -> get_arc arcs i = None -> Z.of_nat (length arcs) <= i.
Proof. unfold get_arc. intros Hi H. apply nth_error_None in H. lia. Qed.

Lemma layout_length arcs : length (layout_of arcs) = length arcs.
Proof. unfold layout_of. apply map_length. Qed.

Lemma aligned_coarse_fine (high r : arc) t : 0 < a_step high ->
  a_step r mod a_step high = 0 -> t mod a_step r = 0 -> t mod a_step high = 0.
Proof.
  intros HS Hd Ht. destruct (Z.eq_dec (a_step r) 0) as [E|E].
  - rewrite E in Ht. rewrite Zmod_0_r in Ht. subst. apply Z.mod_0_l. lia.
  - apply Z.mod_divide in Hd; [|lia]. apply Z.mod_divide in Ht; [|lia].
    apply Z.mod_divide; [lia|]. eapply Z.divide_trans; eassumption.
Qed.

Lemma propagate_one_refines F m xff arcs logs l acc t high r :
  Rel_all arcs logs -> 1 <= l ->
  get_arc arcs (l - 1) = Some high -> get_arc arcs l = Some r ->
  valid_pair high r -> good_time r t -> t + a_step r < TMAX ->
  match spec_propagate_one F m xff (layout_of arcs) logs l acc t with
  | None => propagate_one F m xff arcs l acc t = None
  | Some (logs', acc') =>
      exists arcs', propagate_one F m xff arcs l acc t = Some (arcs', acc') /\
                    Rel_all arcs' logs' /\ layout_of arcs' = layout_of arcs
  end.
Proof.
  intros HRA Hl Hhigh Hr [Hdiv Hcnt] [Ht1 Ht2] Hbound.
  destruct (Forall2_nth_error _ _ _ _ _ HRA Hhigh) as (logh & Hlogh & HRh).
  destruct (Forall2_nth_error _ _ _ _ _ HRA Hr) as (logr & Hlogr & HRr).
  pose proof (Rel_wf _ _ HRh) as (HSh & HNh & _ & _).
  pose proof (Rel_wf _ _ HRr) as (HSr & HNr & _ & _).
  destruct (get_arc_layout _ _ _ Hhigh) as [Hls1 Hln1].
  destruct (get_arc_layout _ _ _ Hr) as [Hls Hln].
  assert (Hgth : good_time high t).
  { split; [assumption|]. eapply aligned_coarse_fine; eassumption. }
  destruct (known_phys high logh t (a_step r) HRh Hgth HSr Hdiv Hcnt Hbound) as (ps & Hps & Hlen & Hfv).
  unfold spec_propagate_one, propagate_one.
  rewrite Hhigh, Hr, Hps. rewrite Hls, Hls1. unfold lay_period. rewrite Hls1, Hln1.
  rewrite (get_log_nth _ _ _ Hlogh). fold (period high). rewrite Hfv. rewrite Hlen.
  set (kv := known_log logh (period high) t (a_step high) (Z.to_nat (a_step r / a_step high))).
  destruct kv as [|v0 kv'] eqn:Ekv.
  - exists arcs. auto.
  - destruct (f_frac_lt F (zlen (v0 :: kv')) (a_step r / a_step high) xff).
    + exists arcs. auto.
    + destruct (aggregate F m (v0 :: kv')) as [v|]; [|reflexivity].
      assert (HRel' : Rel_all (set_arc arcs l (put r t v)) (add_log logs l (mkPoint t v))).
      { unfold set_arc, add_log. apply Forall2_zupd; [assumption|].
        rewrite (get_log_nth _ _ _ Hlogr). apply put_Rel; [assumption| split; assumption]. }
      assert (Hlay' : layout_of (set_arc arcs l (put r t v)) = layout_of arcs).
      { eapply layout_set_arc; [eassumption| reflexivity | reflexivity]. }
      rewrite layout_length.
      destruct (get_arc arcs (l + 1)) as [low|] eqn:Hlow.
      * pose proof (get_arc_some_lt arcs (l + 1) low ltac:(lia) Hlow).
        destruct (Z.ltb_spec (l + 1) (Z.of_nat (length arcs))); [|lia].
        destruct (get_arc_layout _ _ _ Hlow) as [Hls2 _]. rewrite Hls2.
        destruct (Forall2_nth_error _ _ _ _ _ HRA Hlow) as (logl & _ & HRl).
        pose proof (Rel_wf _ _ HRl) as (HSl & _).
        rewrite interval_w_spec by (unfold TMAX in *; lia).
        eexists; split; [reflexivity|]. split; assumption.
      * pose proof (get_arc_none_ge arcs (l + 1) ltac:(lia) Hlow).
        destruct (Z.ltb_spec (l + 1) (Z.of_nat (length arcs))); [lia|].
        eexists; split; [reflexivity|]. split; assumption.
Qed.
Print Assumptions propagate_one_refines.

(** * [propagate] refines [spec_propagate] *)

Definition level_valid (L : lay) (l : Z) : Prop :=
  lay_step L l mod lay_step L (l - 1) = 0 /\ lay_step L l / lay_step L (l - 1) <= lay_n L (l - 1).

Definition good_ts (L : lay) (l : Z) (t : Z) : Prop :=
  0 < t < TMAX /\ t mod lay_step L l = 0 /\ t + lay_step L l < TMAX.

Lemma get_arc_exists arcs i : 0 <= i < Z.of_nat (length arcs) -> exists a, get_arc arcs i = Some a.
Proof.
  intros Hi. unfold get_arc. destruct (nth_error arcs (Z.to_nat i)) eqn:E; [eauto|].
  apply nth_error_None in E. lia.
Qed.

Lemma Forall2_length' {A B} (P : A -> B -> Prop) l1 l2 : Forall2 P l1 l2 -> length l1 = length l2.
Proof. induction 1; cbn; auto. Qed.

Theorem propagate_refines F m xff l : forall ts arcs logs acc,
  Rel_all arcs logs -> 1 <= l < Z.of_nat (length arcs) ->
  level_valid (layout_of arcs) l -> Forall (good_ts (layout_of arcs) l) ts ->
  match spec_propagate F m xff (layout_of arcs) logs l acc ts with
  | None => propagate F m xff arcs l acc ts = None
  | Some (logs', acc') =>
      exists arcs', propagate F m xff arcs l acc ts = Some (arcs', acc') /\
                    Rel_all arcs' logs' /\ layout_of arcs' = layout_of arcs
  end.
Proof.
  induction ts as [|t rest IH]; intros arcs logs acc HRA Hl Hlv Hts; cbn [spec_propagate propagate].
  - exists arcs. auto.
  - inversion Hts as [|? ? Hgt Hrest]; subst.
    destruct (get_arc_exists arcs (l - 1) ltac:(lia)) as [high Hhigh].
    destruct (get_arc_exists arcs l ltac:(lia)) as [r Hr].
    destruct (get_arc_layout _ _ _ Hhigh) as [Hs1 Hn1].
    destruct (get_arc_layout _ _ _ Hr) as [Hs Hn].
    destruct Hgt as (Ht1 & Ht2 & Ht3). destruct Hlv as [Hd Hc].
    pose proof (propagate_one_refines F m xff arcs logs l acc t high r HRA ltac:(lia) Hhigh Hr
                  ltac:(split; [rewrite <- Hs, <- Hs1; exact Hd | rewrite <- Hs, <- Hs1, <- Hn1; exact Hc])
                  ltac:(split; [exact Ht1 | rewrite <- Hs; exact Ht2])
                  ltac:(rewrite <- Hs; exact Ht3)) as Hone.
    destruct (spec_propagate_one F m xff (layout_of arcs) logs l acc t) as [[logs1 acc1]|].
    + destruct Hone as (arcs1 & Hp1 & HRA1 & Hlay1). rewrite Hp1.
      specialize (IH arcs1 logs1 acc1 HRA1).
      rewrite Hlay1 in IH.
      assert (Hlen1 : length arcs1 = length arcs).
      { rewrite <- (layout_length arcs1), Hlay1, layout_length. reflexivity. }
      rewrite Hlen1 in IH. specialize (IH Hl (conj Hd Hc) Hrest).
      destruct (spec_propagate F m xff (layout_of arcs) logs1 l acc1 rest) as [[logs' acc']|].
      * destruct IH as (arcs' & Hp & HRA' & Hlay'). exists arcs'. repeat split; try assumption.
      * exact IH.
    + rewrite Hone. reflexivity.
Qed.
Print Assumptions propagate_refines.
