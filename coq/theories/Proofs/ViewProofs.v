(** C18, last sentence: every non-NaN point a fetch (hence view) reports is a physical slot of
    the archive with the same time and value — whatever the slots contain — so view-raw, which
    prints the physical slots inside the requested range, shows it. *)
From WT Require Import Base.Wrap Base.ListX Model.Time Model.Ring Model.Update Spec.LogSpec Model.Handle Model.Cmd
  Proofs.TimeProofs Proofs.RingProofs Proofs.FetchProofs Proofs.HostileProofs Proofs.RoutingProofs Proofs.CmdProofs.

Lemma in_firstn {A} (x : A) n l : In x (firstn n l) -> In x l.
Proof. revert l; induction n as [|n IH]; intros [|y r] H; cbn in *; try contradiction. destruct H; [left; assumption|right; apply IH; assumption]. Qed.
Lemma in_skipn {A} (x : A) n l : In x (skipn n l) -> In x l.
Proof. revert l; induction n as [|n IH]; intros [|y r] H; cbn in *; try contradiction; try assumption. right. apply IH. assumption. Qed.
Lemma in_slice {A} (x : A) l a b : In x (slice l a b) -> In x l.
Proof. unfold slice. intros H. apply in_firstn in H. apply in_skipn in H. exact H. Qed.

(** what [fetchRawPoints] returns are physical slots (or the zero padding) *)
Lemma fetch_raw_slots a f u ps : fetch_raw a f u = Some ps -> Forall (fun p => p = zero_point \/ In p (a_slots a)) ps.
Proof.
  unfold fetch_raw. set (cnt := Z.quot (ts_sub u f) (a_step a)). set (fi := point_index a (base_interval a) f).
  set (ui := Z.rem (fi + cnt) (a_n a)).
  set (sq := if fi <? ui then slice (a_slots a) fi ui else slice (a_slots a) fi (a_n a) ++ slice (a_slots a) 0 ui).
  destruct (cnt <? 0); [discriminate|]. destruct (zlen sq >? cnt); [discriminate|]. intros [= <-].
  apply Forall_app. split.
  - apply Forall_forall. intros p Hp. right. unfold sq in Hp. destruct (fi <? ui).
    + eapply in_slice; exact Hp.
    + apply in_app_or in Hp. destruct Hp as [Hp|Hp]; eapply in_slice; exact Hp.
  - apply Forall_forall. intros p Hp. apply repeat_spec in Hp. left. exact Hp.
Qed.

Lemma is_nan_NaN : is_nan NaN = true. Proof. reflexivity. Qed.

(** [clearOldPoints]: the k-th value is the k-th slot's value if its time is the expected one *)
Lemma clear_old_nth : forall ps cur step k, 0 <= cur -> 0 <= step -> cur + zlen ps * step < 2^32 -> step < TMAX ->
  (k < length ps)%nat ->
  nth k (clear_old ps cur step) NaN =
  if p_time (nth k ps zero_point) =? cur + Z.of_nat k * step then p_val (nth k ps zero_point) else NaN.
Proof.
  induction ps as [|p r IH]; intros cur step k Hc Hs Hb Hst Hk; [cbn in Hk; lia|].
  rewrite zlen_cons in Hb. pose proof (zlen_nonneg r) as Hr0. cbn [clear_old].
  destruct k as [|k]; cbn [nth].
  - replace (cur + Z.of_nat 0 * step) with cur by lia. reflexivity.
  - assert (Hadd : ts_add cur step = cur + step) by (apply ts_add_nowrap; unfold TMAX in *; nia).
    rewrite Hadd. rewrite IH by (try lia; try nia; cbn in Hk; lia). replace (cur + step + Z.of_nat k * step) with (cur + Z.of_nat (S k) * step) by lia. reflexivity.
Qed.

(** the structure of a successful fetch of a named archive *)
Lemma fetch_structure arcs id a from until now s :
  0 <= id -> nth_error arcs (Z.to_nat id) = Some a ->
  fetch_from_archive arcs id from until now = FSeries s ->
  s_step s = a_step a /\
  (s_vals s = repeat NaN (length (s_vals s)) \/
   exists ps, fetch_raw a (s_from s) (s_until s) = Some ps /\ s_vals s = clear_old ps (s_from s) (a_step a)).
Proof.
  intros Hid Hnth. unfold fetch_from_archive.
  destruct (from >? until); [discriminate|].
  destruct ((negb (id =? ArchiveIDBest) && (id <? 0)) || (zlen arcs - 1 <? id)); [discriminate|].
  unfold ArchiveIDBest. destruct (Z.eqb_spec id (-1)) as [|_]; [lia|]. rewrite Hnth.
  destruct (from >? now); [discriminate|]. destruct (until <? ts_add now (i32 (- max_retention a))); [discriminate|].
  cbv zeta.
  set (fr := if from <? ts_add now (i32 (- max_retention a)) then ts_add now (i32 (- max_retention a)) else from).
  set (un := if until >? now then now else until).
  set (fi := interval (a_step a) fr).
  set (ui := if fi =? interval (a_step a) un then ts_add (interval (a_step a) un) (a_step a) else interval (a_step a) un).
  destruct (base_interval a =? 0).
  - intros [= <-]. cbn [s_step s_vals]. split; [reflexivity|]. left. rewrite repeat_length. reflexivity.
  - destruct (fetch_raw a fi ui) as [ps|] eqn:Er; [|discriminate]. intros [= <-]. cbn [s_step s_vals s_from s_until].
    split; [reflexivity|]. right. exists ps. auto.
Qed.

Lemma nth_repeat_NaN n k : nth k (repeat NaN n) NaN = NaN.
Proof. revert k; induction n as [|n IH]; intros [|k]; cbn; auto. Qed.

(** C18: a non-NaN fetched value is a stored point with the slot's time *)
Theorem fetched_value_is_a_stored_point arcs id a from until now s k :
  0 <= id -> nth_error arcs (Z.to_nat id) = Some a -> wf_arc a ->
  period a <= now -> now + 2 * a_step a < TMAX ->
  0 <= from < 2^32 -> 0 <= until < 2^32 -> from <= until ->
  fetch_from_archive arcs id from until now = FSeries s ->
  (k < length (s_vals s))%nat -> is_nan (nth k (s_vals s) NaN) = false ->
  In (mkPoint (s_from s + Z.of_nat k * s_step s) (nth k (s_vals s) NaN)) (a_slots a).
Proof.
  intros Hid Hnth Hwf Hp Hnow Hfrom Huntil Hfu Hfetch Hk Hnn.
  pose proof Hwf as (HS & HN & Hlen & HR).
  pose proof (fetch_named_total arcs id a from until now Hid Hnth Hwf Hp Hnow Hfrom Huntil Hfu) as Ht.
  destruct ((from >? now) || (until <? now - period a)) eqn:Ec; [rewrite Ht in Hfetch; discriminate|].
  cbv zeta in Ht. destruct Ht as (vs & Hfe & Hvl). rewrite Hfe in Hfetch. injection Hfetch as <-.
  cbn [s_vals s_from s_until s_step] in *.
  destruct (fetch_structure arcs id a from until now _ Hid Hnth Hfe) as [_ Hstr]. cbn [s_vals s_from s_until s_step] in Hstr.
  destruct Hstr as [Hrep | (ps & Hps & Hvs)].
  - rewrite Hrep, nth_repeat_NaN, is_nan_NaN in Hnn. discriminate.
  - rewrite orb_false_iff in Ec. destruct Ec as [E1 E2].
    destruct (window_facts a from until now Hwf Hp Hnow ltac:(lia) ltac:(lia) Hfu) as ((Hf0 & _) & (Hu0 & _) & Hfu' & Hcnt & Hub).
    set (f := win_from a from now) in *. set (u := win_until a from until now) in *.
    assert (Hlen_ps : length ps = length vs).
    { rewrite Hvs. generalize f. generalize (a_step a). clear. induction ps as [|p r IH]; intros st f0; cbn [clear_old length]; [reflexivity|]. rewrite <- (IH st (ts_add f0 st)). reflexivity. }
    assert (Hdiv : zlen vs * a_step a <= u - f).
    { rewrite Hvl. pose proof (Z.mul_div_le (u - f) (a_step a) HS). lia. }
    rewrite Hvs in Hnn |- *.
    rewrite clear_old_nth in Hnn |- * by (try lia; unfold zlen in *; unfold TMAX in *; try nia; lia).
    destruct (Z.eqb_spec (p_time (nth k ps zero_point)) (f + Z.of_nat k * a_step a)) as [Et|_]; [|rewrite is_nan_NaN in Hnn; discriminate].
    pose proof (fetch_raw_slots _ _ _ _ Hps) as Hall. rewrite Forall_forall in Hall.
    assert (Hin : In (nth k ps zero_point) ps) by (apply nth_In; lia).
    destruct (Hall _ Hin) as [Hz|Hslot].
    + exfalso. rewrite Hz in Et. cbn in Et. nia.
    + rewrite <- Et. destruct (nth k ps zero_point) as [pt pv] eqn:Ep. cbn [p_time p_val]. exact Hslot.
Qed.
Print Assumptions fetched_value_is_a_stored_point.

(** * command level: a point view prints is a point view-raw prints *)
Lemma ins_stable_in_iff p l x : In x (ins_stable p l) <-> x = p \/ In x l.
Proof.
  split; [apply ins_stable_in|].
  induction l as [|q r IH]; cbn [ins_stable In]; intros H.
  - destruct H as [->|[]]. left. reflexivity.
  - destruct (p_time p <? p_time q); cbn [In].
    + destruct H as [->|[->|H]]; auto.
    + destruct H as [->|[->|H]]; [right; apply IH; left; reflexivity|left; reflexivity|right; apply IH; right; exact H].
Qed.
Lemma sort_points_in l x : In x l -> In x (sort_points l).
Proof.
  unfold sort_points. intros H.
  assert (G : forall l acc, In x l \/ In x acc -> In x (fold_left (fun acc p => ins_stable p acc) l acc)).
  { induction l0 as [|p r IH]; cbn [fold_left]; intros acc Hx; [destruct Hx as [[]|Hx]; exact Hx|].
    apply IH. destruct Hx as [[->|Hx]|Hx]; [right; apply ins_stable_in_iff; auto|left; exact Hx|right; apply ins_stable_in_iff; auto]. }
  apply G. left. exact H.
Qed.

Lemma points_records_intro : forall pl i a ps t v, i <= a ->
  nth_error pl (Z.to_nat (a - i)) = Some ps -> In (mkPoint t v) ps -> In (RPoint a t v) (points_records_from i pl).
Proof.
  induction pl as [|p r IH]; intros i a ps t v Hia Hn Hin; [destruct (Z.to_nat (a - i)); discriminate|].
  cbn [points_records_from]. apply in_or_app. destruct (Z.eq_dec a i) as [->|Hne].
  - left. rewrite Z.sub_diag in Hn. cbn in Hn. injection Hn as ->.
    apply in_map_iff. exists (mkPoint t v). split; [reflexivity|exact Hin].
  - right. apply (IH (i + 1) a ps t v); [lia| |exact Hin].
    replace (Z.to_nat (a - i)) with (S (Z.to_nat (a - (i + 1)))) in Hn by lia. exact Hn.
Qed.

Lemma place_series_nth : forall arcs i aid s q, (q < length arcs)%nat ->
  nth_error (place_series arcs i aid (Some s)) q =
  Some (if i + Z.of_nat q =? aid then s else empty_series (a_step (nth q arcs (mkArc 0 0 [])))).
Proof.
  induction arcs as [|a r IH]; intros i aid s q Hq; [cbn in Hq; lia|].
  destruct q as [|q]; cbn [place_series nth_error nth].
  - replace (i + Z.of_nat 0) with i by lia. reflexivity.
  - rewrite IH by (cbn in Hq; lia). replace (i + 1 + Z.of_nat q) with (i + Z.of_nat (S q)) by lia. reflexivity.
Qed.

Lemma raw_lists_nth : forall arcs i aid q a, nth_error arcs q = Some a ->
  nth_error (combine arcs (raw_lists arcs i aid)) q =
  Some (a, if (aid =? ArchiveIDAll) || (aid =? i + Z.of_nat q) then a_slots a else []).
Proof.
  induction arcs as [|x r IH]; intros i aid q a Hq; [destruct q; discriminate|].
  destruct q as [|q]; cbn [raw_lists combine nth_error] in *.
  - injection Hq as ->. replace (i + Z.of_nat 0) with i by lia. reflexivity.
  - rewrite (IH (i + 1) aid q a Hq). replace (i + 1 + Z.of_nat q) with (i + Z.of_nat (S q)) by lia. reflexivity.
Qed.

Lemma place_none_empty : forall arcs i aid q ps,
  option_map series_points (nth_error (place_series arcs i aid None) q) = Some ps -> ps = [].
Proof.
  induction arcs as [|x r IH]; intros i aid q ps H; [destruct q; discriminate|].
  destruct q; cbn [place_series nth_error option_map] in H; [injection H as <-; reflexivity|]. eapply IH; exact H.
Qed.

Theorem view_point_is_in_view_raw f h id from until0 now sh sh' sort a t v :
  opened f = Some h -> 0 <= id -> nth_error (hd_arcs h) (Z.to_nat id) = Some a -> wf_arc a ->
  period a <= now -> now + 2 * a_step a < TMAX ->
  0 <= from < 2^32 -> 0 <= resolve_until until0 now < 2^32 -> from <= resolve_until until0 now ->
  In (RPoint id t v) (snd (view_cmd f id from until0 now sh)) -> is_nan v = false ->
  (from = 0 \/ from < t) ->
  t <= (if resolve_until until0 now =? from then ts_add (resolve_until until0 now) (a_step a) else resolve_until until0 now) ->
  In (RPoint id t v) (snd (view_raw_cmd f id from until0 now sh' sort)).
Proof.
  intros Hop Hid Hnth Hwf Hp Hnow Hfrom Huntil Hfu Hview Hnn Hr1 Hr2.
  set (until := resolve_until until0 now) in *.
  pose proof (nth_error_range (hd_arcs h) id a Hid Hnth) as Hidr.
  assert (Hq : (Z.to_nat id < length (hd_arcs h))%nat) by (apply nth_error_Some; congruence).
  (* view: the record comes from the fetched series of archive [id] *)
  unfold view_cmd, read_file in Hview. destruct f as [hf|]; [|discriminate].
  rewrite Hop in Hview. fold until in Hview.
  unfold fetch_ts_list in Hview. unfold ArchiveIDAll in Hview.
  destruct (Z.eqb_spec id (-1)) as [|_]; [lia|].
  destruct (Z.leb_spec 0 id) as [_|]; [|lia]. destruct (Z.ltb_spec id (zlen (hd_arcs h))) as [_|]; [|lia]. cbn [andb] in Hview.
  destruct (fetch_from_archive (hd_arcs h) id from until now) as [| | |s|] eqn:Ef; cbn [snd src_failure] in Hview; try contradiction.
  - (* no series: only empty series are printed *)
    exfalso. apply in_app_or in Hview. destruct Hview as [Hv|Hv]; [destruct sh; cbn in Hv; [destruct Hv as [Hv|[]]; discriminate|contradiction]|].
    unfold points_records in Hv. apply points_records_in in Hv. destruct Hv as (ps & Hn & _ & Hin).
    rewrite nth_error_map in Hn. replace (id - 0) with id in Hn by lia.
    apply place_none_empty in Hn. subst ps. contradiction.
  - apply in_app_or in Hview. destruct Hview as [Hv|Hv]; [exfalso; destruct sh; cbn in Hv; [destruct Hv as [Hv|[]]; discriminate|contradiction]|].
    unfold points_records in Hv. apply points_records_in in Hv. destruct Hv as (ps & Hn & _ & Hin).
    rewrite nth_error_map in Hn. replace (id - 0) with id in Hn by lia.
    rewrite place_series_nth in Hn by exact Hq. rewrite Z2Nat.id in Hn by lia. cbn [Z.add] in Hn.
    rewrite Z.eqb_refl in Hn. cbn [option_map] in Hn. injection Hn as <-.
    apply (In_nth _ _ (mkPoint 0 NaN)) in Hin. destruct Hin as (k & Hk & Hpk).
    rewrite series_points_length in Hk. rewrite series_points_nth in Hpk by exact Hk. cbn [p_val] in Hpk.
    injection Hpk as Ht Hv.
    pose proof (fetched_value_is_a_stored_point (hd_arcs h) id a from until now s k Hid Hnth Hwf Hp Hnow Hfrom Huntil Hfu Ef Hk
                  ltac:(rewrite Hv; exact Hnn)) as Hstored.
    (* the time of the k-th point, without wrap *)
    pose proof (fetch_named_total (hd_arcs h) id a from until now Hid Hnth Hwf Hp Hnow Hfrom Huntil Hfu) as Htot.
    destruct ((from >? now) || (until <? now - period a)) eqn:Ec; [rewrite Htot in Ef; discriminate|].
    cbv zeta in Htot. destruct Htot as (vs & Hfe & Hvl). rewrite Hfe in Ef. injection Ef as <-.
    cbn [s_from s_until s_step s_vals] in *.
    rewrite orb_false_iff in Ec. destruct Ec as [E1 E2].
    pose proof Hwf as (HS & HN & _ & _).
    destruct (window_facts a from until now Hwf Hp Hnow ltac:(lia) ltac:(lia) Hfu) as ((Hf0 & _) & (Hu0 & _) & Hfu' & Hcnt & Hub).
    assert (Hdiv : zlen vs * a_step a <= win_until a from until now - win_from a from now).
    { rewrite Hvl. pose proof (Z.mul_div_le (win_until a from until now - win_from a from now) (a_step a) HS). lia. }
    assert (Htk : ts_add (win_from a from now) (i32 (Z.of_nat k * a_step a)) = win_from a from now + Z.of_nat k * a_step a).
    { unfold zlen in *. unfold TMAX in *. rewrite i32_small by nia. apply ts_add_nowrap; unfold TMAX; nia. }
    rewrite Htk in Ht. rewrite Ht, Hv in Hstored.
    (* view-raw *)
    unfold view_raw_cmd. rewrite Hop. unfold ArchiveIDAll. destruct (Z.eqb_spec id (-1)) as [|_]; [lia|].
    destruct (Z.leb_spec 0 id) as [_|]; [|lia]. destruct (Z.ltb_spec id (zlen (hd_arcs h))) as [_|]; [|lia]. cbn [andb orb snd].
    fold until. apply in_or_app. right. unfold points_records.
    apply (points_records_intro _ 0 id
             (let ps := filter_raw (a_step a) from until (a_slots a) in if sort then sort_points ps else ps) t v ltac:(lia)).
    + rewrite nth_error_map. replace (id - 0) with id by lia. rewrite (raw_lists_nth _ 0 id _ a Hnth).
      rewrite Z2Nat.id by lia. cbn [Z.add]. rewrite Z.eqb_refl. rewrite orb_true_r. cbn [option_map fst snd]. reflexivity.
    + cbv zeta. assert (Hfil : In (mkPoint t v) (filter_raw (a_step a) from until (a_slots a))).
      { apply filter_raw_in. split; [exact Hstored|]. cbn [p_time]. split; assumption. }
      destruct sort; [apply sort_points_in|]; exact Hfil.
Qed.
Print Assumptions view_point_is_in_view_raw.

(** * every archive at once ([-archive] not given): the same statement for each archive *)

(** the core of the statement above, for one fetched series: a non-NaN point of the series, inside the requested
    range, passes view-raw's filter over the archive's physical slots *)
Lemma fetched_point_in_filter_raw arcs id a from until now s t v :
  0 <= id -> nth_error arcs (Z.to_nat id) = Some a -> wf_arc a ->
  period a <= now -> now + 2 * a_step a < TMAX ->
  0 <= from < 2^32 -> 0 <= until < 2^32 -> from <= until ->
  fetch_from_archive arcs id from until now = FSeries s ->
  In (mkPoint t v) (series_points s) -> is_nan v = false ->
  (from = 0 \/ from < t) -> t <= (if until =? from then ts_add until (a_step a) else until) ->
  In (mkPoint t v) (filter_raw (a_step a) from until (a_slots a)).
Proof.
  intros Hid Hnth Hwf Hp Hnow Hfrom Huntil Hfu Ef Hin Hnn Hr1 Hr2.
  apply (In_nth _ _ (mkPoint 0 NaN)) in Hin. destruct Hin as (k & Hk & Hpk).
  rewrite series_points_length in Hk. rewrite series_points_nth in Hpk by exact Hk. cbn [p_val] in Hpk.
  injection Hpk as Ht Hv.
  pose proof (fetched_value_is_a_stored_point arcs id a from until now s k Hid Hnth Hwf Hp Hnow Hfrom Huntil Hfu Ef Hk
                ltac:(rewrite Hv; exact Hnn)) as Hstored.
  pose proof (fetch_named_total arcs id a from until now Hid Hnth Hwf Hp Hnow Hfrom Huntil Hfu) as Htot.
  destruct ((from >? now) || (until <? now - period a)) eqn:Ec; [rewrite Htot in Ef; discriminate|].
  cbv zeta in Htot. destruct Htot as (vs & Hfe & Hvl). rewrite Hfe in Ef. injection Ef as <-.
  cbn [s_from s_until s_step s_vals] in *.
  rewrite orb_false_iff in Ec. destruct Ec as [E1 E2].
  pose proof Hwf as (HS & HN & _ & _).
  destruct (window_facts a from until now Hwf Hp Hnow ltac:(lia) ltac:(lia) Hfu) as ((Hf0 & _) & (Hu0 & _) & Hfu' & Hcnt & Hub).
  assert (Hdiv : zlen vs * a_step a <= win_until a from until now - win_from a from now).
  { rewrite Hvl. pose proof (Z.mul_div_le (win_until a from until now - win_from a from now) (a_step a) HS). lia. }
  assert (Htk : ts_add (win_from a from now) (i32 (Z.of_nat k * a_step a)) = win_from a from now + Z.of_nat k * a_step a).
  { unfold zlen in *. unfold TMAX in *. rewrite i32_small by nia. apply ts_add_nowrap; unfold TMAX; nia. }
  rewrite Htk in Ht. rewrite Ht, Hv in Hstored.
  apply filter_raw_in. split; [exact Hstored|]. cbn [p_time]. split; assumption.
Qed.

(** what [fetch_all] puts at position [q]: the fetch of archive [i + q], or an empty series when there is none *)
Lemma fetch_all_nth arcs from until now : forall todo i l q a,
  fetch_all arcs todo i from until now = TslOk l -> nth_error todo q = Some a ->
  exists s, nth_error l q = Some s /\
    (fetch_from_archive arcs (i + Z.of_nat q) from until now = FSeries s \/ s = empty_series (a_step a)).
Proof.
  induction todo as [|x r IH]; intros i l q a Hf Hq; [destruct q; discriminate|].
  cbn [fetch_all] in Hf.
  destruct (fetch_from_archive arcs i from until now) as [| | |s0|] eqn:E0; try discriminate;
    destruct (fetch_all arcs r (i + 1) from until now) as [| |l'] eqn:E1; try discriminate; injection Hf as <-.
  - destruct q as [|q]; cbn [nth_error] in *.
    + injection Hq as ->. eexists; split; [reflexivity|right; reflexivity].
    + destruct (IH (i + 1) l' q a E1 Hq) as (s & Hs & Hor). exists s. split; [exact Hs|].
      replace (i + Z.of_nat (S q)) with (i + 1 + Z.of_nat q) by lia. exact Hor.
  - destruct q as [|q]; cbn [nth_error] in *.
    + injection Hq as ->. eexists; split; [reflexivity|left]. replace (i + Z.of_nat 0) with i by lia. exact E0.
    + destruct (IH (i + 1) l' q a E1 Hq) as (s & Hs & Hor). exists s. split; [exact Hs|].
      replace (i + Z.of_nat (S q)) with (i + 1 + Z.of_nat q) by lia. exact Hor.
Qed.

Theorem view_all_point_is_in_view_raw_all f h id from until0 now sh sh' sort a t v :
  opened f = Some h -> 0 <= id -> nth_error (hd_arcs h) (Z.to_nat id) = Some a -> wf_arc a ->
  period a <= now -> now + 2 * a_step a < TMAX ->
  0 <= from < 2^32 -> 0 <= resolve_until until0 now < 2^32 -> from <= resolve_until until0 now ->
  In (RPoint id t v) (snd (view_cmd f ArchiveIDAll from until0 now sh)) -> is_nan v = false ->
  (from = 0 \/ from < t) ->
  t <= (if resolve_until until0 now =? from then ts_add (resolve_until until0 now) (a_step a) else resolve_until until0 now) ->
  In (RPoint id t v) (snd (view_raw_cmd f ArchiveIDAll from until0 now sh' sort)).
Proof.
  intros Hop Hid Hnth Hwf Hp Hnow Hfrom Huntil Hfu Hview Hnn Hr1 Hr2.
  set (until := resolve_until until0 now) in *.
  unfold view_cmd, read_file in Hview. destruct f as [hf|]; [|discriminate].
  rewrite Hop in Hview. fold until in Hview.
  unfold fetch_ts_list in Hview. rewrite Z.eqb_refl in Hview.
  destruct (fetch_all (hd_arcs h) (hd_arcs h) 0 from until now) as [| |l] eqn:Ea; cbn [snd src_failure] in Hview; try contradiction.
  apply in_app_or in Hview. destruct Hview as [Hv|Hv]; [exfalso; destruct sh; cbn in Hv; [destruct Hv as [Hv|[]]; discriminate|contradiction]|].
  unfold points_records in Hv. apply points_records_in in Hv. destruct Hv as (ps & Hn & _ & Hin).
  rewrite nth_error_map in Hn. replace (id - 0) with id in Hn by lia.
  destruct (fetch_all_nth (hd_arcs h) from until now (hd_arcs h) 0 l (Z.to_nat id) a Ea Hnth) as (s & Hs & Hor).
  rewrite Hs in Hn. cbn [option_map] in Hn. injection Hn as <-.
  rewrite Z2Nat.id in Hor by lia. cbn [Z.add] in Hor.
  destruct Hor as [Ef| ->]; [|cbn in Hin; contradiction].
  pose proof (fetched_point_in_filter_raw (hd_arcs h) id a from until now s t v Hid Hnth Hwf Hp Hnow Hfrom Huntil Hfu Ef Hin Hnn Hr1 Hr2) as Hfil.
  unfold view_raw_cmd. rewrite Hop. rewrite Z.eqb_refl. cbn [orb snd]. fold until.
  apply in_or_app. right. unfold points_records.
  apply (points_records_intro _ 0 id
           (let ps := filter_raw (a_step a) from until (a_slots a) in if sort then sort_points ps else ps) t v ltac:(lia)).
  - rewrite nth_error_map. replace (id - 0) with id by lia. rewrite (raw_lists_nth _ 0 ArchiveIDAll _ a Hnth).
    rewrite Z.eqb_refl. cbn [orb option_map fst snd]. reflexivity.
  - cbv zeta. destruct sort; [apply sort_points_in|]; exact Hfil.
Qed.
Print Assumptions view_all_point_is_in_view_raw_all.
