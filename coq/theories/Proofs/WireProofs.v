(** C12: what the server writes is what the client reads. *)
From WT Require Import Base.Wrap Base.ListX Base.Bytes Model.Time Model.Ring Model.Codec Model.Wire
  Proofs.CodecProofs.

Lemma dec_series_n_enc : forall l r, Forall wf_series l ->
  dec_series_n (length l) (flat_map enc_series l ++ r) = Ok l r.
Proof.
  induction l as [|s q IH]; intros r H; [reflexivity|].
  inversion H as [|? ? Hs Hq]; subst. cbn [length flat_map dec_series_n]. rewrite <- app_assoc.
  rewrite series_roundtrip by exact Hs. rewrite IH by exact Hq. reflexivity.
Qed.
Lemma dec_points_n_enc : forall l r, Forall (fun ps => Forall wf_point ps /\ zlen ps <= MaxInt32) l ->
  dec_points_n (length l) (flat_map enc_points l ++ r) = Ok l r.
Proof.
  induction l as [|s q IH]; intros r H; [reflexivity|].
  inversion H as [|? ? [Hs Hn] Hq]; subst. cbn [length flat_map dec_points_n]. rewrite <- app_assoc.
  rewrite points_roundtrip by assumption. rewrite IH by exact Hq. reflexivity.
Qed.

Lemma enc_header_nonempty h : enc_header h <> [].
Proof. unfold enc_header, be32. cbn. discriminate. Qed.

(** the view / sum round trip: header and every series arrive unchanged *)
Theorem client_view_of_response h l :
  wf_header h -> Forall wf_series l -> length l = length (h_arcs h) ->
  client_view (view_response h l) = WOk h l.
Proof.
  intros Hh Hl Hn. unfold client_view, view_response.
  destruct (enc_header h ++ flat_map enc_series l) as [|b rest] eqn:E.
  { apply app_eq_nil in E. destruct E as [E _]. exfalso. apply (enc_header_nonempty h E). }
  rewrite <- E. rewrite header_roundtrip by exact Hh. rewrite <- Hn.
  rewrite <- (app_nil_r (flat_map enc_series l)). rewrite dec_series_n_enc by exact Hl. reflexivity.
Qed.

Theorem client_view_raw_of_response h pl :
  wf_header h -> Forall (fun ps => Forall wf_point ps /\ zlen ps <= MaxInt32) pl -> length pl = length (h_arcs h) ->
  client_view_raw (view_raw_response h pl) = WOk h pl.
Proof.
  intros Hh Hl Hn. unfold client_view_raw, view_raw_response.
  destruct (enc_header h ++ flat_map enc_points pl) as [|b rest] eqn:E.
  { apply app_eq_nil in E. destruct E as [E _]. exfalso. apply (enc_header_nonempty h E). }
  rewrite <- E. rewrite header_roundtrip by exact Hh. rewrite <- Hn.
  rewrite <- (app_nil_r (flat_map enc_points pl)). rewrite dec_points_n_enc by exact Hl. reflexivity.
Qed.

(** the empty body is the only not-exist answer, and it is never a successful read *)
Theorem client_view_empty : client_view [] = WNotExist.
Proof. reflexivity. Qed.

(** an HTTP error body (text: its first byte is an ASCII character, not 0) never decodes as a
    header: the aggregation-method field would be at least 2^24 *)
Theorem error_body_rejected body : bytes body -> (exists b r, body = b :: r /\ 0 < b) ->
  match dec_header body with Ok _ _ => False | _ => True end.
Proof.
  intros Hb (b & r & -> & Hpos). unfold dec_header.
  destruct (zlen (b :: r) <? 16) eqn:El; [exact I|].
  assert (Hm : valid_method (get32 (b :: r)) = false).
  { destruct r as [|c [|d [|e r']]]; cbn in El; try discriminate.
    unfold valid_method, get32.
    inversion Hb as [|? ? Hb0 Hb1]; subst. inversion Hb1 as [|? ? Hc Hb2]; subst.
    inversion Hb2 as [|? ? Hd Hb3]; subst. inversion Hb3 as [|? ? He _]; subst.
    unfold byte in *. lia. }
  rewrite Hm. exact I.
Qed.
