(** The loops over several files / items (Model/World.v): when no job reads what an earlier job
    writes, every job of a successful run did exactly what it does alone on the initial files,
    nothing else changed, and the report is the concatenation; a failing job stops the loop and
    the later destinations are untouched. *)
From WT Require Import Base.Wrap Base.ListX Base.Bytes Model.Time Model.Ring Model.Update Model.Codec Model.Handle Model.Cmd Model.World.

Lemma wget_wset_same w k v : wget (wset w k v) k = v.
Proof. unfold wset; cbn [wget]. now rewrite Z.eqb_refl. Qed.

Lemma wget_wset_other w k k' v : k' <> k -> wget (wset w k v) k' = wget w k'.
Proof.
  intros Hne; unfold wset; cbn [wget].
  destruct (k =? k') eqn:E; [apply Z.eqb_eq in E; congruence | reflexivity].
Qed.

Section Jobs.
  Variable job : Type.
  Variable run : world -> job -> Z -> cmd_result.
  Variable dest_of : job -> Z.
  (** the files a job looks at *)
  Variable reads : job -> list Z.
  Hypothesis run_footprint : forall w w' j now,
      (forall k, In k (reads j) -> wget w k = wget w' k) -> run w j now = run w' j now.

  (** no job reads or writes the destination of an earlier job *)
  Fixpoint separate (jobs : list job) : Prop :=
    match jobs with
    | [] => True
    | j :: rest => Forall (fun l => ~ In (dest_of j) (reads l) /\ dest_of l <> dest_of j) rest /\ separate rest
    end.

  Definition now_at (nows : list Z) (dflt : Z) (i : nat) : Z := nth i nows dflt.

  Lemma now_at_tl nows dflt i : now_at (tl nows) dflt i = now_at nows dflt (S i).
  Proof. unfold now_at. destruct nows as [|n r]; cbn [tl nth]; [destruct i; reflexivity | reflexivity]. Qed.

  Lemma apply_result_other w j r k : k <> dest_of j -> wget (apply_result job dest_of w j r) k = wget w k.
  Proof.
    intros Hne. unfold apply_result. destruct (r_dest r); [now apply wget_wset_other | reflexivity].
  Qed.

  Lemma apply_result_dest w j r :
    wget (apply_result job dest_of w j r) (dest_of j) =
    match r_dest r with Some h => Some h | None => wget w (dest_of j) end.
  Proof. unfold apply_result. destruct (r_dest r); [apply wget_wset_same | reflexivity]. Qed.

  (** the general statement, over the world [w0] the jobs are compared with *)
  Lemma run_jobs_spec : forall jobs w0 w nows dflt w' st out,
      separate jobs ->
      (forall j, In j jobs -> forall k, In k (reads j) -> wget w k = wget w0 k) ->
      (forall j, In j jobs -> wget w (dest_of j) = wget w0 (dest_of j)) ->
      run_jobs job run dest_of w jobs nows dflt = (w', st, out) ->
      (* the jobs up to the first failing one ran as on [w0] *)
      exists n,
        (n <= length jobs)%nat /\
        (st = StOk -> n = length jobs) /\
        (forall i j, (i < n)%nat -> nth_error jobs i = Some j ->
                     let r := run w0 j (now_at nows dflt i) in
                     wget w' (dest_of j) = match r_dest r with Some h => Some h | None => wget w0 (dest_of j) end
                     /\ ((S i < n)%nat \/ st = StOk -> r_status r = StOk)) /\
        (forall i j, (n <= i)%nat -> nth_error jobs i = Some j -> wget w' (dest_of j) = wget w0 (dest_of j)) /\
        (forall k, (forall j, In j jobs -> k <> dest_of j) -> wget w' k = wget w k) /\
        (st <> StOk -> (0 < n)%nat /\ forall j, nth_error jobs (n - 1) = Some j -> r_status (run w0 j (now_at nows dflt (n - 1))) = st).
  Proof.
    induction jobs as [|j rest IH]; intros w0 w nows dflt w' st out Hsep Hreads Hdests Hrun.
    - cbn [run_jobs] in Hrun. inversion Hrun; subst. exists 0%nat.
      split; [cbn [length]; lia|]. split; [intros _; reflexivity|]. split; [intros i j Hi; lia|].
      split; [intros i j _ Hnth; destruct i; discriminate|]. split; [intros k _; reflexivity|].
      intros Hne; congruence.
    - cbn [run_jobs] in Hrun.
      set (now := match nows with n :: _ => n | [] => dflt end) in *.
      assert (Hnow : now = now_at nows dflt 0) by (unfold now, now_at; destruct nows; reflexivity).
      assert (Hrw : run w j now = run w0 j now).
      { apply run_footprint. intros k Hk. apply (Hreads j); [now left | exact Hk]. }
      rewrite Hrw in Hrun.
      set (r := run w0 j now) in *.
      destruct Hsep as [Hfirst Hsep'].
      set (w1 := apply_result job dest_of w j r) in *.
      assert (Hreads1 : forall l, In l rest -> forall k, In k (reads l) -> wget w1 k = wget w0 k).
      { intros l Hl k Hk. unfold w1. rewrite apply_result_other.
        - apply (Hreads l); [now right | exact Hk].
        - rewrite Forall_forall in Hfirst. destruct (Hfirst l Hl) as [Hnr _]. intros ->. contradiction. }
      assert (Hdests1 : forall l, In l rest -> wget w1 (dest_of l) = wget w0 (dest_of l)).
      { intros l Hl. unfold w1. rewrite apply_result_other.
        - apply Hdests; now right.
        - rewrite Forall_forall in Hfirst. now destruct (Hfirst l Hl). }
      destruct (r_status r) eqn:Est.
      1: { (* this job succeeded: the rest runs on w1 *)
        destruct (run_jobs job run dest_of w1 rest (tl nows) dflt) as [[w'' st'] out'] eqn:Erest.
        inversion Hrun; subst w'' st' out; clear Hrun.
        destruct (IH w0 w1 (tl nows) dflt w' st out' Hsep' Hreads1 Hdests1 Erest)
          as (n & Hn & Hall & Hdone & Hlater & Hframe & Hfail).
        exists (S n). split; [cbn [length]; lia|]. split; [intros Hs; cbn [length]; now rewrite (Hall Hs)|].
        split; [|split; [|split]].
        * intros i l Hi Hnth. destruct i as [|i].
          -- cbn [nth_error] in Hnth. inversion Hnth; subst l. rewrite <- Hnow. fold r. split.
             ++ (* the destination of j is not touched by the later jobs *)
               rewrite Hframe.
               ** unfold w1. rewrite apply_result_dest.
                  destruct (r_dest r); [reflexivity | apply Hdests; now left].
               ** intros l Hl. rewrite Forall_forall in Hfirst. destruct (Hfirst l Hl) as [_ Hd]. congruence.
             ++ intros _. exact Est.
          -- cbn [nth_error] in Hnth. rewrite <- now_at_tl.
             destruct (Hdone i l ltac:(lia) Hnth) as [Hd Hs]. split; [exact Hd|].
             intros [Hlt | Hs']; apply Hs; [left; lia | now right].
        * intros i l Hi Hnth. destruct i as [|i]; [lia|]. cbn [nth_error] in Hnth.
          apply (Hlater i l); [lia | exact Hnth].
        * intros k Hk. rewrite Hframe.
          -- unfold w1. apply apply_result_other. apply Hk. now left.
          -- intros l Hl. apply Hk. now right.
        * intros Hne. destruct (Hfail Hne) as [Hpos Hlast]. split; [lia|].
          intros l Hnth. replace (S n - 1)%nat with (S (n - 1)) in * by lia.
          cbn [nth_error] in Hnth. rewrite <- now_at_tl. apply Hlast. exact Hnth. }
      all: inversion Hrun; subst w' st out; clear Hrun.
        all: exists 1%nat; split; [cbn [length]; lia|]; split; [intros Hs; discriminate|].
        all: split; [|split; [|split]].
        all: try (intros i l Hi Hnth; destruct i as [|i]; [|lia]; cbn [nth_error] in Hnth; inversion Hnth; subst l;
                  rewrite <- Hnow; fold r; split;
                  [unfold w1; rewrite apply_result_dest; destruct (r_dest r); [reflexivity | apply Hdests; now left]
                  | intros [Hlt | Hs]; [lia | discriminate]]).
        all: try (intros i l Hi Hnth; destruct i as [|i]; [lia|]; cbn [nth_error] in Hnth;
                  unfold w1; rewrite apply_result_other;
                  [apply Hdests; right; eapply nth_error_In; exact Hnth
                  | rewrite Forall_forall in Hfirst; destruct (Hfirst l (nth_error_In _ _ Hnth)) as [_ Hd]; exact Hd]).
        all: try (intros k Hk; unfold w1; apply apply_result_other; apply Hk; now left).
        all: try (intros _; split; [lia|]; intros l Hnth; cbn [nth_error Nat.sub] in Hnth; inversion Hnth; subst l;
                  cbn [Nat.sub]; rewrite <- Hnow; fold r; exact Est).
  Qed.

  (** a successful run: every job did what it does alone on the initial files *)
  Theorem run_jobs_ok_each : forall jobs w nows dflt w' out,
      separate jobs ->
      run_jobs job run dest_of w jobs nows dflt = (w', StOk, out) ->
      (forall i j, nth_error jobs i = Some j ->
                   let r := run w j (now_at nows dflt i) in
                   r_status r = StOk /\
                   wget w' (dest_of j) = match r_dest r with Some h => Some h | None => wget w (dest_of j) end) /\
      (forall k, (forall j, In j jobs -> k <> dest_of j) -> wget w' k = wget w k).
  Proof.
    intros jobs w nows dflt w' out Hsep Hrun.
    destruct (run_jobs_spec jobs w w nows dflt w' StOk out Hsep (fun _ _ _ _ => eq_refl) (fun _ _ => eq_refl) Hrun)
      as (n & Hn & Hall & Hdone & _ & Hframe & _).
    specialize (Hall eq_refl). subst n. split; [|exact Hframe].
    intros i j Hnth.
    assert (Hi : (i < length jobs)%nat) by (apply nth_error_Some; congruence).
    destruct (Hdone i j Hi Hnth) as [Hd Hs]. split; [apply Hs; now right | exact Hd].
  Qed.

  (** a failing run: the loop stopped at the first job that fails alone; the jobs before it were done,
      the destinations of the jobs after it are as they were *)
  Theorem run_jobs_stops_at_first_failure : forall jobs w nows dflt w' st out,
      separate jobs -> st <> StOk ->
      run_jobs job run dest_of w jobs nows dflt = (w', st, out) ->
      exists n j, nth_error jobs n = Some j /\
        r_status (run w j (now_at nows dflt n)) = st /\
        (forall i l, (i < n)%nat -> nth_error jobs i = Some l -> r_status (run w l (now_at nows dflt i)) = StOk) /\
        (forall i l, (n < i)%nat -> nth_error jobs i = Some l -> wget w' (dest_of l) = wget w (dest_of l)).
  Proof.
    intros jobs w nows dflt w' st out Hsep Hne Hrun.
    destruct (run_jobs_spec jobs w w nows dflt w' st out Hsep (fun _ _ _ _ => eq_refl) (fun _ _ => eq_refl) Hrun)
      as (n & Hn & _ & Hdone & Hlater & _ & Hfail).
    destruct (Hfail Hne) as [Hpos Hlast].
    destruct (nth_error jobs (n - 1)) as [j|] eqn:Ej.
    - exists (n - 1)%nat, j. split; [exact Ej|]. split; [now apply Hlast|]. split.
      + intros i l Hi Hnth. destruct (Hdone i l ltac:(lia) Hnth) as [_ Hs]. apply Hs. left. lia.
      + intros i l Hi Hnth. apply (Hlater i l); [lia | exact Hnth].
    - apply nth_error_None in Ej. lia.
  Qed.
End Jobs.

(** ** the two instances *)
Definition copy_reads (j : Z * Z) : list Z := [fst j; snd j].
Lemma copy_job_footprint F long o : forall w w' j now,
    (forall k, In k (copy_reads j) -> wget w k = wget w' k) -> copy_job F long o w j now = copy_job F long o w' j now.
Proof.
  intros w w' [s d] now H. unfold copy_job; cbn [fst snd].
  rewrite (H s) by (cbn; auto). rewrite (H d) by (cbn; auto). reflexivity.
Qed.

Definition sum_copy_reads (j : list Z * Z) : list Z := snd j :: fst j.
Lemma sum_copy_job_footprint F long o : forall w w' j now,
    (forall k, In k (sum_copy_reads j) -> wget w k = wget w' k) -> sum_copy_job F long o w j now = sum_copy_job F long o w' j now.
Proof.
  intros w w' [fs d] now H. unfold sum_copy_job; cbn [fst snd].
  rewrite (H d) by (cbn; auto).
  replace (map (wget w) fs) with (map (wget w') fs); [reflexivity|].
  apply map_ext_in. intros k Hk. symmetry. apply H. cbn. auto.
Qed.

(** a report that can be written: the job is the single-file command *)
Lemma copy_job_short F o w j now : copy_job F false o w j now = copy_one F (wget w (fst j)) (wget w (snd j)) o now.
Proof. reflexivity. Qed.

(** ** copy with a glob pattern *)
Lemma glob_copies_every_matched_file F o w jobs nows dflt w' out :
  separate (Z * Z) snd copy_reads jobs ->
  run_copies F false o w jobs nows dflt = (w', StOk, out) ->
  (forall i s d, nth_error jobs i = Some (s, d) ->
     let r := copy_one F (wget w s) (wget w d) o (now_at nows dflt i) in
     r_status r = StOk /\
     wget w' d = match r_dest r with Some h => Some h | None => wget w d end) /\
  (forall k, (forall j, In j jobs -> k <> snd j) -> wget w' k = wget w k).
Proof.
  intros Hsep Hrun.
  destruct (run_jobs_ok_each (Z * Z) (copy_job F false o) snd copy_reads (copy_job_footprint F false o)
                             jobs w nows dflt w' out Hsep Hrun) as [Heach Hframe].
  split; [|exact Hframe].
  intros i s d Hnth. exact (Heach i (s, d) Hnth).
Qed.

Lemma glob_stops_at_first_failure F o w jobs nows dflt w' st out :
  separate (Z * Z) snd copy_reads jobs -> st <> StOk ->
  run_copies F false o w jobs nows dflt = (w', st, out) ->
  exists n s d, nth_error jobs n = Some (s, d) /\
    r_status (copy_one F (wget w s) (wget w d) o (now_at nows dflt n)) = st /\
    (forall i s' d', (i < n)%nat -> nth_error jobs i = Some (s', d') ->
       r_status (copy_one F (wget w s') (wget w d') o (now_at nows dflt i)) = StOk) /\
    (forall i l, (n < i)%nat -> nth_error jobs i = Some l -> wget w' (snd l) = wget w (snd l)).
Proof.
  intros Hsep Hne Hrun.
  destruct (run_jobs_stops_at_first_failure (Z * Z) (copy_job F false o) snd copy_reads (copy_job_footprint F false o)
                                            jobs w nows dflt w' st out Hsep Hne Hrun)
    as (n & [s d] & Hnth & Hst & Hbefore & Hafter).
  exists n, s, d. split; [exact Hnth|]. split; [exact Hst|]. split; [|exact Hafter].
  intros i s' d' Hi Hn'. exact (Hbefore i (s', d') Hi Hn').
Qed.

(** ** sum-copy over the matched items *)
Lemma items_sum_copied_each F o w jobs nows dflt w' out :
  separate (list Z * Z) snd sum_copy_reads jobs ->
  run_sum_copies F false o w jobs nows dflt = (w', StOk, out) ->
  (forall i fs d, nth_error jobs i = Some (fs, d) ->
     let r := sum_copy_item F (map (wget w) fs) (wget w d) o (now_at nows dflt i) in
     r_status r = StOk /\
     wget w' d = match r_dest r with Some h => Some h | None => wget w d end) /\
  (forall k, (forall j, In j jobs -> k <> snd j) -> wget w' k = wget w k).
Proof.
  intros Hsep Hrun.
  destruct (run_jobs_ok_each (list Z * Z) (sum_copy_job F false o) snd sum_copy_reads (sum_copy_job_footprint F false o)
                             jobs w nows dflt w' out Hsep Hrun) as [Heach Hframe].
  split; [|exact Hframe].
  intros i fs d Hnth. exact (Heach i (fs, d) Hnth).
Qed.
