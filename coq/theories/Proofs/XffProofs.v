(** C07: the bit test [valid_xff] is "a number within [0,1]" — the float32 the bits denote is not
    NaN, not infinite, and its real value lies in [0,1] (-0 is 0).  IEEE semantics from Flocq. *)
From Coq Require Import ZArith Reals Lia Lra.
From Flocq Require Import Core.Core IEEE754.Binary IEEE754.Bits.
From WT Require Import Base.Wrap Base.ListX Model.Codec.
Open Scope Z_scope.

(** what header.go's validateXFilesFactor tests: not NaN, not < 0, not > 1 *)
Definition xff_in_unit_interval (f : full_float) : Prop :=
  match f with
  | F754_nan _ _ => False
  | F754_infinity _ => False
  | _ => (0 <= FF2R radix2 f <= 1)%R
  end.

Lemma pow24 : IZR (2^24) = bpow radix2 24.
Proof. rewrite <- (IZR_Zpower radix2 24) by lia. reflexivity. Qed.
Lemma pow23 : IZR (2^23) = bpow radix2 23.
Proof. rewrite <- (IZR_Zpower radix2 23) by lia. reflexivity. Qed.

Lemma small_in_unit n ex : 0 < n < 2^24 -> ex <= -24 -> (0 <= IZR n * bpow radix2 ex <= 1)%R.
Proof.
  intros Hn Hex. pose proof (bpow_gt_0 radix2 ex) as Hp.
  assert (H0 : (0 < IZR n)%R) by (apply IZR_lt; lia).
  assert (H1 : (IZR n < bpow radix2 24)%R) by (rewrite <- pow24; apply IZR_lt; lia).
  split; [apply Rmult_le_pos; lra|].
  apply Rle_trans with (bpow radix2 24 * bpow radix2 ex)%R.
  - apply Rmult_le_compat_r; lra.
  - rewrite <- bpow_plus. change 1%R with (bpow radix2 0). apply bpow_le. lia.
Qed.

Lemma large_above_one n ex : 2^23 <= n -> -22 <= ex -> (1 < IZR n * bpow radix2 ex)%R.
Proof.
  intros Hn Hex. pose proof (bpow_gt_0 radix2 ex) as Hp.
  assert (H1 : (bpow radix2 23 <= IZR n)%R) by (rewrite <- pow23; apply IZR_le; lia).
  apply Rlt_le_trans with (bpow radix2 23 * bpow radix2 ex)%R.
  - rewrite <- bpow_plus. apply Rlt_le_trans with (bpow radix2 1); [cbn; lra|apply bpow_le; lia].
  - apply Rmult_le_compat_r; lra.
Qed.

Lemma at_one n : 2^23 <= n -> ((IZR n * bpow radix2 (-23) <= 1)%R <-> n = 2^23).
Proof.
  intros Hn. pose proof (bpow_gt_0 radix2 23) as Hp.
  assert (Hinv : (bpow radix2 (-23) = / bpow radix2 23)%R) by (apply (bpow_opp radix2 23)).
  rewrite Hinv. split.
  - intros H. assert (Hle : (IZR n <= bpow radix2 23)%R).
    { apply Rmult_le_reg_r with (/ bpow radix2 23)%R; [apply Rinv_0_lt_compat; exact Hp|].
      rewrite Rinv_r by lra. exact H. }
    rewrite <- pow23 in Hle. apply le_IZR in Hle. lia.
  - intros ->. rewrite pow23, Rinv_r by lra. lra.
Qed.

Lemma neg_not_in_unit n ex : 0 < n -> ~ (0 <= IZR (- n) * bpow radix2 ex <= 1)%R.
Proof.
  intros Hn [H _]. pose proof (bpow_gt_0 radix2 ex) as Hp.
  assert (Hneg : (IZR (- n) < 0)%R) by (apply IZR_lt; lia).
  assert (Hprod : (0 < (- IZR (- n)) * bpow radix2 ex)%R) by (apply Rmult_lt_0_compat; lra).
  lra.
Qed.

Theorem valid_xff_iff_unit b : 0 <= b < 2^32 ->
  (valid_xff b = true <-> xff_in_unit_interval (binary_float_of_bits_aux 23 8 b)).
Proof.
  intros Hb. unfold binary_float_of_bits_aux, split_bits.
  change (2 ^ 23 * 2 ^ 8) with (2^31).
  remember (b mod 2^23) as m eqn:Eqm. remember ((b / 2^23) mod 2^8) as e eqn:Eqe.
  assert (Hm : 0 <= m < 2^23) by (subst m; apply Z.mod_pos_bound; lia).
  assert (He : 0 <= e < 2^8) by (subst e; apply Z.mod_pos_bound; lia).
  assert (Hdec : b = (if 2^31 <=? b then 2^31 else 0) + e * 2^23 + m).
  { subst m e. destruct (Z.leb_spec (2^31) b).
    - pose proof (Z.div_mod b (2^23) ltac:(lia)). pose proof (Z.div_mod (b / 2^23) (2^8) ltac:(lia)).
      assert (b / 2^23 / 2^8 = 1) by (rewrite Z.div_div by lia; change (2^23 * 2^8) with (2^31); symmetry; apply Z.div_unique with (b - 2^31); lia). lia.
    - pose proof (Z.div_mod b (2^23) ltac:(lia)). pose proof (Z.div_mod (b / 2^23) (2^8) ltac:(lia)).
      assert (b / 2^23 / 2^8 = 0) by (rewrite Z.div_div by lia; change (2^23 * 2^8) with (2^31); apply Z.div_small; lia). lia. }
  unfold valid_xff. change 0x80000000 with (2^31). change 0x3F800000 with (127 * 2^23).
  rewrite orb_true_iff, andb_true_iff, Z.eqb_eq, !Z.leb_le.
  clear Eqm Eqe. unfold xff_in_unit_interval.
  change (SpecFloat.emin (23 + 1) (2 ^ (8 - 1))) with (-149). change (2 ^ 8 - 1) with 255.
  remember (2 ^ 31 <=? b) as sg eqn:Es. clear Es.
  destruct (Zeq_bool e 0) eqn:E0; [apply Zeq_bool_eq in E0|apply Zeq_bool_neq in E0];
    [|destruct (Zeq_bool e 255) eqn:E255; [apply Zeq_bool_eq in E255|apply Zeq_bool_neq in E255]].
  - (* e = 0: zero or subnormal *)
    destruct m as [|pm|pm]; [| |lia].
    + cbn [FF2R]. split; [intros _; lra|]. intros _. destruct sg; lia.
    + cbn [FF2R]. unfold F2R. cbn [Fnum Fexp].
      destruct sg; cbn [cond_Zopp].
      * split; [intros H; exfalso; lia|]. intros H. exfalso. apply (neg_not_in_unit (Zpos pm) (-149) ltac:(lia)). exact H.
      * split; [intros _; apply small_in_unit; lia|intros _; right; lia].
  - (* e = 255: infinity or NaN *)
    destruct m as [|pm|pm]; (split; [intros H; destruct sg; lia|intros []]).
  - (* normal *)
    destruct (m + 2^23) as [|px|px] eqn:Ep; [lia| |lia].
    cbn [FF2R]. unfold F2R. cbn [Fnum Fexp]. replace (e + -149 - 1) with (e - 150) by lia.
    destruct sg; cbn [cond_Zopp].
    + split; [intros H; exfalso; lia|]. intros H. exfalso. apply (neg_not_in_unit (Zpos px) (e - 150) ltac:(lia)). exact H.
    + rewrite <- Ep. destruct (Z_lt_le_dec e 127) as [Hlt|Hge].
      * split; [intros _; apply small_in_unit; lia|intros _; right; lia].
      * destruct (Z.eq_dec e 127) as [->|Hne].
        -- change (127 - 150) with (-23). split.
           ++ intros H. split; [apply Rmult_le_pos; [apply IZR_le; lia|left; apply bpow_gt_0]|]. apply at_one; lia.
           ++ intros [_ H]. apply at_one in H; lia.
        -- split; [intros H; exfalso; lia|].
           intros [_ H]. exfalso. pose proof (large_above_one (m + 2^23) (e - 150) ltac:(lia) ltac:(lia)). lra.
Qed.
Print Assumptions valid_xff_iff_unit.

(** the same statement about the float32 value itself *)
Theorem valid_xff_iff_b32 b : 0 <= b < 2^32 ->
  (valid_xff b = true <->
   match b32_of_bits b with
   | B754_nan _ _ _ _ _ => False
   | B754_infinity _ _ _ => False
   | x => (0 <= B2R 24 128 x <= 1)%R
   end).
Proof.
  intros Hb. rewrite (valid_xff_iff_unit b Hb). unfold b32_of_bits, binary_float_of_bits.
  generalize (binary_float_of_bits_aux_correct 23 8 eq_refl eq_refl eq_refl b).
  destruct (binary_float_of_bits_aux 23 8 b) as [s|s|s pl|s mx ex]; intros Hv; cbn; tauto.
Qed.
Print Assumptions valid_xff_iff_b32.
