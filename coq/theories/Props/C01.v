(** * C01 — Ring storage: a fetch returns the last value written to each live slot.

    The abstract semantics is the per-archive write log ([Spec/LogSpec.v]): [live log R e] is
    the value of the newest log entry whose interval is congruent to [e] modulo the ring period
    [R = step * points], provided that entry is an entry for [e] itself; NaN otherwise.
    Statements only; the proofs are in [Proofs/]. *)
From WT Require Import Base.Wrap Base.ListX Model.Time Model.Ring Model.Update Spec.LogSpec
  Proofs.TimeProofs Proofs.RingProofs Proofs.FetchProofs Proofs.UpdateProofs Proofs.ChainProofs
  Proofs.ArchiveUpdateProofs Proofs.RoutingProofs Proofs.HistoryProofs Spec.WfLayout Proofs.LayoutBridge.

(** Every history of single and batch updates (any archive, any order, stale, future and
    duplicate points, clock advances of any size) from a freshly created file, for every
    float-operation record [F], every storable method, every layout in the format's range:
    the history never panics, and a fetch of any named archive with any window at any clock of
    the domain returns, slot by slot, [live] of that archive's write log. *)
Theorem C01_fetch_is_last_live_write F m xff L ops id from until now :
  1 <= m <= 6 ->
  Forall (fun sn => 0 < fst sn /\ 0 < snd sn /\ fst sn * snd sn < TMAX) L ->
  wf_layout_full L -> Forall (op_ok L) ops ->
  0 <= id < llen L -> clock_ok L now ->
  0 <= from < 2^32 -> 0 <= until < 2^32 -> from <= until ->
  exists arcs logs a log,
    run_model F m xff L (create_arcs L) ops = Some arcs /\
    run_spec F m xff L (map (fun _ => []) L) ops = Some logs /\
    nth_error arcs (Z.to_nat id) = Some a /\ nth_error logs (Z.to_nat id) = Some log /\
    a_step a = lay_step L id /\ a_n a = lay_n L id /\
    if (from >? now) || (until <? now - period a)
    then fetch_from_archive arcs id from until now = FNone
    else exists vs,
      fetch_from_archive arcs id from until now =
        FSeries (mkSeries (win_from a from now) (win_until a from until now) (a_step a) vs) /\
      zlen vs = (win_until a from until now - win_from a from now) / a_step a /\
      forall k, 0 <= k < zlen vs ->
        znth NaN vs k = live log (period a) (win_from a from now + k * a_step a).
Proof. exact (C01_history_fetch F m xff L ops id from until now). Qed.
Print Assumptions C01_fetch_is_last_live_write.

(** One write: the physical ring after [put] represents the log extended by that entry —
    whatever the base interval, the wrap-around position and the previous occupant. *)
Theorem C01_put_extends_log a log t v :
  Rel a log -> good_time a t -> Rel (put a t v) (mkPoint t v :: log).
Proof. exact (put_Rel a log t v). Qed.
Print Assumptions C01_put_extends_log.

(** Read contract for any state that represents a log (not only states reached from a fresh file). *)
Theorem C01_fetch_of_represented_log arcs id a log from until now :
  0 <= id -> nth_error arcs (Z.to_nat id) = Some a -> Rel a log ->
  period a <= now -> now + 2 * a_step a < TMAX ->
  0 <= from < 2^32 -> 0 <= until < 2^32 -> from <= until ->
  if (from >? now) || (until <? now - period a)
  then fetch_from_archive arcs id from until now = FNone
  else
    let f := win_from a from now in let u := win_until a from until now in
    exists vs,
      fetch_from_archive arcs id from until now = FSeries (mkSeries f u (a_step a) vs) /\
      zlen vs = (u - f) / a_step a /\
      forall k, 0 <= k < (u - f) / a_step a -> znth NaN vs k = live log (period a) (f + k * a_step a).
Proof. exact (fetch_named arcs id a log from until now). Qed.
Print Assumptions C01_fetch_of_represented_log.

(** "every layout in the format's range": the two layout hypotheses above hold for every archive
    list that validation accepts ([wf_layout] is the declarative form of the code's validation,
    C07), and they are satisfiable together with the clock domain. *)
Theorem C01_layout_hypotheses_are_the_validated_layouts L : wf_layout L ->
  wf_layout_full L /\ Forall (fun sn => 0 < fst sn /\ 0 < snd sn /\ fst sn * snd sn < TMAX) L.
Proof. exact (wf_layout_full_of_wf_layout L). Qed.
Print Assumptions C01_layout_hypotheses_are_the_validated_layouts.
Example C01_example : wf_layout [(1, 7); (7, 10)] /\ clock_ok [(1, 7); (7, 10)] 1700000000.
Proof. exact wf_layout_example. Qed.
