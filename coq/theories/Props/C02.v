(** * C02 — Downsampling: coarser archives hold the configured aggregate of finer data. *)
From WT Require Import Base.Wrap Base.ListX Model.Time Model.Ring Model.Update Spec.LogSpec
  Proofs.TimeProofs Proofs.RingProofs Proofs.FetchProofs Proofs.UpdateProofs Proofs.ChainProofs
  Proofs.ArchiveUpdateProofs Proofs.RoutingProofs Proofs.HistoryProofs Proofs.FrameProofs.

(** One level of propagation refines the log-level specification [spec_propagate]: for each
    coarser interval in order, the known finer values in time order ([known_log]), nothing stored
    when none is known or the known fraction is below xFilesFactor, otherwise the aggregate is
    appended to the coarser log and the next level's work list grows (de-duplicated). *)
Theorem C02_propagate_refines F m xff l : forall ts arcs logs acc,
  Rel_all arcs logs -> 1 <= l < Z.of_nat (length arcs) ->
  level_valid (layout_of arcs) l -> Forall (good_ts (layout_of arcs) l) ts ->
  match spec_propagate F m xff (layout_of arcs) logs l acc ts with
  | None => propagate F m xff arcs l acc ts = None
  | Some (logs', acc') =>
      exists arcs', propagate F m xff arcs l acc ts = Some (arcs', acc') /\
                    Rel_all arcs' logs' /\ layout_of arcs' = layout_of arcs
  end.
Proof. exact (propagate_refines F m xff l). Qed.
Print Assumptions C02_propagate_refines.

(** the level loop: continues only with the slots that were stored *)
Theorem C02_chain_refines F m xff : forall fuel arcs logs l ts,
  Rel_all arcs logs -> wf_lay (layout_of arcs) -> 1 <= l ->
  Forall (good_lvl (layout_of arcs) l) ts ->
  match spec_chain F m xff (layout_of arcs) fuel logs l ts with
  | None => chain F m xff fuel arcs l ts = None
  | Some logs' => exists arcs', chain F m xff fuel arcs l ts = Some arcs' /\
                                Rel_all arcs' logs' /\ layout_of arcs' = layout_of arcs
  end.
Proof. exact (chain_refines F m xff). Qed.
Print Assumptions C02_chain_refines.

(** an update never panics: the specification is total for the six storable methods, and the
    model returns a state whenever the specification does ([C01_fetch_is_last_live_write]) *)
Theorem C02_no_panic F m xff L logs o : 1 <= m <= 6 -> step_spec F m xff L logs o <> None.
Proof. exact (step_spec_total F m xff L logs o). Qed.
Print Assumptions C02_no_panic.

(** frame: a batch handed to archive [a] appends exactly its aligned points to log [a] and
    leaves every finer log untouched *)
Theorem C02_frame_finer_untouched F m xff L logs a pts logs' :
  spec_archive_update F m xff L logs a pts = Some logs' -> 0 <= a < zlen logs ->
  get_log logs' a = rev (align_points (lay_step L a) pts) ++ get_log logs a /\
  (forall j, 0 <= j < a -> get_log logs' j = get_log logs j) /\ zlen logs' = zlen logs.
Proof. exact (spec_archive_update_frame F m xff L logs a pts logs'). Qed.
Print Assumptions C02_frame_finer_untouched.

(** frame, coarser side: one level of propagation keeps everything the coarser log holds and adds
    entries for intervals of its work list only -- a coarser slot no written point falls into is not
    recomputed, even if it holds something else than the aggregate of the finer data (it may have been
    written directly); compared with the code by the [c02-skip] histories *)
Theorem C02_only_intervals_of_written_points_are_recomputed F m xff L l ts logs acc logs' acc' :
  spec_propagate F m xff L logs l acc ts = Some (logs', acc') -> 0 <= l < zlen logs ->
  exists added, get_log logs' l = added ++ get_log logs l /\ Forall (fun p => In (p_time p) ts) added.
Proof. exact (spec_propagate_adds F m xff L l ts logs acc logs' acc'). Qed.
Print Assumptions C02_only_intervals_of_written_points_are_recomputed.

(** ** what one coarser slot becomes (read off the specification the code refines) *)
From WT Require Import Proofs.CoreCorollaries.

(** nothing known for the coarser interval: nothing is stored and nothing is propagated further —
    an aggregate (0, NaN, a panic) is never invented from an empty set of known values *)
Theorem C02_never_from_empty F m xff L logs l acc t :
  known_log (get_log logs (l - 1)) (lay_period L (l - 1)) t (lay_step L (l - 1))
            (Z.to_nat (lay_step L l / lay_step L (l - 1))) = [] ->
  spec_propagate_one F m xff L logs l acc t = Some (logs, acc).
Proof. exact (never_from_empty F m xff L logs l acc t). Qed.
Print Assumptions C02_never_from_empty.

(** known fraction below xFilesFactor: everything is left exactly as it was *)
Theorem C02_below_threshold_unchanged F m xff L logs l acc t :
  f_frac_lt F (zlen (known_log (get_log logs (l - 1)) (lay_period L (l - 1)) t (lay_step L (l - 1))
                               (Z.to_nat (lay_step L l / lay_step L (l - 1)))))
            (lay_step L l / lay_step L (l - 1)) xff = true ->
  spec_propagate_one F m xff L logs l acc t = Some (logs, acc).
Proof. exact (below_threshold_unchanged F m xff L logs l acc t). Qed.
Print Assumptions C02_below_threshold_unchanged.

(** otherwise exactly one entry is appended to the coarser log: the aggregate of the known finer
    values in time order; recomputation continues to the next level only for this stored slot *)
Theorem C02_stored_value F m xff L logs l acc t v :
  let kv := known_log (get_log logs (l - 1)) (lay_period L (l - 1)) t (lay_step L (l - 1))
                      (Z.to_nat (lay_step L l / lay_step L (l - 1))) in
  kv <> [] -> f_frac_lt F (zlen kv) (lay_step L l / lay_step L (l - 1)) xff = false -> aggregate F m kv = Some v ->
  spec_propagate_one F m xff L logs l acc t =
  Some (add_log logs l (mkPoint t v),
        if l + 1 <? Z.of_nat (length L) then push_dedup acc (t - t mod lay_step L (l + 1)) else acc).
Proof. exact (stored_value F m xff L logs l acc t v). Qed.
Print Assumptions C02_stored_value.

(** the six aggregation methods over the known values in time order, for every float-operation record *)
Theorem C02_methods F kv x r : kv = x :: r ->
  aggregate F Average kv = Some (f_div_len F (fsum F kv) (zlen kv)) /\
  aggregate F Sum kv = Some (fsum F kv) /\
  aggregate F First kv = Some x /\
  aggregate F Last kv = Some (last kv x) /\
  aggregate F Max kv = Some (fold_left (fun mx v => if f_lt F mx v then v else mx) kv x) /\
  aggregate F Min kv = Some (fold_left (fun mn v => if f_lt F v mn then v else mn) kv x).
Proof. exact (aggregate_methods F kv x r). Qed.
Print Assumptions C02_methods.

(** ** the meaning of the known-fraction test for the float operations the code uses (the execution
    instance [flocq_fops]: IEEE binary32 from Flocq).  [f_frac_lt k n xff] is exactly
    round32(k / n) < xff over the reals (k known of n finer slots, n below 2^24, xff finite), hence
    rounding never rejects a fraction that is at least xFilesFactor: a coarser slot is left
    unstored only if the true fraction of known finer slots is below xFilesFactor.
    (These two theorems mention Flocq's reals and depend on the standard library's real-number
    axioms, as Print Assumptions shows; everything above is closed under the global context.) *)
From Coq Require Import Reals.
From Flocq Require Import Core.Core IEEE754.BinarySingleNaN IEEE754.Binary IEEE754.Bits.
From WT Require Import Inst.FloatInst Proofs.FracProofs.
Theorem C02_known_fraction_test_meaning k n xff :
  0 <= k <= n -> 0 < n < 2^24 -> is_finite 24 128 (b32_of_bits xff) = true ->
  (f_frac_lt flocq_fops k n xff = true <->
   (round radix2 (SpecFloat.fexp 24 128) ZnearestE (IZR k / IZR n) < B2R 24 128 (b32_of_bits xff))%R).
Proof. exact (fl_frac_lt_spec k n xff). Qed.
Print Assumptions C02_known_fraction_test_meaning.

Theorem C02_fraction_at_least_xff_is_stored k n xff :
  0 <= k <= n -> 0 < n < 2^24 -> is_finite 24 128 (b32_of_bits xff) = true ->
  (B2R 24 128 (b32_of_bits xff) <= IZR k / IZR n)%R -> f_frac_lt flocq_fops k n xff = false.
Proof. exact (fraction_at_least_xff_is_stored k n xff). Qed.
Print Assumptions C02_fraction_at_least_xff_is_stored.
