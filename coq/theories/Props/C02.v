(** * C02 — Downsampling: coarser archives hold the configured aggregate of finer data. *)
From WT Require Import Base.Wrap Base.ListX Model.Time Model.Ring Model.Update Spec.LogSpec
  Proofs.TimeProofs Proofs.RingProofs Proofs.FetchProofs Proofs.UpdateProofs Proofs.ChainProofs
  Proofs.ArchiveUpdateProofs Proofs.RoutingProofs Proofs.HistoryProofs Proofs.FrameProofs.

(** One level of propagation refines the log-level specification [spec_propagate]: for each
    coarser interval in order, the known finer values in time order ([known_log]), nothing stored
    when none is known or the known fraction is below xFilesFactor, otherwise the aggregate is
    appended to the coarser log and the next level's work list grows (de-duplicated). *)
Theorem C02_propagate_refines F m xff l : forall ts arcs logs acc,
  Rel_all arcs logs -> 1 <= l < Z.of_nat (length arcs) ->
  level_valid (layout_of arcs) l -> Forall (good_ts (layout_of arcs) l) ts ->
  match spec_propagate F m xff (layout_of arcs) logs l acc ts with
  | None => propagate F m xff arcs l acc ts = None
  | Some (logs', acc') =>
      exists arcs', propagate F m xff arcs l acc ts = Some (arcs', acc') /\
                    Rel_all arcs' logs' /\ layout_of arcs' = layout_of arcs
  end.
Proof. exact (propagate_refines F m xff l). Qed.
Print Assumptions C02_propagate_refines.

(** the level loop: continues only with the slots that were stored *)
Theorem C02_chain_refines F m xff : forall fuel arcs logs l ts,
  Rel_all arcs logs -> wf_lay (layout_of arcs) -> 1 <= l ->
  Forall (good_lvl (layout_of arcs) l) ts ->
  match spec_chain F m xff (layout_of arcs) fuel logs l ts with
  | None => chain F m xff fuel arcs l ts = None
  | Some logs' => exists arcs', chain F m xff fuel arcs l ts = Some arcs' /\
                                Rel_all arcs' logs' /\ layout_of arcs' = layout_of arcs
  end.
Proof. exact (chain_refines F m xff). Qed.
Print Assumptions C02_chain_refines.

(** an update never panics: the specification is total for the six storable methods, and the
    model returns a state whenever the specification does ([C01_fetch_is_last_live_write]) *)
Theorem C02_no_panic F m xff L logs o : 1 <= m <= 6 -> step_spec F m xff L logs o <> None.
Proof. exact (step_spec_total F m xff L logs o). Qed.
Print Assumptions C02_no_panic.

(** frame: a batch handed to archive [a] appends exactly its aligned points to log [a] and
    leaves every finer log untouched *)
Theorem C02_frame_finer_untouched F m xff L logs a pts logs' :
  spec_archive_update F m xff L logs a pts = Some logs' -> 0 <= a < zlen logs ->
  get_log logs' a = rev (align_points (lay_step L a) pts) ++ get_log logs a /\
  (forall j, 0 <= j < a -> get_log logs' j = get_log logs j) /\ zlen logs' = zlen logs.
Proof. exact (spec_archive_update_frame F m xff L logs a pts logs'). Qed.
Print Assumptions C02_frame_finer_untouched.
