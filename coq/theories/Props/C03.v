(** * C03 — Write acceptance and routing to the finest archive covering a point's age. *)
From Coq Require Import Sorting.Sorted.
From WT Require Import Base.Wrap Base.ListX Model.Time Model.Ring Model.Update Spec.LogSpec
  Proofs.TimeProofs Proofs.RingProofs Proofs.FetchProofs Proofs.UpdateProofs Proofs.ChainProofs
  Proofs.ArchiveUpdateProofs Proofs.RoutingProofs Proofs.HistoryProofs.

(** the split performed for one archive on the time-sorted batch is the age filter: no point
    younger than the retention is lost because of other points of the batch *)
Theorem C03_extract_is_age_filter l now R : StronglySorted le_time l -> 0 < R <= now -> now < TMAX ->
  extract_points l now R =
  (filter (fun p => now - R <? p_time p) l, filter (fun p => p_time p <=? now - R) l).
Proof. exact (extract_points_sorted l now R). Qed.
Print Assumptions C03_extract_is_age_filter.

(** the batch loop refines [spec_many_loop]: archive by archive, the points whose age is below
    that archive's retention (and not below a finer one's) — or, for a named archive, exactly
    the points younger than its retention *)
Theorem C03_batch_routing F m xff arcs0 now id : forall todo i arcs logs pts,
  todo = skipn (Z.to_nat i) arcs0 -> 0 <= i ->
  layout_of arcs = layout_of arcs0 -> Forall (hdr_ok now) arcs0 -> now < TMAX ->
  Rel_all arcs logs -> wf_lay (layout_of arcs) ->
  StronglySorted le_time pts -> Forall (fun p => good_raw (layout_of arcs) (p_time p)) pts ->
  match spec_many_loop F m xff (layout_of arcs) (map period todo) i logs pts id now with
  | None => update_many_loop F m xff todo i arcs pts id now = UPanic
  | Some logs' => exists arcs', update_many_loop F m xff todo i arcs pts id now = UOk arcs' /\
                                Rel_all arcs' logs' /\ layout_of arcs' = layout_of arcs
  end.
Proof. exact (update_many_loop_refines F m xff arcs0 now id). Qed.
Print Assumptions C03_batch_routing.

(** one step of a history (single or batch update) refines [step_spec]: single updates are
    accepted iff now - maxRetention < t <= now and go to the first archive whose retention is at
    least the age ([route_single]) *)
Theorem C03_step_refines F m xff arcs logs o :
  Rel_all arcs logs -> wf_layout_full (layout_of arcs) -> op_ok (layout_of arcs) o ->
  match step_spec F m xff (layout_of arcs) logs o with
  | None => step_model F m xff (layout_of arcs) arcs o = None
  | Some logs' => exists arcs', step_model F m xff (layout_of arcs) arcs o = Some arcs' /\
                                Rel_all arcs' logs' /\ layout_of arcs' = layout_of arcs
  end.
Proof. exact (step_refines F m xff arcs logs o). Qed.
Print Assumptions C03_step_refines.

(** ** single updates *)
From WT Require Import Proofs.CoreCorollaries.

(** accepted exactly when the timestamp is not in the future and younger than the maximum retention *)
Theorem C03_single_accept_iff F m xff maxret arcs id t v now :
  0 < maxret <= now -> now < TMAX -> 0 <= t < 2^32 ->
  (update_point_for_archive F m xff maxret arcs id t v now = UErr <-> (t <= now - maxret \/ now < t)).
Proof. exact (single_update_accept_iff F m xff maxret arcs id t v now). Qed.
Print Assumptions C03_single_accept_iff.

(** stored in the finest archive whose retention is at least the point's age: every finer archive
    is too short *)
Theorem C03_single_archive arcs t now : arcs <> [] -> Forall wf_arc arcs -> 0 <= t <= now -> now < TMAX ->
  let id := find_best arcs t now in
  0 <= id < zlen arcs /\
  (forall j a, 0 <= j < id -> nth_error arcs (Z.to_nat j) = Some a -> period a < now - t).
Proof. exact (single_update_archive arcs t now). Qed.
Print Assumptions C03_single_archive.

(** ** points of a batch that fall into the same slot
    The batch is sorted by time with a STABLE sort and written in that order; the last written
    point of a slot wins.  Precisely (reading of the property's last sentence that the code, its
    anchor "stable sort by time ... same-slot resolution (last wins)" and the reference
    implementation share): among points with equal timestamps the one supplied last wins
    ([C03_equal_times_keep_supplied_order] + [C03_same_slot_last_of_sorted_batch_wins]); among
    points with different timestamps in one slot the one with the later timestamp wins, however
    the batch was ordered; nothing else about the order of the batch matters
    ([C03_order_matters_only_among_equal_timestamps]). *)
From WT Require Import Proofs.FrameProofs Proofs.SameSlotProofs.

Theorem C03_equal_times_keep_supplied_order t l :
  filter (at_time t) (sort_points l) = filter (at_time t) l.
Proof. exact (sort_points_stable t l). Qed.
Print Assumptions C03_equal_times_keep_supplied_order.

Theorem C03_order_matters_only_among_equal_timestamps F m xff arcs l1 l2 id now :
  (forall t, filter (at_time t) l1 = filter (at_time t) l2) ->
  update_points_for_archive F m xff arcs l1 id now = update_points_for_archive F m xff arcs l2 id now.
Proof. exact (update_order_irrelevant F m xff arcs l1 l2 id now). Qed.
Print Assumptions C03_order_matters_only_among_equal_timestamps.

(** [find_time (rev l) e]: the value of the last point of [l] whose (aligned) time is [e] *)
Theorem C03_same_slot_last_of_sorted_batch_wins F m xff L logs a pts logs' f n e :
  spec_archive_update F m xff L logs a pts = Some logs' -> 0 <= a < zlen logs ->
  0 < lay_step L a -> 0 < n <= lay_n L a ->
  Forall (fun p => 0 <= p_time p < 2^32 /\ in_window f (lay_step L a) n (interval_w (lay_step L a) (p_time p))) pts ->
  in_window f (lay_step L a) n e ->
  live_opt (get_log logs' a) (lay_period L a) e =
  match find_time (rev (map (align1 (lay_step L a)) pts)) e with
  | Some v => Some v
  | None => live_opt (get_log logs a) (lay_period L a) e
  end.
Proof. exact (same_slot_last_wins F m xff L logs a pts logs' f n e). Qed.
Print Assumptions C03_same_slot_last_of_sorted_batch_wins.

(** a batch that supplies two points for one slot, in both orders: with equal timestamps the last
    supplied wins; with different timestamps the later timestamp wins in both orders *)
Example C03_same_slot_example :
  let batch1 := [mkPoint 1700000005 1; mkPoint 1700000005 2] in      (* equal times: 2 supplied last *)
  let batch2 := [mkPoint 1700000007 1; mkPoint 1700000003 2] in      (* later time first: 1 wins *)
  let batch3 := [mkPoint 1700000003 2; mkPoint 1700000007 1] in
  find_time (rev (map (align1 10) (sort_points batch1))) 1700000000 = Some 2 /\
  find_time (rev (map (align1 10) (sort_points batch2))) 1700000000 = Some 1 /\
  find_time (rev (map (align1 10) (sort_points batch3))) 1700000000 = Some 1.
Proof. vm_compute. auto. Qed.

(** ** the calls that read the clock: [Whisper.Update] / [UpdateMany] are the best-archive updates at
    the instant the library's clock shows (operations [setclock], [wupd], [wmany]) *)
From WT Require Import Model.Handle.
Theorem C03_update_reads_the_clock F clock h t v :
  w_update F clock h t v = h_update F h ArchiveIDBest t v clock.
Proof. reflexivity. Qed.
Print Assumptions C03_update_reads_the_clock.

Theorem C03_update_many_reads_the_clock F clock h pts :
  w_update_many F clock h pts = h_update_many F h pts ArchiveIDBest clock.
Proof. reflexivity. Qed.
Print Assumptions C03_update_many_reads_the_clock.

Theorem C03_clock_update_accept_iff F clock h t v :
  0 < hd_maxret h <= clock -> clock < TMAX -> 0 <= t < 2^32 ->
  (snd (w_update F clock h t v) = OutErr <-> (t <= clock - hd_maxret h \/ clock < t)).
Proof.
  intros Hm Hc Ht. rewrite C03_update_reads_the_clock. unfold h_update.
  pose proof (single_update_accept_iff F (hd_method h) (hd_xff h) (hd_maxret h) (hd_arcs h) ArchiveIDBest t v clock Hm Hc Ht) as H.
  destruct (update_point_for_archive F (hd_method h) (hd_xff h) (hd_maxret h) (hd_arcs h) ArchiveIDBest t v clock) eqn:E; cbn [snd].
  - split; intros _; [now apply H | reflexivity].
  - split; [discriminate|]. intros X. apply H in X. discriminate.
  - split; [discriminate|]. intros X. apply H in X. discriminate.
Qed.
Print Assumptions C03_clock_update_accept_iff.
