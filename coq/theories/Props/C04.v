(** * C04 — Fetch window contract: the shape depends only on layout, window and clock. *)
From WT Require Import Base.Wrap Base.ListX Model.Time Model.Ring Spec.LogSpec
  Proofs.TimeProofs Proofs.RingProofs Proofs.FetchProofs.

Theorem C04_error_interval arcs id from until now : from > until ->
  fetch_from_archive arcs id from until now = FErrInterval.
Proof. exact (fetch_err_interval arcs id from until now). Qed.
Print Assumptions C04_error_interval.

Theorem C04_error_archive arcs id from until now : from <= until ->
  (id < -1 \/ zlen arcs <= id) -> fetch_from_archive arcs id from until now = FErrArchive.
Proof. exact (fetch_err_archive arcs id from until now). Qed.
Print Assumptions C04_error_archive.

(** named archive: no series iff the window is wholly in the future or wholly before the
    retention; otherwise bounds, step and count as stated, values = live (content enters only
    through the values, never through the shape) *)
Theorem C04_named_shape arcs id a log from until now :
  0 <= id -> nth_error arcs (Z.to_nat id) = Some a -> Rel a log ->
  period a <= now -> now + 2 * a_step a < TMAX ->
  0 <= from < 2^32 -> 0 <= until < 2^32 -> from <= until ->
  if (from >? now) || (until <? now - period a)
  then fetch_from_archive arcs id from until now = FNone
  else
    let f := win_from a from now in let u := win_until a from until now in
    exists vs,
      fetch_from_archive arcs id from until now = FSeries (mkSeries f u (a_step a) vs) /\
      zlen vs = (u - f) / a_step a /\
      forall k, 0 <= k < (u - f) / a_step a -> znth NaN vs k = live log (period a) (f + k * a_step a).
Proof. exact (fetch_named arcs id a log from until now). Qed.
Print Assumptions C04_named_shape.

(** 'best' = the first archive whose retention reaches back to the requested from, else the last *)
Theorem C04_best_is_first_covering arcs from until now : arcs <> [] -> Forall wf_arc arcs -> from <= until ->
  from <= now < TMAX -> 0 <= from ->
  let id := best_spec (map period arcs) from now in
  0 <= id < zlen arcs /\
  fetch_from_archive arcs ArchiveIDBest from until now = fetch_from_archive arcs id from until now.
Proof. exact (fetch_best_is_named arcs from until now). Qed.
Print Assumptions C04_best_is_first_covering.
