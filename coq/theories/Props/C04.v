(** * C04 — Fetch window contract: the shape depends only on layout, window and clock. *)
From WT Require Import Base.Wrap Base.ListX Model.Time Model.Ring Spec.LogSpec
  Proofs.TimeProofs Proofs.RingProofs Proofs.FetchProofs.

Theorem C04_error_interval arcs id from until now : from > until ->
  fetch_from_archive arcs id from until now = FErrInterval.
Proof. exact (fetch_err_interval arcs id from until now). Qed.
Print Assumptions C04_error_interval.

Theorem C04_error_archive arcs id from until now : from <= until ->
  (id < -1 \/ zlen arcs <= id) -> fetch_from_archive arcs id from until now = FErrArchive.
Proof. exact (fetch_err_archive arcs id from until now). Qed.
Print Assumptions C04_error_archive.

(** named archive: no series iff the window is wholly in the future or wholly before the
    retention; otherwise bounds, step and count as stated, values = live (content enters only
    through the values, never through the shape) *)
Theorem C04_named_shape arcs id a log from until now :
  0 <= id -> nth_error arcs (Z.to_nat id) = Some a -> Rel a log ->
  period a <= now -> now + 2 * a_step a < TMAX ->
  0 <= from < 2^32 -> 0 <= until < 2^32 -> from <= until ->
  if (from >? now) || (until <? now - period a)
  then fetch_from_archive arcs id from until now = FNone
  else
    let f := win_from a from now in let u := win_until a from until now in
    exists vs,
      fetch_from_archive arcs id from until now = FSeries (mkSeries f u (a_step a) vs) /\
      zlen vs = (u - f) / a_step a /\
      forall k, 0 <= k < (u - f) / a_step a -> znth NaN vs k = live log (period a) (f + k * a_step a).
Proof. exact (fetch_named arcs id a log from until now). Qed.
Print Assumptions C04_named_shape.

(** 'best' = the first archive whose retention reaches back to the requested from, else the last *)
Theorem C04_best_is_first_covering arcs from until now : arcs <> [] -> Forall wf_arc arcs -> from <= until ->
  from <= now < TMAX -> 0 <= from ->
  let id := best_spec (map period arcs) from now in
  0 <= id < zlen arcs /\
  fetch_from_archive arcs ArchiveIDBest from until now = fetch_from_archive arcs id from until now.
Proof. exact (fetch_best_is_named arcs from until now). Qed.
Print Assumptions C04_best_is_first_covering.

(** THE CONTRACT IN ONE EQUATION: for every list of well-formed archives (any contents), every
    archive id — named, 'best' (-1) or out of range —, every window and every clock of the domain,
    the shape of the result (error kind / no series / bounds, step, count) is [shape_spec] of the
    layout, the window and the clock *)
From WT Require Import Model.Update Model.Codec Model.Handle Model.FileImage Proofs.HostileProofs Proofs.ShapeProofs.

Theorem C04_shape arcs id from until now :
  arcs <> [] -> Forall wf_arc arcs ->
  Forall (fun a => period a <= now /\ now + 2 * a_step a < TMAX) arcs ->
  0 <= from < 2^32 -> 0 <= until < 2^32 ->
  shape_of (fetch_from_archive arcs id from until now) = Some (shape_spec (layout_of arcs) id from until now).
Proof. exact (fetch_shape arcs id from until now). Qed.
Print Assumptions C04_shape.

(** the shape never depends on what has been stored *)
Theorem C04_content_independent arcs1 arcs2 id from until now :
  layout_of arcs1 = layout_of arcs2 ->
  arcs1 <> [] -> Forall wf_arc arcs1 -> Forall wf_arc arcs2 ->
  Forall (fun a => period a <= now /\ now + 2 * a_step a < TMAX) arcs1 ->
  Forall (fun a => period a <= now /\ now + 2 * a_step a < TMAX) arcs2 ->
  0 <= from < 2^32 -> 0 <= until < 2^32 ->
  shape_of (fetch_from_archive arcs1 id from until now) = shape_of (fetch_from_archive arcs2 id from until now).
Proof. exact (fetch_shape_content_independent arcs1 arcs2 id from until now). Qed.
Print Assumptions C04_content_independent.

(** the premises are satisfiable, and the equation computes: a never-written 2-archive file *)
Example C04_example :
  shape_of (fetch_from_archive (create_arcs [(1, 4); (2, 8)]) (-1) 1000 1000 1002) = Some (SShape 1001 1002 1 1) /\
  shape_spec [(1, 4); (2, 8)] (-1) 1000 1000 1002 = SShape 1001 1002 1 1.
Proof. vm_compute. split; reflexivity. Qed.

(** ** the calls that read the clock: [Whisper.Fetch] is the best-archive fetch at the instant the
    library's clock shows, and a [now] argument of 0 stands for that instant (exercised with the clock
    variable replaced: operations [setclock], [wfetch]) *)
Theorem C04_fetch_reads_the_clock clock h from until :
  clock <> 0 -> w_fetch clock h from until = fetch_from_archive (hd_arcs h) ArchiveIDBest from until clock.
Proof. intros H. unfold w_fetch, h_fetch_clock, h_fetch, resolve_now. cbn. reflexivity. Qed.
Print Assumptions C04_fetch_reads_the_clock.

Theorem C04_zero_now_is_the_clock clock h id from until now :
  h_fetch_clock clock h id from until now = fetch_from_archive (hd_arcs h) id from until (if now =? 0 then clock else now).
Proof. reflexivity. Qed.
Print Assumptions C04_zero_now_is_the_clock.

Theorem C04_clock_fetch_shape clock h from until :
  hd_arcs h <> [] -> Forall wf_arc (hd_arcs h) ->
  Forall (fun a => period a <= clock /\ clock + 2 * a_step a < TMAX) (hd_arcs h) ->
  0 <= from < 2^32 -> 0 <= until < 2^32 ->
  shape_of (w_fetch clock h from until) = Some (shape_spec (layout_of (hd_arcs h)) ArchiveIDBest from until clock).
Proof.
  intros Hne Hwf Hclk Hf Hu. unfold w_fetch, h_fetch_clock, h_fetch, resolve_now. cbn [Z.eqb].
  exact (fetch_shape (hd_arcs h) ArchiveIDBest from until clock Hne Hwf Hclk Hf Hu).
Qed.
Print Assumptions C04_clock_fetch_shape.
