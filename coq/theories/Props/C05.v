(** * C05 — Sync persistence: synced state survives reopen; unsynced changes stay off disk.
    Two layers.  The page buffer (github.com/hnakamur/filebuffer, modelled in Model/FileBuf.v):
    reads and writes go to cached pages, only Flush touches the disk.  The handle
    (Model/Handle.v): Sync copies the handle's state to the disk, a fresh Open reads the disk. *)
From WT Require Import Base.Wrap Base.ListX Base.Bytes Model.Time Model.Ring Model.Update Model.Codec Model.Handle
  Model.FileBuf Proofs.FileBufProofs Proofs.HandleProofs.

(** ** page buffer, for every page size, file size, offset and length (slots straddling pages included) *)
Theorem C05_write_changes_view_only_in_range b off data : fb_inv b -> 0 < zlen data ->
  match write_at b off data with
  | IoErr => ~ (0 <= off /\ off + zlen data <= fb_size b)
  | IoOk b' =>
    fb_inv b' /\ fb_disk b' = fb_disk b /\
    forall j, 0 <= j < fb_size b ->
      view b' j = if (off <=? j) && (j <? off + zlen data) then znth 0 data (j - off) else view b j
  end.
Proof. exact (write_at_spec b off data). Qed.
Print Assumptions C05_write_changes_view_only_in_range.

Theorem C05_read_returns_view b off len : fb_inv b -> 0 < len ->
  match read_at b off len with
  | IoErr => ~ (0 <= off /\ off + len <= fb_size b)
  | IoOk (b', data) =>
    fb_inv b' /\ fb_disk b' = fb_disk b /\ fb_dirty b' = fb_dirty b /\
    (forall i, 0 <= i < fb_size b -> view b' i = view b i) /\
    data = map (fun k => view b (off + Z.of_nat k)) (seq 0 (Z.to_nat len))
  end.
Proof. exact (read_at_spec b off len). Qed.
Print Assumptions C05_read_returns_view.

(** the file's bytes change only in Flush *)
Theorem C05_write_leaves_disk b off data b' : write_at b off data = IoOk b' -> fb_disk b' = fb_disk b.
Proof. exact (write_at_disk b off data b'). Qed.
Print Assumptions C05_write_leaves_disk.
Theorem C05_read_leaves_disk b off len b' data : read_at b off len = IoOk (b', data) -> fb_disk b' = fb_disk b.
Proof. exact (read_at_disk b off len b' data). Qed.
Print Assumptions C05_read_leaves_disk.

(** after Flush the disk holds exactly what the handle showed, the file length is unchanged, and
    the handle shows the same as before *)
Theorem C05_flush_disk_is_view b : fb_inv b -> forall i, 0 <= i < fb_size b ->
  znth 0 (fb_disk (flush b)) i = view b i.
Proof. exact (flush_disk_is_view b). Qed.
Print Assumptions C05_flush_disk_is_view.
Theorem C05_flush_keeps_length b : fb_size (flush b) = fb_size b.
Proof. exact (flush_size b). Qed.
Print Assumptions C05_flush_keeps_length.
Theorem C05_flush_keeps_view b j : fb_inv b -> 0 <= j < fb_size b -> view (flush b) j = view b j.
Proof. exact (flush_view b j). Qed.
Print Assumptions C05_flush_keeps_view.

(** ** handle: histories of updates and Syncs *)
(** a fresh Open after Sync sees, for every archive and window, what the live handle sees *)
Theorem C05_reopen_equals_live h id from until now :
  exists h', reopen (sync h) = Some h' /\ h_fetch h' id from until now = h_fetch h id from until now.
Proof. exact (sync_then_reopen_fetch h id from until now). Qed.
Print Assumptions C05_reopen_equals_live.

(** for every history and every abandonment point: dropping the handle leaves on disk precisely
    the state at the last Sync (for every float-operation record) *)
Theorem C05_abandon_leaves_last_sync F h before after :
  forallb (fun o => negb (is_sync o)) after = true ->
  hd_disk (hrun F h (before ++ HSync :: after)) = hd_arcs (hrun F h before) /\
  hd_hdr_on_disk (hrun F h (before ++ HSync :: after)) = true.
Proof. exact (abandon_leaves_last_sync F h before after). Qed.
Print Assumptions C05_abandon_leaves_last_sync.

Theorem C05_no_sync_no_change F h ops :
  forallb (fun o => negb (is_sync o)) ops = true ->
  hd_disk (hrun F h ops) = hd_disk h /\ hd_hdr_on_disk (hrun F h ops) = hd_hdr_on_disk h.
Proof. exact (abandon_before_any_sync F h ops). Qed.
Print Assumptions C05_no_sync_no_change.
