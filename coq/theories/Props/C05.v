(** * C05 — Sync persistence: synced state survives reopen; unsynced changes stay off disk.
    Two layers.  The page buffer (github.com/hnakamur/filebuffer, modelled in Model/FileBuf.v):
    reads and writes go to cached pages, only Flush touches the disk.  The handle
    (Model/Handle.v): Sync copies the handle's state to the disk, a fresh Open reads the disk. *)
From WT Require Import Base.Wrap Base.ListX Base.Bytes Model.Time Model.Ring Model.Update Model.Codec Model.Handle
  Model.FileBuf Proofs.FileBufProofs Proofs.HandleProofs.

(** ** page buffer, for every page size, file size, offset and length (slots straddling pages included) *)
Theorem C05_write_changes_view_only_in_range b off data : fb_inv b -> 0 < zlen data ->
  match write_at b off data with
  | IoErr => ~ (0 <= off /\ off + zlen data <= fb_size b)
  | IoOk b' =>
    fb_inv b' /\ fb_disk b' = fb_disk b /\
    forall j, 0 <= j < fb_size b ->
      view b' j = if (off <=? j) && (j <? off + zlen data) then znth 0 data (j - off) else view b j
  end.
Proof. exact (write_at_spec b off data). Qed.
Print Assumptions C05_write_changes_view_only_in_range.

Theorem C05_read_returns_view b off len : fb_inv b -> 0 < len ->
  match read_at b off len with
  | IoErr => ~ (0 <= off /\ off + len <= fb_size b)
  | IoOk (b', data) =>
    fb_inv b' /\ fb_disk b' = fb_disk b /\ fb_dirty b' = fb_dirty b /\
    (forall i, 0 <= i < fb_size b -> view b' i = view b i) /\
    data = map (fun k => view b (off + Z.of_nat k)) (seq 0 (Z.to_nat len))
  end.
Proof. exact (read_at_spec b off len). Qed.
Print Assumptions C05_read_returns_view.

(** the file's bytes change only in Flush *)
Theorem C05_write_leaves_disk b off data b' : write_at b off data = IoOk b' -> fb_disk b' = fb_disk b.
Proof. exact (write_at_disk b off data b'). Qed.
Print Assumptions C05_write_leaves_disk.
Theorem C05_read_leaves_disk b off len b' data : read_at b off len = IoOk (b', data) -> fb_disk b' = fb_disk b.
Proof. exact (read_at_disk b off len b' data). Qed.
Print Assumptions C05_read_leaves_disk.

(** after Flush the disk holds exactly what the handle showed, the file length is unchanged, and
    the handle shows the same as before *)
Theorem C05_flush_disk_is_view b : fb_inv b -> forall i, 0 <= i < fb_size b ->
  znth 0 (fb_disk (flush b)) i = view b i.
Proof. exact (flush_disk_is_view b). Qed.
Print Assumptions C05_flush_disk_is_view.
Theorem C05_flush_keeps_length b : fb_size (flush b) = fb_size b.
Proof. exact (flush_size b). Qed.
Print Assumptions C05_flush_keeps_length.
Theorem C05_flush_keeps_view b j : fb_inv b -> 0 <= j < fb_size b -> view (flush b) j = view b j.
Proof. exact (flush_view b j). Qed.
Print Assumptions C05_flush_keeps_view.

(** ** handle: histories of updates and Syncs *)
(** a fresh Open after Sync sees, for every archive and window, what the live handle sees *)
Theorem C05_reopen_equals_live h id from until now :
  exists h', reopen (sync h) = Some h' /\ h_fetch h' id from until now = h_fetch h id from until now.
Proof. exact (sync_then_reopen_fetch h id from until now). Qed.
Print Assumptions C05_reopen_equals_live.

(** for every history and every abandonment point: dropping the handle leaves on disk precisely
    the state at the last Sync (for every float-operation record) *)
Theorem C05_abandon_leaves_last_sync F h before after :
  forallb (fun o => negb (is_sync o)) after = true ->
  hd_disk (hrun F h (before ++ HSync :: after)) = hd_arcs (hrun F h before) /\
  hd_hdr_on_disk (hrun F h (before ++ HSync :: after)) = true.
Proof. exact (abandon_leaves_last_sync F h before after). Qed.
Print Assumptions C05_abandon_leaves_last_sync.

Theorem C05_no_sync_no_change F h ops :
  forallb (fun o => negb (is_sync o)) ops = true ->
  hd_disk (hrun F h ops) = hd_disk h /\ hd_hdr_on_disk (hrun F h ops) = hd_hdr_on_disk h.
Proof. exact (abandon_before_any_sync F h ops). Qed.
Print Assumptions C05_no_sync_no_change.

(** ** the two layers composed (Proofs/SlotBytesProofs.v): the handle model's slots ARE the bytes
    seen through the page buffer.  [bytes_view b] is the file as the handle sees it,
    [encode_image h arcs] the byte image of header [h] and archives [arcs] (C06),
    [slot_offset h arcs a j] = header length + 12 * (slots of the archives before [a]) + 12 * [j]. *)
From WT Require Import Model.FileImage Proofs.CodecProofs Proofs.ImageProofs Proofs.SlotBytesProofs.

(** a 12-byte slot write through the buffer is [putPointAt] on the archives; the disk is untouched *)
Theorem C05_slot_write_is_put_and_stays_off_disk b h arcs a r j p :
  fb_inv b -> bytes_view b = encode_image h arcs ->
  nth_error arcs a = Some r -> (j < length (a_slots r))%nat ->
  exists b', write_at b (Z.of_nat (slot_offset h arcs a j)) (enc_point p) = IoOk b' /\
             fb_inv b' /\ fb_disk b' = fb_disk b /\
             bytes_view b' = encode_image h (set_arc arcs (Z.of_nat a) (put_at r (Z.of_nat j) p)).
Proof. exact (slot_write_through_buffer b h arcs a r j p). Qed.
Print Assumptions C05_slot_write_is_put_and_stays_off_disk.

(** a slot read through the buffer returns the stored point and changes neither view nor disk *)
Theorem C05_slot_read_returns_slot b h arcs a r j :
  fb_inv b -> bytes_view b = encode_image h arcs ->
  nth_error arcs a = Some r -> (j < length (a_slots r))%nat ->
  exists b', read_at b (Z.of_nat (slot_offset h arcs a j)) 12 = IoOk (b', enc_point (nth j (a_slots r) zero_point)) /\
             fb_inv b' /\ fb_disk b' = fb_disk b /\ bytes_view b' = bytes_view b.
Proof. exact (slot_read_through_buffer b h arcs a r j). Qed.
Print Assumptions C05_slot_read_returns_slot.

(** Sync (Flush) then a fresh Open: exactly the header and archives the handle showed *)
Theorem C05_flush_then_open_reads_the_handle_state b h arcs :
  fb_inv b -> bytes_view b = encode_image h arcs ->
  wf_header h -> 0 < h_count h -> matches (h_arcs h) arcs ->
  open_image (fb_disk (flush b)) = Some (h, arcs).
Proof. exact (flush_then_open b h arcs). Qed.
Print Assumptions C05_flush_then_open_reads_the_handle_state.

(** Create again (open flag without O_EXCL) over a synced file with the same header: the disk is what it
    was, the handle shows what was synced, and abandoning it changes nothing (operation [createover]) *)
Theorem C05_create_over_synced_file_changes_nothing_before_sync h h' :
  create_over h = Some h' -> hd_disk h' = hd_disk h /\ hd_arcs h' = hd_disk h /\ reopen h' = Some h'.
Proof.
  unfold create_over, reopen. destruct (hd_hdr_on_disk h) eqn:E; [|discriminate].
  intros H; inversion H; subst h'; cbn. repeat split; reflexivity.
Qed.
Print Assumptions C05_create_over_synced_file_changes_nothing_before_sync.
