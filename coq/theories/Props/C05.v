(** * C05 — Sync persistence. *)
From WT Require Import Base.Wrap Base.ListX Model.FileBuf Proofs.FileBufProofs.

Theorem C05_flush_disk_is_view b : fb_inv b -> forall i, 0 <= i < fb_size b ->
  znth 0 (fb_disk (flush b)) i = view b i.
Proof. exact (flush_disk_is_view b). Qed.
Print Assumptions C05_flush_disk_is_view.
