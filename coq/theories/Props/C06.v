(** * C06 — On-disk format is classic Whisper and interoperates with the reference reader.
    Byte-level theorems about [encode_image] (what a synced file holds) and [open_image] (what
    Open reads).  The agreement of the two readers on the same bytes is checked on every run by
    running whispertool, the real go-whisper and both reader models on files written by either
    library (its statement as a theorem relating [gw_fetch] and [fetch_from_archive] is in
    Proofs/ReaderProofs.v when present; see DESIGN.md). *)
From WT Require Import Base.Wrap Base.ListX Base.Bytes Model.Time Model.Ring Model.Update Model.Codec Model.Handle
  Model.FileImage Proofs.CodecProofs Proofs.ImageProofs.

(** total length: header (16 + 12 per archive) + 12 bytes per slot *)
Theorem C06_file_length h arcs :
  zlen (encode_image h arcs) = 16 + 12 * zlen (h_arcs h) + 12 * slots_total arcs.
Proof. exact (encode_image_length h arcs). Qed.
Print Assumptions C06_file_length.

(** big-endian header fields in the classic order, archives contiguous in declaration order *)
Theorem C06_header_layout h arcs :
  encode_image h arcs =
  be32 (u32 (h_method h)) ++ be32 (u32 (h_maxret h)) ++ be32 (h_xff h) ++ be32 (h_count h)
  ++ flat_map (fun a => be32 (ai_off a) ++ be32 (u32 (ai_step a)) ++ be32 (ai_n a)) (h_arcs h)
  ++ flat_map enc_slots arcs.
Proof. exact (encode_image_header_layout h arcs). Qed.
Print Assumptions C06_header_layout.

(** the offsets of a validated header are the running sums 16 + 12k + 12 * (points before) *)
Theorem C06_offsets_contiguous l off64 : 0 <= off64 ->
  validate_from (off64 mod 2^32) off64 l = true -> map ai_off l = offs_from off64 l.
Proof. exact (validate_from_offs l off64). Qed.
Print Assumptions C06_offsets_contiguous.

(** reading back: Open on the laid-out bytes yields the same header and every slot *)
Theorem C06_open_inverts_layout h arcs :
  wf_header h -> 0 < h_count h -> matches (h_arcs h) arcs ->
  open_image (encode_image h arcs) = Some (h, arcs).
Proof. exact (open_image_encode h arcs). Qed.
Print Assumptions C06_open_inverts_layout.
