(** * C06 — On-disk format is classic Whisper and interoperates with the reference reader.
    Byte-level theorems about [encode_image] (what a synced file holds) and [open_image] (what
    Open reads), and the agreement of the reference reader ([gw_fetch], a transcription of
    go-whisper's Fetch for the classic format, validated against the real go-whisper on every run)
    with whispertool's reader on the same archives. *)
From Coq Require Import Sorting.Sorted.
From WT Require Import Base.Wrap Base.ListX Base.Bytes Model.Time Model.Ring Model.Update Model.Codec Model.Handle
  Model.FileImage Model.GoWhisperRef Proofs.TimeProofs Proofs.RingProofs Proofs.FetchProofs
  Proofs.CodecProofs Proofs.ImageProofs Proofs.ReaderProofs.

(** total length: header (16 + 12 per archive) + 12 bytes per slot *)
Theorem C06_file_length h arcs :
  zlen (encode_image h arcs) = 16 + 12 * zlen (h_arcs h) + 12 * slots_total arcs.
Proof. exact (encode_image_length h arcs). Qed.
Print Assumptions C06_file_length.

(** big-endian header fields in the classic order, archives contiguous in declaration order *)
Theorem C06_header_layout h arcs :
  encode_image h arcs =
  be32 (u32 (h_method h)) ++ be32 (u32 (h_maxret h)) ++ be32 (h_xff h) ++ be32 (h_count h)
  ++ flat_map (fun a => be32 (ai_off a) ++ be32 (u32 (ai_step a)) ++ be32 (ai_n a)) (h_arcs h)
  ++ flat_map enc_slots arcs.
Proof. exact (encode_image_header_layout h arcs). Qed.
Print Assumptions C06_header_layout.

(** the offsets of a validated header are the running sums 16 + 12k + 12 * (points before) *)
Theorem C06_offsets_contiguous l off64 : 0 <= off64 ->
  validate_from (off64 mod 2^32) off64 l = true -> map ai_off l = offs_from off64 l.
Proof. exact (validate_from_offs l off64). Qed.
Print Assumptions C06_offsets_contiguous.

(** reading back: Open on the laid-out bytes yields the same header and every slot *)
Theorem C06_open_inverts_layout h arcs :
  wf_header h -> 0 < h_count h -> matches (h_arcs h) arcs ->
  open_image (encode_image h arcs) = Some (h, arcs).
Proof. exact (open_image_encode h arcs). Qed.
Print Assumptions C06_open_inverts_layout.

(** the two readers agree: for every list of well-formed rings with strictly increasing retentions
    whose slot-0 timestamps are 0 (never written) or aligned instants, every clock of the domain and
    every window that is not degenerate on a never-written archive, go-whisper's Fetch returns
    "no series" exactly when whispertool does, and otherwise the very same series (bounds, step,
    every value) *)
Theorem C06_readers_agree arcs maxret from until now :
  arcs <> [] -> Forall wf_arc arcs -> Forall base_ok arcs ->
  StronglySorted (fun x y => period x < period y) arcs ->
  (forall d, maxret = period (last arcs d)) ->
  maxret <= now -> Forall (fun a => now + 2 * a_step a < TMAX) arcs ->
  0 <= from -> from <= until -> until < 2^32 ->
  (forall a, In a arcs -> base_interval a = 0 ->
     gw_interval (a_step a) (Z.max from (now - maxret)) <> gw_interval (a_step a) (Z.min until now)) ->
  match gw_fetch arcs maxret from until now with
  | GwErr => False
  | GwNone => fetch_from_archive arcs ArchiveIDBest from until now = FNone
  | GwSeries s => fetch_from_archive arcs ArchiveIDBest from until now = FSeries s
  end.
Proof. exact (gw_eq_wt_best arcs maxret from until now). Qed.
Print Assumptions C06_readers_agree.

(** archive level: the slot range and the stale-lap elimination coincide *)
Theorem C06_archive_readers_agree arcs id a from until now :
  0 <= id -> nth_error arcs (Z.to_nat id) = Some a -> wf_arc a -> base_ok a ->
  period a <= now -> now + 2 * a_step a < TMAX ->
  now - period a <= from -> from <= until -> until <= now ->
  (base_interval a = 0 -> gw_interval (a_step a) from <> gw_interval (a_step a) until) ->
  fetch_from_archive arcs id from until now = FSeries (gw_fetch_archive a from until).
Proof. exact (gw_archive_eq_wt arcs id a from until now). Qed.
Print Assumptions C06_archive_readers_agree.
