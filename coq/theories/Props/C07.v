(** * C07 — Layout validation: exactly the well-formed archive lists are accepted.
    [wf_layout] (Spec/WfLayout.v) is the property's rule list over unbounded integers. *)
From WT Require Import Base.Wrap Base.ListX Base.Bytes Model.Time Model.Ring Model.Codec Model.Text
  Spec.WfLayout Proofs.CodecProofs Proofs.LayoutProofs Proofs.EntryProofs.

(** the validation used by every entry point (32-bit arithmetic of the code, with its explicit
    range checks) accepts a list with freshly filled offsets iff the list is well formed *)
Theorem C07_validate_iff_wf l : Forall fields_ok l ->
  (validate (fill_offset l) = true <-> wf_layout (pairs l)).
Proof. exact (validate_fill_offset_iff l). Qed.
Print Assumptions C07_validate_iff_wf.

(** Create / NewHeader *)
Theorem C07_new_header_accepts_iff m xff l :
  (exists h, new_header m xff l = Some h) <->
  valid_method m = true /\ valid_xff xff = true /\ validate (fill_offset l) = true.
Proof. exact (new_header_accepts_iff m xff l). Qed.
Print Assumptions C07_new_header_accepts_iff.

(** decoding a header (Open, the HTTP client): same rules, and the stored offsets must be the
    contiguous ones *)
Theorem C07_decode_accepts_iff h r :
  0 <= h_method h < 2^32 -> - 2^31 <= h_maxret h < 2^31 -> 0 <= h_xff h < 2^32 ->
  h_count h = zlen (h_arcs h) -> h_count h < 2^32 -> Forall wf_ainfo (h_arcs h) ->
  (dec_header (enc_header h ++ r) = Ok h r <->
   valid_method (h_method h) = true /\ valid_xff (h_xff h) = true /\ h_count h * 12 <= MaxInt32 /\
   validate (h_arcs h) = true /\ fill_offset (h_arcs h) = h_arcs h).
Proof. exact (dec_header_accepts_iff h r). Qed.
Print Assumptions C07_decode_accepts_iff.

(** parsing a retention string *)
Theorem C07_parse_validated s l : parse_archive_info_list s = Some l ->
  validate l = true /\ fill_offset l = l.
Proof. exact (parse_list_validated s l). Qed.
Print Assumptions C07_parse_validated.

(** anything accepted round-trips through the header encoding *)
Theorem C07_header_roundtrip h r : wf_header h -> dec_header (enc_header h ++ r) = Ok h r.
Proof. exact (header_roundtrip h r). Qed.
Print Assumptions C07_header_roundtrip.

(** a well-formed list has at most 31 archives (steps at least double), so the decoder's
    bound on the archive count never rejects one *)
Theorem C07_wf_layout_short l : wf_layout l -> zlen l <= 31.
Proof. exact (wf_layout_short l). Qed.
Print Assumptions C07_wf_layout_short.

(** "xFilesFactor a number within [0,1]": the bit test the model uses ([valid_xff], mirroring
    validateXFilesFactor's NaN / < 0 / > 1 tests) accepts exactly the float32 bit patterns that
    denote a real number in [0,1] (-0 included), with Flocq's IEEE-754 semantics of the bits.
    This theorem depends on the standard library's axioms of the real numbers (named below by
    Print Assumptions and in the trusted base). *)
From Coq Require Import Reals.
From Flocq Require Import Core.Core IEEE754.Binary IEEE754.Bits.
From WT Require Import Proofs.XffProofs.
Theorem C07_xff_valid_iff_number_in_unit_interval b : 0 <= b < 2^32 ->
  (valid_xff b = true <->
   match b32_of_bits b with
   | B754_nan _ _ _ _ _ => False
   | B754_infinity _ _ _ => False
   | x => (0 <= B2R 24 128 x <= 1)%R
   end).
Proof. exact (valid_xff_iff_b32 b). Qed.
Print Assumptions C07_xff_valid_iff_number_in_unit_interval.
