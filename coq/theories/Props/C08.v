(** * C08 — copy makes the destination equal to the source over the requested window.
    End to end ([C08_successful_copy_equalizes]): for every destination content that some history of
    updates can produce, every valid layout, every clock of the domain, every window, archive
    selection and NaN mode, and every well-formed source series list (in particular the one read from
    any source file, [C08_source_lists_are_well_formed]): a copy that reports success leaves a
    destination which, opened afresh, answers the same fetch with series of the same ranges whose
    difference from the source list is empty — slot by slot the destination holds the source's value
    wherever it is to be copied ([C08_empty_difference_slotwise]); hence a second copy does nothing
    ([C08_repeat_copy_changes_nothing]) and diff is clean ([C08_then_diff_is_clean]).  Around the
    write: a failure leaves an existing destination untouched, a missing destination is created,
    nothing is written when nothing differs. *)
From WT Require Import Base.Wrap Base.ListX Model.Time Model.Ring Model.Update Spec.LogSpec Model.Handle Model.Cmd
  Proofs.TimeProofs Proofs.FetchProofs Proofs.ChainProofs Proofs.HistoryProofs Proofs.CmdProofs Proofs.FrameProofs Proofs.CopyProofs Proofs.LayoutBridge Model.World Proofs.WorldProofs.

Theorem C08_failure_leaves_existing_dest F src dh o until now :
  r_status (copy_core F src (Some dh) o until now) <> StOk ->
  r_dest (copy_core F src (Some dh) o until now) = Some dh.
Proof. exact (copy_core_failure_leaves_dest F src dh o until now). Qed.
Print Assumptions C08_failure_leaves_existing_dest.

Theorem C08_creates_missing_dest F src o until now fresh :
  create (co_method o) (co_xff o) (co_layout o) = Some fresh ->
  exists d, r_dest (copy_core F src None o until now) = Some d /\ hd_hdr_on_disk d = true.
Proof. exact (copy_core_creates_missing_dest F src o until now fresh). Qed.
Print Assumptions C08_creates_missing_dest.

Theorem C08_nothing_differs_nothing_written F sh sl dh d dl o until now fresh :
  create (co_method o) (co_xff o) (co_layout o) = Some fresh ->
  opened (Some dh) = Some d ->
  fetch_ts_list (hd_arcs d) (co_archive o) (co_from o) until now = TslOk dl ->
  layout_eqb (layout_of_arcs (hd_arcs sh)) (layout_of_arcs (hd_arcs d)) = true ->
  all_eq_range_step sl dl = true ->
  all_empty (fst (tsl_diff (co_copy_nan o) sl dl)) && all_empty (snd (tsl_diff (co_copy_nan o) sl dl)) = true ->
  copy_core F (RdOk sh sl) (Some dh) o until now = mkResult StOk (Some dh) [].
Proof. exact (copy_core_nothing_to_do F sh sl dh d dl o until now fresh). Qed.
Print Assumptions C08_nothing_differs_nothing_written.

(** the two facts the slot-wise equality rests on (log level): a batch handed to archive [a]
    prepends exactly its aligned points to log [a] and leaves finer logs alone; prepending entries
    that lie in one window changes [live] only at those entries' own slots *)
Theorem C08_batch_frame F m xff L logs a pts logs' :
  spec_archive_update F m xff L logs a pts = Some logs' -> 0 <= a < zlen logs ->
  get_log logs' a = rev (align_points (lay_step L a) pts) ++ get_log logs a /\
  (forall j, 0 <= j < a -> get_log logs' j = get_log logs j) /\ zlen logs' = zlen logs.
Proof. exact (spec_archive_update_frame F m xff L logs a pts logs'). Qed.
Print Assumptions C08_batch_frame.
Theorem C08_window_write_is_local es log f S n N e :
  0 < S -> 0 < n <= N -> Forall (fun p => in_window f S n (p_time p)) es -> in_window f S n e ->
  live_opt (es ++ log) (S * N) e =
  match find_time es e with Some v => Some v | None => live_opt log (S * N) e end.
Proof. exact (live_prepend_window es log f S n N e). Qed.
Print Assumptions C08_window_write_is_local.

(** ** end to end *)
Theorem C08_successful_copy_equalizes F sh sl dest o until now d logs :
  (match dest with Some _ => opened dest
   | None => match create (co_method o) (co_xff o) (co_layout o) with Some fresh => Some (sync fresh) | None => None end end) = Some d ->
  Rel_all (hd_arcs d) logs -> 1 <= hd_method d <= 6 ->
  wf_layout_full (layout_of (hd_arcs d)) -> clock_ok (layout_of (hd_arcs d)) now ->
  0 <= co_from o < 2^32 -> 0 <= until < 2^32 -> co_from o <= until -> Forall series_wf sl ->
  r_status (copy_core F (RdOk sh sl) dest o until now) = StOk ->
  exists dfin dread dl',
    r_dest (copy_core F (RdOk sh sl) dest o until now) = Some dfin /\ reopen dfin = Some dread /\
    layout_eqb (layout_of_arcs (hd_arcs sh)) (layout_of_arcs (hd_arcs dread)) = true /\
    fetch_ts_list (hd_arcs dread) (co_archive o) (co_from o) until now = TslOk dl' /\
    all_eq_range_step sl dl' = true /\
    all_empty (fst (tsl_diff (co_copy_nan o) sl dl')) && all_empty (snd (tsl_diff (co_copy_nan o) sl dl')) = true.
Proof. exact (copy_core_equalizes F sh sl dest o until now d logs). Qed.
Print Assumptions C08_successful_copy_equalizes.

(** an empty difference, slot by slot: same window, same step, same count, and the destination
    holds the source's value wherever the source has one (everywhere, with NaN copying) *)
Theorem C08_empty_difference_slotwise cn sl dl :
  all_eq_range_step sl dl = true ->
  all_empty (fst (tsl_diff cn sl dl)) && all_empty (snd (tsl_diff cn sl dl)) = true ->
  forall q, 0 <= q < zlen sl ->
    let s := znth (empty_series 0) sl q in let d := znth (empty_series 0) dl q in
    s_from d = s_from s /\ s_until d = s_until s /\ s_step d = s_step s /\ zlen (s_vals d) = zlen (s_vals s) /\
    forall k, 0 <= k < zlen (s_vals s) ->
      (cn = true \/ is_nan (znth NaN (s_vals s) k) = false) -> veq (znth NaN (s_vals s) k) (znth NaN (s_vals d) k) = true.
Proof. exact (empty_difference_slotwise cn sl dl). Qed.
Print Assumptions C08_empty_difference_slotwise.

(** the series list read from any source file that a history of updates can produce is well formed *)
Theorem C08_source_lists_are_well_formed f aid from until now h l :
  (forall h', opened f = Some h' -> represented now h') ->
  0 <= from < 2^32 -> 0 <= until < 2^32 -> from <= until ->
  read_file f aid from until now = RdOk h l -> Forall series_wf l.
Proof. exact (read_file_wf f aid from until now h l). Qed.
Print Assumptions C08_source_lists_are_well_formed.

(** repeating the same copy changes nothing *)
Theorem C08_repeat_copy_changes_nothing F sh sl dest o until now d logs :
  (match dest with Some _ => opened dest
   | None => match create (co_method o) (co_xff o) (co_layout o) with Some fresh => Some (sync fresh) | None => None end end) = Some d ->
  Rel_all (hd_arcs d) logs -> 1 <= hd_method d <= 6 ->
  wf_layout_full (layout_of (hd_arcs d)) -> clock_ok (layout_of (hd_arcs d)) now ->
  0 <= co_from o < 2^32 -> 0 <= until < 2^32 -> co_from o <= until -> Forall series_wf sl ->
  r_status (copy_core F (RdOk sh sl) dest o until now) = StOk ->
  exists dfin, r_dest (copy_core F (RdOk sh sl) dest o until now) = Some dfin /\
               copy_core F (RdOk sh sl) (Some dfin) o until now = mkResult StOk (Some dfin) [].
Proof.
  intros Hd HRA Hm Hwff Hclock Hfrom Huntil Hfu Hswf Hok.
  destruct (copy_core_equalizes F sh sl dest o until now d logs Hd HRA Hm Hwff Hclock Hfrom Huntil Hfu Hswf Hok)
    as (dfin & dread & dl' & Hdest & Hre & Hlay & Hdl & Heq & Hemp).
  exists dfin. split; [exact Hdest|].
  destruct (create (co_method o) (co_xff o) (co_layout o)) as [fresh|] eqn:Ec.
  - exact (copy_core_nothing_to_do F sh sl dfin dread dl' o until now fresh Ec Hre Hdl Hlay Heq Hemp).
  - unfold copy_core in Hok. rewrite Ec in Hok. cbn in Hok. discriminate.
Qed.
Print Assumptions C08_repeat_copy_changes_nothing.

(** ... and diff over the same window reports no difference (NaN copying on) *)
Theorem C08_then_diff_is_clean fsub check sh sl dread dl' :
  layout_eqb (layout_of_arcs (hd_arcs sh)) (layout_of_arcs (hd_arcs dread)) = true ->
  all_eq_range_step sl dl' = true ->
  all_empty (fst (tsl_diff true sl dl')) && all_empty (snd (tsl_diff true sl dl')) = true ->
  diff_core fsub check sh sl dread dl' = (StOk, []).
Proof.
  intros Hlay Heq Hemp. unfold diff_core. rewrite Hlay, Heq. cbn [negb andb]. rewrite andb_false_r.
  destruct (tsl_diff true sl dl') as [a b]. cbn [fst snd] in Hemp. rewrite Hemp. reflexivity.
Qed.
Print Assumptions C08_then_diff_is_clean.

(** ** with a glob pattern: one job (source, destination) per matched file, run in order on the
    files the previous jobs left ([run_copies]; the harness pairs every matched source with the same
    relative path under the destination base).  When no file is both a source and a destination
    and the destinations are distinct ([separate]), a run that reports success has done, for EVERY
    matched file, exactly what the single-file copy does on the files as they were (which by the
    theorems above makes that destination equal to its source over the window), and no other file
    -- in particular no source -- has changed. *)
Theorem C08_glob_copies_every_matched_file F o w jobs nows dflt w' out :
  separate (Z * Z) snd copy_reads jobs ->
  run_copies F false o w jobs nows dflt = (w', StOk, out) ->
  (forall i s d, nth_error jobs i = Some (s, d) ->
     let r := copy_one F (wget w s) (wget w d) o (now_at nows dflt i) in
     r_status r = StOk /\
     wget w' d = match r_dest r with Some h => Some h | None => wget w d end) /\
  (forall k, (forall j, In j jobs -> k <> snd j) -> wget w' k = wget w k).
Proof. exact (glob_copies_every_matched_file F o w jobs nows dflt w' out). Qed.
Print Assumptions C08_glob_copies_every_matched_file.

(** ... and a run that fails stopped at the first file whose copy fails alone: the files before it
    were copied, the destinations after it are untouched *)
Theorem C08_glob_stops_at_first_failure F o w jobs nows dflt w' st out :
  separate (Z * Z) snd copy_reads jobs -> st <> StOk ->
  run_copies F false o w jobs nows dflt = (w', st, out) ->
  exists n s d, nth_error jobs n = Some (s, d) /\
    r_status (copy_one F (wget w s) (wget w d) o (now_at nows dflt n)) = st /\
    (forall i s' d', (i < n)%nat -> nth_error jobs i = Some (s', d') ->
       r_status (copy_one F (wget w s') (wget w d') o (now_at nows dflt i)) = StOk) /\
    (forall i l, (n < i)%nat -> nth_error jobs i = Some l -> wget w' (snd l) = wget w (snd l)).
Proof. exact (glob_stops_at_first_failure F o w jobs nows dflt w' st out). Qed.
Print Assumptions C08_glob_stops_at_first_failure.

(** the separation premise is what a glob run gives: sources under one base, destinations under another *)
Example C08_glob_example : separate (Z * Z) snd copy_reads [(1, 11); (2, 12); (3, 13)].
Proof. cbn; repeat split; try (repeat constructor; cbn; intuition lia). Qed.

(** the premises are satisfiable: a freshly created destination is represented by empty logs *)
Example C08_example : exists d logs,
  create 2 0 [(1, 7); (7, 10)] = Some d /\ Rel_all (hd_arcs (sync d)) logs /\
  wf_layout_full (layout_of (hd_arcs (sync d))) /\ clock_ok (layout_of (hd_arcs (sync d))) 1700000000.
Proof.
  destruct wf_layout_example as [Hwf Hck].
  destruct (wf_layout_full_of_wf_layout _ Hwf) as [Hfull HL].
  destruct (create_Rel_all _ HL) as [HRA Hlay].
  exists (mkHandle 2 0 70 (create_arcs [(1, 7); (7, 10)]) (create_arcs [(1, 7); (7, 10)]) false).
  exists (map (fun _ => []) [(1, 7); (7, 10)]). split; [vm_compute; reflexivity|].
  cbn [sync hd_arcs]. split; [exact HRA|]. rewrite Hlay. split; assumption.
Qed.

(** ** the creation options (-agg-method, -x-files-factor, -retentions) describe a destination that has to be
    created; when the destination exists -- and the options are ones a file could be created with --
    what is copied does not depend on them: not the window, not the archives, not the outcome
    (compared with the code by the [c08-*-shortopt] cases: -retentions shorter than the files) *)
Theorem C08_existing_destination_ignores_creation_options F src dh o o' until now :
  co_from o' = co_from o -> co_archive o' = co_archive o -> co_copy_nan o' = co_copy_nan o ->
  create (co_method o) (co_xff o) (co_layout o) <> None ->
  create (co_method o') (co_xff o') (co_layout o') <> None ->
  copy_core F src (Some dh) o' until now = copy_core F src (Some dh) o until now.
Proof.
  intros Hf Ha Hn Hc Hc'. unfold copy_core.
  destruct (create (co_method o) (co_xff o) (co_layout o)); [|contradiction].
  destruct (create (co_method o') (co_xff o') (co_layout o')); [|contradiction].
  rewrite Hf, Ha, Hn. reflexivity.
Qed.
Print Assumptions C08_existing_destination_ignores_creation_options.
