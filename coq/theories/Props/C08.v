(** * C08 — copy makes the destination equal to the source over the requested window.
    Proved here: what the command does around the write (never modifies the source — the source
    is not part of the result; creates a missing destination; writes nothing unless it reports
    success; does nothing when nothing differs).  The slot-wise equality after a successful copy
    is the composition of C01 (fetch = live of the log), [spec_archive_update_frame] and
    [live_prepend_window]; its end-to-end statement over [copy_core] is listed as open in DESIGN.md. *)
From WT Require Import Base.Wrap Base.ListX Model.Time Model.Ring Model.Update Spec.LogSpec Model.Handle Model.Cmd
  Proofs.CmdProofs Proofs.FrameProofs.

Theorem C08_failure_leaves_existing_dest F src dh o until now :
  r_status (copy_core F src (Some dh) o until now) <> StOk ->
  r_dest (copy_core F src (Some dh) o until now) = Some dh.
Proof. exact (copy_core_failure_leaves_dest F src dh o until now). Qed.
Print Assumptions C08_failure_leaves_existing_dest.

Theorem C08_creates_missing_dest F src o until now fresh :
  create (co_method o) (co_xff o) (co_layout o) = Some fresh ->
  exists d, r_dest (copy_core F src None o until now) = Some d /\ hd_hdr_on_disk d = true.
Proof. exact (copy_core_creates_missing_dest F src o until now fresh). Qed.
Print Assumptions C08_creates_missing_dest.

Theorem C08_nothing_differs_nothing_written F sh sl dh d dl o until now fresh :
  create (co_method o) (co_xff o) (co_layout o) = Some fresh ->
  opened (Some dh) = Some d ->
  fetch_ts_list (hd_arcs d) (co_archive o) (co_from o) until now = TslOk dl ->
  layout_eqb (layout_of_arcs (hd_arcs sh)) (layout_of_arcs (hd_arcs d)) = true ->
  all_eq_range_step sl dl = true ->
  all_empty (fst (tsl_diff (co_copy_nan o) sl dl)) && all_empty (snd (tsl_diff (co_copy_nan o) sl dl)) = true ->
  copy_core F (RdOk sh sl) (Some dh) o until now = mkResult StOk (Some dh) [].
Proof. exact (copy_core_nothing_to_do F sh sl dh d dl o until now fresh). Qed.
Print Assumptions C08_nothing_differs_nothing_written.

(** the two facts the slot-wise equality rests on (log level): a batch handed to archive [a]
    prepends exactly its aligned points to log [a] and leaves finer logs alone; prepending entries
    that lie in one window changes [live] only at those entries' own slots *)
Theorem C08_batch_frame F m xff L logs a pts logs' :
  spec_archive_update F m xff L logs a pts = Some logs' -> 0 <= a < zlen logs ->
  get_log logs' a = rev (align_points (lay_step L a) pts) ++ get_log logs a /\
  (forall j, 0 <= j < a -> get_log logs' j = get_log logs j) /\ zlen logs' = zlen logs.
Proof. exact (spec_archive_update_frame F m xff L logs a pts logs'). Qed.
Print Assumptions C08_batch_frame.
Theorem C08_window_write_is_local es log f S n N e :
  0 < S -> 0 < n <= N -> Forall (fun p => in_window f S n (p_time p)) es -> in_window f S n e ->
  live_opt (es ++ log) (S * N) e =
  match find_time es e with Some v => Some v | None => live_opt log (S * N) e end.
Proof. exact (live_prepend_window es log f S n N e). Qed.
Print Assumptions C08_window_write_is_local.
