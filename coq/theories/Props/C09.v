(** * C09 — diff reports exactly the slots that differ. *)
From WT Require Import Base.Wrap Base.ListX Model.Time Model.Ring Model.Update Model.Handle Model.Cmd Proofs.CmdProofs.

(** equality of values: two NaNs are equal whatever their payloads, a NaN never equals a number,
    +0 equals -0, otherwise numbers are equal iff their bit patterns are (last-bit differences count) *)
Theorem C09_value_equality v u :
  (is_nan v = true -> is_nan u = true -> veq v u = true) /\
  (is_nan v = true -> is_nan u = false -> veq v u = false) /\
  (is_nan v = false -> is_nan u = false -> veq v u = ((v =? u) || (is_zero_bits v && is_zero_bits u))) /\
  veq v u = veq u v /\ veq v v = true.
Proof.
  repeat split; [apply veq_nan_nan|apply veq_nan_num|apply veq_num|apply veq_sym|apply veq_refl].
Qed.
Print Assumptions C09_value_equality.

(** the listing is exactly the slots that differ, in slot order, with both values *)
Theorem C09_listing_exact cn step f1 f2 v1 v2 i :
  diff_vals cn step f1 f2 i v1 v2 =
  split (map (slot_points step f1 f2) (filter (differs cn step f1 f2) (slots_from i v1 v2))).
Proof. exact (diff_vals_spec cn step f1 f2 v1 v2 i). Qed.
Print Assumptions C09_listing_exact.

(** nothing is listed iff no slot differs *)
Theorem C09_clean_iff_no_slot_differs cn step f1 f2 v1 v2 i :
  fst (diff_vals cn step f1 f2 i v1 v2) = [] <->
  forall s, In s (slots_from i v1 v2) -> differs cn step f1 f2 s = false.
Proof. exact (diff_vals_empty_iff cn step f1 f2 v1 v2 i). Qed.
Print Assumptions C09_clean_iff_no_slot_differs.

(** the verdict is symmetric *)
Theorem C09_symmetric step f v1 v2 i :
  fst (diff_vals true step f f i v1 v2) = [] <-> fst (diff_vals true step f f i v2 v1) = [].
Proof. exact (diff_vals_empty_sym step f v1 v2 i). Qed.
Print Assumptions C09_symmetric.

(** a file compared with itself (or with an exact copy: equal header and equal series) is clean *)
Theorem C09_self_clean fsub h l : diff_core fsub true h l h l = (StOk, []).
Proof. exact (diff_core_self fsub h l). Qed.
Print Assumptions C09_self_clean.

(** the comparison itself yields clean / difference / error (unequal layouts, unalike ranges) — never a panic *)
Theorem C09_verdicts fsub cr sh sl dh dl :
  fst (diff_core fsub cr sh sl dh dl) = StOk \/ fst (diff_core fsub cr sh sl dh dl) = StDiff \/
  fst (diff_core fsub cr sh sl dh dl) = StErr.
Proof. exact (diff_core_status fsub cr sh sl dh dl). Qed.
Print Assumptions C09_verdicts.

(** ** glob mode, missing files, unequal layouts, and what a listed slot prints *)
Theorem C09_glob_every_file_compared_one_difference_decides jobs :
  Forall (fun j => fst j = StOk \/ fst j = StDiff) jobs ->
  fst (run_diffs jobs) = (if existsb is_diff jobs then StDiff else StOk) /\ snd (run_diffs jobs) = map snd jobs.
Proof. exact (run_diffs_all_compared jobs). Qed.
Print Assumptions C09_glob_every_file_compared_one_difference_decides.

Theorem C09_missing_file_is_a_reported_difference fsub cr h l :
  diff_two fsub cr RdNotExist (RdOk h l) = (StDiff, [RErrMissing 0]) /\
  diff_two fsub cr (RdOk h l) RdNotExist = (StDiff, [RErrMissing 1]) /\
  fst (diff_two fsub cr RdNotExist RdNotExist) = StDiff.
Proof. exact (diff_two_missing fsub cr h l). Qed.
Print Assumptions C09_missing_file_is_a_reported_difference.

Theorem C09_unequal_layouts_are_an_error fsub cr sh sl dh dl :
  layout_eqb (layout_of_arcs (hd_arcs sh)) (layout_of_arcs (hd_arcs dh)) = false ->
  diff_core fsub cr sh sl dh dl = (StErr, []).
Proof. exact (diff_core_layout_mismatch fsub cr sh sl dh dl). Qed.
Print Assumptions C09_unequal_layouts_are_an_error.

Theorem C09_listed_slot_prints_both_values_and_difference fsub i sp dp rs rd :
  length sp = length dp ->
  diff_records_from fsub i (sp :: rs) (dp :: rd) =
  map (fun pq => RDiff i (p_time (fst pq)) (p_val (fst pq)) (p_val (snd pq)) (vdiff fsub (p_val (snd pq)) (p_val (fst pq)))) (combine sp dp)
  ++ diff_records_from fsub (i + 1) rs rd.
Proof. exact (diff_records_of_archive fsub i sp dp rs rd). Qed.
Print Assumptions C09_listed_slot_prints_both_values_and_difference.

(** ** the library's own comparison API (timeseries.go: TimeSeries.Equal, DiffPoints, Points.Equal,
    Points.Diff; run against the code by the [tsapi] operation): "equal" and "nothing listed" agree *)
Theorem C09_series_equal_iff_nothing_listed a b :
  series_equal a b = true <->
  eq_range_step a b = true /\ length (s_vals a) = length (s_vals b) /\ diff_points true a b = ([], []).
Proof. exact (series_equal_iff_no_difference a b). Qed.
Print Assumptions C09_series_equal_iff_nothing_listed.

Theorem C09_points_equal_iff_nothing_listed p q :
  points_equal p q = true <-> length p = length q /\ points_diff p q = ([], []).
Proof. exact (points_equal_iff_no_difference p q). Qed.
Print Assumptions C09_points_equal_iff_nothing_listed.
