(** * C10 — sum is the slot-wise NaN-skipping sum of the matched files. *)
From WT Require Import Base.Wrap Base.ListX Model.Time Model.Ring Model.Update Model.Handle Model.Cmd Proofs.CmdProofs.

(** for every float-operation record: the j-th summed value is the left fold of Value.Add over
    the j-th values of the files in glob order *)
Theorem C10_slotwise F d first rest j :
  Forall (fun s => length (s_vals s) = length (s_vals first)) rest -> (j < length (s_vals first))%nat ->
  nth j (s_vals (sum_series F first rest)) d =
  fold_left (vadd F) (map (fun s => nth j (s_vals s) d) rest) (nth j (s_vals first) d).
Proof. exact (sum_series_slotwise F d first rest j). Qed.
Print Assumptions C10_slotwise.

(** Value.Add skips holes: the fold is the float sum of the values present (unless that float sum
    itself overflows to NaN, e.g. +Inf + -Inf), and it is NaN when no file has a value *)
Theorem C10_sum_of_present F vs init : is_nan init = false ->
  fold_left (vadd F) vs init = fold_left (f_add F) (present vs) init \/
  exists k, is_nan (fold_left (f_add F) (firstn k (present vs)) init) = true.
Proof. exact (fold_vadd_present F vs init). Qed.
Print Assumptions C10_sum_of_present.
Theorem C10_nan_when_none F vs init : is_nan init = true -> Forall (fun v => is_nan v = true) vs ->
  is_nan (fold_left (vadd F) vs init) = true.
Proof. exact (fold_vadd_all_nan F vs init). Qed.
Print Assumptions C10_nan_when_none.

(** window and step are those of the files; a single file sums to itself *)
Theorem C10_window_step F first rest :
  s_from (sum_series F first rest) = s_from first /\ s_until (sum_series F first rest) = s_until first /\
  s_step (sum_series F first rest) = s_step first.
Proof. exact (sum_series_window F first rest). Qed.
Print Assumptions C10_window_step.
Theorem C10_single_is_identity F s : sum_series F s [] = s.
Proof. exact (sum_series_single F s). Qed.
Print Assumptions C10_single_is_identity.

(** ** what is rejected / reported as not existing *)
Theorem C10_nothing_matched_is_not_exist F aid from until now : sum_files F [] aid from until now = RdNotExist.
Proof. reflexivity. Qed.
Print Assumptions C10_nothing_matched_is_not_exist.

Theorem C10_differing_layouts_rejected F f1 f2 aid from until now h1 l1 h2 l2 :
  read_file f1 aid from until now = RdOk h1 l1 -> read_file f2 aid from until now = RdOk h2 l2 ->
  layout_eqb (layout_of_arcs (hd_arcs h1)) (layout_of_arcs (hd_arcs h2)) = false ->
  sum_files F [f1; f2] aid from until now = RdErr.
Proof.
  intros H1 H2 Hl. unfold sum_files. cbn [map existsb]. rewrite H1, H2. cbn [orb opt_all map read_ok forallb fst snd andb].
  rewrite Hl. reflexivity.
Qed.
Print Assumptions C10_differing_layouts_rejected.

(** the summed list of a successful sum: the first file's series summed with the others', archive by archive *)
Theorem C10_sum_of_two_files F f1 f2 aid from until now h1 l1 h2 l2 :
  read_file f1 aid from until now = RdOk h1 l1 -> read_file f2 aid from until now = RdOk h2 l2 ->
  layout_eqb (layout_of_arcs (hd_arcs h1)) (layout_of_arcs (hd_arcs h2)) = true -> all_eq_range_step l1 l2 = true ->
  sum_files F [f1; f2] aid from until now = RdOk h1 (sum_lists F l1 [l2]).
Proof.
  intros H1 H2 Hl He. unfold sum_files. cbn [map existsb]. rewrite H1, H2. cbn [orb opt_all map read_ok forallb fst snd andb].
  rewrite Hl, He. reflexivity.
Qed.
Print Assumptions C10_sum_of_two_files.
