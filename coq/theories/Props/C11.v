(** * C11 — sum-copy stores the sum; sum-diff agrees with it.
    sum-copy is [copy_core] with the sum as the source and NaN copying on; sum-diff is [diff_core]
    without the range check.  The theorems of C08, C09 and C10 therefore apply verbatim. *)
From WT Require Import Base.Wrap Base.ListX Model.Time Model.Ring Model.Update Model.Handle Model.Cmd Proofs.CmdProofs.

Theorem C11_sumcopy_is_copy_of_sum F files dest o now :
  sum_copy_item F files dest o now =
  copy_core F (sum_files F files (co_archive o) (co_from o) (resolve_until (co_until o) now) now) dest
    (mkCopyOpts (co_from o) (co_until o) (co_archive o) true (co_method o) (co_xff o) (co_layout o))
    (resolve_until (co_until o) now) now.
Proof. reflexivity. Qed.
Print Assumptions C11_sumcopy_is_copy_of_sum.

Theorem C11_sumdiff_is_diff_with_sum F fsub files dest aid from until0 now :
  sum_diff_item F fsub files dest aid from until0 now =
  diff_two fsub false (sum_files F files aid from (resolve_until until0 now) now)
                      (read_file dest aid from (resolve_until until0 now) now).
Proof. reflexivity. Qed.
Print Assumptions C11_sumdiff_is_diff_with_sum.

(** a destination that holds exactly the sum is reported clean *)
Theorem C11_sumdiff_clean_on_equal fsub h l : diff_core fsub false h l h l = (StOk, []).
Proof.
  unfold diff_core. rewrite layout_eqb_refl. cbn [negb andb].
  pose proof (tsl_diff_self l) as H. destruct (tsl_diff true l l) as [sd dd]. cbn [fst snd] in H.
  rewrite H. reflexivity.
Qed.
Print Assumptions C11_sumdiff_clean_on_equal.

Theorem C11_failure_leaves_existing_dest F src dh o until now :
  r_status (copy_core F src (Some dh) o until now) <> StOk ->
  r_dest (copy_core F src (Some dh) o until now) = Some dh.
Proof. exact (copy_core_failure_leaves_dest F src dh o until now). Qed.
Print Assumptions C11_failure_leaves_existing_dest.
