(** * C11 — sum-copy stores the sum; sum-diff agrees with it.
    sum-copy is [copy_core] with the sum as the source and NaN copying on; sum-diff is [diff_core]
    without the range check.  End to end ([C11_sumcopy_stores_the_sum]): the sum of any files that
    histories of updates can produce is a well-formed series list, so after a sum-copy that reports
    success the destination, opened afresh, holds in every slot of every selected archive's window a
    value equal to the sum's (NaN where the sum is NaN), and sum-diff over the same window is clean. *)
From WT Require Import Base.Wrap Base.ListX Model.Time Model.Ring Model.Update Spec.LogSpec Model.Handle Model.Cmd
  Proofs.TimeProofs Proofs.FetchProofs Proofs.ChainProofs Proofs.HistoryProofs Proofs.CmdProofs Proofs.CopyProofs Model.World Proofs.WorldProofs.

Theorem C11_sumcopy_is_copy_of_sum F files dest o now :
  sum_copy_item F files dest o now =
  copy_core F (sum_files F files (co_archive o) (co_from o) (resolve_until (co_until o) now) now) dest
    (mkCopyOpts (co_from o) (co_until o) (co_archive o) true (co_method o) (co_xff o) (co_layout o))
    (resolve_until (co_until o) now) now.
Proof. reflexivity. Qed.
Print Assumptions C11_sumcopy_is_copy_of_sum.

Theorem C11_sumdiff_is_diff_with_sum F fsub files dest aid from until0 now :
  sum_diff_item F fsub files dest aid from until0 now =
  diff_two fsub false (sum_files F files aid from (resolve_until until0 now) now)
                      (read_file dest aid from (resolve_until until0 now) now).
Proof. reflexivity. Qed.
Print Assumptions C11_sumdiff_is_diff_with_sum.

(** a destination that holds exactly the sum is reported clean *)
Theorem C11_sumdiff_clean_on_equal fsub h l : diff_core fsub false h l h l = (StOk, []).
Proof.
  unfold diff_core. rewrite layout_eqb_refl. cbn [negb andb].
  pose proof (tsl_diff_self l) as H. destruct (tsl_diff true l l) as [sd dd]. cbn [fst snd] in H.
  rewrite H. reflexivity.
Qed.
Print Assumptions C11_sumdiff_clean_on_equal.

Theorem C11_failure_leaves_existing_dest F src dh o until now :
  r_status (copy_core F src (Some dh) o until now) <> StOk ->
  r_dest (copy_core F src (Some dh) o until now) = Some dh.
Proof. exact (copy_core_failure_leaves_dest F src dh o until now). Qed.
Print Assumptions C11_failure_leaves_existing_dest.

(** ** end to end *)
Theorem C11_sum_lists_are_well_formed F files aid from until now h sl :
  Forall (fun f => forall h', opened f = Some h' -> represented now h') files ->
  0 <= from < 2^32 -> 0 <= until < 2^32 -> from <= until ->
  sum_files F files aid from until now = RdOk h sl -> Forall series_wf sl.
Proof. exact (sum_files_wf F files aid from until now h sl). Qed.
Print Assumptions C11_sum_lists_are_well_formed.

Theorem C11_sumcopy_stores_the_sum F fsub files dest o now sh sl d logs :
  let unt := resolve_until (co_until o) now in
  let o' := mkCopyOpts (co_from o) (co_until o) (co_archive o) true (co_method o) (co_xff o) (co_layout o) in
  Forall (fun f => forall h', opened f = Some h' -> represented now h') files ->
  sum_files F files (co_archive o) (co_from o) unt now = RdOk sh sl ->
  (match dest with Some _ => opened dest
   | None => match create (co_method o) (co_xff o) (co_layout o) with Some fresh => Some (sync fresh) | None => None end end) = Some d ->
  Rel_all (hd_arcs d) logs -> 1 <= hd_method d <= 6 ->
  wf_layout_full (layout_of (hd_arcs d)) -> clock_ok (layout_of (hd_arcs d)) now ->
  0 <= co_from o < 2^32 -> 0 <= unt < 2^32 -> co_from o <= unt ->
  r_status (sum_copy_item F files dest o now) = StOk ->
  exists dfin dread dl',
    r_dest (sum_copy_item F files dest o now) = Some dfin /\ reopen dfin = Some dread /\
    fetch_ts_list (hd_arcs dread) (co_archive o) (co_from o) unt now = TslOk dl' /\
    all_eq_range_step sl dl' = true /\
    (* every slot: the destination's value equals the sum's, NaN included *)
    (forall q, 0 <= q < zlen sl -> forall k, 0 <= k < zlen (s_vals (znth (empty_series 0) sl q)) ->
       veq (znth NaN (s_vals (znth (empty_series 0) sl q)) k) (znth NaN (s_vals (znth (empty_series 0) dl' q)) k) = true) /\
    (* and sum-diff is clean *)
    diff_core fsub false sh sl dread dl' = (StOk, []).
Proof.
  intros unt o' Hrep Hsum Hd HRA Hm Hwff Hclock Hfrom Huntil Hfu Hok.
  pose proof (sum_files_wf F files (co_archive o) (co_from o) unt now sh sl Hrep Hfrom Huntil Hfu Hsum) as Hswf.
  unfold sum_copy_item in *. fold unt in Hok |- *. rewrite Hsum in Hok |- *. fold o' in Hok |- *.
  destruct (copy_core_equalizes F sh sl dest o' unt now d logs Hd HRA Hm Hwff Hclock Hfrom Huntil Hfu Hswf Hok)
    as (dfin & dread & dl' & Hdest & Hre & Hlay & Hdl & Heq & Hemp).
  exists dfin, dread, dl'. cbn [co_archive co_from co_copy_nan o'] in *.
  split; [exact Hdest|]. split; [exact Hre|]. split; [exact Hdl|]. split; [exact Heq|]. split.
  - intros q Hq k Hk. destruct (empty_difference_slotwise true sl dl' Heq Hemp q Hq) as (_ & _ & _ & _ & Hv).
    apply Hv; [exact Hk|left; reflexivity].
  - unfold diff_core. rewrite Hlay. cbn [negb andb].
    destruct (tsl_diff true sl dl') as [a b]. cbn [fst snd] in Hemp. rewrite Hemp. reflexivity.
Qed.
Print Assumptions C11_sumcopy_stores_the_sum.

(** ** several items: one job (source files of the item, destination of the item) per matched
    item.  When no destination is a source of any item and the destinations are distinct, a sum-copy
    that reports success has done for EVERY item what the one-item command does on the files as
    they were, and no other file has changed. *)
Theorem C11_every_item_is_sum_copied F o w jobs nows dflt w' out :
  separate (list Z * Z) snd sum_copy_reads jobs ->
  run_sum_copies F false o w jobs nows dflt = (w', StOk, out) ->
  (forall i fs d, nth_error jobs i = Some (fs, d) ->
     let r := sum_copy_item F (map (wget w) fs) (wget w d) o (now_at nows dflt i) in
     r_status r = StOk /\
     wget w' d = match r_dest r with Some h => Some h | None => wget w d end) /\
  (forall k, (forall j, In j jobs -> k <> snd j) -> wget w' k = wget w k).
Proof. exact (items_sum_copied_each F o w jobs nows dflt w' out). Qed.
Print Assumptions C11_every_item_is_sum_copied.
