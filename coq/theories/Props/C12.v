(** * C12 — Remote/local transparency: the server's response decodes to what the handler read. *)
From WT Require Import Base.Wrap Base.ListX Base.Bytes Model.Time Model.Ring Model.Codec Model.Wire
  Proofs.CodecProofs Proofs.WireProofs.

Theorem C12_view_wire_roundtrip h l :
  wf_header h -> Forall wf_series l -> length l = length (h_arcs h) ->
  client_view (view_response h l) = WOk h l.
Proof. exact (client_view_of_response h l). Qed.
Print Assumptions C12_view_wire_roundtrip.

Theorem C12_view_raw_wire_roundtrip h pl :
  wf_header h -> Forall (fun ps => Forall wf_point ps /\ zlen ps <= MaxInt32) pl -> length pl = length (h_arcs h) ->
  client_view_raw (view_raw_response h pl) = WOk h pl.
Proof. exact (client_view_raw_of_response h pl). Qed.
Print Assumptions C12_view_raw_wire_roundtrip.

(** not-exist travels as the empty body and is never mistaken for data *)
Theorem C12_not_exist_is_empty_body : client_view [] = WNotExist.
Proof. exact client_view_empty. Qed.
Print Assumptions C12_not_exist_is_empty_body.

(** a server-side error (a text body) is a client-side error, never a silently wrong series *)
Theorem C12_error_body_rejected body : bytes body -> (exists b r, body = b :: r /\ 0 < b) ->
  match dec_header body with Ok _ _ => False | _ => True end.
Proof. exact (error_body_rejected body). Qed.
Print Assumptions C12_error_body_rejected.

(** ** the request: what the client puts into the query is what the handler reads.
    [q_escape] = url.QueryEscape, [parse_query] = url.ParseQuery as ParseForm applies it to the raw
    query (Model/Query.v; both are run against net/url on every check).  For EVERY byte string used
    as a value — file names and patterns with + & % = ; # / ? space, control and non-ASCII bytes —
    and plain parameter names: the parsed pairs are exactly the pairs sent, in order. *)
From WT Require Import Model.Query Proofs.QueryProofs.

Theorem C12_query_roundtrip kvs :
  Forall (fun kv => plain (fst kv) /\ Forall byte (snd kv)) kvs -> kvs <> [] ->
  parse_query (build_query kvs) = Some kvs.
Proof. exact (query_roundtrip kvs). Qed.
Print Assumptions C12_query_roundtrip.

Theorem C12_escape_unescape s : Forall byte s -> q_unescape (q_escape s) = Some s.
Proof. exact (q_unescape_escape s). Qed.
Print Assumptions C12_escape_unescape.

(** the escaped form never contains a separator of the query syntax *)
Theorem C12_escaped_has_no_separator s : Forall byte s -> Forall (fun c => c <> 38 /\ c <> 61 /\ c <> 59) (q_escape s).
Proof. exact (q_escape_safe s). Qed.
Print Assumptions C12_escaped_has_no_separator.

Example C12_query_example :
  parse_query (build_query [([102; 105; 108; 101], [97; 43; 98; 38; 99; 61; 100; 37; 52; 49; 32; 35; 59; 255]);
                            ([110; 111; 119], [50; 48; 50; 54; 58; 48; 48])])
  = Some [([102; 105; 108; 101], [97; 43; 98; 38; 99; 61; 100; 37; 52; 49; 32; 35; 59; 255]); ([110; 111; 119], [50; 48; 50; 54; 58; 48; 48])].
Proof. vm_compute. reflexivity. Qed.
