(** * C12 — Remote/local transparency: the server's response decodes to what the handler read. *)
From WT Require Import Base.Wrap Base.ListX Base.Bytes Model.Time Model.Ring Model.Codec Model.Wire
  Proofs.CodecProofs Proofs.WireProofs Model.Update Model.Handle Model.Text Model.Cmd Model.Server Proofs.ServerProofs.

Theorem C12_view_wire_roundtrip h l :
  wf_header h -> Forall wf_series l -> length l = length (h_arcs h) ->
  client_view (view_response h l) = WOk h l.
Proof. exact (client_view_of_response h l). Qed.
Print Assumptions C12_view_wire_roundtrip.

Theorem C12_view_raw_wire_roundtrip h pl :
  wf_header h -> Forall (fun ps => Forall wf_point ps /\ zlen ps <= MaxInt32) pl -> length pl = length (h_arcs h) ->
  client_view_raw (view_raw_response h pl) = WOk h pl.
Proof. exact (client_view_raw_of_response h pl). Qed.
Print Assumptions C12_view_raw_wire_roundtrip.

(** not-exist travels as the empty body and is never mistaken for data *)
Theorem C12_not_exist_is_empty_body : client_view [] = WNotExist.
Proof. exact client_view_empty. Qed.
Print Assumptions C12_not_exist_is_empty_body.

(** a server-side error (a text body) is a client-side error, never a silently wrong series *)
Theorem C12_error_body_rejected body : bytes body -> (exists b r, body = b :: r /\ 0 < b) ->
  match dec_header body with Ok _ _ => False | _ => True end.
Proof. exact (error_body_rejected body). Qed.
Print Assumptions C12_error_body_rejected.

(** ** the request: what the client puts into the query is what the handler reads.
    [q_escape] = url.QueryEscape, [parse_query] = url.ParseQuery as ParseForm applies it to the raw
    query (Model/Query.v; both are run against net/url on every check).  For EVERY byte string used
    as a value — file names and patterns with + & % = ; # / ? space, control and non-ASCII bytes —
    and plain parameter names: the parsed pairs are exactly the pairs sent, in order. *)
From WT Require Import Model.Query Proofs.QueryProofs.

Theorem C12_query_roundtrip kvs :
  Forall (fun kv => plain (fst kv) /\ Forall byte (snd kv)) kvs -> kvs <> [] ->
  parse_query (build_query kvs) = Some kvs.
Proof. exact (query_roundtrip kvs). Qed.
Print Assumptions C12_query_roundtrip.

Theorem C12_escape_unescape s : Forall byte s -> q_unescape (q_escape s) = Some s.
Proof. exact (q_unescape_escape s). Qed.
Print Assumptions C12_escape_unescape.

(** the escaped form never contains a separator of the query syntax *)
Theorem C12_escaped_has_no_separator s : Forall byte s -> Forall (fun c => c <> 38 /\ c <> 61 /\ c <> 59) (q_escape s).
Proof. exact (q_escape_safe s). Qed.
Print Assumptions C12_escaped_has_no_separator.

Example C12_query_example :
  parse_query (build_query [([102; 105; 108; 101], [97; 43; 98; 38; 99; 61; 100; 37; 52; 49; 32; 35; 59; 255]);
                            ([110; 111; 119], [50; 48; 50; 54; 58; 48; 48])])
  = Some [([102; 105; 108; 101], [97; 43; 98; 38; 99; 61; 100; 37; 52; 49; 32; 35; 59; 255]); ([110; 111; 119], [50; 48; 50; 54; 58; 48; 48])].
Proof. vm_compute. reflexivity. Qed.

(** ** end to end (Model/Server.v): the handler, given the query the client builds for a view of
    (file, archive, from, until, now), performs exactly the local read with these arguments —
    whatever bytes the file name consists of, for every archive number and every 32-bit window and
    clock — and answers with its encoded result; the client then holds the local result: the same
    header and series when the file can be read, "does not exist" when it is missing, an error
    otherwise.  The same for the sum endpoint.  ([lookup] / [glob]: the directory below the base, the
    same function on both sides because both join the relative name to the base directory.) *)
Theorem C12_server_performs_the_local_read lookup file aid from until now :
  file <> [] -> Forall byte file -> - 2^63 <= aid < 2^63 ->
  0 <= from < 2^32 -> 0 <= until < 2^32 -> 0 <= now < 2^32 ->
  handle_view lookup (view_query file aid from until now) = respond (read_file (lookup file) aid from until now).
Proof. exact (handle_view_is_local_read lookup file aid from until now). Qed.
Print Assumptions C12_server_performs_the_local_read.

Theorem C12_remote_view_is_local_view lookup file aid from until now :
  file <> [] -> Forall byte file -> - 2^63 <= aid < 2^63 ->
  0 <= from < 2^32 -> 0 <= until < 2^32 -> 0 <= now < 2^32 ->
  match read_file (lookup file) aid from until now with
  | RdNotExist => client_read (handle_view lookup (view_query file aid from until now)) = WNotExist
  | RdErr | RdPanic => client_read (handle_view lookup (view_query file aid from until now)) = WErr
  | RdOk h l =>
    forall hd, h_header h = Some hd -> wf_header hd -> Forall wf_series l -> length l = length (h_arcs hd) ->
    client_read (handle_view lookup (view_query file aid from until now)) = WOk hd l
  end.
Proof. exact (remote_view_is_local_view lookup file aid from until now). Qed.
Print Assumptions C12_remote_view_is_local_view.

Theorem C12_server_performs_the_local_sum F glob item pattern aid from until now :
  item <> [] -> pattern <> [] -> Forall byte item -> Forall byte pattern -> - 2^63 <= aid < 2^63 ->
  0 <= from < 2^32 -> 0 <= until < 2^32 -> 0 <= now < 2^32 ->
  handle_sum F glob (sum_query item pattern aid from until now) =
  respond (sum_files F (glob item pattern) aid from until now).
Proof. exact (handle_sum_is_local_sum F glob item pattern aid from until now). Qed.
Print Assumptions C12_server_performs_the_local_sum.

(** the archive number travels as decimal text *)
Theorem C12_atoi_reads_what_is_printed n : - 2^63 <= n < 2^63 -> atoi (print_int n) = Some n.
Proof. exact (atoi_print_int n). Qed.
Print Assumptions C12_atoi_reads_what_is_printed.


(** the raw dump endpoint *)
Theorem C12_remote_view_raw_is_local lookup file aid :
  file <> [] -> Forall byte file -> - 2^63 <= aid < 2^63 ->
  match read_raw (lookup file) aid with
  | RwNotExist => client_read_raw (handle_view_raw lookup (view_raw_query file aid)) = WNotExist
  | RwErr => client_read_raw (handle_view_raw lookup (view_raw_query file aid)) = WErr
  | RwOk h pl =>
    forall hd, h_header h = Some hd -> wf_header hd ->
               Forall (fun ps => Forall wf_point ps /\ zlen ps <= MaxInt32) pl -> length pl = length (h_arcs hd) ->
    client_read_raw (handle_view_raw lookup (view_raw_query file aid)) = WOk hd pl
  end.
Proof. exact (remote_view_raw_is_local lookup file aid). Qed.
Print Assumptions C12_remote_view_raw_is_local.

(** ** file and item globbing through a server: the matched names arrive unchanged as long as no
    name contains a line break or ends in a carriage return ... *)
Theorem C12_glob_names_arrive_unchanged names : Forall line_safe names -> client_names names = names.
Proof. exact (names_roundtrip names). Qed.
Print Assumptions C12_glob_names_arrive_unchanged.

(** ... and without that restriction the statement is FALSE of the code (known finding K1: the witness,
    a file named "b<LF>c", is replayed against the real client and server by the [clinewline] operation
    of every run) *)
Theorem C12_glob_names_with_line_break_refuted : exists names, client_names names <> names.
Proof. exact names_with_line_break_refuted. Qed.
Print Assumptions C12_glob_names_with_line_break_refuted.

(** ** which file a name denotes (Model/Path.v: [filepath.Join] / [Clean], compared with Go's on every
    run by the [pathclean] / [pathjoin] operations; the model's world looks every name up through the
    extracted [path_clean]).  The local read opens Join(base directory, relative name); the server opens
    Join(served directory, name received).  At the level of path elements: *)
From WT Require Import Model.Path Proofs.PathProofs.

(** what resolution keeps: a run of ".." (none under a rooted path) followed by ordinary elements *)
Theorem C12_resolved_path_shape rooted es :
  exists n p, clean_elems rooted es = dots n ++ p /\ Forall plain p /\ (rooted = true -> n = 0%nat).
Proof. exact (clean_elems_shape rooted es). Qed.
Print Assumptions C12_resolved_path_shape.

(** resolving twice is resolving once, and a resolved prefix (the base directory, given in any spelling)
    resolves the same *)
Theorem C12_resolution_idempotent rooted es : clean_elems rooted (clean_elems rooted es) = clean_elems rooted es.
Proof. exact (clean_elems_idempotent rooted es). Qed.
Print Assumptions C12_resolution_idempotent.

Theorem C12_base_spelling_is_irrelevant rooted base rel :
  clean_elems rooted (base ++ rel) = clean_elems rooted (clean_elems rooted base ++ rel).
Proof. exact (clean_elems_prefix rooted base rel). Qed.
Print Assumptions C12_base_spelling_is_irrelevant.

(** the two routes to the same file: the local read resolves (served directory + prefix) and then the
    relative name; the server receives the name the client resolved from (prefix + relative name) --
    possibly starting with ".." elements that leave the prefix -- and resolves it under the served
    directory *)
Theorem C12_server_and_local_read_resolve_the_same_file rooted dir prefix rel :
  clean_elems rooted (clean_elems rooted (dir ++ prefix) ++ rel) = clean_elems rooted (dir ++ clean_elems false (prefix ++ rel)).
Proof. exact (resolution_is_associative rooted dir prefix rel). Qed.
Print Assumptions C12_server_and_local_read_resolve_the_same_file.

Example C12_resolution_example :
  path_clean [47;115;47;105;49;47;46;46;47;46;46;47;111;117;116;47;120] = [47;111;117;116;47;120]     (* "/s/i1/../../out/x" = "/out/x" *)
  /\ path_join [[97]; []; [46;46;47;99]] = [99].                                                       (* Join("a", "", "../c") = "c" *)
Proof. split; reflexivity. Qed.
