(** * C12 — Remote/local transparency: the server's response decodes to what the handler read. *)
From WT Require Import Base.Wrap Base.ListX Base.Bytes Model.Time Model.Ring Model.Codec Model.Wire
  Proofs.CodecProofs Proofs.WireProofs.

Theorem C12_view_wire_roundtrip h l :
  wf_header h -> Forall wf_series l -> length l = length (h_arcs h) ->
  client_view (view_response h l) = WOk h l.
Proof. exact (client_view_of_response h l). Qed.
Print Assumptions C12_view_wire_roundtrip.

Theorem C12_view_raw_wire_roundtrip h pl :
  wf_header h -> Forall (fun ps => Forall wf_point ps /\ zlen ps <= MaxInt32) pl -> length pl = length (h_arcs h) ->
  client_view_raw (view_raw_response h pl) = WOk h pl.
Proof. exact (client_view_raw_of_response h pl). Qed.
Print Assumptions C12_view_raw_wire_roundtrip.

(** not-exist travels as the empty body and is never mistaken for data *)
Theorem C12_not_exist_is_empty_body : client_view [] = WNotExist.
Proof. exact client_view_empty. Qed.
Print Assumptions C12_not_exist_is_empty_body.

(** a server-side error (a text body) is a client-side error, never a silently wrong series *)
Theorem C12_error_body_rejected body : bytes body -> (exists b r, body = b :: r /\ 0 < b) ->
  match dec_header body with Ok _ _ => False | _ => True end.
Proof. exact (error_body_rejected body). Qed.
Print Assumptions C12_error_body_rejected.
