From WT Require Import Base.Wrap.
