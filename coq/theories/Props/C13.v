(** * C13 — Exclusive access: sessions on one file are serialized across handles (PARTIAL).
    The protocol of whisper.go (Open = flock(LOCK_EX) then read the header; Sync = flush;
    Close = release; a failed Open closes the descriptor) is a small-step system over an abstract
    disk [D] and handle state [H].  Assumed, not modelled: the kernel grants flock(LOCK_EX) to one
    open file description at a time and releases it on close; goroutine scheduling; GC finalisers. *)
From Coq Require Import List ZArith Lia.
Import ListNotations.
From WT Require Import Model.Lock Proofs.LockProofs.

Section C13.
Variables D H : Type.
Variable load : D -> option H.
Variable store : H -> D -> D.

(** at most one handle at a time: a thread is between Open and Close iff it owns the lock *)
Theorem C13_mutual_exclusion (s s' : sys D H) t :
  excl D H s -> step D H load store s t = Some s' -> excl D H s'.
Proof. exact (step_excl D H load store s s' t). Qed.

(** every schedule of every set of sessions is equivalent to running the sessions one after the
    other in the order in which they acquired the lock: no update is lost, and a session that opens
    the file sees the state left by a whole number of earlier sessions *)
Theorem C13_serializable sched (s : sys D H) acq d0 :
  excl D H s -> pending D H store s = sessions_of D H load store acq d0 ->
  let '(s', acq') := run_acq D H load store s acq sched in
  excl D H s' /\ pending D H store s' = sessions_of D H load store acq' d0.
Proof. exact (run_serializable D H load store sched s acq d0). Qed.

Theorem C13_disk_between_sessions sched (s : sys D H) d0 :
  excl D H s -> lock D H s = None -> disk D H s = d0 ->
  let '(s', acq') := run_acq D H load store s [] sched in
  lock D H s' = None -> disk D H s' = sessions_of D H load store acq' d0.
Proof. exact (run_serializable_idle D H load store sched s d0). Qed.

(** an Open that fails after the descriptor was obtained keeps the file neither open nor locked *)
Theorem C13_failed_open_releases (s s' : sys D H) t prog :
  nth_error (threads D H s) t = Some (Idle H prog) -> lock D H s = None -> load (disk D H s) = None ->
  step D H load store s t = Some s' -> lock D H s' = None /\ disk D H s' = disk D H s.
Proof. exact (failed_open_releases D H load store s s' t prog). Qed.
End C13.
Print Assumptions C13_mutual_exclusion.
Print Assumptions C13_serializable.
Print Assumptions C13_disk_between_sessions.
Print Assumptions C13_failed_open_releases.

(** no lost update, concretely: n concurrent open / add one / Sync / close sessions leave n,
    for every schedule that lets them all finish *)
Theorem C13_no_lost_update n sched :
  let s' := run Z Z counter_load counter_store (mkSys Z Z 0%Z None (repeat (Idle Z counter_session) n)) sched in
  idle_count Z (threads Z Z s') = 0 -> lock Z Z s' = None -> disk Z Z s' = Z.of_nat n.
Proof. exact (counter_no_lost_update n sched). Qed.
Print Assumptions C13_no_lost_update.

(** the premises are satisfiable: three sessions under a round-robin schedule *)
Example C13_example :
  let s' := run Z Z counter_load counter_store (mkSys Z Z 0%Z None (repeat (Idle Z counter_session) 3))
                (concat (repeat [0; 1; 2] 13)) in
  idle_count Z (threads Z Z s') = 0 /\ lock Z Z s' = None /\ disk Z Z s' = 3%Z.
Proof. vm_compute. repeat split. Qed.

(** the same, for whispertool's own Open / Sync (Model/Handle.v): the "disk" is the state a fresh
    Open reads ([reopen]), Sync stores the live handle ([sync]); sessions are arbitrary sequences of
    updates and Syncs.  Every schedule of every set of sessions leaves what the sessions leave when
    run one after the other in lock-acquisition order. *)
From WT Require Import Base.Wrap Base.ListX Model.Time Model.Ring Model.Update Model.Handle.
Theorem C13_whisper_sessions_serializable sched (s : sys handle handle) acq d0 :
  excl handle handle s ->
  pending handle handle (fun h _ => sync h) s = sessions_of handle handle reopen (fun h _ => sync h) acq d0 ->
  let '(s', acq') := run_acq handle handle reopen (fun h _ => sync h) s acq sched in
  excl handle handle s' /\
  pending handle handle (fun h _ => sync h) s' = sessions_of handle handle reopen (fun h _ => sync h) acq' d0.
Proof. exact (run_serializable handle handle reopen (fun h _ => sync h) sched s acq d0). Qed.
Print Assumptions C13_whisper_sessions_serializable.
