(** * C14 — Binary codec: encode/decode round-trips and frames exactly.
    Bytes are integers in [0,256); values are float64 bit patterns, so NaN payloads,
    infinities and signed zero are covered by "all 0 <= v < 2^64". *)
From WT Require Import Base.Wrap Base.ListX Base.Bytes Model.Time Model.Ring Model.Codec
  Proofs.CodecProofs Proofs.CodecTruncProofs.

(** ** round trips with an arbitrary remainder [r] *)
Theorem C14_timestamp_roundtrip t r : 0 <= t < 2^32 -> dec_ts (enc_ts t ++ r) = Ok t r.
Proof. exact (dec_ts_enc t r). Qed.
Print Assumptions C14_timestamp_roundtrip.
Theorem C14_duration_roundtrip d r : - 2^31 <= d < 2^31 -> dec_dur (enc_dur d ++ r) = Ok d r.
Proof. exact (dec_dur_enc d r). Qed.
Print Assumptions C14_duration_roundtrip.
Theorem C14_value_roundtrip v r : 0 <= v < 2^64 -> dec_val (enc_val v ++ r) = Ok v r.
Proof. exact (dec_val_enc v r). Qed.
Print Assumptions C14_value_roundtrip.
Theorem C14_point_roundtrip p r : wf_point p -> dec_point (enc_point p ++ r) = Ok p r.
Proof. exact (dec_point_enc p r). Qed.
Print Assumptions C14_point_roundtrip.
Theorem C14_points_roundtrip ps r : Forall wf_point ps -> zlen ps <= MaxInt32 ->
  dec_points_msg (enc_points ps ++ r) = Ok ps r.
Proof. exact (points_roundtrip ps r). Qed.
Print Assumptions C14_points_roundtrip.
Theorem C14_series_roundtrip s r : wf_series s -> dec_series (enc_series s ++ r) = Ok s r.
Proof. exact (series_roundtrip s r). Qed.
Print Assumptions C14_series_roundtrip.
Theorem C14_header_roundtrip h r : wf_header h -> dec_header (enc_header h ++ r) = Ok h r.
Proof. exact (header_roundtrip h r). Qed.
Print Assumptions C14_header_roundtrip.

(** ** every proper prefix asks for a larger buffer: more than given, at most the message *)
Theorem C14_timestamp_truncated t k : 0 <= k < 4 -> dec_ts (firstn (Z.to_nat k) (enc_ts t)) = Want 4.
Proof. exact (ts_truncated t k). Qed.
Print Assumptions C14_timestamp_truncated.
Theorem C14_duration_truncated d k : 0 <= k < 4 -> dec_dur (firstn (Z.to_nat k) (enc_dur d)) = Want 4.
Proof. exact (dur_truncated d k). Qed.
Print Assumptions C14_duration_truncated.
Theorem C14_value_truncated v k : 0 <= k < 8 -> dec_val (firstn (Z.to_nat k) (enc_val v)) = Want 8.
Proof. exact (val_truncated v k). Qed.
Print Assumptions C14_value_truncated.
Theorem C14_point_truncated p k : 0 <= k < 12 -> dec_point (firstn (Z.to_nat k) (enc_point p)) = Want 12.
Proof. exact (point_truncated p k). Qed.
Print Assumptions C14_point_truncated.
Theorem C14_points_truncated ps k : Forall wf_point ps -> zlen ps <= MaxInt32 -> 0 <= k < zlen (enc_points ps) ->
  exists n, dec_points_msg (firstn (Z.to_nat k) (enc_points ps)) = Want n /\ k < n <= zlen (enc_points ps).
Proof. exact (points_truncated ps k). Qed.
Print Assumptions C14_points_truncated.
Theorem C14_series_truncated s k : wf_series s -> 0 <= k < zlen (enc_series s) ->
  exists n, dec_series (firstn (Z.to_nat k) (enc_series s)) = Want n /\ k < n <= zlen (enc_series s).
Proof. exact (series_truncated s k). Qed.
Print Assumptions C14_series_truncated.
Theorem C14_header_truncated h k : wf_header h -> 0 <= k < zlen (enc_header h) ->
  exists n, dec_header (firstn (Z.to_nat k) (enc_header h)) = Want n /\ k < n <= zlen (enc_header h).
Proof. exact (header_truncated h k). Qed.
Print Assumptions C14_header_truncated.

(** ** concatenated messages decode in sequence (the wire format of the server: header, then
    one series per archive) *)
Theorem C14_header_then_series h s r : wf_header h -> wf_series s ->
  dec_header (enc_header h ++ enc_series s ++ r) = Ok h (enc_series s ++ r) /\
  dec_series (enc_series s ++ r) = Ok s r.
Proof. exact (header_then_series h s r). Qed.
Print Assumptions C14_header_then_series.

(** the premises are satisfiable: a concrete series with a NaN payload and a signed zero *)
Example C14_example :
  wf_series (mkSeries 100 130 10 [0x7FF8000000000009; 0x8000000000000000; 0x7FF0000000000000]) /\
  dec_series (enc_series (mkSeries 100 130 10 [0x7FF8000000000009; 0x8000000000000000; 0x7FF0000000000000]) ++ [1; 2])
  = Ok (mkSeries 100 130 10 [0x7FF8000000000009; 0x8000000000000000; 0x7FF0000000000000]) [1; 2].
Proof.
  split; [|vm_compute; reflexivity].
  unfold wf_series; cbn. repeat split; try lia. repeat constructor; lia.
Qed.

(** two corners of [wf_series] that [C14_series_roundtrip] therefore covers: the empty-range placeholder
    the view answer uses for archives that were not selected (from = until, no values), and a range that is
    no whole number of steps (the value count is the floor) -- seeded changes C14-o and C14-n broke exactly these *)
Example C14_series_corners :
  wf_series (mkSeries 0 0 60 []) /\ wf_series (mkSeries 100 125 10 [1; 2]) /\
  dec_series (enc_series (mkSeries 0 0 60 []) ++ enc_series (mkSeries 100 125 10 [1; 2]))
  = Ok (mkSeries 0 0 60 []) (enc_series (mkSeries 100 125 10 [1; 2])).
Proof.
  split; [|split; [|vm_compute; reflexivity]];
    (unfold wf_series; cbn; repeat split; try lia; repeat constructor; lia).
Qed.
