(** * C15 — Corrupt or hostile bytes are rejected with an error, never a crash.
    The decoders of the model have no "panic" outcome at all: they are total functions into
    Ok / Want n / Err, with Go's 32- and 64-bit arithmetic written out ([Model/Codec.v]).  The
    theorems bound what a successful decode can have allocated by the size of its input, show that
    Open trusts a header only after validation and a length check, and that a handle on any
    validated header answers fetches without panicking whatever its slots contain. *)
From WT Require Import Base.Wrap Base.ListX Base.Bytes Model.Time Model.Ring Model.Update Model.Codec Model.Handle
  Model.FileImage Proofs.TimeProofs Proofs.RingProofs Proofs.FetchProofs Proofs.CodecProofs Proofs.HostileProofs.

Theorem C15_points_allocation_bounded src ps r : dec_points_msg src = Ok ps r -> 8 + 12 * zlen ps <= zlen src.
Proof. exact (dec_points_msg_bounded src ps r). Qed.
Print Assumptions C15_points_allocation_bounded.

Theorem C15_series_allocation_bounded src s r : dec_series src = Ok s r -> 12 + 8 * zlen (s_vals s) <= zlen src.
Proof. exact (dec_series_bounded src s r). Qed.
Print Assumptions C15_series_allocation_bounded.

Theorem C15_header_allocation_bounded_and_validated src h r : dec_header src = Ok h r ->
  16 + 12 * zlen (h_arcs h) <= zlen src /\ validate (h_arcs h) = true /\ zlen (h_arcs h) = h_count h /\
  valid_method (h_method h) = true /\ valid_xff (h_xff h) = true.
Proof. exact (dec_header_bounded src h r). Qed.
Print Assumptions C15_header_allocation_bounded_and_validated.

(** Open: whatever the bytes, an accepted file has a validated header, is at least as long as that
    header requires, and each of its archives is a ring of exactly the announced number of slots *)
Theorem C15_open_trusts_only_validated file h arcs : open_image file = Some (h, arcs) ->
  Forall wf_arc arcs /\ expected_file_size h <= zlen file /\ validate (h_arcs h) = true.
Proof. exact (open_image_wf file h arcs). Qed.
Print Assumptions C15_open_trusts_only_validated.

(** reading a slot range never panics, for any slot contents and any (unaligned, garbage) base *)
Theorem C15_fetch_raw_total a f u : zlen (a_slots a) = a_n a -> 0 < a_n a ->
  1 <= Z.quot (ts_sub u f) (a_step a) <= a_n a ->
  exists ps, fetch_raw a f u = Some ps /\ zlen ps = Z.quot (ts_sub u f) (a_step a).
Proof. exact (fetch_raw_total a f u). Qed.
Print Assumptions C15_fetch_raw_total.

Theorem C15_fetch_never_panics arcs id a from until now :
  0 <= id -> nth_error arcs (Z.to_nat id) = Some a -> wf_arc a ->
  period a <= now -> now + 2 * a_step a < TMAX ->
  0 <= from < 2^32 -> 0 <= until < 2^32 -> from <= until ->
  if (from >? now) || (until <? now - period a)
  then fetch_from_archive arcs id from until now = FNone
  else
    let f := win_from a from now in let u := win_until a from until now in
    exists vs, fetch_from_archive arcs id from until now = FSeries (mkSeries f u (a_step a) vs) /\
               zlen vs = (u - f) / a_step a.
Proof. exact (fetch_named_total arcs id a from until now). Qed.
Print Assumptions C15_fetch_never_panics.

(** ** updates on a handle opened on a damaged file
    What Open accepts — whatever the bytes — has archives of the announced shape and a layout that
    passes validation ([C15_opened_file_shape]); on archives of that shape, WHATEVER the slots
    contain (garbage timestamps, a garbage base interval), single and batch updates at a clock of
    the domain end in success or in the range error, never in a panic (Proofs/AnyContentsProofs.v) *)
From WT Require Import Spec.LogSpec Spec.WfLayout Proofs.UpdateProofs Proofs.ChainProofs Proofs.ArchiveUpdateProofs Proofs.AnyContentsProofs.

Theorem C15_opened_file_shape file h arcs : open_image file = Some (h, arcs) ->
  arcs <> [] /\ shaped arcs /\ wf_layout (layout_of arcs) /\ wf_lay (layout_of arcs) /\ 1 <= h_method h <= 6.
Proof. exact (open_image_shape file h arcs). Qed.
Print Assumptions C15_opened_file_shape.

Theorem C15_update_never_panics_on_any_contents F m xff maxret arcs id t v now :
  1 <= m <= 6 -> arcs <> [] -> shaped arcs -> wf_lay (layout_of arcs) ->
  id = -1 \/ 0 <= id < zlen arcs -> 0 <= t < 2^32 ->
  0 < maxret <= now -> now + top_step (layout_of arcs) < TMAX ->
  update_point_for_archive F m xff maxret arcs id t v now <> UPanic.
Proof. exact (update_point_no_panic F m xff maxret arcs id t v now). Qed.
Print Assumptions C15_update_never_panics_on_any_contents.

Theorem C15_batch_update_never_panics_on_any_contents F m xff arcs pts id now :
  1 <= m <= 6 -> shaped arcs -> wf_lay (layout_of arcs) ->
  Forall (fun p => braw (layout_of arcs) (p_time p)) pts ->
  exists arcs', update_points_for_archive F m xff arcs pts id now = UOk arcs'.
Proof. exact (update_points_no_panic F m xff arcs pts id now). Qed.
Print Assumptions C15_batch_update_never_panics_on_any_contents.
