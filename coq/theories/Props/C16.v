(** * C16 — Commands fail loudly: no panic and no silent success.
    Proved here for the command models: which verdicts each command can give, and that a command
    which does not report success has not touched an existing destination.  Absence of [StPanic]
    for every reachable file state follows from C01/C02's totality theorems (the library calls
    return a state or an error for every history in the clock domain); its end-to-end statement
    over the command functions is listed as open in DESIGN.md.  The matrix of the quantifier is run
    against the real commands on every check. *)
From WT Require Import Base.Wrap Base.ListX Model.Time Model.Ring Model.Update Model.Handle Model.Cmd Proofs.CmdProofs Model.Codec Model.Text Model.Args Proofs.ArgsProofs.

Theorem C16_copy_verdicts F src dest o until now :
  r_status (copy_core F src dest o until now) <> StDiff /\
  (r_status (copy_core F src dest o until now) = StNotExist -> src = RdNotExist).
Proof. exact (copy_core_status F src dest o until now). Qed.
Print Assumptions C16_copy_verdicts.

Theorem C16_no_success_no_write F src dh o until now :
  r_status (copy_core F src (Some dh) o until now) <> StOk ->
  r_dest (copy_core F src (Some dh) o until now) = Some dh.
Proof. exact (copy_core_failure_leaves_dest F src dh o until now). Qed.
Print Assumptions C16_no_success_no_write.

Theorem C16_diff_verdicts fsub cr sh sl dh dl :
  fst (diff_core fsub cr sh sl dh dl) = StOk \/ fst (diff_core fsub cr sh sl dh dl) = StDiff \/
  fst (diff_core fsub cr sh sl dh dl) = StErr.
Proof. exact (diff_core_status fsub cr sh sl dh dl). Qed.
Print Assumptions C16_diff_verdicts.

(** ** no panic: on files whose archives are well-formed rings (what Open guarantees whatever the
    bytes: C15_open_trusts_only_validated), at clocks of the domain, with any archive selection
    and any window *)
From WT Require Import Base.Bytes Model.Codec Model.FileImage Spec.LogSpec Proofs.TimeProofs Proofs.RingProofs
  Proofs.FetchProofs Proofs.HostileProofs Proofs.ShapeProofs Proofs.NoPanicProofs.

Theorem C16_fetch_never_panics arcs id from until now :
  readable arcs now -> 0 <= from < 2^32 -> 0 <= until < 2^32 ->
  fetch_from_archive arcs id from until now <> FPanic.
Proof. exact (fetch_never_panics arcs id from until now). Qed.
Print Assumptions C16_fetch_never_panics.

Theorem C16_view_no_panic f aid from until0 now sh :
  good_file f now -> 0 <= from < 2^32 -> 0 <= until0 < 2^32 -> 0 <= now < 2^32 ->
  fst (view_cmd f aid from until0 now sh) <> StPanic.
Proof. exact (view_no_panic f aid from until0 now sh). Qed.
Print Assumptions C16_view_no_panic.

Theorem C16_view_raw_no_panic f aid from until0 now sh so : fst (view_raw_cmd f aid from until0 now sh so) <> StPanic.
Proof. exact (view_raw_no_panic f aid from until0 now sh so). Qed.
Print Assumptions C16_view_raw_no_panic.

Theorem C16_diff_no_panic fsub src dest aid from until0 now :
  good_file src now -> good_file dest now -> 0 <= from < 2^32 -> 0 <= until0 < 2^32 -> 0 <= now < 2^32 ->
  fst (diff_one fsub src dest aid from until0 now) <> StPanic.
Proof. exact (diff_no_panic fsub src dest aid from until0 now). Qed.
Print Assumptions C16_diff_no_panic.

Theorem C16_sum_no_panic F files aid from until0 now sh :
  Forall (fun f => good_file f now) files -> 0 <= from < 2^32 -> 0 <= until0 < 2^32 -> 0 <= now < 2^32 ->
  fst (sum_item F files aid from until0 now sh) <> StPanic.
Proof. exact (sum_no_panic F files aid from until0 now sh). Qed.
Print Assumptions C16_sum_no_panic.

Theorem C16_sum_diff_no_panic F fsub files dest aid from until0 now :
  Forall (fun f => good_file f now) files -> good_file dest now ->
  0 <= from < 2^32 -> 0 <= until0 < 2^32 -> 0 <= now < 2^32 ->
  fst (sum_diff_item F fsub files dest aid from until0 now) <> StPanic.
Proof. exact (sum_diff_no_panic F fsub files dest aid from until0 now). Qed.
Print Assumptions C16_sum_diff_no_panic.

(** copy / sum-copy: reading, comparing, creating and reporting never panic; a panic could only
    come out of the library's batch update, which never panics on any history of the clock domain
    (C02_no_panic together with C03_step_refines) *)
Theorem C16_copy_panic_only_from_update F src dest o until now :
  src <> RdPanic ->
  (forall d, dest_handle dest o = Some d ->
             fetch_ts_list (hd_arcs d) (co_archive o) (co_from o) until now <> TslPanic) ->
  r_status (copy_core F src dest o until now) = StPanic ->
  exists d sl sdif, snd (update_dest_with_diff F d sl sdif 0 (co_from o) until now (co_copy_nan o)) = OutPanic.
Proof. exact (copy_panic_only_from_update F src dest o until now). Qed.
Print Assumptions C16_copy_panic_only_from_update.

(** ... and it does not: on every destination content that some history of updates can produce
    (the physical rings represent write logs, [Rel_all]), for every valid layout, every clock of the
    domain and every well-formed source list (the one read from a source file, the sum of files),
    copy and sum-copy end in success or an error, never in a panic — the batch updates inside
    [updateDestWithDiff] included (composition of C02/C03's refinement theorems over the loop) *)
From WT Require Import Proofs.ChainProofs Proofs.HistoryProofs Proofs.CopyProofs.
Theorem C16_copy_never_panics F sh sl dest o until now d logs :
  (match dest with Some _ => opened dest
   | None => match create (co_method o) (co_xff o) (co_layout o) with Some fresh => Some (sync fresh) | None => None end end) = Some d ->
  Rel_all (hd_arcs d) logs -> 1 <= hd_method d <= 6 ->
  wf_layout_full (layout_of (hd_arcs d)) -> clock_ok (layout_of (hd_arcs d)) now ->
  0 <= co_from o < 2^32 -> 0 <= until < 2^32 -> co_from o <= until -> Forall series_wf sl ->
  r_status (copy_core F (RdOk sh sl) dest o until now) <> StPanic.
Proof. exact (copy_core_no_panic F sh sl dest o until now d logs). Qed.
Print Assumptions C16_copy_never_panics.

(** ** no silent success: when the report cannot be written (the -text-out target cannot be opened,
    or every write to it fails) no command reports success, whatever it did; the command's own
    failures are reported as they are; a writable target changes no verdict *)
Theorem C16_unwritable_report_is_never_success to st : to = ToBad \/ to = ToFull -> textout_status to st <> StOk.
Proof. exact (textout_never_silent to st). Qed.
Print Assumptions C16_unwritable_report_is_never_success.
Theorem C16_command_failures_are_kept to st : st <> StOk -> to <> ToBad -> textout_status to st = st.
Proof. exact (textout_keeps_failures to st). Qed.
Print Assumptions C16_command_failures_are_kept.

(** ** every invocation starts at the command line (Model/Args.v: [Parse] of each subcommand on the
    flag package's argument syntax).  Whatever the arguments are, the invocation is either ended
    before [Execute] (status 2, or 0 for -h) or [Execute] runs with options that meet what the
    command models above assume: an ordered window (for the commands that check it), timestamps of
    32 bits, one of the six storable aggregation methods and an archive list the retention parser
    accepts (for the commands that may create a file), and every option the command requires. *)
Theorem C16_execute_runs_only_with_sound_options pf fx c args o :
  parse_command pf fx c args = PRun o ->
  opts_ok o /\
  (checks_window c = true -> o_from o <= o_until o) /\
  (writes_file c = true -> 1 <= o_method o <= 6 /\ exists l s, o_layout o = Some l /\ parse_archive_info_list s = Some l).
Proof. exact (run_options_sound pf fx c args o). Qed.
Print Assumptions C16_execute_runs_only_with_sound_options.

Theorem C16_execute_runs_only_with_required_options pf fx c args o :
  parse_command pf fx c args = PRun o ->
  match c with
  | CCopy => o_src_base o <> [] /\ o_src o <> [] /\ o_dest_base o <> [] /\ is_base_url (o_dest_base o) = false
  | CDiff => o_src_base o <> [] /\ o_src o <> [] /\ o_dest_base o <> []
  | CGenerate => o_dest o <> []
  | CServer => True
  | CSum => o_item o <> [] /\ o_src_base o <> [] /\ o_src o <> []
  | CSumCopy => o_item o <> [] /\ o_src_base o <> [] /\ o_src o <> [] /\ o_dest_base o <> [] /\ o_dest o <> [] /\ is_base_url (o_dest_base o) = false
  | CSumDiff => o_item o <> [] /\ o_src_base o <> [] /\ o_src o <> [] /\ o_dest_base o <> [] /\ o_dest o <> []
  | CView | CViewRaw => o_src_base o <> [] /\ o_src o <> []
  end.
Proof. exact (run_options_complete pf fx c args o). Qed.
Print Assumptions C16_execute_runs_only_with_required_options.

(** the premises are met by ordinary command lines (and the model computes):
    view -src-base=/d -src=a.wsp -from 2020-01-01T00:00:00Z -until=2020-01-02T00:00:00Z *)
From Coq Require Import String.
Example C16_command_line_example :
  exists o, parse_command (fun _ => None) (fun _ => None) CView
              (map codes ["-src-base=/d"; "-src=a.wsp"; "-from"; "2020-01-01T00:00:00Z"; "-until=2020-01-02T00:00:00Z"]%string) = PRun o
            /\ o_from o = 1577836800 /\ o_until o = 1577923200 /\ o_archive o = -1 /\ o_header o = true.
Proof. eexists. vm_compute. repeat split. Qed.
