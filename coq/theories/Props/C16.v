(** * C16 — Commands fail loudly: no panic and no silent success.
    Proved here for the command models: which verdicts each command can give, and that a command
    which does not report success has not touched an existing destination.  Absence of [StPanic]
    for every reachable file state follows from C01/C02's totality theorems (the library calls
    return a state or an error for every history in the clock domain); its end-to-end statement
    over the command functions is listed as open in DESIGN.md.  The matrix of the quantifier is run
    against the real commands on every check. *)
From WT Require Import Base.Wrap Base.ListX Model.Time Model.Ring Model.Update Model.Handle Model.Cmd Proofs.CmdProofs.

Theorem C16_copy_verdicts F src dest o until now :
  r_status (copy_core F src dest o until now) <> StDiff /\
  (r_status (copy_core F src dest o until now) = StNotExist -> src = RdNotExist).
Proof. exact (copy_core_status F src dest o until now). Qed.
Print Assumptions C16_copy_verdicts.

Theorem C16_no_success_no_write F src dh o until now :
  r_status (copy_core F src (Some dh) o until now) <> StOk ->
  r_dest (copy_core F src (Some dh) o until now) = Some dh.
Proof. exact (copy_core_failure_leaves_dest F src dh o until now). Qed.
Print Assumptions C16_no_success_no_write.

Theorem C16_diff_verdicts fsub cr sh sl dh dl :
  fst (diff_core fsub cr sh sl dh dl) = StOk \/ fst (diff_core fsub cr sh sl dh dl) = StDiff \/
  fst (diff_core fsub cr sh sl dh dl) = StErr.
Proof. exact (diff_core_status fsub cr sh sl dh dl). Qed.
Print Assumptions C16_diff_verdicts.
