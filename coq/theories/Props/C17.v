(** * C17 — Concurrent reads are race-free and equal to sequential reads (PARTIAL).
    What is proved: in the page-buffer model a read may load pages but never changes what the
    buffer shows nor the disk, so a read issued after (hence interleaved with) other reads returns
    the bytes it returns alone.  Not expressible here: data-race freedom in the sense of the Go
    memory model (the real buffer serialises ReadAt with a mutex); that is exercised on every run
    by concurrent fetches under the race detector. *)
From WT Require Import Base.Wrap Base.ListX Model.FileBuf Proofs.FileBufProofs.

Theorem C17_read_preserves_view b off len : fb_inv b -> 0 < len ->
  match read_at b off len with
  | IoErr => ~ (0 <= off /\ off + len <= fb_size b)
  | IoOk (b', data) =>
    fb_inv b' /\ fb_disk b' = fb_disk b /\ fb_dirty b' = fb_dirty b /\
    (forall i, 0 <= i < fb_size b -> view b' i = view b i) /\
    data = map (fun k => view b (off + Z.of_nat k)) (seq 0 (Z.to_nat len))
  end.
Proof. exact (read_at_spec b off len). Qed.
Print Assumptions C17_read_preserves_view.

Theorem C17_read_after_read_equals_read_alone b o1 l1 o2 l2 b1 d1 : fb_inv b -> 0 < l1 -> 0 < l2 ->
  read_at b o1 l1 = IoOk (b1, d1) ->
  match read_at b o2 l2, read_at b1 o2 l2 with
  | IoOk (_, d2), IoOk (_, d2') => d2' = d2
  | IoErr, IoErr => True
  | _, _ => False
  end.
Proof. exact (read_after_read b o1 l1 o2 l2 b1 d1). Qed.
Print Assumptions C17_read_after_read_equals_read_alone.

(** any number of reads in any order — in particular any interleaving of the ReadAt calls of K
    concurrent fetches, which the buffer executes one at a time — return, each, exactly the bytes
    that read returns when it is issued alone on the same handle *)
Theorem C17_any_interleaving_of_reads rs b : fb_inv b -> Forall (fun r => 0 < snd r) rs ->
  run_reads b rs = map (read_alone b) rs.
Proof. exact (run_reads_independent rs b). Qed.
Print Assumptions C17_any_interleaving_of_reads.
