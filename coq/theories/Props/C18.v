(** * C18 — view and view-raw show exactly what is stored. *)
From WT Require Import Base.Wrap Base.ListX Model.Time Model.Ring Model.Update Model.Handle Model.Cmd Proofs.CmdProofs.

(** view prints one record per slot of the fetched series, the k-th carrying instant from + k*step
    and the k-th fetched value *)
Theorem C18_view_one_record_per_slot s d k : (k < length (s_vals s))%nat ->
  length (series_points s) = length (s_vals s) /\
  nth k (series_points s) d = mkPoint (ts_add (s_from s) (i32 (Z.of_nat k * s_step s))) (nth k (s_vals s) (p_val d)).
Proof. intros H. split; [apply series_points_length|apply series_points_nth; exact H]. Qed.
Print Assumptions C18_view_one_record_per_slot.

(** every record of archive [a] comes from archive [a]'s own list (archive-then-time order:
    the records are the concatenation of the per-archive lists) *)
Theorem C18_records_by_archive pl i a t v :
  In (RPoint a t v) (points_records_from i pl) ->
  exists ps, nth_error pl (Z.to_nat (a - i)) = Some ps /\ i <= a /\ In (mkPoint t v) ps.
Proof. exact (points_records_in pl i a t v). Qed.
Print Assumptions C18_records_by_archive.

(** view-raw shows a physical slot iff it lies in the requested range (from exclusive unless 0,
    until inclusive, a zero-length range reaching one step further) *)
Theorem C18_view_raw_filter step from until ps p :
  In p (filter_raw step from until ps) <->
  In p ps /\ (from = 0 \/ from < p_time p) /\ p_time p <= (if until =? from then ts_add until step else until).
Proof. exact (filter_raw_in step from until ps p). Qed.
Print Assumptions C18_view_raw_filter.
