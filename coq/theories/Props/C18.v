(** * C18 — view and view-raw show exactly what is stored. *)
From WT Require Import Base.Wrap Base.ListX Model.Time Model.Ring Model.Update Model.Handle Model.Cmd Proofs.CmdProofs.

(** view prints one record per slot of the fetched series, the k-th carrying instant from + k*step
    and the k-th fetched value *)
Theorem C18_view_one_record_per_slot s d k : (k < length (s_vals s))%nat ->
  length (series_points s) = length (s_vals s) /\
  nth k (series_points s) d = mkPoint (ts_add (s_from s) (i32 (Z.of_nat k * s_step s))) (nth k (s_vals s) (p_val d)).
Proof. intros H. split; [apply series_points_length|apply series_points_nth; exact H]. Qed.
Print Assumptions C18_view_one_record_per_slot.

(** every record of archive [a] comes from archive [a]'s own list (archive-then-time order:
    the records are the concatenation of the per-archive lists) *)
Theorem C18_records_by_archive pl i a t v :
  In (RPoint a t v) (points_records_from i pl) ->
  exists ps, nth_error pl (Z.to_nat (a - i)) = Some ps /\ i <= a /\ In (mkPoint t v) ps.
Proof. exact (points_records_in pl i a t v). Qed.
Print Assumptions C18_records_by_archive.

(** view-raw shows a physical slot iff it lies in the requested range (from exclusive unless 0,
    until inclusive, a zero-length range reaching one step further) *)
Theorem C18_view_raw_filter step from until ps p :
  In p (filter_raw step from until ps) <->
  In p ps /\ (from = 0 \/ from < p_time p) /\ p_time p <= (if until =? from then ts_add until step else until).
Proof. exact (filter_raw_in step from until ps p). Qed.
Print Assumptions C18_view_raw_filter.

(** ** "every non-NaN point shown by view whose time lies inside the requested range appears in
    view-raw with the same time and value" — for ANY slot contents (Proofs/ViewProofs.v).
    Library level: a non-NaN fetched value is a physical slot carrying exactly the fetched
    instant.  Command level: the view record is among view-raw's records (sorted or not). *)
From WT Require Import Spec.LogSpec Proofs.TimeProofs Proofs.RingProofs Proofs.FetchProofs Proofs.ViewProofs.

Theorem C18_fetched_value_is_a_stored_point arcs id a from until now s k :
  0 <= id -> nth_error arcs (Z.to_nat id) = Some a -> wf_arc a ->
  period a <= now -> now + 2 * a_step a < TMAX ->
  0 <= from < 2^32 -> 0 <= until < 2^32 -> from <= until ->
  fetch_from_archive arcs id from until now = FSeries s ->
  (k < length (s_vals s))%nat -> is_nan (nth k (s_vals s) NaN) = false ->
  In (mkPoint (s_from s + Z.of_nat k * s_step s) (nth k (s_vals s) NaN)) (a_slots a).
Proof. exact (fetched_value_is_a_stored_point arcs id a from until now s k). Qed.
Print Assumptions C18_fetched_value_is_a_stored_point.

Theorem C18_view_point_is_in_view_raw f h id from until0 now sh sh' sort a t v :
  opened f = Some h -> 0 <= id -> nth_error (hd_arcs h) (Z.to_nat id) = Some a -> wf_arc a ->
  period a <= now -> now + 2 * a_step a < TMAX ->
  0 <= from < 2^32 -> 0 <= resolve_until until0 now < 2^32 -> from <= resolve_until until0 now ->
  In (RPoint id t v) (snd (view_cmd f id from until0 now sh)) -> is_nan v = false ->
  (from = 0 \/ from < t) ->
  t <= (if resolve_until until0 now =? from then ts_add (resolve_until until0 now) (a_step a) else resolve_until until0 now) ->
  In (RPoint id t v) (snd (view_raw_cmd f id from until0 now sh' sort)).
Proof. exact (view_point_is_in_view_raw f h id from until0 now sh sh' sort a t v). Qed.
Print Assumptions C18_view_point_is_in_view_raw.

(** ... and the same when no archive is named (every archive is selected, on both sides): a non-NaN point that view
    prints for archive [id] inside the requested range is among the records view-raw prints for archive [id] *)
Theorem C18_view_point_is_in_view_raw_all_archives f h id from until0 now sh sh' sort a t v :
  opened f = Some h -> 0 <= id -> nth_error (hd_arcs h) (Z.to_nat id) = Some a -> wf_arc a ->
  period a <= now -> now + 2 * a_step a < TMAX ->
  0 <= from < 2^32 -> 0 <= resolve_until until0 now < 2^32 -> from <= resolve_until until0 now ->
  In (RPoint id t v) (snd (view_cmd f ArchiveIDAll from until0 now sh)) -> is_nan v = false ->
  (from = 0 \/ from < t) ->
  t <= (if resolve_until until0 now =? from then ts_add (resolve_until until0 now) (a_step a) else resolve_until until0 now) ->
  In (RPoint id t v) (snd (view_raw_cmd f ArchiveIDAll from until0 now sh' sort)).
Proof. exact (view_all_point_is_in_view_raw_all f h id from until0 now sh sh' sort a t v). Qed.
Print Assumptions C18_view_point_is_in_view_raw_all_archives.

(** ** the -header switch only decides whether the header record is printed: status and point records of
    view and view-raw -- sorted or not -- are the same with and without it (the seeded change C18-n
    returned early, before sorting, when the header is off) *)
Theorem C18_header_switch_only_adds_the_header_raw f aid from until0 now sort :
  fst (view_raw_cmd f aid from until0 now true sort) = fst (view_raw_cmd f aid from until0 now false sort) /\
  exists hdr, snd (view_raw_cmd f aid from until0 now true sort) = hdr ++ snd (view_raw_cmd f aid from until0 now false sort)
              /\ (length hdr <= 1)%nat.
Proof.
  unfold view_raw_cmd. destruct f as [h0|]; [|split; [reflexivity|exists []; split; [reflexivity|cbn; lia]]].
  destruct (opened (Some h0)) as [h|]; [|split; [reflexivity|exists []; split; [reflexivity|cbn; lia]]].
  destruct ((aid =? ArchiveIDAll) || ((0 <=? aid) && (aid <? zlen (hd_arcs h))));
    [|split; [reflexivity|exists []; split; [reflexivity|cbn; lia]]].
  cbn [fst snd]. split; [reflexivity|]. exists [header_record h]. split; [reflexivity|cbn; lia].
Qed.
Print Assumptions C18_header_switch_only_adds_the_header_raw.

Theorem C18_header_switch_only_adds_the_header f aid from until0 now :
  fst (view_cmd f aid from until0 now true) = fst (view_cmd f aid from until0 now false) /\
  exists hdr, snd (view_cmd f aid from until0 now true) = hdr ++ snd (view_cmd f aid from until0 now false)
              /\ (length hdr <= 1)%nat.
Proof.
  unfold view_cmd. destruct (read_file f aid from (resolve_until until0 now) now) eqn:E;
    cbn [fst snd]; (split; [reflexivity|]);
    first [ exists []; split; [reflexivity|cbn; lia] | eexists [_]; split; [reflexivity|cbn; lia] ].
Qed.
Print Assumptions C18_header_switch_only_adds_the_header.
