(** * C19 — Text syntax round-trips. *)
From WT Require Import Base.Wrap Base.ListX Model.Text Proofs.TextProofs.

(** every 32-bit timestamp prints to a string that parses back to it (the calendar part is a
    finite sweep over the 49 711 days, evaluated by vm_compute and lifted by all_from_spec) *)
Theorem C19_timestamp_roundtrip t : 0 <= t < 2^32 -> parse_timestamp (timestamp_string t) = Some t.
Proof. exact (timestamp_roundtrip t). Qed.
Print Assumptions C19_timestamp_roundtrip.
