(** * C19 — Text syntax round-trips: what is printed is what is parsed. *)
From WT Require Import Base.Wrap Base.ListX Base.Bytes Model.Time Model.Ring Model.Codec Model.Text
  Proofs.TextProofs Proofs.DurationProofs.

(** every 32-bit timestamp prints to a string that parses back to it (the calendar part is a
    finite sweep over the 49 711 days, evaluated by vm_compute and lifted by all_from_spec) *)
Theorem C19_timestamp_roundtrip t : 0 <= t < 2^32 -> parse_timestamp (timestamp_string t) = Some t.
Proof. exact (timestamp_roundtrip t). Qed.
Print Assumptions C19_timestamp_roundtrip.

(** every non-negative duration prints to a string that parses back to it *)
Theorem C19_duration_roundtrip d : 0 <= d < 2^31 -> parse_duration (duration_string d) = Some d.
Proof. exact (duration_roundtrip d). Qed.
Print Assumptions C19_duration_roundtrip.

(** whenever ParseDuration accepts, the string is a non-empty numeral followed by exactly one unit
    letter and the value is numeral * unit, at most 2^31 - 1 (so: empty input, a missing, unknown or
    doubled unit, a sign and values exceeding 31 bits are all rejected) *)
Theorem C19_parse_duration_exact s d : parse_duration s = Some d ->
  exists ds u U, s = ds ++ [u] /\ ds <> [] /\ Forall (fun c => is_digit c = true) ds /\
                 unit_multiplier u = Some U /\ d = digits_val ds 0 * U /\ 0 <= d <= MaxI32.
Proof. exact (parse_duration_exact s d). Qed.
Print Assumptions C19_parse_duration_exact.

(** one archive "step:retention", and every valid archive list, parse back to themselves *)
Theorem C19_archive_info_roundtrip s n : 0 < s -> 0 < n -> s * n < 2^31 ->
  parse_archive_info (archive_info_string s n) = Some (s, n).
Proof. exact (archive_info_roundtrip s n). Qed.
Print Assumptions C19_archive_info_roundtrip.

Theorem C19_archive_list_roundtrip l : l <> [] ->
  Forall (fun sn => 0 < fst sn /\ 0 < snd sn /\ fst sn * snd sn < 2^31) l ->
  validate (fill_offset (map (fun sn => mkAinfo 0 (fst sn) (snd sn)) l)) = true ->
  parse_archive_info_list (archive_list_string l) = Some (fill_offset (map (fun sn => mkAinfo 0 (fst sn) (snd sn)) l)).
Proof. exact (archive_list_roundtrip l). Qed.
Print Assumptions C19_archive_list_roundtrip.

Theorem C19_method_roundtrip m : 1 <= m <= 8 -> method_of_string (method_string m) = Some m.
Proof. exact (method_roundtrip m). Qed.
Print Assumptions C19_method_roundtrip.

(** exactness for timestamps: whatever ParseTimestamp accepts is — after the two liberal forms of
    time.Parse are undone ([normalize_ts]: a one-digit hour gets its zero, an all-zero fraction is
    dropped) — exactly the printed form of the value it returns; nothing outside 32 bits is returned *)
Theorem C19_parse_timestamp_exact s t : parse_timestamp s = Some t ->
  exists s', normalize_ts s = Some s' /\ timestamp_string t = s' /\ 0 <= t < 2^32.
Proof. exact (parse_timestamp_exact s t). Qed.
Print Assumptions C19_parse_timestamp_exact.

(** the printed form uses the largest of the six units that divides the duration (7 years print as "7y",
    not as the equally exact "365w") *)
Theorem C19_duration_printed_in_largest_dividing_unit d : d <> 0 ->
  exists u U, unit_multiplier u = Some U /\ Z.rem d U = 0 /\
              duration_string d = print_int (Z.quot d U) ++ [u] /\
              (forall u' U', unit_multiplier u' = Some U' -> U < U' -> Z.rem d U' <> 0).
Proof. exact (duration_string_largest_unit d). Qed.
Print Assumptions C19_duration_printed_in_largest_dividing_unit.

(** the -agg-method flag: every one of the six storable methods is accepted under the name it is printed
    with (the seeded change C19-n dropped "first"), and nothing else is accepted: mix and percentile are names
    of methods but cannot be stored *)
Theorem C19_flag_accepts_the_printed_name_of_every_storable_method m :
  1 <= m <= 6 -> flag_method (method_string m) = Some m.
Proof.
  intros H. unfold flag_method. rewrite (method_roundtrip m) by lia.
  destruct (Z.leb_spec 1 m); [|lia]. destruct (Z.leb_spec m 6); [reflexivity|lia].
Qed.
Print Assumptions C19_flag_accepts_the_printed_name_of_every_storable_method.
Theorem C19_flag_accepts_only_storable_methods s m : flag_method s = Some m -> 1 <= m <= 6 /\ method_of_string s = Some m.
Proof.
  unfold flag_method. destruct (method_of_string s) as [m'|]; [|discriminate].
  destruct (Z.leb_spec 1 m') as [H1|H1]; cbn [andb]; [|discriminate]. destruct (Z.leb_spec m' 6) as [H6|H6]; [|discriminate].
  intros Heq; injection Heq as <-. split; [lia|reflexivity].
Qed.
Print Assumptions C19_flag_accepts_only_storable_methods.
Example C19_flag_rejects_mix_and_percentile :
  flag_method (method_string 7) = None /\ flag_method (method_string 8) = None /\ flag_method (method_string 6) = Some 6.
Proof. vm_compute. repeat split. Qed.
