(** * C20 — generate produces a complete, self-consistent file with the requested layout.
    The file is the per-archive batch update of the point lists generate prints ([generate_cmd]);
    the constraints on the printed lists themselves (completeness, bounds, coarse = sum of fully
    covered finer slots) are checked on every run against the real command's output. *)
From WT Require Import Base.Wrap Base.ListX Model.Time Model.Ring Model.Update Model.Handle Model.Cmd Proofs.CmdProofs.

Theorem C20_refuses_existing F m xff layout pl now : generate_cmd F true m xff layout pl now = (StErr, None).
Proof. exact (generate_refuses_existing F m xff layout pl now). Qed.
Print Assumptions C20_refuses_existing.

Theorem C20_header_as_requested F m xff layout pl now h' :
  generate_cmd F false m xff layout pl now = (StOk, Some h') -> hd_method h' = m /\ hd_xff h' = xff.
Proof. exact (generate_header F m xff layout pl now h'). Qed.
Print Assumptions C20_header_as_requested.

Theorem C20_nofill_every_slot_empty F m xff layout now h :
  create m xff layout = Some h ->
  exists h', generate_cmd F false m xff layout (map (fun _ => []) layout) now = (StOk, Some h') /\
             hd_disk h' = create_arcs layout /\ hd_hdr_on_disk h' = true.
Proof. exact (generate_nofill_empty F m xff layout now h). Qed.
Print Assumptions C20_nofill_every_slot_empty.
