(** * C20 — generate produces a complete, self-consistent file with the requested layout.
    The random choices of the generator are not modelled.  [gen_ok] (Model/Generate.v) states what
    the property demands of the point lists the generator produces (one point per retained slot
    up to the generation instant, values in [0, max scaled by the step], coarser value = sum of
    the finer values where the finer archive retains the whole coarser interval); it is evaluated
    on the lists the real generator produced, on every run.  Proved here: the file generate leaves
    behind IS those lists, archive by archive and slot by slot, for every valid layout, every
    instant of the clock domain and all lists [gen_ok] accepts — so the file is complete, bounded
    and self-consistent exactly when the lists are. *)
From WT Require Import Base.Wrap Base.ListX Model.Time Model.Ring Model.Update Spec.LogSpec Spec.WfLayout
  Model.Handle Model.Cmd Model.Generate
  Proofs.TimeProofs Proofs.ChainProofs Proofs.HistoryProofs Proofs.CmdProofs Proofs.GenerateProofs Proofs.LayoutBridge.

Theorem C20_refuses_existing F m xff layout pl now : generate_cmd F true m xff layout pl now = (StErr, None).
Proof. exact (generate_refuses_existing F m xff layout pl now). Qed.
Print Assumptions C20_refuses_existing.

Theorem C20_header_as_requested F m xff layout pl now h' :
  generate_cmd F false m xff layout pl now = (StOk, Some h') -> hd_method h' = m /\ hd_xff h' = xff.
Proof. exact (generate_header F m xff layout pl now h'). Qed.
Print Assumptions C20_header_as_requested.

Theorem C20_nofill_every_slot_empty F m xff layout now h :
  create m xff layout = Some h ->
  exists h', generate_cmd F false m xff layout (map (fun _ => []) layout) now = (StOk, Some h') /\
             hd_disk h' = create_arcs layout /\ hd_hdr_on_disk h' = true.
Proof. exact (generate_nofill_empty F m xff layout now h). Qed.
Print Assumptions C20_nofill_every_slot_empty.

(** the generated file, read back: every archive's whole retention holds exactly the generated
    list (no empty slot, nothing left over from propagation), under the requested header *)
Theorem C20_file_is_the_generated_lists F m xff L pl now h0 :
  1 <= m <= 6 -> wf_layout L -> clock_ok L now ->
  create m xff L = Some h0 -> gen_complete L now pl = true ->
  exists h',
    generate_cmd F false m xff L pl now = (StOk, Some h') /\
    hd_hdr_on_disk h' = true /\ hd_method h' = m /\ hd_xff h' = xff /\
    map (fun a => (a_step a, a_n a)) (hd_disk h') = L /\
    forall i, 0 <= i < llen L ->
      fetch_from_archive (hd_disk h') i (now - lay_period L i) now now =
        FSeries (mkSeries (gen_first (lay_step L i) (lay_n L i) now) (gen_last (lay_step L i) now + lay_step L i)
                   (lay_step L i) (map p_val (znth [] pl i))).
Proof.
  intros Hm Hwf. destruct (wf_layout_full_of_wf_layout L Hwf) as [Hfull HL].
  exact (generate_file_is_lists F m xff L pl now h0 Hm HL Hfull).
Qed.
Print Assumptions C20_file_is_the_generated_lists.

(** what [gen_ok] accepts: every value is a number in [0, max * step / step0] ... *)
Theorem C20_accepted_lists_are_bounded F of_int s0 mx L pl q p :
  gen_bounded F of_int s0 mx L pl = true -> 0 <= q < llen L -> q < zlen pl -> In p (znth [] pl q) ->
  is_nan (p_val p) = false /\ f_lt F (p_val p) (f_zero F) = false /\
  f_lt F (of_int (mx * lay_step L q / s0)) (p_val p) = false.
Proof.
  intros H Hq Hql Hin. pose proof (gen_bounded_spec F of_int s0 mx L pl H q p Hq Hql Hin) as Hv.
  unfold val_ok in Hv. rewrite !andb_true_iff, !negb_true_iff in Hv. tauto.
Qed.
Print Assumptions C20_accepted_lists_are_bounded.

(** ... and every coarser value whose finer slots are all retained equals their sum *)
Theorem C20_accepted_lists_are_sum_consistent F L pl q p vs :
  gen_sums F None L pl = true -> 1 <= q < llen L -> q < zlen pl -> In p (znth [] pl q) ->
  finer_vals (znth [] pl (q - 1)) (p_time p) (lay_step L (q - 1)) (Z.to_nat (lay_step L q / lay_step L (q - 1))) = Some vs ->
  veq (p_val p) (fsum F vs) = true.
Proof.
  intros H Hq Hql Hin Hf. pose proof (gen_sums_spec F L pl None H q p Hq Hql Hin) as Hs.
  unfold slot_sum_ok in Hs. rewrite Hf in Hs. exact Hs.
Qed.
Print Assumptions C20_accepted_lists_are_sum_consistent.

(** the premises are satisfiable *)
Example C20_example : wf_layout [(1, 7); (7, 10)] /\ clock_ok [(1, 7); (7, 10)] 1700000000 /\
  create 2 0 [(1, 7); (7, 10)] <> None.
Proof. destruct wf_layout_example as [H1 H2]. split; [exact H1|]. split; [exact H2|]. vm_compute. discriminate. Qed.

(** the bound of the random values (finding F14): a negative or oversized -max is reported as an
    error and no file is created; with -fill a successful run had a bound in [0, 2^31), which is what
    the value clause above needs *)
Theorem C20_unusable_bound_is_an_error F existing fill mx m xff layout pl now :
  gen_max_ok fill mx = false -> generate_checked F existing fill mx m xff layout pl now = (StErr, None).
Proof. exact (generate_checked_rejects F existing fill mx m xff layout pl now). Qed.
Print Assumptions C20_unusable_bound_is_an_error.
Theorem C20_success_had_a_usable_bound F existing mx m xff layout pl now :
  fst (generate_checked F existing true mx m xff layout pl now) = StOk -> 0 <= mx < 2^31.
Proof. exact (generate_checked_ok_bound F existing mx m xff layout pl now). Qed.
Print Assumptions C20_success_had_a_usable_bound.

(** ** where the file is created: the name as the operating system resolves it (Model/Path.v [phys_elems];
    generate hands [-dest] to [Create] as it is written).  Without links on the way that is the cleaned
    text of the name; a link followed by ".." leads to the directory above the link's TARGET, where the
    cleaned text would name the directory the link lies in (compared with the code by [c20-linkdest]). *)
From WT Require Import Model.Path Proofs.PathProofs.
Theorem C20_destination_without_links_is_the_cleaned_name es : phys_elems [] es = clean_elems true es.
Proof. exact (phys_no_links_is_clean es). Qed.
Print Assumptions C20_destination_without_links_is_the_cleaned_name.
Theorem C20_destination_through_a_link ls n t rest :
  plain n -> find_link ls [n] = Some t ->
  fold_left (phys_step ls) (n :: dotdot :: rest) [] = fold_left (phys_step ls) rest (tl (rev t)) /\
  fold_left (clean_step true) (n :: dotdot :: rest) [] = fold_left (clean_step true) rest [].
Proof. intros Hn Hl. split; [exact (phys_through_link ls n t rest Hn Hl) | exact (lexical_through_link n rest Hn)]. Qed.
Print Assumptions C20_destination_through_a_link.
