(** The abstract semantics: the state of an archive is its write log (newest first).
    No base interval, no physical index, no bytes. *)
From WT Require Import Base.Wrap Base.ListX Model.Ring.

(** [live log R e]: the value a reader must see for interval [e] in a ring of period
    [R = step * points]: the newest entry whose interval is congruent to [e] decides;
    it is visible iff it is an entry for [e] itself. *)
Fixpoint live_opt (log : list point) (R e : Z) : option Z :=
  match log with
  | [] => None
  | p :: r => if (p_time p - e) mod R =? 0
              then (if p_time p =? e then Some (p_val p) else None)
              else live_opt r R e
  end.
Definition live (log : list point) (R e : Z) : Z :=
  match live_opt log R e with Some v => v | None => NaN end.

(** the value a list of points carries for interval [e] (first entry wins) *)
Fixpoint find_time (es : list point) (e : Z) : option Z :=
  match es with
  | [] => None
  | p :: r => if p_time p =? e then Some (p_val p) else find_time r e
  end.

(** The shape of a fetch result: a function of layout, window and clock only (C04). *)
Inductive shape := SErrInterval | SErrArchive | SNone | SShape (f u step n : Z).

Fixpoint best_from (rets : list Z) (i diff : Z) : Z :=
  match rets with
  | [] => i - 1
  | r :: rest => if r >=? diff then i else match rest with [] => i | _ => best_from rest (i + 1) diff end
  end.
(** first i with R_i >= now - from, else the last index *)
Definition best_spec (rets : list Z) (from now : Z) : Z := best_from rets 0 (now - from).

Definition shape_spec (layout : list (Z * Z)) (id from until now : Z) : shape :=
  let k := Z.of_nat (length layout) in
  if from >? until then SErrInterval
  else if ((negb (id =? -1)) && (id <? 0)) || (k - 1 <? id) then SErrArchive
  else
    let id := if id =? -1 then best_spec (map (fun sn => fst sn * snd sn) layout) from now else id in
    match nth_error layout (Z.to_nat id) with
    | None => SErrArchive
    | Some (st, np) =>
      let R := st * np in
      if (from >? now) || (until <? now - R) then SNone
      else
        let from' := Z.max from (now - R) in
        let until' := Z.min until now in
        let f := from' - from' mod st + st in
        let u := until' - until' mod st + st in
        let u := if f =? u then u + st else u in
        SShape f u st ((u - f) / st)
    end.

(** * Propagation over logs (C02) *)
From WT Require Import Model.Update.

(** the finer values present for coarser interval [t]: [cnt] finer slots starting at [t] *)
Fixpoint known_log (logf : list point) (Rf t stepf : Z) (cnt : nat) : list Z :=
  match cnt with
  | O => []
  | S c => (match live_opt logf Rf t with Some v => [v] | None => [] end)
             ++ known_log logf Rf (t + stepf) stepf c
  end.

(** layout entry: (step, points) *)
Definition lay := list (Z * Z).
Definition lay_step (L : lay) (i : Z) : Z := fst (nth (Z.to_nat i) L (0, 0)).
Definition lay_n (L : lay) (i : Z) : Z := snd (nth (Z.to_nat i) L (0, 0)).
Definition lay_period (L : lay) (i : Z) : Z := lay_step L i * lay_n L i.

Definition get_log (logs : list (list point)) (i : Z) : list point := nth (Z.to_nat i) logs [].
Definition add_log (logs : list (list point)) (i : Z) (p : point) : list (list point) :=
  zupd logs i (p :: get_log logs i).

Definition spec_propagate_one (F : fops) (m xff : Z) (L : lay) (logs : list (list point))
  (l : Z) (acc : list Z) (t : Z) : option (list (list point) * list Z) :=
  let cnt := lay_step L l / lay_step L (l - 1) in
  let kv := known_log (get_log logs (l - 1)) (lay_period L (l - 1)) t (lay_step L (l - 1)) (Z.to_nat cnt) in
  match kv with
  | [] => Some (logs, acc)
  | _ =>
    if f_frac_lt F (zlen kv) cnt xff then Some (logs, acc)
    else match aggregate F m kv with
         | None => None
         | Some v =>
           let logs' := add_log logs l (mkPoint t v) in
           if l + 1 <? Z.of_nat (length L)
           then Some (logs', push_dedup acc (t - t mod lay_step L (l + 1)))
           else Some (logs', acc)
         end
  end.

Fixpoint spec_propagate (F : fops) (m xff : Z) (L : lay) (logs : list (list point))
  (l : Z) (acc : list Z) (ts : list Z) : option (list (list point) * list Z) :=
  match ts with
  | [] => Some (logs, acc)
  | t :: rest =>
    match spec_propagate_one F m xff L logs l acc t with
    | None => None
    | Some (logs', acc') => spec_propagate F m xff L logs' l acc' rest
    end
  end.

(** * The level loop, batch and single updates over logs *)

Fixpoint spec_chain (F : fops) (m xff : Z) (L : lay) (fuel : nat) (logs : list (list point))
  (l : Z) (ts : list Z) : option (list (list point)) :=
  match fuel with
  | O => Some logs
  | S fuel' =>
    if (l <? Z.of_nat (length L)) && negb (match ts with [] => true | _ => false end) then
      match spec_propagate F m xff L logs l [] ts with
      | None => None
      | Some (logs', ts') => spec_chain F m xff L fuel' logs' (l + 1) ts'
      end
    else Some logs
  end.

Definition spec_propagate_chain (F : fops) (m xff : Z) (L : lay) (logs : list (list point))
  (a : Z) (aligned : list point) : option (list (list point)) :=
  if a + 1 <? Z.of_nat (length L)
  then spec_chain F m xff L (length L) logs (a + 1) (times_to_propagate (lay_step L (a + 1)) aligned)
  else Some logs.

(** direct entries of a batch handed to archive [a]: one log entry per aligned point, in order *)
Definition add_logs (logs : list (list point)) (a : Z) (ps : list point) : list (list point) :=
  fold_left (fun lg p => add_log lg a p) ps logs.

Definition spec_archive_update (F : fops) (m xff : Z) (L : lay) (logs : list (list point))
  (a : Z) (pts : list point) : option (list (list point)) :=
  let aligned := align_points (lay_step L a) pts in
  spec_propagate_chain F m xff L (add_logs logs a aligned) a aligned.

(** a single accepted update of archive [a] *)
Definition spec_update_point (F : fops) (m xff : Z) (L : lay) (logs : list (list point))
  (a t v : Z) : option (list (list point)) :=
  let p := mkPoint (t - t mod lay_step L a) v in
  spec_propagate_chain F m xff L (add_log logs a p) a [p].

(** * Routing of a batch (C03): which points of the time-sorted batch go where *)
Fixpoint spec_many_loop (F : fops) (m xff : Z) (L : lay) (rets : list Z) (i : Z)
  (logs : list (list point)) (pts : list point) (id now : Z) : option (list (list point)) :=
  match rets with
  | [] => Some logs
  | R :: rest =>
    if negb (id =? -1) && negb (id =? i) then spec_many_loop F m xff L rest (i + 1) logs pts id now
    else
      let cur := filter (fun p => now - R <? p_time p) pts in            (* younger than R *)
      let remaining := filter (fun p => p_time p <=? now - R) pts in
      match cur with
      | [] => spec_many_loop F m xff L rest (i + 1) logs remaining id now
      | _ => match spec_archive_update F m xff L logs i cur with
             | None => None
             | Some logs' => spec_many_loop F m xff L rest (i + 1) logs' remaining id now
             end
      end
  end.

Definition spec_update_many (F : fops) (m xff : Z) (L : lay) (logs : list (list point))
  (pts : list point) (id now : Z) : option (list (list point)) :=
  spec_many_loop F m xff L (map (fun sn => fst sn * snd sn) L) 0 logs (sort_points pts) id now.
