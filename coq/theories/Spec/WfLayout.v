(** C07: the declarative notion of a well-formed archive list, written from the
    property statement over unbounded integers. *)
From WT Require Import Base.Wrap Base.ListX.

(** (step, points) pairs; [off] is the byte offset of the first archive in the list *)
Fixpoint wf_from (off : Z) (l : list (Z * Z)) : Prop :=
  match l with
  | [] => True
  | (s, n) :: r =>
    0 < s /\ 0 < n /\ s * n < 2^31 /\ off < 2^32 /\
    match r with
    | [] => True
    | (s', n') :: _ =>
      s < s' /\ s' mod s = 0 /\ s * n < s' * n' /\ s' / s <= n /\ wf_from (off + 12 * n) r
    end
  end.

Definition wf_layout (l : list (Z * Z)) : Prop :=
  l <> [] /\ wf_from (16 + 12 * zlen l) l.
