(** Shared lemmas of the tie by regeneration (DESIGN 11.7): nothing here depends on the generated file. *)
From WT Require Import Base.Wrap Model.Codec.


Definition is_u32 (x : Z) : Prop := 0 <= x < 2^32.
Definition is_i32 (x : Z) : Prop := - 2^31 <= x < 2^31.

Lemma i64_small x : - 2^63 <= x < 2^63 -> i64 x = x.
Proof. intros. unfold i64. lia. Qed.

Lemma rem_abs_le x y : y <> 0 -> Z.abs (Z.rem x y) < Z.abs y /\ Z.abs (Z.rem x y) <= Z.abs x.
Proof.
  intros Hy. split; [apply Z.rem_bound_abs; exact Hy|].
  pose proof (Z.quot_rem' x y) as Hqr.
  destruct (Z_le_gt_dec 0 x) as [Hx|Hx].
  - pose proof (Z.rem_nonneg x y Hy Hx) as Hp. pose proof (Z.mul_quot_le x y Hx Hy) as Hm. lia.
  - assert (Hx' : x <= 0) by lia.
    pose proof (Z.rem_nonpos x y Hy Hx') as Hn. pose proof (Z.mul_quot_ge x y Hx' Hy) as Hm. lia.
Qed.

Lemma quot_abs_le x y : y <> 0 -> Z.abs (Z.quot x y) <= Z.abs x.
Proof.
  intros Hy. rewrite <- Z.quot_abs by exact Hy.
  destruct (Z.eq_dec (Z.abs x) 0) as [E|E]; [rewrite E, Z.quot_0_l; lia|].
  destruct (Z.eq_dec (Z.abs y) 1) as [E1|E1].
  - rewrite E1, Z.quot_1_r. lia.
  - apply Z.lt_le_incl. apply Z.quot_lt; lia.
Qed.

Lemma floorMod_range x y : 0 < y -> 0 <= floorMod x y < y.
Proof. intros. rewrite floorMod_mod by lia. apply Z.mod_pos_bound. lia. Qed.


(** * a semantic fallback: when the source has been rewritten, the translation differs syntactically from
    the model; the obligation is then attempted by unfolding both sides (the caller names the definitions),
    replacing every remainder by a variable constrained by what a remainder satisfies, splitting on every
    test, writing every wrap as its defining equations and handing the rest to [lia].  It either proves the
    equality for all inputs or fails. *)
Lemma rem_facts a b : b <> 0 ->
  Z.abs (Z.rem a b) < Z.abs b /\ Z.abs (Z.rem a b) <= Z.abs a /\ (0 <= a -> 0 <= Z.rem a b) /\ (a <= 0 -> Z.rem a b <= 0).
Proof.
  intros Hb. destruct (rem_abs_le a b Hb) as [H1 H2]. repeat split; try assumption.
  - intros Ha. apply Z.rem_nonneg; assumption.
  - intros Ha. apply Z.rem_nonpos; assumption.
Qed.
Ltac tie_cases :=
  repeat match goal with
  | |- context [if ?b then _ else _] => destruct b eqn:?
  end.
Ltac tie_abs_rem :=
  repeat match goal with
  | |- context [Z.rem ?a ?b] =>
    let H := fresh "Hrem" in
    assert (H : b <> 0) by (unfold u32, i32, i64, u64, is_u32, is_i32 in *; lia);
    apply (rem_facts a) in H;
    let r := fresh "r" in set (r := Z.rem a b) in *; clearbody r
  end.
Ltac tie_norm :=
  repeat match goal with
  | |- context [u32 ?a] => rewrite (u32_small a) by lia
  | |- context [i32 ?a] => rewrite (i32_small a) by lia
  | |- context [i64 ?a] => rewrite (i64_small a) by lia
  end.
Ltac tie_arith :=
  cbv zeta in *; unfold is_u32, is_i32 in *; intros; tie_cases; tie_norm; tie_abs_rem;
  unfold u32, i32, i64, u64 in *; tie_cases; lia.

(** * archive descriptions as the tuples the translation uses, and what "a value of its Go types" means for one *)
Definition tup (a : ainfo) : Z * Z * Z := (ai_off a, ai_step a, ai_n a).
Definition typed (a : ainfo) : Prop := is_u32 (ai_off a) /\ is_i32 (ai_step a) /\ is_u32 (ai_n a).
Lemma u64_small x : 0 <= x < 2^64 -> u64 x = x.
Proof. intros. unfold u64. lia. Qed.
