(** The tie by regeneration: theorem [tie_ExpectedFileSize] -- the model's [expected_file_size] (what Open holds
    the length of a file against, and the length C06 promises: header + 12 bytes per point) equals the
    translation of the current [Header.ExpectedFileSize] (its loop over the archive list rendered as a Fixpoint),
    for every header whose fields are values of their Go types and fewer than 2^20 archives. *)
From WT Require Import Base.Wrap Base.ListX Model.Time Model.Ring Model.Update Model.Codec Gen.GoKernel Tie.TieBase Tie.tie_Header_Size.

Lemma size_loop_tie : forall l i len sz,
  Forall typed l -> 0 <= i -> i + Z.of_nat (length l) < 2^31 ->
  0 <= sz -> sz + 2^36 * Z.of_nat (length l) < 2^62 ->
  go_Header_ExpectedFileSize_loop (map tup l) i len sz = fold_left (fun s a => s + ai_n a * 12) l sz.
Proof.
  induction l as [|a r IH]; intros i len sz Ht Hi Hl Hs Hb; [reflexivity|].
  inversion Ht as [|? ? [Ha1 [Ha2 Ha3]] Hr]; subst. unfold is_u32, is_i32 in *.
  cbn [map go_Header_ExpectedFileSize_loop fold_left tup length] in *.
  rewrite (i64_small (ai_n a)), (i64_small (ai_n a * 12)), (i64_small (sz + ai_n a * 12)), (i64_small (i + 1)) by lia.
  apply IH; try assumption; lia.
Qed.

Theorem tie_ExpectedFileSize m maxret xff count arcs : is_u32 count -> Forall typed arcs ->
  Z.of_nat (length arcs) < 2^20 ->
  go_Header_ExpectedFileSize m maxret count (map tup arcs) = expected_file_size (mkHeader m maxret xff count arcs).
Proof.
  intros Hc Ht Hl. unfold go_Header_ExpectedFileSize, expected_file_size. cbv zeta. cbn [h_arcs].
  rewrite (tie_Header_Size m maxret xff count arcs Hc).
  unfold header_size, is_u32 in *. cbn [h_count].
  apply size_loop_tie; try assumption; lia.
Qed.

Print Assumptions tie_ExpectedFileSize.
