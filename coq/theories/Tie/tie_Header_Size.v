(** The tie by regeneration: theorem [tie_Header_Size].  [Gen/GoKernel.v] is written by harness/cmd/wtgo2coq from the Go sources
    of /repo's working tree on every run (constants as the Go compiler evaluates them, and the integer
    kernel -- floorMod, Timestamp.Add / Sub / Truncate, ArchiveInfo.MaxRetention / pointIndex /
    pointOffsetAt / interval / intervalForWrite, Header.Size -- statement by statement, every result
    wrapped to the width of its Go type).  This file proves, for ALL values of the Go types involved,
    that the hand-written model functions the property theorems are about are equal to what the source
    says now.  A change to one of these functions in /repo therefore breaks a proof obligation here
    (or leaves it intact, if the change is an equal function), whatever the generated cases exercise. *)
From WT Require Import Base.Wrap Model.Time Model.Ring Model.Update Model.Codec Model.Text Gen.GoKernel Tie.TieBase.

Theorem tie_Header_Size m maxret xff count arcs : is_u32 count ->
  go_Header_Size m maxret count = header_size (mkHeader m maxret xff count arcs).
Proof.
  intros Hc.
  first [ solve [ unfold is_u32 in *; unfold go_Header_Size, header_size; cbn [h_count];
                  rewrite (i64_small count), (i64_small (count * 12)) by lia; apply i64_small; lia ]
        | unfold go_Header_Size, header_size; cbn [h_count]; tie_arith ].
Qed.

Print Assumptions tie_Header_Size.
