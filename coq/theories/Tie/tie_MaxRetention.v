(** The tie by regeneration: theorem [tie_MaxRetention].  [Gen/GoKernel.v] is written by harness/cmd/wtgo2coq from the Go sources
    of /repo's working tree on every run (constants as the Go compiler evaluates them, and the integer
    kernel -- floorMod, Timestamp.Add / Sub / Truncate, ArchiveInfo.MaxRetention / pointIndex /
    pointOffsetAt / interval / intervalForWrite, Header.Size -- statement by statement, every result
    wrapped to the width of its Go type).  This file proves, for ALL values of the Go types involved,
    that the hand-written model functions the property theorems are about are equal to what the source
    says now.  A change to one of these functions in /repo therefore breaks a proof obligation here
    (or leaves it intact, if the change is an equal function), whatever the generated cases exercise. *)
From WT Require Import Base.Wrap Model.Time Model.Ring Model.Update Model.Codec Model.Text Gen.GoKernel Tie.TieBase.

Theorem tie_MaxRetention off step n : is_i32 step -> is_u32 n -> go_ArchiveInfo_MaxRetention off step n = retention step n.
Proof.
  intros Hs Hn.
  first [ reflexivity | unfold go_ArchiveInfo_MaxRetention, retention; tie_arith ].
Qed.

Print Assumptions tie_MaxRetention.
