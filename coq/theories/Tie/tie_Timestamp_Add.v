(** The tie by regeneration: theorem [tie_Timestamp_Add].  [Gen/GoKernel.v] is written by harness/cmd/wtgo2coq from the Go sources
    of /repo's working tree on every run (constants as the Go compiler evaluates them, and the integer
    kernel -- floorMod, Timestamp.Add / Sub / Truncate, ArchiveInfo.MaxRetention / pointIndex /
    pointOffsetAt / interval / intervalForWrite, Header.Size -- statement by statement, every result
    wrapped to the width of its Go type).  This file proves, for ALL values of the Go types involved,
    that the hand-written model functions the property theorems are about are equal to what the source
    says now.  A change to one of these functions in /repo therefore breaks a proof obligation here
    (or leaves it intact, if the change is an equal function), whatever the generated cases exercise. *)
From WT Require Import Base.Wrap Model.Time Model.Ring Model.Update Model.Codec Model.Text Gen.GoKernel Tie.TieBase.

Theorem tie_Timestamp_Add t d : is_u32 t -> is_i32 d -> go_Timestamp_Add t d = ts_add t d.
Proof.
  first [ solve [ unfold go_Timestamp_Add, ts_add; destruct (d >=? 0) eqn:E1, (0 <=? d) eqn:E2; try reflexivity; lia ]
        | unfold go_Timestamp_Add, ts_add; tie_arith ].
Qed.

Print Assumptions tie_Timestamp_Add.
