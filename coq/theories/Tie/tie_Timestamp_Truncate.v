(** The tie by regeneration: theorem [tie_Timestamp_Truncate].  [Gen/GoKernel.v] is written by harness/cmd/wtgo2coq from the Go sources
    of /repo's working tree on every run (constants as the Go compiler evaluates them, and the integer
    kernel -- floorMod, Timestamp.Add / Sub / Truncate, ArchiveInfo.MaxRetention / pointIndex /
    pointOffsetAt / interval / intervalForWrite, Header.Size -- statement by statement, every result
    wrapped to the width of its Go type).  This file proves, for ALL values of the Go types involved,
    that the hand-written model functions the property theorems are about are equal to what the source
    says now.  A change to one of these functions in /repo therefore breaks a proof obligation here
    (or leaves it intact, if the change is an equal function), whatever the generated cases exercise. *)
From WT Require Import Base.Wrap Model.Time Model.Ring Model.Update Model.Codec Model.Text Gen.GoKernel Tie.TieBase Tie.tie_Timestamp_Add.

Theorem tie_Timestamp_Truncate t d : is_u32 t -> is_i32 d -> go_Timestamp_Truncate t d = ts_truncate t d.
Proof.
  intros Ht Hd.
  first [ solve [ unfold is_u32, is_i32 in *; unfold go_Timestamp_Truncate, ts_truncate;
                  destruct (d <=? 0) eqn:E; [reflexivity|];
                  rewrite tie_Timestamp_Add, (i64_small t), (i64_small d) by (unfold is_u32, is_i32; try apply i32_range; lia);
                  assert (Hd0 : d <> 0) by lia; destruct (rem_abs_le t d Hd0) as [_ Hb];
                  rewrite (i64_small (Z.rem t d)) by lia; reflexivity ]
        | unfold go_Timestamp_Truncate, ts_truncate; try rewrite tie_Timestamp_Add by (unfold is_u32, is_i32 in *; try apply i32_range; lia);
          unfold ts_add; tie_arith
        | unfold go_Timestamp_Truncate, go_Timestamp_Add, ts_truncate, ts_add; tie_arith ].
Qed.

Print Assumptions tie_Timestamp_Truncate.
