(** The tie by regeneration: theorem [tie_constants].  [Gen/GoKernel.v] is written by harness/cmd/wtgo2coq from the Go sources
    of /repo's working tree on every run (constants as the Go compiler evaluates them, and the integer
    kernel -- floorMod, Timestamp.Add / Sub / Truncate, ArchiveInfo.MaxRetention / pointIndex /
    pointOffsetAt / interval / intervalForWrite, Header.Size -- statement by statement, every result
    wrapped to the width of its Go type).  This file proves, for ALL values of the Go types involved,
    that the hand-written model functions the property theorems are about are equal to what the source
    says now.  A change to one of these functions in /repo therefore breaks a proof obligation here
    (or leaves it intact, if the change is an equal function), whatever the generated cases exercise. *)
From WT Require Import Base.Wrap Model.Time Model.Ring Model.Update Model.Codec Model.Text Gen.GoKernel Tie.TieBase.

(** the stored method numbers, the duration units, the "best archive" id; the sizes of the classic format
    (16-byte meta data, 12-byte archive descriptions and slots) are unexported constants that reach the
    translation as the literals of [go_Header_Size] and [go_ArchiveInfo_pointOffsetAt] *)
Theorem tie_constants :
  go_const_Average = Update.Average /\ go_const_Sum = Update.Sum /\ go_const_Last = Update.Last /\
  go_const_Max = Update.Max /\ go_const_Min = Update.Min /\ go_const_First = Update.First /\
  go_const_Second = Text.Second /\ go_const_Minute = Text.Minute /\ go_const_Hour = Text.Hour /\
  go_const_Day = Text.Day /\ go_const_Week = Text.Week /\ go_const_Year = Text.Year /\
  go_const_ArchiveIDBest = Ring.ArchiveIDBest.
Proof. repeat split; reflexivity. Qed.

Print Assumptions tie_constants.
