(** The tie by regeneration: theorem [tie_fillOffset] -- the model's [fill_offset] (the offsets NewHeader and the
    retention parser give the archives: contiguous, in declaration order, behind the header) equals the translation
    of the current [ArchiveInfoList.fillOffset] (a loop that rewrites the elements of its slice, rendered as a
    Fixpoint returning the new list), for every list of typed archive descriptions with fewer than 2^31 archives. *)
From WT Require Import Base.Wrap Base.ListX Model.Time Model.Ring Model.Update Model.Codec Gen.GoKernel Tie.TieBase.

Lemma fill_loop_tie : forall l i len off,
  Forall typed l -> 0 <= i -> i + Z.of_nat (length l) < 2^31 -> is_u32 off ->
  go_ArchiveInfoList_fillOffset_loop (map tup l) i len off = map tup (fill_offset_from off l).
Proof.
  induction l as [|a r IH]; intros i len off Ht Hi Hl Ho; [reflexivity|].
  inversion Ht as [|? ? [Ha1 [Ha2 Ha3]] Hr]; subst. unfold is_u32, is_i32 in *.
  cbn [map go_ArchiveInfoList_fillOffset_loop fill_offset_from tup length ai_off ai_step ai_n] in *.
  rewrite (u32_small off), (u32_small (ai_n a)), (i64_small (i + 1)) by lia.
  f_equal. apply IH; try assumption; try lia. unfold is_u32. apply u32_range.
Qed.

Theorem tie_fillOffset l : Forall typed l -> Z.of_nat (length l) < 2^31 ->
  go_ArchiveInfoList_fillOffset (map tup l) = map tup (fill_offset l).
Proof.
  intros Ht Hl. unfold go_ArchiveInfoList_fillOffset, fill_offset. cbv zeta. rewrite map_length.
  replace (u32 (16 + u32 (u32 (Z.of_nat (length l)) * 12))) with (first_offset (zlen l))
    by (unfold first_offset, zlen, u32; lia).
  apply fill_loop_tie; try assumption; try lia. unfold is_u32, first_offset. apply u32_range.
Qed.

Print Assumptions tie_fillOffset.
