(** The tie by regeneration: theorem [tie_floorMod].  [Gen/GoKernel.v] is written by harness/cmd/wtgo2coq from the Go sources
    of /repo's working tree on every run (constants as the Go compiler evaluates them, and the integer
    kernel -- floorMod, Timestamp.Add / Sub / Truncate, ArchiveInfo.MaxRetention / pointIndex /
    pointOffsetAt / interval / intervalForWrite, Header.Size -- statement by statement, every result
    wrapped to the width of its Go type).  This file proves, for ALL values of the Go types involved,
    that the hand-written model functions the property theorems are about are equal to what the source
    says now.  A change to one of these functions in /repo therefore breaks a proof obligation here
    (or leaves it intact, if the change is an equal function), whatever the generated cases exercise. *)
From WT Require Import Base.Wrap Model.Time Model.Ring Model.Update Model.Codec Model.Text Gen.GoKernel Tie.TieBase.

Theorem tie_floorMod x y : - 2^62 <= x < 2^62 -> - 2^62 <= y < 2^62 -> y <> 0 ->
  go_floorMod x y = floorMod x y.
Proof.
  intros Hx Hy Hy0.
  first [ solve [ unfold go_floorMod, floorMod;
                  destruct (rem_abs_le x y Hy0) as [Hb _];
                  rewrite (i64_small (Z.rem x y)) by lia;
                  destruct ((Z.rem x y =? 0) || ((x >=? 0) && (y >? 0) || (x <? 0) && (y <? 0))); [reflexivity|];
                  apply i64_small; lia ]
        | unfold go_floorMod, floorMod; tie_arith ].
Qed.

Print Assumptions tie_floorMod.
