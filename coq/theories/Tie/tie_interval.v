(** The tie by regeneration: theorem [tie_interval].  [Gen/GoKernel.v] is written by harness/cmd/wtgo2coq from the Go sources
    of /repo's working tree on every run (constants as the Go compiler evaluates them, and the integer
    kernel -- floorMod, Timestamp.Add / Sub / Truncate, ArchiveInfo.MaxRetention / pointIndex /
    pointOffsetAt / interval / intervalForWrite, Header.Size -- statement by statement, every result
    wrapped to the width of its Go type).  This file proves, for ALL values of the Go types involved,
    that the hand-written model functions the property theorems are about are equal to what the source
    says now.  A change to one of these functions in /repo therefore breaks a proof obligation here
    (or leaves it intact, if the change is an equal function), whatever the generated cases exercise. *)
From WT Require Import Base.Wrap Model.Time Model.Ring Model.Update Model.Codec Model.Text Gen.GoKernel Tie.TieBase Tie.tie_floorMod.

Theorem tie_interval off step n t : is_u32 t -> 0 < step < 2^31 ->
  go_ArchiveInfo_interval off step n t = interval step t.
Proof.
  intros Ht Hs. pose proof (floorMod_range t step ltac:(lia)) as Hf. unfold is_u32 in *.
  first [ solve [ unfold go_ArchiveInfo_interval, interval;
                  rewrite (i64_small t), (i64_small step) by lia;
                  rewrite tie_floorMod by lia;
                  rewrite (i64_small (t - floorMod t step)) by lia;
                  rewrite (i64_small (t - floorMod t step + step)) by lia; reflexivity ]
        | (* a rewritten body (for instance through intervalForWrite and Add) *)
          unfold go_ArchiveInfo_interval, go_ArchiveInfo_intervalForWrite, go_Timestamp_Add, interval;
          repeat first [ rewrite (i64_small t) by lia | rewrite (i64_small step) by lia | rewrite tie_floorMod by lia
                       | rewrite (i64_small (t - floorMod t step)) by lia | rewrite (i64_small (t - floorMod t step + step)) by lia ];
          generalize dependent (floorMod t step); intros fm Hf;
          first [ reflexivity | tie_arith ] ].
Qed.

Print Assumptions tie_interval.
