(** The tie by regeneration: theorem [tie_pointIndex].  [Gen/GoKernel.v] is written by harness/cmd/wtgo2coq from the Go sources
    of /repo's working tree on every run (constants as the Go compiler evaluates them, and the integer
    kernel -- floorMod, Timestamp.Add / Sub / Truncate, ArchiveInfo.MaxRetention / pointIndex /
    pointOffsetAt / interval / intervalForWrite, Header.Size -- statement by statement, every result
    wrapped to the width of its Go type).  This file proves, for ALL values of the Go types involved,
    that the hand-written model functions the property theorems are about are equal to what the source
    says now.  A change to one of these functions in /repo therefore breaks a proof obligation here
    (or leaves it intact, if the change is an equal function), whatever the generated cases exercise. *)
From WT Require Import Base.Wrap Model.Time Model.Ring Model.Update Model.Codec Model.Text Gen.GoKernel Tie.TieBase Tie.tie_Timestamp_Sub Tie.tie_floorMod.

Theorem tie_pointIndex off step n slots base t : is_u32 base -> is_u32 t -> is_i32 step -> step <> 0 -> is_u32 n -> 0 < n ->
  go_ArchiveInfo_pointIndex off step n base t = point_index (mkArc step n slots) base t.
Proof.
  intros Hb Ht Hs Hs0 Hn Hn0.
  assert (R : - 2^31 <= ts_sub t base < 2^31).
  { pose proof (i32_range (u32 (t - base))) as R1. pose proof (i32_range (- i32 (u32 (base - t)))) as R2.
    unfold ts_sub; destruct (base <=? t); assumption. }
  pose proof (quot_abs_le (ts_sub t base) step Hs0) as Hq.
  pose proof (floorMod_range (Z.quot (ts_sub t base) step) n Hn0) as Hf.
  unfold is_u32, is_i32 in *.
  first [ solve [ unfold go_ArchiveInfo_pointIndex, point_index; cbn [a_step a_n];
                  rewrite tie_Timestamp_Sub by (unfold is_u32; lia);
                  rewrite (i64_small (ts_sub t base)), (i64_small step), (i64_small n) by lia;
                  rewrite (i64_small (Z.quot (ts_sub t base) step)) by lia;
                  rewrite tie_floorMod by lia;
                  apply i64_small; lia ]
        | (* a rewritten body: the same steps wherever they apply, then arithmetic *)
          unfold go_ArchiveInfo_pointIndex, point_index; cbn [a_step a_n];
          repeat first [ rewrite tie_Timestamp_Sub by (unfold is_u32; lia)
                       | rewrite (i64_small (ts_sub t base)) by lia | rewrite (i64_small step) by lia | rewrite (i64_small n) by lia
                       | rewrite (i64_small (Z.quot (ts_sub t base) step)) by lia
                       | rewrite tie_floorMod by lia
                       | rewrite (i64_small (floorMod (Z.quot (ts_sub t base) step) n)) by lia ];
          first [ reflexivity | tie_arith ] ].
Qed.

Print Assumptions tie_pointIndex.
