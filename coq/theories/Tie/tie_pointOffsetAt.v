(** The tie by regeneration: theorem [tie_pointOffsetAt].  [Gen/GoKernel.v] is written by harness/cmd/wtgo2coq from the Go sources
    of /repo's working tree on every run (constants as the Go compiler evaluates them, and the integer
    kernel -- floorMod, Timestamp.Add / Sub / Truncate, ArchiveInfo.MaxRetention / pointIndex /
    pointOffsetAt / interval / intervalForWrite, Header.Size -- statement by statement, every result
    wrapped to the width of its Go type).  This file proves, for ALL values of the Go types involved,
    that the hand-written model functions the property theorems are about are equal to what the source
    says now.  A change to one of these functions in /repo therefore breaks a proof obligation here
    (or leaves it intact, if the change is an equal function), whatever the generated cases exercise. *)
From WT Require Import Base.Wrap Model.Time Model.Ring Model.Update Model.Codec Model.Text Gen.GoKernel Tie.TieBase.

(** the byte offset of a slot: offset of the archive + 12 x index, while it fits the 32-bit field
    (what validation guarantees for every slot of an accepted layout) *)
Theorem tie_pointOffsetAt off step n index : 0 <= off -> 0 <= index -> off + 12 * index < 2^32 ->
  go_ArchiveInfo_pointOffsetAt off step n index = off + 12 * index.
Proof.
  intros H0 H1 H2.
  first [ solve [ unfold go_ArchiveInfo_pointOffsetAt, u32; lia ] | unfold go_ArchiveInfo_pointOffsetAt; tie_arith ].
Qed.

Print Assumptions tie_pointOffsetAt.
