(** The tie by regeneration: theorem [tie_validate] -- the model's [validate] (the function C07's theorems
    characterise as "exactly the well-formed archive lists") equals the translation of the current
    [ArchiveInfoList.validate] (its loop rendered as a Fixpoint, [ArchiveInfo.validate] as a boolean), for every
    list of archive descriptions whose fields are values of their Go types. *)
From WT Require Import Base.Wrap Base.ListX Model.Time Model.Ring Model.Update Model.Codec Gen.GoKernel Tie.TieBase.


Ltac abs_quot_rem :=
  repeat match goal with
  | |- context [Z.rem ?a ?b] =>
    let H := fresh "Hrem" in
    assert (H : b <> 0) by lia; apply (rem_facts a) in H;
    let r := fresh "r" in set (r := Z.rem a b) in *; clearbody r
  | |- context [Z.quot ?a ?b] =>
    let H := fresh "Hquot" in
    assert (H : b <> 0) by lia; apply (quot_abs_le a) in H;
    let q := fresh "q" in set (q := Z.quot a b) in *; clearbody q
  end.

Lemma validate1 o s n : go_ArchiveInfo_validate o s n = (0 <? s) && (0 <? n).
Proof. unfold go_ArchiveInfo_validate. tie_cases; lia. Qed.

Lemma loop_tie : forall l i len off64 off,
  Forall typed l -> 0 <= i -> i + Z.of_nat (length l) = len -> len < 2^31 -> 0 <= off64 < 2^62 -> is_u32 off ->
  go_ArchiveInfoList_validate_loop (map tup l) i len off64 off = validate_from off off64 l.
Proof.
  induction l as [|a r IH]; intros i len off64 off Ht Hi Hlen Hl Ho64 Ho; [reflexivity|].
  inversion Ht as [|? ? [Ha1 [Ha2 Ha3]] Hr]; subst.
  cbn [map go_ArchiveInfoList_validate_loop validate_from tup].
  rewrite validate1. unfold MaxInt32, MaxUint32, is_u32, is_i32 in *.
  assert (Hp : - 2^63 <= ai_step a * ai_n a < 2^63) by nia.
  rewrite ?(i64_small (ai_step a)), ?(i64_small (ai_n a)) by lia.
  rewrite ?(i64_small (ai_step a * ai_n a)), ?(u32_small (ai_n a)), ?(u64_small (ai_n a)) by lia.
  destruct r as [|nx r'].
  - (* the last element *)
    cbn [map length] in *.
    destruct (0 <? ai_step a) eqn:E1; [|cbn [andb]; unfold u32, i32, i64, u64; tie_cases; try reflexivity; lia].
    destruct (0 <? ai_n a) eqn:E2; [|cbn [andb]; unfold u32, i32, i64, u64; tie_cases; try reflexivity; lia].
    destruct (ai_step a * ai_n a <=? 2 ^ 31 - 1) eqn:E3; [|cbn [andb]; unfold u32, i32, i64, u64; tie_cases; try reflexivity; lia].
    destruct (off64 <=? 2 ^ 32 - 1) eqn:E4; [|cbn [andb]; unfold u32, i32, i64, u64; tie_cases; try reflexivity; lia].
    destruct (ai_off a =? off) eqn:E5; cbn [andb]; unfold u32, i32, i64, u64; tie_cases; try reflexivity; lia.
  - inversion Hr as [|? ? [Hn1 [Hn2 Hn3]] Hr']; subst. unfold is_u32, is_i32 in *.
    cbn [map tup length] in *.
    unfold go_ArchiveInfo_MaxRetention, ai_retention, retention.
    destruct (0 <? ai_step a) eqn:E1; [|cbn [andb]; unfold u32, i32, i64, u64; tie_cases; try reflexivity; lia].
    destruct (0 <? ai_n a) eqn:E2; [|cbn [andb]; unfold u32, i32, i64, u64; tie_cases; try reflexivity; lia].
    destruct (ai_step a * ai_n a <=? 2 ^ 31 - 1) eqn:E3; [|cbn [andb]; unfold u32, i32, i64, u64; tie_cases; try reflexivity; lia].
    destruct (off64 <=? 2 ^ 32 - 1) eqn:E4; [|cbn [andb]; unfold u32, i32, i64, u64; tie_cases; try reflexivity; lia].
    destruct (ai_off a =? off) eqn:E5; [|cbn [andb]; unfold u32, i32, i64, u64; tie_cases; try reflexivity; lia].
    cbn [andb].
    abs_quot_rem.
    destruct (ai_step a <? ai_step nx) eqn:E6; [|cbn [andb]; unfold u32, i32, i64, u64; tie_cases; try reflexivity; lia].
    match goal with |- _ = ?R => match R with context [Z.eqb ?x 0] => destruct (x =? 0) eqn:E7 end end;
      [|cbn [andb]; unfold u32, i32, i64, u64 in *; tie_cases; try reflexivity; lia].
    destruct (i32 (ai_step a * i32 (ai_n a)) <? i32 (ai_step nx * i32 (ai_n nx))) eqn:E8; [|cbn [andb]; unfold u32, i32, i64, u64 in *; tie_cases; try reflexivity; lia].
    match goal with |- _ = ?R => match R with context [negb (ai_n a <? ?u)] => destruct (ai_n a <? u) eqn:E9 end end;
      cbn [andb negb]; [unfold u32, i32, i64, u64 in *; tie_cases; try reflexivity; lia|].
    (* every test passes: on to the next element *)
    replace (i64 (i + 1)) with (i + 1) by (symmetry; apply i64_small; lia).
    replace (u64 (off64 + u64 (ai_n a * 12))) with (off64 + ai_n a * 12) by (unfold u64; lia).
    rewrite <- (IH (i + 1) (i + Z.of_nat (S (S (length r')))) (off64 + ai_n a * 12) (u32 (off + u32 (ai_n a * 12))));
      [| assumption | lia | cbn [length]; lia | lia | lia | unfold is_u32; apply u32_range].
    cbn [map].
    assert (Hq : i32 q = q) by (apply i32_small; lia).
    assert (Hr0 : i32 r = r) by (apply i32_small; lia).
    rewrite Hq, Hr0, E7, E9. cbn [negb].
    assert (Hi' : (i =? i64 (i + Z.of_nat (S (S (length r'))) - 1)) = false) by (unfold i64; lia).
    rewrite Hi'.
    destruct (ai_step a * ai_n a >? 2147483647) eqn:F1; [lia|].
    destruct (off64 >? 4294967295) eqn:F2; [lia|].
    destruct (i32 (ai_step a * i32 (ai_n a)) >=? i32 (ai_step nx * i32 (ai_n nx))) eqn:F3; [lia|].
    reflexivity.
Qed.

Theorem tie_validate l : Forall typed l -> Z.of_nat (length l) < 2^31 ->
  go_ArchiveInfoList_validate (map tup l) = validate l.
Proof.
  intros Ht Hl. unfold go_ArchiveInfoList_validate, validate. rewrite map_length.
  destruct l as [|a r]; [reflexivity|].
  assert (Hn : (Z.of_nat (length (a :: r)) =? 0) = false) by (cbn [length]; lia).
  rewrite Hn. cbv zeta.
  replace (u64 (16 + u64 (u64 (Z.of_nat (length (a :: r))) * 12))) with (16 + zlen (a :: r) * 12)
    by (unfold zlen, u64; lia).
  replace (u32 (16 + u32 (u32 (Z.of_nat (length (a :: r))) * 12))) with (first_offset (zlen (a :: r)))
    by (unfold first_offset, zlen, u32; lia).
  apply loop_tie; try assumption; try lia.
  - unfold zlen; lia.
  - unfold is_u32, first_offset. apply u32_range.
Qed.

Print Assumptions tie_validate.
