package main

import (
	"encoding/hex"
	"errors"
	"flag"
	"fmt"
	"io"
	"math"
	"os"
	"os/exec"
	"path/filepath"
	"runtime"
	"strconv"
	"strings"
	"time"

	wt "github.com/hnakamur/whispertool"
	"github.com/hnakamur/whispertool/cmd"
)

func hexStr(s string) string {
	if s == "" {
		return "-"
	}
	return hex.EncodeToString([]byte(s))
}

func layoutDump(l wt.ArchiveInfoList) string {
	if l == nil {
		return "none"
	}
	parts := []string{strconv.Itoa(len(l))}
	for _, a := range l {
		parts = append(parts, fmt.Sprint(int32(a.SecondsPerPoint())), fmt.Sprint(a.NumberOfPoints()))
	}
	return strings.Join(parts, ",")
}

func init() {
	// cliargs SUB hexarg... : the command line of a subcommand up to (not including) Execute, as
	// cmd/whispertool/main.go runs it: Parse on a fresh flag set.  main uses ExitOnError; here the
	// flag set panics instead, which is reported as the exit status main would give.
	handlers["cliargs"] = func(s *sess, tk []string) {
		var args []string
		var pfs []string
		for _, h := range tk[2:] {
			a := ""
			if h != "-" {
				b, err := hex.DecodeString(h)
				must(err)
				a = string(b)
			}
			args = append(args, a)
			// what strconv.ParseFloat(s, 32) makes of the argument (used by the model for -x-files-factor)
			v := a
			if i := strings.IndexByte(a, '='); i >= 0 && strings.HasPrefix(a, "-") {
				v = a[i+1:]
			}
			if f, err := strconv.ParseFloat(v, 32); err == nil {
				pfs = append(pfs, fmt.Sprintf("%016x", math.Float64bits(f)))
			} else {
				pfs = append(pfs, "err")
			}
		}
		s.echo(fmt.Sprintf("%s pf=%s", strings.Join(tk, " "), csvOrDash(pfs)))
		var c cmd.Command
		switch tk[1] {
		case "copy":
			c = &cmd.CopyCommand{}
		case "diff":
			c = &cmd.DiffCommand{}
		case "generate":
			c = &cmd.GenerateCommand{}
		case "server":
			c = &cmd.ServerCommand{}
		case "sum":
			c = &cmd.SumCommand{}
		case "sum-copy":
			c = &cmd.SumCopyCommand{}
		case "sum-diff":
			c = &cmd.SumDiffCommand{}
		case "view":
			c = &cmd.ViewCommand{}
		case "view-raw":
			c = &cmd.ViewRawCommand{}
		default:
			must(fmt.Errorf("unknown subcommand %q", tk[1]))
		}
		fs := flag.NewFlagSet(tk[1], flag.PanicOnError)
		fs.SetOutput(io.Discard)
		fs.Usage = func() {}
		outcome := ""
		var err error
		func() {
			defer func() {
				if r := recover(); r != nil {
					if _, ok := r.(runtime.Error); ok {
						outcome = "panic" // (a run-time panic inside a flag's Set is an error value as well)
					} else if e, ok := r.(error); ok && errors.Is(e, flag.ErrHelp) {
						outcome = "help"
					} else if _, ok := r.(error); ok {
						outcome = "exit2"
					} else {
						outcome = "panic"
					}
				}
			}()
			err = c.Parse(fs, args)
		}()
		if outcome != "" {
			s.obs("cliargs %s", outcome)
			return
		}
		if err != nil {
			var ro *cmd.RequiredOptionError
			msg := err.Error()
			switch {
			case errors.As(err, &ro):
				name := strings.TrimSuffix(strings.TrimPrefix(msg, "option -"), " is required.")
				s.obs("cliargs err required=%s", name)
			case msg == "dest-base must be local directory":
				s.obs("cliargs err desturl")
			case strings.HasPrefix(msg, "dest must be empty when src contains glob meta"):
				s.obs("cliargs err destmeta")
			case msg == "from time must not be after until time":
				s.obs("cliargs err fromafteruntil")
			default:
				s.obs("cliargs err other")
			}
			return
		}
		x32 := func(f float32) string { return fmt.Sprintf("%08x", math.Float32bits(f)) }
		switch v := c.(type) {
		case *cmd.CopyCommand:
			s.obs("cliargs run sb=%s s=%s db=%s d=%s m=%d x=%s lay=%s from=%d until=%d arch=%d to=%s cn=%v", hexStr(v.SrcBase), hexStr(v.SrcRelPath), hexStr(v.DestBase), hexStr(v.DestRelPath),
				int(v.AggregationMethod), x32(v.XFilesFactor), layoutDump(v.ArchiveInfoList), uint32(v.From), uint32(v.Until), v.ArchiveID, hexStr(v.TextOut), v.CopyNaN)
		case *cmd.DiffCommand:
			s.obs("cliargs run sb=%s s=%s db=%s d=%s arch=%d to=%s from=%d until=%d", hexStr(v.SrcBase), hexStr(v.SrcRelPath), hexStr(v.DestBase), hexStr(v.DestRelPath),
				v.ArchiveID, hexStr(v.TextOut), uint32(v.From), uint32(v.Until))
		case *cmd.GenerateCommand:
			s.obs("cliargs run d=%s perm=%d m=%d x=%s lay=%s max=%d fill=%v to=%s", hexStr(v.Dest), uint32(v.Perm), int(v.AggregationMethod), x32(v.XFilesFactor),
				layoutDump(v.ArchiveInfoList), v.RandMax, v.Fill, hexStr(v.TextOut))
		case *cmd.ServerCommand:
			s.obs("cliargs run addr=%s base=%s", hexStr(v.Addr), hexStr(v.BaseDir))
		case *cmd.SumCommand:
			s.obs("cliargs run sb=%s item=%s s=%s arch=%d to=%s hdr=%v from=%d until=%d", hexStr(v.SrcBase), hexStr(v.ItemPattern), hexStr(v.SrcPattern),
				v.ArchiveID, hexStr(v.TextOut), v.ShowHeader, uint32(v.From), uint32(v.Until))
		case *cmd.SumCopyCommand:
			s.obs("cliargs run sb=%s item=%s s=%s db=%s d=%s m=%d x=%s lay=%s from=%d until=%d arch=%d to=%s", hexStr(v.SrcBase), hexStr(v.ItemPattern), hexStr(v.SrcPattern),
				hexStr(v.DestBase), hexStr(v.DestRelPath), int(v.AggregationMethod), x32(v.XFilesFactor), layoutDump(v.ArchiveInfoList), uint32(v.From), uint32(v.Until), v.ArchiveID, hexStr(v.TextOut))
		case *cmd.SumDiffCommand:
			s.obs("cliargs run sb=%s item=%s s=%s db=%s d=%s arch=%d to=%s from=%d until=%d", hexStr(v.SrcBase), hexStr(v.ItemPattern), hexStr(v.SrcPattern),
				hexStr(v.DestBase), hexStr(v.DestRelPath), v.ArchiveID, hexStr(v.TextOut), uint32(v.From), uint32(v.Until))
		case *cmd.ViewCommand:
			s.obs("cliargs run sb=%s s=%s from=%d until=%d arch=%d to=%s hdr=%v", hexStr(v.SrcBase), hexStr(v.SrcRelPath), uint32(v.From), uint32(v.Until), v.ArchiveID, hexStr(v.TextOut), v.ShowHeader)
		case *cmd.ViewRawCommand:
			s.obs("cliargs run sb=%s s=%s from=%d until=%d arch=%d hdr=%v sort=%v to=%s", hexStr(v.SrcBase), hexStr(v.SrcRelPath), uint32(v.From), uint32(v.Until), v.ArchiveID, v.ShowHeader, v.SortsByTime, hexStr(v.TextOut))
		}
	}
}

func init() {
	// cliexit src=base:rel dest=base:rel from= until= archive= : diff run as a process -- the program
	// built from cmd/whispertool/main.go with real command-line flags; its exit status (0 success,
	// 1 difference found, 2 error) is reported as ok / diff / err, its text output as the records
	handlers["cliexit"] = func(s *sess, tk []string) {
		a := parseKV(tk[1:])
		s.closeAll()
		sb, sr := baseRel(a["src"])
		db, dr := baseRel(a["dest"])
		out := filepath.Join(s.dir, fmt.Sprintf("exit-out-%d.txt", len(tk)+int(time.Now().UnixNano()%1000)))
		args := []string{"diff", "-src-base", filepath.Join(s.dir, sb), "-src=" + sr, "-dest-base", filepath.Join(s.dir, db), "-archive", fmt.Sprint(a.num("archive", -1)), "--text-out", out}
		if dr != "" {
			args = append(args, "-dest", dr)
		}
		if a.num("until", 0) != 0 || a.num("from", 0) != 0 {
			args = append(args, "-from="+wt.Timestamp(a.num("from", 0)).String(), "-until", wt.Timestamp(a.num("until", 0)).String())
		}
		var files []string
		if hasMeta(sr) {
			files = s.globRel(sb, sr)
		}
		bin := filepath.Join(filepath.Dir(os.Args[0]), "whispertool")
		c := exec.Command(bin, args...)
		c.Stdout, c.Stderr = io.Discard, io.Discard
		t0 := time.Now().Unix()
		err := c.Run()
		t1 := time.Now().Unix()
		status := "ok"
		if err != nil {
			var ee *exec.ExitError
			if errors.As(err, &ee) {
				switch ee.ExitCode() {
				case 1:
					status = "diff"
				case 2:
					status = "err"
				default:
					status = fmt.Sprintf("exit%d", ee.ExitCode())
				}
			} else {
				must(err)
			}
		}
		text, _ := os.ReadFile(out)
		recs, nows := parseOutput(string(text))
		s.echo(fmt.Sprintf("%s nows=%s files=%s clock=%d,%d", strings.Join(tk, " "), csvOrDash(nows), csvOrDash(files), t0, t1))
		s.emit("cliexit", status, recs)
	}
}
