package main

// childMain runs one hostile-input operation in a child process (used for C15, where an
// allocation bomb or a runaway loop must be an observation, not a crash of the check).
func childMain(args []string) {
	childOps(args)
}

var childOps = func(args []string) {}
