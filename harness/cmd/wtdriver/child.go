package main

import (
	"bytes"
	"errors"
	"fmt"
	"io"
	"os"
	"os/exec"
	"runtime"
	"strings"
	"syscall"
	"time"

	wt "github.com/hnakamur/whispertool"
	"github.com/hnakamur/whispertool/cmd"
)

// Hostile inputs (C15) are handled in a child process with an address-space limit and a
// timeout, so that an allocation bomb, a runaway loop or a fatal runtime error is an
// observation of the case and not a crash of the check.

const childASLimit = 3 << 30 // bytes of address space the child may use
const childTimeout = 20 * time.Second

func childMain(args []string) {
	if args[0] == "server" {
		// the real "whispertool server" on args[1] serving args[2]; ends when the parent closes its stdin
		go func() {
			io.Copy(io.Discard, os.Stdin)
			os.Exit(0)
		}()
		c := &cmd.ServerCommand{Addr: args[1], BaseDir: args[2]}
		fmt.Println(c.Execute())
		return
	}
	if args[0] == "holdopen" {
		// holds a handle (and its flock) on a file for some milliseconds
		db, err := wt.Open(args[1])
		if err != nil {
			fmt.Println("openerr")
			return
		}
		fmt.Println("held")
		os.Stdout.Sync()
		time.Sleep(time.Duration(atoi(args[2])) * time.Millisecond)
		db.Close()
		return
	}
	lim := syscall.Rlimit{Cur: childASLimit, Max: childASLimit}
	_ = syscall.Setrlimit(syscall.RLIMIT_AS, &lim)
	var ms0, ms1 runtime.MemStats
	runtime.ReadMemStats(&ms0)
	out, inputLen := childOp(args)
	runtime.ReadMemStats(&ms1)
	alloc := ms1.TotalAlloc - ms0.TotalAlloc
	verdict := "ok"
	// proportionality: a generous linear bound in the size of the input (the file / the message)
	if alloc > 64*uint64(inputLen)+(4<<20) {
		verdict = fmt.Sprintf("excess(%d_bytes_for_%d_input_bytes)", alloc, inputLen)
	}
	fmt.Printf("%s alloc=%s\n", out, verdict)
}

func childOp(args []string) (out string, inputLen int) {
	defer func() {
		if r := recover(); r != nil {
			out = "panic"
		}
	}()
	switch args[0] {
	case "rview":
		// rview URL KIND BODYLEN: the view / view-raw client against a server at URL; BODYLEN is the number of body
		// bytes that server really sends (the measure of the input)
		n := int(atoi(args[3]))
		aid := -1
		if len(args) > 4 {
			aid = int(atoi(args[4]))
		}
		var err error
		if args[2] == "files" || args[2] == "items" {
			// the name-list decoders (/files, /items) behind diff with a glob source and behind sum: the answer is a
			// list of names, one per line -- whatever lines arrive, the command returns
			dd, derr := os.MkdirTemp("", "wtnames")
			if derr == nil {
				defer os.RemoveAll(dd)
			}
			if args[2] == "files" {
				(&cmd.DiffCommand{SrcBase: args[1], SrcRelPath: "*.wsp", DestBase: dd, ArchiveID: -1, TextOut: ""}).Execute()
			} else {
				(&cmd.SumCommand{SrcBase: args[1], ItemPattern: "i*", SrcPattern: "*.wsp", ArchiveID: -1, TextOut: ""}).Execute()
			}
			return "returned", n
		}
		if args[2] == "viewraw" {
			err = (&cmd.ViewRawCommand{SrcBase: args[1], SrcRelPath: "x.wsp", ArchiveID: aid, TextOut: ""}).Execute()
		} else {
			err = (&cmd.ViewCommand{SrcBase: args[1], SrcRelPath: "x.wsp", ArchiveID: aid, TextOut: ""}).Execute()
		}
		if aid != -1 {
			// an archive selection against an answer that need not have that archive: whatever the command makes
			// of it, it returns
			return "returned", n
		}
		switch {
		case err == nil:
			return "ok", n
		case errors.Is(err, os.ErrNotExist):
			return "notexist", n
		}
		return "err", n
	case "dec":
		src := unhex(args[2])
		return decodeKind(args[1], src), len(src)
	case "open", "fetch", "raw", "upd", "many":
		path := args[1]
		st, err := os.Stat(path)
		if err == nil {
			inputLen = int(st.Size())
		}
		db, err := wt.Open(path, wt.WithoutFlock())
		if err != nil {
			return "openerr", inputLen
		}
		defer db.Close()
		switch args[0] {
		case "open":
			return "ok", inputLen
		case "fetch":
			return fetchObs(db, args[2:]), inputLen
		case "raw":
			pts, err := db.GetAllRawUnsortedPoints(int(atoi(args[2])))
			if err != nil {
				return "err", inputLen
			}
			return fmt.Sprintf("ok %d", len(pts)), inputLen
		case "upd":
			err := db.UpdatePointForArchive(int(atoi(args[2])), wt.Timestamp(atoi(args[3])), hexv(args[4]), wt.Timestamp(atoi(args[5])))
			if err != nil {
				return "err", inputLen
			}
			return "ok", inputLen
		case "many":
			var pts []wt.Point
			for i := 5; i+1 < len(args); i += 2 {
				pts = append(pts, wt.Point{Time: wt.Timestamp(atoi(args[i])), Value: hexv(args[i+1])})
			}
			err := db.UpdatePointsForArchive(pts, int(atoi(args[2])), wt.Timestamp(atoi(args[3])))
			if err != nil {
				return "err", inputLen
			}
			return "ok", inputLen
		}
	}
	return "badop", 0
}

// runChild runs one operation in a child and returns its observation.
func runChild(args ...string) string {
	c := exec.Command(os.Args[0], append([]string{"--child"}, args...)...)
	var stdout bytes.Buffer
	c.Stdout = &stdout
	c.Env = append(os.Environ(), "GOGC=100")
	if err := c.Start(); err != nil {
		must(err)
	}
	done := make(chan error, 1)
	go func() { done <- c.Wait() }()
	select {
	case err := <-done:
		line := strings.TrimSpace(stdout.String())
		if err != nil || line == "" {
			return "crash"
		}
		return line
	case <-time.After(childTimeout):
		c.Process.Kill()
		<-done
		return "hang"
	}
}

func init() {
	// rawfile NAME HEX : the file's bytes are exactly HEX
	register("rawfile", func(s *sess, tk []string) {
		f := s.file(tk[1])
		must(os.WriteFile(f.path, unhex(tk[2]), 0644))
		s.obs("rawfile ok")
	})
	// hdec KIND HEX : decoder on hostile bytes
	register("hdec", func(s *sess, tk []string) {
		s.obs("hdec %s", runChild("dec", tk[1], tk[2]))
	})
	// hopen / hfetch / hraw / hupd / hmany NAME args : Open plus one operation on a hostile file
	for _, op := range []string{"open", "fetch", "raw", "upd", "many"} {
		op := op
		register("h"+op, func(s *sess, tk []string) {
			f := s.file(tk[1])
			s.obs("h%s %s", op, runChild(append([]string{op, f.path}, tk[2:]...)...))
		})
	}
}
