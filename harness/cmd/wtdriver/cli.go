package main

import (
	"errors"
	"fmt"
	"math"
	"os"
	"path/filepath"
	"runtime"
	"sort"
	"strconv"
	"strings"
	"time"

	wt "github.com/hnakamur/whispertool"
	"github.com/hnakamur/whispertool/cmd"
)

// ---- key=value arguments

type kv map[string]string

func parseKV(tk []string) kv {
	m := kv{}
	for _, t := range tk {
		i := strings.IndexByte(t, '=')
		if i < 0 {
			must(fmt.Errorf("bad argument %q", t))
		}
		m[t[:i]] = t[i+1:]
	}
	return m
}
func (m kv) str(k, def string) string {
	if v, ok := m[k]; ok {
		return v
	}
	return def
}
func (m kv) num(k string, def int64) int64 {
	if v, ok := m[k]; ok {
		return atoi(v)
	}
	return def
}

// baseRel splits "base:rel"
func baseRel(s string) (string, string) {
	i := strings.IndexByte(s, ':')
	if i < 0 {
		return s, ""
	}
	return s[:i], s[i+1:]
}

func layoutFromCSV(s string) wt.ArchiveInfoList {
	if s == "" {
		return nil
	}
	l, _ := parseLayout(strings.Split(s, ","))
	return l
}

// ---- text output parsing (float formatting and time formatting are Go's own: the printed
// values are parsed back to bits / Unix seconds before they are compared)

func parseVal(s string) string {
	f, err := strconv.ParseFloat(s, 64)
	if err != nil {
		return "bad:" + s
	}
	return showVal(wt.Value(f))
}
func parseTime(s string) string {
	t, err := time.Parse("2006-01-02T15:04:05Z", s)
	if err != nil {
		return "bad:" + s
	}
	return strconv.FormatInt(t.Unix(), 10)
}
func parseDur(s string) string {
	if len(s) < 2 {
		return "bad:" + s
	}
	n, err := strconv.ParseInt(s[:len(s)-1], 10, 64)
	if err != nil {
		return "bad:" + s
	}
	u := map[byte]int64{'s': 1, 'm': 60, 'h': 3600, 'd': 86400, 'w': 604800, 'y': 31536000}[s[len(s)-1]]
	if u == 0 {
		return "bad:" + s
	}
	return strconv.FormatInt(n*u, 10)
}

func fields(line string) map[string]string {
	m := map[string]string{}
	for _, f := range strings.Split(line, "\t") {
		i := strings.IndexByte(f, ':')
		if i > 0 {
			m[f[:i]] = f[i+1:]
		}
	}
	return m
}

// parseOutput turns the LTSV text output of a command into canonical records and collects
// the clock values the command printed.
func parseOutput(text string) (recs []string, nows []string) {
	for _, line := range strings.Split(text, "\n") {
		if line == "" {
			continue
		}
		f := fields(line)
		switch {
		case strings.HasPrefix(line, "now:"):
			nows = append(nows, parseTime(f["now"]))
		case strings.HasPrefix(line, "time:"):
			// start / finish lines carry wall-clock times only
		case strings.HasPrefix(line, "aggMethod:"):
			x, err := strconv.ParseFloat(f["xFileFactor"], 32)
			xb := "bad"
			if err == nil {
				xb = fmt.Sprintf("%08x", math.Float32bits(float32(x)))
			}
			recs = append(recs, fmt.Sprintf("hdr %s %s %s %s %s text=%s", f["aggMethod"], f["aggMethodNum"], parseDur(f["maxRetention"]), xb, f["archiveCount"], f["maxRetention"]))
		case strings.HasPrefix(line, "archiveInfo:"):
			recs = append(recs, fmt.Sprintf("ainfo %s %s %s %s text=%s", f["archiveInfo"], parseDur(f["durationPerPoint"]), f["numberOfPoints"], f["offset"], f["durationPerPoint"]))
		case strings.HasPrefix(line, "err:"):
			recs = append(recs, "missing "+f["srcOrDest"])
		case strings.Contains(line, "\tsrcVal:"):
			recs = append(recs, fmt.Sprintf("diff %s %s %s %s %s", f["archive"], parseTime(f["t"]), parseVal(f["srcVal"]), parseVal(f["destVal"]), parseVal(f["destMinusSrc"])))
		case strings.HasPrefix(line, "archive:"):
			recs = append(recs, fmt.Sprintf("pt %s %s %s", f["archive"], parseTime(f["t"]), parseVal(f["val"])))
		default:
			recs = append(recs, "other "+strings.ReplaceAll(line, " ", "_"))
		}
	}
	return
}

func statusOf(err error, panicked bool) string {
	switch {
	case panicked:
		return "panic"
	case err == nil:
		return "ok"
	case errors.Is(err, cmd.ErrDiffFound):
		return "diff"
	case errors.Is(err, os.ErrNotExist):
		return "notexist"
	}
	return "err"
}

// textOut prepares the -text-out destination: "file" (a fresh file read back afterwards),
// "bad" (cannot be opened), "full" (/dev/full: opens, every write fails), "discard".
func (s *sess) textOut(kind string) (path string, read func() string) {
	switch kind {
	case "bad":
		return filepath.Join(s.dir, "no-such-dir", "out.txt"), func() string { return "" }
	case "full":
		return "/dev/full", func() string { return "" }
	case "discard":
		return "", func() string { return "" }
	}
	n, _ := s.st["outn"].(int)
	s.st["outn"] = n + 1
	p := filepath.Join(s.dir, fmt.Sprintf("out%d.txt", n))
	return p, func() string {
		b, err := os.ReadFile(p)
		if err != nil {
			return ""
		}
		return string(b)
	}
}

// reuseTextOut: the report file of a command value that is executed a second time (reports are appended: what the
// first run wrote is removed).
func (s *sess) reuseTextOut(p string) (string, func() string) {
	os.Truncate(p, 0)
	return p, func() string {
		b, err := os.ReadFile(p)
		if err != nil {
			return ""
		}
		return string(b)
	}
}

// runCmd executes a command, recovering a panic.  copy and sum-copy do not close the
// destination handle when reading the source fails (the descriptor and its flock live until
// the garbage collector finalises the os.File): within one process the next command on that
// file would block, so finalisers are run before going on.
// runCmd runs a command; a panic is an observation; a command that does not return within the
// watchdog time (a deadlock: nothing in a case takes longer than a few seconds) ends the process
// with a fatal error, which the runner turns into the observation PROCESS-CRASHED of its case.
const cmdWatchdog = 90 * time.Second

func runCmd(execute func() error) (err error, panicked bool) { return runCmdThen(execute, nil) }

// runCmdThen: as runCmd; "then" runs right after the command returned, before any finaliser had a
// chance to close what the command left open.
func runCmdThen(execute func() error, then func()) (err error, panicked bool) {
	type res struct {
		err      error
		panicked bool
	}
	ch := make(chan res, 1)
	go func() {
		var r res
		defer func() {
			if x := recover(); x != nil {
				r.panicked = true
			}
			ch <- r
		}()
		r.err = execute()
	}()
	select {
	case r := <-ch:
		err, panicked = r.err, r.panicked
	case <-time.After(cmdWatchdog):
		fmt.Fprintln(os.Stderr, "fatal error: command did not return within the watchdog time (hang)")
		os.Exit(3)
	}
	if then != nil {
		then()
	}
	for i := 0; i < 3; i++ {
		runtime.GC()
		time.Sleep(2 * time.Millisecond)
	}
	return err, panicked
}

// srcBaseFor returns the base given to the command: a directory of the case, or the URL of the
// in-process server (whose root is the run directory) with the path prefix to prepend.
func (s *sess) srcBaseFor(base string, remote bool) (string, string) {
	if remote && s.deep {
		// deep=1: a server whose served directory is the base itself (names may then leave it through "..")
		return s.serverURLFor(filepath.Join(s.dir, base)) + s.urlTail, ""
	}
	if remote {
		// urlspell=1|2: the same server written with a trailing slash / with a "." element
		return s.serverURL() + s.urlTail, filepath.Join(filepath.Base(s.dir), base)
	}
	return filepath.Join(s.dir, base), ""
}

// respell returns another spelling of the same directory ("spell=" option): a "./" element, a
// doubled separator, a "x/../" detour, a trailing separator.  The files are the same.
func respell(dir string, how int64) string {
	parent, leaf := filepath.Dir(dir), filepath.Base(dir)
	switch how {
	case 1:
		return parent + "/./" + leaf
	case 2:
		return parent + "//" + leaf
	case 3:
		return parent + "/" + leaf + "/../" + leaf
	case 4:
		return dir + "/"
	}
	return dir
}

// globRel lists the case-relative names matched by base/pattern (the glob oracle of the model).
func (s *sess) globRel(base, pattern string) []string {
	m, err := filepath.Glob(filepath.Join(s.dir, base, pattern))
	if err != nil {
		return []string{"BADPATTERN"} // the pattern is malformed: an error, not "nothing matches"
	}
	var out []string
	for _, p := range m {
		r, err := filepath.Rel(s.dir, p)
		must(err)
		out = append(out, r)
	}
	return out
}

func csvOrDash(l []string) string {
	if len(l) == 0 {
		return "-"
	}
	return strings.Join(l, ",")
}

func (s *sess) emit(op string, status string, recs []string) {
	s.obs("%s %s", op, status)
	for _, r := range recs {
		s.obs("out %s", r)
	}
}

// closeAll closes the driver's own handles before a command runs on the files.
func (s *sess) closeAll() {
	for _, f := range s.files() {
		if f.db != nil {
			f.db.Close()
			f.db = nil
		}
	}
}

// startLive implements the options live=NAME hold=NAME of the glob-mode commands: the file NAME
// receives a point while the command runs.  The file "hold" (one the command opens for its FIRST
// matched file) is kept locked; two clock seconds later the point (time = the clock then) is
// written and synced, then the lock is released: every file handled after the first one is read
// after the write.  The returned channel yields "t,valuebits" (or "failed").
func (s *sess) startLive(a kv) chan string {
	liveDone := make(chan string, 1)
	if a["live"] == "" {
		return liveDone
	}
	hf, err := os.OpenFile(filepath.Join(s.dir, a["hold"]), os.O_RDWR, 0)
	must(err)
	must(flockEx(hf))
	livePath := filepath.Join(s.dir, a["live"])
	go func() {
		start := time.Now().Unix()
		for time.Now().Unix() < start+2 {
			time.Sleep(20 * time.Millisecond)
		}
		tl := time.Now().Unix()
		db, err := wt.Open(livePath)
		if err == nil {
			err = db.UpdatePointForArchive(wt.ArchiveIDBest, wt.Timestamp(tl), wt.Value(4242.5), wt.Timestamp(tl))
			if err == nil {
				err = db.Sync()
			}
			db.Close()
		}
		hf.Close()
		if err != nil {
			liveDone <- "failed"
		} else {
			liveDone <- fmt.Sprintf("%d,%016x", tl, math.Float64bits(4242.5))
		}
	}()
	return liveDone
}

func hasMeta(p string) bool { return strings.ContainsAny(p, `*?[\`) }

func init() {
	// clicopy src=base:rel dest=base:rel from= until= archive= copynan= m= x= layout=k,s,n,.. textout= remote=
	handlers["clicopy"] = func(s *sess, tk []string) {
		a := parseKV(tk[1:])
		s.closeAll()
		sb, sr := baseRel(a["src"])
		db, dr := baseRel(a["dest"])
		remote := a.num("remote", 0) == 1
		srcBase, prefix := s.srcBaseFor(sb, remote)
		if !remote {
			srcBase = respell(srcBase, a.num("spell", 0))
		}
		to, readOut := s.textOut(a.str("textout", "file"))
		c := &cmd.CopyCommand{
			SrcBase: srcBase, SrcRelPath: joinRel(prefix, sr), DestBase: filepath.Join(s.dir, db), DestRelPath: dr,
			AggregationMethod: wt.AggregationMethod(a.num("m", 2)), XFilesFactor: math.Float32frombits(uint32(hex64(a.str("x", "3f000000")))),
			ArchiveInfoList: layoutFromCSV(a["layout"]),
			From:            wt.Timestamp(a.num("from", 0)), Until: wt.Timestamp(a.num("until", 0)),
			ArchiveID: int(a.num("archive", -1)), TextOut: to, CopyNaN: a.num("copynan", 0) == 1,
		}
		var files []string
		if hasMeta(sr) {
			files = s.globRel(sb, sr)
		}
		// intruder=T:BITS,.. watch=T (remote source, one file, existing destination): while the source is being
		// fetched another session (Open, read slot "watch" of archive 0, write the points, Sync, Close) is started
		// on the destination.  It gets the file before the copy reads it, or after the copy has written it --
		// whichever the code's locking makes of it; what it read says which, and the file afterwards is the
		// outcome of that order.
		var intr *intruder
		if a["intruder"] != "" && remote {
			stop := func() {}
			intr = &intruder{dest: filepath.Join(s.dir, db, dr), watch: atoi(a["watch"]), done: make(chan struct{})}
			for _, tv := range strings.Split(a["intruder"], ",") {
				p := strings.SplitN(tv, ":", 2)
				intr.pts = append(intr.pts, wt.Point{Time: wt.Timestamp(atoi(p[0])), Value: hexv(p[1])})
			}
			c.SrcBase, stop = s.intruderProxy(intr)
			defer stop()
		}
		liveDone := s.startLive(a)
		t0 := time.Now().Unix()
		err, panicked := s.execute(a, c, nil)
		t1 := time.Now().Unix()
		recs, nows := parseOutput(readOut())
		liveAt := ""
		if a["live"] != "" {
			liveAt = " liveat=" + <-liveDone
		}
		isaw := ""
		if intr != nil {
			isaw = " " + intr.wait()
		}
		s.echo(fmt.Sprintf("%s nows=%s files=%s clock=%d,%d%s%s%s", strings.Join(tk, " "), csvOrDash(nows), csvOrDash(files), t0, t1, liveAt, isaw, s.roSkip()))
		if a.num("nostatus", 0) == 1 && !panicked {
			// which of several failures is reported is not determined: only what the files hold afterwards is compared
			s.obs("clicopy done")
		} else {
			s.emit("clicopy", statusOf(err, panicked), recs)
		}
		if intr != nil {
			s.obs("clicopy-intruder %s", intr.result)
		}
	}
	handlers["clidiff"] = func(s *sess, tk []string) {
		a := parseKV(tk[1:])
		s.closeAll()
		sb, sr := baseRel(a["src"])
		db, dr := baseRel(a["dest"])
		remote := a.num("remote", 0) == 1
		srcBase, prefix := s.srcBaseFor(sb, remote)
		destBase, dprefix := s.srcBaseFor(db, a.num("remotedest", 0) == 1)
		if db == "ROOT" {
			destBase, dprefix = s.root, ""
		}
		if !remote {
			srcBase = respell(srcBase, a.num("spell", 0))
		}
		if dr != "" {
			dr = joinRel(dprefix, dr)
		}
		to, readOut := s.textOut(a.str("textout", "file"))
		c := &cmd.DiffCommand{
			SrcBase: srcBase, SrcRelPath: joinRel(prefix, sr), DestBase: destBase, DestRelPath: dr,
			From: wt.Timestamp(a.num("from", 0)), Until: wt.Timestamp(a.num("until", 0)),
			ArchiveID: int(a.num("archive", -1)), TextOut: to,
		}
		var files []string
		if hasMeta(sr) {
			files = s.globRel(sb, sr)
		}
		liveDone := s.startLive(a)
		t0 := time.Now().Unix()
		err, panicked := s.execute(a, c, nil)
		t1 := time.Now().Unix()
		recs, nows := parseOutput(readOut())
		liveAt := ""
		if a["live"] != "" {
			liveAt = " liveat=" + <-liveDone
		}
		s.echo(fmt.Sprintf("%s nows=%s files=%s clock=%d,%d%s", strings.Join(tk, " "), csvOrDash(nows), csvOrDash(files), t0, t1, liveAt))
		s.emit("clidiff", statusOf(err, panicked), recs)
	}
	// items: "item|f1,f2;item2|f3" — what the item and file patterns match (glob oracle)
	itemsOracle := func(s *sess, base, itemPat, srcPat string) string {
		var parts []string
		// filepath.Glob's own order (sorted per directory, component by component) is the order in
		// which the commands process items and files: not re-sorted here
		dirs, err := filepath.Glob(filepath.Join(s.dir, base, itemPat))
		if err != nil {
			return "BADPATTERN" // malformed item pattern
		}
		for _, d := range dirs {
			rel, _ := filepath.Rel(filepath.Join(s.dir, base), d)
			item := strings.ReplaceAll(rel, "/", ".")
			fs, err := filepath.Glob(filepath.Join(d, srcPat))
			if err != nil {
				parts = append(parts, item+"|BADPATTERN") // malformed file pattern
				break
			}
			var names []string
			for _, f := range fs {
				r, _ := filepath.Rel(s.dir, f)
				names = append(names, r)
			}
			parts = append(parts, item+"|"+csvOrDash(names))
		}
		if len(parts) == 0 {
			return "-"
		}
		return strings.Join(parts, ";")
	}
	handlers["clisum"] = func(s *sess, tk []string) {
		a := parseKV(tk[1:])
		s.closeAll()
		remote := a.num("remote", 0) == 1
		srcBase, prefix := s.srcBaseFor(a["base"], remote)
		if !remote {
			srcBase = respell(srcBase, a.num("spell", 0))
		}
		to, readOut := s.textOut(a.str("textout", "file"))
		c := &cmd.SumCommand{
			SrcBase: srcBase, ItemPattern: filepath.Join(prefix, a["item"]), SrcPattern: a["src"],
			From: wt.Timestamp(a.num("from", 0)), Until: wt.Timestamp(a.num("until", 0)),
			ArchiveID: int(a.num("archive", -1)), TextOut: to, ShowHeader: a.num("header", 1) == 1,
		}
		release := s.holdLock(a.str("hold", ""))
		// again=1: the same sum once more, at once (before any finaliser could tidy up after the first run): a
		// sum -- accepted or rejected -- can be repeated and gives the same verdict; one that does not return
		// within a few seconds is reported as such
		again := ""
		var probe func()
		if a.num("again", 0) == 1 && !remote && a.str("hold", "") == "" {
			probe = func() {
				c2 := *c
				c2.TextOut = ""
				done := make(chan string, 1)
				go func() {
					defer func() {
						if recover() != nil {
							done <- "panic"
						}
					}()
					done <- statusOf(c2.Execute(), false)
				}()
				select {
				case again = <-done:
				case <-time.After(6 * time.Second):
					again = "hang"
				}
			}
		}
		t0 := time.Now().Unix()
		err, panicked := s.execute(a, c, probe)
		t1 := time.Now().Unix()
		release()
		recs, nows := parseOutput(readOut())
		s.echo(fmt.Sprintf("%s nows=%s items=%s clock=%d,%d", strings.Join(tk, " "), csvOrDash(nows), itemsOracle(s, a["base"], a["item"], a["src"]), t0, t1))
		s.emit("clisum", statusOf(err, panicked), recs)
		if again != "" {
			s.obs("clisum-again %s", again)
		}
	}
	handlers["clisumcopy"] = func(s *sess, tk []string) {
		a := parseKV(tk[1:])
		s.closeAll()
		remote := a.num("remote", 0) == 1
		srcBase, prefix := s.srcBaseFor(a["base"], remote)
		if !remote {
			srcBase = respell(srcBase, a.num("spell", 0))
		}
		to, readOut := s.textOut(a.str("textout", "file"))
		c := &cmd.SumCopyCommand{
			SrcBase: srcBase, DestBase: filepath.Join(s.dir, a["destbase"]), ItemPattern: filepath.Join(prefix, a["item"]), SrcPattern: a["src"],
			DestRelPath:       a["dest"],
			AggregationMethod: wt.AggregationMethod(a.num("m", 2)), XFilesFactor: math.Float32frombits(uint32(hex64(a.str("x", "3f000000")))),
			ArchiveInfoList: layoutFromCSV(a["layout"]),
			From:            wt.Timestamp(a.num("from", 0)), Until: wt.Timestamp(a.num("until", 0)),
			ArchiveID: int(a.num("archive", -1)), TextOut: to,
		}
		items := itemsOracle(s, a["base"], a["item"], a["src"])
		liveDone := s.startLive(a)
		// slow=FILE:ms : one source file is kept locked for a while, so that its reader finishes last
		slowDone := s.holdLock(a.str("slow", ""))
		t0 := time.Now().Unix()
		err, panicked := s.execute(a, c, nil)
		t1 := time.Now().Unix()
		slowDone()
		recs, nows := parseOutput(readOut())
		liveAt := ""
		if a["live"] != "" {
			liveAt = " liveat=" + <-liveDone
		}
		s.echo(fmt.Sprintf("%s nows=%s items=%s clock=%d,%d%s%s", strings.Join(tk, " "), csvOrDash(nows), items, t0, t1, liveAt, s.roSkip()))
		if a.num("nostatus", 0) == 1 && !panicked {
			s.obs("clisumcopy done")
		} else {
			s.emit("clisumcopy", statusOf(err, panicked), recs)
		}
	}
	handlers["clisumdiff"] = func(s *sess, tk []string) {
		a := parseKV(tk[1:])
		s.closeAll()
		remote := a.num("remote", 0) == 1
		srcBase, prefix := s.srcBaseFor(a["base"], remote)
		if !remote {
			srcBase = respell(srcBase, a.num("spell", 0))
		}
		to, readOut := s.textOut(a.str("textout", "file"))
		c := &cmd.SumDiffCommand{
			SrcBase: srcBase, DestBase: filepath.Join(s.dir, a["destbase"]), ItemPattern: filepath.Join(prefix, a["item"]), SrcPattern: a["src"],
			DestRelPath: a["dest"],
			From:        wt.Timestamp(a.num("from", 0)), Until: wt.Timestamp(a.num("until", 0)),
			ArchiveID: int(a.num("archive", -1)), TextOut: to,
		}
		items := itemsOracle(s, a["base"], a["item"], a["src"])
		// slow=FILE:ms : one source file is kept locked for a while, so that its reader finishes last
		slowDone := s.holdLock(a.str("slow", ""))
		t0 := time.Now().Unix()
		err, panicked := s.execute(a, c, nil)
		t1 := time.Now().Unix()
		slowDone()
		recs, nows := parseOutput(readOut())
		s.echo(fmt.Sprintf("%s nows=%s items=%s clock=%d,%d", strings.Join(tk, " "), csvOrDash(nows), items, t0, t1))
		s.emit("clisumdiff", statusOf(err, panicked), recs)
	}
	// view and view-raw do not print the clock they used: the run is repeated until the
	// second did not change while the command ran.
	handlers["cliview"] = func(s *sess, tk []string) {
		a := parseKV(tk[1:])
		s.closeAll()
		sb, sr := baseRel(a["src"])
		remote := a.num("remote", 0) == 1
		srcBase, prefix := s.srcBaseFor(sb, remote)
		for try := 0; ; try++ {
			to, readOut := s.textOut(a.str("textout", "file"))
			c := &cmd.ViewCommand{
				SrcBase: srcBase, SrcRelPath: joinRel(prefix, sr),
				From: wt.Timestamp(a.num("from", 0)), Until: wt.Timestamp(a.num("until", 0)),
				ArchiveID: int(a.num("archive", -1)), ShowHeader: a.num("header", 1) == 1, TextOut: to,
			}
			liveAt := ""
			if a.num("twice", 0) == 1 && !remote {
				// twice=1: this very command value has been executed before (see viewTwiceFirst)
				liveAt = " live=" + filepath.Join(sb, sr) + " liveat=" + s.viewTwiceFirst(filepath.Join(s.dir, sb, sr), func() { runCmd(c.Execute) })
				_, readOut = s.reuseTextOut(to)
			}
			t0 := time.Now().Unix()
			err, panicked := s.execute(a, c, nil)
			t1 := time.Now().Unix()
			if t0 != t1 && try < 5 {
				continue
			}
			recs, _ := parseOutput(readOut())
			s.echo(fmt.Sprintf("%s nows=%d clock=%d,%d%s", strings.Join(tk, " "), t0, t0, t1, liveAt))
			s.emit("cliview", statusOf(err, panicked), recs)
			return
		}
	}
	handlers["cliviewraw"] = func(s *sess, tk []string) {
		a := parseKV(tk[1:])
		s.closeAll()
		sb, sr := baseRel(a["src"])
		remote := a.num("remote", 0) == 1
		srcBase, prefix := s.srcBaseFor(sb, remote)
		for try := 0; ; try++ {
			to, readOut := s.textOut(a.str("textout", "file"))
			c := &cmd.ViewRawCommand{
				SrcBase: srcBase, SrcRelPath: joinRel(prefix, sr),
				From: wt.Timestamp(a.num("from", 0)), Until: wt.Timestamp(a.num("until", 0)),
				ArchiveID: int(a.num("archive", -1)), ShowHeader: a.num("header", 1) == 1, SortsByTime: a.num("sort", 0) == 1, TextOut: to,
			}
			liveAt := ""
			if a.num("twice", 0) == 1 && !remote {
				// twice=1: this very command value has been executed before (see viewTwiceFirst)
				liveAt = " live=" + filepath.Join(sb, sr) + " liveat=" + s.viewTwiceFirst(filepath.Join(s.dir, sb, sr), func() { runCmd(c.Execute) })
				_, readOut = s.reuseTextOut(to)
			}
			t0 := time.Now().Unix()
			err, panicked := s.execute(a, c, nil)
			t1 := time.Now().Unix()
			if t0 != t1 && try < 5 {
				continue
			}
			recs, _ := parseOutput(readOut())
			// physical order is not compared: header records first, then the points per archive
			// sorted by (time, value); whether the command's own order was sorted is reported
			var hdr, pts []string
			sorted := true
			last := map[string]int64{}
			for _, r := range recs {
				f := strings.Fields(r)
				if f[0] == "pt" {
					t, _ := strconv.ParseInt(f[2], 10, 64)
					if prev, ok := last[f[1]]; ok && t < prev {
						sorted = false
					}
					last[f[1]] = t
					pts = append(pts, r)
				} else {
					hdr = append(hdr, r)
				}
			}
			sort.SliceStable(pts, func(i, j int) bool {
				a, b := strings.Fields(pts[i]), strings.Fields(pts[j])
				if a[1] != b[1] {
					ai, _ := strconv.Atoi(a[1])
					bi, _ := strconv.Atoi(b[1])
					return ai < bi
				}
				at, _ := strconv.ParseInt(a[2], 10, 64)
				bt, _ := strconv.ParseInt(b[2], 10, 64)
				if at != bt {
					return at < bt
				}
				return a[3] < b[3]
			})
			s.echo(fmt.Sprintf("%s nows=%d clock=%d,%d%s", strings.Join(tk, " "), t0, t0, t1, liveAt))
			st := statusOf(err, panicked)
			if a.num("sort", 0) == 1 && st == "ok" && a.str("textout", "file") == "file" {
				s.obs("cliviewraw %s sorted=%v", st, sorted)
			} else {
				s.obs("cliviewraw %s", st)
			}
			for _, r := range append(hdr, pts...) {
				s.obs("out %s", r)
			}
			return
		}
	}
	// cligenerate dest=name m= x= layout= max= fill= : the printed point lists are handed to the
	// model, which predicts the file from them and checks the constraints on them
	handlers["cligenerate"] = func(s *sess, tk []string) {
		a := parseKV(tk[1:])
		s.closeAll()
		for try := 0; ; try++ {
			to, readOut := s.textOut(a.str("textout", "file"))
			// the name is handed over as it is written ("lnk/../x.wsp" is the operating system's business)
			dest := s.dir + "/" + a["dest"]
			existed := false
			if _, err := os.Stat(dest); err == nil {
				existed = true
			}
			must(os.MkdirAll(filepath.Dir(dest), 0755))
			c := &cmd.GenerateCommand{
				Dest: dest, Perm: 0644,
				AggregationMethod: wt.AggregationMethod(a.num("m", 2)), XFilesFactor: math.Float32frombits(uint32(hex64(a.str("x", "3f000000")))),
				ArchiveInfoList: layoutFromCSV(a["layout"]), RandMax: int(a.num("max", 10)), Fill: a.num("fill", 1) == 1, TextOut: to,
			}
			if a.num("twice", 0) == 1 {
				// twice=1: this very command value has been executed before, for another destination, at least one
				// clock second earlier; the run that is observed is a run of its own (its file is filled up to ITS clock)
				c.Dest = dest + ".first"
				os.Remove(c.Dest)
				c.TextOut = os.DevNull
				c.Execute()
				os.Remove(c.Dest)
				for t := time.Now().Unix(); time.Now().Unix() < t+2; {
					time.Sleep(50 * time.Millisecond)
				}
				c.Dest, c.TextOut = dest, to
			}
			t0 := time.Now().Unix()
			err, panicked := s.execute(a, c, nil)
			t1 := time.Now().Unix()
			if t0 != t1 && try < 5 && !existed && err == nil {
				os.Remove(dest)
				continue
			}
			recs, _ := parseOutput(readOut())
			var pl []string
			for _, r := range recs {
				f := strings.Fields(r)
				if f[0] == "pt" {
					pl = append(pl, f[1]+":"+f[2]+":"+f[3])
				}
			}
			s.echo(fmt.Sprintf("%s nows=%d existed=%v pl=%s clock=%d,%d", strings.Join(tk, " "), t0, existed, csvOrDash(pl), t0, t1))
			var hdr []string
			for _, r := range recs {
				if !strings.HasPrefix(r, "pt ") {
					hdr = append(hdr, r)
				}
			}
			if a.str("textout", "file") != "file" {
				hdr = nil
			}
			s.emit("cligenerate", statusOf(err, panicked), hdr)
			return
		}
	}
}

// holdLock takes an exclusive flock on "name:ms" through a second descriptor and releases it
// after ms milliseconds: the command's reader of that file finishes last (C17: the result must
// not depend on the order in which concurrent readers finish).
func (s *sess) holdLock(spec string) func() {
	if spec == "" {
		return func() {}
	}
	i := strings.LastIndexByte(spec, ':')
	name, ms := spec[:i], atoi(spec[i+1:])
	f, err := os.Open(filepath.Join(s.dir, name))
	if err != nil {
		return func() {}
	}
	must(flockEx(f))
	done := make(chan struct{})
	go func() {
		time.Sleep(time.Duration(ms) * time.Millisecond)
		f.Close()
		close(done)
	}()
	return func() { <-done }
}
