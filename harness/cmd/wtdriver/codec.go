package main

import (
	"bytes"
	"encoding/hex"
	"errors"
	"fmt"
	"math"
	"strings"

	wt "github.com/hnakamur/whispertool"
)

func unhex(s string) []byte {
	if s == "-" {
		return []byte{}
	}
	b, err := hex.DecodeString(s)
	must(err)
	return b
}
func hexOrDash(b []byte) string {
	if len(b) == 0 {
		return "-"
	}
	return hex.EncodeToString(b)
}

// decOutcome renders the result of a TakeFrom call.
// heldWant: the last want-larger-buffer answer is kept; an answer a caller still holds must not change when
// other messages are decoded afterwards (reported as " held=changed" on the decode that changed it)
var heldWant *wt.WantLargerBufferError
var heldWantSize int

func decOutcome(rest []byte, err error, fields func() string) string {
	changed := ""
	if heldWant != nil && heldWant.WantedBufSize != heldWantSize {
		changed = " held=changed"
		heldWant = nil
	}
	if err != nil {
		var w *wt.WantLargerBufferError
		if errors.As(err, &w) {
			if changed == "" && heldWant != nil && heldWant.WantedBufSize != heldWantSize {
				changed = " held=changed"
			}
			size := w.WantedBufSize
			heldWant, heldWantSize = w, size
			return fmt.Sprintf("want %d%s", size, changed)
		}
		return "err" + changed
	}
	// the decoded object is a value of its own: the buffer it was decoded from is overwritten before the object
	// is looked at (a reader reusing one buffer for the next message does the same)
	restHex := hexOrDash(rest)
	for i := range decSrc {
		decSrc[i] ^= 0xA5
	}
	decSrc = nil
	return fmt.Sprintf("ok %s rest=%s%s", fields(), restHex, changed)
}

// appendCheck: AppendTo appends -- encoding after other content (a destination that is not empty, with
// and without spare capacity, another message of the same kind included) leaves that content alone
// and adds exactly the bytes the encoding into an empty destination gives.
func appendCheck(encf func(dst []byte) []byte) string {
	out := encf(nil)
	pat := make([]byte, 19)
	for i := range pat {
		pat[i] = 0xA5
	}
	for variant := 0; variant < 4; variant++ {
		var pre []byte
		switch variant {
		case 0:
			pre = append([]byte(nil), pat...)
		case 1:
			pre = append(make([]byte, 0, len(pat)+len(out)+64), pat...)
		case 2:
			pre = append(make([]byte, 0, 2*len(out)+16), out...)
		case 3:
			pre = append(append(make([]byte, 0, 4*len(out)+64), out...), pat...)
		}
		want := append(append([]byte(nil), pre...), out...)
		// the spare capacity must not be relied on to be zero
		spare := pre[len(pre):cap(pre)]
		for i := range spare {
			spare[i] = 0x5A
		}
		got := encf(pre)
		if !bytes.Equal(got, want) {
			return fmt.Sprintf(" append=BAD%d", variant)
		}
	}
	return " append=ok"
}

func headerFromTokens(tk []string) (*wt.Header, error) {
	m := wt.AggregationMethod(atoi(tk[0]))
	x := math.Float32frombits(uint32(hex64(tk[1])))
	l, _ := parseLayout(tk[2:])
	return wt.NewHeader(m, x, l)
}

func showHeader(h *wt.Header) string {
	return fmt.Sprintf("%s size=%d maxret=%d", hex.EncodeToString(h.AppendTo(nil)), h.ExpectedFileSize(), int32(h.MaxRetention()))
}

// decSrc: the private copy of the bytes the current decode reads from (see decOutcome)
var decSrc []byte

func decodeKind(kind string, src []byte) string {
	src = append([]byte(nil), src...)
	decSrc = src
	switch kind {
	case "ts":
		var t wt.Timestamp
		rest, err := t.TakeFrom(src)
		return decOutcome(rest, err, func() string { return fmt.Sprint(uint32(t)) })
	case "dur":
		var d wt.Duration
		rest, err := d.TakeFrom(src)
		return decOutcome(rest, err, func() string { return fmt.Sprint(int32(d)) })
	case "val":
		var v wt.Value
		rest, err := v.TakeFrom(src)
		return decOutcome(rest, err, func() string { return showBits(v) })
	case "point":
		var p wt.Point
		rest, err := p.TakeFrom(src)
		return decOutcome(rest, err, func() string { return fmt.Sprintf("%d %s", uint32(p.Time), showBits(p.Value)) })
	case "points":
		var pp wt.Points
		rest, err := pp.TakeFrom(src)
		return decOutcome(rest, err, func() string {
			ss := []string{fmt.Sprint(len(pp))}
			for _, p := range pp {
				ss = append(ss, fmt.Sprintf("%d %s", uint32(p.Time), showBits(p.Value)))
			}
			return strings.Join(ss, " ")
		})
	case "series":
		ts := &wt.TimeSeries{}
		rest, err := ts.TakeFrom(src)
		return decOutcome(rest, err, func() string {
			ss := []string{fmt.Sprintf("%d %d %d %d", uint32(ts.FromTime()), uint32(ts.UntilTime()), int32(ts.Step()), len(ts.Values()))}
			for _, v := range ts.Values() {
				ss = append(ss, showBits(v))
			}
			return strings.Join(ss, " ")
		})
	case "ainfo":
		var a wt.ArchiveInfo
		rest, err := a.TakeFrom(src)
		return decOutcome(rest, err, func() string { return hex.EncodeToString(a.AppendTo(nil)) })
	case "header":
		h := &wt.Header{}
		rest, err := h.TakeFrom(src)
		return decOutcome(rest, err, func() string { return showHeader(h) })
	}
	must(fmt.Errorf("unknown kind %q", kind))
	return ""
}

// decreuse KIND HEX1 HEX2: two messages decoded one after the other into the SAME variable (as a
// reader looping over concatenated messages does); a by-value copy of the first result is kept.
// Decoding is a function of the bytes: the second result is what HEX2 decodes to on its own, and
// the copy of the first is untouched.
func decodeReuse(kind string, src1, src2 []byte) string {
	switch kind {
	case "header":
		h := &wt.Header{}
		rest1, err1 := h.TakeFrom(src1)
		first := decOutcome(rest1, err1, func() string { return showHeader(h) })
		keep := *h
		keepStr := showHeader(&keep)
		rest2, err2 := h.TakeFrom(src2)
		second := decOutcome(rest2, err2, func() string { return showHeader(h) })
		same := err1 != nil || showHeader(&keep) == keepStr
		return fmt.Sprintf("first=[%s] second=[%s] firstcopy=%v", first, second, map[bool]string{true: "same", false: "changed"}[same])
	case "points":
		var pp wt.Points
		show := func(pp wt.Points) string {
			ss := []string{fmt.Sprint(len(pp))}
			for _, p := range pp {
				ss = append(ss, fmt.Sprintf("%d %s", uint32(p.Time), showBits(p.Value)))
			}
			return strings.Join(ss, " ")
		}
		rest1, err1 := pp.TakeFrom(src1)
		first := decOutcome(rest1, err1, func() string { return show(pp) })
		keep := pp
		keepStr := show(keep)
		rest2, err2 := pp.TakeFrom(src2)
		second := decOutcome(rest2, err2, func() string { return show(pp) })
		same := err1 != nil || show(keep) == keepStr
		return fmt.Sprintf("first=[%s] second=[%s] firstcopy=%v", first, second, map[bool]string{true: "same", false: "changed"}[same])
	case "series":
		ts := &wt.TimeSeries{}
		show := func(ts *wt.TimeSeries) string {
			ss := []string{fmt.Sprintf("%d %d %d %d", uint32(ts.FromTime()), uint32(ts.UntilTime()), int32(ts.Step()), len(ts.Values()))}
			for _, v := range ts.Values() {
				ss = append(ss, showBits(v))
			}
			return strings.Join(ss, " ")
		}
		rest1, err1 := ts.TakeFrom(src1)
		first := decOutcome(rest1, err1, func() string { return show(ts) })
		keep := *ts
		keepStr := show(&keep)
		rest2, err2 := ts.TakeFrom(src2)
		second := decOutcome(rest2, err2, func() string { return show(ts) })
		same := err1 != nil || show(&keep) == keepStr
		return fmt.Sprintf("first=[%s] second=[%s] firstcopy=%v", first, second, map[bool]string{true: "same", false: "changed"}[same])
	}
	must(fmt.Errorf("unknown kind %q", kind))
	return ""
}

func init() {
	register("decreuse", func(s *sess, tk []string) {
		s.obs("decreuse %s", decodeReuse(tk[1], unhex(tk[2]), unhex(tk[3])))
	})
	register("enc", func(s *sess, tk []string) {
		var encf func(dst []byte) []byte
		switch tk[1] {
		case "ts":
			t := wt.Timestamp(atoi(tk[2]))
			encf = t.AppendTo
		case "dur":
			d := wt.Duration(int32(atoi(tk[2])))
			encf = d.AppendTo
		case "val":
			v := hexv(tk[2])
			encf = v.AppendTo
		case "point":
			p := wt.Point{Time: wt.Timestamp(atoi(tk[2])), Value: hexv(tk[3])}
			encf = p.AppendTo
		case "points":
			var pp wt.Points
			for i := 3; i+1 < len(tk); i += 2 {
				pp = append(pp, wt.Point{Time: wt.Timestamp(atoi(tk[i])), Value: hexv(tk[i+1])})
			}
			encf = pp.AppendTo
		case "series":
			var vs []wt.Value
			for _, t := range tk[6:] {
				vs = append(vs, hexv(t))
			}
			ts := wt.NewTimeSeries(wt.Timestamp(atoi(tk[2])), wt.Timestamp(atoi(tk[3])), wt.Duration(int32(atoi(tk[4]))), vs)
			encf = ts.AppendTo
		case "ainfo":
			a := wt.NewArchiveInfo(wt.Duration(int32(atoi(tk[2]))), uint32(atoi(tk[3])))
			encf = a.AppendTo
		case "header":
			h, err := headerFromTokens(tk[2:])
			if err != nil {
				s.obs("enc err")
				return
			}
			s.obs("enc %s%s", showHeader(h), appendCheck(h.AppendTo))
			return
		default:
			must(fmt.Errorf("unknown kind %q", tk[1]))
		}
		s.obs("enc %s%s", hexOrDash(encf(nil)), appendCheck(encf))
	})
	register("hdr", func(s *sess, tk []string) {
		f := s.file(tk[1])
		if f.db == nil {
			s.obs("hdr nofile")
			return
		}
		s.obs("hdr %s", showHeader(f.db.Header()))
	})
	// hdrof F: the header read by a fresh handle on the path
	register("hdrof", func(s *sess, tk []string) {
		f := s.file(tk[1])
		db, err := wt.Open(f.path, wt.WithoutFlock())
		if err != nil {
			s.obs("hdrof openerr")
			return
		}
		defer db.Close()
		s.obs("hdrof %s", showHeader(db.Header()))
	})
	// dec KIND HEX
	register("dec", func(s *sess, tk []string) {
		s.obs("dec %s", decodeKind(tk[1], unhex(tk[2])))
	})
}
