package main

import (
	"fmt"
	"io"
	"math/rand"
	"net/http"
	"net/url"
	"os"
	"os/exec"
	"path/filepath"
	"runtime"
	"runtime/debug"
	"strings"
	"sync"
	"sync/atomic"
	"time"

	wt "github.com/hnakamur/whispertool"
)

func init() {
	// lockfail NAME : Open (default options: flock) of the file as it is; if it fails, the path must
	// be neither open nor locked afterwards (probed with a non-blocking flock while the garbage
	// collector is switched off, so that a leaked descriptor is not closed by a finaliser)
	register("lockfail", func(s *sess, tk []string) {
		f := s.file(tk[1])
		if free, _ := flockProbe(f.path); !free {
			// an earlier failed Open still holds the lock: opening again would block for ever
			s.obs("lockfail blocked-by-leaked-lock free=false")
			return
		}
		old := debug.SetGCPercent(-1)
		defer func() {
			debug.SetGCPercent(old)
			for i := 0; i < 3; i++ { // let finalisers close whatever was leaked, so that later operations can go on
				runtime.GC()
				time.Sleep(2 * time.Millisecond)
			}
		}()
		db, err := wt.Open(f.path)
		res := "ok"
		if err != nil {
			res = "err"
		} else {
			db.Close()
		}
		free, perr := flockProbe(f.path)
		must(perr)
		s.obs("lockfail %s free=%v", res, free)
	})
	// lockblock NAME : a second Open waits until the first handle is closed
	register("lockblock", func(s *sess, tk []string) {
		f := s.file(tk[1])
		a, err := wt.Open(f.path)
		if err != nil {
			s.obs("lockblock openerr")
			return
		}
		var acquired int32
		done := make(chan error, 1)
		go func() {
			b, err := wt.Open(f.path)
			atomic.StoreInt32(&acquired, 1)
			if err == nil {
				b.Close()
			}
			done <- err
		}()
		time.Sleep(150 * time.Millisecond)
		blocked := atomic.LoadInt32(&acquired) == 0
		a.Close()
		var got bool
		select {
		case err := <-done:
			got = err == nil
		case <-time.After(5 * time.Second):
		}
		s.obs("lockblock blocked=%v acquired=%v", blocked, got)
	})
	// lockproc NAME : the same across processes (a child holds the handle for 1200 ms; the wait is
	// recognised from 400 ms on, so a heavily loaded machine cannot turn a correct wait into an alarm)
	register("lockproc", func(s *sess, tk []string) {
		f := s.file(tk[1])
		c := exec.Command(os.Args[0], "--child", "holdopen", f.path, "1200")
		out, err := c.StdoutPipe()
		must(err)
		must(c.Start())
		buf := make([]byte, 16)
		out.Read(buf) // the child reports "held" once it owns the handle
		t0 := time.Now()
		db, err := wt.Open(f.path)
		waited := time.Since(t0)
		if err == nil {
			db.Close()
		}
		c.Wait()
		s.obs("lockproc opened=%v waited=%v", err == nil, waited >= 400*time.Millisecond)
	})
	// sessions NAME writers rounds readers now : concurrent open-modify-Sync-close sessions (each adds 1
	// to one slot) and concurrent readers of a multi-page archive all of whose slots carry the same
	// generation number
	register("sessions", func(s *sess, tk []string) {
		f := s.file(tk[1])
		writers, rounds, readers := int(atoi(tk[2])), int(atoi(tk[3])), int(atoi(tk[4]))
		now := wt.Timestamp(atoi(tk[5]))
		var wg sync.WaitGroup
		var torn, failed int32
		stop := make(chan struct{})
		var n uint32
		for w := 0; w < writers; w++ {
			wg.Add(1)
			go func() {
				defer wg.Done()
				for r := 0; r < rounds; r++ {
					db, err := wt.Open(f.path)
					if err != nil {
						atomic.AddInt32(&failed, 1)
						return
					}
					if n == 0 {
						n = db.ArchiveInfoList()[0].NumberOfPoints()
					}
					ts, err := db.FetchFromArchive(0, now.Add(-wt.Duration(n)), now, now)
					if err != nil || ts == nil {
						atomic.AddInt32(&failed, 1)
						db.Close()
						return
					}
					g := ts.Values()[len(ts.Values())-1]
					if g.IsNaN() {
						g = 0
					}
					pts := make([]wt.Point, 0, len(ts.Values()))
					for _, p := range ts.Points() {
						pts = append(pts, wt.Point{Time: p.Time, Value: g + 1})
					}
					if err := db.UpdatePointsForArchive(pts, 0, now); err != nil {
						atomic.AddInt32(&failed, 1)
					}
					if err := db.Sync(); err != nil {
						atomic.AddInt32(&failed, 1)
					}
					db.Close()
				}
			}()
		}
		var rg sync.WaitGroup
		for r := 0; r < readers; r++ {
			rg.Add(1)
			go func() {
				defer rg.Done()
				for {
					select {
					case <-stop:
						return
					default:
					}
					db, err := wt.Open(f.path)
					if err != nil {
						atomic.AddInt32(&failed, 1)
						return
					}
					nn := db.ArchiveInfoList()[0].NumberOfPoints()
					ts, err := db.FetchFromArchive(0, now.Add(-wt.Duration(nn)), now, now)
					db.Close()
					if err != nil || ts == nil {
						atomic.AddInt32(&failed, 1)
						return
					}
					vs := ts.Values()
					for _, v := range vs {
						if !v.Equal(vs[0]) {
							atomic.AddInt32(&torn, 1)
							break
						}
					}
				}
			}()
		}
		wg.Wait()
		close(stop)
		rg.Wait()
		db, err := wt.Open(f.path)
		final := "openerr"
		if err == nil {
			ts, _ := db.FetchFromArchive(0, now.Add(-1), now, now)
			if ts != nil && len(ts.Values()) > 0 {
				final = showVal(ts.Values()[len(ts.Values())-1])
			}
			db.Close()
		}
		s.obs("sessions final=%s torn=%d failed=%d", final, torn, failed)
	})
	// confetch NAME K R seed now : K goroutines issue the same R fetches concurrently on ONE handle;
	// each must return what it returns when executed alone
	register("confetch", func(s *sess, tk []string) {
		f := s.file(tk[1])
		if f.db == nil {
			s.obs("confetch nofile")
			return
		}
		k, r := int(atoi(tk[2])), int(atoi(tk[3]))
		rnd := rand.New(rand.NewSource(atoi(tk[4])))
		now := atoi(tk[5])
		nArc := len(f.db.ArchiveInfoList())
		type q struct{ args []string }
		var qs []q
		for i := 0; i < r; i++ {
			a := rnd.Intn(nArc+1) - 1
			ai := a
			if ai < 0 {
				ai = 0
			}
			ret := int64(f.db.ArchiveInfoList()[ai].MaxRetention())
			fr := now - rnd.Int63n(ret+2)
			un := fr + rnd.Int63n(ret+2)
			qs = append(qs, q{[]string{fmt.Sprint(a), fmt.Sprint(fr), fmt.Sprint(un), fmt.Sprint(now)}})
		}
		// every third query is a raw read of an archive (GetAllRawUnsortedPoints) instead of a fetch
		ask := func(i int) string {
			if i%3 == 2 {
				a := int(atoi(qs[i].args[0]))
				if a < 0 {
					a = 0
				}
				pts, err := f.db.GetAllRawUnsortedPoints(a)
				if err != nil {
					return "rawerr"
				}
				var sb strings.Builder
				for _, p := range pts {
					fmt.Fprintf(&sb, "%d:%s ", uint32(p.Time), showBits(p.Value))
				}
				return sb.String()
			}
			return fetchObs(f.db, qs[i].args)
		}
		seq := make([]string, r)
		for i := range qs {
			seq[i] = ask(i)
		}
		var wg sync.WaitGroup
		var bad int32
		for g := 0; g < k; g++ {
			wg.Add(1)
			go func(g int) {
				defer wg.Done()
				for j := 0; j < r; j++ {
					i := (j + g) % r
					if ask(i) != seq[i] {
						atomic.AddInt32(&bad, 1)
					}
				}
			}(g)
		}
		wg.Wait()
		s.obs("confetch differing=%d", bad)
	})
	// conhttp NAME K now : K parallel requests to every endpoint of the server; each response must
	// equal the response to the same request issued alone
	register("conhttp", func(s *sess, tk []string) {
		f := s.file(tk[1])
		s.closeAll()
		k := int(atoi(tk[2]))
		now := wt.Timestamp(atoi(tk[3]))
		rel, _ := filepath.Rel(s.root, f.path)
		base := s.serverURL()
		rounds := 3
		for _, t := range tk[4:] {
			if strings.HasPrefix(t, "rounds=") {
				// rounds=N: every goroutine walks N times over the requests that read the file itself only (view,
				// view-raw: different archives and windows of one file, asked again and again by overlapping requests)
				rounds = int(atoi(t[7:]))
			}
		}
		if len(tk) > 4 && tk[4] == "rel" {
			// a server in a process of its own, started in the case directory with a RELATIVE base (the first
			// element of the file's name): "whispertool server -base data"
			r0, _ := filepath.Rel(s.dir, f.path)
			top := strings.SplitN(r0, "/", 2)[0]
			rel, _ = filepath.Rel(filepath.Join(s.dir, top), f.path)
			base = s.serverURLRel(s.dir, top)
		}
		dir := filepath.Dir(rel)
		ts := func(t wt.Timestamp) string { return url.QueryEscape(t.String()) }
		urls := []string{
			fmt.Sprintf("%s/view?file=%s&retention=-1&from=%s&until=%s&now=%s", base, url.QueryEscape(rel), ts(0), ts(now), ts(now)),
			fmt.Sprintf("%s/view?file=%s&retention=0&from=%s&until=%s&now=%s", base, url.QueryEscape(rel), ts(now.Add(-5)), ts(now), ts(now)),
			fmt.Sprintf("%s/view-raw?file=%s&retention=-1", base, url.QueryEscape(rel)),
			fmt.Sprintf("%s/sum?item=%s&pattern=%s&retention=-1&from=%s&until=%s&now=%s", base, url.QueryEscape(dir), url.QueryEscape("*"), ts(0), ts(now), ts(now)),
			fmt.Sprintf("%s/items?pattern=%s", base, url.QueryEscape(filepath.Dir(dir)+"/*")),
			fmt.Sprintf("%s/files?pattern=%s", base, url.QueryEscape(dir+"/*")),
			fmt.Sprintf("%s/view?file=%s&retention=-1&from=%s&until=%s&now=%s", base, url.QueryEscape(rel+".missing"), ts(0), ts(now), ts(now)),
			// requests that fail, each in its own way (bad parameter, archive out of range, bad
			// timestamp, unreadable path): concurrent failures must not see each other's answers
			fmt.Sprintf("%s/view?file=%s&retention=abc&from=%s&until=%s&now=%s", base, url.QueryEscape(rel), ts(0), ts(now), ts(now)),
			fmt.Sprintf("%s/view?file=%s&retention=7&from=%s&until=%s&now=%s", base, url.QueryEscape(rel), ts(0), ts(now), ts(now)),
			fmt.Sprintf("%s/view?file=%s&retention=-1&from=yesterday&until=%s&now=%s", base, url.QueryEscape(rel), ts(now), ts(now)),
			fmt.Sprintf("%s/view?file=%s&retention=-1&from=%s&until=%s&now=%s", base, url.QueryEscape(dir), ts(0), ts(now), ts(now)),
			fmt.Sprintf("%s/view-raw?file=%s&retention=x", base, url.QueryEscape(rel)),
			fmt.Sprintf("%s/view-raw?file=%s&retention=9", base, url.QueryEscape(rel)),
			fmt.Sprintf("%s/sum?item=%s&pattern=%s&retention=5&from=%s&until=%s&now=%s", base, url.QueryEscape(dir), url.QueryEscape("*"), ts(0), ts(now), ts(now)),
			fmt.Sprintf("%s/sum?item=%s&pattern=%s&retention=zz&from=%s&until=%s&now=%s", base, url.QueryEscape(dir), url.QueryEscape("*"), ts(0), ts(now), ts(now)),
			// the same item, pattern, archive and window asked with different clocks (the clamp of the
			// window depends on the clock): every request is answered for its own clock
			fmt.Sprintf("%s/sum?item=%s&pattern=%s&retention=-1&from=%s&until=%s&now=%s", base, url.QueryEscape(dir), url.QueryEscape("*"), ts(0), ts(now.Add(-4)), ts(now)),
			fmt.Sprintf("%s/sum?item=%s&pattern=%s&retention=-1&from=%s&until=%s&now=%s", base, url.QueryEscape(dir), url.QueryEscape("*"), ts(0), ts(now.Add(-4)), ts(now.Add(-4))),
			fmt.Sprintf("%s/view?file=%s&retention=-1&from=%s&until=%s&now=%s", base, url.QueryEscape(rel), ts(0), ts(now.Add(-4)), ts(now.Add(-4))),
			fmt.Sprintf("%s/view?file=%s&retention=-1&from=%s&until=%s&now=%s", base, url.QueryEscape(rel), ts(0), ts(now.Add(-4)), ts(now)),
			// parameters sent in a form body (the raw query is the same -- empty -- for all of them)
			"POST " + base + "/sum " + fmt.Sprintf("item=%s&pattern=%s&retention=-1&from=%s&until=%s&now=%s", url.QueryEscape(dir), url.QueryEscape("*"), ts(0), ts(now), ts(now)),
			"POST " + base + "/sum " + fmt.Sprintf("item=%s&pattern=%s&retention=-1&from=%s&until=%s&now=%s", url.QueryEscape(dir), url.QueryEscape(filepath.Base(rel)), ts(0), ts(now), ts(now)),
			"POST " + base + "/sum " + fmt.Sprintf("item=%s&pattern=%s&retention=0&from=%s&until=%s&now=%s", url.QueryEscape(dir), url.QueryEscape("*"), ts(now.Add(-6)), ts(now), ts(now)),
			"POST " + base + "/view " + fmt.Sprintf("file=%s&retention=0&from=%s&until=%s&now=%s", url.QueryEscape(rel), ts(now.Add(-6)), ts(now), ts(now)),
		}
		if rounds != 3 {
			urls = []string{urls[0], urls[1], urls[2],
				fmt.Sprintf("%s/view?file=%s&retention=1&from=%s&until=%s&now=%s", base, url.QueryEscape(rel), ts(0), ts(now), ts(now)),
				fmt.Sprintf("%s/view-raw?file=%s&retention=1", base, url.QueryEscape(rel)),
				fmt.Sprintf("%s/view-raw?file=%s&retention=0", base, url.QueryEscape(rel)),
				fmt.Sprintf("%s/view?file=%s&retention=0&from=%s&until=%s&now=%s", base, url.QueryEscape(rel), ts(now.Add(-700)), ts(now.Add(-300)), ts(now)),
				fmt.Sprintf("%s/view?file=%s&retention=0&from=%s&until=%s&now=%s", base, url.QueryEscape(rel), ts(now.Add(-1500)), ts(now.Add(-900)), ts(now)),
			}
		}
		get := func(u string) string {
			var resp *http.Response
			var err error
			if strings.HasPrefix(u, "POST ") {
				f := strings.SplitN(u, " ", 3)
				resp, err = http.Post(f[1], "application/x-www-form-urlencoded", strings.NewReader(f[2]))
			} else {
				resp, err = http.Get(u)
			}
			if err != nil {
				return "transport:" + err.Error()
			}
			defer resp.Body.Close()
			b, _ := io.ReadAll(resp.Body)
			return fmt.Sprintf("%d %x", resp.StatusCode, b)
		}
		seq := make([]string, len(urls))
		for i, u := range urls {
			seq[i] = get(u)
		}
		// the file is kept locked while the concurrent requests arrive, so that they are all in flight
		// (waiting inside their handlers) at the same time
		if hold, err := wt.Open(f.path); err == nil {
			go func() {
				time.Sleep(300 * time.Millisecond)
				hold.Close()
			}()
		}
		var wg sync.WaitGroup
		var bad int32
		for g := 0; g < k; g++ {
			wg.Add(1)
			go func(g int) {
				defer wg.Done()
				for round := 0; round < rounds; round++ {
					for j := range urls {
						i := (j*(g%3+1) + g) % len(urls)
						if get(urls[i]) != seq[i] {
							atomic.AddInt32(&bad, 1)
						}
					}
				}
			}(g)
		}
		wg.Wait()
		ok200 := 0
		for _, r := range seq {
			if len(r) > 4 && r[:3] == "200" {
				ok200++
			}
		}
		s.obs("conhttp differing=%d answered=%d", bad, ok200)
	})
}

func init() {
	// waitopen NAME now : a second handle is opened (default options) while a first one holds the
	// file, changes slots in the first and in a later page, Syncs and closes.  What the second
	// handle then fetches must be what a fresh Open fetches: the synced state, from every page.
	register("waitopen", func(s *sess, tk []string) {
		f := s.file(tk[1])
		s.closeAll()
		now := wt.Timestamp(atoi(tk[2]))
		a, err := wt.Open(f.path)
		if err != nil {
			s.obs("waitopen openerr")
			return
		}
		n := a.ArchiveInfoList()[0].NumberOfPoints()
		step := a.ArchiveInfoList()[0].SecondsPerPoint()
		type res struct {
			vals []wt.Value
			err  error
		}
		done := make(chan res, 1)
		go func() {
			b, err := wt.Open(f.path)
			if err != nil {
				done <- res{nil, err}
				return
			}
			defer b.Close()
			ts, err := b.FetchFromArchive(0, now.Add(-wt.Duration(n)*step), now, now)
			if err != nil || ts == nil {
				done <- res{nil, fmt.Errorf("fetch failed")}
				return
			}
			done <- res{ts.Values(), nil}
		}()
		time.Sleep(150 * time.Millisecond)
		// the holder rewrites every slot of archive 0 (all pages) and syncs
		ts, _ := a.FetchFromArchive(0, now.Add(-wt.Duration(n)*step), now, now)
		var pts []wt.Point
		if ts != nil {
			for _, p := range ts.Points() {
				v := p.Value
				if v.IsNaN() {
					v = 0
				}
				pts = append(pts, wt.Point{Time: p.Time, Value: v + 1000})
			}
		}
		a.UpdatePointsForArchive(pts, 0, now)
		a.Sync()
		a.Close()
		var got res
		select {
		case got = <-done:
		case <-time.After(5 * time.Second):
			s.obs("waitopen second-open-never-returned")
			return
		}
		c, err := wt.Open(f.path)
		if err != nil || got.err != nil {
			s.obs("waitopen openerr")
			return
		}
		defer c.Close()
		want, _ := c.FetchFromArchive(0, now.Add(-wt.Duration(n)*step), now, now)
		differing := 0
		if want == nil || len(want.Values()) != len(got.vals) {
			differing = -1
		} else {
			for i, v := range want.Values() {
				if !v.Equal(got.vals[i]) {
					differing++
				}
			}
		}
		s.obs("waitopen differing=%d", differing)
	})
}

func init() {
	// childhold NAME : while a handle (default options) is open the process starts a child that
	// outlives the handle; after Close a new Open must succeed at once — the lock lives exactly as
	// long as the handle, not as long as some child that happened to be started meanwhile
	// (descriptors must not be inherited).
	register("childhold", func(s *sess, tk []string) {
		f := s.file(tk[1])
		s.closeAll()
		a, err := wt.Open(f.path)
		if err != nil {
			s.obs("childhold openerr")
			return
		}
		child := exec.Command("sleep", "6")
		if err := child.Start(); err != nil {
			a.Close()
			must(err)
		}
		defer func() { child.Process.Kill(); child.Wait() }()
		a.Close()
		done := make(chan error, 1)
		go func() {
			b, err := wt.Open(f.path)
			if err == nil {
				b.Close()
			}
			done <- err
		}()
		select {
		case err := <-done:
			if err != nil {
				s.obs("childhold reopen=err")
			} else {
				s.obs("childhold reopen=ok")
			}
		case <-time.After(3 * time.Second):
			s.obs("childhold reopen=blocked-until-the-child-exits")
			child.Process.Kill()
			<-done
		}
	})
}
