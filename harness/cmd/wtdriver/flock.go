package main

import (
	"os"
	"syscall"
)

func flockEx(f *os.File) error { return syscall.Flock(int(f.Fd()), syscall.LOCK_EX) }

// flockProbe reports whether an exclusive lock on path could be taken right now.
func flockProbe(path string) (free bool, err error) {
	f, err := os.Open(path)
	if err != nil {
		return false, err
	}
	defer f.Close()
	if err := syscall.Flock(int(f.Fd()), syscall.LOCK_EX|syscall.LOCK_NB); err != nil {
		if err == syscall.EWOULDBLOCK {
			return false, nil
		}
		return false, err
	}
	return true, nil
}
