package main

import (
	"fmt"
	"math"
	"os"
	"path/filepath"
	"strings"

	wt "github.com/hnakamur/whispertool"
	"github.com/hnakamur/whispertool/cmd"
)

// cligenat dest=NAME m= x= layout=k,s,n,.. max= seed= now=T : what GenerateCommand.execute does with
// fill on, at an explicit generation instant (the command itself reads the wall clock): Create,
// the generator's point lists (hook VerifRandomPointsList), the per-archive write (hook
// VerifUpdateFileDataWithPointsList), Sync.  The generated lists are echoed for the model.
func init() {
	handlers["cligenat"] = func(s *sess, tk []string) {
		a := parseKV(tk[1:])
		s.closeAll()
		dest := filepath.Join(s.dir, a["dest"])
		must(os.MkdirAll(filepath.Dir(dest), 0755))
		now := wt.Timestamp(uint32(a.num("now", 0)))
		layout := layoutFromCSV(a["layout"])
		var pl []string
		status := "ok"
		err, panicked := runCmd(func() error {
			db, err := wt.Create(dest, layout, wt.AggregationMethod(a.num("m", 2)), math.Float32frombits(uint32(hex64(a.str("x", "3f000000")))))
			if err != nil {
				return err
			}
			defer db.Close()
			lists := cmd.VerifRandomPointsList(layout, a.num("seed", 1), int(a.num("max", 10)), now, now)
			for i, pts := range lists {
				for _, p := range pts {
					pl = append(pl, fmt.Sprintf("%d:%d:%s", i, uint32(p.Time), showVal(p.Value)))
				}
			}
			if err := cmd.VerifUpdateFileDataWithPointsList(db, lists, now); err != nil {
				return err
			}
			return db.Sync()
		})
		status = statusOf(err, panicked)
		s.echo(fmt.Sprintf("%s pl=%s", strings.Join(tk, " "), csvOrDash(pl)))
		s.obs("cligenat %s", status)
	}
}
