package main

import (
	"encoding/hex"
	"fmt"
	"math"
	"os"
	"strings"
	"time"

	gw "github.com/go-graphite/go-whisper"
	wt "github.com/hnakamur/whispertool"
)

func (s *sess) gwfiles() map[string]*gw.Whisper {
	m, ok := s.st["gw"].(map[string]*gw.Whisper)
	if !ok {
		m = map[string]*gw.Whisper{}
		s.st["gw"] = m
	}
	return m
}

func gwNowAt(now int64) { gw.Now = func() time.Time { return time.Unix(now, 0) } }

func gwSeriesString(ts *gw.TimeSeries) string {
	var vs, tt []string
	for i, v := range ts.Values() {
		vs = append(vs, showVal(wt.Value(v)))
		tt = append(tt, fmt.Sprint(uint32(ts.FromTime()+i*ts.Step())))
	}
	return fmt.Sprintf("series %d %d %d %d [%s] [%s]", ts.FromTime(), ts.UntilTime(), ts.Step(), len(vs), strings.Join(vs, " "), strings.Join(tt, " "))
}

func init() {
	// the reference writer (go-whisper): its operations are inputs only, the model reads the bytes
	register("gwcreate", func(s *sess, tk []string) {
		f := s.file(tk[1])
		l, rest := parseLayout(tk[2:])
		var rets gw.Retentions
		for i := range l {
			r := gw.NewRetention(int(l[i].SecondsPerPoint()), int(l[i].NumberOfPoints()))
			rets = append(rets, &r)
		}
		m := gw.AggregationMethod(atoi(rest[1]))
		x := math.Float32frombits(uint32(hex64(rest[3])))
		db, err := gw.CreateWithOptions(f.path, rets, m, x, &gw.Options{})
		must(err)
		s.gwfiles()[tk[1]] = db
	})
	register("gwupd", func(s *sess, tk []string) {
		gwNowAt(atoi(tk[4]))
		_ = s.gwfiles()[tk[1]].Update(float64(hexv(tk[3])), int(atoi(tk[2])))
	})
	// gwmany NAME now n t v ...
	register("gwmany", func(s *sess, tk []string) {
		gwNowAt(atoi(tk[2]))
		var pts []*gw.TimeSeriesPoint
		for i := 4; i+1 < len(tk); i += 2 {
			pts = append(pts, &gw.TimeSeriesPoint{Time: int(atoi(tk[i])), Value: float64(hexv(tk[i+1]))})
		}
		_ = s.gwfiles()[tk[1]].UpdateMany(pts)
	})
	register("gwclose", func(s *sess, tk []string) {
		if db := s.gwfiles()[tk[1]]; db != nil {
			db.Close()
			delete(s.gwfiles(), tk[1])
		}
	})
	// xread NAME from until now : both readers on the same bytes; the bytes go to the model
	handlers["clixread"] = func(s *sess, tk []string) {
		f := s.file(tk[1])
		b, err := os.ReadFile(f.path)
		if err != nil {
			b = nil // (a file the code under test failed to write: no reader opens it, like an empty one)
		}
		hx := "-"
		if len(b) > 0 {
			hx = hex.EncodeToString(b)
		}
		s.echo(fmt.Sprintf("%s hex=%s", strings.Join(tk, " "), hx))
		from, until, now := atoi(tk[2]), atoi(tk[3]), atoi(tk[4])
		// whispertool
		func() {
			defer func() {
				if r := recover(); r != nil {
					s.obs("wt panic")
				}
			}()
			db, err := wt.Open(f.path, wt.WithoutFlock())
			if err != nil {
				s.obs("wtmeta openerr")
				s.obs("wt openerr")
				return
			}
			defer db.Close()
			s.obs("wtmeta %s", showHeader(db.Header()))
			s.obs("wt %s", fetchObs(db, []string{"-1", tk[2], tk[3], tk[4]}))
		}()
		// go-whisper
		func() {
			defer func() {
				if r := recover(); r != nil {
					s.obs("gw panic")
				}
			}()
			gwNowAt(now)
			db, err := gw.Open(f.path)
			if err != nil {
				s.obs("gwmeta openerr")
				s.obs("gw openerr")
				return
			}
			defer db.Close()
			var ss []string
			for _, r := range db.Retentions() {
				ss = append(ss, fmt.Sprintf("%d,%d", r.SecondsPerPoint(), r.NumberOfPoints()))
			}
			s.obs("gwmeta m=%d maxret=%d xff=%08x size=%d [%s]", int(db.AggregationMethod()), db.MaxRetention(), math.Float32bits(db.XFilesFactor()), db.Size(), strings.Join(ss, ";"))
			ts, err := db.Fetch(int(from), int(until))
			switch {
			case err != nil:
				s.obs("gw err")
			case ts == nil:
				s.obs("gw none")
			default:
				s.obs("gw %s", gwSeriesString(ts))
			}
		}()
	}
}
