package main

import (
	"crypto/sha256"
	"fmt"
	"math"
	"os"
	"path/filepath"
	"sort"
	"strconv"
	"strings"

	wt "github.com/hnakamur/whispertool"
)

func atoi(s string) int64 {
	n, err := strconv.ParseInt(s, 10, 64)
	must(err)
	return n
}
func hex64(s string) uint64 {
	b, err := strconv.ParseUint(s, 16, 64)
	must(err)
	return b
}
func hexv(s string) wt.Value { return wt.Value(math.Float64frombits(hex64(s))) }

// showVal prints a value as its bit pattern; every NaN prints as "nan"
// (payloads of computed NaNs are not compared).
func showVal(v wt.Value) string {
	if v.IsNaN() {
		return "nan"
	}
	return fmt.Sprintf("%016x", math.Float64bits(float64(v)))
}
func showBits(v wt.Value) string { return fmt.Sprintf("%016x", math.Float64bits(float64(v))) }

type dbfile struct {
	path   string
	db     *wt.Whisper
	digest [32]byte // file content at the last snapshot
	size   int64
}

func (s *sess) files() map[string]*dbfile {
	m, ok := s.st["files"].(map[string]*dbfile)
	if !ok {
		m = map[string]*dbfile{}
		s.st["files"] = m
	}
	return m
}

func (s *sess) endCase() {
	stopDeepServers()
	restoreClock()
	for _, f := range s.files() {
		if f.db != nil {
			f.db.Close()
		}
	}
	s.st = map[string]interface{}{}
	if s.dir != "" {
		os.RemoveAll(s.dir)
	}
}

func (s *sess) file(name string) *dbfile {
	f := s.files()[name]
	if f == nil {
		f = &dbfile{path: filepath.Join(s.dir, name), size: -1}
		must(os.MkdirAll(filepath.Dir(f.path), 0755))
		s.files()[name] = f
	}
	return f
}

func parseLayout(tk []string) (wt.ArchiveInfoList, []string) {
	k := int(atoi(tk[0]))
	var l wt.ArchiveInfoList
	for i := 0; i < k; i++ {
		l = append(l, wt.NewArchiveInfo(wt.Duration(int32(uint32(atoi(tk[1+2*i])))), uint32(atoi(tk[2+2*i]))))
	}
	return l, tk[1+2*k:]
}

func fileDigest(path string) ([32]byte, int64) {
	b, err := os.ReadFile(path)
	must(err)
	return sha256.Sum256(b), int64(len(b))
}

func showSeries(ts *wt.TimeSeries) string {
	var vs, tt []string
	for _, v := range ts.Values() {
		vs = append(vs, showVal(v))
	}
	for _, p := range ts.Points() {
		tt = append(tt, strconv.FormatUint(uint64(p.Time), 10))
	}
	return fmt.Sprintf("series %d %d %d %d [%s] [%s]", ts.FromTime(), ts.UntilTime(), ts.Step(), len(vs), strings.Join(vs, " "), strings.Join(tt, " "))
}

func fetchObs(db *wt.Whisper, tk []string) string {
	ts, err := db.FetchFromArchive(int(atoi(tk[0])), wt.Timestamp(atoi(tk[1])), wt.Timestamp(atoi(tk[2])), wt.Timestamp(atoi(tk[3])))
	switch {
	case err == wt.ErrArchiveIDOutOfRange:
		return "errarchive"
	case err != nil:
		return "errinterval"
	case ts == nil:
		return "none"
	}
	return showSeries(ts)
}

func init() {
	// create F <k> s1 n1 .. m <method> x <xffhex>
	register("create", func(s *sess, tk []string) {
		f := s.file(tk[1])
		l, rest := parseLayout(tk[2:])
		m := wt.AggregationMethod(atoi(rest[1]))
		x := math.Float32frombits(uint32(hex64(rest[3])))
		db, err := wt.Create(f.path, l, m, x, wt.WithoutFlock())
		if err != nil {
			s.obs("create err")
			return
		}
		f.db = db
		f.digest, f.size = fileDigest(f.path)
		s.obs("create ok")
	})
	register("upd", func(s *sess, tk []string) {
		f := s.file(tk[1])
		if f.db == nil {
			s.obs("upd nofile")
			return
		}
		err := f.db.UpdatePointForArchive(int(atoi(tk[2])), wt.Timestamp(atoi(tk[3])), hexv(tk[4]), wt.Timestamp(atoi(tk[5])))
		if err != nil {
			s.obs("upd err")
		} else {
			s.obs("upd ok")
		}
	})
	// many F id now n t v ...
	register("many", func(s *sess, tk []string) {
		f := s.file(tk[1])
		if f.db == nil {
			s.obs("many nofile")
			return
		}
		var pts []wt.Point
		for i := 5; i+1 < len(tk); i += 2 {
			pts = append(pts, wt.Point{Time: wt.Timestamp(atoi(tk[i])), Value: hexv(tk[i+1])})
		}
		err := f.db.UpdatePointsForArchive(pts, int(atoi(tk[2])), wt.Timestamp(atoi(tk[3])))
		if err != nil {
			s.obs("many err")
		} else {
			s.obs("many ok")
		}
	})
	// fetch F id from until now
	register("fetch", func(s *sess, tk []string) {
		f := s.file(tk[1])
		if f.db == nil {
			s.obs("fetch nofile")
			return
		}
		s.obs("fetch %s", fetchObs(f.db, tk[2:]))
	})
	// dfetch F id from until now : fetch through a second handle on the path
	register("dfetch", func(s *sess, tk []string) {
		f := s.file(tk[1])
		db, err := wt.Open(f.path, wt.WithoutFlock())
		if err != nil {
			s.obs("dfetch openerr")
			return
		}
		defer db.Close()
		s.obs("dfetch %s", fetchObs(db, tk[2:]))
	})
	register("raw", func(s *sess, tk []string) {
		f := s.file(tk[1])
		if f.db == nil {
			s.obs("raw nofile")
			return
		}
		id := int(atoi(tk[2]))
		pts, err := f.db.GetAllRawUnsortedPoints(id)
		if err != nil {
			s.obs("raw err")
			return
		}
		type tv struct {
			t uint32
			v string
		}
		var l []tv
		for _, p := range pts {
			l = append(l, tv{uint32(p.Time), showVal(p.Value)})
		}
		sort.Slice(l, func(i, j int) bool {
			if l[i].t != l[j].t {
				return l[i].t < l[j].t
			}
			return l[i].v < l[j].v
		})
		var ss []string
		for _, e := range l {
			ss = append(ss, fmt.Sprintf("%d:%s", e.t, e.v))
		}
		s.obs("raw [%s]", strings.Join(ss, " "))
	})
	register("sync", func(s *sess, tk []string) {
		f := s.file(tk[1])
		if f.db == nil {
			s.obs("sync nofile")
			return
		}
		if err := f.db.Sync(); err != nil {
			s.obs("sync err")
			return
		}
		f.digest, f.size = fileDigest(f.path)
		s.obs("sync ok")
	})
	// drop F: abandon the handle without Sync
	register("drop", func(s *sess, tk []string) {
		f := s.file(tk[1])
		if f.db != nil {
			f.db.Close()
			f.db = nil
		}
		s.obs("drop ok")
	})
	register("open", func(s *sess, tk []string) {
		f := s.file(tk[1])
		if f.db != nil {
			f.db.Close()
			f.db = nil
		}
		if _, err := os.Stat(f.path); os.IsNotExist(err) {
			s.obs("open nofile")
			return
		}
		db, err := wt.Open(f.path, wt.WithoutFlock())
		if err != nil {
			s.obs("open err")
			return
		}
		f.db = db
		s.obs("open ok")
	})
	register("snap", func(s *sess, tk []string) {
		f := s.file(tk[1])
		if _, err := os.Stat(f.path); err != nil {
			f.digest, f.size = [32]byte{}, -1
		} else {
			f.digest, f.size = fileDigest(f.path)
		}
		s.obs("snap ok")
	})
	// disk F: is the file on disk byte-identical to the last snapshot (taken at create and at every sync)?
	register("disk", func(s *sess, tk []string) {
		f := s.file(tk[1])
		var d [32]byte
		sz := int64(-1)
		if _, err := os.Stat(f.path); err == nil {
			d, sz = fileDigest(f.path)
		}
		if d == f.digest && sz == f.size {
			s.obs("disk same")
		} else {
			s.obs("disk changed")
		}
	})
}
