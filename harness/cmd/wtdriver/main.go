// wtdriver runs a case file against the real whispertool code (library, codec,
// text syntax, commands) and prints, for every operation, the resolved operation
// (lines starting with "> ", the input of the model) and the observation
// (lines starting with "< ").  Panics are recovered per operation and reported
// as an observation.
package main

import (
	"bufio"
	"fmt"
	"os"
	"strconv"
	"strings"
	"sync/atomic"
	"time"
)

var opStart int64 // wall clock at the start of the running operation (0: none)

type handler func(s *sess, tk []string)

var handlers = map[string]handler{}

func register(name string, h handler) { handlers[name] = h }

type sess struct {
	out     *bufio.Writer
	root    string // private scratch directory of this run
	dir     string // directory of the current case
	caseN   int
	st      map[string]interface{}
	t0      int64  // wall clock (Unix seconds) at the start of the current case
	deep    bool   // the current operation carries deep=1 (see srcBaseFor)
	urlTail string // "", "/" or "/." : how the server URL of the current operation is spelled (urlspell=)
}

func (s *sess) obs(format string, a ...interface{}) {
	fmt.Fprintf(s.out, "< "+format+"\n", a...)
	if os.Getenv("WTDRIVER_FLUSH") != "" {
		s.out.Flush()
	}
}
func (s *sess) echo(line string) { fmt.Fprintf(s.out, "> %s\n", line) }

func main() {
	if len(os.Args) < 2 {
		fmt.Fprintln(os.Stderr, "usage: wtdriver <casefile>")
		os.Exit(2)
	}
	if len(os.Args) >= 3 && os.Args[1] == "--child" {
		childMain(os.Args[2:])
		return
	}
	f, err := os.Open(os.Args[1])
	must(err)
	defer f.Close()
	root, err := os.MkdirTemp("", "wtdriver")
	must(err)
	defer os.RemoveAll(root)
	out := bufio.NewWriterSize(os.Stdout, 1<<20)
	defer out.Flush()
	s := &sess{out: out, root: root, st: map[string]interface{}{}}
	// watchdog: no operation of a case takes longer than a few seconds; one that does not return
	// (a deadlock, a lock that is never released) ends the process with a fatal error, which the
	// runner turns into the observation PROCESS-CRASHED of its case
	go func() {
		for {
			time.Sleep(time.Second)
			if t := atomic.LoadInt64(&opStart); t != 0 && time.Now().Unix()-t > 120 {
				out.Flush()
				fmt.Fprintln(os.Stderr, "fatal error: operation did not return within the watchdog time (hang)")
				os.Exit(3)
			}
		}
	}()
	sc := bufio.NewScanner(f)
	sc.Buffer(make([]byte, 1<<20), 1<<28)
	for sc.Scan() {
		line := strings.TrimSpace(sc.Text())
		if line == "" || line[0] == '#' {
			continue
		}
		tk := strings.Fields(line)
		if tk[0] == "case" {
			s.endCase()
			s.caseN++
			s.dir = fmt.Sprintf("%s/c%d", root, s.caseN)
			must(os.MkdirAll(s.dir, 0755))
			s.t0 = time.Now().Unix()
			s.echo(line)
			continue
		}
		// "@", "@-5", "@+3": times relative to the wall clock at the start of the case
		for i, t := range tk {
			tk[i] = s.resolveTime(t)
		}
		line = strings.Join(tk, " ")
		s.deep, s.urlTail = false, ""
		for _, t := range tk {
			switch t {
			case "deep=1":
				s.deep = true
			case "urlspell=1":
				s.urlTail = "/"
			case "urlspell=2":
				s.urlTail = "/."
			}
		}
		h := handlers[tk[0]]
		if h == nil {
			fmt.Fprintf(os.Stderr, "wtdriver: unknown op %q\n", tk[0])
			os.Exit(2)
		}
		func() {
			defer func() {
				if r := recover(); r != nil {
					if _, ok := r.(harnessError); ok {
						panic(r)
					}
					s.obs("%s panic", tk[0])
				}
			}()
			if !strings.HasPrefix(tk[0], "cli") {
				s.echo(line)
			}
			atomic.StoreInt64(&opStart, time.Now().Unix())
			defer atomic.StoreInt64(&opStart, 0)
			h(s, tk)
		}()
	}
	s.endCase()
}

// harnessError marks failures of the harness itself (never reported as an
// observation of the code under test).
type harnessError struct{ err error }

func must(err error) {
	if err != nil {
		panic(harnessError{err})
	}
}

func (s *sess) resolveTime(t string) string {
	// also inside key=value tokens and comma separated lists
	if !strings.Contains(t, "@") {
		return t
	}
	var b strings.Builder
	for i := 0; i < len(t); {
		if t[i] != '@' {
			b.WriteByte(t[i])
			i++
			continue
		}
		j := i + 1
		if j < len(t) && (t[j] == '+' || t[j] == '-') {
			j++
			for j < len(t) && t[j] >= '0' && t[j] <= '9' {
				j++
			}
		}
		off := int64(0)
		if j > i+1 {
			var err error
			off, err = strconv.ParseInt(t[i+1:j], 10, 64)
			must(err)
		}
		b.WriteString(strconv.FormatInt(s.t0+off, 10))
		i = j
	}
	return b.String()
}
