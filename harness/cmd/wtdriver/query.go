package main

import (
	"net/url"
	"sort"
	"strings"
)

// qesc HEX / qunesc HEX / qparse HEX: net/url as the client (QueryEscape inside fmt.Sprintf) and the
// server (ParseForm = ParseQuery of the raw query) use it (C12: the query round trip).
func init() {
	register("qesc", func(s *sess, tk []string) {
		s.obs("qesc %s", strOut(url.QueryEscape(strArg(tk[1]))))
	})
	register("qunesc", func(s *sess, tk []string) {
		v, err := url.QueryUnescape(strArg(tk[1]))
		if err != nil {
			s.obs("qunesc err")
			return
		}
		s.obs("qunesc ok %s", strOut(v))
	})
	register("qparse", func(s *sess, tk []string) {
		m, err := url.ParseQuery(strArg(tk[1]))
		if err != nil {
			s.obs("qparse err")
			return
		}
		var keys []string
		for k := range m {
			keys = append(keys, k)
		}
		sort.Strings(keys)
		var parts []string
		for _, k := range keys {
			var vs []string
			for _, v := range m[k] {
				vs = append(vs, strOut(v))
			}
			parts = append(parts, strOut(k)+"="+strings.Join(vs, ","))
		}
		s.obs("qparse ok %s", csvOrDashSemi(parts))
	})
}

func csvOrDashSemi(l []string) string {
	if len(l) == 0 {
		return "-"
	}
	return strings.Join(l, ";")
}
