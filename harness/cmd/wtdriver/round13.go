package main

import (
	"bytes"
	"fmt"
	"os"
	"path/filepath"
	"strings"
	"syscall"
	"time"

	wt "github.com/hnakamur/whispertool"
	"github.com/hnakamur/whispertool/cmd"
)

// asNobody runs fn as a user who may read but not write the given files (mode 0444, effective uid
// 65534; the directories on the way are made searchable).  Permission bits mean nothing to uid 0, so
// the effective uid is dropped for the duration of fn (all threads: the in-process server included).
// It reports whether the uid could be dropped.
func (s *sess) asNobody(files []string, fn func()) bool {
	type saved struct {
		path string
		mode os.FileMode
	}
	var restore []saved
	for _, p := range files {
		if st, err := os.Stat(p); err == nil {
			restore = append(restore, saved{p, st.Mode().Perm()})
			must(os.Chmod(p, 0444))
		}
	}
	dropped := false
	if os.Geteuid() == 0 && os.Getenv("WTDRIVER_NO_UIDDROP") == "" { // (the variable: a way to exercise the fallback)
		// (the scratch directories on the way stay searchable: several driver processes share the upper one, and
		// taking the bits away again under a neighbour that has just dropped its uid would fail its command)
		for _, d := range []string{s.root, filepath.Dir(s.root)} {
			if st, err := os.Stat(d); err == nil && st.Mode().Perm()&0011 != 0011 {
				os.Chmod(d, st.Mode().Perm()|0011)
			}
		}
		dropped = syscall.Seteuid(65534) == nil
		if dropped {
			// the files must be within reach of that user (a scratch directory below a private one is not)
			for _, p := range files {
				if f, err := os.Open(p); err != nil {
					if _, serr := os.Stat(filepath.Dir(p)); serr != nil {
						must(syscall.Seteuid(0))
						dropped = false
						break
					}
				} else {
					f.Close()
				}
			}
		}
	}
	if !dropped {
		for i := len(restore) - 1; i >= 0; i-- {
			os.Chmod(restore[i].path, restore[i].mode)
		}
		return false
	}
	func() {
		defer func() {
			if dropped {
				must(syscall.Seteuid(0))
			}
			for i := len(restore) - 1; i >= 0; i-- {
				os.Chmod(restore[i].path, restore[i].mode)
			}
		}()
		fn()
	}()
	return dropped
}

// roSkip: " roskip=1" if the last ro= command could not be run as another user (see execute).
func (s *sess) roSkip() string {
	if v, _ := s.st["roskip"].(bool); v {
		delete(s.st, "roskip")
		return " roskip=1"
	}
	return ""
}

// roFiles: the files named by the option ro=REL[,REL] (relative to the case directory).
func (s *sess) roFiles(a kv) []string {
	var out []string
	for _, r := range strings.Split(a["ro"], ",") {
		if r != "" {
			out = append(out, filepath.Join(s.dir, r))
		}
	}
	return out
}

func init() {
	// openro F : a handle that holds no lock and was opened for reading only
	register("openro", func(s *sess, tk []string) {
		f := s.file(tk[1])
		if f.db != nil {
			f.db.Close()
			f.db = nil
		}
		db, err := wt.Open(f.path, wt.WithoutFlock(), wt.WithOpenFileFlag(os.O_RDONLY))
		if err != nil {
			s.obs("openro err")
			return
		}
		f.db = db
		s.obs("openro ok")
	})
	// manytwice F id1 id2 now n t v ... : ONE slice of points handed to two batch writes, archive id1 first,
	// then archive id2 -- what a batch write does with its argument is its own business: the second write
	// stores the points the caller put into the slice
	register("manytwice", func(s *sess, tk []string) {
		f := s.file(tk[1])
		if f.db == nil {
			s.obs("many nofile")
			s.obs("many nofile")
			return
		}
		var pts []wt.Point
		for i := 6; i+1 < len(tk); i += 2 {
			pts = append(pts, wt.Point{Time: wt.Timestamp(atoi(tk[i])), Value: hexv(tk[i+1])})
		}
		for _, id := range tk[2:4] {
			if err := f.db.UpdatePointsForArchive(pts, int(atoi(id)), wt.Timestamp(atoi(tk[4]))); err != nil {
				s.obs("many err")
			} else {
				s.obs("many ok")
			}
		}
	})
	// cliroread src=base:rel from= until= archive= : a file the user may read but not write, viewed through
	// the directory and through a server on that directory (by the same user): the same answer -- data or error
	handlers["cliroread"] = func(s *sess, tk []string) {
		a := parseKV(tk[1:])
		s.closeAll()
		sb, sr := baseRel(a["src"])
		var outs [2]string
		var sts [2]string
		dropped := false
		for try := 0; try < 5; try++ {
			t0 := time.Now().Unix()
			// the report files exist beforehand, writable by anybody
			var outPaths [2]string
			for i := range outPaths {
				outPaths[i], _ = s.textOut("file")
				must(os.WriteFile(outPaths[i], nil, 0666))
				must(os.Chmod(outPaths[i], 0666))
			}
			dropped = s.asNobody([]string{filepath.Join(s.dir, sb, sr)}, func() {
				for i, remote := range []bool{false, true} {
					srcBase, prefix := s.srcBaseFor(sb, remote)
					c := &cmd.ViewCommand{SrcBase: srcBase, SrcRelPath: joinRel(prefix, sr), From: wt.Timestamp(a.num("from", 0)), Until: wt.Timestamp(a.num("until", 0)),
						ArchiveID: int(a.num("archive", -1)), ShowHeader: true, TextOut: outPaths[i]}
					err, panicked := runCmd(c.Execute)
					b, _ := os.ReadFile(outPaths[i])
					var buf bytes.Buffer
					buf.Write(b)
					outs[i], sts[i] = buf.String(), statusOf(err, panicked)
				}
			})
			if time.Now().Unix() == t0 {
				break
			}
		}
		s.echo(strings.Join(tk, " "))
		if !dropped {
			s.obs("cliroread same=true")
			return
		}
		s.obs("cliroread same=%v", sts[0] == sts[1] && outs[0] == outs[1])
	}
}

// viewTwice: the option twice=1 of cliview / cliviewraw.  The SAME command value is executed a first time
// (its output is dropped), then -- a clock second later -- the file receives a point at the clock and the
// value is executed again: the second run is a run of its own (its default window ends at ITS clock).
// Returns the liveat echo ("t,bits").
func (s *sess) viewTwiceFirst(path string, first func()) string {
	first()
	for t := time.Now().Unix(); time.Now().Unix() == t; {
		time.Sleep(20 * time.Millisecond)
	}
	now := time.Now().Unix()
	v := 4242.5
	db, err := wt.Open(path)
	if err != nil {
		return "failed"
	}
	defer db.Close()
	if db.UpdatePointForArchive(wt.ArchiveIDBest, wt.Timestamp(now), wt.Value(v), wt.Timestamp(now)) != nil || db.Sync() != nil {
		return "failed"
	}
	return fmt.Sprintf("%d,%s", now, showBits(wt.Value(v)))
}
