package main

import (
	"bytes"
	"fmt"
	"io"
	"net/http"
	"net/url"
	"os"
	"path/filepath"
	"runtime"
	"strings"
	"time"

	wt "github.com/hnakamur/whispertool"
	"github.com/hnakamur/whispertool/cmd"
)

func init() {
	// abandon F : the handle is dropped without Close and without Sync, and the garbage collector runs (twice, with
	// time for finalizers): whatever the runtime does with the forgotten handle, the file holds the last synced state
	register("abandon", func(s *sess, tk []string) {
		f := s.file(tk[1])
		f.db = nil
		for i := 0; i < 3; i++ {
			runtime.GC()
			time.Sleep(30 * time.Millisecond)
		}
		s.obs("abandon ok")
	})
	// viewerrheld F path=view|view-raw : a request the server cannot answer (an archive the file does not have), made to
	// a server in a process of its own (nothing there runs the garbage collector on the driver's behalf).  The
	// session is over when the answer has arrived: a new Open gets the file within seconds.
	register("viewerrheld", func(s *sess, tk []string) {
		f := s.file(tk[1])
		s.closeAll()
		a := parseKV(tk[2:])
		u := s.serverURLFor(s.dir)
		rel, _ := filepath.Rel(s.dir, f.path)
		now := wt.Timestamp(time.Now().Unix())
		q := fmt.Sprintf("%s/%s?file=%s&retention=%d&from=%s&until=%s&now=%s", u, a.str("path", "view"), url.QueryEscape(rel), a.num("archive", 7),
			url.QueryEscape(wt.Timestamp(0).String()), url.QueryEscape(now.String()), url.QueryEscape(now.String()))
		resp, err := http.Get(q)
		if err == nil {
			io.Copy(io.Discard, resp.Body)
			resp.Body.Close()
		}
		res := "stuck"
		deadline := time.Now().Add(4 * time.Second)
		for time.Now().Before(deadline) {
			if free, err := flockProbe(f.path); err == nil && free {
				res = "released"
				break
			}
			time.Sleep(20 * time.Millisecond)
		}
		s.obs("viewerrheld %s", res)
	})
	// clibigsum n=N : an item of two files with one archive of N slots (a few of them written): the sum through the
	// directory and through a server give the same report, however long the answer is.  No model is involved.
	handlers["clibigsum"] = func(s *sess, tk []string) {
		a := parseKV(tk[1:])
		s.closeAll()
		n := uint32(a.num("n", 100000))
		now := time.Now().Unix()
		for j := 0; j < 2; j++ {
			p := filepath.Join(s.dir, "big", "i1", fmt.Sprintf("f%d.wsp", j))
			must(os.MkdirAll(filepath.Dir(p), 0755))
			db, err := wt.Create(p, wt.ArchiveInfoList{wt.NewArchiveInfo(1, n)}, wt.Sum, 0)
			must(err)
			var pts []wt.Point
			for _, off := range []int64{0, 1, 17, int64(n) / 4, int64(n) / 2} {
				pts = append(pts, wt.Point{Time: wt.Timestamp(now - off), Value: wt.Value(float64(j + 1))})
			}
			must(db.UpdatePointsForArchive(pts, 0, wt.Timestamp(now)))
			must(db.Sync())
			db.Close()
		}
		var outs, sts [2]string
		until := wt.Timestamp(now)
		for i, remote := range []bool{false, true} {
			srcBase, prefix := s.srcBaseFor("big", remote)
			to, readOut := s.textOut("file")
			c := &cmd.SumCommand{SrcBase: srcBase, ItemPattern: filepath.Join(prefix, "i1"), SrcPattern: "*.wsp", From: wt.Timestamp(now - int64(n)/2 - 100), Until: until,
				ArchiveID: 0, TextOut: to, ShowHeader: false}
			err, panicked := runCmd(c.Execute)
			sts[i] = statusOf(err, panicked)
			// the clock may have moved between the two runs: only the slots both windows cover are compared
			var keep []string
			for _, l := range strings.Split(readOut(), "\n") {
				if strings.Contains(l, "NaN") || l == "" || strings.HasPrefix(l, "now:") { // (the item line names the item as the base sees it)
					continue
				}
				keep = append(keep, l)
			}
			outs[i] = strings.Join(keep, "\n")
			os.Remove(to)
		}
		if outs[0] != outs[1] && os.Getenv("WTDRIVER_DEBUG") != "" {
			la, lb := strings.Split(outs[0], "\n"), strings.Split(outs[1], "\n")
			fmt.Fprintf(os.Stderr, "clibigsum: %d vs %d lines\n", len(la), len(lb))
			for i := 0; i < len(la) && i < len(lb); i++ {
				if la[i] != lb[i] {
					fmt.Fprintf(os.Stderr, "clibigsum differs at %d:\n%q\n%q\n", i, la[i], lb[i])
					break
				}
			}
		}
		s.echo(strings.Join(tk, " "))
		s.obs("clibigsum same=%v local=%s", sts[0] == sts[1] && outs[0] == outs[1], sts[0])
		os.RemoveAll(filepath.Join(s.dir, "big"))
	}
}

var _ = bytes.MinRead
