package main

import (
	"fmt"
	"math"
	"os"
	"path/filepath"
	"strings"
	"sync"
	"time"

	wt "github.com/hnakamur/whispertool"
	"github.com/hnakamur/whispertool/cmd"
)

func init() {
	// clicopy2 A B D : two copy commands, from the sources A and B (which hold values at different instants)
	// into the ONE existing destination D, started together while both sources are kept locked for a moment, so
	// that both commands are under way before either can read its source.  Sessions on one file are serial (C13)
	// and a copy writes the slots in which its source has a value (C08): afterwards D holds every value of A and
	// every value of B, whichever command came first.  The observation is the number of source values missing.
	register("clicopy2", func(s *sess, tk []string) {
		s.closeAll()
		s.echo(strings.Join(tk, " "))
		fa, fb, fd := s.file(tk[1]), s.file(tk[2]), s.file(tk[3])
		var holds []*os.File
		for _, f := range []*dbfile{fa, fb} {
			if h, err := os.Open(f.path); err == nil && flockEx(h) == nil {
				holds = append(holds, h)
			}
		}
		go func() {
			time.Sleep(400 * time.Millisecond)
			for _, h := range holds {
				h.Close()
			}
		}()
		// the options that describe a destination to be created (it exists already: they repeat what it is)
		var hdr *wt.Header
		if db, err := wt.Open(fd.path); err == nil {
			hdr = db.Header()
			db.Close()
		}
		if hdr == nil {
			s.obs("clicopy2 destination unreadable")
			return
		}
		st := make([]string, 2)
		var wg sync.WaitGroup
		for i, f := range []*dbfile{fa, fb} {
			wg.Add(1)
			go func(i int, f *dbfile) {
				defer wg.Done()
				defer func() {
					if r := recover(); r != nil {
						st[i] = "panic"
					}
				}()
				c := &cmd.CopyCommand{SrcBase: filepath.Dir(f.path), SrcRelPath: filepath.Base(f.path),
					DestBase: filepath.Dir(fd.path), DestRelPath: filepath.Base(fd.path), ArchiveID: -1, TextOut: filepath.Join(s.dir, fmt.Sprintf("copy2-%d.out", i)),
					AggregationMethod: hdr.AggregationMethod(), XFilesFactor: hdr.XFilesFactor(), ArchiveInfoList: hdr.ArchiveInfoList()}
				err := c.Execute()
				if err != nil && os.Getenv("WTDRIVER_DEBUG") != "" {
					fmt.Fprintln(os.Stderr, "clicopy2:", err)
				}
				st[i] = statusOf(err, false)
			}(i, f)
		}
		wg.Wait()
		lost := 0
		now := wt.Timestamp(time.Now().Unix())
		read := func(path string) []wt.Value {
			db, err := wt.Open(path)
			if err != nil {
				return nil
			}
			defer db.Close()
			ret := db.Header().ArchiveInfoList()[0].MaxRetention()
			ts, err := db.FetchFromArchive(0, now.Add(-ret).Add(2), now, now)
			if err != nil || ts == nil {
				return nil
			}
			return ts.Values()
		}
		dv := read(fd.path)
		for _, f := range []*dbfile{fa, fb} {
			sv := read(f.path)
			for j, v := range sv {
				if !math.IsNaN(float64(v)) && (j >= len(dv) || dv[j] != v) {
					lost++
				}
			}
		}
		s.obs("clicopy2 st=%s,%s lost=%d", st[0], st[1], lost)
	})
}
