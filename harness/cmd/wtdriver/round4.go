package main

import (
	"fmt"
	"math"
	"os"
	"path/filepath"
	"strings"
	"sync/atomic"
	"syscall"
	"time"

	wt "github.com/hnakamur/whispertool"
	"github.com/hnakamur/whispertool/cmd"
)

// fetchAll renders what a handle shows of every archive over its whole retention.
func fetchAll(db *wt.Whisper, now wt.Timestamp) string {
	var b strings.Builder
	for i, a := range db.ArchiveInfoList() {
		ts, err := db.FetchFromArchive(i, now.Add(-a.MaxRetention()), now, now)
		if err != nil || ts == nil {
			fmt.Fprintf(&b, "%d:err;", i)
			continue
		}
		for _, p := range ts.Points() {
			fmt.Fprintf(&b, "%d:%s,", uint32(p.Time), showVal(p.Value))
		}
		b.WriteByte(';')
	}
	return b.String()
}

func init() {
	// dblclose A B : the lock lives exactly as long as a handle.  Handle a on A is closed, handle b
	// on B is opened (it usually receives the descriptor number a had), a is closed a second time:
	// b is still open, so B must still be locked.
	register("dblclose", func(s *sess, tk []string) {
		fa, fb := s.file(tk[1]), s.file(tk[2])
		held := true
		for round := 0; round < 3 && held; round++ {
			a, err := wt.Open(fa.path)
			if err != nil {
				s.obs("dblclose openerr")
				return
			}
			a.Close()
			b, err := wt.Open(fb.path)
			if err != nil {
				s.obs("dblclose openerr")
				return
			}
			a.Close() // the second Close of a: an error, and no effect on any other handle
			free, perr := flockProbe(fb.path)
			must(perr)
			held = !free
			b.Close()
		}
		s.obs("dblclose held=%v", held)
	})
	// unwritable NAME t vhex now : a file the process may read but not write (mode 0444; the
	// effective uid is dropped while it runs as root).  Whatever Open, the update and Sync
	// acknowledge must be what a later handle reads (C05); refusing to open is fine.
	// rosync NAME t vhex now : the same through a handle opened with the read-only flag option
	// (the file itself stays writable)
	unwritable := func(s *sess, tk []string) {
		f := s.file(tk[1])
		t, v, now := wt.Timestamp(atoi(tk[2])), hexv(tk[3]), wt.Timestamp(atoi(tk[4]))
		if f.db != nil {
			f.db.Close()
			f.db = nil
		}
		if tk[0] == "unwritable" {
			must(os.Chmod(f.path, 0444))
		}
		type saved struct {
			dir  string
			mode os.FileMode
		}
		var restore []saved
		dropped := false
		if os.Geteuid() == 0 && tk[0] == "unwritable" {
			for _, d := range []string{s.root, filepath.Dir(s.root)} {
				if st, err := os.Stat(d); err == nil && st.Mode().Perm()&0011 != 0011 {
					os.Chmod(d, st.Mode().Perm()|0011) // (left searchable: see asNobody)
				}
			}
			dropped = syscall.Seteuid(65534) == nil
		}
		acked, live := false, ""
		var opts []wt.Option
		if tk[0] == "rosync" {
			// read-only access mode, alone or with a further flag bit (token 5: nofollow, cloexec, sync)
			flag := os.O_RDONLY
			if len(tk) > 5 {
				switch tk[5] {
				case "nofollow":
					flag |= syscall.O_NOFOLLOW
				case "cloexec":
					flag |= syscall.O_CLOEXEC
				case "sync":
					flag |= os.O_SYNC
				}
			}
			opts = append(opts, wt.WithOpenFileFlag(flag))
		}
		db, err := wt.Open(f.path, opts...)
		if err == nil {
			e1 := db.UpdatePointForArchive(wt.ArchiveIDBest, t, v, now)
			e2 := db.Sync()
			acked = e1 == nil && e2 == nil
			live = fetchAll(db, now)
			db.Close()
		}
		if dropped {
			must(syscall.Seteuid(0))
		}
		for _, r := range restore {
			os.Chmod(r.dir, r.mode)
		}
		must(os.Chmod(f.path, 0644))
		durable := true
		if acked {
			db2, err := wt.Open(f.path, wt.WithoutFlock())
			must(err)
			durable = fetchAll(db2, now) == live
			db2.Close()
		}
		s.obs("%s durable=%v", tk[0], durable)
	}
	register("unwritable", unwritable)
	register("rosync", unwritable)
	// reuse PRODUCER m xff k s n ... | j item ... : a header built from ArchiveInfo values that were
	// already part of another list (item "o<i>": element i of the first list, as left behind by
	// NewHeader, by the retention parser or by a created and reopened file; item "n<s>:<n>": a new
	// value).  Acceptance depends on steps and point counts only: the observation is that of
	// "enc header m xff j ...".
	register("reuse", func(s *sess, tk []string) {
		bar := -1
		for i, t := range tk {
			if t == "|" {
				bar = i
			}
		}
		m := wt.AggregationMethod(atoi(tk[2]))
		x := math.Float32frombits(uint32(hex64(tk[3])))
		l1, _ := parseLayout(tk[4:bar])
		switch tk[1] {
		case "newheader":
			wt.NewHeader(wt.Sum, 0.5, l1)
		case "parse":
			var parts []string
			for _, a := range l1 {
				parts = append(parts, fmt.Sprintf("%ds:%ds", int32(a.SecondsPerPoint()), int64(int32(a.SecondsPerPoint()))*int64(a.NumberOfPoints())))
			}
			if l, err := wt.ParseArchiveInfoList(strings.Join(parts, ",")); err == nil {
				l1 = l
			}
		case "create":
			p := filepath.Join(s.dir, fmt.Sprintf("reuse%d.wsp", len(tk)))
			if db, err := wt.Create(p, l1, wt.Sum, 0.5); err == nil {
				db.Sync()
				db.Close()
				if db2, err := wt.Open(p); err == nil {
					l1 = db2.ArchiveInfoList()
					db2.Close()
				}
			}
			os.Remove(p)
		}
		var final wt.ArchiveInfoList
		for _, it := range tk[bar+2:] {
			if it[0] == 'o' {
				final = append(final, l1[atoi(it[1:])])
			} else {
				sn := strings.Split(it[1:], ":")
				final = append(final, wt.NewArchiveInfo(wt.Duration(int32(uint32(atoi(sn[0])))), uint32(atoi(sn[1]))))
			}
		}
		h, err := wt.NewHeader(m, x, final)
		if err != nil {
			s.obs("enc err")
			return
		}
		s.obs("enc %s", showHeader(h))
	})
}

func init() {
	// recreate NAME k s n ... m M x X : Create over whatever file is there (open flag without O_EXCL),
	// Sync, Close: the file has exactly the length its new header describes
	register("recreate", func(s *sess, tk []string) {
		f := s.file(tk[1])
		if f.db != nil {
			f.db.Close()
			f.db = nil
		}
		l, rest := parseLayout(tk[2:])
		m := wt.AggregationMethod(atoi(rest[1]))
		x := math.Float32frombits(uint32(hex64(rest[3])))
		db, err := wt.Create(f.path, l, m, x, wt.WithoutFlock(), wt.WithOpenFileFlag(os.O_RDWR|os.O_CREATE))
		if err != nil {
			s.obs("recreate err")
			return
		}
		err = db.Sync()
		db.Close()
		st, serr := os.Stat(f.path)
		must(serr)
		if err != nil {
			s.obs("recreate syncerr")
			return
		}
		s.obs("recreate ok size=%d", st.Size())
	})
}

func init() {
	// lockcreate NAME : the handle returned by Create (default options) holds the file like any other
	// handle: a second Open waits until it is closed
	register("lockcreate", func(s *sess, tk []string) {
		f := s.file(tk[1])
		os.Remove(f.path)
		a, err := wt.Create(f.path, wt.ArchiveInfoList{wt.NewArchiveInfo(1, 20), wt.NewArchiveInfo(5, 10)}, wt.Sum, 0.5)
		if err != nil {
			s.obs("lockcreate createerr")
			return
		}
		must(a.Sync())
		acquired := make(chan error, 1)
		got := int32(0)
		go func() {
			b, err := wt.Open(f.path)
			atomic.StoreInt32(&got, 1)
			if err == nil {
				b.Close()
			}
			acquired <- err
		}()
		time.Sleep(150 * time.Millisecond)
		blocked := atomic.LoadInt32(&got) == 0
		a.Close()
		ok := false
		select {
		case err := <-acquired:
			ok = err == nil
		case <-time.After(5 * time.Second):
		}
		s.obs("lockcreate blocked=%v acquired=%v", blocked, ok)
	})
	// symlink TARGET LINK : LINK (a name in the case directory) becomes a symbolic link to the file TARGET
	register("symlink", func(s *sess, tk []string) {
		t, l := s.file(tk[1]), s.file(tk[2])
		os.Remove(l.path)
		rel, err := filepath.Rel(filepath.Dir(l.path), t.path)
		must(err)
		must(os.Symlink(rel, l.path))
		s.obs("symlink ok")
	})
}

func init() {
	// olddir NAME secs : the modification time of the directory NAME (relative to the case) is set secs seconds
	// into the past -- a tree that has not changed for a while (nothing the model knows about)
	register("olddir", func(s *sess, tk []string) {
		t := time.Now().Add(-time.Duration(atoi(tk[2])) * time.Second)
		must(os.Chtimes(filepath.Join(s.dir, tk[1]), t, t))
		s.obs("olddir ok")
	})
	// rmfile NAME : the file is removed (its handle, if the driver holds one, is closed first)
	register("rmfile", func(s *sess, tk []string) {
		s.closeAll()
		must(os.Remove(filepath.Join(s.dir, tk[1])))
		s.obs("rmfile ok")
	})
}

func init() {
	// createshared A B k s n ... m M x X : two files created from ONE ArchiveInfoList value (a schema
	// parsed once, Create called in a loop); both handles stay open as A and B
	register("createshared", func(s *sess, tk []string) {
		fa, fb := s.file(tk[1]), s.file(tk[2])
		l, rest := parseLayout(tk[3:])
		m := wt.AggregationMethod(atoi(rest[1]))
		x := math.Float32frombits(uint32(hex64(rest[3])))
		for _, f := range []*dbfile{fa, fb} {
			db, err := wt.Create(f.path, l, m, x, wt.WithoutFlock())
			if err != nil {
				s.obs("createshared err")
				return
			}
			f.db = db
			f.digest, f.size = fileDigest(f.path)
		}
		s.obs("createshared ok")
	})
}

func init() {
	// recreatewait NAME : a Create over the existing file NAME (open flag without O_EXCL, default lock)
	// arrives while another handle holds the file: until that handle is closed the file is as it was
	register("recreatewait", func(s *sess, tk []string) {
		f := s.file(tk[1])
		if f.db != nil {
			f.db.Close()
			f.db = nil
		}
		a, err := wt.Open(f.path)
		if err != nil {
			s.obs("recreatewait openerr")
			return
		}
		before, _ := os.ReadFile(f.path)
		done := make(chan error, 1)
		go func() {
			b, err := wt.Create(f.path, a.ArchiveInfoList(), a.AggregationMethod(), a.XFilesFactor(), wt.WithOpenFileFlag(os.O_RDWR|os.O_CREATE))
			if err == nil {
				err = b.Sync()
				b.Close()
			}
			done <- err
		}()
		time.Sleep(200 * time.Millisecond)
		during, _ := os.ReadFile(f.path)
		intact := string(before) == string(during)
		a.Close()
		select {
		case <-done:
		case <-time.After(5 * time.Second):
		}
		s.obs("recreatewait intact=%v", intact)
	})
	// cliwsitem : an item directory whose name contains a blank, summed through the directory and
	// through the server: item globbing gives the same item names both ways
	handlers["cliwsitem"] = func(s *sess, tk []string) {
		s.echo(strings.Join(tk, " "))
		l := wt.ArchiveInfoList{wt.NewArchiveInfo(1, 10)}
		for _, name := range []string{"ws/x y/a.wsp", "ws/z\tw/a.wsp"} {
			p := filepath.Join(s.dir, strings.ReplaceAll(name, "\\t", "\t"))
			must(os.MkdirAll(filepath.Dir(p), 0755))
			db, err := wt.Create(p, l, wt.Sum, 0.5)
			must(err)
			must(db.Sync())
			db.Close()
		}
		run := func(base, prefix string) string {
			c := &cmd.SumCommand{SrcBase: base, ItemPattern: filepath.Join(prefix, "ws", "*"), SrcPattern: "*.wsp", ArchiveID: -1, TextOut: "", ShowHeader: true}
			err, panicked := runCmd(c.Execute)
			return statusOf(err, panicked)
		}
		s.obs("cliwsitem local=%s remote=%s", run(s.root, filepath.Base(s.dir)), run(s.serverURL(), filepath.Base(s.dir)))
	}
}

func init() {
	// setmaxret NAME v : the max-retention word of the header (file bytes 4..7) is overwritten with v,
	// as a foreign tool that resized the file and left the metadata stale would leave it; the word is
	// independent of the archive list and is what Header.MaxRetention reports
	register("setmaxret", func(s *sess, tk []string) {
		f := s.file(tk[1])
		if f.db != nil {
			f.db.Close()
			f.db = nil
		}
		fh, err := os.OpenFile(f.path, os.O_RDWR, 0)
		must(err)
		v := uint32(atoi(tk[2]))
		_, err = fh.WriteAt([]byte{byte(v >> 24), byte(v >> 16), byte(v >> 8), byte(v)}, 4)
		must(err)
		must(fh.Close())
		s.obs("setmaxret ok")
	})
}
